/-
Property C18, last clause: "`versions(p)` enumerates exactly what was added, versions ascending".

`OfflineDependencyProvider::versions(p)` of `/repo/src/solver.rs` is `self.dependencies.get(p).map(|k| k.keys())`:
the keys of a `BTreeMap<V, _>`, i.e. the added versions in strictly ascending order.  The model
`Offline.versionsOf` is unordered (insertion order of the association list); `sortedVersions` is its
ascending enumeration.  `choose_version` is `keys().rev().find(|v| range.contains(v))`: the last
element of the ascending enumeration that lies in the set (`chooseVersion_eq_last`).
-/
import PubgrubProofs.OfflineLaws

namespace Pubgrub
namespace Offline

/-! ### insertion sort (ascending) -/

section SortDefs
variable {V : Type} [LT V] [DecidableLT V]

/-- insert `x` into an ascending list (before the first element greater than `x`) -/
def insertAsc (x : V) : List V → List V
  | [] => [x]
  | y :: ys => if x < y then x :: y :: ys else y :: insertAsc x ys

/-- insertion sort, ascending -/
def sortAsc : List V → List V
  | [] => []
  | x :: xs => insertAsc x (sortAsc xs)

theorem insertAsc_perm (x : V) (l : List V) : (insertAsc x l).Perm (x :: l) := by
  induction l with
  | nil => exact List.Perm.refl _
  | cons y ys ih =>
    unfold insertAsc
    split
    · exact List.Perm.refl _
    · exact ((List.Perm.cons y ih).trans (List.Perm.swap x y ys))

theorem sortAsc_perm (l : List V) : (sortAsc l).Perm l := by
  induction l with
  | nil => exact List.Perm.refl _
  | cons x xs ih => exact (insertAsc_perm x _).trans (List.Perm.cons x ih)

theorem mem_insertAsc (x a : V) (l : List V) : a ∈ insertAsc x l ↔ a = x ∨ a ∈ l := by
  rw [(insertAsc_perm x l).mem_iff, List.mem_cons]

theorem mem_sortAsc (a : V) (l : List V) : a ∈ sortAsc l ↔ a ∈ l :=
  (sortAsc_perm l).mem_iff

theorem length_sortAsc (l : List V) : (sortAsc l).length = l.length :=
  (sortAsc_perm l).length_eq

end SortDefs

section SortOrder
variable {V : Type} [LinearOrder V]

theorem insertAsc_pairwise_le (x : V) (l : List V) (h : l.Pairwise (· ≤ ·)) :
    (insertAsc x l).Pairwise (· ≤ ·) := by
  induction l with
  | nil => simp [insertAsc]
  | cons y ys ih =>
    rw [List.pairwise_cons] at h
    unfold insertAsc
    split
    · rename_i hxy
      rw [List.pairwise_cons]
      refine ⟨?_, List.pairwise_cons.mpr h⟩
      intro a ha
      rcases List.mem_cons.mp ha with rfl | ha
      · exact le_of_lt hxy
      · have := h.1 a ha
        order
    · rename_i hxy
      rw [List.pairwise_cons]
      refine ⟨?_, ih h.2⟩
      intro a ha
      rcases (mem_insertAsc x a ys).mp ha with rfl | ha
      · order
      · exact h.1 a ha

theorem sortAsc_pairwise_le (l : List V) : (sortAsc l).Pairwise (· ≤ ·) := by
  induction l with
  | nil => simp [sortAsc]
  | cons x xs ih => exact insertAsc_pairwise_le x _ ih

theorem sortAsc_nodup (l : List V) (h : l.Nodup) : (sortAsc l).Nodup :=
  (sortAsc_perm l).nodup_iff.mpr h

/-- duplicate-free input: the result is strictly ascending -/
theorem sortAsc_pairwise_lt (l : List V) (h : l.Nodup) : (sortAsc l).Pairwise (· < ·) := by
  have h1 := sortAsc_pairwise_le l
  have h2 : (sortAsc l).Pairwise (· ≠ ·) := sortAsc_nodup l h
  exact (h1.and h2).imp (fun ⟨hle, hne⟩ => lt_of_le_of_ne hle hne)

/-- the last element of an ascending list is a greatest element -/
theorem getLast?_of_pairwise_le (l : List V) (h : l.Pairwise (· ≤ ·)) (v : V)
    (hv : l.getLast? = some v) : v ∈ l ∧ ∀ w ∈ l, w ≤ v := by
  obtain ⟨ys, rfl⟩ := List.getLast?_eq_some_iff.mp hv
  rw [List.pairwise_append] at h
  refine ⟨by simp, ?_⟩
  intro w hw
  rcases List.mem_append.mp hw with hw | hw
  · exact h.2.2 w hw v (by simp)
  · simp at hw
    subst hw
    exact le_refl _

end SortOrder

/-! ### `versions(p)`: the keys of the `BTreeMap`, ascending -/

section Versions
variable {P S V : Type} [DecidableEq P]

/-- `versions(p)`: the added versions of `p` in ascending order (`BTreeMap::keys`) -/
def sortedVersions [LT V] [DecidableLT V] (o : Offline P S V) (p : P) : List V :=
  sortAsc (versionsOf o p)

/-- same elements with the same multiplicities as the unordered `versionsOf` (any store) -/
theorem sortedVersions_perm_of [LT V] [DecidableLT V] (o : Offline P S V) (p : P) :
    (sortedVersions o p).Perm (versionsOf o p) :=
  sortAsc_perm _

theorem mem_sortedVersions_of [LT V] [DecidableLT V] (o : Offline P S V) (p : P) (v : V) :
    v ∈ sortedVersions o p ↔ v ∈ versionsOf o p :=
  mem_sortAsc v _

theorem length_sortedVersions_of [LT V] [DecidableLT V] (o : Offline P S V) (p : P) :
    (sortedVersions o p).length = (versionsOf o p).length :=
  length_sortAsc _

variable [LinearOrder V]

/-- ascending for any store (weakly: a raw store may repeat a key) -/
theorem sortedVersions_sorted_le (o : Offline P S V) (p : P) :
    (sortedVersions o p).Pairwise (· ≤ ·) :=
  sortAsc_pairwise_le _

/-- strictly ascending for any store with distinct keys -/
theorem sortedVersions_sorted_of (o : Offline P S V) (h : (o.map Prod.fst).Nodup) (p : P) :
    (sortedVersions o p).Pairwise (· < ·) :=
  sortAsc_pairwise_lt _ (versionsOf_nodup_of o h p)

/-- C18: `versions(p)` is strictly ascending -/
theorem sortedVersions_sorted (ops : List (AddOp P S V)) (p : P) :
    (sortedVersions (run ops) p).Pairwise (· < ·) :=
  sortedVersions_sorted_of _ (run_nodupKeys ops) p

/-- C18: `versions(p)` enumerates exactly the versions added for `p` -/
theorem mem_sortedVersions (ops : List (AddOp P S V)) (p : P) (v : V) :
    v ∈ sortedVersions (run ops) p ↔ ∃ op ∈ ops, op.p = p ∧ op.v = v := by
  rw [mem_sortedVersions_of, mem_versionsOf_run]

/-- C18: `versions(p)` is a permutation of the unordered enumeration `versionsOf` -/
theorem sortedVersions_perm (ops : List (AddOp P S V)) (p : P) :
    (sortedVersions (run ops) p).Perm (versionsOf (run ops) p) :=
  sortedVersions_perm_of _ p

theorem sortedVersions_nodup (ops : List (AddOp P S V)) (p : P) :
    (sortedVersions (run ops) p).Nodup :=
  (sortedVersions_perm ops p).nodup_iff.mpr (versionsOf_nodup ops p)

/-- each added version is listed exactly once -/
theorem count_sortedVersions (ops : List (AddOp P S V)) (p : P) (v : V) :
    (sortedVersions (run ops) p).count v = if ∃ op ∈ ops, op.p = p ∧ op.v = v then 1 else 0 := by
  rw [(sortedVersions_nodup ops p).count]
  simp only [mem_sortedVersions]

/-- `versions(p)` is `None` (here: empty) exactly for the packages never added -/
theorem sortedVersions_eq_nil_iff (ops : List (AddOp P S V)) (p : P) :
    sortedVersions (run ops) p = [] ↔ ∀ op ∈ ops, op.p ≠ p := by
  rw [List.eq_nil_iff_forall_not_mem]
  constructor
  · intro h op hop hp
    exact h op.v ((mem_sortedVersions ops p op.v).mpr ⟨op, hop, hp, rfl⟩)
  · intro h v hv
    obtain ⟨op, hop, hp, -⟩ := (mem_sortedVersions ops p v).mp hv
    exact h op hop hp

/-! ### `choose_version` = `keys().rev().find(|v| range.contains(v))` -/

variable [VersionSet S V]

/-- for any store: the fold of the model picks the last element of the ascending enumeration that
lies in the set -/
theorem chooseVersion_eq_last_of (o : Offline P S V) (p : P) (s : S) :
    chooseVersion o p s =
      ((sortedVersions o p).filter (fun v => VersionSet.contains s v)).getLast? := by
  cases h : ((sortedVersions o p).filter (fun v => VersionSet.contains s v)).getLast? with
  | none =>
    rw [List.getLast?_eq_none_iff, List.filter_eq_nil_iff] at h
    rw [chooseVersion_eq_none_iff]
    intro w hw
    have := h w ((mem_sortedVersions_of o p w).mpr hw)
    simpa using this
  | some v =>
    have hs : ((sortedVersions o p).filter (fun v => VersionSet.contains s v)).Pairwise (· ≤ ·) :=
      (sortedVersions_sorted_le o p).sublist List.filter_sublist
    obtain ⟨h1, h2⟩ := getLast?_of_pairwise_le _ hs v h
    rw [chooseVersion_eq_some_iff]
    rw [List.mem_filter, mem_sortedVersions_of] at h1
    refine ⟨h1.1, h1.2, ?_⟩
    intro w hw hc
    exact h2 w (List.mem_filter.mpr ⟨(mem_sortedVersions_of o p w).mpr hw, hc⟩)

/-- C18: `choose_version` on the provider built by `ops` -/
theorem chooseVersion_eq_last (ops : List (AddOp P S V)) (p : P) (s : S) :
    chooseVersion (run ops) p s =
      ((sortedVersions (run ops) p).filter (fun v => VersionSet.contains s v)).getLast? :=
  chooseVersion_eq_last_of _ p s

/-- the same with the Rust shape: first match of the reversed key list -/
theorem chooseVersion_eq_find_rev (ops : List (AddOp P S V)) (p : P) (s : S) :
    chooseVersion (run ops) p s =
      (sortedVersions (run ops) p).reverse.find? (fun v => VersionSet.contains s v) := by
  rw [chooseVersion_eq_last, List.getLast?_eq_head?_reverse, ← List.filter_reverse,
    List.head?_filter]

end Versions

/-! ### Non-vacuity -/

section Example

private def bs' (b0 b1 b2 b3 : Bool) : BitSet 4 := ⟨[b0, b1, b2, b3]⟩

/-- versions of package `0` added in the order `3, 1, 2`, with `1` added twice -/
private def exOps' : List (AddOp Nat (BitSet 4) Nat) :=
  [ ⟨0, 3, []⟩, ⟨0, 1, [(1, bs' true false false false)]⟩, ⟨1, 2, []⟩, ⟨0, 2, []⟩, ⟨0, 1, []⟩ ]

example : versionsOf (run exOps') 0 = [3, 1, 2] := by decide
example : sortedVersions (run exOps') 0 = [1, 2, 3] := by decide
example : sortedVersions (run exOps') 1 = [2] := by decide
example : sortedVersions (run exOps') 2 = [] := by decide
example : chooseVersion (run exOps') 0 (bs' false true true false) = some 2 := by decide
example : ((sortedVersions (run exOps') 0).filter
    (fun v => VersionSet.contains (bs' false true true false) v)).getLast? = some 2 := by decide
example : (sortedVersions (run exOps') 0).reverse.find?
    (fun v => VersionSet.contains (bs' false true true false) v) = some 2 := by decide

-- the abstract theorems instantiate at the concrete types of the driver
example (ops : List (AddOp Nat (BitSet 4) Nat)) (s : BitSet 4) :
    chooseVersion (run ops) 0 s =
      ((sortedVersions (run ops) 0).filter (fun v => VersionSet.contains s v)).getLast? :=
  chooseVersion_eq_last ops 0 s
example (ops : List (AddOp String (Range Nat) Nat)) :
    (sortedVersions (run ops) "a").Pairwise (· < ·) :=
  sortedVersions_sorted ops "a"

end Example

end Offline
end Pubgrub

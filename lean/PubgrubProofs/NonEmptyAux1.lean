/-
Helpers for `NonEmpty.lean`, part 1: inhabited terms, and "every negative term of a stored
incompatibility is over a set with a member" as a consequence of the store invariant.
(The definitions of the target file are restated here under other names, because the helper files are
imported by the target file: `CanonEmpty` = `CanonicalEmpty.eq_empty_of_no_member`, `Term.Inh` =
`Term.Inhabited`, `PartialSolution.NE` = `PartialSolution.NonEmpty`.)
-/
import PubgrubProofs.SatisfierTheory

set_option linter.unusedSectionVars false
set_option linter.unusedVariables false

namespace Pubgrub
open VersionSet

section
variable {P S V M Pr : Type} [DecidableEq P] [VersionSet S V] [DecidableEq S] [LawfulVersionSet S V]

/-- canonical emptiness as a plain hypothesis -/
def CanonEmpty (S V : Type) [VersionSet S V] [LawfulVersionSet S V] : Prop :=
  ∀ s : S, LawfulVersionSet.Valid V s → (∀ v : V, VersionSet.contains s v = false) → s = (empty : S)

/-- a term that some choice makes true -/
def Term.Inh : Term S → Prop
  | .pos s => ∃ v : V, VersionSet.contains s v = true
  | .neg _ => True

/-- a negative term is over a set with a member -/
def Term.NegInh : Term S → Prop
  | .pos _ => True
  | .neg s => ∃ v : V, VersionSet.contains s v = true

/-- every current and every accumulated term of the partial solution is inhabited -/
def PartialSolution.NE (ps : PartialSolution P S V Pr) : Prop :=
  ∀ p pa, (p, pa) ∈ ps.assignments →
    Term.Inh (V := V) pa.inter.term ∧ ∀ dd ∈ pa.dated, Term.Inh (V := V) dd.accumulated

namespace Term

theorem inh_of_eval {t : Term S} {c : Option V} (h : t.eval c = true) : t.Inh := by
  cases t with
  | neg s => trivial
  | pos s =>
    cases c with
    | none => simp [Term.eval] at h
    | some v => exact ⟨v, h⟩

theorem inh_exact (v : V) : (Term.exact v : Term S).Inh :=
  inh_of_eval ((eval_exact v (some v)).2 rfl)

/-- a term not included in `c` meets the negation of `c` -/
theorem inh_inter_negate {t c : Term S} (ht : t.Valid) (hc : c.Valid) (h : ¬ t.Imp c) :
    (t.intersection c.negate).Inh := by
  unfold Term.Imp at h
  obtain ⟨x, hx⟩ := Classical.not_forall.1 h
  obtain ⟨h1, h2⟩ := Classical.not_imp.1 hx
  apply inh_of_eval (c := x)
  rw [eval_intersection t _ ht (valid_negate c hc), eval_negate, h1]
  cases hcx : c.eval x
  · rfl
  · exact absurd hcx h2

theorem inh_negate {t : Term S} (h : t.NegInh) : t.negate.Inh := by
  cases t with
  | pos s => trivial
  | neg s => exact h

/-- a valid set that is not `empty` has a member -/
theorem _root_.Pubgrub.CanonEmpty.member (ce : CanonEmpty S V) {s : S} (hv : LawfulVersionSet.Valid V s)
    (hne : s ≠ (VersionSet.empty : S)) : ∃ v : V, VersionSet.contains s v = true := by
  apply Classical.byContradiction
  intro hn
  apply hne
  apply ce s hv
  intro v
  cases hc : VersionSet.contains s v
  · rfl
  · exact absurd ⟨v, hc⟩ hn

theorem negInh_intersection {a b : Term S} (ha : a.Valid) (hb : b.Valid) (h1 : a.NegInh) (h2 : b.NegInh) :
    (a.intersection b).NegInh := by
  cases a with
  | pos r1 => cases b <;> trivial
  | neg r1 =>
    cases b with
    | pos r2 => trivial
    | neg r2 =>
      obtain ⟨v, hv⟩ := h1
      refine ⟨v, ?_⟩
      show VersionSet.contains (VersionSet.union r1 r2) v = true
      rw [LawfulVersionSet.contains_union r1 r2 v ha hb, hv]; rfl

theorem negInh_of_ne_any (ce : CanonEmpty S V) {t : Term S} (hv : t.Valid) (hne : t ≠ (Term.any : Term S)) :
    t.NegInh := by
  cases t with
  | pos s => trivial
  | neg s =>
    apply ce.member hv
    intro e
    apply hne
    rw [e]; rfl

end Term

namespace Incompat

/-- all negative terms of the incompatibility are over sets with a member -/
def NegInh (i : Incompat P S V M) : Prop := ∀ p t, (p, t) ∈ i.terms → Term.NegInh (V := V) t

theorem priorCause_negInh (ce : CanonEmpty S V) (ia ib : Incompat P S V M)
    (na : SmallMap.NoDupKeys ia.terms) (nb : SmallMap.NoDupKeys ib.terms)
    (sa : ia.SetsValid) (sb : ib.SetsValid) (ha : ia.NegInh) (hb : ib.NegInh) (a b : Nat) (pivot : P)
    (r : Incompat P S V M) (hr : priorCause a b ia ib pivot = .ok r) : r.NegInh := by
  obtain ⟨t1, t2, merged, hg1, hg2, hnm, hm, _, hterms⟩ := priorCause_spec ia ib na nb a b pivot r hr
  have v1 : t1.Valid := sa _ _ (SmallMap.mem_of_get hg1)
  have v2 : t2.Valid := sb _ _ (SmallMap.mem_of_get hg2)
  have hmerged : ∀ k t, (k, t) ∈ merged → Term.NegInh (V := V) t := by
    intro k t hkt
    have hg := SmallMap.get_of_mem hnm hkt
    rw [hm k] at hg
    split at hg
    · cases hg
    · cases hx : SmallMap.get ia.terms k <;> cases hy : SmallMap.get ib.terms k <;>
        rw [hx, hy] at hg <;> simp only [SmallMap.mergeOpt, Option.some.injEq, reduceCtorEq] at hg <;>
        subst hg
      · exact hb _ _ (SmallMap.mem_of_get hy)
      · exact ha _ _ (SmallMap.mem_of_get hx)
      · exact Term.negInh_intersection (sa _ _ (SmallMap.mem_of_get hx)) (sb _ _ (SmallMap.mem_of_get hy))
          (ha _ _ (SmallMap.mem_of_get hx)) (hb _ _ (SmallMap.mem_of_get hy))
  intro k t hkt
  rw [hterms] at hkt
  split at hkt
  · rename_i hne
    rw [SmallMap.mem_insert_iff _ hnm] at hkt
    rcases hkt with ⟨_, rfl⟩ | ⟨_, hkt⟩
    · exact Term.negInh_of_ne_any ce (Term.valid_union _ _ v1 v2) hne
    · exact hmerged k t hkt
  · exact hmerged k t hkt

end Incompat

/-- every negative term of a stored incompatibility is over a set with a member -/
theorem StoreInv.negInh (ce : CanonEmpty S V) {W : World P S V M} {root : P} {rv : V}
    {store : List (Incompat P S V M)} (h : StoreInv W root rv store) :
    ∀ (id : Nat) (i : Incompat P S V M), store[id]? = some i → i.NegInh := by
  intro id
  induction id using Nat.strong_induction_on with
  | _ id ih =>
    intro i hi
    have g := h id i hi
    have hk := g.kind
    unfold Incompat.KindTrue at hk
    split at hk
    · -- notRoot
      rename_i p v _
      obtain ⟨_, _, ht⟩ := hk
      intro q t hqt
      rw [ht, List.mem_singleton] at hqt
      injection hqt with _ e; subst e
      exact ⟨v, (LawfulVersionSet.contains_singleton (S := S) v v).2 rfl⟩
    · -- noVersions
      obtain ⟨_, ht⟩ := hk
      intro q t hqt
      rw [ht, List.mem_singleton] at hqt
      injection hqt with _ e; subst e
      trivial
    · -- fromDependencyOf
      rename_i p s q t _
      obtain ⟨_, _, hvt, ht⟩ := hk
      intro q' t' hqt
      rw [ht] at hqt
      unfold Incompat.fromDependency at hqt
      simp only at hqt
      split at hqt
      · rw [List.mem_singleton] at hqt
        injection hqt with _ e; subst e; trivial
      · split at hqt
        · rw [List.mem_singleton] at hqt
          injection hqt with _ e; subst e; trivial
        · rename_i hne
          simp only [List.mem_cons, List.not_mem_nil, or_false] at hqt
          rcases hqt with e | e
          · injection e with _ e; subst e; trivial
          · injection e with _ e; subst e
            exact ce.member hvt hne
    · -- custom
      obtain ⟨v, _, _, ht⟩ := hk
      intro q t hqt
      rw [ht, List.mem_singleton] at hqt
      injection hqt with _ e; subst e
      trivial
    · -- derivedFrom
      rename_i a b _
      obtain ⟨ha, hb, ia, ib, pivot, r, hia, hib, hr, ht⟩ := hk
      have ga := h a ia hia
      have gb := h b ib hib
      have := Incompat.priorCause_negInh ce ia ib ga.nodup gb.nodup ga.sets gb.sets
        (ih a ha ia hia) (ih b hb ib hib) a b pivot r hr
      intro q t hqt
      rw [ht] at hqt
      exact this q t hqt

end
end Pubgrub

/-
TARGET FILE: PubgrubProofs/NoPanic.lean
Property C05, the "no panic, no internal Failure" half: no run of the solver model ends in a panic
outcome, and `Failure` only follows an out-of-set `choose_version` answer.  (Termination is NOT part of
this: the model is fuelled and `fault outOfFuel` is a separate outcome.)
Every `panic!` / `unwrap` / `expect` / `unreachable!` / index of the modelled Rust is a `Fault.panic site`
of the model (grep `panic "` and `unwrapOr` in PubgrubModel/{Incompat,PartialSolution,Core,Solver}.lean).

FINDING.  As first stated (for every `LawfulVersionSet`, `debug` arbitrary) `no_panic` and
`wellBehaved_outcomes` are FALSE: the Rust's `debug_assert` in `merge_incompatibility`,
`assert_ne!(term, Term::any())`, fails for a lawful version set in which two member-free sets that are
not (syntactically) `empty` have the union `empty` — `prior_cause` intersects the two negative terms of
a package that is not the pivot into `Term::any` (PubgrubProofs/NoPanicCex.lean has the run as a theorem).
What is proved here:
* `no_panic_unionCanon`, `wellBehaved_outcomes_unionCanon`: the statements under the hypothesis
  `debug = true → UnionCanon S V` ("a union of valid sets is `empty` only if its first argument is";
  for `Range` this is the syntactic fact `Range.union_ne_empty`, over any linear order — `unionCanon_range`
  below — and it follows from canonical equality or canonical emptiness);
* `no_panic`, `wellBehaved_outcomes`: the statements for `[CanonicalEmpty S V]` (PubgrubProofs/NonEmpty.lean),
  which implies `UnionCanon`;
* `no_panic_release`, `wellBehaved_outcomes_release`: the statements for `debug = false` (a release build of
  the crate) without any extra hypothesis;
* `failure_only_out_of_set` as stated.
Helpers: PubgrubProofs/NoPanicAux1 … NoPanicAux7 (all the panic sites; `build_derivation_tree` included).
-/
import PubgrubProofs.PSInvariant
import PubgrubProofs.SatisfierTheory
import PubgrubProofs.TreeSound
import PubgrubProofs.ReachabilityC04
import PubgrubProofs.NonEmpty
import PubgrubProofs.NoPanicAux7

set_option linter.unusedSectionVars false
set_option linter.unusedVariables false

namespace Pubgrub
open VersionSet

variable {P S V M Pr E : Type} [DecidableEq P] [VersionSet S V] [DecidableEq S] [DecidableEq V]
  [LE Pr] [DecidableLE Pr] [LawfulVersionSet S V]

/-- canonical emptiness gives `UnionCanon` -/
theorem unionCanon_of_canonicalEmpty [CanonicalEmpty S V] : UnionCanon S V := by
  intro a b va vb hne he
  apply hne
  apply CanonicalEmpty.eq_empty_of_no_member a va
  intro v
  cases hc : contains a v with
  | false => rfl
  | true =>
    have := LawfulVersionSet.contains_union a b v va vb
    rw [he, LawfulVersionSet.contains_empty, hc] at this
    simp at this

/-! ### `UnionCanon` for `Range`: a syntactic fact, over any linear order -/

section RangeUnion
variable {T : Type} [LinearOrder T]

theorem Range.unionGo_some_ne_nil (x : Seg T) (a b : Range T) : Range.unionGo (some x) a b ≠ [] := by
  generalize hacc : (some x : Option (Seg T)) = acc
  fun_induction Range.unionGo acc a b generalizing x <;> simp_all

/-- the union of a segment list that is not `[]` is not `[]` -/
theorem Range.union_ne_empty (a b : Range T) (h : a ≠ Range.empty) : Range.union a b ≠ Range.empty := by
  unfold Range.union Range.empty at *
  cases a with
  | nil => exact absurd rfl h
  | cons l ls =>
    cases b with
    | nil =>
      rw [Range.unionGo]
      intro e
      exact Range.unionGo_some_ne_nil _ _ _ (List.append_eq_nil_iff.1 e).2
    | cons r rs =>
      rw [Range.unionGo]
      split <;> intro e <;> exact Range.unionGo_some_ne_nil _ _ _ (List.append_eq_nil_iff.1 e).2

/-- `Range` has canonical unions, whatever instance makes it lawful -/
theorem unionCanon_range [LawfulVersionSet (Range T) T] : UnionCanon (Range T) T :=
  fun a b _ _ h => Range.union_ne_empty a b h

end RangeUnion

/-- the run-level invariant behind `no_panic` holds in every reachable state -/
theorem reachable_rinvX (W : World P S V M) (hW : W.SetsValid) (debug : Bool) (fuel : Nat)
    (root : P) (rv : V) (hU : debug = true → UnionCanon S V)
    (x : SolverState P S V M Pr × Request P S V M Pr E)
    (h : Reachable W debug fuel root rv x) : RInvX x := by
  induction h with
  | start => exact rinvX_start debug fuel root rv hU
  | step hreach ha ih =>
    exact rinvX_step W hW root rv _ _ _ (reachable_rinv W hW debug fuel root rv _ hreach)
      (reachable_rinv' W hW debug fuel root rv _ hreach) (reachable_rinvT W hW debug fuel root rv _ hreach)
      ih ha

/-- C05: `resolve` never panics (whatever the world, the strategy, the tie-breaking and the fuel; the
answers are consistent with the world, callbacks may fail, `choose_version` may even answer outside its
set), with the Rust's `debug_assert`s checked (`debug = true`) provided unions are canonical -/
theorem no_panic_unionCanon (W : World P S V M) (hW : W.SetsValid) (debug : Bool) (fuel : Nat)
    (root : P) (rv : V) (hU : debug = true → UnionCanon S V) (s : SolverState P S V M Pr) (site : String) :
    ¬ Reachable (E := E) W debug fuel root rv (s, .fault (.panic site)) := by
  intro h
  exact (reachable_rinvX W hW debug fuel root rv hU _ h).nopanic site rfl

/-- C05: `resolve` never panics, whatever the world, the strategy, the tie-breaking, the fuel and the
debug flag (the Rust's `debug_assert`s included), as long as the answers are consistent with the world
(callbacks may fail, `choose_version` may even answer outside its set) -/
theorem no_panic [CanonicalEmpty S V] (W : World P S V M) (hW : W.SetsValid) (debug : Bool) (fuel : Nat)
    (root : P) (rv : V) (s : SolverState P S V M Pr) (site : String) :
    ¬ Reachable (E := E) W debug fuel root rv (s, .fault (.panic site)) :=
  no_panic_unionCanon W hW debug fuel root rv (fun _ => unionCanon_of_canonicalEmpty) s site

/-- C05 for a release build (`debug = false`: the `debug_assert`s are compiled out): no panic, for every
lawful version set -/
theorem no_panic_release (W : World P S V M) (hW : W.SetsValid) (fuel : Nat)
    (root : P) (rv : V) (s : SolverState P S V M Pr) (site : String) :
    ¬ Reachable (E := E) W false fuel root rv (s, .fault (.panic site)) :=
  no_panic_unionCanon W hW false fuel root rv (fun h => by cases h) s site

/-! ### `Failure` and the other outcomes -/

/-- where a `Failure` can come from -/
theorem step_failure (s : SolverState P S V M Pr) (a : Answer P S V M Pr E) (msg : String)
    (h : (Solver.step s a).2 = .failure msg) :
    (∃ acc o, s.phase = .picking acc ∧ a = .picked o ∧
      msg = "a package was chosen but we don't have a term.") ∨
    (∃ p t v, s.phase = .choosing p t ∧ a = .version (some v) ∧ t.contains v = false) := by
  revert h
  open Solver in step_cases
  all_goals first | (simp [Solver.finish, Solver.loopAgain]; done) | skip
  · intro h
    simp only [Solver.finish, Request.failure.injEq] at h
    exact Or.inl ⟨_, _, by assumption, rfl, h.symm⟩
  · rename_i p t v hph hcont
    intro _
    refine Or.inr ⟨p, t, v, by assumption, rfl, ?_⟩
    cases hc : t.contains v with
    | false => rfl
    | true => rw [hc] at hcont; simp at hcont

/-- where an error outcome can come from -/
theorem step_error (s : SolverState P S V M Pr) (a : Answer P S V M Pr E)
    (h : (∃ e, (Solver.step s a).2 = .errorInShouldCancel e) ∨
      (∃ e, (Solver.step s a).2 = .errorChoosingPackageVersion e) ∨
      (∃ p v e, (Solver.step s a).2 = .errorRetrievingDependencies p v e)) :
    ∃ e, a = .error e := by
  revert h
  open Solver in step_cases
  all_goals simp [Solver.finish, Solver.loopAgain]

/-- C05: `Failure` is only returned after a `choose_version` answer outside the offered set -/
theorem failure_only_out_of_set (W : World P S V M) (hW : W.SetsValid) (debug : Bool) (fuel : Nat)
    (root : P) (rv : V) (s : SolverState P S V M Pr) (msg : String)
    (h : ReachableWB (E := E) W debug fuel root rv (s, .failure msg)) : False := by
  generalize hx : (s, Request.failure (P := P) (S := S) (V := V) (M := M) (Pr := Pr) (E := E) msg) = x at h
  cases h with
  | start => simp [Solver.start] at hx
  | @step s' req a hprev hok hwb =>
    have hfail : (Solver.step s' a).2 = .failure msg := by rw [← hx]
    have hreach := c04_reachable_of_wb W debug fuel root rv _ hprev
    rcases step_failure s' a msg hfail with ⟨acc, o, hph, rfl, rfl⟩ | ⟨p, t, v, hph, rfl, hcont⟩
    · have hco := reachable_coherent W debug fuel root rv _ hreach
      unfold Solver.Coherent at hco
      simp only [hph] at hco
      obtain ⟨q, hq⟩ := hco
      subst hq
      exact (no_fault_at_pick W hW debug fuel root rv s' q o hreach).2.2 hfail
    · obtain ⟨_, set, hreq, hts⟩ := (reachable_rinv W hW debug fuel root rv _ hreach).choosing p t hph
      simp only at hreq
      subst hreq
      subst hts
      simp only [AnswerWellBehaved] at hwb
      simp only [Term.contains] at hcont
      rw [hwb] at hcont
      cases hcont

/-- the outcomes of a finished run for a well-behaved provider, given that it does not panic -/
theorem wellBehaved_outcomes_of_no_panic (W : World P S V M) (hW : W.SetsValid) (debug : Bool) (fuel : Nat)
    (root : P) (rv : V)
    (hnp : ∀ (s : SolverState P S V M Pr) (site : String),
      ¬ Reachable (E := E) W debug fuel root rv (s, .fault (.panic site)))
    (s : SolverState P S V M Pr) (req : Request P S V M Pr E)
    (h : ReachableWB W debug fuel root rv (s, req)) (hfin : req.isFinal = true) :
    (∃ sel, req = .solution sel) ∨ (∃ t, req = .noSolution t) ∨ req = .fault .outOfFuel ∨
      (∃ m, req = .protocolError m) := by
  have hreach := c04_reachable_of_wb W debug fuel root rv _ h
  have herr : ¬ ((∃ e, req = .errorInShouldCancel e) ∨ (∃ e, req = .errorChoosingPackageVersion e) ∨
      (∃ p v e, req = .errorRetrievingDependencies p v e)) := by
    intro he
    generalize hx : (s, req) = x at h
    cases h with
    | start =>
      simp only [Solver.start, Prod.mk.injEq] at hx
      obtain ⟨_, rfl⟩ := hx
      rcases he with ⟨e, he⟩ | ⟨e, he⟩ | ⟨p, v, e, he⟩ <;> cases he
    | @step s' req' a hprev hok hwb =>
      have hreq : (Solver.step s' a).2 = req := by rw [← hx]
      obtain ⟨e, rfl⟩ := step_error s' a (by rw [hreq]; exact he)
      cases req' <;> simp [AnswerWellBehaved] at hwb
  cases req with
  | shouldCancel => cases hfin
  | prioritize p s => cases hfin
  | pick q => cases hfin
  | chooseVersion p s => cases hfin
  | getDependencies p v => cases hfin
  | solution sel => exact Or.inl ⟨sel, rfl⟩
  | noSolution t => exact Or.inr (Or.inl ⟨t, rfl⟩)
  | errorInShouldCancel e => exact absurd (Or.inl ⟨e, rfl⟩) herr
  | errorChoosingPackageVersion e => exact absurd (Or.inr (Or.inl ⟨e, rfl⟩)) herr
  | errorRetrievingDependencies p v e => exact absurd (Or.inr (Or.inr ⟨p, v, e, rfl⟩)) herr
  | failure msg => exact (failure_only_out_of_set W hW debug fuel root rv s msg h).elim
  | fault f =>
    cases f with
    | panic site => exact absurd hreach (hnp s site)
    | outOfFuel => exact Or.inr (Or.inr (Or.inl rfl))
  | protocolError m => exact Or.inr (Or.inr (Or.inr ⟨m, rfl⟩))

theorem wellBehaved_outcomes_unionCanon (W : World P S V M) (hW : W.SetsValid) (debug : Bool) (fuel : Nat)
    (root : P) (rv : V) (hU : debug = true → UnionCanon S V)
    (s : SolverState P S V M Pr) (req : Request P S V M Pr E)
    (h : ReachableWB W debug fuel root rv (s, req)) (hfin : req.isFinal = true) :
    (∃ sel, req = .solution sel) ∨ (∃ t, req = .noSolution t) ∨ req = .fault .outOfFuel ∨
      (∃ m, req = .protocolError m) :=
  wellBehaved_outcomes_of_no_panic W hW debug fuel root rv
    (fun s site => no_panic_unionCanon W hW debug fuel root rv hU s site) s req h hfin

/-- C05: for a well-behaved provider every finished run ended in `Ok`, `NoSolution`, or ran out of the
model's fuel (the one outcome that stands for non-termination, which is not excluded here) -/
theorem wellBehaved_outcomes [CanonicalEmpty S V] (W : World P S V M) (hW : W.SetsValid) (debug : Bool)
    (fuel : Nat) (root : P) (rv : V) (s : SolverState P S V M Pr) (req : Request P S V M Pr E)
    (h : ReachableWB W debug fuel root rv (s, req)) (hfin : req.isFinal = true) :
    (∃ sel, req = .solution sel) ∨ (∃ t, req = .noSolution t) ∨ req = .fault .outOfFuel ∨
      (∃ m, req = .protocolError m) :=
  wellBehaved_outcomes_unionCanon W hW debug fuel root rv (fun _ => unionCanon_of_canonicalEmpty) s req h hfin

/-- the same for a release build, for every lawful version set -/
theorem wellBehaved_outcomes_release (W : World P S V M) (hW : W.SetsValid)
    (fuel : Nat) (root : P) (rv : V) (s : SolverState P S V M Pr) (req : Request P S V M Pr E)
    (h : ReachableWB W false fuel root rv (s, req)) (hfin : req.isFinal = true) :
    (∃ sel, req = .solution sel) ∨ (∃ t, req = .noSolution t) ∨ req = .fault .outOfFuel ∨
      (∃ m, req = .protocolError m) :=
  wellBehaved_outcomes_unionCanon W hW false fuel root rv (fun h => by cases h) s req h hfin

end Pubgrub

/-
Model driver: reads one request per line on stdin, writes the model's answer line on stdout.
The Rust harness evaluates the same request lines on the real implementation; the check diffs the
two streams.
-/
import PubgrubModel
import PubgrubModel.Diag
import PubgrubModel.ContainersDriver
import PubgrubModel.DagDriver

open Pubgrub Pubgrub.Protocol

def evalRbin (a b : Range Nat) : String :=
  "U=" ++ fmtSegs (Range.union a b) ++ "|I=" ++ fmtSegs (Range.intersection a b) ++
  "|D=" ++ bit (Range.isDisjoint a b) ++ "|S=" ++ bit (Range.subsetOf a b) ++
  "|EQ=" ++ bit (decide (a = b)) ++ "|C=" ++ ordS (Range.cmp a b)

def evalRun (a : Range Nat) : String :=
  "N=" ++ fmtSegs (Range.complement a) ++ "|E=" ++ bit (Range.isEmpty a) ++
  "|SG=" ++ (match Range.asSingleton a with | some v => toString v | none => "none") ++
  "|BR=" ++ (match Range.boundingRange a with
             | some (s, e) => fmtBound s ++ ":" ++ fmtBound e | none => "none") ++
  "|DISP=" ++ dispRange a ++ "|IT=" ++ fmtSegs a

def evalRvs (a : Range Nat) (vs : List Nat) : String :=
  "CT=" ++ String.join (vs.map fun v => bit (Range.contains a v)) ++
  "|CM=" ++ String.join ((Range.containsMany a vs).map bit) ++
  "|SI=" ++ fmtSegs (Range.simplify a vs)

def evalRcon (kind : String) (v1 v2 : Nat) : Option (Range Nat) :=
  match kind with
  | "empty" => some Range.empty
  | "full" => some Range.full
  | "singleton" => some (Range.singleton v1)
  | "higher_than" => some (Range.higherThan v1)
  | "strictly_higher_than" => some (Range.strictlyHigherThan v1)
  | "lower_than" => some (Range.lowerThan v1)
  | "strictly_lower_than" => some (Range.strictlyLowerThan v1)
  | "between" => some (Range.between v1 v2)
  | _ => none

def evalTerm2 (t1 t2 : Term (Range Nat)) : String :=
  "N=" ++ fmtTerm t1.negate ++ "|I=" ++ fmtTerm (t1.intersection t2) ++
  "|U=" ++ fmtTerm (t1.union t2) ++ "|S=" ++ bit (t1.subsetOf t2) ++
  "|D=" ++ bit (t1.isDisjoint t2) ++
  "|R=" ++ (match t1.relationWith t2 with
            | .satisfied => "sat" | .contradicted => "con" | .inconclusive => "inc") ++
  "|P=" ++ bit t1.isPositive

def evalLine (line : String) : String :=
  let bad := "bad-request"
  if line.startsWith "svparse|" then MiscDriver.svparse (line.drop 8).toString else
  match line.splitOn "|" with
  | ["rbin", a, b] =>
    match parseSegs a, parseSegs b with
    | some a, some b => evalRbin a b
    | _, _ => bad
  | ["run", a] =>
    match parseSegs a with
    | some a => evalRun a
    | none => bad
  | ["rvs", a, vs] =>
    match parseSegs a, parseVersions vs with
    | some a, some vs => evalRvs a vs
    | _, _ => bad
  | ["rfrb", s, e] =>
    match parseBound s, parseBound e with
    | some s, some e => fmtSegs (Range.fromRangeBounds s e)
    | _, _ => bad
  | ["rcon", kind, v1, v2] =>
    match v1.toNat?, v2.toNat? with
    | some v1, some v2 =>
      match evalRcon kind v1 v2 with
      | some r => fmtSegs r
      | none => bad
    | _, _ => bad
  | ["rcmp3", a, b, c] =>
    match parseSegs a, parseSegs b, parseSegs c with
    | some a, some b, some c =>
      ordS (Range.cmp a b) ++ " " ++ ordS (Range.cmp b c) ++ " " ++ ordS (Range.cmp a c)
    | _, _, _ => bad
  | ["term2", t1, t2] =>
    match parseTerm t1, parseTerm t2 with
    | some t1, some t2 => evalTerm2 t1 t2
    | _, _ => bad
  | ["bset2", a, b] =>
    match a.toNat?, b.toNat? with
    | some a, some b =>
      let x := SolveDriver.bitsOfMask a
      let y := SolveDriver.bitsOfMask b
      let mask (s : BitSet 8) : Nat :=
        (List.range 8).foldl (fun acc i => if s.bits.getD i false then acc + 2 ^ i else acc) 0
      "F=" ++ toString (mask (VersionSet.full : BitSet 8)) ++
      "|U=" ++ toString (mask (VersionSet.union x y)) ++
      "|D=" ++ bit (VersionSet.isDisjoint x y) ++ "|S=" ++ bit (VersionSet.subsetOf x y)
    | _, _ => bad
  | ["scale", _, _] => "not-modelled"
  | ["dag", shape, top] =>
    match top.toNat? with
    | some t => DagDriver.dag shape t
    | none => bad
  | ["svx", script] => ContainersDriver.svx script
  | ["smx", script] => ContainersDriver.smx script
  | ["sv1", a, b, c] =>
    match a.toNat?, b.toNat?, c.toNat? with
    | some a, some b, some c => MiscDriver.sv1 a b c
    | _, _, _ => bad
  | ["svcmp", a, b] =>
    match MiscDriver.parseDotted a, MiscDriver.parseDotted b with
    | some a, some b => ordS (SemVer.cmp a b)
    | _, _ => bad
  | ["offline", ops, sets] => MiscDriver.offlineLine ops sets
  | ["serde_range", a] =>
    match parseSegs a with
    | some a => MiscDriver.serdeRange a
    | none => bad
  | ["serde_legacy", json, _ron, pairs] => MiscDriver.serdeLegacy json pairs
  | ["serde_semver", a, b, c] =>
    match a.toNat?, b.toNat?, c.toNat? with
    | some a, some b, some c => MiscDriver.serdeSemver a b c
    | _, _, _ => bad
  | ["serde_provider", ops, _root, _rv] => MiscDriver.serdeProvider ops
  | "det" :: _ => "not-modelled"
  | "soak" :: _ => "not-modelled"
  | "weak" :: _ => "not-modelled"
  | ["report", toks, _reg] => ReportDriver.reportLine toks
  | ["collapse", toks, _reg, _root, _rv] => ReportDriver.collapseLine toks
  | ["inv2", vs, dbg, root, rv, _reg, _strat, _fault, answers] =>
    match rv.toNat? with
    | none => bad
    | some rv =>
      if vs == "bits" then Diag.inv2Line SolveDriver.bitsIO (dbg == "dbg") root rv answers
      else Diag.inv2Line SolveDriver.rangeIO (dbg == "dbg") root rv answers
  | ["inv3", vs, dbg, root, rv, _reg, _strat, _fault, answers] =>
    match rv.toNat? with
    | none => bad
    | some rv =>
      if vs == "bits" then Diag.inv3Line SolveDriver.bitsIO (dbg == "dbg") root rv answers
      else Diag.inv3Line SolveDriver.rangeIO (dbg == "dbg") root rv answers
  | ["inv4", vs, dbg, root, rv, _reg, _strat, _fault, answers] =>
    match rv.toNat? with
    | none => bad
    | some rv =>
      if vs == "bits" then Diag.inv4Line SolveDriver.bitsIO (dbg == "dbg") root rv answers
      else Diag.inv4Line SolveDriver.rangeIO (dbg == "dbg") root rv answers
  | ["inv5", vs, dbg, root, rv, _reg, _strat, _fault, answers] =>
    match rv.toNat? with
    | none => bad
    | some rv =>
      if vs == "bits" then Diag.inv5Line SolveDriver.bitsIO (dbg == "dbg") root rv answers
      else Diag.inv5Line SolveDriver.rangeIO (dbg == "dbg") root rv answers
  | ["inv6", vs, dbg, root, rv, _reg, _strat, _fault, answers] =>
    match rv.toNat? with
    | none => bad
    | some rv =>
      if vs == "bits" then Diag.inv6Line SolveDriver.bitsIO (dbg == "dbg") root rv answers
      else Diag.inv6Line SolveDriver.rangeIO (dbg == "dbg") root rv answers
  | ["diag", vs, dbg, root, rv, _reg, _strat, _fault, answers] =>
    match rv.toNat? with
    | none => bad
    | some rv =>
      if vs == "bits" then Diag.diagLine SolveDriver.bitsIO (dbg == "dbg") root rv answers
      else Diag.diagLine SolveDriver.rangeIO (dbg == "dbg") root rv answers
  | ["solve", vs, dbg, root, rv, _reg, _strat, _fault, answers] =>
    match rv.toNat? with
    | none => bad
    | some rv =>
      if vs == "bits" then SolveDriver.solveLine SolveDriver.bitsIO (dbg == "dbg") root rv answers
      else if vs == "bits2" then SolveDriver.solveLine SolveDriver.bits2IO (dbg == "dbg") root rv answers
      else if vs == "blur" then SolveDriver.solveLine SolveDriver.blurIO (dbg == "dbg") root rv answers
      else SolveDriver.solveLine SolveDriver.rangeIO (dbg == "dbg") root rv answers
  | _ => bad

partial def loop (hin : IO.FS.Stream) (hout : IO.FS.Stream) : IO Unit := do
  let line ← hin.getLine
  if line.isEmpty then return ()
  let line := (line.dropEndWhile (fun c => c == '\n' || c == '\r')).toString
  hout.putStrLn (evalLine line)
  loop hin hout

def main : IO Unit := do
  let hin ← IO.getStdin
  let hout ← IO.getStdout
  loop hin hout
  hout.flush

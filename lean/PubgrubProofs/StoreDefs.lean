/-
The invariant of the incompatibility store (properties C06, C02, C03): definitions only.
-/
import PubgrubProofs.SolverDefs

namespace Pubgrub
open VersionSet

section
variable {P S V M : Type} [DecidableEq P] [VersionSet S V] [DecidableEq S] [LawfulVersionSet S V]

/-- every dependency set the provider hands out is a valid (canonical) set -/
def World.SetsValid (W : World P S V M) : Prop :=
  ∀ p v ds, W.deps p v = .available ds → ∀ d ∈ ds, LawfulVersionSet.Valid V d.2

/-- The fact recorded in the kind of an incompatibility is true of the world, and the terms are
what the constructor of that kind builds (this is what makes the derivation tree checkable, C03). -/
def Incompat.KindTrue (W : World P S V M) (root : P) (rv : V) (store : List (Incompat P S V M))
    (id : Nat) (i : Incompat P S V M) : Prop :=
  match i.kind with
  | .notRoot p v => p = root ∧ v = rv ∧ i.terms = [(p, Term.neg (VersionSet.singleton v))]
  | .noVersions p s => (∀ v ∈ W.versions p, contains s v = false) ∧ i.terms = [(p, Term.pos s)]
  | .fromDependencyOf p s q t =>
      (∀ w, contains s w = true → ∃ ds, W.deps p w = .available ds ∧ (q, t) ∈ ds) ∧
      LawfulVersionSet.Valid V s ∧ LawfulVersionSet.Valid V t ∧
      i.terms = (Incompat.fromDependency (M := M) p s (q, t)).terms
  | .custom p s m => ∃ v, s = VersionSet.singleton v ∧ W.deps p v = .unavailable m ∧ i.terms = [(p, Term.pos s)]
  | .derivedFrom a b =>
      a < id ∧ b < id ∧ ∃ ia ib pivot r, store[a]? = some ia ∧ store[b]? = some ib ∧
        Incompat.priorCause a b ia ib pivot = .ok r ∧ i.terms = r.terms

/-- what holds of one stored incompatibility -/
structure Incompat.Good (W : World P S V M) (root : P) (rv : V) (store : List (Incompat P S V M))
    (id : Nat) (i : Incompat P S V M) : Prop where
  valid : i.ValidFor W root rv
  nodup : SmallMap.NoDupKeys i.terms
  sets : i.SetsValid
  kind : i.KindTrue W root rv store id

/-- the store invariant -/
def StoreInv (W : World P S V M) (root : P) (rv : V) (store : List (Incompat P S V M)) : Prop :=
  ∀ (id : Nat) (i : Incompat P S V M), store[id]? = some i → i.Good W root rv store id

end
end Pubgrub

/-
Property C03 — The derivation tree of a NoSolution error is a checkable proof.

"… every external leaf states a fact that is true of the provider's answers, every derived node's
terms are logically entailed by its two causes, and the top node forbids the root at the requested
version.  A derived node carries a shared id exactly when it is reachable along more than one path,
and all occurrences of one id are the same subtree."

`DerivationTree.Checkable` (PubgrubProofs/TreeDefs.lean) is the first sentence: leaves true of the
world (`External.TrueIn`: the root requirement; a dependency declared with exactly that set by every
version in the stated set; a set in which the provider offered no version; a version whose
dependencies it reported unavailable with that reason), derived nodes entailed by their two causes
for EVERY selection (not only solutions).

Shared ids.  Reading recorded in DESIGN.md: a node carries `some k` when it has in-degree ≥ 2 in the
cause DAG reachable from the top.  Proved: equal ids ⇒ equal subtrees; an id is the arena index of the
node; a node with an id occurs at least twice in the unfolded tree; and the exact characterisation
(`C03_shared_iff`): the tree is the unfolding of the store's cause DAG from the terminal clause in which
a derived node for id `k` carries `some k` EXACTLY when at least two distinct cause edges `(parent, side)`
of the reachable DAG lead to `k` (the traversal expands every reachable derived node once and marks
what it meets again).
-/
import PubgrubProofs.StoreInvariant
import PubgrubProofs.TreeSound
import PubgrubProofs.SharedIds
import PubgrubProofs.RangeAnyOrder2
import PubgrubProofs.Examples

namespace Pubgrub.C03
open Pubgrub

variable {P S V M Pr E : Type} [DecidableEq P] [VersionSet S V] [DecidableEq S] [DecidableEq V]
  [LE Pr] [DecidableLE Pr] [LawfulVersionSet S V]

/-- leaves true, derived nodes entailed -/
theorem C03_tree_checkable (W : World P S V M) (hW : W.SetsValid) (debug : Bool) (fuel : Nat)
    (root : P) (rv : V) (s : SolverState P S V M Pr) (tree : DerivationTree P S V M)
    (h : Reachable (E := E) W debug fuel root rv (s, .noSolution tree)) :
    tree.Checkable W root rv := by
  obtain ⟨terminal, inc, hinc, _, hbuild, hinv, _, _⟩ :=
    noSolution_tree_origin W hW debug fuel root rv s tree h
  exact (buildDerivationTree_checkable W root rv s.st hinv terminal inc hinc tree hbuild).1

/-- the top node forbids the root at the requested version -/
theorem C03_top_forbids_root (W : World P S V M) (hW : W.SetsValid) (debug : Bool) (fuel : Nat)
    (root : P) (rv : V) (s : SolverState P S V M Pr) (tree : DerivationTree P S V M)
    (h : Reachable (E := E) W debug fuel root rv (s, .noSolution tree))
    (σ : P → Option V) (hσ : σ root = some rv) : TermsTrue σ tree.terms := by
  obtain ⟨terminal, inc, hinc, hterm, hbuild, hinv, _, _⟩ :=
    noSolution_tree_origin W hW debug fuel root rv s tree h
  rw [(buildDerivationTree_checkable W root rv s.st hinv terminal inc hinc tree hbuild).2]
  exact terminal_forbids_root root rv inc hterm σ hσ

/-- all occurrences of one shared id are the same subtree -/
theorem C03_shared_same (W : World P S V M) (hW : W.SetsValid) (debug : Bool) (fuel : Nat)
    (root : P) (rv : V) (s : SolverState P S V M Pr) (tree : DerivationTree P S V M)
    (h : Reachable (E := E) W debug fuel root rv (s, .noSolution tree))
    (k : Nat) (t1 t2 : DerivationTree P S V M)
    (h1 : (some k, t1) ∈ tree.derivedNodes) (h2 : (some k, t2) ∈ tree.derivedNodes) : t1 = t2 := by
  obtain ⟨terminal, _, _, _, hbuild, hinv, _, _⟩ :=
    noSolution_tree_origin W hW debug fuel root rv s tree h
  exact buildDerivationTree_shared_same W root rv s.st hinv terminal tree hbuild k t1 t2 h1 h2

/-- a node that carries an id occurs at least twice, and the id is its index in the store -/
theorem C03_shared_twice (W : World P S V M) (hW : W.SetsValid) (debug : Bool) (fuel : Nat)
    (root : P) (rv : V) (s : SolverState P S V M Pr) (tree : DerivationTree P S V M)
    (h : Reachable (E := E) W debug fuel root rv (s, .noSolution tree))
    (k : Nat) (t : DerivationTree P S V M) (hk : (some k, t) ∈ tree.derivedNodes) :
    2 ≤ (tree.derivedNodes.filter fun n => n.1 = some k).length ∧
      ∃ inc, s.st.store[k]? = some inc ∧ t.terms = inc.terms := by
  obtain ⟨terminal, _, _, _, hbuild, hinv, _, _⟩ :=
    noSolution_tree_origin W hW debug fuel root rv s tree h
  exact buildDerivationTree_shared_iff_partial W root rv s.st hinv terminal tree hbuild k t hk

/-- the shared-id clause in full: marked exactly when reachable along two distinct cause edges -/
theorem C03_shared_iff (W : World P S V M) (hW : W.SetsValid) (debug : Bool) (fuel : Nat)
    (root : P) (rv : V) (s : SolverState P S V M Pr) (tree : DerivationTree P S V M)
    (h : Reachable (E := E) W debug fuel root rv (s, .noSolution tree)) :
    ∃ (terminal : Nat) (sh : Nat → Bool), IsTreeOf s.st.store sh terminal tree ∧
      ∀ k, sh k = true ↔
        (∃ inc a b, s.st.store[k]? = some inc ∧ inc.causes = some (a, b)) ∧
          TwoEdgesTo s.st.store terminal k := by
  obtain ⟨terminal, _, _, _, hbuild, hinv, _, _⟩ :=
    noSolution_tree_origin W hW debug fuel root rv s tree h
  obtain ⟨sh, h1, h2⟩ := buildDerivationTree_shared_iff W root rv s.st hinv terminal tree hbuild
  exact ⟨terminal, sh, h1, h2⟩

/-! ### `Range V` over ANY linear order (second batch of pull-backs, RangeAnyOrder2) -/
section AnyOrder2
variable {P V M Pr E : Type} [DecidableEq P] [LinearOrder V] [LE Pr] [DecidableLE Pr]

theorem C03_range_tree_checkable (W : World P (Range V) V M) (hW : W.RangesWF) (debug : Bool) (fuel : Nat)
    (root : P) (rv : V) (s : SolverState P (Range V) V M Pr) (tree : DerivationTree P (Range V) V M)
    (h : Reachable (E := E) W debug fuel root rv (s, .noSolution tree)) :
    tree.Checkable W root rv :=
  by apply range_C03_tree_checkable (P := P) (V := V) (M := M) (Pr := Pr) (E := E) <;> assumption

theorem C03_range_top_forbids_root (W : World P (Range V) V M) (hW : W.RangesWF) (debug : Bool) (fuel : Nat)
    (root : P) (rv : V) (s : SolverState P (Range V) V M Pr) (tree : DerivationTree P (Range V) V M)
    (h : Reachable (E := E) W debug fuel root rv (s, .noSolution tree))
    (σ : P → Option V) (hσ : σ root = some rv) : TermsTrue σ tree.terms :=
  by apply range_C03_top_forbids_root (P := P) (V := V) (M := M) (Pr := Pr) (E := E) <;> assumption

theorem C03_range_shared_same (W : World P (Range V) V M) (hW : W.RangesWF) (debug : Bool) (fuel : Nat)
    (root : P) (rv : V) (s : SolverState P (Range V) V M Pr) (tree : DerivationTree P (Range V) V M)
    (h : Reachable (E := E) W debug fuel root rv (s, .noSolution tree))
    (k : Nat) (t1 t2 : DerivationTree P (Range V) V M)
    (h1 : (some k, t1) ∈ tree.derivedNodes) (h2 : (some k, t2) ∈ tree.derivedNodes) : t1 = t2 :=
  by apply range_C03_shared_same (P := P) (V := V) (M := M) (Pr := Pr) (E := E) <;> assumption

theorem C03_range_shared_iff (W : World P (Range V) V M) (hW : W.RangesWF) (debug : Bool) (fuel : Nat)
    (root : P) (rv : V) (s : SolverState P (Range V) V M Pr) (tree : DerivationTree P (Range V) V M)
    (h : Reachable (E := E) W debug fuel root rv (s, .noSolution tree)) :
    ∃ (terminal : Nat) (sh : Nat → Bool), IsTreeOf s.st.store sh terminal tree ∧
      ∀ k, sh k = true ↔
        (∃ inc a b, s.st.store[k]? = some inc ∧ inc.causes = some (a, b)) ∧
          TwoEdgesTo s.st.store terminal k :=
  by apply range_C03_shared_iff (P := P) (V := V) (M := M) (Pr := Pr) (E := E) <;> assumption

end AnyOrder2

/-! Non-vacuity on concrete runs (PubgrubProofs/Examples.lean, evaluated by `decide +kernel`; registered in
obligations.json so that their axioms are audited too): `Examples.example_B_run`, `Examples.example_B_tree_checkable`, `Examples.example_B_shared_iff`. -/

end Pubgrub.C03

/-
Property C04 — Solutions contain only packages needed by the root.

`C04_solution_reachable`: for every world, every well-behaved provider run ending in `Ok(sel)`, every
selected package is the root or reachable from the root by following dependencies of the selected
versions (`ReachableFrom`).  Proof: minimal-counterexample argument on the global index of a package's
first positive derivation, using C01 (the selection is a solution), C06 (every stored incompatibility
is valid of all solutions, in particular of the selection pruned to the reachable packages) and
`CauseInv` (the cause of every derivation was almost satisfied by the earlier assignments, which for
the derivation that follows a backjump is the correctness of the satisfier search).
-/
import PubgrubProofs.ReachabilityC04
import PubgrubProofs.RangeAnyOrder
import PubgrubProofs.Examples

namespace Pubgrub.C04
open Pubgrub

variable {P S V M Pr E : Type} [DecidableEq P] [VersionSet S V] [DecidableEq S] [DecidableEq V]
  [LE Pr] [DecidableLE Pr] [LawfulVersionSet S V]

theorem C04_solution_reachable (W : World P S V M) (hW : W.SetsValid) (debug : Bool) (fuel : Nat)
    (root : P) (rv : V) (s : SolverState P S V M Pr) (sel : List (P × V))
    (h : ReachableWB (E := E) W debug fuel root rv (s, .solution sel))
    (p : P) (v : V) (hp : SmallMap.get sel p = some v) :
    ReachableFrom W root (fun q => SmallMap.get sel q) p :=
  solution_reachable W hW debug fuel root rv s sel h p v hp

/-! ### `Range V` over ANY linear order (the discrete `u32`, `SemanticVersion` included), where `Range` is
not a `LawfulVersionSet`: pulled back along the embedding into `Range (V ×ₗ ℚ)` (RangeHom, HomSolver,
RangeAnyOrder) -/
section AnyOrder
variable {P V M Pr E : Type} [DecidableEq P] [LinearOrder V] [LE Pr] [DecidableLE Pr]

theorem C04_range_solution_reachable (W : World P (Range V) V M) (hW : W.RangesWF) (debug : Bool) (fuel : Nat)
    (root : P) (rv : V) (s : SolverState P (Range V) V M Pr) (sel : List (P × V))
    (h : ReachableWB (E := E) W debug fuel root rv (s, .solution sel))
    (p : P) (v : V) (hp : SmallMap.get sel p = some v) :
    ReachableFrom W root (fun q => SmallMap.get sel q) p :=
  range_solution_reachable W hW debug fuel root rv s sel h p v hp

end AnyOrder

/-! Non-vacuity on concrete runs (PubgrubProofs/Examples.lean, evaluated by `decide +kernel`; registered in
obligations.json so that their axioms are audited too): `Examples.example_A_solution_reachable`. -/

end Pubgrub.C04

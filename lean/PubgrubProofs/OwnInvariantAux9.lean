/-
Helpers for `OwnInvariant.lean`, part 9: `Solver.step` preserves the run-level invariant.
-/
import PubgrubProofs.OwnInvariantAux8

set_option linter.unusedSectionVars false
set_option linter.unusedVariables false

namespace Pubgrub
open VersionSet

variable {P S V M Pr E : Type} [DecidableEq P] [VersionSet S V] [DecidableEq S] [DecidableEq V]
  [LE Pr] [DecidableLE Pr] [LawfulVersionSet S V]

/-- the first step of the run -/
theorem jinv_step_start (W : World P S V M) (debug : Bool) (fuel : Nat) (root : P) (rv : V)
    (a : Answer P S V M Pr E) :
    JInv W debug fuel root rv (Solver.step (Solver.start (Pr := Pr) (E := E) (M := M) debug fuel root rv).1 a) := by
  cases a with
  | ok =>
    unfold Solver.step
    simp only [Solver.start]
    split
    · exact jinv_finish W debug fuel root rv _ _ (by intro sel h; cases h)
    · split
      · exact jinv_finish W debug fuel root rv _ _ (by intro sel h; cases h)
      · exact jinv_finish W debug fuel root rv _ _ (by intro sel h; cases h)
    · rename_i st hu
      obtain ⟨h1, h2, h3⟩ := State.start_unitPropagation W root rv debug hu
      have hmain : ∀ ph : Phase P S V Pr, ph ≠ .cancel → (∀ p v, ph ≠ .fetching p v) →
          JMain W root rv ({ st := st, added := [], next := root, phase := ph, fuel := fuel } :
            SolverState P S V M Pr) := by
        intro ph hc hf
        refine ⟨Sem.reWaive W root rv h1 (fun _ _ _ hw => hw.elim), h2, ?_, ?_, ?_, ?_⟩
        · intro p v hm; cases hm
        · intro p v hm; cases hm
        · intro p pa g v t e1 e2; exact absurd e2 (h3 p pa g v t e1)
        · intro p v hp; exact absurd hp (hf p v)
      split
      · exact jinv_finish W debug fuel root rv _ _ (by intro sel h; cases h)
      · exact Or.inr (Or.inr (hmain _ (by intro h; cases h) (by intro p v h; cases h)))
      · exact Or.inr (Or.inr (hmain _ (by intro h; cases h) (by intro p v h; cases h)))
  | error e => exact jinv_finish W debug fuel root rv _ _ (by intro sel h; cases h)
  | priority pr => exact jinv_finish W debug fuel root rv _ _ (by intro sel h; cases h)
  | picked p => exact jinv_finish W debug fuel root rv _ _ (by intro sel h; cases h)
  | version v => exact jinv_finish W debug fuel root rv _ _ (by intro sel h; cases h)
  | unavailable m => exact jinv_finish W debug fuel root rv _ _ (by intro sel h; cases h)
  | available deps => exact jinv_finish W debug fuel root rv _ _ (by intro sel h; cases h)

theorem jinv_loopAgain (W : World P S V M) (debug : Bool) (fuel : Nat) (root : P) (rv : V)
    (s : SolverState P S V M Pr) (st : State P S V M Pr)
    (h : JMain W root rv ({ s with st := st, phase := .cancel } : SolverState P S V M Pr)) :
    JInv (E := E) W debug fuel root rv (Solver.loopAgain s st) := Or.inr (Or.inr h)

theorem PartialSolution.addVersion_cases {ps ps' : PartialSolution P S V Pr} {debug : Bool} {p : P} {v : V}
    {news : List (Incompat P S V M)} (hr : PartialSolution.addVersion debug ps p v news = .ok ps') :
    PartialSolution.addDecision debug ps p v = .ok ps' ∨ ps' = ps := by
  unfold PartialSolution.addVersion at hr
  split at hr
  · exact Or.inl hr
  · simp only at hr
    split at hr
    · exact Or.inl hr
    · injection hr with hr; exact Or.inr hr.symm

/-- the undecided package in flight has the term recorded at the pop -/
theorem PartialSolution.inflight_term {ps : PartialSolution P S V Pr} {p : P} {t : Term S}
    (hpos : ps.InflightPos p) (hterm : ps.termIntersectionForPackage p = some t) :
    ∃ pa, ps.getPA p = some pa ∧ pa.inter = .derivations t := by
  obtain ⟨pa, s0, hpa, hder⟩ := hpos
  refine ⟨pa, hpa, ?_⟩
  simp only [PartialSolution.termIntersectionForPackage, hpa, Option.map_some, hder, AssignInter.term,
    Option.some.injEq] at hterm
  rw [hder, hterm]

/-- the run-level invariant after the decision for the package in flight -/
theorem JMain.afterDecision {W : World P S V M} {root : P} {rv : V} {s : SolverState P S V M Pr}
    {st : State P S V M Pr} {added : List (P × V)} {p : P} {v : V} {t : Term S}
    {pa : PackageAssignments S V} {ps : PartialSolution P S V Pr} {debug : Bool}
    (hsem : Sem W root rv st noWaive) (hic : st.IndexComplete)
    (hpa : st.ps.getPA p = some pa) (hder : pa.inter = .derivations t) (hv : t.contains v = true)
    (hq : SmallMap.get st.ps.queue p = none)
    (hps : PartialSolution.addDecision debug st.ps p v = .ok ps)
    (hnext : s.next = p) (hmem : (p, v) ∈ added)
    (hoff : ∀ p v, (p, v) ∈ added → v ∈ W.versions p)
    (hdeps : ∀ p v, (p, v) ∈ added → DepsDone W st.store p v)
    (hdec : ∀ p pa g v t, st.ps.getPA p = some pa → pa.inter = .decision g v t → (p, v) ∈ added) :
    JMain W root rv ({ s with st := { st with ps := ps }, added := added, phase := .cancel } :
      SolverState P S V M Pr) := by
  have hd := Sem.decide W root rv hsem hpa hder hv hq hps
  refine ⟨Sem.reWaive W root rv hd (fun p' _ _ hw => ⟨rfl, hw.trans hnext.symm⟩), hic.congr rfl rfl, hoff,
    fun p v hm _ => hdeps p v hm, ?_, ?_⟩
  · intro p' pa' g v' t' e1 e2
    have hget := PartialSolution.addDecision_getPA hsem.pinv.wf.wf hps hd.pinv.wf.wf hpa hder p'
    simp only at e1
    rw [e1] at hget
    by_cases hp : p' = p
    · subst hp
      rw [if_pos rfl] at hget
      injection hget with hget
      subst hget
      simp only [PackageAssignments.decide] at e2
      injection e2 with _ e2 _
      subst e2
      exact hmem
    · rw [if_neg hp] at hget
      exact hdec p' pa' g v' t' hget.symm e2
  · intro p v hp; cases hp

/-- `Solver.step` preserves the run-level invariant -/
theorem jinv_step (W : World P S V M) (hW : W.SetsValid) (debug : Bool) (fuel : Nat) (root : P) (rv : V)
    (s : SolverState P S V M Pr) (req : Request P S V M Pr E) (a : Answer P S V M Pr E)
    (hr : RInv W root rv (s, req)) (hr' : RInv' (s, req))
    (hj : JInv W debug fuel root rv (s, req)) (ha : AnswerOK W req a) :
    JInv W debug fuel root rv (Solver.step s a) := by
  rcases hj with hj | ⟨hph, _⟩ | hj
  · have e1 : s = (Solver.start (Pr := Pr) (E := E) (M := M) debug fuel root rv).1 := by rw [← hj]
    rw [e1]
    exact jinv_step_start W debug fuel root rv a
  · simp only at hph
    have : Solver.step s a = (s, .protocolError "already finished") := by
      unfold Solver.step
      rw [hph]
    rw [this]
    exact Or.inr (Or.inl ⟨hph, by intro sel h; cases h⟩)
  · simp only at hj
    unfold Solver.step
    split
    · -- finished
      rename_i hph
      exact Or.inr (Or.inl ⟨hph, by intro sel h; cases h⟩)
    · exact jinv_finish W debug fuel root rv _ _ (by intro sel h; cases h)
    · -- cancel, ok
      rename_i hph
      split
      · exact jinv_finish W debug fuel root rv _ _ (by intro sel h; cases h)
      · split
        · exact jinv_finish W debug fuel root rv _ _ (by intro sel h; cases h)
        · exact jinv_finish W debug fuel root rv _ _ (by intro sel h; cases h)
      · rename_i st hu
        have hsem0 : Sem W root rv s.st (fun p' _ => p' = s.next) :=
          Sem.reWaive W root rv hj.sem (fun _ _ _ hw => hw.2)
        obtain ⟨h1, h2, h3⟩ := State.unitPropagation_sem W root rv hu hsem0 hj.ic
        have hmain : ∀ ph : Phase P S V Pr, (∀ p v, ph ≠ .fetching p v) →
            JMain W root rv ({ s with st := st, phase := ph } : SolverState P S V M Pr) := by
          intro ph hf
          refine ⟨Sem.reWaive W root rv h1 (fun _ _ _ hw => hw.elim), h2, hj.offered, ?_, ?_, ?_⟩
          · intro p v hm _
            exact (hj.deps p v hm (by rw [hph]; intro h; cases h)).mono h3.store
          · intro p pa g v t e1 e2
            obtain ⟨pa0, g0, t0, e3, e4⟩ := h3.dec p pa g v t e1 e2
            exact hj.dec p pa0 g0 v t0 e3 e4
          · intro p v hp; exact absurd hp (hf p v)
        split
        · exact jinv_finish W debug fuel root rv _ _ (by intro sel h; cases h)
        · exact Or.inr (Or.inr (hmain _ (by intro p v h; cases h)))
        · exact Or.inr (Or.inr (hmain _ (by intro p v h; cases h)))
    · -- prioritizing
      rename_i cur rest acc pr hph
      simp only
      split
      · exact Or.inr (Or.inr (hj.rephase rfl rfl (by rw [hph]; intro h; cases h) (by intro p v h; cases h)
          (by intro p v; rw [hph]; intro h; cases h)))
      · exact Or.inr (Or.inr (hj.rephase rfl rfl (by rw [hph]; intro h; cases h) (by intro p v h; cases h)
          (by intro p v; rw [hph]; intro h; cases h)))
    · -- picking
      rename_i acc o hph
      simp only
      obtain ⟨⟨L, hL, hmap⟩, _⟩ := hr'.picking acc hph
      simp only at hL hmap
      have hwf1 : (s.st.ps.afterPrioritize acc).WF' :=
        PartialSolution.afterPrioritize_wf' hj.sem.pinv.wf acc
          (fun q hq => PartialSolution.toPrioritize_sound hj.sem.pinv.wf.wf hL q (hmap ▸ hq))
      have hnc : s.phase ≠ .cancel := by rw [hph]; intro h; cases h
      have hnf : ∀ p v, s.phase ≠ .fetching p v := by intro p v; rw [hph]; intro h; cases h
      have hsem1 : Sem W root rv ({ s.st with ps := s.st.ps.afterPrioritize acc } : State P S V M Pr) noWaive :=
        Sem.setPS W root rv (Sem.reWaive W root rv hj.sem (fun _ _ _ hw => absurd hw.1 hnc))
          (s.st.ps.afterPrioritize acc) rfl rfl hwf1
      split
      · split
        · exact jinv_finish W debug fuel root rv _ _ (by intro sel h; cases h)
        · split
          · exact jinv_finish W debug fuel root rv _ _ (by intro sel h; cases h)
          · refine Or.inr (Or.inr ⟨Sem.reWaive W root rv hsem1 (fun _ _ _ hw => hw.elim), hj.ic.congr rfl rfl,
              hj.offered, fun p v hm _ => hj.deps p v hm (hnf p v), ?_, ?_⟩)
            · intro p pa g v t e1 e2; exact hj.dec p pa g v t e1 e2
            · intro p v hp; cases hp
      · rename_i p
        split
        · exact jinv_finish W debug fuel root rv _ _ (by intro sel h; cases h)
        · have hwf2 := PartialSolution.queueRemove_wf' hwf1 p
          have hsem2 := Sem.setPS W root rv hsem1
            ({ s.st.ps.afterPrioritize acc with queue := SmallMap.remove (s.st.ps.afterPrioritize acc).queue p })
            rfl rfl hwf2
          split
          · exact jinv_finish W debug fuel root rv _ _ (by intro sel h; cases h)
          · split
            · exact jinv_finish W debug fuel root rv _ _ (by intro sel h; cases h)
            · refine Or.inr (Or.inr ⟨Sem.reWaive W root rv hsem2 (fun _ _ _ hw => hw.elim),
                hj.ic.congr rfl rfl, hj.offered, fun p v hm _ => hj.deps p v hm (hnf p v), ?_, ?_⟩)
              · intro p pa g v t e1 e2; exact hj.dec p pa g v t e1 e2
              · intro p v hp; cases hp
    · -- choosing, error
      exact jinv_finish W debug fuel root rv _ _ (by intro sel h; cases h)
    · -- choosing, none
      rename_i p t hph
      obtain ⟨htv, set, hreq, hts⟩ := hr.choosing p t hph
      simp only at hreq
      subst hreq
      obtain ⟨hnext, hterm, hfl⟩ := hr'.choosing p t hph
      simp only at hnext hterm hfl
      have hnc : s.phase ≠ .cancel := by rw [hph]; intro h; cases h
      have hnf : ∀ p v, s.phase ≠ .fetching p v := by intro p v; rw [hph]; intro h; cases h
      split
      · exact jinv_finish W debug fuel root rv _ _ (by intro sel h; cases h)
      · rename_i inc hinc
        have g : inc.Good W root rv s.st.store s.st.store.length :=
          Incompat.noVersions_good W root rv _ _ p t htv set (by subst hts; rfl) ha inc hinc
        split
        · exact jinv_finish W debug fuel root rv _ _ (by intro sel h; cases h)
        · rename_i st hadd
          obtain ⟨pa, s0, hpa, hder⟩ := hfl.2.2
          have Hown : ∀ p', inc.OwnedBy p' → ∀ pa g v t, s.st.ps.getPA p' = some pa →
              pa.inter ≠ .decision g v t := by
            intro p' ho pa' g' v' t' hpa' hd'
            subst hts
            simp only [Incompat.noVersions] at hinc
            injection hinc with hinc; subst hinc
            have : p = p' := ho
            subst this
            rw [hpa] at hpa'; injection hpa' with hpa'; subst hpa'
            rw [hder] at hd'; cases hd'
          obtain ⟨h1, h2, h3, h4, _⟩ := State.addIncompatibility_sem W root rv hadd hj.sem hj.ic g Hown
          apply jinv_loopAgain
          refine ⟨Sem.reWaive W root rv h1 (fun _ _ _ hw => absurd hw.1 hnc), h2, hj.offered, ?_, ?_, ?_⟩
          · intro p v hm _
            exact (hj.deps p v hm (hnf p v)).mono h3
          · intro p' pa' g' v' t' e1 e2
            simp only at e1
            rw [h4] at e1
            exact hj.dec p' pa' g' v' t' e1 e2
          · intro p v hp; cases hp
    · -- choosing, some v
      rename_i p t v hph
      obtain ⟨htv, set, hreq, hts⟩ := hr.choosing p t hph
      simp only at hreq
      subst hreq
      obtain ⟨hnext, hterm, hfl⟩ := hr'.choosing p t hph
      simp only at hnext hterm hfl
      have hnc : s.phase ≠ .cancel := by rw [hph]; intro h; cases h
      have hnf : ∀ p v, s.phase ≠ .fetching p v := by intro p v; rw [hph]; intro h; cases h
      have hsemN : Sem W root rv s.st noWaive :=
        Sem.reWaive W root rv hj.sem (fun _ _ _ hw => absurd hw.1 hnc)
      split
      · exact jinv_finish W debug fuel root rv _ _ (by intro sel h; cases h)
      · rename_i hcont
        have hv : t.contains v = true := by
          cases hc : t.contains v with
          | true => rfl
          | false => rw [hc] at hcont; exact absurd rfl hcont
        simp only
        split
        · -- a new (package, version): fetch its dependencies
          rename_i hnew
          refine Or.inr (Or.inr ⟨Sem.reWaive W root rv hsemN (fun _ _ _ hw => hw.elim), hj.ic, ?_, ?_, ?_, ?_⟩)
          · intro p' v' hm
            rcases List.mem_append.1 hm with hm | hm
            · exact hj.offered p' v' hm
            · simp only [List.mem_singleton, Prod.mk.injEq] at hm
              obtain ⟨rfl, rfl⟩ := hm
              exact ha
          · intro p' v' hm hne
            rcases List.mem_append.1 hm with hm | hm
            · exact hj.deps p' v' hm (hnf p' v')
            · simp only [List.mem_singleton, Prod.mk.injEq] at hm
              obtain ⟨rfl, rfl⟩ := hm
              exact absurd rfl hne
          · intro p' pa' g' v' t' e1 e2
            exact List.mem_append_left _ (hj.dec p' pa' g' v' t' e1 e2)
          · intro p' v' hp
            simp only [Phase.fetching.injEq] at hp
            obtain ⟨rfl, rfl⟩ := hp
            exact List.mem_append_right _ (List.mem_singleton.2 rfl)
        · -- already fetched: decide
          rename_i hnew
          have hmem : (p, v) ∈ s.added := by
            cases hc : s.added.contains (p, v) with
            | true => exact List.contains_iff_mem.1 hc
            | false => rw [hc] at hnew; exact absurd rfl hnew
          split
          · exact jinv_finish W debug fuel root rv _ _ (by intro sel h; cases h)
          · rename_i ps hps
            obtain ⟨pa, hpa, hder⟩ := PartialSolution.inflight_term hfl.2.2 hterm
            exact Or.inr (Or.inr (JMain.afterDecision (s := s) hsemN hj.ic hpa hder hv hfl.2.1 hps hnext hmem
              hj.offered (fun p v hm => hj.deps p v hm (hnf p v)) hj.dec))
    · -- fetching, error
      exact jinv_finish W debug fuel root rv _ _ (by intro sel h; cases h)
    · -- fetching, unavailable
      rename_i p v m hph
      have hreq := hr.fetching p v hph
      simp only at hreq
      subst hreq
      obtain ⟨hnext, hfl, t, hterm, hv⟩ := hr'.fetching p v hph
      simp only at hnext hterm hfl
      have hnc : s.phase ≠ .cancel := by rw [hph]; intro h; cases h
      split
      · exact jinv_finish W debug fuel root rv _ _ (by intro sel h; cases h)
      · rename_i st hadd
        obtain ⟨pa, s0, hpa, hder⟩ := hfl.2.2
        have Hown : ∀ p', (Incompat.customVersion p v m : Incompat P S V M).OwnedBy p' →
            ∀ pa g v t, s.st.ps.getPA p' = some pa → pa.inter ≠ .decision g v t := by
          intro p' ho pa' g' v' t' hpa' hd'
          have : p = p' := ho
          subst this
          rw [hpa] at hpa'; injection hpa' with hpa'; subst hpa'
          rw [hder] at hd'; cases hd'
        obtain ⟨h1, h2, h3, h4, h5⟩ := State.addIncompatibility_sem W root rv hadd hj.sem hj.ic
          (Incompat.customVersion_good W root rv _ _ p v m ha) Hown
        apply jinv_loopAgain
        refine ⟨Sem.reWaive W root rv h1 (fun _ _ _ hw => absurd hw.1 hnc), h2, hj.offered, ?_, ?_, ?_⟩
        · intro p' v' hm _
          by_cases hpv : p' = p ∧ v' = v
          · obtain ⟨rfl, rfl⟩ := hpv
            unfold DepsDone
            have ha' : W.deps p' v' = .unavailable m := ha
            rw [ha']
            exact ⟨_, _, h5, rfl⟩
          · refine (hj.deps p' v' hm ?_).mono h3
            rw [hph]
            intro h
            simp only [Phase.fetching.injEq] at h
            exact hpv ⟨h.1.symm, h.2.symm⟩
        · intro p' pa' g' v' t' e1 e2
          simp only at e1
          rw [h4] at e1
          exact hj.dec p' pa' g' v' t' e1 e2
        · intro p v hp; cases hp
    · -- fetching, available
      rename_i p v deps hph
      have hreq := hr.fetching p v hph
      simp only at hreq
      subst hreq
      obtain ⟨hnext, hfl, t, hterm, hv⟩ := hr'.fetching p v hph
      simp only at hnext hterm hfl
      have hnc : s.phase ≠ .cancel := by rw [hph]; intro h; cases h
      have ha' : W.deps p v = .available deps := ha
      split
      · exact jinv_finish W debug fuel root rv _ _ (by intro sel h; cases h)
      · rename_i st start stop hadd
        obtain ⟨pa, hpa, hder⟩ := PartialSolution.inflight_term hfl.2.2 hterm
        have hund : ∀ pa g w t, s.st.ps.getPA p = some pa → pa.inter ≠ .decision g w t := by
          intro pa' g' w' t' hpa' hd'
          rw [hpa] at hpa'; injection hpa' with hpa'; subst hpa'
          rw [hder] at hd'; cases hd'
        obtain ⟨h1, h2, h3, h4, h5⟩ := State.addIncompatibilityFromDependencies_sem W hW root rv hadd
          hj.sem hj.ic ha' hund
        have hsemN : Sem W root rv st noWaive :=
          Sem.reWaive W root rv h1 (fun _ _ _ hw => absurd hw.1 hnc)
        have hdeps : ∀ p' v', (p', v') ∈ s.added → DepsDone W st.store p' v' := by
          intro p' v' hm
          by_cases hpv : p' = p ∧ v' = v
          · obtain ⟨rfl, rfl⟩ := hpv
            unfold DepsDone
            rw [ha']
            intro d hd
            obtain ⟨id, hid⟩ := h5 d hd
            exact ⟨id, _, hid, rfl⟩
          · refine (hj.deps p' v' hm ?_).mono h3
            rw [hph]
            intro h
            simp only [Phase.fetching.injEq] at h
            exact hpv ⟨h.1.symm, h.2.symm⟩
        have hdec : ∀ p' pa' g' v' t', st.ps.getPA p' = some pa' → pa'.inter = .decision g' v' t' →
            (p', v') ∈ s.added := by
          intro p' pa' g' v' t' e1 e2
          rw [h4] at e1
          exact hj.dec p' pa' g' v' t' e1 e2
        simp only
        split
        · exact jinv_finish W debug fuel root rv _ _ (by intro sel h; cases h)
        · rename_i ps hps
          rcases PartialSolution.addVersion_cases hps with hps | hps
          · have hpa' : st.ps.getPA p = some pa := by rw [h4]; exact hpa
            have hq' : SmallMap.get st.ps.queue p = none := by rw [h4]; exact hfl.2.1
            exact Or.inr (Or.inr (JMain.afterDecision (s := s) hsemN h2 hpa' hder hv hq' hps hnext
              (hj.fetch p v hph) hj.offered hdeps hdec))
          · subst hps
            apply jinv_loopAgain
            exact ⟨Sem.reWaive W root rv hsemN (fun _ _ _ hw => hw.elim), h2, hj.offered,
              fun p v hm _ => hdeps p v hm, hdec, by intro p v hp; cases hp⟩
    · exact jinv_finish W debug fuel root rv _ _ (by intro sel h; cases h)

end Pubgrub

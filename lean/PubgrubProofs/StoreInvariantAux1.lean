/-
Helpers for `StoreInvariant.lean`, part 1: the state-level invariant, growth of the store, and
preservation of the validity of the terms kept in the partial solution.
-/
import PubgrubProofs.IncompatSound

set_option linter.unusedSectionVars false

namespace Pubgrub
open VersionSet

variable {P S V M Pr : Type} [DecidableEq P] [VersionSet S V] [DecidableEq S]
  [LawfulVersionSet S V]

/-! ### `Except` plumbing -/

theorem unwrapOr_ok {α : Type} {o : Option α} {site : String} {a : α}
    (h : unwrapOr o site = .ok a) : o = some a := by
  cases o <;> simp_all [unwrapOr]

theorem storeGet_ok {α : Type} {store : List α} {id : Nat} {a : α}
    (h : storeGet store id = .ok a) : store[id]? = some a := unwrapOr_ok h

theorem storeGet_lt {α : Type} {store : List α} {id : Nat} {a : α}
    (h : storeGet store id = .ok a) : id < store.length := by
  have := storeGet_ok h
  exact (List.getElem?_eq_some_iff.1 this).1

/-! ### growth of the store -/

theorem storeInv_append (W : World P S V M) (root : P) (rv : V) (store extra : List (Incompat P S V M))
    (h : StoreInv W root rv store)
    (hx : ∀ (k : Nat) (i : Incompat P S V M), extra[k]? = some i → i.Good W root rv (store ++ extra) (store.length + k)) :
    StoreInv W root rv (store ++ extra) := by
  intro id i hi
  by_cases hlt : id < store.length
  · rw [List.getElem?_append_left hlt] at hi
    exact Incompat.good_append W root rv store extra id i (h id i hi) (Nat.le_of_lt hlt)
  · have hge : store.length ≤ id := Nat.le_of_not_lt hlt
    rw [List.getElem?_append_right hge] at hi
    have := hx (id - store.length) i hi
    rwa [Nat.add_sub_cancel' hge] at this

theorem storeInv_push (W : World P S V M) (root : P) (rv : V) (store : List (Incompat P S V M))
    (i : Incompat P S V M) (h : StoreInv W root rv store) (g : i.Good W root rv store store.length) :
    StoreInv W root rv (store ++ [i]) := by
  apply storeInv_append W root rv store [i] h
  intro k j hj
  cases k with
  | zero =>
    simp at hj; subst hj
    exact Incompat.good_append W root rv store [i] _ i g (Nat.le_refl _)
  | succ k => simp at hj

theorem storeInv_init (W : World P S V M) (root : P) (rv : V) :
    StoreInv W root rv [(Incompat.notRoot root rv : Incompat P S V M)] := by
  intro id i hi
  cases id with
  | zero => simp at hi; subst hi; exact Incompat.notRoot_good W root rv _ 0
  | succ k => simp at hi

/-! ### validity of the terms kept in the partial solution -/

/-- the accumulated terms of one package are valid -/
structure PackageAssignments.TermsValid (pa : PackageAssignments S V) : Prop where
  inter : pa.inter.term.Valid
  dated : ∀ dd ∈ pa.dated, dd.accumulated.Valid

/-- every term stored in the partial solution is valid -/
def PartialSolution.TermsValid (ps : PartialSolution P S V Pr) : Prop :=
  ∀ kv ∈ ps.assignments, kv.2.TermsValid

namespace PartialSolution

theorem termsValid_empty : (PartialSolution.empty : PartialSolution P S V Pr).TermsValid := by
  intro kv h; simp [PartialSolution.empty] at h

theorem termsValid_of_getPA {ps : PartialSolution P S V Pr} (h : ps.TermsValid) {p : P}
    {pa : PackageAssignments S V} (hp : ps.getPA p = some pa) : pa.TermsValid :=
  h (p, pa) (SmallMap.mem_of_get hp)

theorem termIntersection_valid {ps : PartialSolution P S V Pr} (h : ps.TermsValid) {p : P} {t : Term S}
    (hp : ps.termIntersectionForPackage p = some t) : t.Valid := by
  simp only [termIntersectionForPackage, Option.map_eq_some_iff] at hp
  obtain ⟨pa, hpa, rfl⟩ := hp
  exact (termsValid_of_getPA h hpa).inter

theorem termsValid_set {l : List (P × PackageAssignments S V)} (h : ∀ kv ∈ l, kv.2.TermsValid)
    (i : Nat) (x : P × PackageAssignments S V) (hx : x.2.TermsValid) :
    ∀ kv ∈ l.set i x, kv.2.TermsValid := by
  intro kv hkv
  rcases List.mem_or_eq_of_mem_set hkv with h' | h'
  · exact h kv h'
  · subst h'; exact hx

theorem termsValid_swap {l l' : List (P × PackageAssignments S V)} (h : ∀ kv ∈ l, kv.2.TermsValid)
    (i j : Nat) (hs : swapIndices l i j = .ok l') : ∀ kv ∈ l', kv.2.TermsValid := by
  unfold swapIndices at hs
  split at hs
  · rename_i a b ha hb
    injection hs with hs; subst hs
    have ha' := List.mem_of_getElem? ha
    have hb' := List.mem_of_getElem? hb
    exact termsValid_set (termsValid_set h i b (h b hb')) j a (h a ha')
  · cases hs

end PartialSolution
end Pubgrub

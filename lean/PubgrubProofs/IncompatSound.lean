/-
TARGET FILE: PubgrubProofs/IncompatSound.lean
Local soundness of every way the solver creates an incompatibility (used by the store invariant,
properties C06 / C02 / C03).
-/
import PubgrubProofs.StoreDefs
import PubgrubProofs.TermLaws

set_option linter.unusedSectionVars false

namespace Pubgrub
open VersionSet

variable {P S V M : Type} [DecidableEq P] [VersionSet S V] [DecidableEq S] [LawfulVersionSet S V]

/-! ### SmallMap facts (keys distinct) -/

namespace SmallMap
variable {K T : Type} [DecidableEq K]

theorem mem_of_get {m : SmallMap K T} {k : K} {v : T} (h : get m k = some v) : (k, v) ∈ m := by
  induction m with
  | nil => simp [get] at h
  | cons x m ih =>
    obtain ⟨a, b⟩ := x
    by_cases h2 : k = a
    · subst h2; simp [get] at h; subst h; simp
    · simp [get, h2] at h; exact List.mem_cons_of_mem _ (ih h)

theorem key_mem_of_mem {m : SmallMap K T} {k : K} {v : T} (h : (k, v) ∈ m) : k ∈ m.map Prod.fst :=
  List.mem_map.mpr ⟨(k, v), h, rfl⟩

theorem nodup_cons {a : K} {b : T} {m : SmallMap K T} :
    NoDupKeys ((a, b) :: m) ↔ (∀ v, (a, v) ∉ m) ∧ NoDupKeys m := by
  simp [NoDupKeys, List.nodup_cons]

theorem get_of_mem {m : SmallMap K T} (hn : NoDupKeys m) {k : K} {v : T} (h : (k, v) ∈ m) :
    get m k = some v := by
  induction m with
  | nil => simp at h
  | cons x m ih =>
    obtain ⟨a, b⟩ := x
    rw [nodup_cons] at hn
    rcases List.mem_cons.mp h with h1 | h1
    · cases h1; simp [get]
    · have : k ≠ a := by
        intro e; subst e; exact hn.1 _ h1
      simp [get, this]; exact ih hn.2 h1

theorem get_eq_some_iff_mem (m : SmallMap K T) (h : NoDupKeys m) (k : K) (v : T) :
    get m k = some v ↔ (k, v) ∈ m := ⟨mem_of_get, get_of_mem h⟩

theorem get_eq_none_iff (m : SmallMap K T) (k : K) : get m k = none ↔ ∀ v, (k, v) ∉ m := by
  induction m with
  | nil => simp [get]
  | cons x m ih =>
    obtain ⟨a, b⟩ := x
    by_cases h : k = a
    · subst h; simp [get]; exact ⟨b, fun h => absurd rfl h⟩
    · simp [get, h, ih]

theorem get_insert (m : SmallMap K T) (k k' : K) (v : T) :
    get (insert m k v) k' = if k' = k then some v else get m k' := by
  induction m with
  | nil => simp [insert, get]
  | cons x m ih =>
    obtain ⟨a, b⟩ := x
    by_cases h : k = a
    · subst h; by_cases h2 : k' = k <;> simp [insert, get, h2]
    · by_cases h2 : k' = a
      · subst h2; simp [insert, get, h]; intro h3; exact absurd h3.symm h
      · simp [insert, get, h, h2, ih]

theorem get_remove_ne (m : SmallMap K T) (k k' : K) (hk : k' ≠ k) :
    get (remove m k) k' = get m k' := by
  induction m with
  | nil => simp [remove, get]
  | cons x m ih =>
    obtain ⟨a, b⟩ := x
    by_cases h : k = a
    · subst h; simp [remove, get, hk]
    · by_cases h2 : k' = a <;> simp [remove, get, h, h2, ih]

theorem mem_remove_iff (m : SmallMap K T) (h : NoDupKeys m) (k : K) (k' : K) (v' : T) :
    (k', v') ∈ remove m k ↔ k' ≠ k ∧ (k', v') ∈ m := by
  induction m with
  | nil => simp [remove]
  | cons x m ih =>
    obtain ⟨a, b⟩ := x
    rw [nodup_cons] at h
    by_cases hk : k = a
    · subst hk
      simp only [remove, if_true, List.mem_cons, Prod.mk.injEq]
      constructor
      · intro hm; exact ⟨fun e => h.1 v' (e ▸ hm), Or.inr hm⟩
      · rintro ⟨h1, h2 | h2⟩
        · exact absurd h2.1 h1
        · exact h2
    · simp only [remove, if_neg hk, List.mem_cons, Prod.mk.injEq, ih h.2]
      constructor
      · rintro (⟨rfl, rfl⟩ | ⟨h1, h2⟩)
        · exact ⟨fun e => hk e.symm, Or.inl ⟨rfl, rfl⟩⟩
        · exact ⟨h1, Or.inr h2⟩
      · rintro ⟨h1, h2 | h2⟩
        · exact Or.inl h2
        · exact Or.inr ⟨h1, h2⟩

theorem mem_insert_iff (m : SmallMap K T) (h : NoDupKeys m) (k : K) (v : T) (k' : K) (v' : T) :
    (k', v') ∈ insert m k v ↔ (k' = k ∧ v' = v) ∨ (k' ≠ k ∧ (k', v') ∈ m) := by
  induction m with
  | nil => simp [insert]
  | cons x m ih =>
    obtain ⟨a, b⟩ := x
    rw [nodup_cons] at h
    by_cases hk : k = a
    · subst hk
      simp only [insert, if_true, List.mem_cons, Prod.mk.injEq]
      constructor
      · rintro (h1 | h1)
        · exact Or.inl h1
        · exact Or.inr ⟨fun e => h.1 v' (e ▸ h1), Or.inr h1⟩
      · rintro (h1 | ⟨h1, h2 | h2⟩)
        · exact Or.inl h1
        · exact absurd h2.1 h1
        · exact Or.inr h2
    · simp only [insert, if_neg hk, List.mem_cons, Prod.mk.injEq, ih h.2]
      constructor
      · rintro (⟨rfl, rfl⟩ | h1 | ⟨h1, h2⟩)
        · exact Or.inr ⟨fun e => hk e.symm, Or.inl ⟨rfl, rfl⟩⟩
        · exact Or.inl h1
        · exact Or.inr ⟨h1, Or.inr h2⟩
      · rintro (h1 | ⟨h1, h2 | h2⟩)
        · exact Or.inr (Or.inl h1)
        · exact Or.inl h2
        · exact Or.inr (Or.inr ⟨h1, h2⟩)


theorem nodup_insert (m : SmallMap K T) (h : NoDupKeys m) (k : K) (v : T) : NoDupKeys (insert m k v) := by
  induction m with
  | nil => simp [insert, NoDupKeys]
  | cons x m ih =>
    obtain ⟨a, b⟩ := x
    have h' := h
    rw [nodup_cons] at h
    by_cases hk : k = a
    · subst hk; simp only [insert, if_true]; rw [nodup_cons]; exact h
    · simp only [insert, if_neg hk]; rw [nodup_cons]
      refine ⟨?_, ih h.2⟩
      intro w hw
      rw [mem_insert_iff m h.2] at hw
      rcases hw with hw | hw
      · exact hk hw.1.symm
      · exact h.1 w hw.2

theorem nodup_remove (m : SmallMap K T) (h : NoDupKeys m) (k : K) : NoDupKeys (remove m k) := by
  induction m with
  | nil => simp [remove, NoDupKeys]
  | cons x m ih =>
    obtain ⟨a, b⟩ := x
    rw [nodup_cons] at h
    by_cases hk : k = a
    · subst hk; simp only [remove, if_true]; exact h.2
    · simp only [remove, if_neg hk]; rw [nodup_cons]
      refine ⟨?_, ih h.2⟩
      intro w hw
      rw [mem_remove_iff m h.2] at hw
      exact h.1 w hw.2

theorem get_remove (m : SmallMap K T) (h : NoDupKeys m) (k k' : K) :
    get (remove m k) k' = if k' = k then none else get m k' := by
  by_cases hk : k' = k
  · subst hk
    rw [if_pos rfl, get_eq_none_iff]
    intro v hv
    exact ((mem_remove_iff m h k' k' v).1 hv).1 rfl
  · rw [if_neg hk, get_remove_ne m k k' hk]

theorem nodup_filter {m : SmallMap K T} (hn : NoDupKeys m) (q : K × T → Bool) :
    NoDupKeys (m.filter q) := by
  unfold NoDupKeys at *
  exact (List.Sublist.map _ List.filter_sublist).nodup hn

theorem get_filter_ne (m : SmallMap K T) (p k : K) :
    get (m.filter (fun kv => decide (kv.1 ≠ p))) k = if k = p then none else get m k := by
  induction m with
  | nil => simp [get]
  | cons x m ih =>
    obtain ⟨a, b⟩ := x
    simp only [ne_eq, decide_not] at ih ⊢
    by_cases h : a = p
    · subst h
      by_cases h2 : k = a
      · subst h2; simpa [List.filter, get] using ih
      · simp [List.filter, get, ih, h2]
    · by_cases h2 : k = a
      · subst h2; simp [List.filter, get, h]
      · simp [List.filter, get, h, h2, ih]

/-- the value `merge` leaves at a key, from the values of the two maps at that key -/
def mergeOpt (g : T → T → T) : Option T → Option T → Option T
  | some a, some b => some (g a b)
  | some a, none => some a
  | none, some b => some b
  | none, none => none

theorem merge_spec (g : T → T → T) (m2 : List (K × T)) (hn2 : NoDupKeys m2) (m : SmallMap K T)
    (hn : NoDupKeys m) :
    NoDupKeys (merge m m2 (fun a b => some (g a b))) ∧
    ∀ k, get (merge m m2 (fun a b => some (g a b))) k = mergeOpt g (get m k) (get m2 k) := by
  induction m2 generalizing m with
  | nil => refine ⟨by simpa [merge] using hn, fun k => ?_⟩; cases h : get m k <;> simp [merge, get, h, mergeOpt]
  | cons x m2 ih =>
    obtain ⟨a, b⟩ := x
    rw [nodup_cons] at hn2
    have ha2 : get m2 a = none := (get_eq_none_iff m2 a).2 hn2.1
    simp only [merge, List.foldl_cons]
    cases hga : get m a with
    | none =>
      obtain ⟨h1, h2⟩ := ih hn2.2 (insert m a b) (nodup_insert m hn a b)
      refine ⟨by simpa [merge] using h1, fun k => ?_⟩
      have := h2 k; simp only [merge] at this; rw [this, get_insert]
      by_cases hk : k = a
      · subst hk; simp [get, ha2, hga, mergeOpt]
      · simp [get, hk]
    | some v1 =>
      obtain ⟨h1, h2⟩ := ih hn2.2 (insert m a (g v1 b)) (nodup_insert m hn a _)
      refine ⟨by simpa [merge] using h1, fun k => ?_⟩
      have := h2 k; simp only [merge] at this; rw [this, get_insert]
      by_cases hk : k = a
      · subst hk; simp [get, ha2, hga, mergeOpt]
      · simp [get, hk]

end SmallMap

/-! ### external constructors -/
namespace Incompat

theorem allTrue_iff_get {σ : P → Option V} {i : Incompat P S V M} (hn : SmallMap.NoDupKeys i.terms) :
    i.AllTrue σ ↔ ∀ k t, SmallMap.get i.terms k = some t → t.eval (σ k) = true := by
  constructor
  · intro h k t hg; exact h k t (SmallMap.mem_of_get hg)
  · intro h k t hx; exact h k t (SmallMap.get_of_mem hn hx)

theorem notRoot_good (W : World P S V M) (root : P) (rv : V) (store : List (Incompat P S V M)) (id : Nat) :
    (notRoot (M := M) root rv : Incompat P S V M).Good W root rv store id := by
  refine ⟨?_, ?_, ?_, ?_⟩
  · intro σ hσ h
    have := h root (Term.neg (singleton rv)) (by simp [notRoot])
    rw [hσ.root] at this
    simp [Term.eval, (LawfulVersionSet.contains_singleton rv rv).2 rfl] at this
  · simp [notRoot, SmallMap.NoDupKeys]
  · intro p t ht
    simp only [notRoot, List.mem_singleton, Prod.mk.injEq] at ht
    obtain ⟨_, rfl⟩ := ht
    exact LawfulVersionSet.valid_singleton rv
  · simp [KindTrue, notRoot]

theorem noVersions_good (W : World P S V M) (root : P) (rv : V) (store : List (Incompat P S V M)) (id : Nat)
    (p : P) (t : Term S) (ht : t.Valid) (s : S) (hs : unwrapPositive t = .ok s)
    (hnone : ∀ v ∈ W.versions p, contains s v = false)
    (i : Incompat P S V M) (hi : noVersions p t = .ok i) : i.Good W root rv store id := by
  cases t with
  | neg n => simp [unwrapPositive] at hs
  | pos r =>
    simp only [unwrapPositive, Except.ok.injEq] at hs
    subst hs
    simp only [noVersions, Except.ok.injEq] at hi
    subst hi
    refine ⟨?_, ?_, ?_, ?_⟩
    · intro σ hσ h
      have h1 := h p (Term.pos r) (by simp)
      cases hp : σ p with
      | none => rw [hp] at h1; simp [Term.eval] at h1
      | some v =>
        rw [hp] at h1
        simp only [Term.eval] at h1
        rw [hnone v (hσ.offered p v hp)] at h1
        exact absurd h1 (by simp)
    · simp [SmallMap.NoDupKeys]
    · intro q t hq
      simp only [List.mem_singleton, Prod.mk.injEq] at hq
      obtain ⟨_, rfl⟩ := hq
      exact ht
    · simp only [KindTrue]
      exact ⟨hnone, trivial⟩

theorem customVersion_good (W : World P S V M) (root : P) (rv : V) (store : List (Incompat P S V M)) (id : Nat)
    (p : P) (v : V) (m : M) (h : W.deps p v = .unavailable m) :
    (customVersion p v m : Incompat P S V M).Good W root rv store id := by
  refine ⟨?_, ?_, ?_, ?_⟩
  · intro σ hσ hall
    have h1 := hall p (Term.pos (singleton v)) (by simp [customVersion])
    cases hp : σ p with
    | none => rw [hp] at h1; simp [Term.eval] at h1
    | some w =>
      rw [hp] at h1
      simp only [Term.eval] at h1
      have hw : w = v := (LawfulVersionSet.contains_singleton v w).1 h1
      subst hw
      obtain ⟨ds, hds, _⟩ := hσ.deps p w hp
      rw [h] at hds
      cases hds
  · simp [customVersion, SmallMap.NoDupKeys]
  · intro q t hq
    simp only [customVersion, List.mem_singleton, Prod.mk.injEq] at hq
    obtain ⟨_, rfl⟩ := hq
    exact LawfulVersionSet.valid_singleton v
  · simp only [KindTrue, customVersion]
    exact ⟨v, rfl, h, trivial⟩

/-- the general form: a dependency incompatibility whose recorded fact is true is good -/
theorem fromDependency_good_of (W : World P S V M) (root : P) (rv : V)
    (store : List (Incompat P S V M)) (id : Nat) (p : P) (s : S) (q : P) (t : S)
    (hdep : ∀ w, contains s w = true → ∃ ds, W.deps p w = .available ds ∧ (q, t) ∈ ds)
    (hs : LawfulVersionSet.Valid V s) (ht : LawfulVersionSet.Valid V t) :
    (fromDependency (M := M) p s (q, t) : Incompat P S V M).Good W root rv store id := by
  refine ⟨?_, ?_, ?_, ?_⟩
  · intro σ hσ hall
    -- the term on `p` forces `σ p = some w` with `w ∈ s`
    have key : ∀ w, σ p = some w → contains s w = true →
        ∃ u, σ q = some u ∧ contains t u = true := by
      intro w hw hc
      obtain ⟨ds, hds, hmem⟩ := hdep w hc
      obtain ⟨ds', hds', hall'⟩ := hσ.deps p w hw
      rw [hds] at hds'
      cases hds'
      exact hall' q t hmem
    unfold AllTrue fromDependency at hall
    simp only at hall
    by_cases hqp : q = p
    · subst hqp
      simp only [if_true, List.mem_singleton, Prod.mk.injEq] at hall
      have h1 := hall q _ ⟨rfl, rfl⟩
      cases hp : σ q with
      | none => rw [hp] at h1; simp [Term.eval] at h1
      | some w =>
        rw [hp] at h1
        simp only [Term.eval, LawfulVersionSet.contains_intersection _ _ _ hs (LawfulVersionSet.valid_complement _ ht),
          LawfulVersionSet.contains_complement _ _ ht, Bool.and_eq_true, Bool.not_eq_true'] at h1
        obtain ⟨u, hu, hc⟩ := key w hp h1.1
        rw [hp] at hu; cases hu
        rw [h1.2] at hc; exact absurd hc (by simp)
    · rw [if_neg hqp] at hall
      by_cases hte : t = (empty : S)
      · subst hte
        simp only [if_true, List.mem_singleton, Prod.mk.injEq] at hall
        have h1 := hall p _ ⟨rfl, rfl⟩
        cases hp : σ p with
        | none => rw [hp] at h1; simp [Term.eval] at h1
        | some w =>
          rw [hp] at h1
          simp only [Term.eval] at h1
          obtain ⟨u, hu, hc⟩ := key w hp h1
          rw [LawfulVersionSet.contains_empty] at hc; exact absurd hc (by simp)
      · rw [if_neg hte] at hall
        have h1 := hall p (Term.pos s) (by simp)
        have h2 := hall q (Term.neg t) (by simp)
        cases hp : σ p with
        | none => rw [hp] at h1; simp [Term.eval] at h1
        | some w =>
          rw [hp] at h1
          simp only [Term.eval] at h1
          obtain ⟨u, hu, hc⟩ := key w hp h1
          rw [hu] at h2
          simp [Term.eval, hc] at h2
  · unfold fromDependency
    simp only
    split
    · simp [SmallMap.NoDupKeys]
    · split
      · simp [SmallMap.NoDupKeys]
      · rename_i h1 _
        simp [SmallMap.NoDupKeys]
        exact fun e => h1 e.symm
  · intro k x hk
    unfold fromDependency at hk
    simp only at hk
    split at hk
    · simp only [List.mem_singleton, Prod.mk.injEq] at hk
      obtain ⟨_, rfl⟩ := hk
      exact LawfulVersionSet.valid_intersection _ _ hs (LawfulVersionSet.valid_complement _ ht)
    · split at hk
      · simp only [List.mem_singleton, Prod.mk.injEq] at hk
        obtain ⟨_, rfl⟩ := hk
        exact hs
      · simp only [List.mem_cons, Prod.mk.injEq, List.not_mem_nil, or_false] at hk
        rcases hk with ⟨_, rfl⟩ | ⟨_, rfl⟩
        · exact hs
        · exact ht
  · simp only [KindTrue, fromDependency]
    exact ⟨hdep, hs, ht, trivial⟩

theorem fromDependency_good (W : World P S V M) (hW : W.SetsValid) (root : P) (rv : V)
    (store : List (Incompat P S V M)) (id : Nat)
    (p : P) (v : V) (ds : List (P × S)) (h : W.deps p v = .available ds) (d : P × S) (hd : d ∈ ds) :
    (fromDependency (M := M) p (VersionSet.singleton v) d : Incompat P S V M).Good W root rv store id := by
  obtain ⟨q, t⟩ := d
  apply fromDependency_good_of
  · intro w hw
    have := (LawfulVersionSet.contains_singleton v w).1 hw
    subst this
    exact ⟨ds, h, hd⟩
  · exact LawfulVersionSet.valid_singleton v
  · exact hW p v ds h _ hd


/-! ### derived constructors -/

/-- what `priorCause` computes, in terms of `get` -/
theorem priorCause_spec (ia ib : Incompat P S V M)
    (na : SmallMap.NoDupKeys ia.terms) (nb : SmallMap.NoDupKeys ib.terms) (a b : Nat) (pivot : P)
    (r : Incompat P S V M) (hr : priorCause a b ia ib pivot = .ok r) :
    ∃ t1 t2 merged, SmallMap.get ia.terms pivot = some t1 ∧ SmallMap.get ib.terms pivot = some t2 ∧
      SmallMap.NoDupKeys merged ∧
      (∀ k, SmallMap.get merged k =
        if k = pivot then none else
        SmallMap.mergeOpt Term.intersection (SmallMap.get ia.terms k) (SmallMap.get ib.terms k)) ∧
      r.kind = .derivedFrom a b ∧
      r.terms = if Term.union t1 t2 ≠ (Term.any : Term S) then SmallMap.insert merged pivot (Term.union t1 t2)
        else merged := by
  unfold priorCause at hr
  cases h1 : SmallMap.get ia.terms pivot with
  | none => simp [SmallMap.splitOne, h1, unwrapOr, bind, Except.bind] at hr
  | some t1 =>
    cases h2 : SmallMap.get ib.terms pivot with
    | none => simp [SmallMap.splitOne, h1, h2, unwrapOr, bind, Except.bind] at hr
    | some t2 =>
      simp only [SmallMap.splitOne, h1, h2, unwrapOr, bind, Except.bind, pure, Except.pure,
        Except.ok.injEq] at hr
      have hnr := SmallMap.nodup_remove ia.terms na pivot
      have hnf := SmallMap.nodup_filter nb (fun kv => decide (kv.1 ≠ pivot))
      obtain ⟨hnm, hm⟩ := SmallMap.merge_spec Term.intersection _ hnf _ hnr
      refine ⟨t1, t2, _, rfl, rfl, hnm, ?_, ?_, ?_⟩
      · intro k
        rw [hm k, SmallMap.get_remove _ na, SmallMap.get_filter_ne]
        by_cases hk : k = pivot
        · subst hk; simp [SmallMap.mergeOpt]
        · simp [hk]
      · rw [← hr]
      · rw [← hr]

theorem priorCause_entailed (ia ib : Incompat P S V M)
    (na : SmallMap.NoDupKeys ia.terms) (nb : SmallMap.NoDupKeys ib.terms)
    (sa : ia.SetsValid) (sb : ib.SetsValid) (a b : Nat) (pivot : P)
    (r : Incompat P S V M) (hr : priorCause a b ia ib pivot = .ok r) (σ : P → Option V)
    (h : r.AllTrue σ) : ia.AllTrue σ ∨ ib.AllTrue σ := by
  obtain ⟨t1, t2, merged, hg1, hg2, hnm, hm, _, hterms⟩ := priorCause_spec ia ib na nb a b pivot r hr
  have v1 : t1.Valid := sa _ _ (SmallMap.mem_of_get hg1)
  have v2 : t2.Valid := sb _ _ (SmallMap.mem_of_get hg2)
  have hunion : (Term.union t1 t2).eval (σ pivot) = true := by
    by_cases hany : Term.union t1 t2 = Term.any
    · rw [hany]; exact Term.eval_any _
    · rw [if_pos hany] at hterms
      apply h pivot
      rw [hterms]
      exact SmallMap.mem_of_get (by rw [SmallMap.get_insert, if_pos rfl])
  have hmerged : ∀ k t, k ≠ pivot → SmallMap.get merged k = some t → t.eval (σ k) = true := by
    intro k t hk hg
    apply h k
    rw [hterms]
    split
    · exact SmallMap.mem_of_get (by rw [SmallMap.get_insert, if_neg hk]; exact hg)
    · exact SmallMap.mem_of_get hg
  rw [Term.eval_union _ _ v1 v2, Bool.or_eq_true] at hunion
  rcases hunion with h1 | h2
  · left
    rw [allTrue_iff_get na]
    intro k t hg
    by_cases hk : k = pivot
    · subst hk; rw [hg1] at hg; cases hg; exact h1
    · have e := hm k
      rw [if_neg hk, hg] at e
      cases hg2' : SmallMap.get ib.terms k with
      | none => rw [hg2'] at e; exact hmerged k t hk e
      | some t' =>
        rw [hg2'] at e
        have := hmerged k _ hk e
        rw [Term.eval_intersection _ _ (sa _ _ (SmallMap.mem_of_get hg)) (sb _ _ (SmallMap.mem_of_get hg2')),
          Bool.and_eq_true] at this
        exact this.1
  · right
    rw [allTrue_iff_get nb]
    intro k t hg
    by_cases hk : k = pivot
    · subst hk; rw [hg2] at hg; cases hg; exact h2
    · have e := hm k
      rw [if_neg hk, hg] at e
      cases hg1' : SmallMap.get ia.terms k with
      | none => rw [hg1'] at e; exact hmerged k t hk e
      | some t' =>
        rw [hg1'] at e
        have := hmerged k _ hk e
        rw [Term.eval_intersection _ _ (sa _ _ (SmallMap.mem_of_get hg1')) (sb _ _ (SmallMap.mem_of_get hg)),
          Bool.and_eq_true] at this
        exact this.2

/-- the rule of resolution is sound for any pivot -/
theorem priorCause_good (W : World P S V M) (root : P) (rv : V) (store : List (Incompat P S V M))
    (a b : Nat) (ia ib : Incompat P S V M) (ha : store[a]? = some ia) (hb : store[b]? = some ib)
    (ga : ia.Good W root rv store a) (gb : ib.Good W root rv store b) (pivot : P)
    (r : Incompat P S V M) (hr : priorCause a b ia ib pivot = .ok r) (id : Nat) (hida : a < id) (hidb : b < id) :
    r.Good W root rv store id := by
  obtain ⟨t1, t2, merged, hg1, hg2, hnm, hm, hkind, hterms⟩ :=
    priorCause_spec ia ib ga.nodup gb.nodup a b pivot r hr
  have v1 : t1.Valid := ga.sets _ _ (SmallMap.mem_of_get hg1)
  have v2 : t2.Valid := gb.sets _ _ (SmallMap.mem_of_get hg2)
  have hnr : SmallMap.NoDupKeys r.terms := by
    rw [hterms]; split
    · exact SmallMap.nodup_insert _ hnm _ _
    · exact hnm
  refine ⟨?_, hnr, ?_, ?_⟩
  · intro σ hσ hall
    rcases priorCause_entailed ia ib ga.nodup gb.nodup ga.sets gb.sets a b pivot r hr σ hall with h | h
    · exact ga.valid σ hσ h
    · exact gb.valid σ hσ h
  · have hmv : ∀ k t, (k, t) ∈ merged → t.Valid := by
      intro k t hkt
      have hg := SmallMap.get_of_mem hnm hkt
      rw [hm k] at hg
      split at hg
      · cases hg
      · cases hx : SmallMap.get ia.terms k <;> cases hy : SmallMap.get ib.terms k <;>
          rw [hx, hy] at hg <;> simp only [SmallMap.mergeOpt, Option.some.injEq, reduceCtorEq] at hg <;>
          subst hg
        · exact gb.sets _ _ (SmallMap.mem_of_get hy)
        · exact ga.sets _ _ (SmallMap.mem_of_get hx)
        · exact Term.valid_intersection _ _ (ga.sets _ _ (SmallMap.mem_of_get hx))
            (gb.sets _ _ (SmallMap.mem_of_get hy))
    intro k t hkt
    rw [hterms] at hkt
    split at hkt
    · rw [SmallMap.mem_insert_iff _ hnm] at hkt
      rcases hkt with ⟨_, rfl⟩ | ⟨_, hkt⟩
      · exact Term.valid_union _ _ v1 v2
      · exact hmv k t hkt
    · exact hmv k t hkt
  · simp only [KindTrue, hkind]
    exact ⟨hida, hidb, ia, ib, pivot, r, ha, hb, hr, rfl⟩


theorem asDependency_some {i : Incompat P S V M} {p1 p2 : P} (h : i.asDependency = some (p1, p2)) :
    ∃ s t, i.kind = .fromDependencyOf p1 s p2 t ∧ p1 ≠ p2 := by
  unfold asDependency at h
  split at h
  · rename_i a s b t hk
    split at h
    · rename_i hne
      simp only [Option.some.injEq, Prod.mk.injEq] at h
      obtain ⟨rfl, rfl⟩ := h
      exact ⟨s, t, hk, hne⟩
    · cases h
  · cases h

theorem get_fromDependency_terms (p q : P) (s t : S) (h : p ≠ q) :
    SmallMap.get (fromDependency (M := M) p s (q, t)).terms p = some (Term.pos s) ∧
    SmallMap.get (fromDependency (M := M) p s (q, t)).terms q =
      if t = (empty : S) then none else some (Term.neg t) := by
  simp only [fromDependency, if_neg h.symm]
  split <;> simp [SmallMap.get, h.symm]

/-- merging two dependency incompatibilities with the same dependency term -/
theorem mergeDependents_good (W : World P S V M) (root : P) (rv : V) (store : List (Incompat P S V M))
    (a b : Nat) (ia ib : Incompat P S V M)
    (ga : ia.Good W root rv store a) (gb : ib.Good W root rv store b)
    (r : Incompat P S V M) (hr : mergeDependents ia ib = .ok (some r)) (id : Nat) :
    r.Good W root rv store id := by
  unfold mergeDependents at hr
  cases ha : ia.asDependency with
  | none => simp [ha] at hr
  | some pa =>
    obtain ⟨p1, p2⟩ := pa
    cases hb : ib.asDependency with
    | none => simp [ha, hb] at hr
    | some o =>
      simp only [ha, hb] at hr
      by_cases ho : (p1, p2) ≠ o
      · simp [ho] at hr
      · rw [if_neg ho] at hr
        have ho : (p1, p2) = o := not_not.mp ho
        subst ho
        obtain ⟨s1, t1, hka, hne⟩ := asDependency_some ha
        obtain ⟨s2, t2, hkb, _⟩ := asDependency_some hb
        have ka := ga.kind
        simp only [KindTrue, hka] at ka
        have kb := gb.kind
        simp only [KindTrue, hkb] at kb
        obtain ⟨da, vs1, vt1, hta⟩ := ka
        obtain ⟨db, vs2, vt2, htb⟩ := kb
        obtain ⟨a1, a2⟩ := get_fromDependency_terms (M := M) p1 p2 s1 t1 hne
        obtain ⟨b1, b2⟩ := get_fromDependency_terms (M := M) p1 p2 s2 t2 hne
        rw [← hta] at a1 a2
        rw [← htb] at b1 b2
        simp only [Incompat.get, a1, a2, b1, b2, unwrapOr, unwrapPositive, bind, Except.bind, pure,
          Except.pure] at hr
        have main : t1 = t2 ∧ r = fromDependency p1 (union s1 s2) (p2, t1) := by
          by_cases e1 : t1 = (empty : S) <;> by_cases e2 : t2 = (empty : S)
          · simp [e1, e2] at hr
            exact ⟨by rw [e1, e2], by rw [← hr, e1]⟩
          · simp [e1, e2] at hr
          · simp [e1, e2] at hr
          · simp only [if_neg e1, if_neg e2] at hr
            by_cases e : t1 = t2
            · subst e
              simp [unwrapNegative] at hr
              exact ⟨rfl, hr.symm⟩
            · simp [e] at hr
        obtain ⟨rfl, rfl⟩ := main
        apply fromDependency_good_of
        · intro w hw
          rw [LawfulVersionSet.contains_union _ _ _ vs1 vs2, Bool.or_eq_true] at hw
          rcases hw with hw | hw
          · exact da w hw
          · exact db w hw
        · exact LawfulVersionSet.valid_union _ _ vs1 vs2
        · exact vt1

/-- `Good` does not depend on later entries of the store -/
theorem good_append (W : World P S V M) (root : P) (rv : V) (store extra : List (Incompat P S V M))
    (id : Nat) (i : Incompat P S V M) (g : i.Good W root rv store id) (hid : id ≤ store.length) :
    i.Good W root rv (store ++ extra) id := by
  refine ⟨g.valid, g.nodup, g.sets, ?_⟩
  have k := g.kind
  unfold KindTrue at k ⊢
  cases hk : i.kind with
  | derivedFrom a b =>
    rw [hk] at k
    simp only at k ⊢
    obtain ⟨h1, h2, ia, ib, pivot, r, ha, hb, hr, ht⟩ := k
    refine ⟨h1, h2, ia, ib, pivot, r, ?_, ?_, hr, ht⟩
    · rw [List.getElem?_append_left (by omega)]; exact ha
    · rw [List.getElem?_append_left (by omega)]; exact hb
  | _ => rw [hk] at k; exact k

/-- a valid terminal incompatibility excludes every solution -/
theorem isTerminal_no_solution (W : World P S V M) (root : P) (rv : V) (i : Incompat P S V M)
    (hv : i.ValidFor W root rv) (ht : i.isTerminal root rv = true) :
    ¬ ∃ σ, IsSolution W root rv σ := by
  rintro ⟨σ, hσ⟩
  apply hv σ hσ
  unfold isTerminal at ht
  intro p t hpt
  split at ht
  · rename_i h; rw [h] at hpt; cases hpt
  · rename_i q u h
    rw [h] at hpt
    simp only [List.mem_singleton, Prod.mk.injEq] at hpt
    obtain ⟨rfl, rfl⟩ := hpt
    simp only [Bool.and_eq_true, decide_eq_true_eq] at ht
    obtain ⟨rfl, hc⟩ := ht
    rw [hσ.root, ← Term.contains_eq_eval]
    exact hc
  · cases ht

end Incompat
end Pubgrub

/-
TARGET FILE: PubgrubProofs/PSInvariant.lean
The partial solution stays well-formed and no package with a positive requirement is ever lost
(properties C14, C12, C05, towards C01).  Definitions: PubgrubProofs/PSDefs.lean.
Helpers: PubgrubProofs/PSInvariantAux1 … PSInvariantAux10.
-/
import PubgrubProofs.PSDefs
import PubgrubProofs.StoreInvariant
import PubgrubProofs.PSInvariantAux10

set_option linter.unusedSectionVars false
set_option linter.unusedVariables false

namespace Pubgrub
open VersionSet

variable {P S V M Pr E : Type} [DecidableEq P] [VersionSet S V] [DecidableEq S] [DecidableEq V]
  [LE Pr] [DecidableLE Pr] [LawfulVersionSet S V]

/-- the run-level invariant of I-PS / I-Q holds in every reachable state -/
theorem reachable_rinv' (W : World P S V M) (hW : W.SetsValid) (debug : Bool) (fuel : Nat)
    (root : P) (rv : V) (x : SolverState P S V M Pr × Request P S V M Pr E)
    (h : Reachable W debug fuel root rv x) : RInv' x := by
  induction h with
  | start => exact rinv'_start debug fuel root rv
  | step hreach ha ih =>
    exact rinv'_step W hW root rv _ _ _ (reachable_rinv W hW debug fuel root rv _ hreach) ih ha

theorem reachable_coherent (W : World P S V M) (debug : Bool) (fuel : Nat)
    (root : P) (rv : V) (x : SolverState P S V M Pr × Request P S V M Pr E)
    (h : Reachable W debug fuel root rv x) : Solver.Coherent x := by
  induction h with
  | start => exact Solver.coherent_start debug fuel root rv
  | step _ _ _ => exact Solver.coherent_step _ _

theorem live_of_not_final {x : SolverState P S V M Pr × Request P S V M Pr E}
    (hc : Solver.Coherent x) (hph : x.2.isFinal = false) : x.1.phase ≠ .finished := by
  intro hf
  unfold Solver.Coherent at hc
  rw [hf] at hc
  simp only at hc
  rw [hc] at hph; cases hph

theorem picking_of_pick {s : SolverState P S V M Pr} {q : List (P × Pr)}
    (hc : Solver.Coherent (E := E) (s, .pick q)) : ∃ acc, s.phase = .picking acc := by
  unfold Solver.Coherent at hc
  split at hc
  · cases hc
  · cases hc
  · rename_i acc hph; exact ⟨acc, hph⟩
  · obtain ⟨_, hc, _⟩ := hc; cases hc
  · cases hc
  · simp [Request.isFinal] at hc

/-- I-PS holds in every reachable, unfinished state -/
theorem reachable_psWF (W : World P S V M) (hW : W.SetsValid) (debug : Bool) (fuel : Nat)
    (root : P) (rv : V) (x : SolverState P S V M Pr × Request P S V M Pr E)
    (h : Reachable W debug fuel root rv x) (hph : x.2.isFinal = false) : x.1.st.ps.WF :=
  ((reachable_rinv' W hW debug fuel root rv x h).live
    (live_of_not_final (reachable_coherent W debug fuel root rv x h) hph)).1.wf.wf

/-- I-Q holds in every reachable, unfinished state: no undecided package with a positive term is lost -/
theorem reachable_qInv (W : World P S V M) (hW : W.SetsValid) (debug : Bool) (fuel : Nat)
    (root : P) (rv : V) (x : SolverState P S V M Pr × Request P S V M Pr E)
    (h : Reachable W debug fuel root rv x) (hph : x.2.isFinal = false) :
    x.1.st.ps.QInv x.1.inflight :=
  ((reachable_rinv' W hW debug fuel root rv x h).live
    (live_of_not_final (reachable_coherent W debug fuel root rv x h) hph)).2

/-- when the queue is asked to pop (`pick`), every undecided package with a positive term is in the
queue shown to the pop -/
theorem pick_sees_all (W : World P S V M) (hW : W.SetsValid) (debug : Bool) (fuel : Nat)
    (root : P) (rv : V) (s : SolverState P S V M Pr) (q : List (P × Pr))
    (h : Reachable (E := E) W debug fuel root rv (s, .pick q))
    (p : P) (pa : PackageAssignments S V) (set : S)
    (hp : s.st.ps.getPA p = some pa) (hpos : pa.inter = .derivations (.pos set)) :
    (SmallMap.get q p).isSome = true := by
  have hi := reachable_rinv' W hW debug fuel root rv _ h
  obtain ⟨acc, hph⟩ := picking_of_pick (reachable_coherent W debug fuel root rv _ h)
  obtain ⟨hpinv, hq⟩ := hi.live (by simp only; rw [hph]; intro e; cases e)
  rw [SolverState.inflight_picking hph] at hq
  obtain ⟨⟨L, hL, hLk⟩, hreq⟩ := hi.picking acc hph
  simp only at hreq hq hL
  injection hreq with hreq; subst hreq
  obtain ⟨i, _, hi'⟩ := PartialSolution.getElem_of_getPA hp
  exact PartialSolution.afterPrioritize_allQ hq hL acc hLk i p pa set hi' hpos (by simp)

theorem isMaximal_spec {q : List (P × Pr)} {p : P} (h : Solver.isMaximal q p = true) :
    ∃ pr, SmallMap.get q p = some pr ∧ ∀ kv ∈ q, kv.2 ≤ pr := by
  unfold Solver.isMaximal at h
  split at h
  · cases h
  · rename_i pr hpr
    refine ⟨pr, hpr, ?_⟩
    intro kv hkv
    rw [List.all_eq_true] at h
    simpa using h kv hkv

/-- C14 (structural part): the package `choose_version` is asked about had maximal priority among all
undecided packages with a positive term at the time of the pop -/
theorem choose_is_maximal (W : World P S V M) (hW : W.SetsValid) (debug : Bool) (fuel : Nat)
    (root : P) (rv : V) (s : SolverState P S V M Pr) (q : List (P × Pr)) (p : P)
    (h : Reachable (E := E) W debug fuel root rv (s, .pick q))
    (set : S) (s' : SolverState P S V M Pr)
    (hstep : Solver.step (E := E) s (.picked (some p)) = (s', .chooseVersion p set)) :
    ∃ pr, SmallMap.get q p = some pr ∧
      ∀ p' pa' set', s.st.ps.getPA p' = some pa' → pa'.inter = .derivations (.pos set') →
        ∃ pr', SmallMap.get q p' = some pr' ∧ pr' ≤ pr := by
  have hi := reachable_rinv' W hW debug fuel root rv _ h
  obtain ⟨acc, hph⟩ := picking_of_pick (reachable_coherent W debug fuel root rv _ h)
  obtain ⟨_, hreq⟩ := hi.picking acc hph
  simp only at hreq
  injection hreq with hreq; subst hreq
  have hmax : Solver.isMaximal (s.st.ps.afterPrioritize acc).queue p = true := by
    cases hm : Solver.isMaximal (s.st.ps.afterPrioritize acc).queue p with
    | true => rfl
    | false =>
      have := congrArg Prod.snd hstep
      simp [Solver.step, hph, hm, Solver.finish] at this
  obtain ⟨pr, hpr, hall⟩ := isMaximal_spec hmax
  refine ⟨pr, hpr, ?_⟩
  intro p' pa' set' hpa' hpos'
  have := pick_sees_all W hW debug fuel root rv s _ h p' pa' set' hpa' hpos'
  cases hg : SmallMap.get (s.st.ps.afterPrioritize acc).queue p' with
  | none => rw [hg] at this; cases this
  | some pr' => exact ⟨pr', rfl, hall _ (SmallMap.mem_of_get hg)⟩

/-- a solution is only returned when no undecided package with a positive term is left, and it is
the list of the decisions -/
theorem solution_exit (W : World P S V M) (hW : W.SetsValid) (debug : Bool) (fuel : Nat)
    (root : P) (rv : V) (s : SolverState P S V M Pr) (sel : List (P × V))
    (h : Reachable (E := E) W debug fuel root rv (s, .solution sel)) :
    s.st.ps.WF ∧
    (∀ p pa set, s.st.ps.getPA p = some pa → pa.inter ≠ .derivations (.pos set)) ∧
    (∀ p v, (p, v) ∈ sel ↔ ∃ pa g t, s.st.ps.getPA p = some pa ∧ pa.inter = .decision g v t) := by
  have hi := reachable_rinv' W hW debug fuel root rv _ h
  obtain ⟨hw, hno, hsel⟩ := hi.sol sel rfl
  refine ⟨hw, hno, ?_⟩
  obtain ⟨sel', hsel', hiff⟩ := PartialSolution.extractSolution_ok hw
  simp only at hsel
  rw [hsel] at hsel'; injection hsel' with hsel'; subst hsel'
  exact hiff

/-- the requests that can follow a pop -/
theorem step_picked_cases {s : SolverState P S V M Pr} {acc : List (P × Pr)} (o : Option P)
    (hph : s.phase = .picking acc) (hw : (s.st.ps.afterPrioritize acc).WF) :
    (∃ m, (Solver.step (E := E) s (.picked o)).2 = .protocolError m) ∨
    (∃ sel, (Solver.step (E := E) s (.picked o)).2 = .solution sel) ∨
    (∃ p set, (Solver.step (E := E) s (.picked o)).2 = .chooseVersion p set) := by
  cases o with
  | none =>
    obtain ⟨sel, hsel, _⟩ := PartialSolution.extractSolution_ok hw
    by_cases he : (s.st.ps.afterPrioritize acc).queue.isEmpty = true
    · right; left
      exact ⟨sel, by simp [Solver.step, hph, he, hsel, Solver.finish]⟩
    · left
      exact ⟨_, by simp [Solver.step, hph, he, Solver.finish]; rfl⟩
  | some p =>
    cases hm : Solver.isMaximal (s.st.ps.afterPrioritize acc).queue p with
    | false =>
      left
      exact ⟨_, by simp [Solver.step, hph, hm, Solver.finish]; rfl⟩
    | true =>
      right; right
      obtain ⟨pr, hpr, _⟩ := isMaximal_spec hm
      obtain ⟨pa, set, hpa, hinter⟩ := hw.queue_sub p pr (SmallMap.mem_of_get hpr)
      have hpa' : SmallMap.get s.st.ps.assignments p = some pa := hpa
      refine ⟨p, set, ?_⟩
      have hm' : Solver.isMaximal
          (List.foldl (fun q kv => PartialSolution.queuePush q kv.fst kv.snd) s.st.ps.queue acc) p = true := hm
      simp [Solver.step, hph, hm', PartialSolution.termIntersectionForPackage, PartialSolution.getPA,
        PartialSolution.afterPrioritize, hpa', hinter, AssignInter.term, Incompat.unwrapPositive]

/-- C05, two panic sites and one Failure that can never happen: `extract_solution` never meets a
derivation in the decision part, `choose_version` is never asked with a negative term, and the
"a package was chosen but we don't have a term" Failure is unreachable -/
theorem no_fault_at_pick (W : World P S V M) (hW : W.SetsValid) (debug : Bool) (fuel : Nat)
    (root : P) (rv : V) (s : SolverState P S V M Pr) (q : List (P × Pr)) (o : Option P)
    (h : Reachable (E := E) W debug fuel root rv (s, .pick q)) :
    (Solver.step (E := E) s (.picked o)).2 ≠ .fault (.panic "Derivations in the Decision part") ∧
    (Solver.step (E := E) s (.picked o)).2 ≠ .fault (.panic "Negative term cannot unwrap positive set") ∧
    (Solver.step (E := E) s (.picked o)).2 ≠ .failure "a package was chosen but we don't have a term." := by
  have hi := reachable_rinv' W hW debug fuel root rv _ h
  obtain ⟨acc, hph⟩ := picking_of_pick (reachable_coherent W debug fuel root rv _ h)
  obtain ⟨hpinv, hq⟩ := hi.live (by simp only; rw [hph]; intro e; cases e)
  obtain ⟨⟨L, hL, hLk⟩, _⟩ := hi.picking acc hph
  have hw1 : (s.st.ps.afterPrioritize acc).WF' :=
    PartialSolution.afterPrioritize_wf' hpinv.wf acc
      (fun q hq' => PartialSolution.toPrioritize_sound hpinv.wf.wf hL q (hLk ▸ hq'))
  rcases step_picked_cases (E := E) o hph hw1.wf with ⟨m, hm⟩ | ⟨sel, hm⟩ | ⟨p, set, hm⟩ <;>
    rw [hm] <;> refine ⟨?_, ?_, ?_⟩ <;> intro e <;> cases e

end Pubgrub

/-
Property C13 — Provider errors and misbehaviour abort resolution faithfully.

"If any provider callback returns an error at any point of a run, resolve stops, makes no further
provider calls, and returns the matching error variant carrying that same error and, for
get_dependencies, the package and version being queried; up to that point the call trace equals that
of the fault-free run.  If choose_version returns a version outside the set it was offered, resolve
returns Failure rather than a solution."

Theorems about the coroutine model of `resolve` for ARBITRARY answer sequences (any provider, any
version-set implementation, lawful or not), any fuel.  `Solver.trace … as` is the callback trace:
`trace[k+1]` is what resolve does after the answer `as[k]` to the request `trace[k]`.
-/
import PubgrubProofs.Protocol

namespace Pubgrub.C13
open Pubgrub Pubgrub.Solver VersionSet

variable {P S V M Pr E : Type} [DecidableEq P] [VersionSet S V] [DecidableEq S] [DecidableEq V]
  [LE Pr] [DecidableLE Pr]

/-- an error answer at any point ends the run with the matching variant and payload -/
theorem C13_error_aborts (debug : Bool) (fuel : Nat) (root : P) (rv : V)
    (as : List (Answer P S V M Pr E)) (e : E) :
    let pending := (after (start debug fuel root rv) as).2
    let next := (after (start (E := E) debug fuel root rv) (as ++ [.error e])).2
    (pending = .shouldCancel → next = .errorInShouldCancel e) ∧
    (∀ p s, pending = .chooseVersion p s → next = .errorChoosingPackageVersion e) ∧
    (∀ p v, pending = .getDependencies p v → next = .errorRetrievingDependencies p v e) :=
  error_aborts debug fuel root rv as e

/-- once resolve has returned, nothing follows: no further provider call -/
theorem C13_no_further_calls (debug : Bool) (fuel : Nat) (root : P) (rv : V)
    (as : List (Answer P S V M Pr E)) (a : Answer P S V M Pr E)
    (h : (after (start (E := E) debug fuel root rv) as).2.isFinal = true) :
    (after (start (E := E) debug fuel root rv) (as ++ [a])).2.isFinal = true :=
  final_is_last debug fuel root rv as a h

/-- up to the fault the call trace equals that of the fault-free run: the first `k+1` requests depend
only on the first `k` answers -/
theorem C13_prefix (debug : Bool) (fuel : Nat) (root : P) (rv : V) (as bs : List (Answer P S V M Pr E)) :
    (trace debug fuel root rv (as ++ bs)).take (as.length + 1) = trace debug fuel root rv as :=
  trace_prefix debug fuel root rv as bs

/-- a version outside the offered set yields `Failure` -/
theorem C13_out_of_set (debug : Bool) (fuel : Nat) (root : P) (rv : V) (as : List (Answer P S V M Pr E))
    (p : P) (s : S) (v : V)
    (h : (after (start (E := E) debug fuel root rv) as).2 = .chooseVersion p s)
    (hv : contains s v = false) :
    (after (start (E := E) debug fuel root rv) (as ++ [.version (some v)])).2 =
      .failure "choose_package_version picked an incompatible version" :=
  out_of_set_fails debug fuel root rv as p s v h hv

/-! Non-vacuity: the very first callback can fail. -/
example (debug : Bool) (fuel : Nat) (root : P) (rv : V) (e : E) :
    (after (start (S := S) (M := M) (Pr := Pr) (E := E) debug fuel root rv) [.error e]).2 =
      .errorInShouldCancel e := rfl

end Pubgrub.C13

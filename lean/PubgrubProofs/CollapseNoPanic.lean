/-
TARGET FILE: PubgrubProofs/CollapseNoPanic.lean
Property C09, last open clause: `collapse_no_versions` never panics on a tree produced by `resolve`.
Already proved (PubgrubProofs/CollapseSound.lean, `collapse_no_panic_partial`): the only panic of
`collapseNoVersions` is a derived node one of whose causes is a `NoVersions` leaf and the other a
`NotRoot` leaf (`DerivationTree.NoVersionsBesideNotRoot`).  To show: no tree carried by a `NoSolution`
result has such a node.

Why it is true.  The tree is `buildDerivationTree terminal` of the store (TreeLink.lean:
`buildDerivationTree_spec`, `IsTreeOf`: a derived node's two subtrees are the trees of the two cause
ids of a `derivedFrom a b` clause; an external leaf's kind is the clause's kind), so it suffices that
no stored clause has kind `derivedFrom a b` with `store[a]` of kind `noVersions` and `store[b]` of kind
`notRoot` or the other way round.  The only `notRoot` clause is id 0, `{root: ¬{rv}}`; a `derivedFrom`
clause is `priorCause` of the current conflict clause and the satisfier's cause on a package that
occurs in both (StoreInvariant's `KindTrue`), so the `noVersions p s` partner would have `p = root`.
(J) every stored clause of kind `noVersions root s` has `contains s rv = true`: `s` is the positive
    term of `root` in the partial solution at the moment `choose_version(root, s)` answered `None`; the
    root's term is always a subset of `{rv}` (its first derivation, from clause 0, is `Positive {rv}`;
    later terms are intersections) and is inhabited (`reachable_nonEmpty`, NonEmpty.lean), so it
    contains `rv`.
(K) hence such a clause is `isTerminal root rv` (one term, package = root, term contains rv).
    In `conflictResolution` the terminal test comes BEFORE any `priorCause`; so the initial conflict
    clause is never a `noVersions root _` leaf that gets resolved; and after the first resolution
    step the current clause is `derivedFrom`, not a leaf.
(L) the other way round — current clause = clause 0 (`notRoot`), cause = a `noVersions` clause — cannot
    happen either: clause 0 `{root: ¬{rv}}` is never the conflict clause, because the root's term is
    inhabited and within `{rv}`, so it is not a subset of `¬{rv}` (clause 0 is never `satisfied`);
    and it is not the *cause* side with a `noVersions root s` current clause by (K).
So add to the run-level invariants: (J), and "for every `derivedFrom a b` clause in the store, not
(`store[a]` is `noVersions` and `store[b]` is `notRoot`) and not the converse".  The existing run-level
invariant proofs (StoreInvariant.lean `reachable_rinv`, PSInvariant.lean, SatisfierTheory.lean — its
lemmas about `conflictResolution` and the root, e.g. the invariant "the level-1 decision is the root" /
`RootInv`) are the template; NonEmpty.lean shows how to add one more run-level invariant on top.
Proved below; helpers in PubgrubProofs/CollapseNoPanicAux1 … CollapseNoPanicAux4.
-/
import PubgrubProofs.TreeLink
import PubgrubProofs.CollapseSound
import PubgrubProofs.SatisfierTheory
import PubgrubProofs.NonEmpty
import PubgrubProofs.CollapseNoPanicAux4

set_option linter.unusedSectionVars false

namespace Pubgrub
open VersionSet

variable {P S V M Pr E : Type} [DecidableEq P] [VersionSet S V] [DecidableEq S] [DecidableEq V]
  [LE Pr] [DecidableLE Pr] [LawfulVersionSet S V] [CanonicalEmpty S V]

/-- the run-level invariant of this file holds in every reachable state: (J) every stored
`noVersions root s` clause has `rv ∈ s`, (D) no stored `derivedFrom a b` clause has a `noVersions` cause
beside a `notRoot` cause, and the root's accumulated terms stay inside `{rv}` -/
theorem reachable_rinvK (W : World P S V M) (hW : W.SetsValid) (debug : Bool) (fuel : Nat)
    (root : P) (rv : V) (x : SolverState P S V M Pr × Request P S V M Pr E)
    (h : Reachable W debug fuel root rv x) : RInvK root rv x := by
  induction h with
  | start => exact rinvK_start debug fuel root rv
  | step hreach ha ih =>
    exact rinvK_step CanonicalEmpty.canonEmpty W hW root rv _ _ _
      (reachable_rinv W hW debug fuel root rv _ hreach)
      (reachable_rinv' W hW debug fuel root rv _ hreach)
      (reachable_rinvT W hW debug fuel root rv _ hreach)
      (reachable_rinvN W hW debug fuel root rv _ hreach) ih ha

/-- no tree carried by a `NoSolution` result has a `NoVersions` leaf next to a `NotRoot` leaf -/
theorem noSolution_tree_no_noVersionsBesideNotRoot (W : World P S V M) (hW : W.SetsValid) (debug : Bool)
    (fuel : Nat) (root : P) (rv : V) (s : SolverState P S V M Pr) (tree : DerivationTree P S V M)
    (h : Reachable (E := E) W debug fuel root rv (s, .noSolution tree)) :
    ¬ tree.NoVersionsBesideNotRoot := by
  obtain ⟨terminal, inc, hinc, hterm, htree, hinv, -, -⟩ :=
    noSolution_tree_origin W hW debug fuel root rv s tree h
  have hck := (reachable_rinvK (E := E) W hW debug fuel root rv _ h).noSol tree rfl
  obtain ⟨all, shared, _, ht⟩ := buildDerivationTree_spec s.st terminal tree htree
  exact ht.no_noVersionsBesideNotRoot hck

/-- C09: `collapse_no_versions` does not panic on a tree produced by `resolve` -/
theorem noSolution_collapse_no_panic (W : World P S V M) (hW : W.SetsValid) (debug : Bool)
    (fuel : Nat) (root : P) (rv : V) (s : SolverState P S V M Pr) (tree : DerivationTree P S V M)
    (h : Reachable (E := E) W debug fuel root rv (s, .noSolution tree)) :
    ∃ t', tree.collapseNoVersions = .ok t' :=
  collapse_no_panic_partial tree (noSolution_tree_no_noVersionsBesideNotRoot W hW debug fuel root rv s tree h)

end Pubgrub

/-
Helpers for `Freshness.lean`, part 1: the state-level freshness invariant `QFresh` (every queued
package's priority is the one last reported, and it was reported for the package's current set unless
the package is pending re-prioritisation) and its preservation by the operations of the partial
solution and by unit propagation.
-/
import PubgrubProofs.PSInvariant

set_option linter.unusedSectionVars false
set_option linter.unusedVariables false

namespace Pubgrub
open VersionSet

section PS
variable {P S V M Pr : Type} [DecidableEq P] [VersionSet S V] [DecidableEq S]
  [LawfulVersionSet S V]

/-- the entry at index `i` will be re-examined by the next `toPrioritize` (second disjunct of I-Q) -/
def PartialSolution.Pend (ps : PartialSolution P S V Pr) (i : Nat) (pa : PackageAssignments S V) : Prop :=
  ps.changed ≤ i ∧ (ps.changed = ps.currentDecisionLevel - 1 ∨ pa.highest = ps.currentDecisionLevel)

/-- freshness of the queue with respect to the map `lp` of the last reported `(set, priority)`:
every queued priority is the last reported one, and was reported for the current set of the package
unless the package is pending -/
def PartialSolution.QFresh (lp : P → Option (S × Pr)) (ps : PartialSolution P S V Pr) : Prop :=
  ∀ q pr, SmallMap.get ps.queue q = some pr → ∃ sq, lp q = some (sq, pr) ∧
    ∀ i pa set, ps.assignments[i]? = some (q, pa) → pa.inter = .derivations (.pos set) →
      ps.Pend i pa ∨ sq = set

namespace PartialSolution

/-- `addDerivation` preserves freshness: the package derived for becomes pending, pending is monotone -/
theorem addDerivation_qfresh {lp : P → Option (S × Pr)} {ps ps' : PartialSolution P S V Pr} {p : P}
    {cause : Nat} {store : List (Incompat P S V M)} (h : ps.WF') (hq : ps.QFresh lp)
    (hr : ps.addDerivation p cause store = .ok ps') : ps'.QFresh lp := by
  have hw := h.wf
  obtain ⟨inc, t, _, _, hcase⟩ := addDerivation_spec hr
  rcases hcase with ⟨idx, pa, t0, hidx, hpa, ht0, rfl⟩ | ⟨hpa, rfl⟩
  · have hget := getElem_of_indexOf_getPA hidx hpa
    have hlt := (List.getElem?_eq_some_iff.1 hget).1
    have hge : ps.currentDecisionLevel ≤ idx := undecided_ge hw hget ht0
    intro q pr hqq
    obtain ⟨sq, hlp, hall⟩ := hq q pr hqq
    refine ⟨sq, hlp, ?_⟩
    intro i qa s hi hs
    simp only [List.getElem?_set] at hi
    split at hi
    · rename_i hii; subst hii
      injection hi with hi; injection hi with hi1 hi2; subst hi1; subst hi2
      have hs' : t0.intersection t.negate = .pos s := by
        simp only at hs
        injection hs
      left
      refine ⟨?_, Or.inr rfl⟩
      simp only [hs', Term.isPositive, if_true]
      exact Nat.min_le_right _ _
    · rcases hall i qa s hi hs with ⟨h1, h2⟩ | h1
      · left
        unfold Pend
        simp only
        split
        · refine ⟨Nat.le_trans (Nat.min_le_left _ _) h1, ?_⟩
          rcases h2 with h2 | h2
          · left; rw [h2]; exact Nat.min_eq_left (by omega)
          · exact Or.inr h2
        · exact ⟨h1, h2⟩
      · exact Or.inr h1
  · intro q pr hqq
    obtain ⟨sq, hlp, hall⟩ := hq q pr hqq
    refine ⟨sq, hlp, ?_⟩
    intro i qa s hi hs
    simp only [List.getElem?_append] at hi
    split at hi
    · rcases hall i qa s hi hs with ⟨h1, h2⟩ | h1
      · left
        unfold Pend
        simp only
        split
        · refine ⟨Nat.le_trans (Nat.min_le_left _ _) h1, ?_⟩
          rcases h2 with h2 | h2
          · left; rw [h2]; have := hw.level_le; exact Nat.min_eq_left (by omega)
          · exact Or.inr h2
        · exact ⟨h1, h2⟩
      · exact Or.inr h1
    · rename_i hi'
      have hi'' : ps.assignments.length ≤ i := Nat.le_of_not_lt hi'
      cases hk : i - ps.assignments.length with
      | zero =>
        rw [hk] at hi
        simp only [List.getElem?_cons_zero] at hi
        injection hi with hi; injection hi with hi1 hi2; subst hi1; subst hi2
        have hs' : t.negate = .pos s := by
          simp only at hs
          injection hs
        left
        refine ⟨?_, Or.inr rfl⟩
        simp only [hs', Term.isPositive, if_true]
        exact Nat.le_trans (Nat.min_le_right _ _) (by omega)
      | succ k => rw [hk] at hi; simp at hi

/-- `backtrack` empties the queue -/
theorem backtrack_qfresh {lp : P → Option (S × Pr)} {ps ps' : PartialSolution P S V Pr} {dl' : Nat}
    (h : ps.WF') (hdl : dl' ≤ ps.currentDecisionLevel) (hr : ps.backtrack dl' = .ok ps') :
    ps'.QFresh lp := by
  obtain ⟨_, _, _, e3⟩ := backtrack_wf' h hdl hr
  intro q pr hq
  rw [e3] at hq
  simp [SmallMap.get] at hq

/-- the decision for a package that is not queued, taken when nothing is pending -/
theorem addDecision_qfresh {lp : P → Option (S × Pr)} {ps ps' : PartialSolution P S V Pr} {debug : Bool}
    {p : P} {v : V} (h : ps.WF) (hq : ps.QFresh lp) (hch : ps.changed = ps.assignments.length)
    (hqn : SmallMap.get ps.queue p = none) (hr : addDecision debug ps p v = .ok ps')
    {t : Term S} {pa : PackageAssignments S V} (hpa : ps.getPA p = some pa) (ht : pa.inter = .derivations t) :
    ps'.QFresh lp := by
  obtain ⟨oldIdx, hget, hge, e1, e2, e3, e4, e5, hk⟩ := addDecision_spec h hr hpa ht
  intro q pr hqq
  rw [e3] at hqq
  obtain ⟨sq, hlp, hall⟩ := hq q pr hqq
  refine ⟨sq, hlp, ?_⟩
  have hqp : q ≠ p := by
    intro e; subst e; rw [hqn] at hqq; cases hqq
  have hold : ∀ (i : Nat) (qa : PackageAssignments S V) (s : S), ps.assignments[i]? = some (q, qa) →
      qa.inter = .derivations (.pos s) → sq = s := by
    intro i qa s hi hs
    rcases hall i qa s hi hs with ⟨h1, _⟩ | h1
    · have := (List.getElem?_eq_some_iff.1 hi).1
      omega
    · exact h1
  intro k qa s hkq hs
  right
  rw [hk] at hkq
  split at hkq
  · injection hkq with hkq; injection hkq with h1 h2
    exact absurd h1.symm hqp
  · split at hkq
    · exact hold _ qa s hkq hs
    · exact hold _ qa s hkq hs

end PartialSolution

namespace State

theorem backtrack_qfresh {lp : P → Option (S × Pr)} {st st' : State P S V M Pr} {incompat : Nat}
    {changed : Bool} {dl : Nat}
    (h : PInv st) (hdl : dl ≤ st.ps.currentDecisionLevel)
    (hr : st.backtrack incompat changed dl = .ok st') : st'.ps.QFresh lp := by
  unfold State.backtrack at hr
  simp only [bind, Except.bind, pure, Except.pure] at hr
  split at hr
  · cases hr
  rename_i ps hps
  have hw := (PartialSolution.backtrack_wf' h.wf hdl hps).1
  have hq : ps.QFresh lp := PartialSolution.backtrack_qfresh h.wf hdl hps
  have h1 : PInv ({ st with ps := ps, contradicted := SmallMap.retainVals st.contradicted (fun l => l ≤ dl) } :
      State P S V M Pr) := by
    refine ⟨hw, ?_⟩
    intro kv hkv
    exact h.cache kv (List.mem_filter.1 hkv).1
  split at hr
  · obtain ⟨h2, e⟩ := mergeIncompatibility_pinv hr h1
    exact e ▸ hq
  · injection hr with hr; subst hr; exact hq

theorem conflictResolution_qfresh {lp : P → Option (S × Pr)} :
    ∀ (fuel : Nat) (st : State P S V M Pr) (cur : Nat) (changed : Bool)
      {st' : State P S V M Pr} {r : Except Nat (P × Nat)},
    conflictResolution fuel st cur changed = .ok (st', r) → PInv st → st.ps.QFresh lp →
    st'.ps.QFresh lp := by
  intro fuel
  induction fuel with
  | zero => intro st cur changed st' r hr; simp [conflictResolution] at hr
  | succ fuel ih =>
    intro st cur changed st' r hr h hq
    unfold conflictResolution at hr
    simp only [bind, Except.bind, pure, Except.pure] at hr
    split at hr
    · cases hr
    rename_i inc hinc
    split at hr
    · injection hr with hr; injection hr with h1 h2; subst h1; subst h2
      exact hq
    · split at hr
      · cases hr
      rename_i ps hss
      split at hr
      · rename_i prev hsearch
        split at hr
        · cases hr
        rename_i st1 hb
        injection hr with hr; injection hr with h1 h2; subst h1; subst h2
        have hlev : prev ≤ st.ps.currentDecisionLevel := by
          apply PartialSolution.satisfierSearch_level h.wf (inc := inc) (store := st.store) (pkg := ps.1)
          rw [hss]
          obtain ⟨a, b⟩ := ps
          simp only at hsearch
          rw [hsearch]
        exact backtrack_qfresh h hlev hb
      · split at hr
        · cases hr
        split at hr
        · cases hr
        refine ih _ _ _ hr ⟨h.wf, ?_⟩ hq
        intro kv hkv
        simp only [List.length_append, List.length_singleton]
        exact Nat.lt_succ_of_lt (h.cache kv hkv)

theorem propagateIncompats_qfresh {lp : P → Option (S × Pr)} :
    ∀ (ids : List Nat) (st : State P S V M Pr) {st' : State P S V M Pr} {r : Option Nat},
    propagateIncompats st ids = .ok (st', r) → PInv st → st.ps.QFresh lp → st'.ps.QFresh lp := by
  intro ids
  induction ids with
  | nil =>
    intro st st' r hr h hq
    simp only [propagateIncompats] at hr
    injection hr with hr; injection hr with h1 h2; subst h1; exact hq
  | cons id rest ih =>
    intro st st' r hr h hq
    unfold propagateIncompats at hr
    split at hr
    · exact ih _ hr h hq
    split at hr
    · cases hr
    rename_i inc hinc
    have hid := storeGet_lt hinc
    split at hr
    · injection hr with hr; injection hr with h1 h2; subst h1; exact hq
    · split at hr
      · cases hr
      rename_i ps hps
      refine ih _ hr ⟨PartialSolution.addDerivation_wf' h.wf hps, ?_⟩
        (PartialSolution.addDerivation_qfresh h.wf hq hps)
      intro kv hkv
      rcases SmallMap.mem_insert_sub hkv with rfl | hkv
      · exact hid
      · exact h.cache kv hkv
    · refine ih _ hr ⟨h.wf, ?_⟩ hq
      intro kv hkv
      rcases SmallMap.mem_insert_sub hkv with rfl | hkv
      · exact hid
      · exact h.cache kv hkv
    · exact ih _ hr h hq

theorem unitPropagationLoop_qfresh {lp : P → Option (S × Pr)} :
    ∀ (fuel : Nat) (st : State P S V M Pr) {st' : State P S V M Pr} {r : Option Nat},
    unitPropagationLoop fuel st = .ok (st', r) → PInv st → st.ps.QFresh lp → st'.ps.QFresh lp := by
  intro fuel
  induction fuel with
  | zero => intro st st' r hr; simp [unitPropagationLoop] at hr
  | succ fuel ih =>
    intro st st' r hr h hq
    unfold unitPropagationLoop at hr
    split at hr
    · injection hr with hr; injection hr with h1 h2; subst h1; subst h2
      exact hq
    simp only at hr
    split at hr
    · cases hr
    have h0 : PInv ({ st with buffer := st.buffer.dropLast } : State P S V M Pr) := ⟨h.wf, h.cache⟩
    split at hr
    · cases hr
    · rename_i st1 hp
      have h1 := (propagateIncompats_pinv (o := none) _ _ hp h0).1
      have hq1 := propagateIncompats_qfresh (lp := lp) _ _ hp h0 hq
      exact ih _ hr h1 hq1
    · rename_i st1 conflictId hp
      have h1 := (propagateIncompats_pinv (o := none) _ _ hp h0).1
      have hq1 := propagateIncompats_qfresh (lp := lp) _ _ hp h0 hq
      split at hr
      · cases hr
      · rename_i st2 terminal hc
        injection hr with hr; injection hr with e1 e2; subst e1; subst e2
        exact conflictResolution_qfresh _ _ _ _ hc h1 hq1
      · rename_i st2 packageAlmost rootCause hc
        obtain ⟨h2, _⟩ := conflictResolution_pinv _ _ _ _ hc h1
        have hq2 := conflictResolution_qfresh (lp := lp) _ _ _ _ hc h1 hq1
        split at hr
        · cases hr
        rename_i ps hps
        refine ih _ hr ⟨PartialSolution.addDerivation_wf' h2.wf hps, ?_⟩
          (PartialSolution.addDerivation_qfresh h2.wf hq2 hps)
        intro kv hkv
        rcases SmallMap.mem_insert_sub hkv with rfl | hkv
        · obtain ⟨inc, t, hi, _⟩ := PartialSolution.addDerivation_spec hps
          exact (List.getElem?_eq_some_iff.1 hi).1
        · exact h2.cache kv hkv

theorem unitPropagation_qfresh {lp : P → Option (S × Pr)} {fuel : Nat}
    {st st' : State P S V M Pr} {p : P} {r : Option Nat}
    (hr : unitPropagation fuel st p = .ok (st', r)) (h : PInv st) (hq : st.ps.QFresh lp) :
    st'.ps.QFresh lp := by
  unfold unitPropagation at hr
  exact unitPropagationLoop_qfresh _ _ hr ⟨h.wf, h.cache⟩ hq

end State
end PS
end Pubgrub

/-
Vocabulary for the reporter and collapse theorems (properties C08, C09): definitions only.
-/
import PubgrubProofs.TreeDefs

namespace Pubgrub
open VersionSet

section
variable {P S V M : Type} [DecidableEq P] [VersionSet S V] [DecidableEq S]

/-- a selection only uses versions of the universe `U` (for C09: the versions that exist) -/
def Within (U : P → V → Prop) (σ : P → Option V) : Prop := ∀ p v, σ p = some v → U p v

/-- `concl` follows from `premises` over the universe `U`: every selection within `U` that makes all
terms of `concl` true makes all terms of one premise true (the incompatibility `concl` is implied by
the incompatibilities `premises`) -/
def Entails (U : P → V → Prop) (premises : List (List (P × Term S))) (concl : List (P × Term S)) : Prop :=
  ∀ σ : P → Option V, Within U σ → TermsTrue σ concl → ∃ pr ∈ premises, TermsTrue σ pr

/-- a tree whose derived nodes follow from their causes over `U` -/
inductive DerivationTree.Sound (U : P → V → Prop) : DerivationTree P S V M → Prop
  | external (e : External P S V M) : Sound U (.external e)
  | derived (terms : List (P × Term S)) (sid : Option Nat) (c1 c2 : DerivationTree P S V M) :
      Sound U c1 → Sound U c2 → Entails U [c1.terms, c2.terms] terms →
      Sound U (.derived terms sid c1 c2)

/-- equal shared ids mark equal subtrees -/
def DerivationTree.SharedConsistent (t : DerivationTree P S V M) : Prop :=
  ∀ k t1 t2, (some k, t1) ∈ t.derivedNodes → (some k, t2) ∈ t.derivedNodes → t1 = t2

/-- all external leaves -/
def DerivationTree.externals : DerivationTree P S V M → List (External P S V M)
  | .external e => [e]
  | .derived _ _ c1 c2 => c1.externals ++ c2.externals

namespace Step

/-- the conclusion of a step (`none` for the separator line) -/
def conclusion : Step P S V M → Option (List (P × Term S))
  | .bothExternal _ _ t => some t
  | .bothRef _ _ _ _ t => some t
  | .refAndExternal _ _ _ t => some t
  | .andExternal _ t => some t
  | .andRef _ _ t => some t
  | .andPriorAndExternal _ _ t => some t
  | .blank => none

/-- the external facts named in the line -/
def namedExternals : Step P S V M → List (External P S V M)
  | .bothExternal e1 e2 _ => [e1, e2]
  | .refAndExternal _ _ e _ => [e]
  | .andExternal e _ => [e]
  | .andPriorAndExternal pe e _ => [pe, e]
  | _ => []

/-- the lines cited by number, with the clause the line is cited for -/
def citedRefs : Step P S V M → List (Nat × List (P × Term S))
  | .bothRef r1 t1 r2 t2 _ => [(r1, t1), (r2, t2)]
  | .refAndExternal r t _ _ => [(r, t)]
  | .andRef r t _ => [(r, t)]
  | _ => []

/-- an "And because" step also uses the conclusion of the preceding line -/
def isAnd : Step P S V M → Bool
  | .andExternal _ _ | .andRef _ _ _ | .andPriorAndExternal _ _ _ => true
  | _ => false

end Step

/-- the conclusion of the line carrying number `k` among `lines` -/
def conclusionOfRef (lines : List (Line P S V M)) (k : Nat) : Option (List (P × Term S)) :=
  (lines.find? fun l => l.refs.contains k).bind fun l => l.step.conclusion

/-- the premises a step at position `i` cites: named external facts, the previous line for an
"And because" step, the conclusions of the lines cited by number (looked up among the earlier lines) -/
def stepPremises (lines : List (Line P S V M)) (i : Nat) (st : Step P S V M) :
    List (List (P × Term S)) :=
  st.namedExternals.map External.terms ++
  (st.citedRefs.filterMap fun kt => conclusionOfRef (lines.take i) kt.1) ++
  (if st.isAnd then
    match (lines.take i).getLast? with
    | some l => l.step.conclusion.toList
    | none => []
   else [])

/-- all numbers appended to lines, in line order -/
def allRefs (lines : List (Line P S V M)) : List Nat := lines.flatMap fun l => l.refs

end

section Collapse
variable {P S V M : Type} [DecidableEq P] [VersionSet S V] [DecidableEq S]

/-- the fact stated by a leaf is true of the provider *when only the versions that exist are
considered* (property C09): a dependency leaf may state a set that differs from the declared one on
versions that do not exist, and speaks only about existing versions of the dependent -/
def External.TrueInExisting (W : World P S V M) (root : P) (rv : V) : External P S V M → Prop
  | .notRoot p v => p = root ∧ v = rv
  | .noVersions p s => ∀ v ∈ W.versions p, contains s v = false
  | .fromDependencyOf p s q t =>
      ∀ w ∈ W.versions p, contains s w = true → ∃ ds t0, W.deps p w = .available ds ∧ (q, t0) ∈ ds ∧
        ∀ x ∈ W.versions q, contains t0 x = contains t x
  | .custom p s m => ∀ w ∈ W.versions p, contains s w = true → W.deps p w = .unavailable m

/-- every leaf of the tree is true in that reading -/
def DerivationTree.LeavesTrueExisting (W : World P S V M) (root : P) (rv : V)
    (t : DerivationTree P S V M) : Prop :=
  ∀ e ∈ t.externals, e.TrueInExisting W root rv

/-- the universe of existing versions -/
def World.Exists (W : World P S V M) : P → V → Prop := fun p v => v ∈ W.versions p

/-- a `NoVersions` leaf, or an `unavailable` leaf -/
def DerivationTree.isNoVersions : DerivationTree P S V M → Bool
  | .external (.noVersions _ _) => true
  | _ => false
def DerivationTree.isNoVersionsOrCustom : DerivationTree P S V M → Bool
  | .external (.noVersions _ _) => true
  | .external (.custom _ _ _) => true
  | _ => false

/-- a `NoVersions` leaf occurs in the tree only as a cause next to a `NoVersions` or `Custom` leaf
(or is the whole tree) -/
def DerivationTree.NoVersionsOnlyBesideLeaf : DerivationTree P S V M → Prop
  | .external _ => True
  | .derived _ _ c1 c2 =>
      (c1.isNoVersions = true → c2.isNoVersionsOrCustom = true) ∧
      (c2.isNoVersions = true → c1.isNoVersionsOrCustom = true) ∧
      c1.NoVersionsOnlyBesideLeaf ∧ c2.NoVersionsOnlyBesideLeaf

end Collapse
end Pubgrub

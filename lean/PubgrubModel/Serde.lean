/-
Model of the serde wire format of `Range`, `SemanticVersion` and `OfflineDependencyProvider`
(`serde` feature).  `Json` is the self-describing data model as `serde_json` shows it.

* `Range<V>` is `#[serde(transparent)]` over `SmallVec<(Bound<V>, Bound<V>)>`: a sequence of 2-tuples
  (JSON arrays) of `std::ops::Bound`, which serde encodes externally tagged: `"Unbounded"`,
  `{"Included": v}`, `{"Excluded": v}`.
* `Deserialize for Range` reads a sequence of the untagged `EitherInterval`: first try
  `B(Bound, Bound)`, then `D(V, Option<V>)` (the legacy encoding `(start, Some(end))` / `(start, None)`).
* `SemanticVersion` is its `Display` string; the provider is `#[serde(transparent)]` over nested maps.
-/
import PubgrubModel.Range
import PubgrubModel.SemVer

namespace Pubgrub

inductive Json where
  | null
  | num (n : Nat)
  | str (s : String)
  | arr (items : List Json)
  | obj (fields : List (String × Json))
  deriving Repr

namespace Serde
open Bound

/-- `Serialize for Bound<V>` -/
def encBound {V : Type} (encV : V → Json) : Bound V → Json
  | unb => .str "Unbounded"
  | incl v => .obj [("Included", encV v)]
  | excl v => .obj [("Excluded", encV v)]

/-- `Serialize for Range<V>` -/
def encRange {V : Type} (encV : V → Json) (r : Range V) : Json :=
  .arr (r.map fun (s, e) => .arr [encBound encV s, encBound encV e])

/-- `Deserialize for Bound<V>` -/
def decBound {V : Type} (decV : Json → Option V) : Json → Option (Bound V)
  | .str "Unbounded" => some unb
  | .obj [("Included", j)] => (decV j).map incl
  | .obj [("Excluded", j)] => (decV j).map excl
  | _ => none

/-- one `EitherInterval`: variant `B` first, then `D` -/
def decInterval {V : Type} (decV : Json → Option V) : Json → Option (Seg V)
  | .arr [a, b] =>
    match decBound decV a, decBound decV b with
    | some s, some e => some (s, e)
    | _, _ =>
      match decV a, b with
      | some l, .null => some (incl l, unb)
      | some l, jr =>
        match decV jr with
        | some r => some (incl l, excl r)
        | none => none
      | none, _ => none
  | _ => none

/-- `Deserialize for Range<V>` (the segments are stored as given: the canonical form is not re-checked) -/
def decRange {V : Type} (decV : Json → Option V) : Json → Option (Range V)
  | .arr items => items.mapM (decInterval decV)
  | _ => none

def encNat (n : Nat) : Json := .num n
def decNat : Json → Option Nat
  | .num n => some n
  | _ => none

/-- `Serialize for SemanticVersion` -/
def encSemVer (v : SemVer) : Json := .str (String.ofList v.display)
/-- `Deserialize for SemanticVersion` -/
def decSemVer : Json → Option SemVer
  | .str s => match SemVer.parse s.toList with
    | .ok v => some v
    | .error _ => none
  | _ => none

end Serde

/-! ### compact JSON text, as `serde_json::to_string` prints it (for ASCII strings without escapes) -/
namespace Json

/-! the printer, on character lists, by structural recursion (total, so that the round trip through the
text can be proved: PubgrubProofs/SerdeLawsAux.lean) -/
mutual
def renderC : Json → List Char
  | .null => ['n', 'u', 'l', 'l']
  | .num n => Nat.toDigits 10 n
  | .str s => '"' :: (s.toList ++ ['"'])
  | .arr [] => ['[', ']']
  | .arr (j :: js) => '[' :: (renderC j ++ renderItems js)
  | .obj [] => ['{', '}']
  | .obj ((k, v) :: fs) => '{' :: '"' :: (k.toList ++ '"' :: ':' :: (renderC v ++ renderFields fs))
/-- the items after the first, and the closing bracket -/
def renderItems : List Json → List Char
  | [] => [']']
  | j :: js => ',' :: (renderC j ++ renderItems js)
/-- the fields after the first, and the closing brace -/
def renderFields : List (String × Json) → List Char
  | [] => ['}']
  | (k, v) :: fs => ',' :: '"' :: (k.toList ++ '"' :: ':' :: (renderC v ++ renderFields fs))
end

/-- the text the driver prints and compares with `serde_json::to_string` -/
def render (j : Json) : String := String.ofList (renderC j)

/-- a small parser for the same subset (no escapes, non-negative integers), with fuel -/
def skipWs : List Char → List Char
  | c :: cs => if c = ' ' ∨ c = '\n' ∨ c = '\t' then skipWs cs else c :: cs
  | [] => []

def takeString : List Char → List Char → Option (String × List Char)
  | [], _ => none
  | '"' :: rest, acc => some (String.ofList acc.reverse, rest)
  | c :: rest, acc => takeString rest (c :: acc)

def takeDigits : List Char → List Char → (List Char × List Char)
  | c :: cs, acc => if c.isDigit then takeDigits cs (c :: acc) else (acc.reverse, c :: cs)
  | [], acc => (acc.reverse, [])

mutual
def parseVal : (fuel : Nat) → List Char → Option (Json × List Char)
  | 0, _ => none
  | fuel + 1, cs =>
    match skipWs cs with
    | 'n' :: 'u' :: 'l' :: 'l' :: rest => some (.null, rest)
    | '"' :: rest => (takeString rest []).map fun (s, r) => (.str s, r)
    | '[' :: rest =>
      match skipWs rest with
      | ']' :: r => some (.arr [], r)
      | r => (parseItems fuel r []).map fun (items, r) => (.arr items, r)
    | '{' :: rest =>
      match skipWs rest with
      | '}' :: r => some (.obj [], r)
      | r => (parseFields fuel r []).map fun (fs, r) => (.obj fs, r)
    | c :: rest =>
      if c.isDigit then
        let (ds, r) := takeDigits (c :: rest) []
        (String.ofList ds).toNat?.map fun n => (.num n, r)
      else none
    | [] => none

def parseItems : (fuel : Nat) → List Char → List Json → Option (List Json × List Char)
  | 0, _, _ => none
  | fuel + 1, cs, acc =>
    match parseVal fuel cs with
    | none => none
    | some (v, r) =>
      match skipWs r with
      | ',' :: r => parseItems fuel r (acc ++ [v])
      | ']' :: r => some (acc ++ [v], r)
      | _ => none

def parseFields : (fuel : Nat) → List Char → List (String × Json) → Option (List (String × Json) × List Char)
  | 0, _, _ => none
  | fuel + 1, cs, acc =>
    match skipWs cs with
    | '"' :: r =>
      match takeString r [] with
      | none => none
      | some (k, r) =>
        match skipWs r with
        | ':' :: r =>
          match parseVal fuel r with
          | none => none
          | some (v, r) =>
            match skipWs r with
            | ',' :: r => parseFields fuel r (acc ++ [(k, v)])
            | '}' :: r => some (acc ++ [(k, v)], r)
            | _ => none
        | _ => none
    | _ => none
end

def parse (s : String) : Option Json :=
  match parseVal (s.length + 2) s.toList with
  | some (j, rest) => if (skipWs rest).isEmpty then some j else none
  | none => none

end Json
end Pubgrub

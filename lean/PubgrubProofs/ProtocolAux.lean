/-
Helpers for PubgrubProofs/Protocol.lean: list lemmas about `after` / `runFrom` / `trace`, and the
invariant relating the pending request to the phase of the coroutine.
-/
import PubgrubProofs.SolverDefs

set_option linter.unusedSectionVars false

namespace Pubgrub
open VersionSet

variable {P S V M Pr E : Type} [DecidableEq P] [VersionSet S V] [DecidableEq S] [DecidableEq V]
  [LE Pr] [DecidableLE Pr]

namespace Solver

abbrev SR (P S V M Pr E : Type) := SolverState P S V M Pr × Request P S V M Pr E

/-! ### `after`, `runFrom`, `trace` -/

theorem after_nil (x : SR P S V M Pr E) : after x [] = x := by
  cases x; rfl

theorem after_cons (x : SR P S V M Pr E) (a : Answer P S V M Pr E) (as : List (Answer P S V M Pr E)) :
    after x (a :: as) = after (step x.1 a) as := by
  cases x; rfl

theorem runFrom_nil (x : SR P S V M Pr E) : runFrom x [] = [] := by
  cases x; rfl

theorem runFrom_cons (x : SR P S V M Pr E) (a : Answer P S V M Pr E) (as : List (Answer P S V M Pr E)) :
    runFrom x (a :: as) = (step x.1 a).2 :: runFrom (step x.1 a) as := by
  cases x; rfl

theorem after_append (x : SR P S V M Pr E) (as bs : List (Answer P S V M Pr E)) :
    after x (as ++ bs) = after (after x as) bs := by
  induction as generalizing x with
  | nil => simp [after_nil]
  | cons a as ih => simp [after_cons, ih]

theorem after_snoc (x : SR P S V M Pr E) (as : List (Answer P S V M Pr E)) (a : Answer P S V M Pr E) :
    after x (as ++ [a]) = step (after x as).1 a := by
  rw [after_append, after_cons, after_nil]

theorem runFrom_append (x : SR P S V M Pr E) (as bs : List (Answer P S V M Pr E)) :
    runFrom x (as ++ bs) = runFrom x as ++ runFrom (after x as) bs := by
  induction as generalizing x with
  | nil => simp [after_nil, runFrom_nil]
  | cons a as ih => simp [after_cons, runFrom_cons, ih]

theorem runFrom_length (x : SR P S V M Pr E) (as : List (Answer P S V M Pr E)) :
    (runFrom x as).length = as.length := by
  induction as generalizing x with
  | nil => simp [runFrom_nil]
  | cons a as ih => simp [runFrom_cons, ih]

/-- the trace from an arbitrary point of the run -/
def traceFrom (x : SR P S V M Pr E) (as : List (Answer P S V M Pr E)) : List (Request P S V M Pr E) :=
  x.2 :: runFrom x as

theorem trace_eq (debug : Bool) (fuel : Nat) (root : P) (rv : V) (as : List (Answer P S V M Pr E)) :
    trace debug fuel root rv as = traceFrom (start debug fuel root rv) as := rfl

theorem traceFrom_length (x : SR P S V M Pr E) (as : List (Answer P S V M Pr E)) :
    (traceFrom x as).length = as.length + 1 := by
  simp [traceFrom, runFrom_length]

theorem traceFrom_cons (x : SR P S V M Pr E) (a : Answer P S V M Pr E) (as : List (Answer P S V M Pr E)) :
    traceFrom x (a :: as) = x.2 :: traceFrom (step x.1 a) as := by
  simp [traceFrom, runFrom_cons]

theorem traceFrom_getElem? (x : SR P S V M Pr E) (as : List (Answer P S V M Pr E)) (k : Nat)
    (hk : k ≤ as.length) : (traceFrom x as)[k]? = some (after x (as.take k)).2 := by
  induction as generalizing x k with
  | nil =>
    have : k = 0 := by simpa using hk
    subst this; simp [traceFrom, after_nil]
  | cons a as ih =>
    cases k with
    | zero => simp [traceFrom, after_nil]
    | succ k =>
      have hk' : k ≤ as.length := by simpa using hk
      rw [traceFrom_cons]
      simp [after_cons, ih _ _ hk']

theorem traceFrom_getElem?_eq_some (x : SR P S V M Pr E) (as : List (Answer P S V M Pr E)) (k : Nat)
    (r : Request P S V M Pr E) :
    (traceFrom x as)[k]? = some r ↔ k ≤ as.length ∧ (after x (as.take k)).2 = r := by
  constructor
  · intro h
    have hk : k < (traceFrom x as).length := by
      rcases Nat.lt_or_ge k (traceFrom x as).length with h' | h'
      · exact h'
      · rw [List.getElem?_eq_none h'] at h; cases h
    rw [traceFrom_length] at hk
    have hk' : k ≤ as.length := by omega
    rw [traceFrom_getElem? x as k hk'] at h
    exact ⟨hk', by simpa using h⟩
  · rintro ⟨hk, h⟩
    rw [traceFrom_getElem? x as k hk, h]

theorem take_succ_snoc {α : Type} (l : List α) (k : Nat) (hk : k < l.length) :
    l.take (k + 1) = l.take k ++ [l[k]] := by
  exact List.take_succ_eq_append_getElem hk

/-! ### the phase determines the pending request -/

/-- the pending request fits the phase -/
def Coherent (x : SR P S V M Pr E) : Prop :=
  match x.1.phase with
  | .cancel => x.2 = .shouldCancel
  | .prioritizing cur _ _ => x.2 = .prioritize cur.1 cur.2
  | .picking _ => ∃ q, x.2 = .pick q
  | .choosing p t => ∃ set, x.2 = .chooseVersion p set ∧ t = .pos set
  | .fetching p v => x.2 = .getDependencies p v
  | .finished => x.2.isFinal = true

theorem coherent_start (debug : Bool) (fuel : Nat) (root : P) (rv : V) :
    Coherent (start (M := M) (Pr := Pr) (E := E) (S := S) debug fuel root rv) := by
  simp [Coherent, start]

theorem unwrapPositive_ok {t : Term S} {set : S} (h : Incompat.unwrapPositive t = .ok set) :
    t = .pos set := by
  cases t <;> simp [Incompat.unwrapPositive] at h
  subst h; rfl

end Solver
end Pubgrub

namespace Pubgrub
open VersionSet
variable {P S V M Pr E : Type} [DecidableEq P] [VersionSet S V] [DecidableEq S] [DecidableEq V]
  [LE Pr] [DecidableLE Pr]
namespace Solver

theorem coherent_finish (s : SolverState P S V M Pr) (r : Request P S V M Pr E)
    (h : r.isFinal = true) : Coherent (finish s r) := by
  simpa [Coherent, finish] using h

theorem coherent_loopAgain (s : SolverState P S V M Pr) (st : State P S V M Pr) :
    Coherent (loopAgain (E := E) s st) := by
  simp [Coherent, loopAgain]

theorem coherent_step (s : SolverState P S V M Pr) (a : Answer P S V M Pr E) :
    Coherent (step s a) := by
  unfold step
  repeat' first
    | apply coherent_loopAgain
    | (apply coherent_finish; rfl)
    | split
    | dsimp only
  all_goals first | (simp [Coherent, Request.isFinal, *]; done) | (simp only [Coherent]; exact ⟨_, rfl, unwrapPositive_ok ‹_›⟩)

/-- split `step` into all its leaves -/
macro "step_cases" : tactic =>
  `(tactic| (unfold step; repeat' first | split | dsimp only))

theorem step_finished (s : SolverState P S V M Pr) (a : Answer P S V M Pr E)
    (h : s.phase = .finished) : step s a = (s, .protocolError "already finished") := by
  simp [step, h]

theorem step_cancel_error (s : SolverState P S V M Pr) (e : E)
    (h : s.phase = .cancel) : step s (.error e) = finish s (.errorInShouldCancel e) := by
  simp [step, h]

theorem step_choosing_error (s : SolverState P S V M Pr) (e : E) (p : P) (t : Term S)
    (h : s.phase = .choosing p t) : step s (.error e) = finish s (.errorChoosingPackageVersion e) := by
  simp [step, h]

theorem step_fetching_error (s : SolverState P S V M Pr) (e : E) (p : P) (v : V)
    (h : s.phase = .fetching p v) : step s (.error e) = finish s (.errorRetrievingDependencies p v e) := by
  simp [step, h]

theorem step_choosing_out (s : SolverState P S V M Pr) (p : P) (t : Term S) (v : V)
    (h : s.phase = .choosing p t) (hv : t.contains v = false) :
    step (E := E) s (.version (some v)) =
      finish s (.failure "choose_package_version picked an incompatible version") := by
  simp [step, h, hv]

/-- a `get_dependencies` request is only issued as the reply to a `choose_version` answer naming a
version not yet in `added`, which is then recorded -/
theorem step_getDeps (s : SolverState P S V M Pr) (a : Answer P S V M Pr E) (p : P) (v : V)
    (h : (step s a).2 = .getDependencies p v) :
    (∃ t, s.phase = .choosing p t) ∧ a = .version (some v) ∧ (p, v) ∉ s.added ∧
      (p, v) ∈ (step s a).1.added := by
  revert h
  step_cases
  all_goals first | (simp [finish, loopAgain]; done) | skip
  intro h; cases h; simp_all

theorem step_added_mono (s : SolverState P S V M Pr) (a : Answer P S V M Pr E) (x : P × V)
    (h : x ∈ s.added) : x ∈ (step s a).1.added := by
  revert h
  step_cases
  all_goals first | (simp [finish, loopAgain]; done) | skip
  intro h; simp [h]

theorem step_late_phase (s : SolverState P S V M Pr) (a : Answer P S V M Pr E)
    (h : (∃ p t, s.phase = .choosing p t) ∨ (∃ p v, s.phase = .fetching p v) ∨ s.phase = .finished) :
    (step s a).1.phase = .cancel ∨ (∃ p v, (step s a).1.phase = .fetching p v) ∨
      (step s a).1.phase = .finished := by
  revert h
  step_cases
  all_goals simp [finish, loopAgain, *]

/-! ### run-level consequences -/

theorem coherent_after (x : SR P S V M Pr E) (hx : Coherent x) (as : List (Answer P S V M Pr E)) :
    Coherent (after x as) := by
  induction as generalizing x with
  | nil => simpa [after_nil] using hx
  | cons a as ih => rw [after_cons]; exact ih _ (coherent_step _ _)

theorem coherent_run (debug : Bool) (fuel : Nat) (root : P) (rv : V) (as : List (Answer P S V M Pr E)) :
    Coherent (after (start debug fuel root rv) as) :=
  coherent_after _ (coherent_start debug fuel root rv) as

/-- `resolve` has returned -/
def Done (x : SR P S V M Pr E) : Prop := x.1.phase = .finished ∧ x.2.isFinal = true

theorem done_step (s : SolverState P S V M Pr) (a : Answer P S V M Pr E) (h : s.phase = .finished) :
    Done (step s a) := by
  rw [step_finished s a h]; exact ⟨h, rfl⟩

theorem done_after (x : SR P S V M Pr E) (hx : Done x) (as : List (Answer P S V M Pr E)) :
    Done (after x as) := by
  induction as generalizing x with
  | nil => simpa [after_nil] using hx
  | cons a as ih => rw [after_cons]; exact ih _ (done_step _ _ hx.1)

theorem done_finish (s : SolverState P S V M Pr) (r : Request P S V M Pr E) (h : r.isFinal = true) :
    Done (finish s r) := ⟨rfl, h⟩

theorem coherent_final {x : SR P S V M Pr E} (hx : Coherent x) (h : x.2.isFinal = true) :
    x.1.phase = .finished := by
  obtain ⟨s, r⟩ := x
  simp only [Coherent] at hx
  split at hx
  all_goals first | assumption | (simp_all [Request.isFinal]; done) | skip
  all_goals (obtain ⟨q, hq⟩ := hx; simp_all [Request.isFinal])

theorem added_mono_after (x : SR P S V M Pr E) (as : List (Answer P S V M Pr E)) (y : P × V)
    (h : y ∈ x.1.added) : y ∈ (after x as).1.added := by
  induction as generalizing x with
  | nil => simpa [after_nil] using h
  | cons a as ih => rw [after_cons]; exact ih _ (step_added_mono _ _ _ h)

/-- phases from which no `choose_version` request can be issued without passing through `cancel` -/
def Late (x : SR P S V M Pr E) : Prop :=
  (∃ p t, x.1.phase = .choosing p t) ∨ (∃ p v, x.1.phase = .fetching p v) ∨ x.1.phase = .finished

theorem late_run (x : SR P S V M Pr E) (hx : Late x) (l : List (Answer P S V M Pr E)) (hl : l ≠ [])
    (q : P) (t : S) (h : (after x l).2 = .chooseVersion q t) :
    ∃ m, 0 < m ∧ m < l.length ∧ (after x (l.take m)).2 = .shouldCancel := by
  induction l generalizing x with
  | nil => exact absurd rfl hl
  | cons a l ih =>
    rw [after_cons] at h
    have hco := coherent_step (E := E) x.1 a
    rcases step_late_phase x.1 a hx with hc | hf | hf
    · -- back at the top of the loop
      have hreq : (step x.1 a).2 = .shouldCancel := by
        simp only [Coherent, hc] at hco; exact hco
      cases l with
      | nil => rw [after_nil, hreq] at h; cases h
      | cons b l =>
        refine ⟨1, by omega, by simp, ?_⟩
        simp [after_cons, after_nil, hreq]
    · cases l with
      | nil =>
        obtain ⟨p, v, hf⟩ := hf
        rw [after_nil] at h
        simp only [Coherent, hf] at hco
        rw [h] at hco; cases hco
      | cons b l =>
        obtain ⟨m, hm0, hm, hreq⟩ := ih (step x.1 a) (Or.inr (Or.inl hf)) (by simp) h
        refine ⟨m + 1, by omega, by simpa using hm, ?_⟩
        simpa [after_cons] using hreq
    · cases l with
      | nil =>
        rw [after_nil] at h
        simp only [Coherent, hf] at hco
        rw [h] at hco; cases hco
      | cons b l =>
        obtain ⟨m, hm0, hm, hreq⟩ := ih (step x.1 a) (Or.inr (Or.inr hf)) (by simp) h
        refine ⟨m + 1, by omega, by simpa using hm, ?_⟩
        simpa [after_cons] using hreq

end Solver
end Pubgrub

/-
Property C15 — Range queries and Display agree with membership.

Theorems about the model `PubgrubModel/Range.lean` for every linear order `V`, canonical ranges
(`WF`) and ascending version sequences (`List.Pairwise (· ≤ ·)`; the Rust debug-asserts sortedness,
unsorted input is outside the property).

The Display clause is proved on the structure of the text (`displayAtoms`: per segment the atoms
`>=v`, `>v`, `<=v`, `<v`, bare `v`, `*`; atoms joined by ", " = and, segments by " | " = or, "∅" for no
segment): the model's string IS the rendering of that structure (`C15_display_is_render`, string
level), the structure denotes exactly the range's set (`C15_display_denotes`) and determines the range
(`C15_display_injective`), so distinct sets print differently.  `iter()` yields the segments (`C15_iter`).
-/
import PubgrubProofs.RangeQuery
import PubgrubProofs.RangeRel
import PubgrubProofs.RangeSet
import PubgrubProofs.DisplayLaws
import PubgrubProofs.DisplayString

namespace Pubgrub.C15
open Pubgrub Pubgrub.Range Bound

variable {V : Type} [LinearOrder V]

/-- `contains_many` over a sorted sequence equals mapping `contains` -/
theorem C15_containsMany (r : Range V) (hr : Range.WF r) (vs : List V) (hs : vs.Pairwise (· ≤ ·)) :
    Range.containsMany r vs = vs.map (Range.contains r) := containsMany_eq_map r hr vs hs

/-- `simplify(versions)` agrees with the original on every listed version, never has more segments,
returns the original for a singleton or when nothing matches, and is canonical -/
theorem C15_simplify (r : Range V) (hr : Range.WF r) (vs : List V) (hs : vs.Pairwise (· ≤ ·)) :
    (∀ v ∈ vs, Range.contains (Range.simplify r vs) v = Range.contains r v) ∧
    (Range.simplify r vs).length ≤ r.length ∧
    ((Range.asSingleton r).isSome = true → Range.simplify r vs = r) ∧
    ((∀ v ∈ vs, Range.contains r v = false) → Range.simplify r vs = r) ∧
    Range.WF (Range.simplify r vs) :=
  ⟨fun v hv => simplify_agrees r hr vs hs v hv, simplify_length_le_of_sorted r vs hs,
   simplify_singleton r vs, simplify_none_match r hr vs hs, wf_simplify r hr vs hs⟩

/-- `bounding_range` covers every contained version and is `None` only for the empty range -/
theorem C15_boundingRange (r : Range V) (hr : Range.WF r) :
    (Range.boundingRange r = none ↔ r = []) ∧
    (∀ s e, Range.boundingRange r = some (s, e) →
      ∀ v, Range.contains r v = true → Seg.Mem v (s, e)) :=
  ⟨boundingRange_eq_none_iff r, fun s e h v hv => boundingRange_covers r hr s e h v hv⟩

/-- `as_singleton` is `Some(v)` exactly for the canonical form of `{v}` -/
theorem C15_asSingleton (r : Range V) (v : V) :
    Range.asSingleton r = some v ↔ r = Range.singleton v := asSingleton_eq_some_iff r v

/-- … which, over a dense order without end points, is the only canonical range whose set is `{v}` -/
theorem C15_asSingleton_set [DenselyOrdered V] [NoMinOrder V] [NoMaxOrder V] [Nonempty V]
    (r : Range V) (hr : Range.WF r) (v : V) :
    Range.asSingleton r = some v ↔ ∀ w, Range.contains r w = true ↔ w = v := by
  rw [asSingleton_eq_some_iff]
  constructor
  · rintro rfl w; exact contains_singleton v w
  · intro h
    apply ext_of_dense r _ hr (wf_singleton v)
    intro w
    rw [← contains_iff_mem, ← contains_iff_mem, h w, contains_singleton]

/-- `from_range_bounds` contains exactly the versions its std bounds contain, is canonical, and
yields the empty range for an empty interval -/
theorem C15_fromRangeBounds (s e : Bound V) :
    (∀ v, Range.contains (Range.fromRangeBounds s e) v = true ↔ Seg.Mem v (s, e)) ∧
    Range.WF (Range.fromRangeBounds s e) :=
  ⟨contains_fromRangeBounds s e, wf_fromRangeBounds s e⟩

theorem C15_fromRangeBounds_empty [DenselyOrdered V] [NoMinOrder V] [NoMaxOrder V] [Nonempty V]
    (s e : Bound V) (h : ∀ v, ¬ Seg.Mem v (s, e)) : Range.fromRangeBounds s e = Range.empty :=
  fromRangeBounds_empty_partial s e h

/-- `is_empty` is true exactly for the set with no points (dense order without end points) -/
theorem C15_isEmpty [DenselyOrdered V] [NoMinOrder V] [NoMaxOrder V] [Nonempty V]
    (r : Range V) (hr : Range.WF r) :
    Range.isEmpty r = true ↔ ∀ v, Range.contains r v = false := by
  constructor
  · intro h v
    have : r = [] := by simpa [Range.isEmpty] using h
    subst this; rfl
  · intro h
    by_contra hne
    have hne' : r ≠ [] := by
      intro h0; apply hne; subst h0; rfl
    obtain ⟨v, hv⟩ := exists_mem_of_ne_nil r hr hne'
    have := (contains_iff_mem r v).2 hv
    rw [h v] at this
    exact Bool.false_ne_true this

/-- `iter()` yields the segments, whose union is the set -/
theorem C15_iter (r : Range V) (v : V) :
    Range.contains r v = true ↔ ∃ seg ∈ r, Seg.Mem v seg := contains_iff_mem r v

/-- the Display string is the rendering of the structured text -/
theorem C15_display_is_render (showV : V → String) (r : Range V) :
    Range.display showV r = renderAtoms showV (displayAtoms r) := display_eq_render showV r

/-- read with the usual meaning of the symbols, the text denotes exactly the range's set -/
theorem C15_display_denotes (r : Range V) (x : V) :
    Denotes (displayAtoms r) x ↔ Range.contains r x = true := display_denotes r x

/-- the text determines the range (any segment lists): distinct ranges, a fortiori distinct sets, print
differently -/
theorem C15_display_injective (a b : Range V) (h : displayAtoms a = displayAtoms b) : a = b :=
  displayAtoms_injective' a b h

theorem C15_distinct_sets_print_differently (a b : Range V)
    (hne : ∃ x, Range.contains a x ≠ Range.contains b x) : displayAtoms a ≠ displayAtoms b := by
  intro h
  obtain ⟨x, hx⟩ := hne
  exact hx (by rw [displayAtoms_injective' a b h])

/-! Non-vacuity -/
example : Range.WF (Range.union (Range.between (1 : Nat) 2) (Range.singleton 5)) :=
  wf_union _ _ (wf_between 1 2 (by decide)) (wf_singleton 5)

/-! ### the Display clause at the level of the string

`CleanPrinter showV`: the version printer is injective, never empty and never produces a character of the
range syntax (`' ' , | < > = * ∅`) — true of `u32` (`C15_cleanPrinter_nat`) and of `SemanticVersion` (digits
and dots).  Then the TEXT determines the range: distinct ranges, a fortiori distinct sets, print
differently. -/
section StringLevel
variable {T : Type} [DecidableEq T]

theorem C15_display_string_injective (showV : T → String) (hp : CleanPrinter showV) (a b : Range T)
    (h : Range.display showV a = Range.display showV b) : a = b :=
  display_injective_string showV hp a b h

theorem C15_distinct_sets_display_differently (showV : T → String) (hp : CleanPrinter showV) (a b : Range T)
    [LT T] [LE T] [DecidableLT T] [DecidableLE T]
    (hne : ∃ x, Range.contains a x ≠ Range.contains b x) :
    Range.display showV a ≠ Range.display showV b :=
  distinct_sets_display_differently showV hp a b hne

theorem C15_cleanPrinter_nat : CleanPrinter (fun n : Nat => toString n) := cleanPrinter_nat

end StringLevel

end Pubgrub.C15

/-
Helpers for `PubgrubProofs/RangeQuery.lean`: bound lemmas, an unfolded characterisation of `WF`,
the specification of the `locations` cursor, and the specification of `groupAdj`/`keepSegments`
through the semantic grouping function `grp`.
Everything lives in the namespace `Pubgrub.Range.Query` to avoid clashes with the helper lemmas of
the other proof files.
-/
import PubgrubProofs.Defs

namespace Pubgrub.Range.Query
open Pubgrub Bound
variable {V : Type} [LinearOrder V]

/-! ### `withinBounds` against `Seg.Mem` -/

theorem withinBounds_eq_iff (v : V) (sg : Seg V) : withinBounds v sg = .eq ↔ Seg.Mem v sg := by
  obtain ⟨s, e⟩ := sg
  cases s <;> cases e <;> simp [withinBounds, Seg.Mem, Bound.aboveStart, Bound.belowEnd] <;>
    (try split) <;> simp_all

theorem withinBounds_lt_iff (v : V) (sg : Seg V) :
    withinBounds v sg = .lt ↔ ¬ Bound.aboveStart v sg.1 := by
  obtain ⟨s, e⟩ := sg
  cases s <;> cases e <;> simp [withinBounds, Bound.aboveStart] <;>
    (try split) <;> simp_all

theorem withinBounds_gt_iff (v : V) (sg : Seg V) :
    withinBounds v sg = .gt ↔ Bound.aboveStart v sg.1 ∧ ¬ Bound.belowEnd v sg.2 := by
  obtain ⟨s, e⟩ := sg
  cases s <;> cases e <;> simp [withinBounds, Bound.aboveStart, Bound.belowEnd] <;>
    (try split) <;> simp_all

theorem contains_iff (r : Range V) (v : V) : contains r v = true ↔ ∃ sg ∈ r, Seg.Mem v sg := by
  simp [contains, List.any_eq_true, withinBounds_eq_iff]

theorem contains_eq_false_iff (r : Range V) (v : V) :
    contains r v = false ↔ ∀ sg ∈ r, ¬ Seg.Mem v sg := by
  rw [← Bool.not_eq_true, contains_iff]; simp

/-! ### monotonicity of the bound predicates -/

theorem aboveStart_mono {u v : V} {s : Bound V} (h : u ≤ v) (hu : Bound.aboveStart u s) :
    Bound.aboveStart v s := by
  cases s <;> simp_all [Bound.aboveStart] <;> order

theorem belowEnd_mono {u v : V} {e : Bound V} (h : u ≤ v) (hv : Bound.belowEnd v e) :
    Bound.belowEnd u e := by
  cases e <;> simp_all [Bound.belowEnd] <;> order

/-- a segment with a point is valid -/
theorem valid_of_mem {v : V} {s e : Bound V} (hs : Bound.aboveStart v s) (he : Bound.belowEnd v e) :
    validSegment s e = true := by
  cases s <;> cases e <;> simp_all [validSegment, Bound.aboveStart, Bound.belowEnd] <;> order

/-- a point beyond the end of a valid segment is beyond its start -/
theorem aboveStart_of_not_belowEnd {v : V} {s e : Bound V} (hv : validSegment s e = true)
    (he : ¬ Bound.belowEnd v e) : Bound.aboveStart v s := by
  cases s <;> cases e <;> simp_all [validSegment, Bound.aboveStart, Bound.belowEnd] <;> order

/-- a point strictly between an end and a start witnesses a gap -/
theorem gap_of_between {w : V} {e s : Bound V} (he : ¬ Bound.belowEnd w e)
    (hs : ¬ Bound.aboveStart w s) : endBeforeStartWithGap e s = true := by
  cases s <;> cases e <;> simp_all [endBeforeStartWithGap, Bound.aboveStart, Bound.belowEnd] <;> order

/-- a point at or beyond a start that lies after a gap is beyond the end before the gap -/
theorem not_belowEnd_of_gap {v : V} {e s : Bound V} (hg : endBeforeStartWithGap e s = true)
    (hs : Bound.aboveStart v s) : ¬ Bound.belowEnd v e := by
  cases s <;> cases e <;> simp_all [endBeforeStartWithGap, Bound.aboveStart, Bound.belowEnd] <;> order

/-- gaps compose across a valid segment -/
theorem gap_trans {e s' e' s'' : Bound V} (h1 : endBeforeStartWithGap e s' = true)
    (hv : validSegment s' e' = true) (h2 : endBeforeStartWithGap e' s'' = true) :
    endBeforeStartWithGap e s'' = true := by
  cases e <;> cases s' <;> cases e' <;> cases s'' <;>
    simp_all [endBeforeStartWithGap, validSegment] <;> order

/-! ### unfolded `WF` -/

theorem wf_nil : WF ([] : Range V) := by simp [WF, checkInvariants]

theorem wf_cons_iff (sg : Seg V) (t : Range V) :
    WF (sg :: t) ↔ validSegment sg.1 sg.2 = true ∧
      (∀ sg', t.head? = some sg' → endBeforeStartWithGap sg.2 sg'.1 = true) ∧ WF t := by
  obtain ⟨s, e⟩ := sg
  cases t with
  | nil => simp [WF, checkInvariants]
  | cons hd t =>
    obtain ⟨s', e'⟩ := hd
    simp [WF, checkInvariants, and_assoc]

theorem wf_tail {sg : Seg V} {t : Range V} (h : WF (sg :: t)) : WF t := ((wf_cons_iff sg t).1 h).2.2

theorem wf_valid_head {sg : Seg V} {t : Range V} (h : WF (sg :: t)) :
    validSegment sg.1 sg.2 = true := ((wf_cons_iff sg t).1 h).1

/-- in a canonical list every later segment starts after a gap behind the head's end -/
theorem wf_gap_all {sg : Seg V} {t : Range V} (h : WF (sg :: t)) :
    ∀ sg' ∈ t, endBeforeStartWithGap sg.2 sg'.1 = true := by
  induction t generalizing sg with
  | nil => simp
  | cons hd t ih =>
    obtain ⟨hv, hg, ht⟩ := (wf_cons_iff sg (hd :: t)).1 h
    have hg0 := hg hd rfl
    intro sg' hm
    rcases List.mem_cons.1 hm with rfl | hm
    · exact hg0
    · exact gap_trans hg0 (wf_valid_head ht) (ih ht sg' hm)

theorem wf_valid_all {r : Range V} (h : WF r) : ∀ sg ∈ r, validSegment sg.1 sg.2 = true := by
  induction r with
  | nil => simp
  | cons hd t ih =>
    intro sg hm
    rcases List.mem_cons.1 hm with rfl | hm
    · exact wf_valid_head h
    · exact ih (wf_tail h) sg hm

/-- the sortedness lemma: points of later segments lie strictly beyond the head's end -/
theorem wf_not_belowEnd_head {sg : Seg V} {t : Range V} (h : WF (sg :: t)) {sg' : Seg V}
    (hm : sg' ∈ t) {v : V} (hv : Bound.aboveStart v sg'.1) : ¬ Bound.belowEnd v sg.2 :=
  not_belowEnd_of_gap (wf_gap_all h sg' hm) hv

theorem wf_aboveStart_head {sg : Seg V} {t : Range V} (h : WF (sg :: t)) {sg' : Seg V}
    (hm : sg' ∈ t) {v : V} (hv : Bound.aboveStart v sg'.1) : Bound.aboveStart v sg.1 :=
  aboveStart_of_not_belowEnd (wf_valid_head h) (wf_not_belowEnd_head h hm hv)

/-! ### specification of the `locations` cursor -/

/-- what a location says about a version: `some j` = the version is in segment `j`,
`none` = the version is in no segment -/
def Loc (r : Range V) (v : V) : Option Nat → Prop
  | some j => ∃ sg, r[j]? = some sg ∧ Seg.Mem v sg
  | none => ∀ sg ∈ r, ¬ Seg.Mem v sg

theorem loc_isSome {r : Range V} {v : V} {o : Option Nat} (h : Loc r v o) :
    o.isSome = contains r v := by
  cases o with
  | none =>
    simp only [Loc] at h
    simp [(contains_eq_false_iff r v).2 h]
  | some j =>
    obtain ⟨sg, hj, hm⟩ := h
    simp [(contains_iff r v).2 ⟨sg, List.mem_of_getElem? hj, hm⟩]

/-- the cursor loop is correct: with `pre` the segments already passed (none of which contains a
remaining version), `rest` canonical and the versions ascending, every output is a correct location -/
theorem locations_spec (pre rest : List (Seg V)) (i : Nat) (vs : List V)
    (hi : i = pre.length) (hw : WF rest) (hs : vs.Pairwise (· ≤ ·))
    (hp : ∀ v ∈ vs, ∀ sg ∈ pre, ¬ Seg.Mem v sg) :
    List.Forall₂ (Loc (pre ++ rest)) vs (locations rest i vs) := by
  fun_induction locations rest i vs generalizing pre with
  | case1 => exact .nil
  | case2 i v vs ih =>
    refine .cons ?_ (ih pre hi hw hs.of_cons fun w hw' => hp w (List.mem_cons_of_mem _ hw'))
    simpa [Loc] using hp v List.mem_cons_self
  | case3 seg rest i v vs hlt ih =>
    refine .cons ?_ (ih pre hi hw hs.of_cons fun w hw' => hp w (List.mem_cons_of_mem _ hw'))
    have hna := (withinBounds_lt_iff v seg).1 hlt
    intro sg hm hmem
    rcases List.mem_append.1 hm with hm | hm
    · exact hp v List.mem_cons_self sg hm hmem
    · rcases List.mem_cons.1 hm with rfl | hm
      · exact hna hmem.1
      · exact hna (wf_aboveStart_head hw hm hmem.1)
  | case4 seg rest i v vs heq ih =>
    refine .cons ?_ (ih pre hi hw hs.of_cons fun w hw' => hp w (List.mem_cons_of_mem _ hw'))
    exact ⟨seg, by simp [hi], (withinBounds_eq_iff v seg).1 heq⟩
  | case5 seg rest i v vs hgt ih =>
    have hg := (withinBounds_gt_iff v seg).1 hgt
    have := ih (pre ++ [seg]) (by simp [hi]) (wf_tail hw) hs (by
      intro w hw' sg hm hmem
      rcases List.mem_append.1 hm with hm | hm
      · exact hp w hw' sg hm hmem
      · have : sg = seg := by simpa using hm
        subst this
        rcases List.mem_cons.1 hw' with rfl | hw''
        · exact hg.2 hmem.2
        · exact hg.2 (belowEnd_mono (List.rel_of_pairwise_cons hs hw'') hmem.2))
    simpa using this

theorem locations_spec0 (r : Range V) (hr : WF r) (vs : List V) (hs : vs.Pairwise (· ≤ ·)) :
    List.Forall₂ (Loc r) vs (locations r 0 vs) := by
  simpa using locations_spec [] r 0 vs rfl hr hs (by simp)

theorem map_eq_of_forall₂ {α β γ : Type} {R : α → β → Prop} {f : β → γ} {g : α → γ}
    {l₁ : List α} {l₂ : List β} (h : List.Forall₂ R l₁ l₂) (hfg : ∀ a b, R a b → f b = g a) :
    l₂.map f = l₁.map g := by
  induction h with
  | nil => rfl
  | cons hab _ ih => simp [hfg _ _ hab, ih]

/-! ### `groupAdj` / `keepSegments` through a semantic grouping function -/

/-- segment lookup with the default of `keepSegments` -/
def lk (r : Range V) (i : Nat) : Seg V :=
  match r[i]? with
  | some sg => sg
  | none => (unb, unb)

/-- `groupAdj` followed by `keepSegments`, on the located segments instead of their indices -/
def grp : Option (Seg V) → List (Option (Seg V)) → List (Seg V)
  | st, [] => match st with
    | some (s, _) => [(s, unb)]
    | none => []
  | st, some sg :: t => grp (some ((match st with | some (s, _) => s | none => sg.1), sg.2)) t
  | some p, none :: t => p :: grp none t
  | none, none :: t => grp none t

/-- `groupAdjacentLocations` followed by `keepSegments` -/
def grpTop : List (Option (Seg V)) → List (Seg V)
  | [] => []
  | h :: t => grp (h.map fun sg => (unb, sg.2)) t

def stSeg (r : Range V) (p : Option Nat × Option Nat) : Seg V :=
  ((match p.1 with | none => unb | some s => (lk r s).1),
   (match p.2 with | none => unb | some e => (lk r e).2))

omit [LinearOrder V] in
theorem keepSegments_eq_map (r : Range V) (kept : List (Option Nat × Option Nat)) :
    keepSegments r kept = kept.map (stSeg r) := by
  unfold keepSegments
  apply List.map_congr_left
  rintro ⟨s, e⟩ -
  cases s <;> cases e <;> simp only [stSeg, lk] <;> (repeat' split) <;> simp_all

omit [LinearOrder V] in
theorem keepSegments_groupAdj (r : Range V) (st : Option (Option Nat × Option Nat))
    (L : List (Option Nat)) :
    keepSegments r (groupAdj st L) = grp (st.map (stSeg r)) (L.map (Option.map (lk r))) := by
  rw [keepSegments_eq_map]
  induction L generalizing st with
  | nil =>
    cases st with
    | none => simp [groupAdj, grp]
    | some p => obtain ⟨s, e⟩ := p; simp [groupAdj, grp, stSeg]
  | cons h t ih =>
    cases h with
    | none =>
      cases st with
      | none => simpa [groupAdj, grp] using ih none
      | some p => simpa [groupAdj, grp] using ih none
    | some j =>
      cases st with
      | none => simp only [groupAdj, List.map_cons, Option.map_some, Option.map_none, grp]; exact ih _
      | some p =>
        obtain ⟨s, e⟩ := p
        simp only [groupAdj, List.map_cons, Option.map_some, grp]; exact ih _

omit [LinearOrder V] in
theorem keepSegments_groupAdjacentLocations (r : Range V) (L : List (Option Nat)) :
    keepSegments r (groupAdjacentLocations L) = grpTop (L.map (Option.map (lk r))) := by
  cases L with
  | nil => simp [groupAdjacentLocations, grpTop, keepSegments]
  | cons h t =>
    simp only [groupAdjacentLocations, keepSegments_groupAdj, List.map_cons, grpTop]
    cases h <;> simp [stSeg]

/-! ### properties of `grp` on correctly located ascending versions -/

/-- located-segment version of `Loc` -/
def LocS (r : Range V) (v : V) : Option (Seg V) → Prop
  | some sg => sg ∈ r ∧ Seg.Mem v sg
  | none => ∀ sg ∈ r, ¬ Seg.Mem v sg

theorem locS_of_loc {r : Range V} {v : V} {o : Option Nat} (h : Loc r v o) :
    LocS r v (o.map (lk r)) := by
  cases o with
  | none => exact h
  | some j =>
    obtain ⟨sg, hj, hm⟩ := h
    simp only [Option.map_some, LocS, lk, hj]
    exact ⟨List.mem_of_getElem? hj, hm⟩

theorem forall₂_locS {r : Range V} {vs : List V} {L : List (Option Nat)}
    (h : List.Forall₂ (Loc r) vs L) : List.Forall₂ (LocS r) vs (L.map (Option.map (lk r))) := by
  induction h with
  | nil => exact .nil
  | cons hab _ ih => exact .cons (locS_of_loc hab) ih

/-- invariant of a pending output segment `(S, E)` with respect to the remaining versions -/
def Pend (r : Range V) (vs : List V) (p : Seg V) : Prop :=
  validSegment p.1 p.2 = true ∧ (∀ v ∈ vs, Bound.aboveStart v p.1) ∧
    (∀ w ∈ vs, (∀ sg ∈ r, ¬ Seg.Mem w sg) → ¬ Bound.belowEnd w p.2)

theorem pend_new {r : Range V} {v : V} {vs : List V} {sg : Seg V} {S : Bound V}
    (hsg : sg ∈ r) (hm : Seg.Mem v sg) (hS : Bound.aboveStart v S) (hle : ∀ w ∈ vs, v ≤ w) :
    Pend r vs (S, sg.2) :=
  ⟨valid_of_mem hS hm.2, fun w hw => aboveStart_mono (hle w hw) hS,
    fun w hw hn hb => hn sg hsg ⟨aboveStart_mono (hle w hw) hm.1, hb⟩⟩

theorem pend_step {r : Range V} {v : V} {vs : List V} {sg : Seg V} (st : Option (Seg V))
    (hsg : sg ∈ r) (hm : Seg.Mem v sg) (hle : ∀ w ∈ vs, v ≤ w)
    (hst : ∀ p, st = some p → Pend r (v :: vs) p) :
    Pend r vs ((match (generalizing := false) st with | some (s, _) => s | none => sg.1), sg.2) := by
  cases st with
  | none => exact pend_new hsg hm hm.1 hle
  | some p => exact pend_new hsg hm ((hst p rfl).2.1 v List.mem_cons_self) hle

omit [LinearOrder V] in
/-- the pending segment always opens the output -/
theorem grp_some_head (S E : Bound V) (os : List (Option (Seg V))) :
    ∃ E' tl, grp (some (S, E)) os = (S, E') :: tl := by
  induction os generalizing E with
  | nil => exact ⟨_, _, rfl⟩
  | cons h t ih =>
    cases h with
    | none => exact ⟨_, _, rfl⟩
    | some sg => simpa [grp] using ih sg.2

/-- a point of the pending segment below all remaining versions stays covered -/
theorem grp_pending_covered {r : Range V} {vs : List V} {os : List (Option (Seg V))}
    (h : List.Forall₂ (LocS r) vs os) (S E : Bound V) (x : V) (hS : Bound.aboveStart x S)
    (hE : Bound.belowEnd x E) (hle : ∀ v ∈ vs, x ≤ v) :
    ∃ seg ∈ grp (some (S, E)) os, Seg.Mem x seg := by
  induction h generalizing E with
  | nil => exact ⟨(S, unb), by simp [grp], hS, trivial⟩
  | @cons v o vs os hvo _ ih =>
    cases o with
    | none => exact ⟨(S, E), by simp [grp], hS, hE⟩
    | some sg =>
      simp only [grp]
      exact ih sg.2 (belowEnd_mono (hle v List.mem_cons_self) hvo.2.2)
        fun w hw => hle w (List.mem_cons_of_mem _ hw)

/-- positive agreement: every listed version of the range is in an output segment -/
theorem grp_pos {r : Range V} {vs : List V} {os : List (Option (Seg V))}
    (h : List.Forall₂ (LocS r) vs os) (hs : vs.Pairwise (· ≤ ·)) (st : Option (Seg V))
    (hst : ∀ p, st = some p → Pend r vs p) (x : V) (hx : x ∈ vs) (hr : ∃ sg ∈ r, Seg.Mem x sg) :
    ∃ seg ∈ grp st os, Seg.Mem x seg := by
  induction h generalizing st with
  | nil => simp at hx
  | @cons v o vs os hvo hrest ih =>
    have hle : ∀ w ∈ vs, v ≤ w := fun w hw => List.rel_of_pairwise_cons hs hw
    cases o with
    | none =>
      have hxv : x ∈ vs := by
        rcases List.mem_cons.1 hx with rfl | hx
        · obtain ⟨sg, hsg, hm⟩ := hr; exact absurd hm (hvo sg hsg)
        · exact hx
      obtain ⟨seg, hseg, hm⟩ := ih hs.of_cons none (by simp) hxv
      cases st with
      | none => exact ⟨seg, by simpa [grp] using hseg, hm⟩
      | some p => exact ⟨seg, by simp [grp, hseg], hm⟩
    | some sg =>
      have hp := pend_step st hvo.1 hvo.2 hle hst
      simp only [grp]
      rcases List.mem_cons.1 hx with rfl | hx
      · cases st with
        | none => exact grp_pending_covered hrest _ _ x hvo.2.1 hvo.2.2 hle
        | some p =>
          exact grp_pending_covered hrest _ _ x ((hst p rfl).2.1 x List.mem_cons_self) hvo.2.2 hle
      · exact ih hs.of_cons _ (by rintro p ⟨⟩; exact hp) hx

/-- negative agreement, past versions: a version outside the range, below all remaining versions
and below the pending start is in no output segment -/
theorem grp_neg_past {r : Range V} {vs : List V} {os : List (Option (Seg V))}
    (h : List.Forall₂ (LocS r) vs os) (st : Option (Seg V)) (w : V)
    (hn : ∀ sg ∈ r, ¬ Seg.Mem w sg) (hle : ∀ v ∈ vs, w ≤ v)
    (hst : ∀ p, st = some p → ¬ Bound.aboveStart w p.1) :
    ∀ seg ∈ grp st os, ¬ Seg.Mem w seg := by
  induction h generalizing st with
  | nil =>
    cases st with
    | none => simp [grp]
    | some p => simpa [grp] using fun hm : Seg.Mem w (p.1, unb) => hst p rfl hm.1
  | @cons v o vs os hvo _ ih =>
    have hle' : ∀ v ∈ vs, w ≤ v := fun u hu => hle u (List.mem_cons_of_mem _ hu)
    cases o with
    | none =>
      cases st with
      | none => simpa [grp] using ih none hle' (by simp)
      | some p =>
        intro seg hseg
        rcases List.mem_cons.1 (by simpa [grp] using hseg) with rfl | hseg
        · exact fun hm => hst _ rfl hm.1
        · exact ih none hle' (by simp) seg hseg
    | some sg =>
      simp only [grp]
      apply ih _ hle'
      rintro p ⟨⟩
      cases st with
      | none =>
        exact fun ha => hn sg hvo.1 ⟨ha, belowEnd_mono (hle v List.mem_cons_self) hvo.2.2⟩
      | some p => exact hst p rfl

/-- negative agreement, remaining versions -/
theorem grp_neg {r : Range V} {vs : List V} {os : List (Option (Seg V))}
    (h : List.Forall₂ (LocS r) vs os) (hs : vs.Pairwise (· ≤ ·)) (st : Option (Seg V))
    (hst : ∀ p, st = some p → Pend r vs p) (w : V) (hw : w ∈ vs)
    (hn : ∀ sg ∈ r, ¬ Seg.Mem w sg) : ∀ seg ∈ grp st os, ¬ Seg.Mem w seg := by
  induction h generalizing st with
  | nil => simp at hw
  | @cons v o vs os hvo hrest ih =>
    have hle : ∀ u ∈ vs, v ≤ u := fun u hu => List.rel_of_pairwise_cons hs hu
    cases o with
    | none =>
      have hrest' : ∀ seg ∈ grp none os, ¬ Seg.Mem w seg := by
        rcases List.mem_cons.1 hw with rfl | hw
        · exact grp_neg_past hrest none w hn hle (by simp)
        · exact ih hs.of_cons none (by simp) hw
      cases st with
      | none => simpa [grp] using hrest'
      | some p =>
        intro seg hseg
        rcases List.mem_cons.1 (by simpa [grp] using hseg) with rfl | hseg
        · exact fun hm => (hst _ rfl).2.2 w hw hn hm.2
        · exact hrest' seg hseg
    | some sg =>
      simp only [grp]
      rcases List.mem_cons.1 hw with rfl | hw
      · exact absurd hvo.2 (hn sg hvo.1)
      · exact ih hs.of_cons _ (by rintro p ⟨⟩; exact pend_step st hvo.1 hvo.2 hle hst) hw

/-- a version outside the range and below all remaining versions is below the first output start -/
theorem grp_none_head {r : Range V} {vs : List V} {os : List (Option (Seg V))}
    (h : List.Forall₂ (LocS r) vs os) (w : V) (hn : ∀ sg ∈ r, ¬ Seg.Mem w sg)
    (hle : ∀ v ∈ vs, w ≤ v) (seg : Seg V) (hh : (grp none os).head? = some seg) :
    ¬ Bound.aboveStart w seg.1 := by
  induction h with
  | nil => simp [grp] at hh
  | @cons v o vs os hvo _ ih =>
    cases o with
    | none => exact ih (fun u hu => hle u (List.mem_cons_of_mem _ hu)) (by simpa [grp] using hh)
    | some sg =>
      obtain ⟨E', tl, he⟩ := grp_some_head sg.1 sg.2 os
      simp only [grp, he, List.head?_cons, Option.some.injEq] at hh
      subst hh
      exact fun ha => hn sg hvo.1 ⟨ha, belowEnd_mono (hle v List.mem_cons_self) hvo.2.2⟩

theorem validSegment_unb_right (S : Bound V) : validSegment S unb = true := by
  cases S <;> simp [validSegment]

/-- the output of the grouping is canonical -/
theorem wf_grp {r : Range V} {vs : List V} {os : List (Option (Seg V))}
    (h : List.Forall₂ (LocS r) vs os) (hs : vs.Pairwise (· ≤ ·)) (st : Option (Seg V))
    (hst : ∀ p, st = some p → Pend r vs p) : WF (grp st os) := by
  induction h generalizing st with
  | nil =>
    cases st with
    | none => exact wf_nil
    | some p => simp [grp, wf_cons_iff, validSegment_unb_right, wf_nil]
  | @cons v o vs os hvo hrest ih =>
    have hle : ∀ u ∈ vs, v ≤ u := fun u hu => List.rel_of_pairwise_cons hs hu
    cases o with
    | none =>
      have hw := ih hs.of_cons none (by simp)
      cases st with
      | none => simpa [grp] using hw
      | some p =>
        simp only [grp]
        refine (wf_cons_iff _ _).2 ⟨(hst p rfl).1, fun seg hh => ?_, hw⟩
        exact gap_of_between ((hst p rfl).2.2 v List.mem_cons_self hvo)
          (grp_none_head hrest v hvo hle seg hh)
    | some sg =>
      simp only [grp]
      exact ih hs.of_cons _ (by rintro p ⟨⟩; exact pend_step st hvo.1 hvo.2 hle hst)

/-- `simplify`'s output agrees with the range on every listed version -/
theorem grpTop_agrees {r : Range V} {vs : List V} {os : List (Option (Seg V))}
    (h : List.Forall₂ (LocS r) vs os) (hs : vs.Pairwise (· ≤ ·)) (x : V) (hx : x ∈ vs) :
    (∃ seg ∈ grpTop os, Seg.Mem x seg) ↔ ∃ sg ∈ r, Seg.Mem x sg := by
  cases h with
  | nil => simp at hx
  | @cons v o vs os hvo hrest =>
    have hle : ∀ u ∈ vs, v ≤ u := fun u hu => List.rel_of_pairwise_cons hs hu
    have hst : ∀ p, (o.map fun sg => ((unb : Bound V), sg.2)) = some p → Pend r vs p := by
      cases o with
      | none => simp
      | some sg => rintro p ⟨⟩; exact pend_new hvo.1 hvo.2 trivial hle
    simp only [grpTop]
    constructor
    · rintro ⟨seg, hseg, hm⟩
      by_contra hn
      have hn' : ∀ sg ∈ r, ¬ Seg.Mem x sg := fun sg hsg hm => hn ⟨sg, hsg, hm⟩
      rcases List.mem_cons.1 hx with rfl | hx
      · cases o with
        | none => exact grp_neg_past hrest none x hn' hle (by simp) seg hseg hm
        | some sg => exact hn' sg hvo.1 hvo.2
      · exact grp_neg hrest hs.of_cons _ hst x hx hn' seg hseg hm
    · intro hr
      rcases List.mem_cons.1 hx with rfl | hx
      · cases o with
        | none => obtain ⟨sg, hsg, hm⟩ := hr; exact absurd hm (hvo sg hsg)
        | some sg => exact grp_pending_covered hrest _ _ x trivial hvo.2.2 hle
      · exact grp_pos hrest hs.of_cons _ hst x hx hr

theorem wf_grpTop {r : Range V} {vs : List V} {os : List (Option (Seg V))}
    (h : List.Forall₂ (LocS r) vs os) (hs : vs.Pairwise (· ≤ ·)) : WF (grpTop os) := by
  cases h with
  | nil => exact wf_nil
  | @cons v o vs os hvo hrest =>
    have hle : ∀ u ∈ vs, v ≤ u := fun u hu => List.rel_of_pairwise_cons hs hu
    refine wf_grp hrest hs.of_cons _ ?_
    cases o with
    | none => simp
    | some sg => rintro p ⟨⟩; exact pend_new hvo.1 hvo.2 trivial hle

/-! ### the number of groups -/

theorem groupAdj_locations_length (rest : List (Seg V)) (i : Nat) (vs : List V)
    (hs : vs.Pairwise (· ≤ ·)) :
    (groupAdj none (locations rest i vs)).length ≤ rest.length ∧
    (∀ p, (groupAdj (some p) (locations rest i vs)).length ≤ rest.length + 1) ∧
    (∀ p seg rest', rest = seg :: rest' → (∀ v ∈ vs, Bound.aboveStart v seg.1) →
      (groupAdj (some p) (locations rest i vs)).length ≤ rest.length) := by
  fun_induction locations rest i vs with
  | case1 rest i =>
    refine ⟨by simp [groupAdj], fun p => by simp [groupAdj], fun p seg rest' h _ => ?_⟩
    subst h; simp [groupAdj]
  | case2 i v vs ih =>
    have ih1 := (ih hs.of_cons).1
    refine ⟨by simpa [groupAdj] using ih1, fun p => by simpa [groupAdj] using ih1, ?_⟩
    intro p seg rest' h; cases h
  | case3 seg rest i v vs hlt ih =>
    have ih1 := (ih hs.of_cons).1
    refine ⟨by simpa [groupAdj] using ih1, fun p => by simpa [groupAdj] using ih1, ?_⟩
    intro p seg' rest' h ha
    cases h
    exact absurd (ha v List.mem_cons_self) ((withinBounds_lt_iff v seg).1 hlt)
  | case4 seg rest i v vs heq ih =>
    obtain ⟨-, ih2, ih3⟩ := ih hs.of_cons
    have hv := ((withinBounds_eq_iff v seg).1 heq).1
    refine ⟨?_, fun p => by simpa [groupAdj] using ih2 _, ?_⟩
    · simp only [groupAdj]
      exact ih3 _ seg rest rfl fun w hw => aboveStart_mono (List.rel_of_pairwise_cons hs hw) hv
    · intro p seg' rest' h ha
      simp only [groupAdj]
      exact ih3 _ seg' rest' h fun w hw => ha w (List.mem_cons_of_mem _ hw)
  | case5 seg rest i v vs hgt ih =>
    obtain ⟨ih1, ih2, -⟩ := ih hs
    refine ⟨by simp only [List.length_cons]; omega,
      fun p => by have := ih2 p; simp only [List.length_cons]; omega, ?_⟩
    intro p seg' rest' _ _
    simpa using ih2 p

theorem groupAdjacentLocations_locations_length (rest : List (Seg V)) (i : Nat) (vs : List V)
    (hs : vs.Pairwise (· ≤ ·)) :
    (groupAdjacentLocations (locations rest i vs)).length ≤ rest.length := by
  fun_induction locations rest i vs with
  | case1 rest i => simp [groupAdjacentLocations]
  | case2 i v vs ih =>
    simpa [groupAdjacentLocations] using (groupAdj_locations_length [] i vs hs.of_cons).1
  | case3 seg rest i v vs hlt ih =>
    have := (groupAdj_locations_length (seg :: rest) i vs hs.of_cons).1
    simpa [groupAdjacentLocations] using this
  | case4 seg rest i v vs heq ih =>
    have hv := ((withinBounds_eq_iff v seg).1 heq).1
    simp only [groupAdjacentLocations, Option.map_some]
    exact (groupAdj_locations_length _ i vs hs.of_cons).2.2 _ seg rest rfl
      fun w hw => aboveStart_mono (List.rel_of_pairwise_cons hs hw) hv
  | case5 seg rest i v vs hgt ih =>
    have := ih hs
    simp only [List.length_cons]; omega

/-! ### nothing matches -/

theorem groupAdj_all_none (L : List (Option Nat)) (h : ∀ o ∈ L, o = none) :
    groupAdj none L = [] := by
  induction L with
  | nil => rfl
  | cons o t ih =>
    obtain rfl := h o List.mem_cons_self
    simpa [groupAdj] using ih fun o ho => h o (List.mem_cons_of_mem _ ho)

theorem groupAdjacentLocations_all_none (L : List (Option Nat)) (h : ∀ o ∈ L, o = none) :
    groupAdjacentLocations L = [] := by
  cases L with
  | nil => rfl
  | cons o t =>
    obtain rfl := h o List.mem_cons_self
    simpa [groupAdjacentLocations] using
      groupAdj_all_none t fun o ho => h o (List.mem_cons_of_mem _ ho)

theorem all_none_of_forall₂ {r : Range V} {vs : List V} {L : List (Option Nat)}
    (h : List.Forall₂ (Loc r) vs L) (hn : ∀ v ∈ vs, contains r v = false) : ∀ o ∈ L, o = none := by
  induction h with
  | nil => simp
  | @cons v o vs L hvo _ ih =>
    intro o' ho'
    rcases List.mem_cons.1 ho' with rfl | ho'
    · have := loc_isSome hvo
      rw [hn v List.mem_cons_self] at this
      simpa using this
    · exact ih (fun w hw => hn w (List.mem_cons_of_mem _ hw)) o' ho'

end Pubgrub.Range.Query

/-
Helpers for `ReportSound.lean` (3): the specification of the four mutually recursive functions of the
reporter, proved by induction on the fuel.
-/
import PubgrubProofs.ReportSoundAux2

namespace Pubgrub
open VersionSet

set_option linter.unusedSectionVars false

section
variable {P S V M : Type} [DecidableEq P] [VersionSet S V] [DecidableEq S]
variable (G : DerivationTree P S V M → Prop) (U : P → V → Prop) (HS : Prop)

/-- postcondition of `buildRecursive` on the node `derived terms sid c1 c2` -/
structure PostBR (r r' : Reporter P S V M) (terms : List (P × Term S)) (sid : Option Nat)
    (c1 c2 : DerivationTree P S V M) : Prop where
  inv : RepInv G U HS r'
  le : Le r r'
  last : ∃ l, r'.lines.getLast? = some l ∧ l.step.conclusion = some terms ∧ (sid = none → l.refs = [])
  key : ∀ id, sid = some id → SmallMap.containsKey r'.sharedWithRef id = true
  named : ∀ e ∈ (DerivationTree.derived terms sid c1 c2).externals, e ∈ namedAll r'.lines

/-- postcondition of `buildRecursiveHelper` -/
structure PostH (r r' : Reporter P S V M) (terms : List (P × Term S)) (sid : Option Nat)
    (c1 c2 : DerivationTree P S V M) : Prop where
  inv : RepInv G U HS r'
  le : Le r r'
  last : ∃ l, r'.lines.getLast? = some l ∧ l.step.conclusion = some terms ∧
    (l.refs = [] ∨ ∃ id, sid = some id ∧ SmallMap.containsKey r'.sharedWithRef id = true)
  named : ∀ e ∈ (DerivationTree.derived terms sid c1 c2).externals, e ∈ namedAll r'.lines

/-- postcondition of `reportOneEach` and `reportRecurseOneEach` -/
structure PostOE (r r' : Reporter P S V M) (d : DerivationTree P S V M) (e : External P S V M)
    (cur : List (P × Term S)) : Prop where
  inv : RepInv G U HS r'
  le : Le r r'
  last : ∃ l, r'.lines.getLast? = some l ∧ l.step.conclusion = some cur ∧ l.refs = []
  named : ∀ e' ∈ d.externals ++ [e], e' ∈ namedAll r'.lines

def SpecBR (fuel : Nat) : Prop :=
  ∀ (r : Reporter P S V M) terms sid c1 c2 r', G (.derived terms sid c1 c2) → RepInv G U HS r →
    Reporter.buildRecursive fuel r terms sid c1 c2 = .ok r' → PostBR G U HS r r' terms sid c1 c2

def SpecH (fuel : Nat) : Prop :=
  ∀ (r : Reporter P S V M) terms sid c1 c2 r', G (.derived terms sid c1 c2) → RepInv G U HS r →
    Reporter.buildRecursiveHelper fuel r terms sid c1 c2 = .ok r' → PostH G U HS r r' terms sid c1 c2

def SpecOE (fuel : Nat) : Prop :=
  ∀ (r : Reporter P S V M) dterms dsid dc1 dc2 e cur r', G (.derived dterms dsid dc1 dc2) →
    (HS → Entails U [dterms, e.terms] cur) → RepInv G U HS r →
    Reporter.reportOneEach fuel r dterms dsid dc1 dc2 e cur = .ok r' →
    PostOE G U HS r r' (.derived dterms dsid dc1 dc2) e cur

def SpecROE (fuel : Nat) : Prop :=
  ∀ (r : Reporter P S V M) dterms dsid dc1 dc2 e cur r', G (.derived dterms dsid dc1 dc2) →
    (HS → Entails U [dterms, e.terms] cur) → RepInv G U HS r →
    Reporter.reportRecurseOneEach fuel r dterms dsid dc1 dc2 e cur = .ok r' →
    PostOE G U HS r r' (.derived dterms dsid dc1 dc2) e cur

variable {G U HS}
variable (hGc1 : ∀ terms sid c1 c2, G (.derived terms sid c1 c2) → G c1)
variable (hGc2 : ∀ terms sid c1 c2, G (.derived terms sid c1 c2) → G c2)
variable (hGcons : ∀ id t1 a1 b1 t2 a2 b2, G (.derived t1 (some id) a1 b1) → G (.derived t2 (some id) a2 b2) →
  DerivationTree.derived t1 (some id) a1 b1 = DerivationTree.derived t2 (some id) a2 b2)
variable (hE : ∀ terms sid c1 c2, G (.derived terms sid c1 c2) → HS → Entails U [c1.terms, c2.terms] terms)

theorem lineRefOf_some {r : Reporter P S V M} {sid : Option Nat} {ref : Nat}
    (h : r.lineRefOf sid = some ref) : ∃ id, sid = some id ∧ SmallMap.get r.sharedWithRef id = some ref := by
  cases sid with
  | none => simp [Reporter.lineRefOf] at h
  | some id => exact ⟨id, rfl, by simpa [Reporter.lineRefOf] using h⟩

theorem stepOK_blank (pre : List (Line P S V M)) : StepOK U HS pre (.blank : Step P S V M) := by
  refine ⟨fun _ c hc => ?_, fun k tt hk => ?_⟩
  · simp [Step.conclusion] at hc
  · simp [Step.citedRefs] at hk

include hGcons in
theorem stepBR (fuel : Nat) (ih : SpecH G U HS fuel) : SpecBR G U HS (fuel + 1) := by
  intro r terms sid c1 c2 r' hG hr h
  rw [Reporter.buildRecursive] at h
  cases hb : Reporter.buildRecursiveHelper fuel r terms sid c1 c2 with
  | error e => rw [hb] at h; simp at h
  | ok r1 =>
    rw [hb] at h
    dsimp only at h
    have ph := ih r terms sid c1 c2 r1 hG hr hb
    obtain ⟨l, hl, hlc, hlr⟩ := ph.last
    cases sid with
    | none =>
      dsimp only at h
      obtain rfl := Except.ok.inj h
      refine ⟨ph.inv, ph.le, ⟨l, hl, hlc, fun _ => ?_⟩, fun id hid => (by cases hid), ph.named⟩
      rcases hlr with hlr | ⟨id, hid, _⟩
      · exact hlr
      · cases hid
    | some id =>
      dsimp only at h
      by_cases hk : SmallMap.containsKey r1.sharedWithRef id = true
      · rw [if_pos hk] at h
        obtain rfl := Except.ok.inj h
        refine ⟨ph.inv, ph.le, ⟨l, hl, hlc, fun hn => (by cases hn)⟩, fun id' hid => ?_, ph.named⟩
        cases hid; exact hk
      · rw [if_neg hk] at h
        obtain rfl := Except.ok.inj h
        have hrefs : l.refs = [] := by
          rcases hlr with hlr | ⟨id', hid, hk'⟩
          · exact hlr
          · cases hid; exact absurd hk' hk
        have hinv1 := ph.inv.addLineRef hl hrefs
        have hle1 := Le.addLineRef ph.inv hl
        have hnone : SmallMap.get r1.addLineRef.sharedWithRef id = none :=
          SmallMap.get_of_containsKey_false _ _ hk
        refine ⟨?_, ?_, ?_, ?_, ?_⟩
        · refine hinv1.insert id _ ?_
          intro tt a b hG'
          have := hGcons id tt a b terms c1 c2 hG' hG
          injection this with h1 h2 h3 h4
          subst h1 h3 h4
          exact ⟨RefOK.addLineRef ph.inv hl hlc, fun e he => hle1.named e (ph.named e he)⟩
        · exact (ph.le.trans hle1).trans (Le.insert _ id _ hnone)
        · exact ⟨_, Reporter.addLineRef_getLast hl, hlc, fun hn => by cases hn⟩
        · intro id' hid
          cases hid
          simp [SmallMap.containsKey, SmallMap.get_insert_self]
        · intro e he
          exact hle1.named e (ph.named e he)

omit hGcons in
theorem PostOE.of_push {r r1 : Reporter P S V M} (hinv : RepInv G U HS r1) (hle : Le r r1)
    {st : Step P S V M} (hst : StepOK U HS r1.lines st) {d : DerivationTree P S V M}
    {e : External P S V M} {cur : List (P × Term S)} (hc : st.conclusion = some cur)
    (hnamed : ∀ e' ∈ d.externals ++ [e], e' ∈ namedAll r1.lines ∨ e' ∈ st.namedExternals) :
    PostOE G U HS r (r1.push st) d e cur := by
  refine ⟨hinv.push hst, hle.trans (Le.push r1 st), ⟨_, Reporter.push_getLast r1 st, hc, rfl⟩, ?_⟩
  intro e' he'
  rcases hnamed e' he' with h | h
  · exact (Le.push r1 st).named e' h
  · exact named_push_self r1 st e' h

omit hGcons in
theorem PostH.of_push {r r1 : Reporter P S V M} (hinv : RepInv G U HS r1) (hle : Le r r1)
    {st : Step P S V M} (hst : StepOK U HS r1.lines st) {terms : List (P × Term S)} {sid : Option Nat}
    {c1 c2 : DerivationTree P S V M} (hc : st.conclusion = some terms)
    (hnamed : ∀ e' ∈ c1.externals ++ c2.externals, e' ∈ namedAll r1.lines ∨ e' ∈ st.namedExternals) :
    PostH G U HS r (r1.push st) terms sid c1 c2 := by
  refine ⟨hinv.push hst, hle.trans (Le.push r1 st), ⟨_, Reporter.push_getLast r1 st, hc, Or.inl rfl⟩, ?_⟩
  intro e' he'
  rcases hnamed e' he' with h | h
  · exact (Le.push r1 st).named e' h
  · exact named_push_self r1 st e' h

omit hGcons in
include hGc1 hGc2 hE in
theorem stepROE (fuel : Nat) (ih : SpecBR G U HS fuel) : SpecROE G U HS (fuel + 1) := by
  intro r dterms dsid dc1 dc2 e cur r' hG hEnt hr h
  have hEd := hE dterms dsid dc1 dc2 hG
  cases dc1 with
  | external e1 =>
    cases dc2 with
    | external e2 =>
      simp only [Reporter.reportRecurseOneEach] at h
      cases hb : Reporter.buildRecursive fuel r dterms dsid (.external e1) (.external e2) with
      | error err => rw [hb] at h; simp at h
      | ok r1 =>
        rw [hb] at h
        obtain rfl := Except.ok.inj h
        have pb := ih r _ _ _ _ r1 hG hr hb
        obtain ⟨l, hl, hlc, -⟩ := pb.last
        refine PostOE.of_push pb.inv pb.le ⟨fun hs c hc => ?_, fun k tt hk => ?_⟩ rfl ?_
        · simp only [Step.conclusion, Option.some.injEq] at hc
          subst hc
          refine (hEnt hs).mono ?_
          simp [premOf, Step.namedExternals, Step.citedRefs, Step.isAnd, hl, hlc]
        · simp [Step.citedRefs] at hk
        · intro e' he'
          rw [List.mem_append] at he'
          rcases he' with he' | he'
          · exact Or.inl (pb.named e' he')
          · exact Or.inr (by simpa [Step.namedExternals] using he')
    | derived pt psid pa pb' =>
      rw [Reporter.reportRecurseOneEach] at h
      cases hb : Reporter.buildRecursive fuel r pt psid pa pb' with
      | error err => rw [hb] at h; simp at h
      | ok r1 =>
        rw [hb] at h
        obtain rfl := Except.ok.inj h
        have pb := ih r _ _ _ _ r1 (hGc2 _ _ _ _ hG) hr hb
        obtain ⟨l, hl, hlc, -⟩ := pb.last
        refine PostOE.of_push pb.inv pb.le ⟨fun hs c hc => ?_, fun k tt hk => ?_⟩ rfl ?_
        · simp only [Step.conclusion, Option.some.injEq] at hc
          subst hc
          refine (hEnt hs).cut ((hEd hs).mono ?_) ?_
          · simp [premOf, Step.namedExternals, Step.citedRefs, Step.isAnd, hl, hlc, DerivationTree.terms]
          · simp [premOf, Step.namedExternals]
        · simp [Step.citedRefs] at hk
        · intro e' he'
          have hx : (DerivationTree.derived dterms dsid (.external e1) (.derived pt psid pa pb')).externals =
              [e1] ++ (DerivationTree.derived pt psid pa pb').externals := rfl
          rw [hx] at he'
          simp only [List.mem_append, List.mem_cons, List.not_mem_nil, or_false] at he'
          rcases he' with (he' | he') | he'
          · exact Or.inr (by simp [Step.namedExternals, he'])
          · exact Or.inl (pb.named e' he')
          · exact Or.inr (by simp [Step.namedExternals, he'])
  | derived pt psid pa pb' =>
    cases dc2 with
    | external e2 =>
      rw [Reporter.reportRecurseOneEach] at h
      cases hb : Reporter.buildRecursive fuel r pt psid pa pb' with
      | error err => rw [hb] at h; simp at h
      | ok r1 =>
        rw [hb] at h
        obtain rfl := Except.ok.inj h
        have pb := ih r _ _ _ _ r1 (hGc1 _ _ _ _ hG) hr hb
        obtain ⟨l, hl, hlc, -⟩ := pb.last
        refine PostOE.of_push pb.inv pb.le ⟨fun hs c hc => ?_, fun k tt hk => ?_⟩ rfl ?_
        · simp only [Step.conclusion, Option.some.injEq] at hc
          subst hc
          refine (hEnt hs).cut ((hEd hs).mono ?_) ?_
          · simp [premOf, Step.namedExternals, Step.citedRefs, Step.isAnd, hl, hlc, DerivationTree.terms]
          · simp [premOf, Step.namedExternals]
        · simp [Step.citedRefs] at hk
        · intro e' he'
          have hx : (DerivationTree.derived dterms dsid (.derived pt psid pa pb') (.external e2)).externals =
              (DerivationTree.derived pt psid pa pb').externals ++ [e2] := rfl
          rw [hx] at he'
          simp only [List.mem_append, List.mem_cons, List.not_mem_nil, or_false] at he'
          rcases he' with (he' | he') | he'
          · exact Or.inl (pb.named e' he')
          · exact Or.inr (by simp [Step.namedExternals, he'])
          · exact Or.inr (by simp [Step.namedExternals, he'])
    | derived qt qsid qa qb =>
      simp only [Reporter.reportRecurseOneEach] at h
      cases hb : Reporter.buildRecursive fuel r dterms dsid (.derived pt psid pa pb') (.derived qt qsid qa qb) with
      | error err => rw [hb] at h; simp at h
      | ok r1 =>
        rw [hb] at h
        obtain rfl := Except.ok.inj h
        have pb := ih r _ _ _ _ r1 hG hr hb
        obtain ⟨l, hl, hlc, -⟩ := pb.last
        refine PostOE.of_push pb.inv pb.le ⟨fun hs c hc => ?_, fun k tt hk => ?_⟩ rfl ?_
        · simp only [Step.conclusion, Option.some.injEq] at hc
          subst hc
          refine (hEnt hs).mono ?_
          simp [premOf, Step.namedExternals, Step.citedRefs, Step.isAnd, hl, hlc]
        · simp [Step.citedRefs] at hk
        · intro e' he'
          rw [List.mem_append] at he'
          rcases he' with he' | he'
          · exact Or.inl (pb.named e' he')
          · exact Or.inr (by simpa [Step.namedExternals] using he')

omit hGcons hGc1 hGc2 hE in
theorem stepOE (fuel : Nat) (ih : SpecROE G U HS fuel) : SpecOE G U HS (fuel + 1) := by
  intro r dterms dsid dc1 dc2 e cur r' hG hEnt hr h
  rw [Reporter.reportOneEach] at h
  cases hb : r.lineRefOf dsid with
  | none =>
    rw [hb] at h
    exact ih r dterms dsid dc1 dc2 e cur r' hG hEnt hr h
  | some ref =>
    rw [hb] at h
    obtain rfl := Except.ok.inj h
    obtain ⟨id, rfl, hg⟩ := lineRefOf_some hb
    obtain ⟨hro, hnm⟩ := hr.shared id ref hg dterms dc1 dc2 hG
    refine PostOE.of_push hr (Le.refl r) ⟨fun hs c hc => ?_, fun k tt hk => ?_⟩ rfl ?_
    · simp only [Step.conclusion, Option.some.injEq] at hc
      subst hc
      refine (hEnt hs).mono ?_
      simp [premOf, Step.namedExternals, Step.citedRefs, Step.isAnd, hro.1]
    · simp only [Step.citedRefs, List.mem_cons, List.not_mem_nil, or_false, Prod.mk.injEq] at hk
      obtain ⟨rfl, rfl⟩ := hk
      exact hro
    · intro e' he'
      rw [List.mem_append] at he'
      rcases he' with he' | he'
      · exact Or.inl (hnm e' he')
      · exact Or.inr (by simpa [Step.namedExternals] using he')

omit hGcons in
include hGc1 hGc2 hE in
theorem stepH (fuel : Nat) (ihBR : SpecBR G U HS fuel) (ihOE : SpecOE G U HS fuel) :
    SpecH G U HS (fuel + 1) := by
  intro r terms sid c1 c2 r' hG hr h
  have hEd := hE terms sid c1 c2 hG
  cases c1 with
  | external e1 =>
    cases c2 with
    | external e2 =>
      rw [Reporter.buildRecursiveHelper] at h
      obtain rfl := Except.ok.inj h
      refine PostH.of_push hr (Le.refl r) ⟨fun hs c hc => ?_, fun k tt hk => ?_⟩ rfl ?_
      · simp only [Step.conclusion, Option.some.injEq] at hc
        subst hc
        refine (hEd hs).mono ?_
        simp [premOf, Step.namedExternals, DerivationTree.terms]
      · simp [Step.citedRefs] at hk
      · intro e' he'
        exact Or.inr (by simpa [Step.namedExternals, DerivationTree.externals] using he')
    | derived dt dsid dc1 dc2 =>
      rw [Reporter.buildRecursiveHelper] at h
      have po := ihOE r dt dsid dc1 dc2 e1 terms r' (hGc2 _ _ _ _ hG)
        (fun hs => (hEd hs).mono (by simp [DerivationTree.terms])) hr h
      obtain ⟨l, hl, hlc, hlr⟩ := po.last
      refine ⟨po.inv, po.le, ⟨l, hl, hlc, Or.inl hlr⟩, ?_⟩
      intro e' he'
      apply po.named
      have hx : (DerivationTree.derived terms sid (.external e1) (.derived dt dsid dc1 dc2)).externals =
          [e1] ++ (DerivationTree.derived dt dsid dc1 dc2).externals := rfl
      rw [hx] at he'
      simp only [List.mem_append, List.mem_cons, List.not_mem_nil, or_false] at he' ⊢
      exact he'.symm
  | derived t1 sid1 a1 b1 =>
    cases c2 with
    | external e2 =>
      rw [Reporter.buildRecursiveHelper] at h
      have po := ihOE r t1 sid1 a1 b1 e2 terms r' (hGc1 _ _ _ _ hG)
        (fun hs => (hEd hs).mono (by simp [DerivationTree.terms])) hr h
      obtain ⟨l, hl, hlc, hlr⟩ := po.last
      exact ⟨po.inv, po.le, ⟨l, hl, hlc, Or.inl hlr⟩, po.named⟩
    | derived t2 sid2 a2 b2 =>
      have hG1 := hGc1 _ _ _ _ hG
      have hG2 := hGc2 _ _ _ _ hG
      have hEd' : HS → Entails U [t1, t2] terms := hEd
      rw [Reporter.buildRecursiveHelper] at h
      cases h1 : r.lineRefOf sid1 with
      | some ref1 =>
        obtain ⟨id1, rfl, hg1⟩ := lineRefOf_some h1
        obtain ⟨hro1, hnm1⟩ := hr.shared id1 ref1 hg1 t1 a1 b1 hG1
        cases h2 : r.lineRefOf sid2 with
        | some ref2 =>
          obtain ⟨id2, rfl, hg2⟩ := lineRefOf_some h2
          obtain ⟨hro2, hnm2⟩ := hr.shared id2 ref2 hg2 t2 a2 b2 hG2
          rw [h1, h2] at h
          dsimp only at h
          obtain rfl := Except.ok.inj h
          refine PostH.of_push hr (Le.refl r) ⟨fun hs c hc => ?_, fun k tt hk => ?_⟩ rfl ?_
          · simp only [Step.conclusion, Option.some.injEq] at hc
            subst hc
            refine (hEd' hs).mono ?_
            simp [premOf, Step.namedExternals, Step.citedRefs, Step.isAnd, hro1.1, hro2.1]
          · simp only [Step.citedRefs, List.mem_cons, List.not_mem_nil, or_false, Prod.mk.injEq] at hk
            rcases hk with ⟨rfl, rfl⟩ | ⟨rfl, rfl⟩
            · exact hro1
            · exact hro2
          · intro e' he'
            rw [List.mem_append] at he'
            rcases he' with he' | he'
            · exact Or.inl (hnm1 e' he')
            · exact Or.inl (hnm2 e' he')
        | none =>
          rw [h1, h2] at h
          dsimp only at h
          cases hb : Reporter.buildRecursive fuel r t2 sid2 a2 b2 with
          | error err => rw [hb] at h; simp at h
          | ok r2 =>
            rw [hb] at h
            obtain rfl := Except.ok.inj h
            have pb := ihBR r _ _ _ _ r2 hG2 hr hb
            obtain ⟨l, hl, hlc, -⟩ := pb.last
            have hro1' := pb.le.ref _ _ hro1
            refine PostH.of_push pb.inv pb.le ⟨fun hs c hc => ?_, fun k tt hk => ?_⟩ rfl ?_
            · simp only [Step.conclusion, Option.some.injEq] at hc
              subst hc
              refine (hEd' hs).mono ?_
              simp [premOf, Step.namedExternals, Step.citedRefs, Step.isAnd, hro1'.1, hl, hlc]
            · simp only [Step.citedRefs, List.mem_cons, List.not_mem_nil, or_false, Prod.mk.injEq] at hk
              obtain ⟨rfl, rfl⟩ := hk
              exact hro1'
            · intro e' he'
              rw [List.mem_append] at he'
              rcases he' with he' | he'
              · exact Or.inl (pb.le.named e' (hnm1 e' he'))
              · exact Or.inl (pb.named e' he')
      | none =>
        cases h2 : r.lineRefOf sid2 with
        | some ref2 =>
          obtain ⟨id2, rfl, hg2⟩ := lineRefOf_some h2
          obtain ⟨hro2, hnm2⟩ := hr.shared id2 ref2 hg2 t2 a2 b2 hG2
          rw [h1, h2] at h
          dsimp only at h
          cases hb : Reporter.buildRecursive fuel r t1 sid1 a1 b1 with
          | error err => rw [hb] at h; simp at h
          | ok r1 =>
            rw [hb] at h
            obtain rfl := Except.ok.inj h
            have pb := ihBR r _ _ _ _ r1 hG1 hr hb
            obtain ⟨l, hl, hlc, -⟩ := pb.last
            have hro2' := pb.le.ref _ _ hro2
            refine PostH.of_push pb.inv pb.le ⟨fun hs c hc => ?_, fun k tt hk => ?_⟩ rfl ?_
            · simp only [Step.conclusion, Option.some.injEq] at hc
              subst hc
              refine (hEd' hs).mono ?_
              simp [premOf, Step.namedExternals, Step.citedRefs, Step.isAnd, hro2'.1, hl, hlc]
            · simp only [Step.citedRefs, List.mem_cons, List.not_mem_nil, or_false, Prod.mk.injEq] at hk
              obtain ⟨rfl, rfl⟩ := hk
              exact hro2'
            · intro e' he'
              rw [List.mem_append] at he'
              rcases he' with he' | he'
              · exact Or.inl (pb.named e' he')
              · exact Or.inl (pb.le.named e' (hnm2 e' he'))
        | none =>
          rw [h1, h2] at h
          dsimp only at h
          cases hb1 : Reporter.buildRecursive fuel r t1 sid1 a1 b1 with
          | error err => rw [hb1] at h; simp at h
          | ok r1 =>
            rw [hb1] at h
            dsimp only at h
            have pb1 := ihBR r _ _ _ _ r1 hG1 hr hb1
            obtain ⟨l1, hl1, hlc1, hlr1⟩ := pb1.last
            cases sid1 with
            | some id1 =>
              simp only [Option.isSome_some, if_true] at h
              have pb := ihBR (r1.push .blank) _ _ _ _ r' hG (pb1.inv.push (stepOK_blank _)) h
              obtain ⟨l, hl, hlc, hlr⟩ := pb.last
              refine ⟨pb.inv, (pb1.le.trans (Le.push _ _)).trans pb.le, ⟨l, hl, hlc, ?_⟩, pb.named⟩
              cases sid with
              | none => exact Or.inl (hlr rfl)
              | some id => exact Or.inr ⟨id, rfl, pb.key id rfl⟩
            | none =>
              simp only [Option.isSome_none, Bool.false_eq_true, if_false] at h
              have hrefs := hlr1 rfl
              have hinv1a := pb1.inv.addLineRef hl1 hrefs
              have hle1a := Le.addLineRef pb1.inv hl1
              have hro := RefOK.addLineRef pb1.inv hl1 hlc1
              cases hb2 : Reporter.buildRecursive fuel (r1.addLineRef.push .blank) t2 sid2 a2 b2 with
              | error err => rw [hb2] at h; simp at h
              | ok r2 =>
                rw [hb2] at h
                obtain rfl := Except.ok.inj h
                have pb2 := ihBR _ _ _ _ _ r2 hG2 (hinv1a.push (stepOK_blank _)) hb2
                obtain ⟨l, hl, hlc, -⟩ := pb2.last
                have hro' : RefOK r2.lines r1.addLineRef.refCount t1 :=
                  pb2.le.ref _ _ ((Le.push _ _).ref _ _ hro)
                have hle : Le r r2 :=
                  ((pb1.le.trans hle1a).trans (Le.push _ _)).trans pb2.le
                refine PostH.of_push pb2.inv hle ⟨fun hs c hc => ?_, fun k tt hk => ?_⟩ rfl ?_
                · simp only [Step.conclusion, Option.some.injEq] at hc
                  subst hc
                  refine (hEd' hs).mono ?_
                  simp [premOf, Step.namedExternals, Step.citedRefs, Step.isAnd, hro'.1, hl, hlc]
                · simp only [Step.citedRefs, List.mem_cons, List.not_mem_nil, or_false,
                    Prod.mk.injEq] at hk
                  obtain ⟨rfl, rfl⟩ := hk
                  exact hro'
                · intro e' he'
                  rw [List.mem_append] at he'
                  rcases he' with he' | he'
                  · exact Or.inl (pb2.le.named e' ((Le.push _ _).named e' (hle1a.named e' (pb1.named e' he'))))
                  · exact Or.inl (pb2.named e' he')

include hGc1 hGc2 hGcons hE in
/-- the specification of the four functions -/
theorem spec_all (fuel : Nat) :
    SpecBR G U HS fuel ∧ SpecH G U HS fuel ∧ SpecOE G U HS fuel ∧ SpecROE G U HS fuel := by
  induction fuel with
  | zero =>
    refine ⟨?_, ?_, ?_, ?_⟩
    · intro r terms sid c1 c2 r' _ _ h; simp [Reporter.buildRecursive] at h
    · intro r terms sid c1 c2 r' _ _ h; simp [Reporter.buildRecursiveHelper] at h
    · intro r dterms dsid dc1 dc2 e cur r' _ _ _ h; simp [Reporter.reportOneEach] at h
    · intro r dterms dsid dc1 dc2 e cur r' _ _ _ h; simp [Reporter.reportRecurseOneEach] at h
  | succ fuel ih =>
    obtain ⟨ih1, ih2, ih3, ih4⟩ := ih
    exact ⟨stepBR hGcons fuel ih2, stepH hGc1 hGc2 hE fuel ih1 ih3, stepOE fuel ih4,
      stepROE hGc1 hGc2 hE fuel ih1⟩

end
end Pubgrub

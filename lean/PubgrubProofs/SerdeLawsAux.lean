/-
JSON text round trip for the fuelled parser `Json.parse` of `PubgrubModel/Serde.lean`.

`Json.render` in the model is `String.ofList ∘ Json.renderC`, a total printer on character lists by
structural recursion.  This file proves `Json.parse (String.ofList (renderC j)) = some j` for every JSON value
whose strings and keys contain no `'"'`.
-/
import PubgrubModel.Serde
import Std.Data.String.ToNat

namespace Pubgrub
namespace Json

mutual
def Clean : Json → Prop
  | .null => True
  | .num _ => True
  | .str s => '"' ∉ s.toList
  | .arr items => CleanItems items
  | .obj fs => CleanFields fs
def CleanItems : List Json → Prop
  | [] => True
  | j :: js => Clean j ∧ CleanItems js
def CleanFields : List (String × Json) → Prop
  | [] => True
  | (k, v) :: fs => '"' ∉ k.toList ∧ Clean v ∧ CleanFields fs
end

/-! fuel that suffices for `parseVal` -/
mutual
def need : Json → Nat
  | .null => 1
  | .num _ => 1
  | .str _ => 1
  | .arr items => 1 + needItems items
  | .obj fs => 1 + needFields fs
def needItems : List Json → Nat
  | [] => 0
  | j :: js => 1 + need j + needItems js
def needFields : List (String × Json) → Nat
  | [] => 0
  | (_, v) :: fs => 1 + need v + needFields fs
end

#guard String.ofList (renderC (.arr [.obj [("a", .num 10), ("b", .null)], .str "x", .arr [], .obj []]))
  == render (.arr [.obj [("a", .num 10), ("b", .null)], .str "x", .arr [], .obj []])

/-! ### lexer lemmas -/

def StartChar (c : Char) : Prop :=
  c = 'n' ∨ c = '"' ∨ c = '[' ∨ c = '{' ∨ c.isDigit = true

instance (c : Char) : Decidable (StartChar c) := by unfold StartChar; infer_instance

/-- the next character is not a digit (so that a number ends here) -/
def NoDigitHead (l : List Char) : Prop := ∀ c t, l = c :: t → c.isDigit = false

theorem skipWs_cons_of (c : Char) (t : List Char) (h1 : c ≠ ' ') (h2 : c ≠ '\n') (h3 : c ≠ '\t') :
    skipWs (c :: t) = c :: t := by
  simp [skipWs, h1, h2, h3]

theorem skipWs_start {c : Char} (h : StartChar c) (t : List Char) : skipWs (c :: t) = c :: t := by
  apply skipWs_cons_of <;> rintro rfl <;> revert h <;> decide

theorem takeString_append (s : List Char) (h : '"' ∉ s) (rest acc : List Char) :
    takeString (s ++ '"' :: rest) acc = some (String.ofList (acc.reverse ++ s), rest) := by
  induction s generalizing acc with
  | nil => simp [takeString]
  | cons c t ih =>
    have hc : c ≠ '"' := by intro hc; apply h; simp [hc]
    have ht : '"' ∉ t := by intro ht; apply h; simp [ht]
    simp [takeString, ih ht]

theorem takeDigits_append (ds : List Char) (hd : ∀ c ∈ ds, c.isDigit = true) (rest : List Char)
    (hr : NoDigitHead rest) (acc : List Char) :
    takeDigits (ds ++ rest) acc = (acc.reverse ++ ds, rest) := by
  induction ds generalizing acc with
  | nil =>
    cases rest with
    | nil => simp [takeDigits]
    | cons c t => simp [takeDigits, hr c t rfl]
  | cons c t ih =>
    have hc : c.isDigit = true := hd c (by simp)
    have ht : ∀ c ∈ t, c.isDigit = true := fun c h => hd c (by simp [h])
    simp [takeDigits, hc, ih ht]

theorem renderC_head (j : Json) : ∃ c t, renderC j = c :: t ∧ StartChar c := by
  cases j with
  | null => exact ⟨_, _, rfl, by decide⟩
  | num n =>
    cases h : Nat.toDigits 10 n with
    | nil => exact absurd h Nat.toDigits_ne_nil
    | cons c t =>
      refine ⟨c, t, by simp [renderC, h], ?_⟩
      have : c.isDigit = true :=
        Nat.isDigit_of_mem_toDigits (b := 10) (n := n) (by omega) (by omega) (by simp [h])
      simp [StartChar, this]
  | str s => (simp only [renderC]; exact ⟨_, _, rfl, by decide⟩)
  | arr items => cases items <;> (simp only [renderC]; exact ⟨_, _, rfl, by decide⟩)
  | obj fs =>
    cases fs with
    | nil => (simp only [renderC]; exact ⟨_, _, rfl, by decide⟩)
    | cons f fs => obtain ⟨k, v⟩ := f; (simp only [renderC]; exact ⟨_, _, rfl, by decide⟩)

/-! ### one-step parser lemmas -/

theorem parseVal_null (f : Nat) (rest : List Char) :
    parseVal (f + 1) ('n' :: 'u' :: 'l' :: 'l' :: rest) = some (.null, rest) := by
  rw [parseVal, skipWs_start (by decide)]
  rfl

theorem parseVal_str (f : Nat) (s : String) (h : '"' ∉ s.toList) (rest : List Char) :
    parseVal (f + 1) ('"' :: (s.toList ++ '"' :: rest)) = some (.str s, rest) := by
  rw [parseVal, skipWs_start (by decide)]
  simp [takeString_append _ h]

theorem parseVal_num (f n : Nat) (rest : List Char) (hr : NoDigitHead rest) :
    parseVal (f + 1) (Nat.toDigits 10 n ++ rest) = some (.num n, rest) := by
  have hd : ∀ c ∈ Nat.toDigits 10 n, c.isDigit = true := fun c hc =>
    Nat.isDigit_of_mem_toDigits (by omega) (by omega) hc
  have htd := takeDigits_append _ hd rest hr []
  cases h : Nat.toDigits 10 n with
  | nil => exact absurd h Nat.toDigits_ne_nil
  | cons c t =>
    rw [h] at htd hd
    have hc : c.isDigit = true := hd c (by simp)
    have hs : StartChar c := by simp [StartChar, hc]
    rw [parseVal, List.cons_append, skipWs_start hs]
    split
    next heq => injection heq with h1 h2; subst h1; exact absurd hc (by decide)
    next heq => injection heq with h1 h2; subst h1; exact absurd hc (by decide)
    next heq => injection heq with h1 h2; subst h1; exact absurd hc (by decide)
    next heq => injection heq with h1 h2; subst h1; exact absurd hc (by decide)
    next heq =>
      injection heq with h1 h2; subst h1 h2
      rw [if_pos hc, ← List.cons_append, htd]
      have := Nat.toNat?_repr n
      rw [Nat.repr, h] at this
      show Option.map _ (String.ofList (c :: t)).toNat? = _
      rw [this]; rfl
    next heq => cases heq

theorem parseVal_arr_nil (f : Nat) (rest : List Char) :
    parseVal (f + 1) ('[' :: ']' :: rest) = some (.arr [], rest) := by
  rw [parseVal, skipWs_start (by decide)]
  simp only [skipWs_cons_of _ _ (by decide : ']' ≠ ' ') (by decide) (by decide)]

theorem parseVal_obj_nil (f : Nat) (rest : List Char) :
    parseVal (f + 1) ('{' :: '}' :: rest) = some (.obj [], rest) := by
  rw [parseVal, skipWs_start (by decide)]
  simp only [skipWs_cons_of _ _ (by decide : '}' ≠ ' ') (by decide) (by decide)]

theorem parseVal_arr_cons (f : Nat) (c : Char) (t : List Char) (hc : StartChar c) :
    parseVal (f + 1) ('[' :: c :: t)
      = (parseItems f (c :: t) []).map fun (items, r) => (.arr items, r) := by
  rw [parseVal, skipWs_start (by decide)]
  simp only [skipWs_start hc]
  split
  next heq => injection heq with h1 h2; subst h1; exact absurd hc (by decide)
  next => rfl

theorem parseVal_obj_cons (f : Nat) (c : Char) (t : List Char) (hc : StartChar c) :
    parseVal (f + 1) ('{' :: c :: t)
      = (parseFields f (c :: t) []).map fun (fs, r) => (.obj fs, r) := by
  rw [parseVal, skipWs_start (by decide)]
  simp only [skipWs_start hc]
  split
  next heq => injection heq with h1 h2; subst h1; exact absurd hc (by decide)
  next => rfl

theorem parseItems_comma (f : Nat) (cs r : List Char) (v : Json) (acc : List Json)
    (h : parseVal f cs = some (v, ',' :: r)) :
    parseItems (f + 1) cs acc = parseItems f r (acc ++ [v]) := by
  rw [parseItems, h]
  simp only [skipWs_cons_of _ _ (by decide : ',' ≠ ' ') (by decide) (by decide)]

theorem parseItems_close (f : Nat) (cs r : List Char) (v : Json) (acc : List Json)
    (h : parseVal f cs = some (v, ']' :: r)) :
    parseItems (f + 1) cs acc = some (acc ++ [v], r) := by
  rw [parseItems, h]
  simp only [skipWs_cons_of _ _ (by decide : ']' ≠ ' ') (by decide) (by decide)]

theorem parseFields_comma (f : Nat) (k : String) (hk : '"' ∉ k.toList) (cs r : List Char) (v : Json)
    (acc : List (String × Json)) (h : parseVal f cs = some (v, ',' :: r)) :
    parseFields (f + 1) ('"' :: (k.toList ++ '"' :: ':' :: cs)) acc
      = parseFields f r (acc ++ [(k, v)]) := by
  rw [parseFields, skipWs_start (by decide)]
  simp only [takeString_append _ hk, skipWs_cons_of _ _ (by decide : ':' ≠ ' ') (by decide) (by decide),
    h, skipWs_cons_of _ _ (by decide : ',' ≠ ' ') (by decide) (by decide)]
  simp

theorem parseFields_close (f : Nat) (k : String) (hk : '"' ∉ k.toList) (cs r : List Char) (v : Json)
    (acc : List (String × Json)) (h : parseVal f cs = some (v, '}' :: r)) :
    parseFields (f + 1) ('"' :: (k.toList ++ '"' :: ':' :: cs)) acc
      = some (acc ++ [(k, v)], r) := by
  rw [parseFields, skipWs_start (by decide)]
  simp only [takeString_append _ hk, skipWs_cons_of _ _ (by decide : ':' ≠ ' ') (by decide) (by decide),
    h, skipWs_cons_of _ _ (by decide : '}' ≠ ' ') (by decide) (by decide)]
  simp

theorem noDigitHead_renderItems (js : List Json) (rest : List Char) :
    NoDigitHead (renderItems js ++ rest) := by
  intro c t h
  cases js <;> simp only [renderItems, List.cons_append] at h <;>
    (injection h with h1 h2; subst h1; decide)

theorem noDigitHead_renderFields (fs : List (String × Json)) (rest : List Char) :
    NoDigitHead (renderFields fs ++ rest) := by
  intro c t h
  rcases fs with _ | ⟨⟨k, v⟩, fs⟩ <;> simp only [renderFields, List.cons_append] at h <;>
    (injection h with h1 h2; subst h1; decide)

/-! ### the round trip on character lists -/

mutual
theorem parseVal_renderC : ∀ (j : Json) (fuel : Nat) (rest : List Char),
    Clean j → need j ≤ fuel → NoDigitHead rest → parseVal fuel (renderC j ++ rest) = some (j, rest)
  | .null, fuel, rest, _, hf, _ => by
    simp only [need] at hf
    obtain ⟨f, rfl⟩ : ∃ f, fuel = f + 1 := ⟨fuel - 1, by omega⟩
    exact parseVal_null f rest
  | .num n, fuel, rest, _, hf, hr => by
    simp only [need] at hf
    obtain ⟨f, rfl⟩ : ∃ f, fuel = f + 1 := ⟨fuel - 1, by omega⟩
    exact parseVal_num f n rest hr
  | .str s, fuel, rest, hc, hf, _ => by
    simp only [need] at hf
    simp only [Clean] at hc
    obtain ⟨f, rfl⟩ : ∃ f, fuel = f + 1 := ⟨fuel - 1, by omega⟩
    simpa [renderC] using parseVal_str f s hc rest
  | .arr [], fuel, rest, _, hf, _ => by
    simp only [need] at hf
    obtain ⟨f, rfl⟩ : ∃ f, fuel = f + 1 := ⟨fuel - 1, by omega⟩
    exact parseVal_arr_nil f rest
  | .arr (j :: js), fuel, rest, hc, hf, _ => by
    simp only [need, needItems] at hf
    simp only [Clean, CleanItems] at hc
    obtain ⟨f, rfl⟩ : ∃ f, fuel = f + 1 + 1 := ⟨fuel - 2, by omega⟩
    obtain ⟨c, t, hct, hs⟩ := renderC_head j
    have hv := parseVal_renderC j f (renderItems js ++ rest) hc.1 (by omega)
      (noDigitHead_renderItems js rest)
    have hi := parseItems_renderItems js f _ rest [] j hv hc.2 (by omega)
    simp only [renderC, List.cons_append, List.append_assoc]
    rw [hct] at hi ⊢
    rw [List.cons_append, parseVal_arr_cons _ _ _ hs, ← List.cons_append, hi]
    rfl
  | .obj [], fuel, rest, _, hf, _ => by
    simp only [need] at hf
    obtain ⟨f, rfl⟩ : ∃ f, fuel = f + 1 := ⟨fuel - 1, by omega⟩
    exact parseVal_obj_nil f rest
  | .obj ((k, v) :: fs), fuel, rest, hc, hf, _ => by
    simp only [need, needFields] at hf
    simp only [Clean, CleanFields] at hc
    obtain ⟨f, rfl⟩ : ∃ f, fuel = f + 1 + 1 := ⟨fuel - 2, by omega⟩
    have hv := parseVal_renderC v f (renderFields fs ++ rest) hc.2.1 (by omega)
      (noDigitHead_renderFields fs rest)
    have hi := parseFields_renderFields fs f _ rest [] k v hc.1 hv hc.2.2 (by omega)
    simp only [renderC, List.cons_append, List.append_assoc]
    rw [parseVal_obj_cons _ _ _ (by decide)]
    rw [hi]
    rfl
theorem parseItems_renderItems : ∀ (js : List Json) (f : Nat) (cs rest : List Char)
    (acc : List Json) (v : Json),
    parseVal f cs = some (v, renderItems js ++ rest) → CleanItems js → needItems js ≤ f →
    parseItems (f + 1) cs acc = some (acc ++ v :: js, rest)
  | [], f, cs, rest, acc, v, hv, _, _ => by
    simpa [renderItems] using parseItems_close f cs rest v acc (by simpa [renderItems] using hv)
  | k :: js, f, cs, rest, acc, v, hv, hc, hf => by
    simp only [needItems] at hf
    simp only [CleanItems] at hc
    obtain ⟨f, rfl⟩ : ∃ f', f = f' + 1 := ⟨f - 1, by omega⟩
    simp only [renderItems, List.cons_append, List.append_assoc] at hv
    rw [parseItems_comma _ _ _ _ _ hv]
    have hk := parseVal_renderC k f (renderItems js ++ rest) hc.1 (by omega)
      (noDigitHead_renderItems js rest)
    have := parseItems_renderItems js f _ rest (acc ++ [v]) k hk hc.2 (by omega)
    simpa using this
theorem parseFields_renderFields : ∀ (fs : List (String × Json)) (f : Nat) (cs rest : List Char)
    (acc : List (String × Json)) (k : String) (v : Json), '"' ∉ k.toList →
    parseVal f cs = some (v, renderFields fs ++ rest) → CleanFields fs → needFields fs ≤ f →
    parseFields (f + 1) ('"' :: (k.toList ++ '"' :: ':' :: cs)) acc = some (acc ++ (k, v) :: fs, rest)
  | [], f, cs, rest, acc, k, v, hk, hv, _, _ => by
    simpa [renderFields] using
      parseFields_close f k hk cs rest v acc (by simpa [renderFields] using hv)
  | (k', v') :: fs, f, cs, rest, acc, k, v, hk, hv, hc, hf => by
    simp only [needFields] at hf
    simp only [CleanFields] at hc
    obtain ⟨f, rfl⟩ : ∃ f', f = f' + 1 := ⟨f - 1, by omega⟩
    simp only [renderFields, List.cons_append, List.append_assoc] at hv
    rw [parseFields_comma _ _ hk _ _ _ _ hv]
    have hk' := parseVal_renderC v' f (renderFields fs ++ rest) hc.2.1 (by omega)
      (noDigitHead_renderFields fs rest)
    have := parseFields_renderFields fs f _ rest (acc ++ [(k, v)]) k' v' hc.1 hk' hc.2.2 (by omega)
    simpa using this
end

/-! ### the fuel `length + 2` of `Json.parse` suffices -/

mutual
theorem need_le_length : ∀ j : Json, need j ≤ (renderC j).length
  | .null => by simp [need, renderC]
  | .num n => by
    have := Nat.length_toDigits_pos (b := 10) (n := n)
    simp only [need, renderC]; omega
  | .str s => by simp [need, renderC]
  | .arr [] => by simp [need, needItems, renderC]
  | .arr (j :: js) => by
    have := need_le_length j
    have := needItems_le_length js
    simp only [need, needItems, renderC, List.length_cons, List.length_append]; omega
  | .obj [] => by simp [need, needFields, renderC]
  | .obj ((k, v) :: fs) => by
    have := need_le_length v
    have := needFields_le_length fs
    simp only [need, needFields, renderC, List.length_cons, List.length_append]; omega
theorem needItems_le_length : ∀ js : List Json, needItems js + 1 ≤ (renderItems js).length
  | [] => by simp [needItems, renderItems]
  | j :: js => by
    have := need_le_length j
    have := needItems_le_length js
    simp only [needItems, renderItems, List.length_cons, List.length_append]; omega
theorem needFields_le_length : ∀ fs : List (String × Json), needFields fs + 1 ≤ (renderFields fs).length
  | [] => by simp [needFields, renderFields]
  | (k, v) :: fs => by
    have := need_le_length v
    have := needFields_le_length fs
    simp only [needFields, renderFields, List.length_cons, List.length_append]; omega
end

/-- **JSON text round trip**: printing a JSON value (whose strings and keys contain no `'"'`) and
parsing the text with the fuel `length + 2` that `Json.parse` uses gives the value back. -/
theorem parse_renderC (j : Json) (hc : Clean j) : parse (String.ofList (renderC j)) = some j := by
  have h := parseVal_renderC j ((renderC j).length + 2) [] hc
    (by have := need_le_length j; omega) (by intro c t h; cases h)
  rw [List.append_nil] at h
  simp [parse, String.length_ofList, String.toList_ofList, h, skipWs]

end Json
end Pubgrub

/-
Model of `/repo/src/internal/partial_solution.rs`.

* `package_assignments` (an insertion-ordered `IndexMap`) is an association list in index order;
* `prioritized_potential_packages` (a `PriorityQueue`) is an association list package ↦ priority;
  `push` overwrites the priority of a package already queued (as the crate does), `pop` removes *a*
  package of maximal priority: which one is an input of the model (`popChosen`), checked to be
  maximal — the heap's tie-breaking is not modelled, theorems hold for every tie-breaking;
* `u32` counters are `Nat`;
* `debug` switches on the `cfg!(debug_assertions)` checks of the Rust.
-/
import PubgrubModel.Incompat

namespace Pubgrub

/-- `struct DatedDerivation` -/
structure DatedDerivation (S : Type) where
  globalIndex : Nat
  decisionLevel : Nat
  cause : Nat
  accumulated : Term S
  deriving Repr

/-- `enum AssignmentsIntersection` -/
inductive AssignInter (S V : Type) where
  | decision (globalIndex : Nat) (v : V) (t : Term S)
  | derivations (t : Term S)
  deriving Repr

/-- `struct PackageAssignments` -/
structure PackageAssignments (S V : Type) where
  smallest : Nat
  highest : Nat
  dated : List (DatedDerivation S)
  inter : AssignInter S V
  deriving Repr

/-- `struct PartialSolution` -/
structure PartialSolution (P S V Pr : Type) where
  nextGlobalIndex : Nat
  currentDecisionLevel : Nat
  assignments : List (P × PackageAssignments S V)
  queue : List (P × Pr)
  changed : Nat
  hasEverBacktracked : Bool

/-- `enum SatisfierSearch` -/
inductive SatisfierSearch where
  | differentDecisionLevels (previousSatisfierLevel : Nat)
  | sameDecisionLevels (satisfierCause : Nat)
  deriving Repr

namespace AssignInter
variable {S V : Type}
/-- `AssignmentsIntersection::term` -/
def term : AssignInter S V → Term S
  | decision _ _ t => t
  | derivations t => t
end AssignInter

/-- the arena: `store[id]` -/
def storeGet {α : Type} (store : List α) (id : Nat) : R α :=
  unwrapOr store[id]? "arena index out of bounds"

/-- `IndexMap::swap_indices` -/
def swapIndices {α : Type} (l : List α) (i j : Nat) : R (List α) :=
  match l[i]?, l[j]? with
  | some a, some b => .ok ((l.set i b).set j a)
  | _, _ => .error (.panic "swap_indices: index out of bounds")

namespace PartialSolution
variable {P S V M Pr : Type} [DecidableEq P] [VersionSet S V] [DecidableEq S]

/-- `PartialSolution::empty` -/
def empty : PartialSolution P S V Pr :=
  { nextGlobalIndex := 0, currentDecisionLevel := 0, assignments := [], queue := [],
    changed := 0, hasEverBacktracked := false }

def getPA (ps : PartialSolution P S V Pr) (p : P) : Option (PackageAssignments S V) :=
  SmallMap.get ps.assignments p

/-- index of a key in the `IndexMap` -/
def indexOf (ps : PartialSolution P S V Pr) (p : P) : Option Nat :=
  let i := ps.assignments.findIdx (fun kv => kv.1 = p)
  if i < ps.assignments.length then some i else none

/-- `term_intersection_for_package` -/
def termIntersectionForPackage (ps : PartialSolution P S V Pr) (p : P) : Option (Term S) :=
  (ps.getPA p).map fun pa => pa.inter.term

/-- `add_decision` -/
def addDecision (debug : Bool) (ps : PartialSolution P S V Pr) (p : P) (v : V) :
    R (PartialSolution P S V Pr) := do
  if debug then
    match ps.getPA p with
    | none => throw (.panic "Derivations must already exist")
    | some pa =>
      match pa.inter with
      | .decision _ _ _ => throw (.panic "Already existing decision")
      | .derivations t =>
        if !t.contains v then throw (.panic "add_decision: version not contained in the terms")
    if ps.changed ≠ ps.assignments.length then
      throw (.panic "add_decision: changed_this_decision_level != package_assignments.len()")
  let newIdx := ps.currentDecisionLevel
  let dl := ps.currentDecisionLevel + 1
  let oldIdx ← unwrapOr (ps.indexOf p) "Derivations must already exist"
  let pa ← unwrapOr (ps.getPA p) "Derivations must already exist"
  let pa' : PackageAssignments S V :=
    { pa with highest := dl,
              inter := .decision ps.nextGlobalIndex v (Term.exact v) }
  let assignments := ps.assignments.set oldIdx (p, pa')
  let assignments ← if newIdx ≠ oldIdx then swapIndices assignments newIdx oldIdx else pure assignments
  pure { ps with currentDecisionLevel := dl, assignments := assignments,
                 nextGlobalIndex := ps.nextGlobalIndex + 1 }

/-- `add_derivation` -/
def addDerivation (ps : PartialSolution P S V Pr) (p : P) (cause : Nat)
    (store : List (Incompat P S V M)) : R (PartialSolution P S V Pr) := do
  let inc ← storeGet store cause
  let t ← unwrapOr (inc.get p) "add_derivation: store[cause].get(package).unwrap()"
  let dd : DatedDerivation S :=
    { globalIndex := ps.nextGlobalIndex, decisionLevel := ps.currentDecisionLevel, cause := cause,
      accumulated := t.negate }
  let next := ps.nextGlobalIndex + 1
  let paLastIndex := ps.assignments.length - 1
  match ps.indexOf p, ps.getPA p with
  | some idx, some pa =>
    match pa.inter with
    | .decision _ _ _ => throw (.panic "add_derivation should not be called after a decision")
    | .derivations t0 =>
      let t' := t0.intersection dd.accumulated
      let dd' := { dd with accumulated := t' }
      let changed := if t'.isPositive then min ps.changed idx else ps.changed
      let pa' : PackageAssignments S V :=
        { pa with highest := ps.currentDecisionLevel, inter := .derivations t',
                  dated := pa.dated ++ [dd'] }
      pure { ps with nextGlobalIndex := next, changed := changed,
                     assignments := ps.assignments.set idx (p, pa') }
  | _, _ =>
    let term := dd.accumulated
    let changed := if term.isPositive then min ps.changed paLastIndex else ps.changed
    let pa' : PackageAssignments S V :=
      { smallest := ps.currentDecisionLevel, highest := ps.currentDecisionLevel, dated := [dd],
        inter := .derivations term }
    pure { ps with nextGlobalIndex := next, changed := changed,
                   assignments := ps.assignments ++ [(p, pa')] }

/-- `potential_package_filter` -/
def potentialPackageFilter (p : P) (pa : PackageAssignments S V) : Option (P × S) :=
  match pa.inter with
  | .decision _ _ _ => none
  | .derivations t =>
    match t with
    | .pos s => some (p, s)
    | .neg _ => none

/-- first half of `pick_highest_priority_pkg`: the `(package, set)` pairs handed to `prioritize`,
in order.  (`get_range(changed..).unwrap()` panics when `changed > len`.) -/
def toPrioritize (ps : PartialSolution P S V Pr) : R (List (P × S)) :=
  if ps.changed > ps.assignments.length then
    .error (.panic "pick_highest_priority_pkg: get_range(changed..).unwrap()")
  else
    let checkAll := ps.changed == ps.currentDecisionLevel - 1
    .ok ((ps.assignments.drop ps.changed).filterMap fun (p, pa) =>
      if checkAll || pa.highest == ps.currentDecisionLevel then potentialPackageFilter p pa else none)

/-- `PriorityQueue::push` (an existing item gets the new priority) -/
def queuePush (q : List (P × Pr)) (p : P) (pr : Pr) : List (P × Pr) := SmallMap.insert q p pr

/-- second half of `pick_highest_priority_pkg` before the pop -/
def afterPrioritize (ps : PartialSolution P S V Pr) (prios : List (P × Pr)) :
    PartialSolution P S V Pr :=
  { ps with queue := prios.foldl (fun q kv => queuePush q kv.1 kv.2) ps.queue,
            changed := ps.assignments.length }

/-- `pa.satisfier` -/
def satisfier (pa : PackageAssignments S V) (startTerm : Term S) : R (Option Nat × Nat × Nat) :=
  -- `partition_point(|dd| !dd.accumulated.is_disjoint(start_term))`: on the (monotone) derivations
  -- this is the first index whose accumulated intersection is disjoint from `start_term`
  match pa.dated.find? (fun dd => dd.accumulated.isDisjoint startTerm) with
  | some dd => .ok (some dd.cause, dd.globalIndex, dd.decisionLevel)
  | none =>
    match pa.inter with
    | .decision gidx _ _ => .ok (none, gidx, pa.highest)
    | .derivations _ => .error (.panic "satisfier: unreachable, the last assignment should have been a decision")

/-- `max_by_key(global_index)`: the *last* maximal element, as `Iterator::max_by_key` -/
def maxByIndex : List (P × (Option Nat × Nat × Nat)) → Option (P × (Option Nat × Nat × Nat))
  | [] => none
  | x :: rest =>
    match maxByIndex rest with
    | none => some x
    | some y => if x.2.2.1 > y.2.2.1 then some x else some y

/-- `find_satisfier` -/
def findSatisfier (ps : PartialSolution P S V Pr) (terms : List (P × Term S)) :
    R (SmallMap P (Option Nat × Nat × Nat)) :=
  terms.foldlM (m := R) (fun acc (pt : P × Term S) => do
    let pa ← unwrapOr (ps.getPA pt.1) "find_satisfier: Must exist"
    let s ← satisfier pa pt.2.negate
    pure (SmallMap.insert acc pt.1 s)) []

/-- `find_previous_satisfier` -/
def findPreviousSatisfier (ps : PartialSolution P S V Pr) (incompat : Incompat P S V M)
    (satisfierPackage : P) (satisfiedMap : SmallMap P (Option Nat × Nat × Nat))
    (store : List (Incompat P S V M)) : R Nat := do
  let satisfierPa ← unwrapOr (ps.getPA satisfierPackage) "find_previous_satisfier: get(satisfier_package).unwrap()"
  let (satisfierCause, _, _) ← unwrapOr (SmallMap.get satisfiedMap satisfierPackage)
    "find_previous_satisfier: satisfied_map.get().unwrap()"
  let accumTerm ← match satisfierCause with
    | some cause => do
      let c ← storeGet store cause
      let t ← unwrapOr (c.get satisfierPackage) "find_previous_satisfier: store[cause].get().unwrap()"
      pure t.negate
    | none =>
      match satisfierPa.inter with
      | .derivations _ => throw (.panic "must be a decision")
      | .decision _ _ t => pure t
  let incompatTerm ← unwrapOr (incompat.get satisfierPackage) "satisfier package not in incompat"
  let s ← satisfier satisfierPa (accumTerm.intersection incompatTerm.negate)
  let m := SmallMap.insert satisfiedMap satisfierPackage s
  let (_, (_, _, dl)) ← unwrapOr (maxByIndex m) "find_previous_satisfier: max_by_key().unwrap()"
  pure (max dl 1)

/-- `satisfier_search` -/
def satisfierSearch (ps : PartialSolution P S V Pr) (incompat : Incompat P S V M)
    (store : List (Incompat P S V M)) : R (P × SatisfierSearch) := do
  let satisfiedMap ← findSatisfier ps incompat.terms
  let (satisfierPackage, (satisfierCause, _, satisfierDl)) ←
    unwrapOr (maxByIndex satisfiedMap) "satisfier_search: max_by_key().unwrap()"
  let prev ← findPreviousSatisfier ps incompat satisfierPackage satisfiedMap store
  if prev ≥ satisfierDl then
    let c ← unwrapOr satisfierCause "satisfier_search: satisfier_cause.unwrap()"
    pure (satisfierPackage, .sameDecisionLevels c)
  else
    pure (satisfierPackage, .differentDecisionLevels prev)

/-- the exact loop of the Rust: pop while the last derivation is above `dl` -/
def popWhileAbove (dl : Nat) : List (DatedDerivation S) → List (DatedDerivation S)
  | [] => []
  | l@(_ :: _) =>
    -- work on the reversed list
    (l.reverse.dropWhile fun dd => dd.decisionLevel > dl).reverse

/-- `backtrack` -/
def backtrack (ps : PartialSolution P S V Pr) (dl : Nat) : R (PartialSolution P S V Pr) := do
  let assignments ← ps.assignments.filterMapM (m := R) fun (p, pa) =>
    if pa.smallest > dl then pure none
    else if pa.highest ≤ dl then pure (some (p, pa))
    else do
      let dated := popWhileAbove dl pa.dated
      let last ← unwrapOr dated.getLast? "backtrack: dated_derivations.last().unwrap()"
      pure (some (p, { pa with dated := dated, highest := last.decisionLevel,
                               inter := .derivations last.accumulated }))
  pure { ps with currentDecisionLevel := dl, assignments := assignments, queue := [],
                 changed := dl - 1, hasEverBacktracked := true }

/-- `PartialSolution::relation` -/
def relation (ps : PartialSolution P S V Pr) (i : Incompat P S V M) : Relation P :=
  i.relation fun p => ps.termIntersectionForPackage p

/-- `add_version`; `newIncompats` are `store[new_incompatibilities]` -/
def addVersion (debug : Bool) (ps : PartialSolution P S V Pr) (p : P) (v : V)
    (newIncompats : List (Incompat P S V M)) : R (PartialSolution P S V Pr) :=
  if !ps.hasEverBacktracked then addDecision debug ps p v
  else
    let exact : Term S := Term.exact v
    let notSatisfied := fun (i : Incompat P S V M) =>
      i.relation (fun q => if q = p then some exact else ps.termIntersectionForPackage q) ≠ .satisfied
    if newIncompats.all notSatisfied then addDecision debug ps p v
    else .ok ps

/-- `extract_solution` -/
def extractSolution (ps : PartialSolution P S V Pr) : R (List (P × V)) :=
  (ps.assignments.take ps.currentDecisionLevel).mapM (m := R) fun (p, pa) =>
    match pa.inter with
    | .decision _ v _ => pure (p, v)
    | .derivations _ => throw (.panic "Derivations in the Decision part")

end PartialSolution
end Pubgrub

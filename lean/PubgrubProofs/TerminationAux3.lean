/-
Helpers for `Termination.lean`, part 3: what the operations of the partial solution do to the measure
(R1: derivation, R2: decision, R3: backtrack followed by a derivation).
-/
import PubgrubProofs.TerminationAux2

set_option linter.unusedSectionVars false
set_option linter.unusedVariables false

namespace Pubgrub
open VersionSet

section
variable {P S V M Pr : Type} [DecidableEq P] [VersionSet S V] [DecidableEq S] [LawfulVersionSet S V]
variable {W : World P S V M} {root : P} {rv : V} (fw : FiniteWorld W root rv)

/-- the measure only depends on the assignments and the decision level -/
theorem rank_congr {ps ps' : PartialSolution P S V Pr} (h1 : ps'.assignments = ps.assignments)
    (h2 : ps'.currentDecisionLevel = ps.currentDecisionLevel) : rank fw ps' = rank fw ps := by
  unfold rank
  apply Tm.numeral_congr
  intro i _
  unfold digit comp PartialSolution.termsAt PartialSolution.getPA
  rw [h1, h2]

/-- the live levels are among the digits (G3) -/
theorem level_lt_Dim {ps : PartialSolution P S V Pr} (hw : ps.WF)
    (hk : ∀ kv ∈ ps.assignments, kv.1 ∈ fw.pkgs) : ps.currentDecisionLevel + 2 ≤ Dim fw := by
  have h1 := hw.level_le
  have h2 : (ps.assignments.map Prod.fst).length ≤ fw.pkgs.length :=
    Tm.nodup_subset_length_le _ _ hw.keys (by
      intro x hx
      rw [List.mem_map] at hx
      obtain ⟨kv, hkv, rfl⟩ := hx
      exact hk kv hkv)
  rw [List.length_map] at h2
  unfold Dim
  omega

/-- R1, digit form: a derivation at the current level whose clause term meets the term of the package
leaves the digits below the current level alone and decreases the digit of the current level -/
theorem comp_addDerivation {ps ps' : PartialSolution P S V Pr} {p : P} {id : Nat}
    {store : List (Incompat P S V M)} (h : ps.WF') (hv : ps.TermsValid)
    (hr : ps.addDerivation p id store = .ok ps') {inc : Incompat P S V M} (hinc : store[id]? = some inc)
    {c : Term S} (hget : inc.get p = some c) (hcv : c.Valid) (hcok : OKT fw p c)
    (hpok : ∀ t, ps.terms p = some t → OKT fw p t)
    (hmeet : ∀ t, ps.terms p = some t → ∃ x : Option V, t.eval x = true ∧ c.eval x = true) :
    ps'.currentDecisionLevel = ps.currentDecisionLevel ∧
    (∀ i, i < ps.currentDecisionLevel → comp fw ps' i = comp fw ps i) ∧
    comp fw ps' ps.currentDecisionLevel < comp fw ps ps.currentDecisionLevel := by
  have h' := PartialSolution.addDerivation_wf' h hr
  have hlev := PartialSolution.addDerivation_level hr
  refine ⟨hlev, ?_, ?_⟩
  · intro i hi
    apply comp_congr
    intro q
    rw [PartialSolution.termsAt_addDerivation_lt h hr hi]
  · have e1 : ps'.termsAt ps.currentDecisionLevel = ps'.terms :=
      PartialSolution.termsAt_top h'.wf (by rw [hlev])
    have e2 : ps.termsAt ps.currentDecisionLevel = ps.terms :=
      PartialSolution.termsAt_top h.wf (Nat.le_refl _)
    apply comp_lt_of fw hcok.1 (p := p)
    · intro q hq
      rw [e1, e2]
      exact PartialSolution.terms_addDerivation_ne h hr hq
    · rw [e1, e2]
      cases ho : ps.terms p with
      | some o =>
        obtain ⟨inc', t, hinc', ht, hnew⟩ := PartialSolution.addDerivation_term_self h.wf hr ho
        rw [hinc] at hinc'; injection hinc' with hinc'; subst hinc'
        rw [hget] at ht; injection ht with ht; subst ht
        have hnew' : ps'.terms p = some (o.intersection c.negate) := hnew
        rw [hnew']
        simp only [Tm.osize]
        have hov : o.Valid := PartialSolution.termIntersection_valid hv ho
        have hnv : c.negate.Valid := Term.valid_negate c hcv
        obtain ⟨x, hx1, hx2⟩ := hmeet o ho
        refine tsize_lt fw ((hpok o ho).intersection fw (hcok.negate fw)) (hpok o ho)
          (Term.valid_intersection _ _ hov hnv) hov (Term.inter_imp_left hov hnv) (o := x) hx1 ?_
        rw [Term.eval_intersection _ _ hov hnv, Term.eval_negate, hx1, hx2]
        rfl
      | none =>
        obtain ⟨inc', t, o', hinc', ht, hnew, _, _⟩ := PartialSolution.terms_addDerivation_self h hv hr
        rw [hnew]
        exact Tm.osize_some_lt_none _ _

/-- R1: such a derivation decreases the measure -/
theorem rank_addDerivation {ps ps' : PartialSolution P S V Pr} {p : P} {id : Nat}
    {store : List (Incompat P S V M)} (h : ps.WF') (hv : ps.TermsValid)
    (hr : ps.addDerivation p id store = .ok ps') {inc : Incompat P S V M} (hinc : store[id]? = some inc)
    {c : Term S} (hget : inc.get p = some c) (hcv : c.Valid) (hcok : OKT fw p c)
    (hpok : ∀ t, ps.terms p = some t → OKT fw p t)
    (hmeet : ∀ t, ps.terms p = some t → ∃ x : Option V, t.eval x = true ∧ c.eval x = true)
    (hdl : ps.currentDecisionLevel < Dim fw) : rank fw ps' < rank fw ps := by
  obtain ⟨hlev, hlow, hcur⟩ := comp_addDerivation fw h hv hr hinc hget hcv hcok hpok hmeet
  apply rank_lt_of fw hdl
  · intro i hi
    unfold digit
    rw [hlev, hlow i hi]
  · unfold digit
    rw [hlev, if_pos (Nat.le_refl _), if_pos (Nat.le_refl _)]
    exact hcur

/-- R2: a decision decreases the measure -/
theorem rank_addDecision {ps ps' : PartialSolution P S V Pr} {debug : Bool} {p : P} {v : V}
    (h : ps.WF) (hr : PartialSolution.addDecision debug ps p v = .ok ps') (hw' : ps'.WF)
    {t : Term S} {pa : PackageAssignments S V} (hpa : ps.getPA p = some pa)
    (ht : pa.inter = .derivations t) (hdl : ps.currentDecisionLevel + 1 < Dim fw) :
    rank fw ps' < rank fw ps := by
  have hlev := PartialSolution.addDecision_level h hr hpa ht
  apply rank_lt_of fw hdl
  · intro i hi
    unfold digit
    rw [hlev, if_pos (by omega), if_pos (by omega)]
    apply comp_congr
    intro q
    rw [PartialSolution.termsAt_addDecision_le h hr hw' hpa ht (by omega)]
  · unfold digit
    rw [hlev, if_pos (Nat.le_refl _), if_neg (by omega)]
    exact comp_lt_Bnd fw ps' _

/-- the terms of the levels that survive a backtrack are unchanged -/
theorem BtStep.termsAt {ps ps' : PartialSolution P S V Pr} {l l' : Nat} (hbt : BtStep ps ps' l')
    (h : ps.WF') (hl : l ≤ l') : ps'.termsAt l = ps.termsAt l := by
  funext q
  unfold PartialSolution.termsAt
  rw [hbt.getPA_eq h.wf q]
  cases hpa : ps.getPA q with
  | none => rfl
  | some pa =>
    simp only [Option.bind_some]
    obtain ⟨i, _, hi⟩ := PartialSolution.getElem_of_getPA hpa
    exact PartialSolution.termAt_btG (h.wf.entries i q pa hi) (h.wfx _ (List.mem_of_getElem? hi)) q hl

/-- R3: a backtrack to a level `L` followed by a derivation whose digits are those of R1 decreases the
measure -/
theorem rank_backtrack_derive {ps psb ps' : PartialSolution P S V Pr} {L : Nat} (h : ps.WF')
    (hbt : BtStep ps psb L) (hL : L ≤ ps.currentDecisionLevel) (hdl : L < Dim fw)
    (hlev : ps'.currentDecisionLevel = psb.currentDecisionLevel)
    (hlow : ∀ i, i < psb.currentDecisionLevel → comp fw ps' i = comp fw psb i)
    (hcur : comp fw ps' psb.currentDecisionLevel < comp fw psb psb.currentDecisionLevel) :
    rank fw ps' < rank fw ps := by
  have hbl := hbt.level
  rw [hbl] at hlev hlow hcur
  have hsame : ∀ i, i ≤ L → comp fw psb i = comp fw ps i := by
    intro i hi
    apply comp_congr
    intro q
    rw [BtStep.termsAt hbt h hi]
  apply rank_lt_of fw hdl
  · intro i hi
    unfold digit
    rw [hlev, if_pos (by omega), if_pos (by omega), hlow i hi, hsame i (by omega)]
  · unfold digit
    rw [hlev, if_pos (Nat.le_refl _), if_pos hL, ← hsame L (Nat.le_refl _)]
    exact hcur

end
end Pubgrub

/-
Helper lemmas for PubgrubProofs/RangeSet.lean: semantics of bounds and segments, sortedness.
-/
import PubgrubProofs.Defs

namespace Pubgrub.Range
open Pubgrub Bound
variable {V : Type} [LinearOrder V]

/-! ### basic membership -/

theorem withinBounds_eq_iff (v : V) (s : Seg V) : (withinBounds v s == .eq) = true ↔ Seg.Mem v s := by
  obtain ⟨a, b⟩ := s
  cases a <;> cases b <;> simp only [withinBounds, Seg.Mem, aboveStart, belowEnd] <;>
    repeat' split <;> simp_all

theorem contains_iff_mem' (r : Range V) (v : V) : contains r v = true ↔ Range.Mem v r := by
  simp only [contains, List.any_eq_true, withinBounds_eq_iff, Range.Mem]

theorem mem_nil (v : V) : Range.Mem v ([] : Range V) ↔ False := by
  simp [Range.Mem]

theorem mem_cons (v : V) (s : Seg V) (t : Range V) :
    Range.Mem v (s :: t) ↔ Seg.Mem v s ∨ Range.Mem v t := by
  simp [Range.Mem]

/-- the first segment of `t` (if any) starts after `e`, with a gap -/
def GapHead (e : Bound V) (t : Range V) : Prop :=
  ∀ x ∈ t.head?, endBeforeStartWithGap e x.1 = true

theorem gapHead_nil (e : Bound V) : GapHead e ([] : Range V) := by simp [GapHead]
theorem gapHead_cons (e : Bound V) (x : Seg V) (t : Range V) :
    GapHead e (x :: t) ↔ endBeforeStartWithGap e x.1 = true := by simp [GapHead]

theorem wf_nil : WF ([] : Range V) := by simp [WF, checkInvariants]

theorem wf_cons (s e : Bound V) (t : Range V) :
    WF ((s, e) :: t) ↔ validSegment s e = true ∧ GapHead e t ∧ WF t := by
  cases t with
  | nil => simp [WF, checkInvariants, GapHead]
  | cons y t => obtain ⟨s', e'⟩ := y; simp [WF, checkInvariants, GapHead, and_assoc]


/-! ### semantics of the bound predicates -/

theorem not_valid {s e : Bound V} (h : validSegment s e = false) (v : V) :
    ¬ (aboveStart v s ∧ belowEnd v e) := by
  cases s <;> cases e <;> simp_all [validSegment, aboveStart, belowEnd] <;> intros <;> order

/-- in a valid segment, a point beyond the end is above the start -/
theorem above_of_not_below {s e : Bound V} (h : validSegment s e = true) (v : V)
    (hv : ¬ belowEnd v e) : aboveStart v s := by
  cases s <;> cases e <;> simp_all [validSegment, aboveStart, belowEnd] <;> order

/-- a point above a start that has a gap after `e` is beyond `e` -/
theorem not_below_of_gap {e s : Bound V} (h : endBeforeStartWithGap e s = true) (v : V)
    (hv : aboveStart v s) : ¬ belowEnd v e := by
  cases s <;> cases e <;> simp_all [endBeforeStartWithGap, aboveStart, belowEnd] <;> order

/-- without a gap, a point beyond `e` is above the start `s` -/
theorem above_of_no_gap {e s : Bound V} (h : endBeforeStartWithGap e s = false) (v : V)
    (hv : ¬ belowEnd v e) : aboveStart v s := by
  cases s <;> cases e <;> simp_all [endBeforeStartWithGap, aboveStart, belowEnd] <;> order

theorem belowEnd_mono {le re : Bound V} (h : leftEndIsSmaller le re = true) (v : V)
    (hv : belowEnd v le) : belowEnd v re := by
  cases le <;> cases re <;> simp_all [leftEndIsSmaller, belowEnd] <;> order

theorem belowEnd_mono' {le re : Bound V} (h : leftEndIsSmaller le re = false) (v : V)
    (hv : belowEnd v re) : belowEnd v le := by
  cases le <;> cases re <;> simp_all [leftEndIsSmaller, belowEnd] <;> order

theorem aboveStart_mono {a b : Bound V} (h : leftStartIsSmaller a b = true) (v : V)
    (hv : aboveStart v b) : aboveStart v a := by
  cases a <;> cases b <;> simp_all [leftStartIsSmaller, aboveStart] <;> order

theorem lss_total {a b : Bound V} (h : leftStartIsSmaller a b = false) :
    leftStartIsSmaller b a = true := by
  cases a <;> cases b <;> simp_all [leftStartIsSmaller] <;> order

theorem lss_refl (a : Bound V) : leftStartIsSmaller a a = true := by
  cases a <;> simp [leftStartIsSmaller]

theorem lss_trans {a b c : Bound V} (h1 : leftStartIsSmaller a b = true)
    (h2 : leftStartIsSmaller b c = true) : leftStartIsSmaller a c = true := by
  cases a <;> cases b <;> cases c <;> simp_all [leftStartIsSmaller] <;> order

/-- starts of consecutive segments are ordered -/
theorem lss_of_valid_gap {s e s' : Bound V} (h1 : validSegment s e = true)
    (h2 : endBeforeStartWithGap e s' = true) : leftStartIsSmaller s s' = true := by
  cases s <;> cases e <;> cases s' <;>
    simp_all [leftStartIsSmaller, validSegment, endBeforeStartWithGap] <;> order

theorem gap_trans {e0 s e s' : Bound V} (h0 : endBeforeStartWithGap e0 s = true)
    (h1 : validSegment s e = true) (h2 : endBeforeStartWithGap e s' = true) :
    endBeforeStartWithGap e0 s' = true := by
  cases e0 <;> cases s <;> cases e <;> cases s' <;>
    simp_all [validSegment, endBeforeStartWithGap] <;> order

/-- sortedness: the points of the tail lie strictly beyond `e` -/
theorem tail_beyond {e : Bound V} {t : Range V} (hg : GapHead e t) (ht : WF t) (v : V)
    (hv : Range.Mem v t) : ¬ belowEnd v e := by
  induction t generalizing e with
  | nil => simp [Range.Mem] at hv
  | cons y t ih =>
    obtain ⟨s', e'⟩ := y
    rw [wf_cons] at ht
    obtain ⟨hval, hg', ht'⟩ := ht
    rw [gapHead_cons] at hg
    rw [mem_cons] at hv
    rcases hv with hv | hv
    · exact not_below_of_gap hg v hv.1
    · have h2 := ih hg' ht' hv
      exact not_below_of_gap hg v (above_of_not_below hval v h2)

end Pubgrub.Range

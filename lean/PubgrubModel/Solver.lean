/-
Model of `resolve` in `/repo/src/solver.rs` as a coroutine over the provider's answers.

`start` issues the first request; `step s a` consumes the provider's answer `a` to the pending request
and runs the solver up to the next provider call.  Besides the four callbacks of `DependencyProvider`
there is one pseudo-request, `pick`: *which* package of maximal priority the priority queue pops is
an input (the heap's tie-breaking is not modelled); the answer is checked to be maximal.
-/
import PubgrubModel.Core

namespace Pubgrub

/-- requests to the provider -/
inductive Request (P S V M Pr E : Type) where
  | shouldCancel
  | prioritize (p : P) (s : S)
  | pick (queue : List (P × Pr))
  | chooseVersion (p : P) (s : S)
  | getDependencies (p : P) (v : V)
  /-- `Ok(solution)` -/
  | solution (sel : List (P × V))
  /-- `Err(NoSolution(tree))` -/
  | noSolution (tree : DerivationTree P S V M)
  | errorInShouldCancel (e : E)
  | errorChoosingPackageVersion (e : E)
  | errorRetrievingDependencies (p : P) (v : V) (e : E)
  /-- `Err(Failure(msg))` -/
  | failure (msg : String)
  /-- a panic of the Rust code, or the model ran out of fuel -/
  | fault (f : Fault)
  /-- the answer does not fit the pending request (a desynchronised replay, not a behaviour of `resolve`);
      `pick` answered with a non-maximal or absent package lands here too -/
  | protocolError (msg : String)

/-- answers of the provider -/
inductive Answer (P S V M Pr E : Type) where
  | ok
  | priority (pr : Pr)
  | picked (p : Option P)
  | version (v : Option V)
  | unavailable (m : M)
  | available (deps : List (P × S))
  | error (e : E)

inductive Phase (P S V Pr : Type) where
  | cancel
  | prioritizing (cur : P × S) (rest : List (P × S)) (acc : List (P × Pr))
  | picking (acc : List (P × Pr))
  | choosing (p : P) (t : Term S)
  | fetching (p : P) (v : V)
  | finished

structure SolverState (P S V M Pr : Type) where
  st : State P S V M Pr
  /-- `added_dependencies` -/
  added : List (P × V)
  next : P
  phase : Phase P S V Pr
  fuel : Nat

namespace Solver
variable {P S V M Pr E : Type} [DecidableEq P] [VersionSet S V] [DecidableEq S] [DecidableEq V]
  [LE Pr] [DecidableLE Pr]

abbrev Req (P S V M Pr E : Type) := Request P S V M Pr E

def finish (s : SolverState P S V M Pr) (r : Req P S V M Pr E) :
    SolverState P S V M Pr × Req P S V M Pr E :=
  ({ s with phase := .finished }, r)

/-- `resolve` up to its first provider call -/
def start (debug : Bool) (fuel : Nat) (root : P) (rv : V) :
    SolverState P S V M Pr × Req P S V M Pr E :=
  ({ st := State.init debug root rv, added := [], next := root, phase := .cancel, fuel := fuel },
   .shouldCancel)

/-- top of the loop: back to `should_cancel` -/
def loopAgain (s : SolverState P S V M Pr) (st : State P S V M Pr) :
    SolverState P S V M Pr × Req P S V M Pr E :=
  ({ s with st := st, phase := .cancel }, .shouldCancel)

def isMaximal (q : List (P × Pr)) (p : P) : Bool :=
  match SmallMap.get q p with
  | none => false
  | some pr => q.all fun kv => decide (kv.2 ≤ pr)

/-- consume one answer -/
def step (s : SolverState P S V M Pr) (a : Answer P S V M Pr E) :
    SolverState P S V M Pr × Req P S V M Pr E :=
  match s.phase, a with
  | .finished, _ => (s, .protocolError "already finished")
  -- should_cancel
  | .cancel, .error e => finish s (.errorInShouldCancel e)
  | .cancel, .ok =>
    match s.st.unitPropagation s.fuel s.next with
    | .error f => finish s (.fault f)
    | .ok (st, some terminal) =>
      match st.buildDerivationTree terminal with
      | .error f => finish { s with st := st } (.fault f)
      | .ok tree => finish { s with st := st } (.noSolution tree)
    | .ok (st, none) =>
      match st.ps.toPrioritize with
      | .error f => finish { s with st := st } (.fault f)
      | .ok [] => ({ s with st := st, phase := .picking [] }, .pick (st.ps.afterPrioritize []).queue)
      | .ok (cur :: rest) =>
        ({ s with st := st, phase := .prioritizing cur rest [] }, .prioritize cur.1 cur.2)
  -- prioritize
  | .prioritizing cur rest acc, .priority pr =>
    let acc := acc ++ [(cur.1, pr)]
    match rest with
    | [] => ({ s with phase := .picking acc }, .pick (s.st.ps.afterPrioritize acc).queue)
    | nxt :: rest' => ({ s with phase := .prioritizing nxt rest' acc }, .prioritize nxt.1 nxt.2)
  -- pop of the priority queue
  | .picking acc, .picked o =>
    let ps := s.st.ps.afterPrioritize acc
    let st := { s.st with ps := ps }
    match o with
    | none =>
      if !ps.queue.isEmpty then finish s (.protocolError "pick: none although the queue is not empty")
      else
        match ps.extractSolution with
        | .error f => finish { s with st := st } (.fault f)
        | .ok sel => finish { s with st := st } (.solution sel)
    | some p =>
      if !isMaximal ps.queue p then finish s (.protocolError "pick: the popped package is not maximal in the queue")
      else
        let st := { st with ps := { ps with queue := SmallMap.remove ps.queue p } }
        let s := { s with st := st, next := p }
        match st.ps.termIntersectionForPackage p with
        | none => finish s (.failure "a package was chosen but we don't have a term.")
        | some t =>
          match Incompat.unwrapPositive t with
          | .error f => finish s (.fault f)
          | .ok set => ({ s with phase := .choosing p t }, .chooseVersion p set)
  -- choose_version
  | .choosing _ _, .error e => finish s (.errorChoosingPackageVersion e)
  | .choosing p t, .version none =>
    match Incompat.noVersions (V := V) (M := M) p t with
    | .error f => finish s (.fault f)
    | .ok inc =>
      match s.st.addIncompatibility inc with
      | .error f => finish s (.fault f)
      | .ok st => loopAgain s st
  | .choosing p t, .version (some v) =>
    if !t.contains v then finish s (.failure "choose_package_version picked an incompatible version")
    else
      let isNew := !s.added.contains (p, v)
      let s := { s with added := if isNew then s.added ++ [(p, v)] else s.added }
      if isNew then ({ s with phase := .fetching p v }, .getDependencies p v)
      else
        match s.st.ps.addDecision s.st.debug p v with
        | .error f => finish s (.fault f)
        | .ok ps => loopAgain s { s.st with ps := ps }
  -- get_dependencies
  | .fetching p v, .error e => finish s (.errorRetrievingDependencies p v e)
  | .fetching p v, .unavailable m =>
    match s.st.addIncompatibility (Incompat.customVersion p v m) with
    | .error f => finish s (.fault f)
    | .ok st => loopAgain s st
  | .fetching p v, .available deps =>
    match s.st.addIncompatibilityFromDependencies p v deps with
    | .error f => finish s (.fault f)
    | .ok (st, start, stop) =>
      let news := (st.store.drop start).take (stop - start)
      match st.ps.addVersion st.debug p v news with
      | .error f => finish { s with st := st } (.fault f)
      | .ok ps => loopAgain s { st with ps := ps }
  | _, _ => finish s (.protocolError "answer does not fit the pending request")

end Solver
end Pubgrub

/-
Helpers for `Termination.lean`, part 8: the functions that contain no fuelled loop never return
`outOfFuel` (a syntactic check), and the predicate transformer `Fueled` used for the fuelled ones.
-/
import PubgrubProofs.TerminationAux7

set_option linter.unusedSectionVars false
set_option linter.unusedVariables false

namespace Pubgrub
open VersionSet

/-- the computation does not run out of fuel -/
def NoOOF {α : Type} (r : R α) : Prop :=
  match r with
  | .error .outOfFuel => False
  | _ => True

namespace NoOOF
variable {α β : Type}

theorem ok {a : α} : NoOOF (.ok a : R α) := trivial
theorem pure' {a : α} : NoOOF (pure a : R α) := trivial
theorem panic {s : String} : NoOOF (.error (.panic s) : R α) := trivial
theorem throw' {s : String} : NoOOF (throw (.panic s) : R α) := trivial

theorem ne {x : R α} (h : NoOOF x) : x ≠ .error .outOfFuel := by
  intro e; subst e; exact h

theorem of_ne {x : R α} (h : x ≠ .error .outOfFuel) : NoOOF x := by
  cases x with
  | ok a => trivial
  | error e =>
    cases e with
    | panic s => trivial
    | outOfFuel => exact h rfl

theorem unwrapOr {o : Option α} {site : String} : NoOOF (Pubgrub.unwrapOr o site) := by
  cases o <;> trivial

theorem storeGet {store : List α} {id : Nat} : NoOOF (Pubgrub.storeGet store id) := unwrapOr

theorem bind {x : R α} {f : α → R β} (hx : NoOOF x) (hf : ∀ a, NoOOF (f a)) : NoOOF (x >>= f) := by
  cases x with
  | ok a => exact hf a
  | error e =>
    cases e with
    | panic s => trivial
    | outOfFuel => exact hx

theorem error_of_eq {x : R α} {e : Fault} (h : x = .error e) (hx : NoOOF x) : NoOOF (.error e : R β) := by
  subst h
  cases e with
  | panic s => trivial
  | outOfFuel => exact hx

theorem of_ok {x : R α} {a : α} (h : x = .ok a) : NoOOF x := by
  subst h; exact ok

end NoOOF

/-- one step of the syntactic check -/
macro "nooof_step" : tactic =>
  `(tactic| first
    | exact NoOOF.ok
    | exact NoOOF.pure'
    | exact NoOOF.panic
    | exact NoOOF.throw'
    | exact NoOOF.unwrapOr
    | exact NoOOF.storeGet
    | assumption
    | (refine NoOOF.bind ?_ (fun _ => ?_))
    | (refine NoOOF.error_of_eq (by assumption) ?_)
    | split
    | (intro _)
    | (dsimp only))

section
variable {P S V M Pr : Type} [DecidableEq P] [VersionSet S V] [DecidableEq S]

theorem Incompat.unwrapPositive_nooof (t : Term S) : NoOOF (Incompat.unwrapPositive t) := by
  unfold Incompat.unwrapPositive; repeat' nooof_step

theorem Incompat.unwrapNegative_nooof (t : Term S) : NoOOF (Incompat.unwrapNegative t) := by
  unfold Incompat.unwrapNegative; repeat' nooof_step

theorem Incompat.noVersions_nooof (p : P) (t : Term S) :
    NoOOF (Incompat.noVersions (V := V) (M := M) p t) := by
  unfold Incompat.noVersions; repeat' nooof_step

theorem Incompat.mergeDependents_nooof (a b : Incompat P S V M) : NoOOF (a.mergeDependents b) := by
  unfold Incompat.mergeDependents
  repeat' first | nooof_step | exact Incompat.unwrapPositive_nooof _ | exact Incompat.unwrapNegative_nooof _

theorem Incompat.priorCause_nooof (id1 id2 : Nat) (a b : Incompat P S V M) (p : P) :
    NoOOF (Incompat.priorCause id1 id2 a b p) := by
  unfold Incompat.priorCause; repeat' nooof_step

theorem foldlM_nooof {α β : Type} (f : β → α → R β) (hf : ∀ b a, NoOOF (f b a)) :
    ∀ (l : List α) (b : β), NoOOF (l.foldlM (m := R) f b) := by
  intro l
  induction l with
  | nil => intro b; exact NoOOF.ok
  | cons a l ih =>
    intro b
    rw [List.foldlM_cons]
    exact NoOOF.bind (hf b a) (fun b' => ih b')

theorem mapM_nooof {α β : Type} (f : α → R β) (hf : ∀ a, NoOOF (f a)) :
    ∀ (l : List α), NoOOF (l.mapM (m := R) f) := by
  intro l
  induction l with
  | nil => exact NoOOF.ok
  | cons a l ih =>
    rw [List.mapM_cons]
    refine NoOOF.bind (hf a) (fun b => NoOOF.bind ih (fun _ => NoOOF.ok))

namespace State

theorem findMerge_nooof (store : List (Incompat P S V M)) (inc : Incompat P S V M) :
    ∀ ids : List Nat, NoOOF (findMerge store inc ids) := by
  intro ids
  induction ids with
  | nil => unfold findMerge; exact NoOOF.ok
  | cons a rest ih =>
    unfold findMerge
    repeat' first | nooof_step | exact Incompat.mergeDependents_nooof _ _

theorem mergeIncompatibility_nooof (st : State P S V M Pr) (id : Nat) :
    NoOOF (mergeIncompatibility st id) := by
  unfold mergeIncompatibility
  repeat' first | nooof_step | exact findMerge_nooof _ _ _

theorem addIncompatibility_nooof (st : State P S V M Pr) (inc : Incompat P S V M) :
    NoOOF (addIncompatibility st inc) := by
  unfold addIncompatibility
  exact mergeIncompatibility_nooof _ _

theorem addIncompatibilityFromDependencies_nooof (st : State P S V M Pr) (p : P) (v : V)
    (deps : List (P × S)) : NoOOF (addIncompatibilityFromDependencies st p v deps) := by
  unfold addIncompatibilityFromDependencies
  refine NoOOF.bind (foldlM_nooof _ (fun st id => mergeIncompatibility_nooof st id) _ _) ?_
  intro _; exact NoOOF.ok

end State

namespace PartialSolution

theorem swapIndices_nooof {α : Type} (l : List α) (i j : Nat) : NoOOF (swapIndices l i j) := by
  unfold swapIndices; repeat' nooof_step

theorem addDecision_nooof (debug : Bool) (ps : PartialSolution P S V Pr) (p : P) (v : V) :
    NoOOF (addDecision debug ps p v) := by
  unfold addDecision
  repeat' first | nooof_step | exact swapIndices_nooof _ _ _

theorem addVersion_nooof (debug : Bool) (ps : PartialSolution P S V Pr) (p : P) (v : V)
    (news : List (Incompat P S V M)) : NoOOF (addVersion debug ps p v news) := by
  unfold addVersion
  repeat' first | nooof_step | exact addDecision_nooof _ _ _ _

theorem toPrioritize_nooof (ps : PartialSolution P S V Pr) : NoOOF ps.toPrioritize := by
  unfold toPrioritize; repeat' nooof_step

theorem extractSolution_nooof (ps : PartialSolution P S V Pr) : NoOOF ps.extractSolution := by
  unfold extractSolution
  refine mapM_nooof _ ?_ _
  intro ⟨p, pa⟩
  repeat' nooof_step

theorem addDerivation_nooof (ps : PartialSolution P S V Pr) (p : P) (cause : Nat)
    (store : List (Incompat P S V M)) : NoOOF (ps.addDerivation p cause store) := by
  unfold addDerivation
  repeat' nooof_step

theorem satisfier_nooof (pa : PackageAssignments S V) (start : Term S) : NoOOF (satisfier pa start) := by
  unfold satisfier; repeat' nooof_step

theorem findSatisfier_nooof (ps : PartialSolution P S V Pr) (terms : List (P × Term S)) :
    NoOOF (ps.findSatisfier terms) := by
  unfold findSatisfier
  refine foldlM_nooof _ ?_ _ _
  intro acc pt
  repeat' first | nooof_step | exact satisfier_nooof _ _

theorem findPreviousSatisfier_nooof (ps : PartialSolution P S V Pr) (inc : Incompat P S V M) (sp : P)
    (m : SmallMap P (Option Nat × Nat × Nat)) (store : List (Incompat P S V M)) :
    NoOOF (ps.findPreviousSatisfier inc sp m store) := by
  unfold findPreviousSatisfier
  repeat' first | nooof_step | exact satisfier_nooof _ _

theorem satisfierSearch_nooof (ps : PartialSolution P S V Pr) (inc : Incompat P S V M)
    (store : List (Incompat P S V M)) : NoOOF (ps.satisfierSearch inc store) := by
  unfold satisfierSearch
  repeat' first | nooof_step | exact findSatisfier_nooof _ _ | exact findPreviousSatisfier_nooof _ _ _ _ _ | exact satisfier_nooof _ _

end PartialSolution
end

section
variable {P S V M Pr : Type} [DecidableEq P] [VersionSet S V] [DecidableEq S] [DecidableEq V]
  [LawfulVersionSet S V]

theorem State.backtrack_nooof {st : State P S V M Pr} (hw : st.ps.WF') (cur : Nat) (changed : Bool) (dl : Nat) :
    NoOOF (st.backtrack cur changed dl) := by
  unfold State.backtrack
  obtain ⟨ps', hps'⟩ := PartialSolution.backtrack_ok hw dl
  refine NoOOF.bind (NoOOF.of_ok hps') ?_
  intro ps
  dsimp only
  split
  · exact State.mergeIncompatibility_nooof _ _
  · exact NoOOF.pure'

theorem State.propagateIncompats_nooof : ∀ (ids : List Nat) (st : State P S V M Pr),
    NoOOF (State.propagateIncompats st ids) := by
  intro ids
  induction ids with
  | nil => intro st; unfold State.propagateIncompats; exact NoOOF.ok
  | cons id rest ih =>
    intro st
    unfold State.propagateIncompats
    repeat' first
      | exact ih _
      | exact NoOOF.ok
      | (refine NoOOF.error_of_eq (by assumption) ?_; first | exact NoOOF.storeGet | exact PartialSolution.addDerivation_nooof _ _ _ _)
      | split

end

/-! ### the fuelled computations -/

/-- the computation did not run out of fuel, and its result satisfies `Q` (panics are not excluded
here: `no_panic` takes care of them) -/
def Fueled {α : Type} (r : R α) (Q : α → Prop) : Prop :=
  match r with
  | .ok a => Q a
  | .error .outOfFuel => False
  | .error (.panic _) => True

namespace Fueled
variable {α β : Type}

theorem ok {a : α} {Q : α → Prop} (h : Q a) : Fueled (.ok a) Q := h
theorem panic {s : String} {Q : α → Prop} : Fueled (.error (.panic s) : R α) Q := trivial

theorem of_ok {r : R α} {Q : α → Prop} (h : Fueled r Q) {a : α} (hr : r = .ok a) : Q a := by
  subst hr; exact h

theorem nooof {r : R α} {Q : α → Prop} (h : Fueled r Q) : NoOOF r := by
  cases r with
  | ok a => trivial
  | error e =>
    cases e with
    | panic s => trivial
    | outOfFuel => exact h

theorem intro {r : R α} {Q : α → Prop} (h1 : NoOOF r) (h2 : ∀ a, r = .ok a → Q a) : Fueled r Q := by
  cases r with
  | ok a => exact h2 a rfl
  | error e =>
    cases e with
    | panic s => trivial
    | outOfFuel => exact h1

theorem mono {r : R α} {Q Q' : α → Prop} (h : Fueled r Q) (hq : ∀ a, r = .ok a → Q a → Q' a) :
    Fueled r Q' := by
  cases r with
  | ok a => exact hq a rfl h
  | error e =>
    cases e with
    | panic s => trivial
    | outOfFuel => exact h

theorem bind {x : R α} {f : α → R β} {Q : α → Prop} {Q' : β → Prop} (hx : Fueled x Q)
    (hf : ∀ a, x = .ok a → Q a → Fueled (f a) Q') : Fueled (x >>= f) Q' := by
  cases x with
  | ok a => exact hf a rfl hx
  | error e =>
    cases e with
    | panic s => trivial
    | outOfFuel => exact hx

theorem bind_ok {x : R α} {f : α → R β} {Q' : β → Prop} {a : α} (hx : x = .ok a)
    (hf : Fueled (f a) Q') : Fueled (x >>= f) Q' := by
  subst hx; exact hf

/-- an error of a computation that does not run out of fuel -/
theorem error_of_eq {x : R α} {e : Fault} {Q : β → Prop} (h : x = .error e) (hx : NoOOF x) :
    Fueled (.error e : R β) Q := by
  subst h
  cases e with
  | panic s => trivial
  | outOfFuel => exact hx

end Fueled

end Pubgrub

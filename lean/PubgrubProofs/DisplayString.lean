/-
TARGET FILE: PubgrubProofs/DisplayString.lean
Property C15, Display clause at the level of the STRING: "distinct sets print differently".
Proved so far (PubgrubProofs/DisplayLaws.lean): `Range.display showV r = renderAtoms showV (displayAtoms r)`
(`display_eq_render`), the structured text denotes exactly the set (`display_denotes`) and determines
the range (`displayAtoms_injective'`).  Missing: the rendering `renderAtoms showV` is injective, i.e. the
text can be read back unambiguously — provided the version printer `showV` is injective and never
produces an empty string or one of the characters the range syntax uses: ' ' ',' '|' '<' '>' '=' '*' '∅'.
(For `u32` and `SemanticVersion` the printer produces digits and dots only.)
Suggested route: work on `List Char` (`String.toList`, `String.toList_append`, `String.ofList`); show
(a) `Atom.render` is injective on atoms and its text contains no ' ', ',', '|' and is non-empty [the sign
prefix `>=`, `>`, `<=`, `<`, none, `*` is determined by the first one or two characters because a version
text contains none of `<`, `>`, `=`, `*`]; (b) joining non-empty, separator-free pieces with ", " is
injective (split at the first ','), likewise " | " (split at the first '|'); (c) "∅" is not the
rendering of a non-empty structure (its first character is not a sign, '*' or a version character —
here you need that version texts do not contain '∅'), and a non-empty structure never has an empty
segment (`segAtoms` always gives 1 or 2 atoms).
If the full statement resists, prove the pieces you can and state the final theorem under the extra
named hypotheses you need as `display_injective_string_partial`, and report.
STATUS: all three targets proved in full (no extra hypotheses).  Route: `String.toList_intercalate` turns the
text into `List.intercalate` on `List Char`; PubgrubProofs/DisplayStringAux1.lean proves that joining `c`-free
pieces with a separator containing `c` is injective (split at the first `c`); here: atom texts are injective,
non-empty and free of ' ' ',' '|' '∅'; hence `renderAtoms showV` is injective (`renderAtoms_injective`, on ALL
structures, not only those of ranges).
-/
import PubgrubProofs.DisplayLaws
import PubgrubProofs.DisplayStringAux1

namespace Pubgrub
open VersionSet

variable {V : Type} [DecidableEq V]

/-- the characters of the range syntax -/
def Range.syntaxChars : List Char := [' ', ',', '|', '<', '>', '=', '*', '∅']

/-- a version printer the range syntax can be read back through: injective, never empty, never a
character of the range syntax -/
structure CleanPrinter (showV : V → String) : Prop where
  inj : ∀ a b, showV a = showV b → a = b
  nonempty : ∀ v, (showV v).toList ≠ []
  clean : ∀ v c, c ∈ (showV v).toList → c ∉ Range.syntaxChars

namespace DisplayStringAux
open Range

/-- the characters of one atom, given the characters of the versions -/
def atomChars (sv : V → List Char) : Atom V → List Char
  | .ge v => '>' :: '=' :: sv v
  | .gt v => '>' :: sv v
  | .le v => '<' :: '=' :: sv v
  | .lt v => '<' :: sv v
  | .eq v => sv v
  | .star => ['*']

omit [DecidableEq V] in
theorem toList_render (showV : V → String) (a : Atom V) :
    (Atom.render showV a).toList = atomChars (fun v => (showV v).toList) a := by
  cases a <;> simp [Atom.render, atomChars]

/-- a version printer at the level of character lists -/
structure CleanChars (sv : V → List Char) : Prop where
  inj : ∀ a b, sv a = sv b → a = b
  nonempty : ∀ v, sv v ≠ []
  clean : ∀ v c, c ∈ sv v → c ∉ Range.syntaxChars

omit [DecidableEq V] in
theorem CleanChars.head {sv : V → List Char} (hp : CleanChars sv) {v : V} {c : Char} {r : List Char}
    (h : sv v = c :: r) : c ∉ Range.syntaxChars :=
  hp.clean v c (h ▸ List.mem_cons_self)

omit [DecidableEq V] in
theorem atomChars_inj {sv : V → List Char} (hp : CleanChars sv) (a b : Atom V)
    (h : atomChars sv a = atomChars sv b) : a = b := by
  cases a <;> cases b <;> simp only [atomChars, List.cons.injEq, true_and] at h
  all_goals first
    | rfl
    | exact congrArg _ (hp.inj _ _ h)
    | exact absurd (hp.head h) (by decide)
    | exact absurd (hp.head h.symm) (by decide)
    | exact absurd h.1 (by decide)


omit [DecidableEq V] in
/-- the text of an atom contains no separator character and no '∅' -/
theorem atomChars_not_mem {sv : V → List Char} (hp : CleanChars sv) (a : Atom V) (c : Char)
    (hc : c = ' ' ∨ c = ',' ∨ c = '|' ∨ c = '∅') : c ∉ atomChars sv a := by
  intro h
  have key : ∀ v, c ∉ sv v := fun v hv =>
    hp.clean v c hv (by rcases hc with rfl | rfl | rfl | rfl <;> decide)
  cases a <;> simp only [atomChars, List.mem_cons, List.not_mem_nil, or_false] at h
  all_goals rcases hc with rfl | rfl | rfl | rfl <;> simp [key] at h

omit [DecidableEq V] in
theorem atomChars_ne_nil {sv : V → List Char} (hp : CleanChars sv) (a : Atom V) :
    atomChars sv a ≠ [] := by
  cases a <;> simp [atomChars, hp.nonempty]

/-- the characters of one segment: atoms joined by ", " -/
def segChars (sv : V → List Char) (atoms : List (Atom V)) : List Char :=
  [',', ' '].intercalate (atoms.map (atomChars sv))

/-- the characters of a non-empty structure: segments joined by " | " -/
def textChars (sv : V → List Char) (segs : List (List (Atom V))) : List Char :=
  [' ', '|', ' '].intercalate (segs.map (segChars sv))

omit [DecidableEq V] in
theorem segChars_not_mem {sv : V → List Char} (hp : CleanChars sv) (atoms : List (Atom V)) (c : Char)
    (hc : c = '|' ∨ c = '∅') : c ∉ segChars sv atoms := by
  intro h
  rcases mem_intercalate _ h with h | ⟨x, hx, hcx⟩
  · rcases hc with rfl | rfl <;> simp at h
  · obtain ⟨a, _, rfl⟩ := List.mem_map.1 hx
    exact atomChars_not_mem hp a c (by rcases hc with rfl | rfl <;> simp) hcx

omit [DecidableEq V] in
theorem textChars_not_mem {sv : V → List Char} (hp : CleanChars sv) (segs : List (List (Atom V))) :
    '∅' ∉ textChars sv segs := by
  intro h
  rcases mem_intercalate _ h with h | ⟨x, hx, hcx⟩
  · simp at h
  · obtain ⟨a, _, rfl⟩ := List.mem_map.1 hx
    exact segChars_not_mem hp a _ (Or.inr rfl) hcx

omit [DecidableEq V] in
/-- (b) joining atoms with ", " can be read back: split at the first ',' -/
theorem segChars_injective {sv : V → List Char} (hp : CleanChars sv) :
    Function.Injective (segChars sv) := by
  intro l1 l2 h
  have hpiece : ∀ (l : List (Atom V)), ∀ x ∈ l.map (atomChars sv), ',' ∉ x ∧ x ≠ [] := by
    intro l x hx
    obtain ⟨a, _, rfl⟩ := List.mem_map.1 hx
    exact ⟨atomChars_not_mem hp a _ (Or.inr (Or.inl rfl)), atomChars_ne_nil hp a⟩
  have := intercalate_inj (c := ',') (pre := []) (post := [' ']) (by simp) _ _
    (hpiece l1) (hpiece l2) h
  exact (List.map_inj_right fun a b hab => atomChars_inj hp a b hab).1 this

omit [DecidableEq V] in
/-- (b) joining segments with " | " can be read back: split at the first '|' -/
theorem textChars_inj_cons {sv : V → List Char} (hp : CleanChars sv) (x1 x2 : List (Atom V))
    (t1 t2 : List (List (Atom V))) (h : textChars sv (x1 :: t1) = textChars sv (x2 :: t2)) :
    x1 :: t1 = x2 :: t2 := by
  have hpiece : ∀ (l : List (List (Atom V))), ∀ x ∈ l.map (segChars sv), '|' ∉ x := by
    intro l x hx
    obtain ⟨a, _, rfl⟩ := List.mem_map.1 hx
    exact segChars_not_mem hp a _ (Or.inl rfl)
  have := intercalate_inj_cons (c := '|') (pre := [' ']) (post := [' ']) (by simp)
    (t1.map (segChars sv)) (segChars sv x1) (segChars sv x2) (t2.map (segChars sv))
    (hpiece (x1 :: t1)) (hpiece (x2 :: t2)) h
  exact (List.map_inj_right fun a b hab => segChars_injective hp hab).1 this

/-- string-literal facts -/
theorem lit_empty_toList : "∅".toList = ['∅'] := by simp
theorem lit_comma_toList : ", ".toList = [',', ' '] := by simp
theorem lit_bar_toList : " | ".toList = [' ', '|', ' '] := by simp

omit [DecidableEq V] in
/-- the characters of one rendered segment -/
theorem toList_renderSeg (showV : V → String) (atoms : List (Atom V)) :
    (", ".intercalate (atoms.map (Atom.render showV))).toList =
      segChars (fun v => (showV v).toList) atoms := by
  rw [String.toList_intercalate, lit_comma_toList, List.map_map, segChars]
  congr 1
  apply List.map_congr_left
  intro a _
  exact toList_render showV a

omit [DecidableEq V] in
theorem renderAtoms_nil (showV : V → String) : renderAtoms showV [] = "∅" := rfl

omit [DecidableEq V] in
/-- the characters of the rendered structure -/
theorem toList_renderAtoms (showV : V → String) (segs : List (List (Atom V))) :
    (renderAtoms showV segs).toList =
      match segs with
      | [] => ['∅']
      | _ => textChars (fun v => (showV v).toList) segs := by
  cases segs with
  | nil => rw [renderAtoms_nil, lit_empty_toList]
  | cons x t =>
    simp only [renderAtoms]
    rw [String.toList_intercalate, lit_bar_toList, List.map_map, textChars]
    congr 1
    apply List.map_congr_left
    intro atoms _
    exact toList_renderSeg showV atoms

omit [DecidableEq V] in
theorem cleanChars_of_printer {showV : V → String} (hp : CleanPrinter showV) :
    CleanChars (fun v => (showV v).toList) where
  inj a b h := hp.inj a b (String.toList_inj.1 h)
  nonempty := hp.nonempty
  clean := hp.clean

omit [DecidableEq V] in
/-- the rendering of the structured text is injective for a clean version printer -/
theorem renderAtoms_injective {showV : V → String} (hp : CleanPrinter showV) :
    Function.Injective (renderAtoms showV) := by
  intro s1 s2 h
  have hc := cleanChars_of_printer hp
  have h' := congrArg String.toList h
  rw [toList_renderAtoms, toList_renderAtoms] at h'
  cases s1 with
  | nil =>
    cases s2 with
    | nil => rfl
    | cons x2 t2 =>
      exfalso
      apply textChars_not_mem hc (x2 :: t2)
      simp only at h'
      rw [← h']; simp
  | cons x1 t1 =>
    cases s2 with
    | nil =>
      exfalso
      apply textChars_not_mem hc (x1 :: t1)
      simp only at h'
      rw [h']; simp
    | cons x2 t2 => exact textChars_inj_cons hc x1 x2 t1 t2 h'

/-- the model's Display string is the rendering of the structure (`display_eq_render` without the unused
order instances) -/
theorem display_eq_render' (showV : V → String) (r : Range V) :
    Range.display showV r = renderAtoms showV (displayAtoms r) := by
  cases r with
  | nil => rfl
  | cons s t =>
    simp only [display, renderAtoms, displayAtoms, List.map_cons, List.map_map]
    congr 1
    simp only [List.cons.injEq, displaySeg_eq_render, true_and]
    apply List.map_congr_left
    intro a _
    simp only [Function.comp, displaySeg_eq_render]

/-- the atoms of a segment determine the segment (`segAtoms_injective` with decidable equality only) -/
theorem segAtoms_injective' : Function.Injective (segAtoms : Seg V → List (Atom V)) := by
  rintro ⟨s1, e1⟩ ⟨s2, e2⟩ h
  cases s1 <;> cases e1 <;> cases s2 <;> cases e2 <;>
    simp only [segAtoms] at h <;>
    (try split at h) <;> (try split at h) <;>
    simp_all

end DisplayStringAux

open DisplayStringAux in
/-- C15: the Display text determines the range — distinct ranges, a fortiori distinct sets, print
differently (any segment lists, any linear order is not even needed) -/
theorem display_injective_string (showV : V → String) (hp : CleanPrinter showV) (a b : Range V)
    (h : Range.display showV a = Range.display showV b) : a = b := by
  rw [display_eq_render', display_eq_render'] at h
  have := renderAtoms_injective hp h
  exact (List.map_inj_right fun _ _ hxy => segAtoms_injective' hxy).1 this

/-- distinct sets print differently -/
theorem distinct_sets_display_differently (showV : V → String) (hp : CleanPrinter showV) (a b : Range V)
    [LT V] [LE V] [DecidableLT V] [DecidableLE V]
    (hne : ∃ x, Range.contains a x ≠ Range.contains b x) :
    Range.display showV a ≠ Range.display showV b := by
  intro h
  obtain ⟨x, hx⟩ := hne
  exact hx (by rw [display_injective_string showV hp a b h])

/-- the decimal printer of natural numbers (the stand-in for `u32`) is clean -/
theorem cleanPrinter_nat : CleanPrinter (fun n : Nat => toString n) where
  inj a b h := by
    have h' := congrArg String.toList h
    simp only [Nat.toString_eq_repr, Nat.toList_repr] at h'
    have := congrArg (fun l => Nat.ofDigitChars 10 l 0) h'
    simpa only [Nat.ofDigitChars_ten_toDigits] using this
  nonempty v := by
    simp only [Nat.toString_eq_repr, Nat.toList_repr]
    exact Nat.toDigits_ne_nil
  clean v c hc := by
    simp only [Nat.toString_eq_repr, Nat.toList_repr] at hc
    have hd := Nat.isDigit_of_mem_toDigits (by decide) (by decide) hc
    intro hm
    simp only [Range.syntaxChars, List.mem_cons, List.not_mem_nil, or_false] at hm
    rcases hm with rfl | rfl | rfl | rfl | rfl | rfl | rfl | rfl <;> exact absurd hd (by decide)

end Pubgrub

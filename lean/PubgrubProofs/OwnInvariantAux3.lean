/-
Helpers for `OwnInvariant.lean`, part 3: the semantic state invariants (`State.OwnSemG`: owned
clauses of decided packages are excluded at every level from the decision level up, with a set of
waived obligations; `State.CacheSem`; `State.RootC`), the generic transport lemma for changes of the
partial solution, and its instances (cache insertion, derivation, decision, backtrack).
-/
import PubgrubProofs.OwnInvariantAux2

set_option linter.unusedSectionVars false
set_option linter.unusedVariables false

namespace Pubgrub
open VersionSet

section Defs
variable {P S V M Pr : Type} [DecidableEq P] [VersionSet S V] [DecidableEq S]

/-- Inv-Own, semantic form, with waived obligations: for every decided package `p` and every level `l`
from its decision level up, every indexed incompatibility owned by `p` is excluded (`SContra`) by the
terms of level `l`; at the current level the obligations `(p, id)` with `waive p id` are waived -/
def State.OwnSemG (st : State P S V M Pr) (waive : P → Nat → Prop) : Prop :=
  ∀ (p : P) (pa : PackageAssignments S V) (g : Nat) (v : V) (t : Term S),
    st.ps.getPA p = some pa → pa.inter = .decision g v t →
    ∀ l, pa.highest ≤ l → l ≤ st.ps.currentDecisionLevel →
    ∀ id ∈ st.indexOf p, ∀ inc : Incompat P S V M, st.store[id]? = some inc → inc.OwnedBy p →
      (l = st.ps.currentDecisionLevel → ¬ waive p id) → inc.SContra (st.ps.termsAt l)

/-- the cache, semantic form: a cached `(id, l0)` is excluded by the terms of every level from `l0` up -/
def State.CacheSem (st : State P S V M Pr) : Prop :=
  ∀ (id l0 : Nat), (id, l0) ∈ st.contradicted → l0 ≤ st.ps.currentDecisionLevel ∧
    ∀ inc : Incompat P S V M, st.store[id]? = some inc →
      ∀ l, l0 ≤ l → l ≤ st.ps.currentDecisionLevel → inc.SContra (st.ps.termsAt l)

/-- the `notRoot` incompatibility is excluded at every level: the root package carries a positive
term inside `{root version}` from level 0 on -/
def State.RootC (st : State P S V M Pr) (root : P) (rv : V) : Prop :=
  st.store[0]? = some (Incompat.notRoot root rv) ∧
  ∀ l, l ≤ st.ps.currentDecisionLevel →
    (Incompat.notRoot root rv : Incompat P S V M).SContra (st.ps.termsAt l)

/-- the index only mentions stored incompatibilities -/
def State.IdxBound (st : State P S V M Pr) : Prop :=
  ∀ p id, id ∈ st.indexOf p → id < st.store.length

def noWaive : P → Nat → Prop := fun _ _ => False

end Defs

section Lawful
variable {P S V M Pr : Type} [DecidableEq P] [VersionSet S V] [DecidableEq S] [LawfulVersionSet S V]

/-- the bundle carried through the functions of `Core` -/
structure Sem (W : World P S V M) (root : P) (rv : V) (st : State P S V M Pr)
    (waive : P → Nat → Prop) : Prop where
  sinv : SInv W root rv st
  pinv : PInv st
  own : st.OwnSemG waive
  cache : st.CacheSem
  rootc : st.RootC root rv
  idxb : st.IdxBound

/-- generic transport of the bundle along a change of the partial solution / cache / buffer that
leaves the store and the index alone -/
theorem Sem.transport (W : World P S V M) (root : P) (rv : V) {st st' : State P S V M Pr}
    {waive waive' : P → Nat → Prop} (h : Sem W root rv st waive)
    (hstore : st'.store = st.store) (hidx : st'.incompatibilities = st.incompatibilities)
    (hroot : st'.rootPackage = st.rootPackage) (hrv : st'.rootVersion = st.rootVersion)
    (hvalid : st'.ps.TermsValid) (hpinv : PInv st')
    (H : ∀ l, l ≤ st'.ps.currentDecisionLevel →
      TermsLE (st'.ps.termsAt l) (st.ps.termsAt (min l st.ps.currentDecisionLevel)))
    (Hown : ∀ (p : P) (pa' : PackageAssignments S V) (g : Nat) (v : V) (t : Term S),
      st'.ps.getPA p = some pa' → pa'.inter = .decision g v t →
      ∀ l, pa'.highest ≤ l → l ≤ st'.ps.currentDecisionLevel →
      ∀ id ∈ st.indexOf p, ∀ inc : Incompat P S V M, st.store[id]? = some inc → inc.OwnedBy p →
      (l = st'.ps.currentDecisionLevel → ¬ waive' p id) →
        (∃ pa g0 v0 t0, st.ps.getPA p = some pa ∧ pa.inter = .decision g0 v0 t0 ∧
          pa.highest ≤ min l st.ps.currentDecisionLevel ∧
          (min l st.ps.currentDecisionLevel = st.ps.currentDecisionLevel → ¬ waive p id)) ∨
        inc.SContra (st'.ps.termsAt l))
    (Hcache : ∀ id l0, (id, l0) ∈ st'.contradicted → l0 ≤ st'.ps.currentDecisionLevel ∧
      ((id, l0) ∈ st.contradicted ∨
        ∀ inc : Incompat P S V M, st.store[id]? = some inc →
          ∀ l, l0 ≤ l → l ≤ st'.ps.currentDecisionLevel → inc.SContra (st'.ps.termsAt l))) :
    Sem W root rv st' waive' := by
  refine ⟨⟨hstore ▸ h.sinv.store, hroot ▸ h.sinv.root, hrv ▸ h.sinv.rv, hvalid⟩, hpinv, ?_, ?_, ?_, ?_⟩
  · intro p pa' g v t hpa' hd l hl1 hl2 id hid inc hinc hown hw
    have hid' : id ∈ st.indexOf p := by
      unfold State.indexOf at hid ⊢; rw [hidx] at hid; exact hid
    rw [hstore] at hinc
    rcases Hown p pa' g v t hpa' hd l hl1 hl2 id hid' inc hinc hown hw with
      ⟨pa, g0, v0, t0, e1, e2, e3, e4⟩ | hc
    · exact (h.own p pa g0 v0 t0 e1 e2 _ e3 (Nat.min_le_right _ _) id hid' inc hinc hown e4).mono
        (H l hl2)
    · exact hc
  · intro id l0 hm
    obtain ⟨hl0, hc⟩ := Hcache id l0 hm
    refine ⟨hl0, ?_⟩
    intro inc hinc l hl1 hl2
    rw [hstore] at hinc
    rcases hc with hc | hc
    · obtain ⟨hl0', hcs⟩ := h.cache id l0 hc
      exact (hcs inc hinc _ (Nat.le_min.2 ⟨hl1, hl0'⟩) (Nat.min_le_right _ _)).mono (H l hl2)
    · exact hc inc hinc l hl1 hl2
  · refine ⟨hstore ▸ h.rootc.1, ?_⟩
    intro l hl
    exact (h.rootc.2 _ (Nat.min_le_right _ _)).mono (H l hl)
  · intro p id hid
    rw [hstore]
    apply h.idxb p id
    unfold State.indexOf at hid ⊢; rw [hidx] at hid; exact hid

/-- weakening the waiver / forgetting nothing else -/
theorem Sem.reWaive (W : World P S V M) (root : P) (rv : V) {st : State P S V M Pr}
    {waive waive' : P → Nat → Prop} (h : Sem W root rv st waive)
    (hw : ∀ p id, id ∈ st.indexOf p → waive p id → waive' p id) : Sem W root rv st waive' :=
  ⟨h.sinv, h.pinv, fun p pa g v t e1 e2 l l1 l2 id hid inc hinc ho hw' =>
    h.own p pa g v t e1 e2 l l1 l2 id hid inc hinc ho (fun e hwv => hw' e (hw p id hid hwv)),
    h.cache, h.rootc, h.idxb⟩

/-- the buffer is irrelevant -/
theorem Sem.setBuffer (W : World P S V M) (root : P) (rv : V) {st : State P S V M Pr}
    {waive : P → Nat → Prop} (h : Sem W root rv st waive) (b : List P) :
    Sem W root rv { st with buffer := b } waive :=
  ⟨⟨h.sinv.store, h.sinv.root, h.sinv.rv, h.sinv.ps⟩, ⟨h.pinv.wf, h.pinv.cache⟩, h.own, h.cache, h.rootc,
    h.idxb⟩

theorem min_eq_of_le' {a b : Nat} (h : a ≤ b) : min a b = a := Nat.min_eq_left h

/-- the terms kept by a valid partial solution are valid, level by level -/
theorem PartialSolution.terms_valid {ps : PartialSolution P S V Pr} (h : ps.TermsValid) :
    ∀ p o, ps.terms p = some o → o.Valid :=
  fun p o ho => PartialSolution.termIntersection_valid h ho

/-! ### the outcomes of an examination -/

/-- insertion of `(id, current level)` into the cache when `id` is excluded at the current level;
the pending obligation for `id` is discharged -/
theorem Sem.cacheInsert (W : World P S V M) (root : P) (rv : V) {st : State P S V M Pr}
    {cur : P} {id : Nat} {rest : List Nat} {inc : Incompat P S V M}
    (h : Sem W root rv st (fun p i => p = cur ∧ i ∈ id :: rest))
    (hinc : st.store[id]? = some inc) (hc : inc.SContra st.ps.terms) :
    Sem W root rv
      { st with contradicted := SmallMap.insert st.contradicted id st.ps.currentDecisionLevel }
      (fun p i => p = cur ∧ i ∈ rest) := by
  have hw := h.pinv.wf.wf
  have htop := PartialSolution.termsAt_top hw (Nat.le_refl _)
  refine Sem.transport W root rv h
    (st' := { st with contradicted := SmallMap.insert st.contradicted id st.ps.currentDecisionLevel })
    rfl rfl rfl rfl h.sinv.ps ?_ ?_ ?_ ?_
  · refine ⟨h.pinv.wf, ?_⟩
    intro kv hkv
    rcases SmallMap.mem_insert_sub hkv with rfl | hkv
    · exact (List.getElem?_eq_some_iff.1 hinc).1
    · exact h.pinv.cache kv hkv
  · intro l hl
    rw [Nat.min_eq_left hl]; exact TermsLE.refl _
  · intro p pa' g v t hpa' hd l hl1 hl2 i hi inc' hinc' hown hwv
    by_cases hpi : l = st.ps.currentDecisionLevel ∧ p = cur ∧ i = id
    · right
      obtain ⟨rfl, rfl, rfl⟩ := hpi
      rw [hinc] at hinc'; injection hinc' with hinc'; subst hinc'
      show inc.SContra (st.ps.termsAt _)
      rw [htop]; exact hc
    · left
      refine ⟨pa', g, v, t, hpa', hd, ?_, ?_⟩
      · show pa'.highest ≤ min l st.ps.currentDecisionLevel
        rw [Nat.min_eq_left hl2]; exact hl1
      · intro hmin
        have hl : l = st.ps.currentDecisionLevel := by
          have : min l st.ps.currentDecisionLevel = l := Nat.min_eq_left hl2
          omega
        rintro ⟨rfl, hmem⟩
        rcases List.mem_cons.1 hmem with rfl | hmem
        · exact hpi ⟨hl, rfl, rfl⟩
        · exact hwv hl ⟨rfl, hmem⟩
  · intro i l0 hm
    rcases SmallMap.mem_insert_sub hm with e | hm
    · injection e with e1 e2; subst e1; subst e2
      refine ⟨Nat.le_refl _, Or.inr ?_⟩
      intro inc' hinc' l hl1 hl2
      rw [hinc] at hinc'; injection hinc' with hinc'; subst hinc'
      have : l = st.ps.currentDecisionLevel := Nat.le_antisymm hl2 hl1
      subst this
      show inc.SContra (st.ps.termsAt _)
      rw [htop]; exact hc
    · exact ⟨(h.cache i l0 hm).1, Or.inl hm⟩

/-- a decided package is still decided, with the same entry, after a derivation (on another package) -/
theorem PartialSolution.addDerivation_decided {ps ps' : PartialSolution P S V Pr} {q : P} {cause : Nat}
    {store : List (Incompat P S V M)} (h : ps.WF')
    (hr : ps.addDerivation q cause store = .ok ps') {p : P} {pa' : PackageAssignments S V}
    {g : Nat} {v : V} {t : Term S} (hpa' : ps'.getPA p = some pa') (hd : pa'.inter = .decision g v t) :
    ps.getPA p = some pa' := by
  by_cases hp : p = q
  · subst hp
    exfalso
    obtain ⟨inc, t1, _, _, hcase⟩ := PartialSolution.addDerivation_spec hr
    rcases hcase with ⟨idx, pa, t0, hidx, hpa, ht0, rfl⟩ | ⟨hpa, rfl⟩
    · have hget := PartialSolution.getElem_of_indexOf_getPA hidx hpa
      simp only [PartialSolution.getPA] at hpa'
      rw [SmallMap.get_set_same_key h.wf.keys hget, if_pos rfl] at hpa'
      injection hpa' with hpa'; subst hpa'
      cases hd
    · simp only [PartialSolution.getPA] at hpa hpa'
      rw [SmallMap.get_append_none hpa] at hpa'
      simp only [SmallMap.get, if_true] at hpa'
      injection hpa' with hpa'; subst hpa'
      cases hd
  · rw [PartialSolution.addDerivation_getPA_ne h.wf hr hp] at hpa'; exact hpa'

/-- the unit-propagation step: `id` is almost satisfied, the derivation is added, `(id, level)` is
cached; the pending obligation for `id` is discharged -/
theorem Sem.derive (W : World P S V M) (root : P) (rv : V) {st : State P S V M Pr}
    {cur q : P} {id : Nat} {rest : List Nat} {ps' : PartialSolution P S V Pr} (b : List P)
    (h : Sem W root rv st (fun p i => p = cur ∧ i ∈ id :: rest))
    (hps : st.ps.addDerivation q id st.store = .ok ps') :
    Sem W root rv
      { st with buffer := b, ps := ps',
                contradicted := SmallMap.insert st.contradicted id ps'.currentDecisionLevel }
      (fun p i => p = cur ∧ i ∈ rest) := by
  have hw := h.pinv.wf
  have hlev := PartialSolution.addDerivation_level hps
  have hw' := PartialSolution.addDerivation_wf' hw hps
  have hv' := PartialSolution.addDerivation_termsValid W root rv h.sinv.store h.sinv.ps hps
  have htop := PartialSolution.termsAt_top hw.wf (Nat.le_refl _)
  have htop' := PartialSolution.termsAt_top hw'.wf (Nat.le_refl _)
  have hle := PartialSolution.termsLE_addDerivation W root rv h.sinv.store hw h.sinv.ps hps
  obtain ⟨inc, tq, o', hinc, hget, hnew, hsub, _⟩ := PartialSolution.terms_addDerivation_self hw h.sinv.ps hps
  have htqv := Incompat.get_valid W root rv h.sinv.store hinc hget
  -- the examined incompatibility is excluded by the new terms
  have hc : inc.SContra ps'.terms :=
    ⟨q, tq, o', SmallMap.mem_of_get hget, hnew, (Term.disj_negate tq).mono (hsub htqv)⟩
  refine Sem.transport W root rv h
    (st' := { st with buffer := b, ps := ps',
                      contradicted := SmallMap.insert st.contradicted id ps'.currentDecisionLevel })
    rfl rfl rfl rfl hv' ?_ ?_ ?_ ?_
  · refine ⟨hw', ?_⟩
    intro kv hkv
    rcases SmallMap.mem_insert_sub hkv with rfl | hkv
    · exact (List.getElem?_eq_some_iff.1 hinc).1
    · exact h.pinv.cache kv hkv
  · intro l hl
    show TermsLE (ps'.termsAt l) _
    have hl' : l ≤ st.ps.currentDecisionLevel := hlev ▸ hl
    rw [Nat.min_eq_left hl']
    by_cases hlt : l < st.ps.currentDecisionLevel
    · exact TermsLE.of_eq (PartialSolution.termsAt_addDerivation_lt hw hps hlt)
    · have : l = st.ps.currentDecisionLevel := by omega
      subst this
      rw [htop]
      have : ps'.termsAt st.ps.currentDecisionLevel = ps'.terms := by rw [← hlev]; exact htop'
      rw [this]; exact hle
  · intro p pa' g v t hpa' hd l hl1 hl2 i hi inc' hinc' hown hwv
    have hl2' : l ≤ st.ps.currentDecisionLevel := hlev ▸ hl2
    by_cases hpi : l = st.ps.currentDecisionLevel ∧ p = cur ∧ i = id
    · right
      obtain ⟨rfl, rfl, rfl⟩ := hpi
      rw [hinc] at hinc'; injection hinc' with hinc'; subst hinc'
      show inc.SContra (ps'.termsAt _)
      have : ps'.termsAt st.ps.currentDecisionLevel = ps'.terms := by rw [← hlev]; exact htop'
      rw [this]; exact hc
    · left
      have hpa := PartialSolution.addDerivation_decided hw hps hpa' hd
      refine ⟨pa', g, v, t, hpa, hd, ?_, ?_⟩
      · rw [Nat.min_eq_left hl2']; exact hl1
      · intro hmin
        have hl : l = st.ps.currentDecisionLevel := by
          have : min l st.ps.currentDecisionLevel = l := Nat.min_eq_left hl2'
          omega
        rintro ⟨rfl, hmem⟩
        rcases List.mem_cons.1 hmem with rfl | hmem
        · exact hpi ⟨hl, rfl, rfl⟩
        · exact hwv (by show l = ps'.currentDecisionLevel; rw [hlev]; exact hl) ⟨rfl, hmem⟩
  · intro i l0 hm
    rcases SmallMap.mem_insert_sub hm with e | hm
    · injection e with e1 e2; subst e1; subst e2
      refine ⟨Nat.le_refl _, Or.inr ?_⟩
      intro inc' hinc' l hl1 hl2
      rw [hinc] at hinc'; injection hinc' with hinc'; subst hinc'
      have : l = ps'.currentDecisionLevel := Nat.le_antisymm hl2 hl1
      subst this
      show inc.SContra (ps'.termsAt _)
      rw [htop']; exact hc
    · exact ⟨by show l0 ≤ ps'.currentDecisionLevel; rw [hlev]; exact (h.cache i l0 hm).1, Or.inl hm⟩

end Lawful
end Pubgrub

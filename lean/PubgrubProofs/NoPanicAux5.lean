/-
Helpers for `NoPanic.lean`, part 5: `add_decision` (with its debug assertions), `add_version`,
`pick_highest_priority_pkg` succeed under the invariants.
-/
import PubgrubProofs.NoPanicAux4

set_option linter.unusedSectionVars false
set_option linter.unusedVariables false

namespace Pubgrub
open VersionSet

section
variable {P S V M Pr : Type} [DecidableEq P] [VersionSet S V] [DecidableEq S] [DecidableEq V]
  [LawfulVersionSet S V]

namespace PartialSolution

theorem swapIndices_ok {α : Type} (l : List α) {i j : Nat} (hi : i < l.length) (hj : j < l.length) :
    ∃ l', swapIndices l i j = .ok l' := by
  unfold swapIndices
  rw [List.getElem?_eq_getElem hi, List.getElem?_eq_getElem hj]
  exact ⟨_, rfl⟩

theorem addDecisionCore_ok {ps : PartialSolution P S V Pr} (h : ps.WF) {p : P} {v : V} {t : Term S}
    {pa : PackageAssignments S V} (hpa : ps.getPA p = some pa) (ht : pa.inter = .derivations t) :
    ∃ ps', addDecisionCore ps p v = .ok ps' := by
  obtain ⟨i, hidx, hi⟩ := getElem_of_getPA hpa
  have hge := undecided_ge h hi ht
  have hlt := (List.getElem?_eq_some_iff.1 hi).1
  unfold addDecisionCore
  simp only [bind, Except.bind, pure, Except.pure, hidx, hpa, unwrapOr]
  split
  · obtain ⟨l', hl'⟩ := swapIndices_ok (ps.assignments.set i
      (p, { pa with highest := ps.currentDecisionLevel + 1,
                    inter := .decision ps.nextGlobalIndex v (Term.exact v) }))
      (i := ps.currentDecisionLevel) (j := i) (by rw [List.length_set]; omega) (by rw [List.length_set]; exact hlt)
    rw [hl']
    exact ⟨_, rfl⟩
  · exact ⟨_, rfl⟩

/-- `add_decision` succeeds, debug assertions included -/
theorem addDecision_ok {ps : PartialSolution P S V Pr} (h : ps.WF) {p : P} {v : V} {t : Term S}
    {pa : PackageAssignments S V} (hpa : ps.getPA p = some pa) (ht : pa.inter = .derivations t)
    (hv : t.contains v = true) (hch : ps.changed = ps.assignments.length) (debug : Bool) :
    ∃ ps', addDecision debug ps p v = .ok ps' := by
  have heq : addDecision debug ps p v = addDecisionCore ps p v := by
    unfold addDecision addDecisionCore
    cases debug with
    | false => rfl
    | true =>
      simp only [if_true, hpa, ht, hv, hch, ne_eq, not_true_eq_false, if_false, Bool.not_true,
        Bool.false_eq_true, bind, Except.bind, pure, Except.pure]
  rw [heq]
  exact addDecisionCore_ok h hpa ht

theorem addVersion_ok {ps : PartialSolution P S V Pr} (h : ps.WF) {p : P} {v : V} {t : Term S}
    {pa : PackageAssignments S V} (hpa : ps.getPA p = some pa) (ht : pa.inter = .derivations t)
    (hv : t.contains v = true) (hch : ps.changed = ps.assignments.length) (debug : Bool)
    (news : List (Incompat P S V M)) :
    ∃ ps', addVersion debug ps p v news = .ok ps' := by
  unfold addVersion
  split
  · exact addDecision_ok h hpa ht hv hch debug
  · dsimp only
    split
    · exact addDecision_ok h hpa ht hv hch debug
    · exact ⟨_, rfl⟩

theorem toPrioritize_ok {ps : PartialSolution P S V Pr} (h : ps.WF) : ∃ L, ps.toPrioritize = .ok L := by
  unfold toPrioritize
  rw [if_neg (Nat.not_lt.2 h.changed_le)]
  exact ⟨_, rfl⟩

end PartialSolution

/-- the state after a decision keeps `XInv` -/
theorem XInv.decide {st : State P S V M Pr} (hx : XInv st) (hw : st.ps.WF) {ps' : PartialSolution P S V Pr}
    {debug : Bool} {p : P} {v : V} (hr : PartialSolution.addDecision debug st.ps p v = .ok ps') (hw' : ps'.WF)
    {t : Term S} {pa : PackageAssignments S V} (hpa : st.ps.getPA p = some pa) (ht : pa.inter = .derivations t) :
    XInv ({ st with ps := ps' } : State P S V M Pr) := by
  refine ⟨hx.idx, hx.md, ?_, hx.buf, hx.noAny⟩
  intro q qa hq
  have hstep := PartialSolution.addDecision_step hw hr hw' hpa ht
  rcases hstep.mem q qa (SmallMap.mem_of_get hq) with hm | ⟨rfl, _⟩
  · exact hx.asg q qa (PartialSolution.getPA_of_mem hw hm)
  · exact hx.asg q pa hpa

end
end Pubgrub

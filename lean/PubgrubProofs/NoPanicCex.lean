/-
Why `no_panic` needs canonical emptiness when the Rust's `debug_assert`s are on: a lawful version set
(all the laws of `LawfulVersionSet`, every set valid) over two versions, whose sets carry a tag that every
operation resets to `0`.  `E1` and `E2` are member-free sets with tags `1` and `2`: they are not `empty`,
but `union E1 E2 = empty`.  In the run below (root `r@1` depends on `q` and `y`; `y@1` on `x`; `x@2`
on `q ∈ E2`; `x@1` on `q ∈ E1`; priorities `y > x > q`) conflict resolution resolves
`{x: {1}, q: ¬E1}` with `{x: {2}, q: ¬E2}`: `prior_cause` intersects the two terms of `q` into
`¬(E1 ∪ E2) = ¬empty = Term::any`; the learned clause `{q: any, y: {1}}` is then handed to
`merge_incompatibility`, whose `assert_ne!(term, Term::any())` fails.  With `debug = false` the same
answers lead to `NoSolution`.
-/
import PubgrubProofs.NoPanic

set_option linter.unusedSectionVars false
set_option linter.unusedVariables false

namespace Pubgrub
namespace NoPanicCex
open VersionSet

/-- two versions -/
inductive V2 where
  | v1 | v2
  deriving DecidableEq, Repr

/-- a set of versions with a tag -/
structure TSet where
  b1 : Bool
  b2 : Bool
  tag : Nat
  deriving DecidableEq, Repr

def TSet.has (a : TSet) : V2 → Bool
  | .v1 => a.b1
  | .v2 => a.b2

instance : VersionSet TSet V2 where
  empty := ⟨false, false, 0⟩
  singleton v := match v with | .v1 => ⟨true, false, 0⟩ | .v2 => ⟨false, true, 0⟩
  complement a := ⟨!a.b1, !a.b2, 0⟩
  intersection a b := ⟨a.b1 && b.b1, a.b2 && b.b2, 0⟩
  contains a v := a.has v
  full := ⟨true, true, 0⟩
  union a b := ⟨a.b1 || b.b1, a.b2 || b.b2, 0⟩
  isDisjoint a b := !(a.b1 && b.b1) && !(a.b2 && b.b2)
  subsetOf a b := (!a.b1 || b.b1) && (!a.b2 || b.b2)

def E1 : TSet := ⟨false, false, 1⟩
def E2 : TSet := ⟨false, false, 2⟩
def full : TSet := ⟨true, true, 0⟩

-- packages: r = 0, q = 1, y = 2, x = 3
def W : World Nat TSet V2 Unit where
  versions p := if p = 3 then [.v1, .v2] else [.v1]
  deps p v :=
    if p = 0 then .available [(1, full), (2, full)]
    else if p = 2 then .available [(3, full)]
    else if p = 3 then (match v with | .v2 => .available [(1, E2)] | .v1 => .available [(1, E1)])
    else .available []

abbrev Rq := Request Nat TSet V2 Unit Nat Unit
abbrev An := Answer Nat TSet V2 Unit Nat Unit

def answers : List An := [
  .ok, .priority 10, .picked (some 0), .version (some .v1), .available [(1, full), (2, full)],
  .ok, .priority 3, .priority 1, .picked (some 2), .version (some .v1), .available [(3, full)],
  .ok, .priority 2, .picked (some 3), .version (some .v2), .available [(1, E2)],
  .ok, .priority 2, .priority 1, .picked (some 3), .version (some .v1), .available [(1, E1)],
  .ok]

/-- all the laws hold, with every set valid -/
instance : LawfulVersionSet TSet V2 where
  Valid := fun _ => True
  valid_empty := trivial
  valid_singleton := fun _ => trivial
  valid_complement := fun _ _ => trivial
  valid_intersection := fun _ _ _ _ => trivial
  valid_full := trivial
  valid_union := fun _ _ _ _ => trivial
  contains_empty := by intro v; cases v <;> rfl
  contains_singleton := by intro v w; cases v <;> cases w <;> simp [VersionSet.contains, VersionSet.singleton, TSet.has]
  contains_complement := by intro s v _; cases v <;> rfl
  contains_intersection := by intro a b v _ _; cases v <;> rfl
  contains_full := by intro v; cases v <;> rfl
  contains_union := by intro a b v _ _; cases v <;> rfl
  isDisjoint_iff := by
    intro a b _ _
    obtain ⟨a1, a2, ta⟩ := a
    obtain ⟨c1, c2, tb⟩ := b
    constructor
    · intro h v
      cases v <;> cases a1 <;> cases a2 <;> cases c1 <;> cases c2 <;>
        simp_all [isDisjoint, contains, TSet.has]
    · intro h
      have h1 := h .v1
      have h2 := h .v2
      cases a1 <;> cases a2 <;> cases c1 <;> cases c2 <;> simp_all [isDisjoint, contains, TSet.has]
  subsetOf_iff := by
    intro a b _ _
    obtain ⟨a1, a2, ta⟩ := a
    obtain ⟨c1, c2, tb⟩ := b
    constructor
    · intro h v
      cases v <;> cases a1 <;> cases a2 <;> cases c1 <;> cases c2 <;>
        simp_all [subsetOf, contains, TSet.has]
    · intro h
      have h1 := h .v1
      have h2 := h .v2
      cases a1 <;> cases a2 <;> cases c1 <;> cases c2 <;> simp_all [subsetOf, contains, TSet.has]

theorem W_setsValid : W.SetsValid := fun _ _ _ _ _ _ => trivial

/-- this version set has neither canonical unions nor canonical emptiness -/
theorem not_unionCanon : ¬ UnionCanon TSet V2 := by
  intro h
  exact h E1 E2 trivial trivial (by decide) (by decide)

theorem not_canonicalEmpty : ¬ CanonicalEmpty TSet V2 := by
  intro h
  have := h.eq_empty_of_no_member E1 trivial (by intro v; cases v <;> rfl)
  revert this; decide

/-- a decidable check that an answer is consistent with the world `W` -/
def answerOKb : Rq → An → Bool
  | .chooseVersion p s, .version none => (W.versions p).all fun v => !contains s v
  | .chooseVersion p _, .version (some v) => decide (v ∈ W.versions p)
  | .getDependencies _ _, .unavailable _ => false
  | .getDependencies p v, .available ds =>
    match W.deps p v with
    | .available ds' => decide (ds' = ds)
    | .unavailable _ => false
  | _, _ => true

theorem answerOKb_sound (req : Rq) (a : An) (h : answerOKb req a = true) : AnswerOK W req a := by
  cases req <;> cases a
  all_goals first | exact True.intro | skip
  case chooseVersion.version p s o =>
    cases o with
    | none =>
      intro v hv
      have := List.all_eq_true.1 h v hv
      simpa using this
    | some v =>
      have hv : v ∈ W.versions p := of_decide_eq_true h
      exact hv
  case getDependencies.unavailable p v m => cases h
  case getDependencies.available p v ds =>
    simp only [answerOKb] at h
    split at h
    · rename_i ds' hd
      simp only [AnswerOK]
      rw [hd, of_decide_eq_true h]
    · cases h

/-- the answers are consistent with `W` all along the run -/
def checkRun : SolverState Nat TSet V2 Unit Nat × Rq → List An → Bool
  | _, [] => true
  | (s, req), a :: as => answerOKb req a && checkRun (Solver.step s a) as

theorem reachable_of_checkRun (debug : Bool) (fuel : Nat) (root : Nat) (rv : V2) :
    ∀ (as : List An) (x : SolverState Nat TSet V2 Unit Nat × Rq), Reachable W debug fuel root rv x →
      checkRun x as = true → Reachable W debug fuel root rv (Solver.after x as) := by
  intro as
  induction as with
  | nil => intro x hx _; exact hx
  | cons a as ih =>
    intro x hx hc
    obtain ⟨s, req⟩ := x
    simp only [checkRun, Bool.and_eq_true] at hc
    exact ih _ (Reachable.step hx (answerOKb_sound req a hc.1)) hc.2

def isAssertPanic : Rq → Bool
  | .fault (.panic site) => decide (site = "merge_incompatibility: assert_ne!(term, Term::any())")
  | _ => false

def isNoSolution : Rq → Bool
  | .noSolution _ => true
  | _ => false

theorem isAssertPanic_spec (r : Rq) (h : isAssertPanic r = true) :
    r = .fault (.panic "merge_incompatibility: assert_ne!(term, Term::any())") := by
  unfold isAssertPanic at h
  split at h
  · rw [of_decide_eq_true h]
  · cases h

/-- the state and the request after the answers -/
def final (debug : Bool) : SolverState Nat TSet V2 Unit Nat × Rq :=
  Solver.after (Solver.start debug 100 0 V2.v1) answers

theorem checkRun_debug : checkRun (Solver.start true 100 0 V2.v1) answers = true := by decide +kernel
theorem final_debug : isAssertPanic (final true).2 = true := by decide +kernel

/-- with the debug assertions on, the run ends in the failed `assert_ne!(term, Term::any())` -/
theorem panic_reachable :
    Reachable (E := Unit) W true 100 0 V2.v1
      ((final true).1, .fault (.panic "merge_incompatibility: assert_ne!(term, Term::any())")) := by
  have h := reachable_of_checkRun true 100 0 V2.v1 answers _ Reachable.start checkRun_debug
  have h2 := isAssertPanic_spec _ final_debug
  rw [← h2]
  exact h

/-- `no_panic` as first stated — for every lawful version set, without canonical emptiness — is false -/
theorem no_panic_false_without_canonicalEmpty :
    ¬ (∀ (P S V M Pr E : Type) [DecidableEq P] [VersionSet S V] [DecidableEq S] [DecidableEq V]
      [LE Pr] [DecidableLE Pr] [LawfulVersionSet S V]
      (W : World P S V M) (hW : W.SetsValid) (debug : Bool) (fuel : Nat)
      (root : P) (rv : V) (s : SolverState P S V M Pr) (site : String),
      ¬ Reachable (E := E) W debug fuel root rv (s, .fault (.panic site))) := by
  intro h
  exact h Nat TSet V2 Unit Nat Unit W W_setsValid true 100 0 V2.v1 _ _ panic_reachable

/-- the answers of the run are those of a well-behaved provider, so `wellBehaved_outcomes` as first
stated is false as well -/
def wellBehavedb : Rq → An → Bool
  | _, .error _ => false
  | .chooseVersion _ s, .version (some v) => contains s v
  | _, _ => true

theorem wellBehavedb_sound (req : Rq) (a : An) (h : wellBehavedb req a = true) : AnswerWellBehaved req a := by
  cases req <;> cases a
  all_goals first | exact True.intro | cases h | skip
  all_goals (rename_i o; cases o <;> first | exact True.intro | exact h)

def checkRunWB : SolverState Nat TSet V2 Unit Nat × Rq → List An → Bool
  | _, [] => true
  | (s, req), a :: as => answerOKb req a && wellBehavedb req a && checkRunWB (Solver.step s a) as

theorem reachableWB_of_checkRun (debug : Bool) (fuel : Nat) (root : Nat) (rv : V2) :
    ∀ (as : List An) (x : SolverState Nat TSet V2 Unit Nat × Rq), ReachableWB W debug fuel root rv x →
      checkRunWB x as = true → ReachableWB W debug fuel root rv (Solver.after x as) := by
  intro as
  induction as with
  | nil => intro x hx _; exact hx
  | cons a as ih =>
    intro x hx hc
    obtain ⟨s, req⟩ := x
    simp only [checkRunWB, Bool.and_eq_true] at hc
    exact ih _ (ReachableWB.step hx (answerOKb_sound req a hc.1.1) (wellBehavedb_sound req a hc.1.2)) hc.2

theorem checkRunWB_debug : checkRunWB (Solver.start true 100 0 V2.v1) answers = true := by decide +kernel

theorem panic_reachableWB :
    ReachableWB (E := Unit) W true 100 0 V2.v1
      ((final true).1, .fault (.panic "merge_incompatibility: assert_ne!(term, Term::any())")) := by
  have h := reachableWB_of_checkRun true 100 0 V2.v1 answers _ ReachableWB.start checkRunWB_debug
  have h2 := isAssertPanic_spec _ final_debug
  rw [← h2]
  exact h

/-- in a release build (`debug = false`) the same answers, followed by the re-examination of `y`, end in
`NoSolution` -/
def answersRelease : List An := answers ++ [.priority 3, .priority 1, .picked (some 2), .version none, .ok]

theorem release_noSolution :
    isNoSolution (Solver.after (Solver.start (E := Unit) (Pr := Nat) (M := Unit) false 100 (0 : Nat) V2.v1)
      answersRelease).2 = true := by decide +kernel

/-- `wellBehaved_outcomes` as first stated is false as well -/
theorem wellBehaved_outcomes_false_without_canonicalEmpty :
    ¬ (∀ (P S V M Pr E : Type) [DecidableEq P] [VersionSet S V] [DecidableEq S] [DecidableEq V]
      [LE Pr] [DecidableLE Pr] [LawfulVersionSet S V]
      (W : World P S V M) (hW : W.SetsValid) (debug : Bool) (fuel : Nat)
      (root : P) (rv : V) (s : SolverState P S V M Pr) (req : Request P S V M Pr E)
      (h : ReachableWB W debug fuel root rv (s, req)) (hfin : req.isFinal = true),
      (∃ sel, req = .solution sel) ∨ (∃ t, req = .noSolution t) ∨ req = .fault .outOfFuel ∨
        (∃ m, req = .protocolError m)) := by
  intro h
  rcases h Nat TSet V2 Unit Nat Unit W W_setsValid true 100 0 V2.v1 _ _ panic_reachableWB rfl with
    ⟨_, h⟩ | ⟨_, h⟩ | h | ⟨_, h⟩ <;> cases h

/-
The requests of the two runs (`Solver.trace … answers`, packages by number):
debug = true:   cancel, prio 0, pick [0], choose 0, deps 0, cancel, prio 2, prio 1, pick [2, 1], choose 2,
  deps 2, cancel, prio 3, pick [1, 3], choose 3, deps 3, cancel, prio 3, prio 1, pick [3, 1], choose 3, deps 3,
  cancel, PANIC merge_incompatibility: assert_ne!(term, Term::any())
debug = false (`answersRelease`): the same up to the last cancel, then prio 2, prio 1, pick [2, 1], choose 2,
  cancel, nosolution
-/

end NoPanicCex
end Pubgrub

/-
Helpers for `PSInvariant.lean`, part 3: preservation of I-PS by `backtrack`.
-/
import PubgrubProofs.PSInvariantAux2

set_option linter.unusedSectionVars false
set_option linter.unusedVariables false

namespace Pubgrub
open VersionSet

/-- the result of a step of `filterMapM`, `none` on error -/
def optOfR {β : Type} : R (Option β) → Option β
  | .ok o => o
  | .error _ => none

theorem filterMapM_ok_eq {α β : Type} (f : α → R (Option β)) :
    ∀ (l : List α) (l' : List β), l.filterMapM f = .ok l' →
      l' = l.filterMap (fun x => optOfR (f x)) := by
  intro l
  induction l with
  | nil =>
    intro l' h
    simp only [List.filterMapM_nil, pure, Except.pure] at h
    injection h with h; subst h; rfl
  | cons a l ih =>
    intro l' h
    rw [List.filterMapM_cons] at h
    simp only [bind, Except.bind, pure, Except.pure] at h
    split at h
    · cases h
    rename_i o ho
    cases o with
    | none =>
      simp only at h
      rw [List.filterMap_cons, ho]
      have e : optOfR (Except.ok none : R (Option β)) = none := rfl
      rw [e]
      exact ih l' h
    | some b =>
      simp only at h
      split at h
      · cases h
      rename_i l'' hl''
      injection h with h; subst h
      rw [List.filterMap_cons, ho]
      have e : optOfR (Except.ok (some b) : R (Option β)) = some b := rfl
      rw [e]
      simp only
      rw [← ih l'' hl'']

theorem filterMap_eq_self_of {α : Type} (g : α → Option α) :
    ∀ (l : List α), (∀ x ∈ l, g x = some x) → l.filterMap g = l := by
  intro l
  induction l with
  | nil => intro _; rfl
  | cons a l ih =>
    intro h
    rw [List.filterMap_cons, h a List.mem_cons_self]
    simp only
    rw [ih (fun x hx => h x (List.mem_cons_of_mem _ hx))]

theorem filterMap_keys_sublist {K T : Type} (g : K × T → Option (K × T))
    (hg : ∀ x y, g x = some y → y.1 = x.1) :
    ∀ (l : List (K × T)), ((l.filterMap g).map Prod.fst).Sublist (l.map Prod.fst) := by
  intro l
  induction l with
  | nil => exact List.Sublist.slnil
  | cons a l ih =>
    rw [List.filterMap_cons]
    cases h : g a with
    | none => simp only [List.map_cons]; exact List.Sublist.cons _ ih
    | some b =>
      simp only [List.map_cons]
      rw [hg a b h]
      exact List.Sublist.cons_cons _ ih

theorem pairwise_getLast {α : Type} {R : α → α → Prop} {l : List α} {x : α}
    (h : l.Pairwise R) (hx : l.getLast? = some x) : ∀ a ∈ l, a = x ∨ R a x := by
  obtain ⟨ys, rfl⟩ := List.getLast?_eq_some_iff.1 hx
  rw [List.pairwise_append] at h
  intro a ha
  simp only [List.mem_append, List.mem_singleton] at ha
  rcases ha with ha | ha
  · exact Or.inr (h.2.2 a ha x (List.mem_singleton.2 rfl))
  · exact Or.inl ha

section PS
variable {P S V M Pr : Type} [DecidableEq P] [VersionSet S V] [DecidableEq S]
  [LawfulVersionSet S V]

namespace PartialSolution

theorem popWhileAbove_prefix (dl : Nat) (l : List (DatedDerivation S)) :
    ∃ suf, l = popWhileAbove dl l ++ suf := by
  unfold popWhileAbove
  split
  · exact ⟨[], rfl⟩
  · rename_i a as
    refine ⟨((a :: as).reverse.takeWhile fun dd => decide (dd.decisionLevel > dl)).reverse, ?_⟩
    rw [← List.reverse_append, List.takeWhile_append_dropWhile, List.reverse_reverse]

theorem popWhileAbove_last (dl : Nat) (l : List (DatedDerivation S)) (last : DatedDerivation S)
    (h : (popWhileAbove dl l).getLast? = some last) : last.decisionLevel ≤ dl := by
  unfold popWhileAbove at h
  split at h
  · cases h
  · rename_i a as
    rw [List.getLast?_reverse] at h
    have := List.head?_dropWhile_not (fun dd : DatedDerivation S => decide (dd.decisionLevel > dl)) (a :: as).reverse
    rw [h] at this
    simp only [decide_eq_false_iff_not] at this
    omega

/-- the closure of `backtrack` -/
def btF (dl : Nat) : P × PackageAssignments S V → R (Option (P × PackageAssignments S V)) :=
  fun (p, pa) =>
    if pa.smallest > dl then pure none
    else if pa.highest ≤ dl then pure (some (p, pa))
    else do
      let dated := popWhileAbove dl pa.dated
      let last ← unwrapOr dated.getLast? "backtrack: dated_derivations.last().unwrap()"
      pure (some (p, { pa with dated := dated, highest := last.decisionLevel,
                               inter := .derivations last.accumulated }))

def btG (dl : Nat) (x : P × PackageAssignments S V) : Option (P × PackageAssignments S V) :=
  optOfR (btF dl x)

theorem backtrack_eq (ps : PartialSolution P S V Pr) (dl : Nat) :
    ps.backtrack dl = (do
      let assignments ← ps.assignments.filterMapM (m := R) (btF dl)
      pure { ps with currentDecisionLevel := dl, assignments := assignments, queue := [],
                     changed := dl - 1, hasEverBacktracked := true }) := rfl

/-- what the closure of `backtrack` does to one entry -/
theorem backtrack_entry {dl dl' next j : Nat} {p : P} {pa : PackageAssignments S V}
    {y : P × PackageAssignments S V}
    (hw : pa.WFAt dl next j) (hx : pa.WFX) (hj : dl' ≤ j)
    (hf : btF dl' (p, pa) = .ok (some y)) :
    y.1 = p ∧ y.2.WFX ∧ ∀ i, dl' ≤ i → y.2.WFAt dl' next i := by
  unfold btF at hf
  simp only at hf
  split at hf
  · cases hf
  rename_i hsm
  split at hf
  · rename_i hhi
    injection hf with hf; injection hf with hf; subst hf
    refine ⟨rfl, hx, ?_⟩
    intro i hi
    have hjd : dl ≤ j := by
      apply Nat.le_of_not_lt
      intro hlt
      obtain ⟨g, v, _, h2, _⟩ := hw.decided hlt
      omega
    obtain ⟨t, l, f, e1, e2, e3⟩ := hw.undecided hjd
    exact ⟨fun hlt => absurd hlt (Nat.not_lt.2 hi), fun _ => ⟨t, l, f, e1, hhi, e3⟩,
      hw.levels, hw.indices, hw.indices_lt, hw.range⟩
  · rename_i hhi
    simp only [bind, Except.bind, pure, Except.pure] at hf
    split at hf
    · cases hf
    rename_i last hlast
    have hlast' := unwrapOr_ok hlast
    injection hf with hf; injection hf with hf; subst hf
    obtain ⟨suf, hsuf⟩ := popWhileAbove_prefix dl' pa.dated
    have hll := popWhileAbove_last dl' pa.dated last hlast'
    obtain ⟨f, hf1, hf2⟩ := hx.head
    have hne : popWhileAbove dl' pa.dated ≠ [] := by
      intro e; rw [e] at hlast'; cases hlast'
    have hhead : (popWhileAbove dl' pa.dated).head? = some f := by
      rw [hsuf, List.head?_append] at hf1
      cases hh : (popWhileAbove dl' pa.dated).head? with
      | none => exact absurd (List.head?_eq_none_iff.1 hh) hne
      | some f' => rw [hh] at hf1; exact hf1
    have hsub : (popWhileAbove dl' pa.dated).Sublist pa.dated := by
      conv => rhs; rw [hsuf]
      exact List.sublist_append_left _ _
    have hlev : ((popWhileAbove dl' pa.dated).map (·.decisionLevel)).Pairwise (· ≤ ·) :=
      List.Pairwise.sublist (hsub.map _) hw.levels
    have hall : ∀ dd ∈ popWhileAbove dl' pa.dated, dd.decisionLevel ≤ last.decisionLevel := by
      intro dd hdd
      have hl' : ((popWhileAbove dl' pa.dated).map (·.decisionLevel)).getLast? = some last.decisionLevel := by
        rw [List.getLast?_map, hlast']; rfl
      rcases pairwise_getLast hlev hl' dd.decisionLevel (List.mem_map.2 ⟨dd, hdd, rfl⟩) with e | e
      · exact Nat.le_of_eq e
      · exact e
    refine ⟨rfl, ⟨⟨f, hhead, hf2⟩, hall⟩, ?_⟩
    intro i hi
    refine ⟨fun hlt => absurd hlt (Nat.not_lt.2 hi),
      fun _ => ⟨last.accumulated, last, f, rfl, hll, hlast', hhead, rfl, rfl, hf2⟩,
      hlev, List.Pairwise.sublist (hsub.map _) hw.indices,
      fun dd hdd => hw.indices_lt dd (hsub.subset hdd), ?_⟩
    show pa.smallest ≤ last.decisionLevel
    rw [← hf2]
    exact hall f (List.mem_of_mem_head? hhead)

/-- `backtrack` to a level not above the current one preserves the strengthened I-PS -/
theorem backtrack_wf' {ps ps' : PartialSolution P S V Pr} {dl' : Nat} (h : ps.WF')
    (hdl : dl' ≤ ps.currentDecisionLevel) (hr : ps.backtrack dl' = .ok ps') :
    ps'.WF' ∧ ps'.currentDecisionLevel = dl' ∧ ps'.changed = dl' - 1 ∧ ps'.queue = [] := by
  have hw := h.wf
  rw [backtrack_eq] at hr
  obtain ⟨asg, hasg, hr⟩ := bind_eq_ok hr
  simp only [pure, Except.pure] at hr
  injection hr with hr; subst hr
  refine ⟨?_, rfl, rfl, rfl⟩
  have hA : asg = ps.assignments.filterMap (btG dl') := filterMapM_ok_eq _ _ _ hasg
  generalize hg : btG (P := P) (S := S) (V := V) dl' = g at hA
  have hlen : dl' ≤ ps.assignments.length := Nat.le_trans hdl hw.level_le
  -- entries below `dl'` are kept
  have hkeep : ∀ x ∈ ps.assignments.take dl', g x = some x := by
    intro x hx
    obtain ⟨i, hi⟩ := List.getElem?_of_mem hx
    rw [List.getElem?_take] at hi
    split at hi
    · rename_i hlt
      obtain ⟨q, qa⟩ := x
      have he := hw.entries i q qa hi
      obtain ⟨gi, v, h1, h2, _⟩ := he.decided (Nat.lt_of_lt_of_le hlt hdl)
      have hr := he.range
      subst hg
      unfold btG btF
      simp only
      rw [if_neg (by omega), if_pos (by omega)]
      rfl
    · cases hi
  -- other entries
  have hother : ∀ (j : Nat) x y, ps.assignments[j]? = some x → dl' ≤ j → g x = some y →
      y.1 = x.1 ∧ y.2.WFX ∧ ∀ i, dl' ≤ i → y.2.WFAt dl' ps.nextGlobalIndex i := by
    intro j x y hj hjl hgx
    obtain ⟨q, qa⟩ := x
    subst hg
    unfold btG optOfR at hgx
    split at hgx
    · rename_i o ho
      subst hgx
      exact backtrack_entry (hw.entries j q qa hj) (h.wfx _ (List.mem_of_getElem? hj)) hjl ho
    · cases hgx
  have hsplit : asg = ps.assignments.take dl' ++ (ps.assignments.drop dl').filterMap g := by
    rw [hA]
    conv => lhs; rw [← List.take_append_drop dl' ps.assignments]
    rw [List.filterMap_append, filterMap_eq_self_of g _ hkeep]
  have hgkey : ∀ x y, g x = some y → y.1 = x.1 := by
    intro x y hxy
    by_cases hx : x ∈ ps.assignments.take dl'
    · rw [hkeep x hx] at hxy; injection hxy with hxy; rw [hxy]
    · subst hg
      obtain ⟨q, qa⟩ := x
      unfold btG optOfR at hxy
      split at hxy
      · rename_i o ho
        subst hxy
        unfold btF at ho
        simp only at ho
        split at ho
        · cases ho
        split at ho
        · injection ho with ho; injection ho with ho; rw [← ho]
        · simp only [bind, Except.bind, pure, Except.pure] at ho
          split at ho
          · cases ho
          injection ho with ho; injection ho with ho; rw [← ho]
      · cases hxy
  have htl : (ps.assignments.take dl').length = dl' := by
    rw [List.length_take]; exact Nat.min_eq_left hlen
  have hentry : ∀ (i : Nat) q qa, asg[i]? = some (q, qa) →
      PackageAssignments.WFAt dl' ps.nextGlobalIndex i qa ∧ qa.WFX := by
    intro i q qa hi
    rw [hsplit, List.getElem?_append, htl] at hi
    split at hi
    · rename_i hlt
      rw [List.getElem?_take, if_pos hlt] at hi
      have he := hw.entries i q qa hi
      refine ⟨⟨fun _ => he.decided (Nat.lt_of_lt_of_le hlt hdl), fun hh => absurd hlt (Nat.not_lt.2 hh),
        he.levels, he.indices, he.indices_lt, he.range⟩, h.wfx _ (List.mem_of_getElem? hi)⟩
    · rename_i hge
      have hmem := List.mem_of_getElem? hi
      rw [List.mem_filterMap] at hmem
      obtain ⟨x, hx, hgx⟩ := hmem
      obtain ⟨k, hk⟩ := List.getElem?_of_mem hx
      rw [List.getElem?_drop] at hk
      obtain ⟨_, h2, h3⟩ := hother (dl' + k) x (q, qa) hk (Nat.le_add_right _ _) hgx
      exact ⟨h3 i (Nat.le_of_not_lt hge), h2⟩
  refine ⟨⟨?_, ?_, ?_, ?_, ?_, ?_⟩, ?_⟩
  · show dl' - 1 ≤ asg.length
    rw [hsplit, List.length_append, htl]; omega
  · show dl' ≤ asg.length
    rw [hsplit, List.length_append, htl]; omega
  · show (asg.map Prod.fst).Nodup
    rw [hA]
    exact List.Nodup.sublist (filterMap_keys_sublist g hgkey _) hw.keys
  · intro i q qa hi
    exact (hentry i q qa hi).1
  · exact List.nodup_nil
  · intro q pr hq; cases hq
  · intro kv hkv
    obtain ⟨i, hi⟩ := List.getElem?_of_mem hkv
    exact (hentry i kv.1 kv.2 hi).2

end PartialSolution
end PS
end Pubgrub

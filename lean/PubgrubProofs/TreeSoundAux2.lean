/-
Helpers for `buildDerivationTree_shared_iff_partial`: the traversal `collectIds` puts an id into
`shared` only if it occurs at least twice in the unfolded tree of the requested id.
-/
import PubgrubProofs.TreeSoundAux

set_option linter.unusedSectionVars false

namespace Pubgrub
open VersionSet

variable {P S V M Pr : Type} [DecidableEq P] [VersionSet S V] [DecidableEq S]

/-- number of occurrences of the id `k` in the unfolded tree of the entry `j` -/
def treeOcc (store : List (Incompat P S V M)) (k : Nat) (j : Nat) : Nat :=
  (if j = k then 1 else 0) +
    match (store[j]?).bind Incompat.causes with
    | some (a, b) => if _h : a < j ∧ b < j then treeOcc store k a + treeOcc store k b else 0
    | none => 0
termination_by j
decreasing_by all_goals omega

/-- causes point to smaller ids -/
def CausesBelow (store : List (Incompat P S V M)) : Prop :=
  ∀ (j : Nat) (inc : Incompat P S V M) (a b : Nat),
    store[j]? = some inc → inc.causes = some (a, b) → a < j ∧ b < j

theorem treeOcc_derived (store : List (Incompat P S V M)) (hlt : CausesBelow store) (k j : Nat)
    (inc : Incompat P S V M) (a b : Nat) (hs : store[j]? = some inc) (hc : inc.causes = some (a, b)) :
    treeOcc store k j = (if j = k then 1 else 0) + treeOcc store k a + treeOcc store k b := by
  rw [treeOcc]
  have := hlt j inc a b hs hc
  simp [hs, hc, this, Nat.add_assoc]

theorem treeOcc_leaf (store : List (Incompat P S V M)) (k j : Nat)
    (inc : Incompat P S V M) (hs : store[j]? = some inc) (hc : inc.causes = none) :
    treeOcc store k j = (if j = k then 1 else 0) := by
  rw [treeOcc]
  simp [hs, hc]

theorem treeOcc_self_pos (store : List (Incompat P S V M)) (k : Nat) : 1 ≤ treeOcc store k k := by
  rw [treeOcc]; simp

/-- the potential of a state of the traversal -/
def collectPhi (store : List (Incompat P S V M)) (k : Nat) (stack all shared : List Nat) : Nat :=
  (stack.map (treeOcc store k)).sum + (if k ∈ all then 1 else 0) + (if k ∈ shared then 1 else 0)

theorem TreeAux.mem_pushNew (l : List Nat) (i x : Nat) :
    x ∈ (if l.contains i = true then l else l ++ [i]) ↔ x ∈ l ∨ x = i := by
  split
  · rename_i h
    have : i ∈ l := by simpa using h
    constructor
    · exact Or.inl
    · rintro (h | rfl) <;> assumption
  · simp

theorem TreeAux.eq_dropLast_of_getLast? (l : List Nat) (i : Nat) (h : l.getLast? = some i) :
    l = l.dropLast ++ [i] := by
  obtain ⟨ys, rfl⟩ := List.getLast?_eq_some_iff.1 h
  simp

theorem collectIds_phi (store : List (Incompat P S V M)) (hlt : CausesBelow store) (k : Nat) :
    ∀ (fuel : Nat) (stack all shared all' shared' : List Nat),
      State.collectIds store fuel stack all shared = .ok (all', shared') →
      (∀ x ∈ shared, x ∈ all) →
      (∀ x ∈ shared', x ∈ all') ∧ collectPhi store k [] all' shared' ≤ collectPhi store k stack all shared := by
  intro fuel
  induction fuel with
  | zero => intro stack all shared all' shared' h; simp [State.collectIds] at h
  | succ fuel ih =>
    intro stack all shared all' shared' h hsub
    rw [State.collectIds] at h
    cases hl : stack.getLast? with
    | none =>
      simp only [hl, Except.ok.injEq, Prod.mk.injEq] at h
      obtain ⟨rfl, rfl⟩ := h
      have : stack = [] := List.getLast?_eq_none_iff.1 hl
      subst this
      exact ⟨hsub, Nat.le_refl _⟩
    | some i =>
      simp only [hl] at h
      have hstack : stack = stack.dropLast ++ [i] := TreeAux.eq_dropLast_of_getLast? stack i hl
      generalize stack.dropLast = s' at h hstack
      subst hstack
      cases hs : store[i]? with
      | none => simp [storeGet, unwrapOr, hs] at h
      | some inc =>
        simp only [storeGet, unwrapOr, hs] at h
        cases hc : inc.causes with
        | none =>
          simp only [hc] at h
          have hm := TreeAux.mem_pushNew all i
          generalize (if all.contains i = true then all else all ++ [i]) = all2 at h hm
          obtain ⟨h1, h2⟩ := ih _ _ _ _ _ h (fun x hx => (hm x).2 (Or.inl (hsub x hx)))
          refine ⟨h1, Nat.le_trans h2 ?_⟩
          simp only [collectPhi, List.map_append, List.sum_append, List.map_cons, List.map_nil, List.sum_cons,
            List.sum_nil, treeOcc_leaf store k i inc hs hc, hm k]
          by_cases hik : i = k
          · subst hik; simp
          · simp [hik, Ne.symm hik]
        | some ab =>
          obtain ⟨a, b⟩ := ab
          simp only [hc] at h
          by_cases hia : all.contains i = true
          · simp only [hia, if_true] at h
            have hia' : i ∈ all := by simpa using hia
            have hm := TreeAux.mem_pushNew shared i
            generalize (if shared.contains i = true then shared else shared ++ [i]) = shared2 at h hm
            have hsub' : ∀ x ∈ shared2, x ∈ all := by
              intro x hx
              rcases (hm x).1 hx with hx | rfl
              · exact hsub x hx
              · exact hia'
            obtain ⟨h1, h2⟩ := ih _ _ _ _ _ h hsub'
            refine ⟨h1, Nat.le_trans h2 ?_⟩
            simp only [collectPhi, List.map_append, List.sum_append, List.map_cons, List.map_nil, List.sum_cons,
              List.sum_nil, hm k]
            by_cases hik : i = k
            · subst hik
              have := treeOcc_self_pos store i
              simp; split <;> omega
            · simp [Ne.symm hik]
          · simp only [hia] at h
            obtain ⟨h1, h2⟩ := ih _ _ _ _ _ h (fun x hx => List.mem_append_left _ (hsub x hx))
            refine ⟨h1, Nat.le_trans h2 ?_⟩
            simp only [collectPhi, List.map_append, List.sum_append, List.map_cons, List.map_nil, List.sum_cons,
              List.sum_nil, treeOcc_derived store hlt k i inc a b hs hc, List.mem_append, List.mem_singleton]
            by_cases hik : i = k
            · subst hik; simp; split <;> omega
            · simp [hik, Ne.symm hik]

/-- an id put into `shared` by the traversal occurs at least twice in the unfolded tree -/
theorem collectIds_shared_occ (store : List (Incompat P S V M)) (hlt : CausesBelow store) (k : Nat)
    (fuel id : Nat) (all shared : List Nat)
    (h : State.collectIds store fuel [id] [] [] = .ok (all, shared)) (hk : k ∈ shared) :
    2 ≤ treeOcc store k id := by
  obtain ⟨h1, h2⟩ := collectIds_phi store hlt k fuel [id] [] [] all shared h (by simp)
  have hka := h1 k hk
  simp [collectPhi, hk, hka] at h2
  exact h2

theorem Kind.causes_of_toExternal (inc : Incompat P S V M) (e : External P S V M)
    (h : inc.kind.toExternal = some e) : inc.causes = none := by
  unfold Incompat.causes
  cases hk : inc.kind <;> simp_all [Kind.toExternal]

/-- in the tree of `j`, the nodes labelled `some k` are the occurrences of `k` (for a shared derived `k`) -/
theorem IsTreeOf.count_eq_occ {store : List (Incompat P S V M)} (hlt : CausesBelow store)
    {sh : Nat → Bool} (k : Nat) (hsh : sh k = true)
    (inck : Incompat P S V M) (ak bk : Nat) (hsk : store[k]? = some inck)
    (hkk : inck.kind = .derivedFrom ak bk)
    {j : Nat} {t : DerivationTree P S V M} (h : IsTreeOf store sh j t) :
    (t.derivedNodes.filter fun n => n.1 = some k).length = treeOcc store k j := by
  induction h with
  | external id inc e hs hke =>
    rw [treeOcc_leaf store k id inc hs (Kind.causes_of_toExternal inc e hke)]
    have : id ≠ k := by
      rintro rfl
      rw [hs] at hsk; cases hsk
      rw [hkk] at hke; simp [Kind.toExternal] at hke
    simp [DerivationTree.derivedNodes, this]
  | derived id inc a b c1 c2 hs hkd ha hb ih1 ih2 =>
    have hc : inc.causes = some (a, b) := by simp [Incompat.causes, hkd]
    rw [treeOcc_derived store hlt k id inc a b hs hc, ← ih1, ← ih2]
    simp only [DerivationTree.derivedNodes, List.filter_cons, List.filter_append]
    by_cases hik : id = k
    · subst hik; simp [hsh]; omega
    · have : ¬ ((if sh id = true then some id else none) = some k) := by
        split <;> simp [hik]
      simp [this, hik]

end Pubgrub

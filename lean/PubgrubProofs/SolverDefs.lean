/-
Shared vocabulary of the solver proofs: worlds (what the provider knows), solutions, the meaning
of incompatibilities, consistency of answers with a world, reachable states of the coroutine,
traces.  Definitions only.
-/
import PubgrubProofs.Defs

namespace Pubgrub
open VersionSet

/-- what `get_dependencies` can answer for a package version -/
inductive DepsAnswer (P S M : Type) where
  | unavailable (m : M)
  | available (deps : List (P × S))

/-- The registry the provider answers from: the versions it can offer for a package, and the
dependency answer for each package version. -/
structure World (P S V M : Type) where
  versions : P → List V
  deps : P → V → DepsAnswer P S M

section Semantics
variable {P S V M : Type} [VersionSet S V]

/-- A solution (properties C01/C02): a selection `σ` of at most one version per package that contains
the root at the requested version, selects only offered versions with available dependencies, and
satisfies every dependency of every selected version (a dependency on the package itself counts like
any other). -/
structure IsSolution (W : World P S V M) (root : P) (rv : V) (σ : P → Option V) : Prop where
  root : σ root = some rv
  offered : ∀ p v, σ p = some v → v ∈ W.versions p
  deps : ∀ p v, σ p = some v → ∃ ds, W.deps p v = .available ds ∧
    ∀ q s, (q, s) ∈ ds → ∃ w, σ q = some w ∧ contains s w = true

/-- every term of the incompatibility is true under the selection -/
def Incompat.AllTrue (σ : P → Option V) (i : Incompat P S V M) : Prop :=
  ∀ p t, (p, t) ∈ i.terms → t.eval (σ p) = true

/-- property C06 for one incompatibility: no solution makes all its terms true at once -/
def Incompat.ValidFor (W : World P S V M) (root : P) (rv : V) (i : Incompat P S V M) : Prop :=
  ∀ σ, IsSolution W root rv σ → ¬ i.AllTrue σ

/-- keys of an association list are pairwise distinct -/
def SmallMap.NoDupKeys {K T : Type} (m : SmallMap K T) : Prop := (m.map Prod.fst).Nodup

/-- every set inside the incompatibility is valid (canonical) -/
def Incompat.SetsValid [LawfulVersionSet S V] (i : Incompat P S V M) : Prop :=
  ∀ p t, (p, t) ∈ i.terms → t.Valid

end Semantics

section Runs
variable {P S V M Pr E : Type} [DecidableEq P] [VersionSet S V] [DecidableEq S] [DecidableEq V]
  [LE Pr] [DecidableLE Pr]

/-- the answer is consistent with the world (nothing is assumed about `prioritize`, `pick`,
`should_cancel`, nor about errors; an out-of-set `choose_version` answer is allowed here) -/
def AnswerOK (W : World P S V M) : Request P S V M Pr E → Answer P S V M Pr E → Prop
  | .chooseVersion p s, .version none => ∀ v ∈ W.versions p, contains s v = false
  | .chooseVersion p _, .version (some v) => v ∈ W.versions p
  | .getDependencies p v, .unavailable m => W.deps p v = .unavailable m
  | .getDependencies p v, .available ds => W.deps p v = .available ds
  | _, _ => True

/-- additionally: no callback errors and `choose_version` answers inside the set it was given
(the "well-behaved provider" of properties C01–C05) -/
def AnswerWellBehaved : Request P S V M Pr E → Answer P S V M Pr E → Prop
  | _, .error _ => False
  | .chooseVersion _ s, .version (some v) => contains s v = true
  | _, _ => True

/-- states of the coroutine reachable by answers consistent with the world -/
inductive Reachable (W : World P S V M) (debug : Bool) (fuel : Nat) (root : P) (rv : V) :
    SolverState P S V M Pr × Request P S V M Pr E → Prop
  | start : Reachable W debug fuel root rv (Solver.start debug fuel root rv)
  | step {s : SolverState P S V M Pr} {req : Request P S V M Pr E} {a : Answer P S V M Pr E} :
      Reachable W debug fuel root rv (s, req) → AnswerOK W req a →
      Reachable W debug fuel root rv (Solver.step s a)

/-- same, by answers of a well-behaved provider -/
inductive ReachableWB (W : World P S V M) (debug : Bool) (fuel : Nat) (root : P) (rv : V) :
    SolverState P S V M Pr × Request P S V M Pr E → Prop
  | start : ReachableWB W debug fuel root rv (Solver.start debug fuel root rv)
  | step {s : SolverState P S V M Pr} {req : Request P S V M Pr E} {a : Answer P S V M Pr E} :
      ReachableWB W debug fuel root rv (s, req) → AnswerOK W req a → AnswerWellBehaved req a →
      ReachableWB W debug fuel root rv (Solver.step s a)

/-- requests issued after each answer, from a given point of the run -/
def Solver.runFrom : SolverState P S V M Pr × Request P S V M Pr E → List (Answer P S V M Pr E) →
    List (Request P S V M Pr E)
  | _, [] => []
  | (s, _), a :: as => (Solver.step s a).2 :: Solver.runFrom (Solver.step s a) as

/-- the state after a list of answers -/
def Solver.after : SolverState P S V M Pr × Request P S V M Pr E → List (Answer P S V M Pr E) →
    SolverState P S V M Pr × Request P S V M Pr E
  | x, [] => x
  | (s, _), a :: as => Solver.after (Solver.step s a) as

/-- the callback trace of `resolve`: the first request, then the request following each answer.
`trace[k+1]` is what `resolve` does after receiving `answers[k]` as the reply to `trace[k]`. -/
def Solver.trace (debug : Bool) (fuel : Nat) (root : P) (rv : V) (answers : List (Answer P S V M Pr E)) :
    List (Request P S V M Pr E) :=
  (Solver.start debug fuel root rv).2 :: Solver.runFrom (Solver.start debug fuel root rv) answers

/-- `resolve` has returned -/
def Request.isFinal : Request P S V M Pr E → Bool
  | .shouldCancel | .prioritize _ _ | .pick _ | .chooseVersion _ _ | .getDependencies _ _ => false
  | _ => true

end Runs
end Pubgrub

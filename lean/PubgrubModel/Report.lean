/-
Model of `/repo/src/report.rs`: `collapse_no_versions`, `DefaultStringReporter` (as a producer of
*steps*, i.e. the calls a `ReportFormatter` receives, with the line numbers `add_line_ref` appends),
and `DefaultStringReportFormatter` (the text templates).

`Derived.terms` is a hash map in the Rust; the text of a clause with two same-sign terms or with three
or more terms follows the map's iteration order.  Here `terms` is a list and the formatter follows the
list order: the correspondence hands the model the terms in the order the real map iterates.
-/
import PubgrubModel.Tree

namespace Pubgrub

variable {P S V M : Type}

/-! ### collapse_no_versions -/
namespace DerivationTree
variable [DecidableEq P] [VersionSet S V]

/-- `merge_no_versions` -/
def mergeNoVersions (self : DerivationTree P S V M) (package : P) (set : S) :
    R (Option (DerivationTree P S V M)) :=
  match self with
  | .derived _ _ _ _ => .ok (some self)
  | .external (.notRoot _ _) =>
    .error (.panic "How did we end up with a NoVersions merged with a NotRoot?")
  | .external (.noVersions _ _) => .ok none
  | .external (.fromDependencyOf p1 r1 p2 r2) =>
    if p1 = package then
      .ok (some (.external (.fromDependencyOf p1 (VersionSet.union r1 set) p2 r2)))
    else
      .ok (some (.external (.fromDependencyOf p1 r1 p2 (VersionSet.union r2 set))))
  | .external (.custom _ _ _) => .ok none

/-- `collapse_no_versions` -/
def collapseNoVersions : DerivationTree P S V M → R (DerivationTree P S V M)
  | .external e => .ok (.external e)
  | .derived terms sid (.external (.noVersions p r)) c2 =>
    match collapseNoVersions c2 with
    | .error e => .error e
    | .ok c2' =>
      match mergeNoVersions c2' p r with
      | .error e => .error e
      | .ok (some t) => .ok t
      | .ok none => .ok (.derived terms sid (.external (.noVersions p r)) c2')
  | .derived terms sid c1 (.external (.noVersions p r)) =>
    match collapseNoVersions c1 with
    | .error e => .error e
    | .ok c1' =>
      match mergeNoVersions c1' p r with
      | .error e => .error e
      | .ok (some t) => .ok t
      | .ok none => .ok (.derived terms sid c1' (.external (.noVersions p r)))
  | .derived terms sid c1 c2 =>
    match collapseNoVersions c1, collapseNoVersions c2 with
    | .ok c1', .ok c2' => .ok (.derived terms sid c1' c2')
    | .error e, _ => .error e
    | _, .error e => .error e

end DerivationTree

/-! ### the reporter -/

/-- one call of a `ReportFormatter` method (or the empty separator line) -/
inductive Step (P S V M : Type) where
  | bothExternal (e1 e2 : External P S V M) (terms : List (P × Term S))
  | bothRef (ref1 : Nat) (t1 : List (P × Term S)) (ref2 : Nat) (t2 : List (P × Term S))
      (terms : List (P × Term S))
  | refAndExternal (ref : Nat) (t : List (P × Term S)) (e : External P S V M) (terms : List (P × Term S))
  | andExternal (e : External P S V M) (terms : List (P × Term S))
  | andRef (ref : Nat) (t : List (P × Term S)) (terms : List (P × Term S))
  | andPriorAndExternal (prior e : External P S V M) (terms : List (P × Term S))
  | blank

/-- a line of the report: the step and the numbers `add_line_ref` appended to it -/
structure Line (P S V M : Type) where
  step : Step P S V M
  refs : List Nat

/-- `struct DefaultStringReporter` -/
structure Reporter (P S V M : Type) where
  refCount : Nat
  sharedWithRef : List (Nat × Nat)
  lines : List (Line P S V M)

namespace Reporter

def new : Reporter P S V M := { refCount := 0, sharedWithRef := [], lines := [] }

def push (r : Reporter P S V M) (s : Step P S V M) : Reporter P S V M :=
  { r with lines := r.lines ++ [{ step := s, refs := [] }] }

/-- `add_line_ref` -/
def addLineRef (r : Reporter P S V M) : Reporter P S V M :=
  let n := r.refCount + 1
  let lines := match r.lines.getLast? with
    | none => r.lines
    | some l => r.lines.dropLast ++ [{ l with refs := l.refs ++ [n] }]
  { r with refCount := n, lines := lines }

/-- `line_ref_of` -/
def lineRefOf (r : Reporter P S V M) (sid : Option Nat) : Option Nat :=
  sid.bind fun id => SmallMap.get r.sharedWithRef id

mutual

/-- `build_recursive` on `Derived { terms, shared_id, cause1, cause2 }` -/
def buildRecursive : (fuel : Nat) → Reporter P S V M → (terms : List (P × Term S)) → (sid : Option Nat) →
    (c1 c2 : DerivationTree P S V M) → R (Reporter P S V M)
  | 0, _, _, _, _, _ => .error .outOfFuel
  | fuel + 1, r, terms, sid, c1, c2 =>
    match buildRecursiveHelper fuel r terms sid c1 c2 with
    | .error e => .error e
    | .ok r =>
      match sid with
      | none => .ok r
      | some id =>
        if SmallMap.containsKey r.sharedWithRef id then .ok r
        else
          let r := r.addLineRef
          .ok { r with sharedWithRef := SmallMap.insert r.sharedWithRef id r.refCount }

/-- `build_recursive_helper` -/
def buildRecursiveHelper : (fuel : Nat) → Reporter P S V M → (terms : List (P × Term S)) → (sid : Option Nat) →
    (c1 c2 : DerivationTree P S V M) → R (Reporter P S V M)
  | 0, _, _, _, _, _ => .error .outOfFuel
  | fuel + 1, r, terms, sid, c1, c2 =>
    match c1, c2 with
    | .external e1, .external e2 => .ok (r.push (.bothExternal e1 e2 terms))
    | .derived dt dsid dc1 dc2, .external e => reportOneEach fuel r dt dsid dc1 dc2 e terms
    | .external e, .derived dt dsid dc1 dc2 => reportOneEach fuel r dt dsid dc1 dc2 e terms
    | .derived t1 sid1 a1 b1, .derived t2 sid2 a2 b2 =>
      match r.lineRefOf sid1, r.lineRefOf sid2 with
      | some ref1, some ref2 => .ok (r.push (.bothRef ref1 t1 ref2 t2 terms))
      | some ref1, none =>
        match buildRecursive fuel r t2 sid2 a2 b2 with
        | .error e => .error e
        | .ok r => .ok (r.push (.andRef ref1 t1 terms))
      | none, some ref2 =>
        match buildRecursive fuel r t1 sid1 a1 b1 with
        | .error e => .error e
        | .ok r => .ok (r.push (.andRef ref2 t2 terms))
      | none, none =>
        match buildRecursive fuel r t1 sid1 a1 b1 with
        | .error e => .error e
        | .ok r =>
          if sid1.isSome then
            buildRecursive fuel (r.push .blank) terms sid c1 c2
          else
            let r := r.addLineRef
            let ref1 := r.refCount
            match buildRecursive fuel (r.push .blank) t2 sid2 a2 b2 with
            | .error e => .error e
            | .ok r => .ok (r.push (.andRef ref1 t1 terms))

/-- `report_one_each` -/
def reportOneEach : (fuel : Nat) → Reporter P S V M → (dterms : List (P × Term S)) → (dsid : Option Nat) →
    (dc1 dc2 : DerivationTree P S V M) → External P S V M → (currentTerms : List (P × Term S)) →
    R (Reporter P S V M)
  | 0, _, _, _, _, _, _, _ => .error .outOfFuel
  | fuel + 1, r, dterms, dsid, dc1, dc2, e, cur =>
    match r.lineRefOf dsid with
    | some ref => .ok (r.push (.refAndExternal ref dterms e cur))
    | none => reportRecurseOneEach fuel r dterms dsid dc1 dc2 e cur

/-- `report_recurse_one_each` -/
def reportRecurseOneEach : (fuel : Nat) → Reporter P S V M → (dterms : List (P × Term S)) → (dsid : Option Nat) →
    (dc1 dc2 : DerivationTree P S V M) → External P S V M → (currentTerms : List (P × Term S)) →
    R (Reporter P S V M)
  | 0, _, _, _, _, _, _, _ => .error .outOfFuel
  | fuel + 1, r, dterms, dsid, dc1, dc2, e, cur =>
    match dc1, dc2 with
    | .derived pt psid pa pb, .external priorExternal =>
      match buildRecursive fuel r pt psid pa pb with
      | .error err => .error err
      | .ok r => .ok (r.push (.andPriorAndExternal priorExternal e cur))
    | .external priorExternal, .derived pt psid pa pb =>
      match buildRecursive fuel r pt psid pa pb with
      | .error err => .error err
      | .ok r => .ok (r.push (.andPriorAndExternal priorExternal e cur))
    | _, _ =>
      match buildRecursive fuel r dterms dsid dc1 dc2 with
      | .error err => .error err
      | .ok r => .ok (r.push (.andExternal e cur))

end

end Reporter

/-- number of nodes of a tree (for the reporter's fuel) -/
def DerivationTree.size : DerivationTree P S V M → Nat
  | .external _ => 1
  | .derived _ _ c1 c2 => 1 + c1.size + c2.size

/-- what `DefaultStringReporter::report[_with_formatter]` produces, before formatting:
`inl e` for an external top (formatted by `format_external`), otherwise the lines -/
def reportSteps (t : DerivationTree P S V M) : R (External P S V M ⊕ List (Line P S V M)) :=
  match t with
  | .external e => .ok (.inl e)
  | .derived terms sid c1 c2 =>
    match Reporter.buildRecursive (8 * t.size + 8) Reporter.new terms sid c1 c2 with
    | .error e => .error e
    | .ok r => .ok (.inr r.lines)

/-! ### DefaultStringReportFormatter -/
section Formatter
variable [VersionSet S V] [DecidableEq S]
variable (showP : P → String) (showV : V → String) (showS : S → String) (showM : M → String)

/-- `impl Display for External` -/
def formatExternal : External P S V M → String
  | .notRoot p v => "we are solving dependencies of " ++ showP p ++ " " ++ showV v
  | .noVersions p s =>
    if s = (VersionSet.full : S) then "there is no available version for " ++ showP p
    else "there is no version of " ++ showP p ++ " in " ++ showS s
  | .custom p s m =>
    if s = (VersionSet.full : S) then "dependencies of " ++ showP p ++ " are unavailable " ++ showM m
    else "dependencies of " ++ showP p ++ " at version " ++ showS s ++ " are unavailable " ++ showM m
  | .fromDependencyOf p sp d sd =>
    if sp = (VersionSet.full : S) && sd = (VersionSet.full : S) then showP p ++ " depends on " ++ showP d
    else if sp = (VersionSet.full : S) then showP p ++ " depends on " ++ showP d ++ " " ++ showS sd
    else if sd = (VersionSet.full : S) then showP p ++ " " ++ showS sp ++ " depends on " ++ showP d
    else showP p ++ " " ++ showS sp ++ " depends on " ++ showP d ++ " " ++ showS sd

/-- `format_terms` (over the iteration order of the map) -/
def formatTerms (terms : List (P × Term S)) : String :=
  match terms with
  | [] => "version solving failed"
  | [(p, .pos r)] => showP p ++ " " ++ showS r ++ " is forbidden"
  | [(p, .neg r)] => showP p ++ " " ++ showS r ++ " is mandatory"
  | [(p1, .pos r1), (p2, .neg r2)] => formatExternal showP showV showS showM (.fromDependencyOf p1 r1 p2 r2 : External P S V M)
  | [(p1, .neg r1), (p2, .pos r2)] => formatExternal showP showV showS showM (.fromDependencyOf p2 r2 p1 r1 : External P S V M)
  | slice =>
    ", ".intercalate (slice.map fun (p, t) => showP p ++ " " ++ Term.display showS t) ++ " are incompatible"

/-- the eight templates -/
def formatStep : Step P S V M → String
  | .bothExternal e1 e2 t =>
    "Because " ++ formatExternal showP showV showS showM e1 ++ " and " ++ formatExternal showP showV showS showM e2 ++
      ", " ++ formatTerms (M := M) showP showV showS showM t ++ "."
  | .bothRef r1 t1 r2 t2 t =>
    "Because " ++ formatTerms (M := M) showP showV showS showM t1 ++ " (" ++ toString r1 ++ ") and " ++
      formatTerms (M := M) showP showV showS showM t2 ++ " (" ++ toString r2 ++ "), " ++
      formatTerms (M := M) showP showV showS showM t ++ "."
  | .refAndExternal r dt e t =>
    "Because " ++ formatTerms (M := M) showP showV showS showM dt ++ " (" ++ toString r ++ ") and " ++
      formatExternal showP showV showS showM e ++ ", " ++ formatTerms (M := M) showP showV showS showM t ++ "."
  | .andExternal e t =>
    "And because " ++ formatExternal showP showV showS showM e ++ ", " ++
      formatTerms (M := M) showP showV showS showM t ++ "."
  | .andRef r dt t =>
    "And because " ++ formatTerms (M := M) showP showV showS showM dt ++ " (" ++ toString r ++ "), " ++
      formatTerms (M := M) showP showV showS showM t ++ "."
  | .andPriorAndExternal pe e t =>
    "And because " ++ formatExternal showP showV showS showM pe ++ " and " ++
      formatExternal showP showV showS showM e ++ ", " ++ formatTerms (M := M) showP showV showS showM t ++ "."
  | .blank => ""

/-- a line with the numbers appended by `add_line_ref` -/
def formatLine (l : Line P S V M) : String :=
  l.refs.foldl (fun acc n => acc ++ " (" ++ toString n ++ ")") (formatStep showP showV showS showM l.step)

/-- `DefaultStringReporter::report` -/
def reportText (t : DerivationTree P S V M) : R String :=
  match reportSteps t with
  | .error e => .error e
  | .ok (.inl e) => .ok (formatExternal showP showV showS showM e)
  | .ok (.inr lines) => .ok ("\n".intercalate (lines.map (formatLine showP showV showS showM)))

end Formatter
end Pubgrub

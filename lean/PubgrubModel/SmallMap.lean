/-
Model of `/repo/src/internal/small_map.rs` (and of the few `FxHashMap` / `IndexMap` uses that need
the same interface): an association list with the Rust semantics of `get` (first match), `insert`
(overwrite in place or append), `remove`, `split_one`, `merge`.

`SmallMap::Flexible` is a hash map: its iteration order is not modelled (list order stands for *an*
enumeration order); everything printed by the driver is sorted by key.
-/
namespace Pubgrub

abbrev SmallMap (K T : Type) := List (K × T)

namespace SmallMap
variable {K T : Type} [DecidableEq K]

/-- `get` -/
def get : SmallMap K T → K → Option T
  | [], _ => none
  | (k, v) :: m, key => if key = k then some v else get m key

/-- `insert` -/
def insert : SmallMap K T → K → T → SmallMap K T
  | [], key, value => [(key, value)]
  | (k, v) :: m, key, value => if key = k then (k, value) :: m else (k, v) :: insert m key value

/-- `remove` (the removed value is not needed by any caller that is modelled) -/
def remove : SmallMap K T → K → SmallMap K T
  | [], _ => []
  | (k, v) :: m, key => if key = k then m else (k, v) :: remove m key

/-- `split_one` -/
def splitOne (m : SmallMap K T) (key : K) : Option (T × SmallMap K T) :=
  match get m key with
  | none => none
  | some v => some (v, remove m key)

/-- `merge` -/
def merge (m : SmallMap K T) (m2 : List (K × T)) (f : T → T → Option T) : SmallMap K T :=
  m2.foldl (fun acc kv =>
    match get acc kv.1 with
    | none => insert acc kv.1 kv.2
    | some v1 =>
      match f v1 kv.2 with
      | none => remove acc kv.1
      | some merged => insert acc kv.1 merged) m

def containsKey (m : SmallMap K T) (key : K) : Bool := (get m key).isSome

/-- `HashMap::retain` / order-preserving filter on values -/
def retainVals (m : SmallMap K T) (p : T → Bool) : SmallMap K T := m.filter fun kv => p kv.2

end SmallMap
end Pubgrub

/-
TARGET FILE: PubgrubProofs/RangeTermination.lean
Termination of `resolve` for `Range V` over ANY linear order and a finite registry, from the generic
termination theorem (PubgrubProofs/Termination.lean: `resolve_terminates`, `resolve_total`, for lawful
version sets with canonical emptiness and a `FiniteWorld` — PubgrubProofs/TermDefs.lean) applied to the
image registry over the dense order `Dense V = V ×ₗ ℚ` (RangeHom.lean, HomSolver.lean, RangeAnyOrder*.lean).
IMPORTANT: in your workspace PubgrubProofs/Termination.lean is the SKELETON (statements final, proofs
`sorry`, being proved by someone else) — use `resolve_terminates` / `resolve_total` as given, do not edit.

Two things to do.
(1) Test versions exist: for a finite registry every generated set of the image world has all its
    bound VALUES in `ι '' boundsOf p`, where `boundsOf p` lists: `rv` (if `p = root`), the offered
    versions of `p`, and the bound values of every dependency set on `p` declared by an offered version
    of a package of `pkgs`.  [Needs: bound values of `Range.complement / intersection / union / singleton /
    empty / full` results are among the bound values of the inputs — new lemmas about the model's sweeps
    (PubgrubModel/Range.lean), by `fun_induction`, for arbitrary segment lists; no well-formedness needed.]
    Membership of a point `d` in a segment list whose bound values lie in a set `B` depends only on how `d`
    compares (`<`, `=`, `>`) with each element of `B`; and for `B = ι '' boundsOf p` every `d : Dense V`
    has the same comparison profile as one of the test points `(b, -1), (b, 0), (b, 1)` (`b ∈ boundsOf p`)
    [if `d = (x, q)` with `x ∈ boundsOf p`: `(x, sign q)`; else with `b*` the largest bound below `x`:
    `(b*, 1)`; else, with `b₀` the smallest bound: `(b₀, -1)`; `boundsOf p` may be taken non-empty by
    always adding `rv`].  Hence `FiniteWorld.separated`.
(2) Transfer: `WellBehavedRun` of the run over `V` gives `WellBehavedRun` of the image run
    (`trace_mapH`, `answerOK_mapH`, `answerWellBehaved_mapH`, `isFinal_mapH`), `after_mapH` relates the
    final requests, `Request.mapH` preserves `isFinal`, `outOfFuel`, and the constructors.
Replace every `sorry`; helpers in PubgrubProofs/RangeTerminationAux*.lean; keep the target statements.
-/
import PubgrubProofs.Termination
import PubgrubProofs.RangeAnyOrder
import PubgrubProofs.RangeTerminationAux2

set_option linter.unusedSectionVars false

namespace Pubgrub
open VersionSet

variable {P V M Pr E : Type} [DecidableEq P] [LinearOrder V] [LE Pr] [DecidableLE Pr]

/-- a finite registry: finitely many packages are involved (each offers finitely many versions:
`versions p` is a list) -/
structure FiniteRegistry (W : World P (Range V) V M) (root : P) where
  pkgs : List P
  root_mem : root ∈ pkgs
  deps_mem : ∀ p v ds, v ∈ W.versions p → W.deps p v = .available ds → ∀ d ∈ ds, d.1 ∈ pkgs

set_option linter.unusedVariables false in
/-- the image registry over the dense order is a `FiniteWorld` -/
noncomputable def FiniteRegistry.finiteWorld (W : World P (Range V) V M) (hW : W.RangesWF) (root : P) (rv : V)
    (fr : FiniteRegistry W root) :
    FiniteWorld (World.mapH Range.denseHom Dense.back W) root (Range.denseHom.ι rv) := by
  exact
    { pkgs := fr.pkgs
      root_mem := fr.root_mem
      deps_mem := by
        intro p v' ds' hv' hds' d hd
        simp only [World.mapH, List.mem_map] at hv'
        obtain ⟨v, hv, rfl⟩ := hv'
        rw [World.mapH_deps Range.denseHom Dense.back Dense.back_ι] at hds'
        obtain ⟨ds, hds, rfl⟩ := DepsAnswer.mapH_available _ _ _ hds'
        obtain ⟨q, s'⟩ := d
        obtain ⟨s, hs, rfl⟩ := (mem_depsMapH _ ds q s').1 hd
        exact fr.deps_mem p v ds hv hds (q, s) hs
      tests := fun p => Dense.testsOf (boundsOf W fr.pkgs rv p)
      separated := fun p a b ha hb h d => generated_separated W root rv fr.pkgs p a b ha hb h d }


/-- a well-behaved run over `V` is carried to a well-behaved run of the image registry -/
theorem WellBehavedRun.image (W : World P (Range V) V M) (debug : Bool) (fuel : Nat) (root : P) (rv : V)
    (as : List (Answer P (Range V) V M Pr E)) (h : WellBehavedRun W debug fuel root rv as) :
    WellBehavedRun (World.mapH Range.denseHom Dense.back W) debug fuel root (Range.denseHom.ι rv)
      (as.map (Answer.mapH Range.denseHom)) := by
  intro k a' ha'
  rw [List.getElem?_map] at ha'
  obtain ⟨a, ha, rfl⟩ := Option.map_eq_some_iff.1 ha'
  obtain ⟨r, hr, hwb⟩ := h k a ha
  refine ⟨Request.mapH Range.denseHom r, ?_, ?_⟩
  · rw [trace_mapH, List.getElem?_map, hr]; rfl
  · intro hfin
    rw [isFinal_mapH] at hfin
    obtain ⟨h1, h2⟩ := hwb hfin
    exact ⟨answerOK_mapH Range.denseHom Dense.back Dense.back_ι W r a h1,
      answerWellBehaved_mapH Range.denseHom r a h2⟩

/-- the final request of the image run is the image of the final request -/
theorem after_image (debug : Bool) (fuel : Nat) (root : P) (rv : V)
    (as : List (Answer P (Range V) V M Pr E)) :
    (Solver.after (Solver.start debug fuel root (Range.denseHom.ι rv))
        (as.map (Answer.mapH Range.denseHom))).2 =
      Request.mapH Range.denseHom (Solver.after (Solver.start debug fuel root rv) as).2 := by
  rw [start_mapH Range.denseHom debug fuel root rv, after_mapH]

/-- C05 (termination) for `Range` over any linear order: for a finite registry there are bounds `N`
(provider calls) and `fuel0` such that every well-behaved run of at least `N` answers with fuel at least
`fuel0` has returned, and not by running out of fuel -/
theorem range_resolve_terminates (W : World P (Range V) V M) (hW : W.RangesWF) (root : P) (rv : V)
    (fr : FiniteRegistry W root) (debug : Bool) :
    ∃ N fuel0 : Nat, ∀ fuel, fuel0 ≤ fuel → ∀ as : List (Answer P (Range V) V M Pr E), N ≤ as.length →
      WellBehavedRun W debug fuel root rv as →
      (Solver.after (Solver.start debug fuel root rv) as).2.isFinal = true ∧
      (Solver.after (Solver.start debug fuel root rv) as).2 ≠ .fault .outOfFuel := by
  have : Nonempty V := ⟨rv⟩
  have hW' := World.setsValid_mapH W hW
  obtain ⟨N, fuel0, hN⟩ := resolve_terminates (Pr := Pr) (E := E) _ hW' root (Range.denseHom.ι rv)
    (fr.finiteWorld W hW root rv) debug
  refine ⟨N, fuel0, ?_⟩
  intro fuel hfuel as hlen hwb
  obtain ⟨h1, h2⟩ := hN fuel hfuel (as.map (Answer.mapH Range.denseHom)) (by simpa using hlen)
    (WellBehavedRun.image W debug fuel root rv as hwb)
  rw [after_image] at h1 h2
  constructor
  · rw [isFinal_mapH] at h1; exact h1
  · intro he
    apply h2
    rw [he]; rfl

/-- … and it returned `Ok` or `NoSolution` (or the model's `protocolError` for an ill-typed answer) -/
theorem range_resolve_total (W : World P (Range V) V M) (hW : W.RangesWF) (root : P) (rv : V)
    (fr : FiniteRegistry W root) (debug : Bool) :
    ∃ N fuel0 : Nat, ∀ fuel, fuel0 ≤ fuel → ∀ as : List (Answer P (Range V) V M Pr E), N ≤ as.length →
      WellBehavedRun W debug fuel root rv as →
      (∃ sel, (Solver.after (Solver.start debug fuel root rv) as).2 = .solution sel) ∨
      (∃ t, (Solver.after (Solver.start debug fuel root rv) as).2 = .noSolution t) ∨
      (∃ m, (Solver.after (Solver.start debug fuel root rv) as).2 = .protocolError m) := by
  have : Nonempty V := ⟨rv⟩
  have hW' := World.setsValid_mapH W hW
  obtain ⟨N, fuel0, hN⟩ := resolve_total (Pr := Pr) (E := E) _ hW' root (Range.denseHom.ι rv)
    (fr.finiteWorld W hW root rv) debug
  refine ⟨N, fuel0, ?_⟩
  intro fuel hfuel as hlen hwb
  have h := hN fuel hfuel (as.map (Answer.mapH Range.denseHom)) (by simpa using hlen)
    (WellBehavedRun.image W debug fuel root rv as hwb)
  rw [after_image] at h
  rcases h with ⟨sel', hs⟩ | ⟨t', ht⟩ | ⟨m, hm⟩
  · exact Or.inl (Request.mapH_solution _ _ _ hs)
  · exact Or.inr (Or.inl (Request.mapH_noSolution _ _ _ ht))
  · exact Or.inr (Or.inr ⟨m, Request.mapH_protocolError _ _ _ hm⟩)

end Pubgrub

/-
Helpers for `ReachabilityC04.lean`, part 4: the minimal-counterexample argument, from the facts that
hold in the state a solution is returned from.
-/
import PubgrubProofs.ReachabilityC04Aux3

set_option linter.unusedSectionVars false
set_option linter.unusedVariables false

namespace Pubgrub
open VersionSet

section
variable {P S V M Pr : Type} [DecidableEq P] [VersionSet S V] [DecidableEq S]
  [LawfulVersionSet S V]

/-- what is known of the state `resolve` returns a solution from -/
structure C04ExitFacts (W : World P S V M) (root : P) (rv : V) (st : State P S V M Pr)
    (σ : P → Option V) : Prop where
  wf : st.ps.WF
  nopos : ∀ p pa set, st.ps.getPA p = some pa → pa.inter ≠ .derivations (.pos set)
  sel : ∀ p v, σ p = some v ↔ ∃ pa g t, st.ps.getPA p = some pa ∧ pa.inter = .decision g v t
  store : StoreInv W root rv st.store
  tv : st.ps.TermsValid
  cause : st.CauseInv
  chain : st.DDChainInv
  sol : IsSolution W root rv σ

/-- the first dated derivation of `q` with a positive accumulated term has global index `g` -/
def C04FirstPosAt (st : State P S V M Pr) (q : P) (g : Nat) : Prop :=
  ∃ pa pre dd suf, st.ps.getPA q = some pa ∧ pa.dated = pre ++ dd :: suf ∧
    (∀ e ∈ pre, e.accumulated.isPositive = false) ∧ dd.accumulated.isPositive = true ∧
    dd.globalIndex = g

/-- the selection without the unreachable packages -/
noncomputable def pruneSel (W : World P S V M) (root : P) (σ : P → Option V) : P → Option V :=
  fun q => open Classical in if ReachableFrom W root σ q then σ q else none

theorem pruneSel_some {W : World P S V M} {root : P} {σ : P → Option V} {q : P} {w : V}
    (h : pruneSel W root σ q = some w) : ReachableFrom W root σ q ∧ σ q = some w := by
  unfold pruneSel at h
  split at h
  · rename_i hr; exact ⟨hr, h⟩
  · cases h

theorem pruneSel_of_reach {W : World P S V M} {root : P} {σ : P → Option V} {q : P}
    (h : ReachableFrom W root σ q) : pruneSel W root σ q = σ q := by
  unfold pruneSel; rw [if_pos h]

theorem pruneSel_of_not_reach {W : World P S V M} {root : P} {σ : P → Option V} {q : P}
    (h : ¬ ReachableFrom W root σ q) : pruneSel W root σ q = none := by
  unfold pruneSel; rw [if_neg h]

/-- unselecting the unreachable packages of a solution leaves a solution -/
theorem pruneSel_solution {W : World P S V M} {root : P} {rv : V} {σ : P → Option V}
    (h : IsSolution W root rv σ) : IsSolution W root rv (pruneSel W root σ) := by
  refine ⟨?_, ?_, ?_⟩
  · rw [pruneSel_of_reach ReachableFrom.root]; exact h.root
  · intro p v hp; exact h.offered p v (pruneSel_some hp).2
  · intro p v hp
    obtain ⟨hr, hs⟩ := pruneSel_some hp
    obtain ⟨ds, hds, hall⟩ := h.deps p v hs
    refine ⟨ds, hds, ?_⟩
    intro q s hq
    obtain ⟨w, hw, hc⟩ := hall q s hq
    exact ⟨w, by rw [pruneSel_of_reach (ReachableFrom.dep p q v ds s hr hs hds hq)]; exact hw, hc⟩

variable {W : World P S V M} {root : P} {rv : V} {st : State P S V M Pr} {σ : P → Option V}

theorem C04ExitFacts.pachain (h : C04ExitFacts W root rv st σ) {p : P} {pa : PackageAssignments S V}
    (hpa : st.ps.getPA p = some pa) : PADDChain st.store p pa :=
  h.chain (p, pa) (SmallMap.mem_of_get hpa)

theorem C04ExitFacts.causeValid (h : C04ExitFacts W root rv st σ) (p : P) :
    ∀ (id : Nat) inc t, st.store[id]? = some inc → inc.get p = some t → t.Valid :=
  fun id inc t hi ht => Incompat.get_valid W root rv h.store hi ht

/-- a package with a positive derivation has a first one, not later -/
theorem C04ExitFacts.firstPos_of_pos (h : C04ExitFacts W root rv st σ) {r : P} {par : PackageAssignments S V}
    (hpar : st.ps.getPA r = some par) {dd : DatedDerivation S} (hdd : dd ∈ par.dated)
    (hpos : dd.accumulated.isPositive = true) : ∃ g', g' ≤ dd.globalIndex ∧ C04FirstPosAt st r g' := by
  obtain ⟨pre, x, suf, e, hx, hpre⟩ :=
    c04_exists_first (fun d : DatedDerivation S => d.accumulated.isPositive) par.dated ⟨dd, hdd, hpos⟩
  refine ⟨x.globalIndex, ?_, par, pre, x, suf, hpar, e, hpre, hx, rfl⟩
  obtain ⟨i, _, hi⟩ := PartialSolution.getElem_of_getPA hpar
  obtain ⟨h1, h2⟩ := c04_indices_split (h.wf.entries i r par hi).indices e
  rw [e] at hdd
  simp only [List.mem_append, List.mem_cons] at hdd
  rcases hdd with hdd | rfl | hdd
  · have : dd.accumulated.isPositive = false := hpre dd hdd
    rw [hpos] at this; cases this
  · exact Nat.le_refl _
  · exact Nat.le_of_lt (h2 dd hdd)

/-- a decided package has a first positive derivation -/
theorem C04ExitFacts.firstPos_of_decided (h : C04ExitFacts W root rv st σ) {q : P}
    {pa : PackageAssignments S V} {g : Nat} {v : V} {t : Term S}
    (hpa : st.ps.getPA q = some pa) (hint : pa.inter = .decision g v t) : ∃ g', C04FirstPosAt st q g' := by
  obtain ⟨l, hl, hlp⟩ := (h.pachain hpa).dec g v t hint
  obtain ⟨g', _, hg'⟩ := h.firstPos_of_pos hpa (List.mem_of_getLast? hl) hlp
  exact ⟨g', hg'⟩

/-- at the exit a package with a positive derivation is decided -/
theorem C04ExitFacts.decided_of_pos (h : C04ExitFacts W root rv st σ) {r : P} {par : PackageAssignments S V}
    (hpar : st.ps.getPA r = some par) {dd : DatedDerivation S} (hdd : dd ∈ par.dated)
    (hpos : dd.accumulated.isPositive = true) : ∃ g v t, par.inter = .decision g v t := by
  cases hint : par.inter with
  | decision g v t => exact ⟨g, v, t, rfl⟩
  | derivations t' =>
    exfalso
    obtain ⟨l, hl, hla⟩ := (h.pachain hpar).cur t' hint
    have hpw := ddchain_pos_pairwise st.store r par.dated none (h.pachain hpar).chain
    have hlpos : l.accumulated.isPositive = true := by
      rcases pairwise_getLast hpw hl dd hdd with rfl | hr
      · exact hpos
      · exact hr hpos
    rw [hla] at hlpos
    cases t' with
    | pos set => exact h.nopos r par set hpar hint
    | neg set => simp [Term.isPositive] at hlpos

/-- the index of an entry and what I-PS says of a decided one -/
theorem C04ExitFacts.decided_entry (h : C04ExitFacts W root rv st σ) {r : P} {par : PackageAssignments S V}
    (hpar : st.ps.getPA r = some par) {gd : Nat} {w : V} {t' : Term S}
    (hint : par.inter = .decision gd w t') :
    t' = Term.exact w ∧ (∀ dd ∈ par.dated, dd.globalIndex < gd) ∧
    (∀ dd, par.dated.getLast? = some dd → dd.accumulated.contains w = true) := by
  obtain ⟨i, _, hi⟩ := PartialSolution.getElem_of_getPA hpar
  have hlt := PartialSolution.decided_lt h.wf hi hint
  obtain ⟨g, v, h1, _, _, h4, h5⟩ := (h.wf.entries i r par hi).decided hlt
  rw [hint] at h1
  injection h1 with e1 e2 e3
  subst e1; subst e2
  exact ⟨e3, h4, h5⟩

/-- a positive `termBefore g` comes from a positive derivation before `g` -/
theorem C04ExitFacts.pos_before (h : C04ExitFacts W root rv st σ) {r : P} {par : PackageAssignments S V}
    (hpar : st.ps.getPA r = some par) {g : Nat} {t : Term S} (htb : par.termBefore g = some t)
    (hpos : t.isPositive = true) :
    ∃ dd ∈ par.dated, dd.accumulated.isPositive = true ∧ dd.globalIndex < g := by
  rcases c04_termBefore_cases htb with ⟨gd, v, hint, hlt⟩ | ⟨dd, hdd, hlt, hacc⟩
  · obtain ⟨l, hl, hlp⟩ := (h.pachain hpar).dec gd v t hint
    obtain ⟨_, h4, _⟩ := h.decided_entry hpar hint
    have hlm := List.mem_of_getLast? hl
    exact ⟨l, hlm, hlp, Nat.lt_trans (h4 l hlm) hlt⟩
  · exact ⟨dd, hdd, by rw [hacc]; exact hpos, hlt⟩

/-- `termBefore` is a valid term -/
theorem C04ExitFacts.termBefore_valid (h : C04ExitFacts W root rv st σ) {r : P} {par : PackageAssignments S V}
    (hpar : st.ps.getPA r = some par) {g : Nat} {t : Term S} (htb : par.termBefore g = some t) :
    t.Valid := by
  have hv := PartialSolution.termsValid_of_getPA h.tv hpar
  rcases c04_termBefore_cases htb with ⟨gd, v, hint, hlt⟩ | ⟨dd, hdd, hlt, hacc⟩
  · have := hv.inter; rw [hint] at this; exact this
  · rw [← hacc]; exact hv.dated dd hdd

/-- the decided version lies in every `termBefore` of its package -/
theorem C04ExitFacts.termBefore_contains (h : C04ExitFacts W root rv st σ) {r : P}
    {par : PackageAssignments S V} (hpar : st.ps.getPA r = some par) {gd : Nat} {w : V} {t' : Term S}
    (hint : par.inter = .decision gd w t') {g : Nat} {t : Term S} (htb : par.termBefore g = some t) :
    t.contains w = true := by
  obtain ⟨h3, h4, h5⟩ := h.decided_entry hpar hint
  rcases c04_termBefore_cases htb with ⟨gd', v', hint', hlt⟩ | ⟨dd, hdd, hlt, hacc⟩
  · rw [hint] at hint'
    injection hint' with _ _ e3
    rw [← e3, h3]
    simp [Term.exact, Term.contains, (LawfulVersionSet.contains_singleton (S := S) w w).2 rfl]
  · have hv := PartialSolution.termsValid_of_getPA h.tv hpar
    have hpw := ddchain_shrink_pairwise (V := V) st.store r (h.causeValid r) par.dated none
      (h.pachain hpar).chain hv.dated
    cases hl : par.dated.getLast? with
    | none => rw [List.getLast?_eq_none_iff] at hl; rw [hl] at hdd; simp at hdd
    | some l =>
      have hlw := h5 l hl
      rw [← hacc]
      rcases pairwise_getLast hpw hl dd hdd with rfl | hr
      · exact hlw
      · exact hr w hlw

end
end Pubgrub

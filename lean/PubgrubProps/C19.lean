/-
Property C19 — Serialization round-trips (serde feature).

Theorems about the model of the wire format (`PubgrubModel/Serde.lean`: `Json` = the self-describing
data model; `encRange`/`decRange` = `#[serde(transparent)]` + serde's externally tagged `Bound` + the
untagged `EitherInterval` tried `B` then `D`; `SemanticVersion` = its Display string).  The serde /
serde_json / ron libraries themselves are trusted (DESIGN.md section 8).
The `OfflineDependencyProvider` round trip is `C19_provider_roundtrip` (nested maps; the decoded store
answers every query — dependencies, versions, packages, choose_version, prioritize — like the original,
so resolving against it is the same run: `C19_same_resolution`, with C07's `answersOf`).  Not modelled: RON support of the round trip (the pinned
`ron 0.9.0-alpha.0` cannot read back an untagged enum containing `Bound`, see DESIGN.md section 9).
-/
import PubgrubProofs.SerdeLaws
import PubgrubProofs.SemVerLaws
import PubgrubProofs.ProviderSerde
import PubgrubProps.C07

namespace Pubgrub.C19
open Pubgrub Pubgrub.Serde Bound

variable {V : Type}

/-- Range: deserialize ∘ serialize = id, for every segment list (canonical or not), through the data
model … -/
theorem C19_range_roundtrip (encV : V → Json) (decV : Json → Option V)
    (h : ∀ v, decV (encV v) = some v) (r : Range V) :
    decRange decV (encRange encV r) = some r := decRange_encRange encV decV h r

/-- … and through the JSON text -/
theorem C19_range_text_roundtrip (encV : V → Json) (decV : Json → Option V)
    (h : ∀ v, decV (encV v) = some v) (hcl : ∀ v, Json.Clean (encV v)) (r : Range V) :
    (Json.parse (String.ofList (Json.renderC (encRange encV r)))).bind (decRange decV) = some r :=
  text_round_trip encV decV h hcl r

/-- the legacy encoding (start, Some(end)) / (start, None) decodes to start ≤ v < end / start ≤ v,
provided a version's own encoding is not a `Bound` encoding (true for integers and semantic versions) -/
theorem C19_legacy (encV : V → Json) (decV : Json → Option V) (h : ∀ v, decV (encV v) = some v)
    (hnull : decV .null = none) (hnb : ∀ v, NotBoundLike decV (encV v))
    (pairs : List (V × Option V)) :
    decRange decV (.arr (pairs.map (legacyEnc encV))) = some (pairs.map legacyDec) :=
  decRange_legacy encV decV h hnull hnb pairs

theorem C19_legacy_nat (pairs : List (Nat × Option Nat)) :
    decRange decNat (.arr (pairs.map (legacyEnc encNat))) = some (pairs.map legacyDec) :=
  decRange_legacy_nat pairs

/-- SemanticVersion round trip -/
theorem C19_semver_roundtrip (v : SemVer) (hv : v.Valid) : decSemVer (encSemVer v) = some v :=
  decSemVer_encSemVer v (SemVer.parse_display v hv)

/-- OfflineDependencyProvider: deserialize ∘ serialize yields a provider with the same packages,
versions, dependencies and the same answers to `choose_version` / `prioritize` -/
theorem C19_provider_roundtrip {P S V : Type} [DecidableEq P] [LinearOrder V]
    [VersionSet S V] (keyP : P → String) (keyV : V → String) (encS : S → Json)
    (readP : String → Option P) (readV : String → Option V) (decS : Json → Option S)
    (hP : ∀ p, readP (keyP p) = some p) (hV : ∀ v, readV (keyV v) = some v)
    (hS : ∀ s, decS (encS s) = some s) (ops : List (Offline.AddOp P S V)) :
    ∃ o', Offline.decProvider readP readV decS (Offline.encProvider keyP keyV encS (Offline.run ops)) = some o' ∧
      (∀ p v, Offline.getDependencies o' p v = Offline.getDependencies (Offline.run ops) p v) ∧
      (∀ p s, Offline.chooseVersion o' p s = Offline.chooseVersion (Offline.run ops) p s) ∧
      (∀ p s, Offline.matchingCount o' p s = Offline.matchingCount (Offline.run ops) p s) :=
  Offline.decProvider_encProvider_queries (keyP := keyP) (readP := readP) (keyV := keyV) (readV := readV) (encS := encS) (decS := decS) (hP := hP) (hV := hV) (hS := hS) (ops := ops)

/-- … and it has the same packages and versions (the decoded store is a permutation of the original) -/
theorem C19_provider_same_content {P S V : Type} [DecidableEq P] [DecidableEq V]
    (keyP : P → String) (keyV : V → String) (encS : S → Json)
    (readP : String → Option P) (readV : String → Option V) (decS : Json → Option S)
    (hP : ∀ p, readP (keyP p) = some p) (hV : ∀ v, readV (keyV v) = some v)
    (hS : ∀ s, decS (encS s) = some s) (ops : List (Offline.AddOp P S V)) :
    ∃ o', Offline.decProvider readP readV decS (Offline.encProvider keyP keyV encS (Offline.run ops)) = some o' ∧
      o'.Perm (Offline.run ops) ∧
      (∀ p v, Offline.getDependencies o' p v = Offline.getDependencies (Offline.run ops) p v) ∧
      (∀ p v, v ∈ Offline.versionsOf o' p ↔ v ∈ Offline.versionsOf (Offline.run ops) p) ∧
      (∀ p, p ∈ Offline.packages o' ↔ p ∈ Offline.packages (Offline.run ops)) := by
  obtain ⟨o', h1, _, h2, h3, h4, h5⟩ :=
    Offline.decProvider_encProvider_strong keyP readP keyV readV encS decS hP hV hS ops
  exact ⟨o', h1, h2, h3, h4, h5⟩

section SameResolution
variable {P S V Pr E : Type} [DecidableEq P] [LinearOrder V] [VersionSet S V] [DecidableEq S]
  [LE Pr] [DecidableLE Pr]

/-- what an `OfflineDependencyProvider` answers to the solver's requests: `should_cancel` is `Ok`,
`prioritize` is a function `prio` of the number of matching versions (`Reverse(count)` in the crate),
`choose_version` the newest matching version, `get_dependencies` the stored dependencies or
`Unavailable(reason)`; the heap's choice among maximal packages is the parameter `heap` -/
def offlineAnswer (o : Offline P S V) (prio : Nat → Pr) (heap : List (P × Pr) → Option P) (reason : String) :
    Request P S V String Pr E → Answer P S V String Pr E
  | .prioritize p s => .priority (prio (Offline.matchingCount o p s))
  | .pick q => .picked (heap q)
  | .chooseVersion p s => .version (Offline.chooseVersion o p s)
  | .getDependencies p v =>
    match Offline.getDependencies o p v with
    | some ds => .available ds
    | none => .unavailable reason
  | _ => .ok

/-- a provider that answers the last request of the history with `offlineAnswer` -/
def offlineProvider (o : Offline P S V) (prio : Nat → Pr) (heap : List (P × Pr) → Option P) (reason : String)
    (history : List (Request P S V String Pr E)) : Answer P S V String Pr E :=
  match history.getLast? with
  | some r => offlineAnswer o prio heap reason r
  | none => .ok

/-- "resolving against the deserialized provider gives the same result": the same answers, the same
calls, the same final result, for every number of rounds -/
theorem C19_same_resolution (keyP : P → String) (keyV : V → String) (encS : S → Json)
    (readP : String → Option P) (readV : String → Option V) (decS : Json → Option S)
    (hP : ∀ p, readP (keyP p) = some p) (hV : ∀ v, readV (keyV v) = some v)
    (hS : ∀ s, decS (encS s) = some s) (ops : List (Offline.AddOp P S V))
    (prio : Nat → Pr) (heap : List (P × Pr) → Option P) (reason : String) :
    ∃ o', Offline.decProvider readP readV decS (Offline.encProvider keyP keyV encS (Offline.run ops)) = some o' ∧
      ∀ (debug : Bool) (fuel : Nat) (root : P) (rv : V) (n : Nat),
        Solver.trace debug fuel root rv
            (C07.answersOf (offlineProvider (E := E) o' prio heap reason) debug fuel root rv n) =
          Solver.trace debug fuel root rv
            (C07.answersOf (offlineProvider (E := E) (Offline.run ops) prio heap reason) debug fuel root rv n) ∧
        (Solver.after (Solver.start debug fuel root rv)
            (C07.answersOf (offlineProvider (E := E) o' prio heap reason) debug fuel root rv n)).2 =
          (Solver.after (Solver.start debug fuel root rv)
            (C07.answersOf (offlineProvider (E := E) (Offline.run ops) prio heap reason) debug fuel root rv n)).2 := by
  obtain ⟨o', h1, h2, h3, h4⟩ :=
    Offline.decProvider_encProvider_queries (keyP := keyP) (readP := readP) (keyV := keyV) (readV := readV)
      (encS := encS) (decS := decS) (hP := hP) (hV := hV) (hS := hS) (ops := ops)
  refine ⟨o', h1, ?_⟩
  have hfun : offlineProvider (E := E) o' prio heap reason =
      offlineProvider (E := E) (Offline.run ops) prio heap reason := by
    funext history
    unfold offlineProvider
    cases history.getLast? with
    | none => rfl
    | some r =>
      cases r <;> simp only [offlineAnswer, h2, h3, h4]
  intro debug fuel root rv n
  rw [hfun]
  exact ⟨rfl, rfl⟩

end SameResolution

/-! Non-vacuity -/
example : decRange decNat (.arr [.arr [.num 1, .num 3], .arr [.num 5, .null]]) =
    some [(incl 1, excl 3), (incl 5, unb)] := by decide

end Pubgrub.C19

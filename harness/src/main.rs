mod cases;
mod containers;
mod dag;
mod eval;
mod gen_pure;
mod gen_solver;
mod hset;
mod misc;
mod solver;
mod treeck;
mod vset;
mod pure;
mod report;
mod scale;
mod util;

use cases::Sink;

/// a `log` sink that formats every record: the arguments of the crate's log macros are evaluated (a panic or
/// a side effect inside one shows), at Trace level.  Off with VERIF_NO_LOG=1.
struct FormatAll;
static FORMAT_ALL: FormatAll = FormatAll;
static LOG_BYTES: std::sync::atomic::AtomicU64 = std::sync::atomic::AtomicU64::new(0);
impl log::Log for FormatAll {
    fn enabled(&self, _: &log::Metadata) -> bool {
        true
    }
    fn log(&self, record: &log::Record) {
        use std::fmt::Write;
        struct Count(u64);
        impl Write for Count {
            fn write_str(&mut self, s: &str) -> std::fmt::Result {
                self.0 += s.len() as u64;
                Ok(())
            }
        }
        let mut c = Count(0);
        let _ = write!(c, "{}", record.args());
        LOG_BYTES.fetch_add(c.0, std::sync::atomic::Ordering::Relaxed);
    }
    fn flush(&self) {}
}

fn main() {
    std::panic::set_hook(Box::new(|_| {}));
    if std::env::var("VERIF_NO_LOG").map(|v| v != "1").unwrap_or(true) {
        let _ = log::set_logger(&FORMAT_ALL);
        log::set_max_level(log::LevelFilter::Trace);
    }
    let args: Vec<String> = std::env::args().collect();
    match args.get(1).map(|s| s.as_str()) {
        Some("gen") => {
            let (prop, tier, seed, dir) = (&args[2], &args[3], args[4].parse::<u64>().unwrap(), &args[5]);
            let thorough = tier == "thorough";
            solver::start_watchdog(120, Some(format!("{}/{}.hang", dir, prop)));
            let mut sink = Sink::default();
            eval::CURRENT_PROP.with(|p| *p.borrow_mut() = prop.clone());
            let debug = cfg!(debug_assertions);
            let n = util::scaled(if thorough { 150_000 } else { 12_000 });
            match prop.as_str() {
                "C10" => gen_pure::gen_c10(&mut sink, thorough, seed),
                "C11" => gen_pure::gen_c11(&mut sink, thorough, seed),
                "C15" => gen_pure::gen_c15(&mut sink, thorough, seed),
                "C16" => {
                    gen_pure::gen_c16(&mut sink, thorough, seed);
                    containers::gen_svx(&mut sink, thorough, seed)
                }
                "C01" | "C02" | "C03" | "C04" | "C05" | "C06" | "C12" | "C14" => {
                    let light = std::env::var("VERIF_LIGHT").map(|v| v == "1").unwrap_or(false);
                    if prop == "C06" && !light {
                        containers::gen_smx(&mut sink, thorough, seed);
                    }
                    if prop == "C03" && !light {
                        dag::gen_dag(&mut sink, thorough);
                    }
                    if matches!(prop.as_str(), "C01" | "C04" | "C05") && !light {
                        scale::gen_scale(&mut sink, thorough);
                    }
                    gen_solver::gen_solver::<pubgrub::Range<u32>>(&mut sink, prop, thorough, seed, debug, n);
                    // the same properties over a custom VersionSet that relies on the trait's provided methods
                    gen_solver::gen_solver::<hset::BitSet8>(&mut sink, prop, thorough, seed ^ 0xb175, debug, n / 6);
                    // and over a 2-element universe, which the versions of one package cover
                    gen_solver::gen_solver::<hset::BitSet2>(&mut sink, prop, thorough, seed ^ 0xb172, debug, n / 8);
                    // and over a set type whose Display is not injective (result-level oracles and the mirror)
                    gen_solver::gen_solver::<hset::BlurSet8>(&mut sink, prop, thorough, seed ^ 0xb1a4, debug, n / 8)
                }
                "C08" | "C09" => gen_solver::gen_trees(&mut sink, prop, thorough, seed, debug),
                "C07" => {
                    misc::gen_c07(&mut sink, thorough, seed);
                    gen_solver::gen_solver::<pubgrub::Range<u32>>(&mut sink, prop, thorough, seed, debug, n / 3)
                }
                "C18" => misc::gen_c18(&mut sink, thorough, seed),
                "C19" => misc::gen_c19(&mut sink, thorough, seed),
                "C20" => misc::gen_c20(&mut sink, thorough, seed),
                "C13" => gen_solver::gen_c13(&mut sink, thorough, seed, debug),
                "C17" => gen_solver::gen_c17(&mut sink, thorough, seed, debug),
                p => {
                    eprintln!("no generator for {}", p);
                    std::process::exit(2);
                }
            }
            sink.tag("bytes_of_log_output_formatted", LOG_BYTES.load(std::sync::atomic::Ordering::Relaxed));
            let skipped = treeck::ENTAIL_SKIPPED.with(|c| c.get());
            if skipped > 0 {
                sink.tag("entailment_checks_skipped_as_too_large", skipped);
                sink.notes.push(format!("{} entailment checks were given up (more than 60000 selections) and count as passes", skipped));
            }
            sink.write(dir, prop).expect("write");
        }
        Some("replay") => {
            // re-evaluate every request line of a file on the real implementation
            let text = std::fs::read_to_string(&args[2]).expect("read");
            solver::start_watchdog(120, None);
            if let Some(p) = args.get(3) {
                eval::CURRENT_PROP.with(|c| *c.borrow_mut() = p.clone());
            }
            let mut bad = 0;
            for line in text.lines() {
                if line.trim().is_empty() || line.starts_with('#') {
                    continue;
                }
                let c = eval::eval_line(line);
                println!("{}", c.imp);
                if let Some(f) = c.oracle_fail {
                    eprintln!("ORACLE-FAIL {} :: {}", line, f);
                    bad += 1;
                }
            }
            std::process::exit(if bad > 0 { 1 } else { 0 });
        }
        _ => {
            eprintln!("usage: pgharness gen <PROP> <quick|thorough> <seed> <outdir> | replay <reqfile>");
            std::process::exit(2);
        }
    }
}

//! `build_derivation_tree` on synthetic stores of every small DAG shape (C03: "a derived node carries a
//! shared id exactly when it is reachable along more than one path, and all occurrences of one id are the
//! same subtree"), through the hook `pubgrub::verif::derivation_tree_of_dag`.
//! `dag|x;x;0,1;2,0|3` : entries `x` external, `a,b` derived from the earlier entries a and b; top = 3.
use crate::cases::{Case, Sink};
use crate::eval::eval_line;
use pubgrub::{DerivationTree, Range};
use std::collections::BTreeMap;

fn parse_shape(s: &str) -> Vec<Option<(usize, usize)>> {
    s.split(';')
        .filter(|e| !e.is_empty())
        .map(|e| if e == "x" { None } else { e.split_once(',').map(|(a, b)| (a.parse().unwrap(), b.parse().unwrap())) })
        .collect()
}

/// the tree as structure + shared ids only
fn skeleton(t: &DerivationTree<String, Range<u32>, String>) -> String {
    match t {
        DerivationTree::External(_) => "x".to_string(),
        DerivationTree::Derived(d) => format!("({} {} {})", d.shared_id.map(|i| i.to_string()).unwrap_or("-".into()), skeleton(&d.cause1), skeleton(&d.cause2)),
    }
}

/// what the property demands, computed from the shape alone: the unfolding of the DAG from `top`, a
/// derived node marked with its store id (entry index + 1) iff at least two cause edges of the reachable
/// DAG lead to it
fn expected_skeleton(shape: &[Option<(usize, usize)>], top: usize) -> String {
    let mut reach = vec![false; shape.len()];
    let mut stack = vec![top];
    let mut indeg: BTreeMap<usize, usize> = BTreeMap::new();
    while let Some(i) = stack.pop() {
        if reach[i] {
            continue;
        }
        reach[i] = true;
        if let Some((a, b)) = shape[i] {
            *indeg.entry(a).or_default() += 1;
            *indeg.entry(b).or_default() += 1;
            stack.push(a);
            stack.push(b);
        }
    }
    fn go(shape: &[Option<(usize, usize)>], indeg: &BTreeMap<usize, usize>, i: usize) -> String {
        match shape[i] {
            None => "x".to_string(),
            Some((a, b)) => {
                let sid = if indeg.get(&i).copied().unwrap_or(0) >= 2 { (i + 1).to_string() } else { "-".to_string() };
                format!("({} {} {})", sid, go(shape, indeg, a), go(shape, indeg, b))
            }
        }
    }
    go(shape, &indeg, top)
}

pub fn eval_dag(req: &str, shape_s: &str, top: usize) -> Case {
    let shape = parse_shape(shape_s);
    let tree = pubgrub::verif::derivation_tree_of_dag(&shape, top);
    let imp = crate::solver::tree_sexp(&tree);
    let (got, want) = (skeleton(&tree), expected_skeleton(&shape, top));
    let fail = if got != want { Some(format!("the tree's structure / shared ids are {} but the cause DAG demands {}", got, want)) } else { None };
    let shared = want.matches(|c: char| c.is_ascii_digit()).count() > 0;
    Case { req: req.to_string(), imp, nontrivial: shared, oracle_fail: fail, tags: if shared { vec!["dag_with_shared_node"] } else { vec![] } }
}

/// every shape with 2 externals followed by up to `m` derived entries (ordered pairs of distinct earlier
/// entries), top = the last entry
pub fn gen_dag(sink: &mut Sink, thorough: bool) {
    let m_max = if thorough { 5 } else { 4 };
    let mut count = 0u64;
    fn rec(sink: &mut Sink, shape: &mut Vec<String>, left: usize, count: &mut u64) {
        let n = shape.len();
        if n > 2 {
            sink.push(eval_line(&format!("dag|{}|{}", shape.join(";"), n - 1)));
            *count += 1;
        }
        if left == 0 {
            return;
        }
        for a in 0..n {
            for b in 0..n {
                if a != b {
                    shape.push(format!("{},{}", a, b));
                    rec(sink, shape, left - 1, count);
                    shape.pop();
                }
            }
        }
    }
    let mut shape = vec!["x".to_string(), "x".to_string()];
    rec(sink, &mut shape, m_max, &mut count);
    sink.notes.push(format!("build_derivation_tree on synthetic stores: exhaustive, all {} DAG shapes with 2 externals and up to {} derived entries (ordered pairs of distinct earlier entries), top = last entry", count, m_max));
}

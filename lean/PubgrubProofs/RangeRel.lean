/-
The dedicated sweeps `is_disjoint` / `subset_of` agree with the intersection, and canonical
segment lists over a dense order without end points are determined by their points
(property C10, second half).
-/
import PubgrubProofs.Defs

namespace Pubgrub.Range
open Pubgrub Bound
variable {V : Type} [LinearOrder V]

/-! ### unfolded characterisation of `WF` -/

theorem rel_wf_nil : WF ([] : Range V) := rfl

theorem rel_wf_cons_iff (s e : Bound V) (t : Range V) :
    WF ((s, e) :: t) ↔ validSegment s e = true ∧
      (∀ x ∈ t.head?, endBeforeStartWithGap e x.1 = true) ∧ WF t := by
  cases t with
  | nil => simp [WF, checkInvariants]
  | cons y t => obtain ⟨s', e'⟩ := y; simp [WF, checkInvariants, Bool.and_assoc]

theorem wf_head {s e : Bound V} {t : Range V} (h : WF ((s, e) :: t)) : validSegment s e = true :=
  ((rel_wf_cons_iff s e t).1 h).1

theorem rel_wf_tail {x : Seg V} {t : Range V} (h : WF (x :: t)) : WF t :=
  ((rel_wf_cons_iff x.1 x.2 t).1 h).2.2

/-- every segment of the list starts after a gap beyond the end bound `e` -/
def After (e : Bound V) (l : Range V) : Prop := ∀ x ∈ l, endBeforeStartWithGap e x.1 = true

theorem rel_gap_trans {e s' e' s'' : Bound V} (h1 : endBeforeStartWithGap e s' = true)
    (h2 : validSegment s' e' = true) (h3 : endBeforeStartWithGap e' s'' = true) :
    endBeforeStartWithGap e s'' = true := by
  cases e <;> cases s' <;> cases e' <;> cases s'' <;>
    simp_all [endBeforeStartWithGap, validSegment] <;> order

theorem wf_after {s e : Bound V} {t : Range V} (h : WF ((s, e) :: t)) : After e t := by
  induction t generalizing s e with
  | nil => intro x hx; simp at hx
  | cons y t ih =>
    obtain ⟨s', e'⟩ := y
    obtain ⟨_, hgap, hs⟩ := (rel_wf_cons_iff _ _ _).1 h
    have hgap : endBeforeStartWithGap e s' = true := hgap (s', e') (by simp)
    intro x hx
    rcases List.mem_cons.1 hx with rfl | hx
    · exact hgap
    · exact rel_gap_trans hgap (wf_head hs) (ih hs x hx)

/-! ### bound facts used by the sweeps -/

theorem endSmaller_of_not_valid {rs le re : Bound V} (h1 : validSegment rs le = false)
    (h2 : validSegment rs re = true) : leftEndIsSmaller le re = true := by
  cases rs <;> cases le <;> cases re <;>
    simp_all [leftEndIsSmaller, validSegment] <;> order

theorem not_endSmaller_of_not_valid {ls le re : Bound V} (h1 : validSegment ls re = false)
    (h2 : validSegment ls le = true) : leftEndIsSmaller le re = false := by
  cases ls <;> cases le <;> cases re <;>
    simp_all [leftEndIsSmaller, validSegment] <;> order

/-! ### target 1 -/

/-- structural: for canonical operands the `is_disjoint` sweep is true exactly when the
`intersection` sweep produces no segment -/
theorem isDisjoint_iff_inter_empty (a b : Range V) (ha : WF a) (hb : WF b) :
    isDisjoint a b = true ↔ intersection a b = [] := by
  fun_induction isDisjoint a b with
  | case1 ls le l rs re r hv ih =>
    have hv : validSegment rs le = false := by simpa using hv
    have hsm := endSmaller_of_not_valid hv (wf_head hb)
    rw [ih (rel_wf_tail ha) hb, intersection]
    simp [hsm, hv]
  | case2 ls le l rs re r hv1 hv2 ih =>
    have hv1 : validSegment rs le = true := by simpa using hv1
    have hv2 : validSegment ls re = false := by simpa using hv2
    have hsm := not_endSmaller_of_not_valid hv2 (wf_head ha)
    rw [ih ha (rel_wf_tail hb), intersection]
    simp [hsm, hv2]
  | case3 ls le l rs re r hv1 hv2 =>
    have hv1 : validSegment rs le = true := by simpa using hv1
    have hv2 : validSegment ls re = true := by simpa using hv2
    rw [intersection]
    by_cases hsm : leftEndIsSmaller le re = true <;> simp [hsm, hv1, hv2]
  | case4 b => simp [intersection]
  | case5 x l => simp [intersection]

/-! ### target 2 -/

theorem gap_interStart {e ls : Bound V} (rs : Bound V) (h : endBeforeStartWithGap e ls = true) :
    endBeforeStartWithGap e (interStart ls rs) = true := by
  cases e <;> cases ls <;> cases rs <;> simp only [interStart] <;> (try split) <;>
    simp_all [endBeforeStartWithGap] <;> order

theorem after_inter {e : Bound V} (a b : Range V) (h : After e a) :
    After e (intersection a b) := by
  fun_induction intersection a b with
  | case1 ls le l rs re r hsm hv ih =>
    intro x hx
    rcases List.mem_cons.1 hx with rfl | hx
    · exact gap_interStart rs (h (ls, le) (by simp))
    · exact ih (fun y hy => h y (List.mem_cons_of_mem _ hy)) x hx
  | case2 ls le l rs re r hsm hv ih =>
    exact ih (fun y hy => h y (List.mem_cons_of_mem _ hy))
  | case3 ls le l rs re r hsm hv ih =>
    intro x hx
    rcases List.mem_cons.1 hx with rfl | hx
    · exact gap_interStart rs (h (ls, le) (by simp))
    · exact ih h x hx
  | case4 ls le l rs re r hsm hv ih => exact ih h
  | case5 => intro x hx; simp at hx
  | case6 => intro x hx; simp at hx

theorem not_valid_of_gap {e s : Bound V} (h : endBeforeStartWithGap e s = true) :
    validSegment s e = false := by
  cases e <;> cases s <;> simp_all [endBeforeStartWithGap, validSegment] <;> order

theorem interStart_ne {c1 s1 : Bound V} (h : leftStartIsSmaller c1 s1 = false) :
    interStart s1 c1 ≠ s1 := by
  cases c1 <;> cases s1 <;> simp only [interStart] <;> (try split) <;>
    simp_all [leftStartIsSmaller] <;> order

theorem interStart_eq {c1 s1 : Bound V} (h : leftStartIsSmaller c1 s1 = true) :
    interStart s1 c1 = s1 := by
  cases c1 <;> cases s1 <;> simp only [interStart] <;> (try split) <;>
    simp_all [leftStartIsSmaller] <;> order

theorem leftEndIsSmaller_refl (e : Bound V) : leftEndIsSmaller e e = true := by
  cases e <;> simp [leftEndIsSmaller]

theorem valid_of_startSmaller {c1 s1 s2 : Bound V} (h : leftStartIsSmaller c1 s1 = true)
    (hv : validSegment s1 s2 = true) : validSegment c1 s2 = true := by
  cases c1 <;> cases s1 <;> cases s2 <;> simp_all [leftStartIsSmaller, validSegment] <;> order

/-- the sweep of `subset_of` in any of its states: `c` is the current containing segment, `cs` the
rest of the containing iterator -/
theorem subsetGo_iff (a : Range V) (c : Seg V) (cs : Range V) (ha : WF a) :
    subsetGo a c cs = true ↔ intersection a (c :: cs) = a := by
  fun_induction subsetGo a c cs with
  | case1 c cs => simp [intersection]
  | case2 s ss c hv =>
    obtain ⟨s1, s2⟩ := s; obtain ⟨c1, c2⟩ := c
    have hv : validSegment s1 c2 = false := by simpa using hv
    have hsm := not_endSmaller_of_not_valid hv (wf_head ha)
    rw [intersection]
    simp [hsm, hv, intersection]
  | case3 s ss c hv c' cs' ih =>
    obtain ⟨s1, s2⟩ := s; obtain ⟨c1, c2⟩ := c
    have hv : validSegment s1 c2 = false := by simpa using hv
    have hsm := not_endSmaller_of_not_valid hv (wf_head ha)
    rw [ih ha]
    conv => rhs; rw [intersection]
    simp [hsm, hv]
  | case4 s ss c cs hv hst =>
    obtain ⟨s1, s2⟩ := s; obtain ⟨c1, c2⟩ := c
    have hv : validSegment s1 c2 = true := by simpa using hv
    have hst : leftStartIsSmaller c1 s1 = false := by simpa using hst
    have hne := interStart_ne hst
    rw [intersection]
    by_cases hsm : leftEndIsSmaller s2 c2 = true
    · by_cases hv2 : validSegment c1 s2 = true
      · simp [hsm, hv2, hne]
      · have hA := after_inter ss ((c1, c2) :: cs) (wf_after ha)
        simp only [hsm, hv2, if_true, if_false, Bool.false_eq_true, false_iff]
        intro heq
        have := hA (s1, s2) (by rw [heq]; simp)
        have := not_valid_of_gap this
        have := wf_head ha
        simp_all
    · simp [hsm, hv, hne]
  | case5 s ss c cs hv hst hen =>
    obtain ⟨s1, s2⟩ := s; obtain ⟨c1, c2⟩ := c
    have hv : validSegment s1 c2 = true := by simpa using hv
    have hen : leftEndIsSmaller s2 c2 = false := by simpa using hen
    have hne : c2 ≠ s2 := by
      rintro rfl; simp [leftEndIsSmaller_refl] at hen
    rw [intersection]
    simp [hen, hv, hne]
  | case6 s ss c cs hv hst hen ih =>
    obtain ⟨s1, s2⟩ := s; obtain ⟨c1, c2⟩ := c
    have hv : validSegment s1 c2 = true := by simpa using hv
    have hst : leftStartIsSmaller c1 s1 = true := by simpa using hst
    have hen : leftEndIsSmaller s2 c2 = true := by simpa using hen
    have hv2 := valid_of_startSmaller hst (wf_head ha)
    rw [ih (rel_wf_tail ha)]
    conv => rhs; rw [intersection]
    simp [hen, hv2, interStart_eq hst]

/-- structural: for canonical operands the `subset_of` sweep is true exactly when the
`intersection` sweep reproduces `a` -/
theorem subsetOf_iff_inter_eq (a b : Range V) (ha : WF a) (hb : WF b) :
    subsetOf a b = true ↔ intersection a b = a := by
  cases b with
  | nil => cases a <;> simp [subsetOf, intersection, isEmpty]
  | cons c cs => simpa [subsetOf] using subsetGo_iff a c cs ha

/-! ### points of canonical lists -/

theorem rel_mem_nil (v : V) : ¬ Range.Mem v ([] : Range V) := by simp [Range.Mem]

theorem rel_mem_cons (v : V) (x : Seg V) (t : Range V) :
    Range.Mem v (x :: t) ↔ Seg.Mem v x ∨ Range.Mem v t := by
  simp [Range.Mem]

theorem beyond_of_gap {e s' : Bound V} {v : V} (h : endBeforeStartWithGap e s' = true)
    (hv : aboveStart v s') : ¬ belowEnd v e := by
  cases e <;> cases s' <;> simp_all [endBeforeStartWithGap, aboveStart, belowEnd] <;> order

/-- sortedness: the points of a list that lies after `e` are beyond `e` -/
theorem rel_tail_beyond {e : Bound V} {t : Range V} {v : V} (h : After e t) (hv : Range.Mem v t) :
    ¬ belowEnd v e := by
  obtain ⟨x, hx, hvx⟩ := hv
  exact beyond_of_gap (h x hx) hvx.1

theorem above_of_beyond {s e : Bound V} {v : V} (h : validSegment s e = true)
    (hv : ¬ belowEnd v e) : aboveStart v s := by
  cases s <;> cases e <;> simp_all [validSegment, aboveStart, belowEnd] <;> order

/-- every point of a canonical list is above the start of its first segment -/
theorem above_head {s e : Bound V} {t : Range V} {v : V} (h : WF ((s, e) :: t))
    (hv : Range.Mem v ((s, e) :: t)) : aboveStart v s := by
  rcases (rel_mem_cons _ _ _).1 hv with hv | hv
  · exact hv.1
  · exact above_of_beyond (wf_head h) (rel_tail_beyond (wf_after h) hv)

theorem startSmaller_antisymm {a b : Bound V} (h1 : leftStartIsSmaller a b = true)
    (h2 : leftStartIsSmaller b a = true) : a = b := by
  cases a <;> cases b <;> simp_all [leftStartIsSmaller] <;> order

theorem endSmaller_antisymm {a b : Bound V} (h1 : leftEndIsSmaller a b = true)
    (h2 : leftEndIsSmaller b a = true) : a = b := by
  cases a <;> cases b <;> simp_all [leftEndIsSmaller] <;> order

section Dense
variable [DenselyOrdered V] [NoMinOrder V] [NoMaxOrder V]

/-- a valid segment has a point -/
theorem seg_exists_mem [Nonempty V] {s e : Bound V} (h : validSegment s e = true) :
    ∃ v, Seg.Mem v (s, e) := by
  cases s with
  | incl a => exact ⟨a, by cases e <;> simp_all [Seg.Mem, validSegment, aboveStart, belowEnd]⟩
  | excl a =>
    cases e with
    | incl y => exact ⟨y, by simp_all [Seg.Mem, validSegment, aboveStart, belowEnd]⟩
    | excl y =>
      obtain ⟨v, h1, h2⟩ := exists_between (show a < y by simpa [validSegment] using h)
      exact ⟨v, by simp_all [Seg.Mem, aboveStart, belowEnd]⟩
    | unb =>
      obtain ⟨v, h1⟩ := exists_gt a
      exact ⟨v, by simp_all [Seg.Mem, aboveStart, belowEnd]⟩
  | unb =>
    cases e with
    | incl y => exact ⟨y, by simp_all [Seg.Mem, aboveStart, belowEnd]⟩
    | excl y =>
      obtain ⟨v, h1⟩ := exists_lt y
      exact ⟨v, by simp_all [Seg.Mem, aboveStart, belowEnd]⟩
    | unb =>
      obtain ⟨v⟩ := ‹Nonempty V›
      exact ⟨v, by simp_all [Seg.Mem, aboveStart, belowEnd]⟩

omit [DenselyOrdered V] [NoMinOrder V] in
/-- everything strictly below some `u > a` is below an end bound that is valid after `excl a` -/
theorem upper_of_valid {a : V} {e : Bound V} (h : validSegment (excl a) e = true) :
    ∃ u, a < u ∧ ∀ v, v < u → belowEnd v e := by
  cases e with
  | incl y => exact ⟨y, by simpa [validSegment] using h, fun v hv => le_of_lt hv⟩
  | excl y => exact ⟨y, by simpa [validSegment] using h, fun v hv => hv⟩
  | unb => obtain ⟨u, hu⟩ := exists_gt a; exact ⟨u, hu, fun _ _ => trivial⟩

/-- if the start `s'` is not before the start `s`, the segment `(s, e)` has a point before `s'` -/
theorem exists_mem_not_above [Nonempty V] {s e s' : Bound V} (hv : validSegment s e = true)
    (h : leftStartIsSmaller s' s = false) : ∃ v, Seg.Mem v (s, e) ∧ ¬ aboveStart v s' := by
  cases s with
  | incl a =>
    refine ⟨a, ?_, ?_⟩
    · cases e <;> simp_all [Seg.Mem, validSegment, aboveStart, belowEnd]
    · cases s' <;> simp_all [leftStartIsSmaller, aboveStart]
  | excl a =>
    obtain ⟨u, hu, hub⟩ := upper_of_valid hv
    have : ∃ x, a < x ∧ ∀ v, v < x → ¬ aboveStart v s' := by
      cases s' with
      | incl x => exact ⟨x, by simpa [leftStartIsSmaller] using h, fun v hv => by simpa [aboveStart] using hv⟩
      | excl x => exact ⟨x, by simpa [leftStartIsSmaller] using h, fun v hv => by simpa [aboveStart] using le_of_lt hv⟩
      | unb => simp [leftStartIsSmaller] at h
    obtain ⟨x, hx, hxb⟩ := this
    obtain ⟨v, h1, h2⟩ := exists_between (lt_min hx hu)
    exact ⟨v, ⟨h1, hub v (lt_of_lt_of_le h2 (min_le_right _ _))⟩,
      hxb v (lt_of_lt_of_le h2 (min_le_left _ _))⟩
  | unb =>
    have : ∃ x : V, ∀ v, v < x → ¬ aboveStart v s' := by
      cases s' with
      | incl x => exact ⟨x, fun v hv => by simpa [aboveStart] using hv⟩
      | excl x => exact ⟨x, fun v hv => by simpa [aboveStart] using le_of_lt hv⟩
      | unb => simp [leftStartIsSmaller] at h
    obtain ⟨x, hxb⟩ := this
    have : ∃ u : V, ∀ v, v < u → belowEnd v e := by
      cases e with
      | incl y => exact ⟨y, fun v hv => le_of_lt hv⟩
      | excl y => exact ⟨y, fun v hv => hv⟩
      | unb => exact ⟨x, fun _ _ => trivial⟩
    obtain ⟨u, hub⟩ := this
    obtain ⟨v, h2⟩ := exists_lt (min x u)
    exact ⟨v, ⟨trivial, hub v (lt_of_lt_of_le h2 (min_le_right _ _))⟩,
      hxb v (lt_of_lt_of_le h2 (min_le_left _ _))⟩

omit [NoMinOrder V] in
/-- if the end `e'` is not before the end `e`, there is a point beyond `e`, below `e'` and before
the next start (if any) -/
theorem exists_in_gap {e e' : Bound V} (h : leftEndIsSmaller e' e = false) (o : Option (Seg V))
    (hgap : ∀ x ∈ o, endBeforeStartWithGap e x.1 = true) :
    ∃ v, ¬ belowEnd v e ∧ belowEnd v e' ∧ ∀ x ∈ o, ¬ aboveStart v x.1 := by
  cases e with
  | unb => cases e' <;> simp [leftEndIsSmaller] at h
  | excl y =>
    refine ⟨y, by simp [belowEnd], ?_, ?_⟩
    · cases e' <;> simp_all [leftEndIsSmaller, belowEnd]
    · intro x hx
      have := hgap x hx
      obtain ⟨x1, x2⟩ := x
      cases x1 <;> simp_all [endBeforeStartWithGap, aboveStart]
  | incl y =>
    have h1 : ∃ u, y < u ∧ ∀ v, v < u → belowEnd v e' := by
      cases e' with
      | incl z => exact ⟨z, by simpa [leftEndIsSmaller] using h, fun v hv => le_of_lt hv⟩
      | excl z => exact ⟨z, by simpa [leftEndIsSmaller] using h, fun v hv => hv⟩
      | unb => obtain ⟨u, hu⟩ := exists_gt y; exact ⟨u, hu, fun _ _ => trivial⟩
    have h2 : ∃ u, y < u ∧ ∀ v, v < u → ∀ x ∈ o, ¬ aboveStart v x.1 := by
      cases o with
      | none => obtain ⟨u, hu⟩ := exists_gt y; exact ⟨u, hu, fun _ _ x hx => by simp at hx⟩
      | some x =>
        have := hgap x rfl
        obtain ⟨x1, x2⟩ := x
        cases x1 with
        | incl w =>
          refine ⟨w, by simpa [endBeforeStartWithGap] using this, fun v hv x hx => ?_⟩
          obtain rfl : (incl w, x2) = x := by simpa using hx
          simpa [aboveStart] using hv
        | excl w =>
          refine ⟨w, by simpa [endBeforeStartWithGap] using this, fun v hv x hx => ?_⟩
          obtain rfl : (excl w, x2) = x := by simpa using hx
          simpa [aboveStart] using le_of_lt hv
        | unb => simp [endBeforeStartWithGap] at this
    obtain ⟨u1, hu1, hb1⟩ := h1
    obtain ⟨u2, hu2, hb2⟩ := h2
    obtain ⟨v, hv1, hv2⟩ := exists_between (lt_min hu1 hu2)
    exact ⟨v, by simpa [belowEnd] using hv1, hb1 v (lt_of_lt_of_le hv2 (min_le_left _ _)),
      hb2 v (lt_of_lt_of_le hv2 (min_le_right _ _))⟩

/-- comparing first starts: if every point of the first segment of `a` is above `s'`,
then `s'` is not after the first start of `a` -/
theorem startSmaller_of_subset [Nonempty V] {s e s' : Bound V} (hv : validSegment s e = true)
    (h : ∀ v, Seg.Mem v (s, e) → aboveStart v s') : leftStartIsSmaller s' s = true := by
  by_contra hc
  obtain ⟨v, hv1, hv2⟩ := exists_mem_not_above hv (by simpa using hc)
  exact hv2 (h v hv1)

omit [NoMinOrder V] in
/-- comparing first ends (equal first starts): if everything in `(s, e')` is a point of the
canonical list `(s, e) :: t` then `e'` is not after `e` -/
theorem endSmaller_of_subset {s e e' : Bound V} {t : Range V} (ha : WF ((s, e) :: t))
    (h : ∀ v, aboveStart v s → belowEnd v e' → Range.Mem v ((s, e) :: t)) :
    leftEndIsSmaller e' e = true := by
  by_contra hc
  obtain ⟨_, hgap, ht⟩ := (rel_wf_cons_iff _ _ _).1 ha
  obtain ⟨v, hv1, hv2, hv3⟩ := exists_in_gap (by simpa using hc) t.head? hgap
  rcases (rel_mem_cons _ _ _).1 (h v (above_of_beyond (wf_head ha) hv1) hv2) with hm | hm
  · exact hv1 hm.2
  · cases t with
    | nil => exact rel_mem_nil v hm
    | cons x t => exact hv3 x rfl (above_head (s := x.1) (e := x.2) ht hm)

end Dense

/-! ### targets 3 and 4 (with the extra hypothesis `[Nonempty V]`, see the end of the file) -/

/-- a canonical non-empty segment list has a point, over a non-empty dense order without end
points -/
theorem exists_mem_of_ne_nil [DenselyOrdered V] [NoMinOrder V] [NoMaxOrder V] [Nonempty V]
    (a : Range V) (ha : WF a) (h : a ≠ []) : ∃ v, Range.Mem v a := by
  cases a with
  | nil => exact absurd rfl h
  | cons x t =>
    obtain ⟨v, hv⟩ := seg_exists_mem (wf_head (s := x.1) (e := x.2) ha)
    exact ⟨v, (rel_mem_cons _ _ _).2 (Or.inl hv)⟩

/-- canonical form = semantic equality, over a non-empty dense order without end points -/
theorem ext_of_dense [DenselyOrdered V] [NoMinOrder V] [NoMaxOrder V] [Nonempty V]
    (a b : Range V) (ha : WF a) (hb : WF b) (h : ∀ v, Range.Mem v a ↔ Range.Mem v b) : a = b := by
  induction a generalizing b with
  | nil =>
    cases b with
    | nil => rfl
    | cons y t' =>
      obtain ⟨v, hv⟩ := exists_mem_of_ne_nil _ hb (by simp)
      exact absurd ((h v).2 hv) (rel_mem_nil v)
  | cons x t ih =>
    cases b with
    | nil =>
      obtain ⟨v, hv⟩ := exists_mem_of_ne_nil _ ha (by simp)
      exact absurd ((h v).1 hv) (rel_mem_nil v)
    | cons y t' =>
      obtain ⟨s, e⟩ := x
      obtain ⟨s', e'⟩ := y
      have hs : s = s' := by
        apply startSmaller_antisymm
        · exact startSmaller_of_subset (wf_head hb) fun v hv =>
            above_head ha ((h v).2 ((rel_mem_cons _ _ _).2 (Or.inl hv)))
        · exact startSmaller_of_subset (wf_head ha) fun v hv =>
            above_head hb ((h v).1 ((rel_mem_cons _ _ _).2 (Or.inl hv)))
      subst hs
      have he : e = e' := by
        apply endSmaller_antisymm
        · exact endSmaller_of_subset hb fun v h1 h2 =>
            (h v).1 ((rel_mem_cons _ _ _).2 (Or.inl ⟨h1, h2⟩))
        · exact endSmaller_of_subset ha fun v h1 h2 =>
            (h v).2 ((rel_mem_cons _ _ _).2 (Or.inl ⟨h1, h2⟩))
      subst he
      have key : ∀ (t₁ t₂ : Range V), WF ((s, e) :: t₁) →
          (∀ v, Range.Mem v ((s, e) :: t₁) → Range.Mem v ((s, e) :: t₂)) →
          ∀ v, Range.Mem v t₁ → Range.Mem v t₂ := by
        intro t₁ t₂ h₁ hsub v hv
        rcases (rel_mem_cons _ _ _).1 (hsub v ((rel_mem_cons _ _ _).2 (Or.inr hv))) with hm | hm
        · exact absurd hm.2 (rel_tail_beyond (wf_after h₁) hv)
        · exact hm
      rw [ih t' (rel_wf_tail ha) (rel_wf_tail hb) fun v =>
        ⟨key t t' ha (fun v => (h v).1) v, key t' t hb (fun v => (h v).2) v⟩]

/-! ### the two dense-order statements need a non-empty `V` -/

/-- the empty type as a linear order (used only for the counterexample below) -/
@[reducible] def emptyLinearOrder : LinearOrder Empty where
  le := fun _ _ => True
  lt := fun _ _ => False
  min := fun a _ => a
  max := fun a _ => a
  compare := fun _ _ => .eq
  le_refl := fun a => a.elim
  le_trans := fun a => a.elim
  le_antisymm := fun a => a.elim
  le_total := fun a => a.elim
  toDecidableLE := fun a => a.elim
  toDecidableLT := fun a => a.elim
  toDecidableEq := fun a => a.elim
  lt_iff_le_not_ge := fun a => a.elim
  min_def := fun a => a.elim
  max_def := fun a => a.elim
  compare_eq_compareOfLessAndEq := fun a => a.elim

/-- Without `[Nonempty V]` the statement of `ext_of_dense` is false: over the empty type the
canonical lists `[(unb, unb)]` and `[]` have the same (no) points. -/
theorem ext_of_dense_needs_nonempty :
    ¬ (∀ (V : Type) [LinearOrder V] [DenselyOrdered V] [NoMinOrder V] [NoMaxOrder V]
      (a b : Range V) (_ : WF a) (_ : WF b) (_ : ∀ v, Range.Mem v a ↔ Range.Mem v b), a = b) := by
  intro h
  have := @h Empty emptyLinearOrder ⟨fun a => a.elim⟩ ⟨fun a => a.elim⟩ ⟨fun a => a.elim⟩
    [(unb, unb)] [] rfl rfl (fun v => v.elim)
  simp at this

/-- Without `[Nonempty V]` the statement of `exists_mem_of_ne_nil` is false as well. -/
theorem exists_mem_of_ne_nil_needs_nonempty :
    ¬ (∀ (V : Type) [LinearOrder V] [DenselyOrdered V] [NoMinOrder V] [NoMaxOrder V]
      (a : Range V) (_ : WF a) (_ : a ≠ []), ∃ v, Range.Mem v a) := by
  intro h
  obtain ⟨v, _⟩ := @h Empty emptyLinearOrder ⟨fun a => a.elim⟩ ⟨fun a => a.elim⟩
    ⟨fun a => a.elim⟩ [(unb, unb)] rfl (by simp)
  exact v.elim

end Pubgrub.Range


/-
Model of `/repo/src/version_set.rs`: the `VersionSet` trait.

The five required methods are fields; the four provided methods (`full`, `union`, `is_disjoint`,
`subset_of`) are fields too, because an implementation may override them (`Range` does, with its own
sweeps).  `VersionSet.Default.*` are the provided bodies of the trait, and `ofRequired` builds an
instance that relies on all of them (what a custom implementation that only writes the five
required methods gets).  `==` on sets is `DecidableEq`.
-/
import PubgrubModel.Range

namespace Pubgrub

/-- `trait VersionSet` (with `type V`). -/
class VersionSet (S : Type) (V : outParam Type) where
  empty : S
  singleton : V → S
  complement : S → S
  intersection : S → S → S
  contains : S → V → Bool
  full : S
  union : S → S → S
  isDisjoint : S → S → Bool
  subsetOf : S → S → Bool

namespace VersionSet.Default
variable {S V : Type} [DecidableEq S]

/-- provided `fn full()` -/
def full (empty : S) (complement : S → S) : S := complement empty

/-- provided `fn union()` -/
def union (complement : S → S) (intersection : S → S → S) (a b : S) : S :=
  complement (intersection (complement a) (complement b))

/-- provided `fn is_disjoint()` -/
def isDisjoint (empty : S) (intersection : S → S → S) (a b : S) : Bool :=
  intersection a b == empty

/-- provided `fn subset_of()` -/
def subsetOf (intersection : S → S → S) (a b : S) : Bool :=
  a == intersection a b

end VersionSet.Default

/-- An implementation that writes only the five required methods. -/
@[reducible] def VersionSet.ofRequired {S V : Type} [DecidableEq S] (empty : S) (singleton : V → S)
    (complement : S → S) (intersection : S → S → S) (contains : S → V → Bool) : VersionSet S V where
  empty := empty
  singleton := singleton
  complement := complement
  intersection := intersection
  contains := contains
  full := VersionSet.Default.full empty complement
  union := VersionSet.Default.union complement intersection
  isDisjoint := VersionSet.Default.isDisjoint empty intersection
  subsetOf := VersionSet.Default.subsetOf intersection

/-- `impl VersionSet for Range<T>`: every method forwards to the `Range` method, the four provided
ones included. -/
instance instVersionSetRange {V : Type} [LT V] [LE V] [DecidableLT V] [DecidableLE V]
    [DecidableEq V] : VersionSet (Range V) V where
  empty := Range.empty
  singleton := Range.singleton
  complement := Range.complement
  intersection := Range.intersection
  contains := Range.contains
  full := Range.full
  union := Range.union
  isDisjoint := Range.isDisjoint
  subsetOf := Range.subsetOf

/-- A finite-universe version set over the versions `0 … n-1`, as a list of `n` booleans (bit `i`
= version `i` is a member).  Used as the "custom implementation relying on every provided method"
of property C17 (the harness has the same type over `u8` masks). -/
structure BitSet (n : Nat) where
  bits : List Bool
  deriving DecidableEq, Repr

namespace BitSet
variable {n : Nat}
def empty : BitSet n := ⟨List.replicate n false⟩
def singleton (v : Nat) : BitSet n := ⟨(List.range n).map fun i => i == v⟩
def complement (a : BitSet n) : BitSet n := ⟨a.bits.map (!·)⟩
def intersection (a b : BitSet n) : BitSet n := ⟨List.zipWith (· && ·) a.bits b.bits⟩
def contains (a : BitSet n) (v : Nat) : Bool := a.bits.getD v false
end BitSet

instance instVersionSetBitSet {n : Nat} : VersionSet (BitSet n) Nat :=
  VersionSet.ofRequired BitSet.empty BitSet.singleton BitSet.complement BitSet.intersection
    BitSet.contains

end Pubgrub

/-
Helpers for `OwnInvariant.lean`, part 7: adding incompatibilities (`addIncompatibility`,
`addIncompatibilityFromDependencies`), changes of the partial solution that leave the assignments
alone, and the very first unit propagation.
-/
import PubgrubProofs.OwnInvariantAux6

set_option linter.unusedSectionVars false
set_option linter.unusedVariables false

namespace Pubgrub
open VersionSet

section Lawful
variable {P S V M Pr : Type} [DecidableEq P] [VersionSet S V] [DecidableEq S] [LawfulVersionSet S V]

namespace State

/-- `add_incompatibility` of a good incompatibility that no decided package owns -/
theorem addIncompatibility_sem (W : World P S V M) (root : P) (rv : V)
    {st st' : State P S V M Pr} {inc : Incompat P S V M} {waive : P → Nat → Prop}
    (hr : addIncompatibility st inc = .ok st') (h : Sem W root rv st waive) (hic : st.IndexComplete)
    (g : inc.Good W root rv st.store st.store.length)
    (Hown : ∀ p, inc.OwnedBy p → ∀ pa g v t, st.ps.getPA p = some pa → pa.inter ≠ .decision g v t) :
    Sem W root rv st' waive ∧ st'.IndexComplete ∧ StorePrefix st st' ∧ st'.ps = st.ps ∧
      st'.store[st.store.length]? = some inc := by
  unfold addIncompatibility at hr
  have hget : (st.store ++ [inc])[st.store.length]? = some inc := by
    rw [List.getElem?_append_right (Nat.le_refl _)]; simp
  have hpre : StorePrefix st ({ st with store := st.store ++ [inc] } : State P S V M Pr) := by
    intro i y hy
    show (st.store ++ [inc])[i]? = some y
    rw [List.getElem?_append_left (List.getElem?_eq_some_iff.1 hy).1]; exact hy
  have h1 := Sem.storeAppend W root rv h [inc] (storeInv_push W root rv st.store inc h.sinv.store g)
  have hicx : State.ICx ({ st with store := st.store ++ [inc] } : State P S V M Pr) st.store.length
      (st.store.length + 1) := by
    intro id x hx hw
    have hlen := (List.getElem?_eq_some_iff.1 hx).1
    simp only [List.length_append, List.length_singleton] at hlen
    have hlt : id < st.store.length := by omega
    simp only at hx
    rw [List.getElem?_append_left hlt] at hx
    exact State.Rep.mono (hic id x hx) hpre (fun _ _ hi => hi)
  obtain ⟨h2, h3, h4⟩ := mergeIncompatibility_icx W root rv hr h1.sinv.store hicx (by simp)
  have hps := (mergeIncompatibility_pinv hr h1.pinv).2
  refine ⟨mergeIncompatibility_sem W root rv hr h1 ?_, ?_, hpre.trans h4, hps, h4 _ _ hget⟩
  · intro inc' hinc' p ho
    simp only at hinc'
    rw [hget] at hinc'; injection hinc' with hinc'; subst hinc'
    exact Hown p ho
  · intro id x hx
    by_cases hid : id = st.store.length
    · subst hid
      rw [h4 _ _ hget] at hx; injection hx with hx; subst hx
      exact h3 inc hget
    · apply h2 id x hx
      omega

/-- the loop of `add_incompatibility_from_dependencies` over the ids `lo … lo+n-1` -/
theorem foldlM_merge_sem (W : World P S V M) (root : P) (rv : V) {waive : P → Nat → Prop} :
    ∀ (n lo : Nat) {st st' : State P S V M Pr},
    (List.range' lo n).foldlM (m := R) (fun st id => mergeIncompatibility st id) st = .ok st' →
    Sem W root rv st waive → st.ICx lo (lo + n) → lo + n ≤ st.store.length →
    (∀ id inc, lo ≤ id → id < lo + n → st.store[id]? = some inc → ∀ p, inc.OwnedBy p →
      ∀ pa g v t, st.ps.getPA p = some pa → pa.inter ≠ .decision g v t) →
    Sem W root rv st' waive ∧ st'.IndexComplete ∧ StorePrefix st st' ∧ st'.ps = st.ps := by
  intro n
  induction n with
  | zero =>
    intro lo st st' hr h hicx _ _
    simp only [List.range'_zero, List.foldlM_nil, pure, Except.pure] at hr
    injection hr with hr; subst hr
    exact ⟨h, State.indexComplete_of_icx hicx (by omega), StorePrefix.refl _, rfl⟩
  | succ n ih =>
    intro lo st st' hr h hicx hlen Hown
    rw [List.range'_succ] at hr
    simp only [List.foldlM_cons, bind, Except.bind] at hr
    split at hr
    · cases hr
    rename_i st1 hm
    have hlo : lo < st.store.length := by omega
    obtain ⟨inc0, hinc0⟩ : ∃ x, st.store[lo]? = some x := ⟨st.store[lo], List.getElem?_eq_getElem hlo⟩
    obtain ⟨h2, h3, h4⟩ := mergeIncompatibility_icx W root rv hm h.sinv.store hicx hlen
    have hps := (mergeIncompatibility_pinv hm h.pinv).2
    have h1 := mergeIncompatibility_sem W root rv hm h
      (fun inc hinc p ho => Hown lo inc (Nat.le_refl _) (by omega) hinc p ho)
    have hlen1 : st.store.length ≤ st1.store.length := by
      apply Nat.le_of_not_lt
      intro hlt
      obtain ⟨k, hk⟩ : ∃ k, k + 1 = st.store.length := ⟨st.store.length - 1, by omega⟩
      have hx : st.store[k]? = some st.store[k] := List.getElem?_eq_getElem (by omega)
      have := (List.getElem?_eq_some_iff.1 (h4 _ _ hx)).1
      omega
    have hrec := ih (lo + 1) hr h1 ?_ (by omega) ?_
    · exact ⟨hrec.1, hrec.2.1, StorePrefix.trans h4 hrec.2.2.1, hrec.2.2.2.trans hps⟩
    · intro id x hx hw
      by_cases hid : id = lo
      · subst hid
        rw [h4 _ _ hinc0] at hx; injection hx with hx; subst hx
        exact h3 inc0 hinc0
      · apply h2 id x hx
        omega
    · intro id inc hid1 hid2 hinc p ho pa g v t hpa
      have hidlt : id < st.store.length := by omega
      have hx : st.store[id]? = some st.store[id] := List.getElem?_eq_getElem hidlt
      have := h4 _ _ hx
      rw [hinc] at this; injection this with this; subst this
      rw [hps] at hpa
      exact Hown id _ (by omega) (by omega) hx p ho pa g v t hpa

/-- `add_incompatibility_from_dependencies` for a package that is not decided -/
theorem addIncompatibilityFromDependencies_sem (W : World P S V M) (hW : W.SetsValid) (root : P) (rv : V)
    {st st' : State P S V M Pr} {p : P} {v : V} {deps : List (P × S)} {start stop : Nat}
    {waive : P → Nat → Prop}
    (hr : addIncompatibilityFromDependencies st p v deps = .ok (st', start, stop))
    (h : Sem W root rv st waive) (hic : st.IndexComplete) (hd : W.deps p v = .available deps)
    (hund : ∀ pa g w t, st.ps.getPA p = some pa → pa.inter ≠ .decision g w t) :
    Sem W root rv st' waive ∧ st'.IndexComplete ∧ StorePrefix st st' ∧ st'.ps = st.ps ∧
      ∀ d ∈ deps, ∃ id : Nat, st'.store[id]? = some (Incompat.fromDependency (M := M) p (VersionSet.singleton v) d) := by
  unfold addIncompatibilityFromDependencies at hr
  obtain ⟨news, hnews⟩ : ∃ news : List (Incompat P S V M),
      news = deps.map (fun dep => Incompat.fromDependency (M := M) p (VersionSet.singleton v) dep) := ⟨_, rfl⟩
  simp only [bind, Except.bind, pure, Except.pure] at hr
  rw [← hnews] at hr
  split at hr
  · cases hr
  rename_i st1 h1
  injection hr with hr; injection hr with hr; subst hr
  have hgood : StoreInv W root rv (st.store ++ news) := by
    apply storeInv_append W root rv _ _ h.sinv.store
    intro k i hi
    have hmem := List.mem_of_getElem? hi
    rw [hnews, List.mem_map] at hmem
    obtain ⟨d, hdm, rfl⟩ := hmem
    exact Incompat.fromDependency_good W hW root rv _ _ p v deps hd d hdm
  have hpre : StorePrefix st ({ st with store := st.store ++ news } : State P S V M Pr) := by
    intro i y hy
    show (st.store ++ news)[i]? = some y
    rw [List.getElem?_append_left (List.getElem?_eq_some_iff.1 hy).1]; exact hy
  have hs1 := Sem.storeAppend W root rv h news hgood
  have hnl : news.length = deps.length := by rw [hnews]; simp
  have hlen : (st.store ++ news).length - st.store.length = deps.length := by simp [hnl]
  simp only [hlen] at h1
  have hrec := foldlM_merge_sem W root rv deps.length st.store.length h1 hs1 ?_ (by simp [hnl]) ?_
  · refine ⟨hrec.1, hrec.2.1, hpre.trans hrec.2.2.1, hrec.2.2.2, ?_⟩
    intro d hdm
    obtain ⟨k, hk⟩ := List.getElem?_of_mem hdm
    refine ⟨st.store.length + k, hrec.2.2.1 _ _ ?_⟩
    show (st.store ++ news)[st.store.length + k]? = _
    rw [List.getElem?_append_right (Nat.le_add_right _ _), hnews]
    simp only [Nat.add_sub_cancel_left, List.getElem?_map, hk, Option.map_some]
  · intro id x hx hw
    have hl := (List.getElem?_eq_some_iff.1 hx).1
    simp only [List.length_append, hnl] at hl
    have hlt : id < st.store.length := by omega
    simp only at hx
    rw [List.getElem?_append_left hlt] at hx
    exact State.Rep.mono (hic id x hx) hpre (fun _ _ hi => hi)
  · intro id inc hid1 hid2 hinc q ho pa g w t hpa
    simp only at hinc
    rw [List.getElem?_append_right hid1] at hinc
    have hmem := List.mem_of_getElem? hinc
    rw [hnews, List.mem_map] at hmem
    obtain ⟨d, _, rfl⟩ := hmem
    have : p = q := ho
    subst this
    exact hund pa g w t hpa

end State

/-- replacing the partial solution by one with the same assignments and level -/
theorem Sem.setPS (W : World P S V M) (root : P) (rv : V) {st : State P S V M Pr}
    {waive : P → Nat → Prop} (h : Sem W root rv st waive) (ps' : PartialSolution P S V Pr)
    (ha : ps'.assignments = st.ps.assignments)
    (hl : ps'.currentDecisionLevel = st.ps.currentDecisionLevel) (hw : ps'.WF') :
    Sem W root rv { st with ps := ps' } waive := by
  have hget : ∀ p, ps'.getPA p = st.ps.getPA p := by
    intro p; unfold PartialSolution.getPA; rw [ha]
  have hterms : ∀ l, ps'.termsAt l = st.ps.termsAt l := by
    intro l; funext p; unfold PartialSolution.termsAt; rw [hget]
  refine ⟨⟨h.sinv.store, h.sinv.root, h.sinv.rv, ?_⟩, ⟨hw, h.pinv.cache⟩, ?_, ?_, ?_, h.idxb⟩
  · intro kv hkv
    have : kv ∈ st.ps.assignments := ha ▸ hkv
    exact h.sinv.ps kv this
  · intro p pa g v t e1 e2 l l1 l2 id hid inc hinc ho hwv
    simp only at e1 l2 hwv ⊢
    rw [hget] at e1; rw [hl] at l2 hwv; rw [hterms]
    exact h.own p pa g v t e1 e2 l l1 l2 id hid inc hinc ho hwv
  · intro id l0 hm
    obtain ⟨hl0, hc⟩ := h.cache id l0 hm
    refine ⟨by show l0 ≤ ps'.currentDecisionLevel; rw [hl]; exact hl0, ?_⟩
    intro inc hinc l l1 l2
    simp only at l2 ⊢
    rw [hl] at l2; rw [hterms]
    exact hc inc hinc l l1 l2
  · refine ⟨h.rootc.1, ?_⟩
    intro l l2
    simp only at l2 ⊢
    rw [hl] at l2; rw [hterms]
    exact h.rootc.2 l l2

end Lawful
end Pubgrub

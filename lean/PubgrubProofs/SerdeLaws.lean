/-
C19 (model-level part): laws of the serde wire format modelled in `PubgrubModel/Serde.lean`.

* `decRange_encRange`: `Deserialize for Range` inverts `Serialize for Range` on EVERY segment list.
  Note that `Deserialize` does not re-check the canonical form (sorted, disjoint, non-adjacent, valid
  segments): whatever list of bound pairs is on the wire becomes `Range { segments }`
  (`/repo/src/range.rs`, `impl Deserialize for Range`).  So the round trip is an identity on the
  segment list, and a hand-written non-canonical input is accepted as is (example at the end).
* `decRange_legacy*`: the legacy encoding `(start, Some(end))` / `(start, None)` decodes to
  `[start, end)` / `[start, ∞)`, provided the encoding of a version is not itself a valid encoding of a
  `Bound` (variant `B` of the untagged `EitherInterval` is tried first).  The last section shows that
  this proviso is necessary (`V = String`, version `"Unbounded"`).
* `decSemVer_encSemVer`: string form of `SemanticVersion`, relative to `SemVer.parse_display`
  (proved in `PubgrubProofs/SemVerLaws.lean`), taken here as the hypothesis `hrt`.
* `text_round_trip`: serialize, print as JSON text, parse, deserialize.  `Json.render` of the model is
  a `partial def` (opaque to the logic), so the text-level theorem is about its total twin
  `Json.renderC` of `PubgrubProofs/SerdeLawsAux.lean`; `#guard`s check that both print the same text.
-/
import PubgrubModel.Serde
import PubgrubProofs.SerdeLawsAux

namespace Pubgrub
namespace Serde
open Bound

variable {V : Type}

theorem decBound_encBound (encV : V → Json) (decV : Json → Option V)
    (h : ∀ v, decV (encV v) = some v) (b : Bound V) :
    decBound decV (encBound encV b) = some b := by
  cases b <;> simp [decBound, encBound, h]

theorem decInterval_enc (encV : V → Json) (decV : Json → Option V)
    (h : ∀ v, decV (encV v) = some v) (s e : Bound V) :
    decInterval decV (.arr [encBound encV s, encBound encV e]) = some (s, e) := by
  simp [decInterval, decBound_encBound encV decV h]

/-- Round trip for every segment list, canonical or not: `Deserialize for Range` does not re-check
the canonical form.  Variant `B` of `EitherInterval` is tried first and succeeds on encoded bounds,
so no hypothesis relating `encV` to bound encodings is needed in this direction. -/
theorem decRange_encRange (encV : V → Json) (decV : Json → Option V)
    (h : ∀ v, decV (encV v) = some v) (r : Range V) :
    decRange decV (encRange encV r) = some r := by
  unfold decRange encRange
  simp only
  induction r with
  | nil => simp
  | cons p t ih =>
    obtain ⟨s, e⟩ := p
    simp [decInterval_enc encV decV h, ih]

/-! ### legacy encoding -/

def NotBoundLike (decV : Json → Option V) (j : Json) : Prop := decBound decV j = none

def legacyEnc (encV : V → Json) : V × Option V → Json
  | (a, some b) => .arr [encV a, encV b]
  | (a, none) => .arr [encV a, .null]

def legacyDec : V × Option V → Seg V
  | (a, some b) => (incl a, excl b)
  | (a, none) => (incl a, unb)

theorem decBound_null (decV : Json → Option V) : decBound decV .null = none := by
  simp [decBound]

theorem decInterval_legacy_some (encV : V → Json) (decV : Json → Option V)
    (h : ∀ v, decV (encV v) = some v) (hnull : decV .null = none) (a b : V)
    (ha : NotBoundLike decV (encV a)) :
    decInterval decV (.arr [encV a, encV b]) = some (incl a, excl b) := by
  have hb : encV b ≠ .null := by
    intro hb
    have := h b
    rw [hb, hnull] at this
    cases this
  unfold NotBoundLike at ha
  simp only [decInterval, ha, h]

theorem decInterval_legacy_none (encV : V → Json) (decV : Json → Option V)
    (h : ∀ v, decV (encV v) = some v) (a : V) :
    decInterval decV (.arr [encV a, .null]) = some (incl a, unb) := by
  simp [decInterval, decBound_null, h]

theorem decInterval_legacyEnc (encV : V → Json) (decV : Json → Option V)
    (h : ∀ v, decV (encV v) = some v) (hnull : decV .null = none)
    (hnb : ∀ v, NotBoundLike decV (encV v)) (p : V × Option V) :
    decInterval decV (legacyEnc encV p) = some (legacyDec p) := by
  obtain ⟨a, _ | b⟩ := p
  · exact decInterval_legacy_none encV decV h a
  · exact decInterval_legacy_some encV decV h hnull a b (hnb a)

/-- `(start, Some(end))` decodes to `start <= v < end` -/
theorem decRange_legacy_some (encV : V → Json) (decV : Json → Option V)
    (h : ∀ v, decV (encV v) = some v) (hnull : decV .null = none) (a b : V)
    (ha : NotBoundLike decV (encV a)) :
    decRange decV (.arr [.arr [encV a, encV b]]) = some [(incl a, excl b)] := by
  simp [decRange, decInterval_legacy_some encV decV h hnull a b ha]

/-- `(start, None)` decodes to `start <= v` -/
theorem decRange_legacy_none (encV : V → Json) (decV : Json → Option V)
    (h : ∀ v, decV (encV v) = some v) (a : V) :
    decRange decV (.arr [.arr [encV a, .null]]) = some [(incl a, unb)] := by
  simp [decRange, decInterval_legacy_none encV decV h a]

theorem decRange_legacy (encV : V → Json) (decV : Json → Option V)
    (h : ∀ v, decV (encV v) = some v) (hnull : decV .null = none)
    (hnb : ∀ v, NotBoundLike decV (encV v)) (pairs : List (V × Option V)) :
    decRange decV (.arr (pairs.map (legacyEnc encV))) = some (pairs.map legacyDec) := by
  unfold decRange
  simp only
  induction pairs with
  | nil => simp
  | cons p t ih => simp [decInterval_legacyEnc encV decV h hnull hnb, ih]

/-! ### `Nat` versions -/

theorem decNat_encNat (n : Nat) : decNat (encNat n) = some n := rfl

theorem decNat_null : decNat .null = none := rfl

theorem notBoundLike_encNat (n : Nat) : NotBoundLike decNat (encNat n) := by
  simp [NotBoundLike, decBound, encNat]

theorem decBound_decNat_encNat (n : Nat) : decBound decNat (encNat n) = none :=
  notBoundLike_encNat n

theorem notBoundLike_str (decV : Json → Option V) (s : String) (hs : s ≠ "Unbounded") :
    NotBoundLike decV (.str s) := by
  unfold NotBoundLike decBound
  split <;> simp_all

theorem decRange_encRange_nat (r : Range Nat) : decRange decNat (encRange encNat r) = some r :=
  decRange_encRange encNat decNat decNat_encNat r

theorem decRange_legacy_nat (pairs : List (Nat × Option Nat)) :
    decRange decNat (.arr (pairs.map (legacyEnc encNat))) = some (pairs.map legacyDec) :=
  decRange_legacy encNat decNat decNat_encNat decNat_null notBoundLike_encNat pairs

/-! ### `SemanticVersion` -/

theorem decSemVer_encSemVer (v : SemVer) (hrt : SemVer.parse v.display = .ok v) :
    decSemVer (encSemVer v) = some v := by
  simp [decSemVer, encSemVer, hrt]

/-! ### through the JSON text (`PubgrubProofs/SerdeLawsAux.lean`) -/

theorem clean_encBound (encV : V → Json) (hcl : ∀ v, Json.Clean (encV v)) (b : Bound V) :
    Json.Clean (encBound encV b) := by
  cases b <;> simp [encBound, Json.Clean, Json.CleanFields, hcl]

theorem cleanItems_encRange (encV : V → Json) (hcl : ∀ v, Json.Clean (encV v)) (r : Range V) :
    Json.CleanItems (r.map fun (s, e) => .arr [encBound encV s, encBound encV e]) := by
  induction r with
  | nil => simp [Json.CleanItems]
  | cons p t ih =>
    obtain ⟨s, e⟩ := p
    simp [Json.CleanItems, Json.Clean, clean_encBound encV hcl, ih]

theorem clean_encRange (encV : V → Json) (hcl : ∀ v, Json.Clean (encV v)) (r : Range V) :
    Json.Clean (encRange encV r) := by
  simp only [encRange, Json.Clean]
  exact cleanItems_encRange encV hcl r

/-- serialize, print, parse, deserialize -/
theorem text_round_trip (encV : V → Json) (decV : Json → Option V)
    (h : ∀ v, decV (encV v) = some v) (hcl : ∀ v, Json.Clean (encV v)) (r : Range V) :
    (Json.parse (String.ofList (Json.renderC (encRange encV r)))).bind (decRange decV) = some r := by
  rw [Json.parse_renderC _ (clean_encRange encV hcl r)]
  exact decRange_encRange encV decV h r

theorem text_round_trip_nat (r : Range Nat) :
    (Json.parse (String.ofList (Json.renderC (encRange encNat r)))).bind (decRange decNat) = some r :=
  text_round_trip encNat decNat decNat_encNat (fun _ => by simp [encNat, Json.Clean]) r

/-! ### non-vacuity -/

-- #eval Json.render (encRange encNat [(incl 1, excl 3), (excl 5, unb)])
-- "[[{\"Included\":1},{\"Excluded\":3}],[{\"Excluded\":5},\"Unbounded\"]]"
#guard Json.render (encRange encNat [(incl 1, excl 3), (excl 5, unb)]) ==
  "[[{\"Included\":1},{\"Excluded\":3}],[{\"Excluded\":5},\"Unbounded\"]]"
-- the total printer of `SerdeLawsAux` prints the same text
#guard String.ofList (Json.renderC (encRange encNat [(incl 1, excl 3), (excl 5, unb)])) ==
  Json.render (encRange encNat [(incl 1, excl 3), (excl 5, unb)])
#guard String.ofList (Json.renderC (encRange encSemVer [(incl ⟨1, 2, 3⟩, excl ⟨2, 0, 0⟩), (unb, unb)])) ==
  Json.render (encRange encSemVer [(incl ⟨1, 2, 3⟩, excl ⟨2, 0, 0⟩), (unb, unb)])
-- executable end-to-end check through the text, new and legacy format
#guard (Json.parse "[[{\"Included\":1},{\"Excluded\":3}],[{\"Excluded\":5},\"Unbounded\"]]").bind
  (decRange decNat) == some [(incl 1, excl 3), (excl 5, unb)]
#guard (Json.parse "[[1,3],[5,null]]").bind (decRange decNat) == some [(incl 1, excl 3), (incl 5, unb)]
#guard (Json.parse "[[\"1.2.3\",\"2.0.0\"]]").bind (decRange decSemVer)
  == some [(incl ⟨1, 2, 3⟩, excl ⟨2, 0, 0⟩)]

/-- legacy input -/
example : decRange decNat (.arr [.arr [.num 1, .num 3], .arr [.num 5, .null]])
    = some [(incl 1, excl 3), (incl 5, unb)] := by decide

example : decRange decNat (.arr ([(1, some 3), (5, none)].map (legacyEnc encNat)))
    = some [(incl 1, excl 3), (incl 5, unb)] := decRange_legacy_nat _

example : decRange decNat (encRange encNat [(incl 1, excl 3), (excl 5, unb)])
    = some [(incl 1, excl 3), (excl 5, unb)] := decRange_encRange_nat _

/-- a non-canonical segment list (an empty segment, then an overlapping, unsorted one) is accepted
as is by `Deserialize` -/
example : decRange decNat (encRange encNat [(incl 3, excl 1), (unb, incl 7), (excl 0, unb)])
    = some [(incl 3, excl 1), (unb, incl 7), (excl 0, unb)] := decRange_encRange_nat _

/-- mixed new and legacy intervals in one sequence are accepted (`EitherInterval` is per item) -/
example : decRange decNat (.arr [.arr [.obj [("Included", .num 1)], .str "Unbounded"], .arr [.num 5, .null]])
    = some [(incl 1, unb), (incl 5, unb)] := by
  simp [decRange, decInterval, decBound, decNat]

example : SemVer.parse (SemVer.display ⟨1, 22, 333⟩) = .ok ⟨1, 22, 333⟩ := rfl

example : decSemVer (encSemVer ⟨1, 22, 333⟩) = some ⟨1, 22, 333⟩ :=
  decSemVer_encSemVer _ rfl

/-! ### the proviso `NotBoundLike` of the legacy theorems is necessary

With versions serialized as plain strings, the legacy pair `("Unbounded", Some("Unbounded"))` is read
by variant `B` as `(Unbounded, Unbounded)`: the full range, not `"Unbounded" <= v < "Unbounded"`. -/

def encStr (s : String) : Json := .str s
def decStr : Json → Option String
  | .str s => some s
  | _ => none

theorem decStr_encStr (s : String) : decStr (encStr s) = some s := rfl

example : decRange decStr (.arr [legacyEnc encStr ("Unbounded", some "Unbounded")])
    = some [(unb, unb)] := by
  simp [decRange, decInterval, decBound, legacyEnc, encStr]

/-- all other strings are fine -/
theorem decRange_legacy_str (pairs : List (String × Option String))
    (hp : ∀ p ∈ pairs, p.1 ≠ "Unbounded") :
    decRange decStr (.arr (pairs.map (legacyEnc encStr))) = some (pairs.map legacyDec) := by
  unfold decRange
  simp only
  induction pairs with
  | nil => simp
  | cons p t ih =>
    have h1 : decInterval decStr (legacyEnc encStr p) = some (legacyDec p) := by
      obtain ⟨a, _ | b⟩ := p
      · exact decInterval_legacy_none encStr decStr decStr_encStr a
      · exact decInterval_legacy_some encStr decStr decStr_encStr rfl a b
          (notBoundLike_str decStr a (hp (a, some b) (by simp)))
    have h2 := ih fun p hp' => hp p (by simp [hp'])
    simp [h1, h2]

end Serde
end Pubgrub

/-
Helpers for `NoPanic.lean`, part 6: `build_derivation_tree` succeeds on a store whose causes point
to smaller ids: the traversal stays within its fuel `2 * store.length + 2`, collects a set of valid ids
closed under causes, and the trees are built in ascending order of ids, causes first.
-/
import PubgrubProofs.NoPanicAux5

set_option linter.unusedSectionVars false
set_option linter.unusedVariables false

namespace Pubgrub
open VersionSet

/-- pigeonhole: distinct numbers below `n` are at most `n` -/
theorem List.length_le_of_nodup_lt : ∀ (n : Nat) (l : List Nat), l.Nodup → (∀ x ∈ l, x < n) → l.length ≤ n := by
  intro n
  induction n with
  | zero =>
    intro l _ h
    cases l with
    | nil => simp
    | cons a t => exact absurd (h a List.mem_cons_self) (Nat.not_lt_zero _)
  | succ n ih =>
    intro l hn h
    have h1 : (l.erase n).Nodup := hn.erase n
    have h2 : ∀ x ∈ l.erase n, x < n := by
      intro x hx
      have hx' := (List.Nodup.mem_erase_iff hn).1 hx
      have := h x hx'.2
      omega
    have h3 := ih _ h1 h2
    have h4 : l.length ≤ (l.erase n).length + 1 := by
      rw [List.length_erase]
      split <;> omega
    omega

section
variable {P S V M Pr : Type} [DecidableEq P] [VersionSet S V] [DecidableEq S]

namespace State

/-! ### the traversal -/

/-- what the traversal maintains: `all` has distinct valid ids, the stack has valid ids, and the causes of
the ids of `all` are in `all` or still on the stack -/
structure CollectPre (store : List (Incompat P S V M)) (stack all : List Nat) : Prop where
  nodup : all.Nodup
  all_lt : ∀ x ∈ all, x < store.length
  stack_lt : ∀ x ∈ stack, x < store.length
  closed : ∀ x ∈ all, ∀ inc a b, store[x]? = some inc → inc.causes = some (a, b) →
    (a ∈ all ∨ a ∈ stack) ∧ (b ∈ all ∨ b ∈ stack)

/-- what the traversal returns -/
structure CollectPost (store : List (Incompat P S V M)) (stack all all' : List Nat) : Prop where
  mono : ∀ x ∈ all, x ∈ all'
  stack_in : ∀ x ∈ stack, x ∈ all'
  all_lt : ∀ x ∈ all', x < store.length
  closed : ∀ x ∈ all', ∀ inc a b, store[x]? = some inc → inc.causes = some (a, b) → a ∈ all' ∧ b ∈ all'

theorem mem_dropLast_or_last {l : List Nat} {i x : Nat} (hl : l.getLast? = some i) (hx : x ∈ l) :
    x ∈ l.dropLast ∨ x = i := by
  have := TreeAux.eq_dropLast_of_getLast? l i hl
  rw [this] at hx
  rcases List.mem_append.1 hx with h | h
  · exact Or.inl h
  · exact Or.inr (List.mem_singleton.1 h)

theorem collectIds_ok (store : List (Incompat P S V M)) (hlt : CausesBelow store) :
    ∀ (fuel : Nat) (stack all shared : List Nat), CollectPre store stack all →
      stack.length + 2 * (store.length - all.length) + 1 ≤ fuel →
      ∃ all' shared', collectIds store fuel stack all shared = .ok (all', shared') ∧
        CollectPost store stack all all' := by
  intro fuel
  induction fuel with
  | zero => intro stack all shared _ hf; omega
  | succ fuel ih =>
    intro stack all shared hpre hf
    have hlen : all.length ≤ store.length := List.length_le_of_nodup_lt _ _ hpre.nodup hpre.all_lt
    unfold collectIds
    cases hl : stack.getLast? with
    | none =>
      have hnil : stack = [] := List.getLast?_eq_none_iff.1 hl
      refine ⟨all, shared, rfl, fun x h => h, ?_, hpre.all_lt, ?_⟩
      · intro x hx; rw [hnil] at hx; cases hx
      · intro x hx inc a b hs hc
        obtain ⟨h1, h2⟩ := hpre.closed x hx inc a b hs hc
        rw [hnil] at h1 h2
        simp only [List.not_mem_nil, or_false] at h1 h2
        exact ⟨h1, h2⟩
    | some i =>
      have hst := TreeAux.eq_dropLast_of_getLast? stack i hl
      have hi_mem : i ∈ stack := List.mem_of_getLast? hl
      have hi : i < store.length := hpre.stack_lt i hi_mem
      have hdl : stack.dropLast.length + 1 = stack.length := by
        conv => rhs; rw [hst]
        simp
      have hget : store[i]? = some store[i] := List.getElem?_eq_getElem hi
      simp only [storeGet_some hget]
      have hsub : ∀ x ∈ stack.dropLast, x ∈ stack := fun x hx => List.dropLast_subset _ hx
      cases hc : (store[i]).causes with
      | some ab =>
        obtain ⟨a, b⟩ := ab
        obtain ⟨ha, hb⟩ := hlt i _ a b hget hc
        simp only
        split
        · -- already seen
          rename_i hin
          have hin' : i ∈ all := by simpa using hin
          have hpre' : CollectPre store stack.dropLast all := by
            refine ⟨hpre.nodup, hpre.all_lt, fun x hx => hpre.stack_lt x (hsub x hx), ?_⟩
            intro x hx inc a' b' hs hc'
            obtain ⟨h1, h2⟩ := hpre.closed x hx inc a' b' hs hc'
            refine ⟨?_, ?_⟩
            · rcases h1 with h | h
              · exact Or.inl h
              · rcases mem_dropLast_or_last hl h with h | h
                · exact Or.inr h
                · exact Or.inl (h ▸ hin')
            · rcases h2 with h | h
              · exact Or.inl h
              · rcases mem_dropLast_or_last hl h with h | h
                · exact Or.inr h
                · exact Or.inl (h ▸ hin')
          obtain ⟨all', shared', hr, hpost⟩ := ih stack.dropLast all _ hpre' (by omega)
          refine ⟨all', shared', hr, hpost.mono, ?_, hpost.all_lt, hpost.closed⟩
          intro x hx
          rcases mem_dropLast_or_last hl hx with h | h
          · exact hpost.stack_in x h
          · exact h ▸ hpost.mono i hin'
        · -- a new derived id: expand it
          rename_i hin
          have hin' : i ∉ all := by simpa using hin
          have hpre' : CollectPre store (stack.dropLast ++ [a, b]) (all ++ [i]) := by
            refine ⟨?_, ?_, ?_, ?_⟩
            · rw [List.nodup_append]
              refine ⟨hpre.nodup, (List.pairwise_singleton _ i), ?_⟩
              intro x hx y hy
              rw [List.mem_singleton] at hy
              subst hy
              intro e; subst e; exact hin' hx
            · intro x hx
              rcases List.mem_append.1 hx with h | h
              · exact hpre.all_lt x h
              · rw [List.mem_singleton.1 h]; exact hi
            · intro x hx
              rcases List.mem_append.1 hx with h | h
              · exact hpre.stack_lt x (hsub x h)
              · simp only [List.mem_cons, List.not_mem_nil, or_false] at h
                rcases h with h | h <;> omega
            · intro x hx inc a' b' hs hc'
              rcases List.mem_append.1 hx with h | h
              · obtain ⟨h1, h2⟩ := hpre.closed x h inc a' b' hs hc'
                refine ⟨?_, ?_⟩
                · rcases h1 with h1 | h1
                  · exact Or.inl (List.mem_append_left _ h1)
                  · rcases mem_dropLast_or_last hl h1 with h1 | h1
                    · exact Or.inr (List.mem_append_left _ h1)
                    · exact Or.inl (List.mem_append_right _ (List.mem_singleton.2 h1))
                · rcases h2 with h2 | h2
                  · exact Or.inl (List.mem_append_left _ h2)
                  · rcases mem_dropLast_or_last hl h2 with h2 | h2
                    · exact Or.inr (List.mem_append_left _ h2)
                    · exact Or.inl (List.mem_append_right _ (List.mem_singleton.2 h2))
              · rw [List.mem_singleton] at h
                subst h
                rw [hget] at hs; injection hs with hs; subst hs
                rw [hc] at hc'; injection hc' with hc'; injection hc' with e1 e2
                subst e1; subst e2
                exact ⟨Or.inr (List.mem_append_right _ List.mem_cons_self),
                  Or.inr (List.mem_append_right _ (List.mem_cons_of_mem _ List.mem_cons_self))⟩
          have hlen' : all.length < store.length := by
            have := List.length_le_of_nodup_lt _ _ hpre'.nodup hpre'.all_lt
            simp only [List.length_append, List.length_cons, List.length_nil] at this
            omega
          obtain ⟨all', shared', hr, hpost⟩ := ih (stack.dropLast ++ [a, b]) (all ++ [i]) shared hpre' (by
            simp only [List.length_append, List.length_cons, List.length_nil]
            omega)
          refine ⟨all', shared', hr, fun x hx => hpost.mono x (List.mem_append_left _ hx), ?_,
            hpost.all_lt, hpost.closed⟩
          intro x hx
          rcases mem_dropLast_or_last hl hx with h | h
          · exact hpost.stack_in x (List.mem_append_left _ h)
          · exact h ▸ hpost.mono i (List.mem_append_right _ (List.mem_singleton.2 rfl))
      | none =>
        simp only
        by_cases hin : i ∈ all
        · have hcont : all.contains i = true := by simpa using hin
          rw [if_pos hcont]
          have hpre' : CollectPre store stack.dropLast all := by
            refine ⟨hpre.nodup, hpre.all_lt, fun x hx => hpre.stack_lt x (hsub x hx), ?_⟩
            intro x hx inc a' b' hs hc'
            obtain ⟨h1, h2⟩ := hpre.closed x hx inc a' b' hs hc'
            refine ⟨?_, ?_⟩
            · rcases h1 with h | h
              · exact Or.inl h
              · rcases mem_dropLast_or_last hl h with h | h
                · exact Or.inr h
                · exact Or.inl (h ▸ hin)
            · rcases h2 with h | h
              · exact Or.inl h
              · rcases mem_dropLast_or_last hl h with h | h
                · exact Or.inr h
                · exact Or.inl (h ▸ hin)
          obtain ⟨all', shared', hr, hpost⟩ := ih stack.dropLast all shared hpre' (by omega)
          refine ⟨all', shared', hr, hpost.mono, ?_, hpost.all_lt, hpost.closed⟩
          intro x hx
          rcases mem_dropLast_or_last hl hx with h | h
          · exact hpost.stack_in x h
          · exact h ▸ hpost.mono i hin
        · have hcont : ¬ (all.contains i = true) := by simpa using hin
          rw [if_neg hcont]
          have hpre' : CollectPre store stack.dropLast (all ++ [i]) := by
            refine ⟨?_, ?_, fun x hx => hpre.stack_lt x (hsub x hx), ?_⟩
            · rw [List.nodup_append]
              refine ⟨hpre.nodup, (List.pairwise_singleton _ i), ?_⟩
              intro x hx y hy
              rw [List.mem_singleton] at hy
              subst hy
              intro e; subst e; exact hin hx
            · intro x hx
              rcases List.mem_append.1 hx with h | h
              · exact hpre.all_lt x h
              · rw [List.mem_singleton.1 h]; exact hi
            · intro x hx inc a' b' hs hc'
              rcases List.mem_append.1 hx with h | h
              · obtain ⟨h1, h2⟩ := hpre.closed x h inc a' b' hs hc'
                refine ⟨?_, ?_⟩
                · rcases h1 with h1 | h1
                  · exact Or.inl (List.mem_append_left _ h1)
                  · rcases mem_dropLast_or_last hl h1 with h1 | h1
                    · exact Or.inr h1
                    · exact Or.inl (List.mem_append_right _ (List.mem_singleton.2 h1))
                · rcases h2 with h2 | h2
                  · exact Or.inl (List.mem_append_left _ h2)
                  · rcases mem_dropLast_or_last hl h2 with h2 | h2
                    · exact Or.inr h2
                    · exact Or.inl (List.mem_append_right _ (List.mem_singleton.2 h2))
              · rw [List.mem_singleton] at h
                subst h
                rw [hget] at hs; injection hs with hs; subst hs
                rw [hc] at hc'; cases hc'
          have hlen' : all.length < store.length := by
            have := List.length_le_of_nodup_lt _ _ hpre'.nodup hpre'.all_lt
            simp only [List.length_append, List.length_cons, List.length_nil] at this
            omega
          obtain ⟨all', shared', hr, hpost⟩ := ih stack.dropLast (all ++ [i]) shared hpre' (by
            simp only [List.length_append, List.length_cons, List.length_nil]
            omega)
          refine ⟨all', shared', hr, fun x hx => hpost.mono x (List.mem_append_left _ hx), ?_,
            hpost.all_lt, hpost.closed⟩
          intro x hx
          rcases mem_dropLast_or_last hl hx with h | h
          · exact hpost.stack_in x h
          · exact h ▸ hpost.mono i (List.mem_append_right _ (List.mem_singleton.2 rfl))

/-! ### sorting -/

theorem mem_insertSorted (x y : Nat) : ∀ l : List Nat, y ∈ insertSorted x l ↔ y = x ∨ y ∈ l := by
  intro l
  induction l with
  | nil => simp [insertSorted]
  | cons a t ih =>
    unfold insertSorted
    split
    · simp
    · simp only [List.mem_cons, ih]
      constructor
      · rintro (h | h | h)
        · exact Or.inr (Or.inl h)
        · exact Or.inl h
        · exact Or.inr (Or.inr h)
      · rintro (h | h | h)
        · exact Or.inr (Or.inl h)
        · exact Or.inl h
        · exact Or.inr (Or.inr h)

theorem sorted_insertSorted (x : Nat) : ∀ l : List Nat, l.Pairwise (· ≤ ·) → (insertSorted x l).Pairwise (· ≤ ·) := by
  intro l
  induction l with
  | nil => intro _; simp [insertSorted]
  | cons a t ih =>
    intro h
    unfold insertSorted
    rw [List.pairwise_cons] at h
    split
    · rename_i hxa
      rw [List.pairwise_cons]
      refine ⟨?_, List.pairwise_cons.2 h⟩
      intro y hy
      rcases List.mem_cons.1 hy with e | hy'
      · omega
      · have := h.1 y hy'; omega
    · rename_i hxa
      rw [List.pairwise_cons]
      refine ⟨?_, ih h.2⟩
      intro y hy
      rcases (mem_insertSorted x y t).1 hy with e | hy'
      · omega
      · exact h.1 y hy'

theorem mem_sortIds (y : Nat) : ∀ l : List Nat, y ∈ sortIds l ↔ y ∈ l := by
  intro l
  induction l with
  | nil => simp [sortIds]
  | cons a t ih =>
    have : sortIds (a :: t) = insertSorted a (sortIds t) := rfl
    rw [this, mem_insertSorted, ih, List.mem_cons]

theorem sorted_sortIds : ∀ l : List Nat, (sortIds l).Pairwise (· ≤ ·) := by
  intro l
  induction l with
  | nil => simp [sortIds]
  | cons a t ih =>
    have : sortIds (a :: t) = insertSorted a (sortIds t) := rfl
    rw [this]
    exact sorted_insertSorted a _ ih

/-! ### building the trees -/

theorem buildNode_ok (store : List (Incompat P S V M)) (shared : List Nat)
    (pre : List (Nat × DerivationTree P S V M)) (id : Nat) (hid : id < store.length)
    (hc : ∀ inc a b, store[id]? = some inc → inc.causes = some (a, b) →
      (SmallMap.get pre a).isSome = true ∧ (SmallMap.get pre b).isSome = true) :
    ∃ t, buildNode store shared pre id = .ok t := by
  have hget : store[id]? = some store[id] := List.getElem?_eq_getElem hid
  unfold buildNode
  simp only [storeGet_some hget, bind, Except.bind, pure, Except.pure]
  cases hk : (store[id]).kind with
  | derivedFrom a b =>
    obtain ⟨h1, h2⟩ := hc _ a b hget (by unfold Incompat.causes; rw [hk])
    obtain ⟨t1, ht1⟩ := Option.isSome_iff_exists.1 h1
    obtain ⟨t2, ht2⟩ := Option.isSome_iff_exists.1 h2
    simp only [ht1, ht2, unwrapOr]
    exact ⟨_, rfl⟩
  | notRoot p v => exact ⟨_, rfl⟩
  | noVersions p s => exact ⟨_, rfl⟩
  | fromDependencyOf p s q t => exact ⟨_, rfl⟩
  | custom p s m => exact ⟨_, rfl⟩

theorem buildAll_ok (store : List (Incompat P S V M)) (hlt : CausesBelow store) (shared : List Nat) :
    ∀ (l : List Nat) (pre : List (Nat × DerivationTree P S V M)), l.Pairwise (· ≤ ·) →
      (∀ x ∈ l, x < store.length) →
      (∀ x ∈ l, ∀ inc a b, store[x]? = some inc → inc.causes = some (a, b) →
        ((SmallMap.get pre a).isSome = true ∨ a ∈ l) ∧ ((SmallMap.get pre b).isSome = true ∨ b ∈ l)) →
      ∃ pre', l.foldlM (m := R) (fun pre id => do
          let t ← buildNode store shared pre id
          pure (SmallMap.insert pre id t)) pre = .ok pre' ∧
        ∀ x, ((SmallMap.get pre x).isSome = true ∨ x ∈ l) → (SmallMap.get pre' x).isSome = true := by
  intro l
  induction l with
  | nil =>
    intro pre _ _ _
    refine ⟨pre, rfl, ?_⟩
    intro x hx
    rcases hx with h | h
    · exact h
    · cases h
  | cons x rest ih =>
    intro pre hsorted hvalid hclosed
    rw [List.pairwise_cons] at hsorted
    have hcx : ∀ inc a b, store[x]? = some inc → inc.causes = some (a, b) →
        (SmallMap.get pre a).isSome = true ∧ (SmallMap.get pre b).isSome = true := by
      intro inc a b hs hc
      obtain ⟨ha, hb⟩ := hlt x inc a b hs hc
      obtain ⟨h1, h2⟩ := hclosed x List.mem_cons_self inc a b hs hc
      refine ⟨?_, ?_⟩
      · rcases h1 with h | h
        · exact h
        · rcases List.mem_cons.1 h with e | h'
          · omega
          · have := hsorted.1 a h'; omega
      · rcases h2 with h | h
        · exact h
        · rcases List.mem_cons.1 h with e | h'
          · omega
          · have := hsorted.1 b h'; omega
    obtain ⟨t, ht⟩ := buildNode_ok store shared pre x (hvalid x List.mem_cons_self) hcx
    simp only [List.foldlM_cons, ht, bind, Except.bind, pure, Except.pure]
    have hins : ∀ y, ((SmallMap.get pre y).isSome = true ∨ y = x) →
        (SmallMap.get (SmallMap.insert pre x t) y).isSome = true := by
      intro y hy
      rw [SmallMap.get_insert]
      split
      · rfl
      · rename_i hne
        rcases hy with h | h
        · exact h
        · exact absurd h hne
    obtain ⟨pre', hr, hpost⟩ := ih (SmallMap.insert pre x t) hsorted.2
      (fun y hy => hvalid y (List.mem_cons_of_mem _ hy)) (by
        intro y hy inc a b hs hc
        obtain ⟨h1, h2⟩ := hclosed y (List.mem_cons_of_mem _ hy) inc a b hs hc
        refine ⟨?_, ?_⟩
        · rcases h1 with h | h
          · exact Or.inl (hins a (Or.inl h))
          · rcases List.mem_cons.1 h with e | h'
            · exact Or.inl (hins a (Or.inr e))
            · exact Or.inr h'
        · rcases h2 with h | h
          · exact Or.inl (hins b (Or.inl h))
          · rcases List.mem_cons.1 h with e | h'
            · exact Or.inl (hins b (Or.inr e))
            · exact Or.inr h')
    refine ⟨pre', hr, ?_⟩
    intro y hy
    apply hpost
    rcases hy with h | h
    · exact Or.inl (hins y (Or.inl h))
    · rcases List.mem_cons.1 h with e | h'
      · exact Or.inl (hins y (Or.inr e))
      · exact Or.inr h'

/-- `build_derivation_tree` succeeds for every valid id -/
theorem buildDerivationTree_ok (st : State P S V M Pr) (hlt : CausesBelow st.store) (id : Nat)
    (hid : id < st.store.length) : ∃ tree, st.buildDerivationTree id = .ok tree := by
  unfold buildDerivationTree
  have hpre : CollectPre st.store [id] [] := by
    refine ⟨List.nodup_nil, (fun x hx => by cases hx), ?_, (fun x hx => by cases hx)⟩
    intro x hx
    rw [List.mem_singleton.1 hx]; exact hid
  obtain ⟨all, shared, hcol, hpost⟩ := collectIds_ok st.store hlt (2 * st.store.length + 2) [id] [] [] hpre (by
    simp only [List.length_cons, List.length_nil]; omega)
  obtain ⟨pre', hbuild, hget⟩ := buildAll_ok st.store hlt shared (sortIds all) [] (sorted_sortIds all)
    (fun x hx => hpost.all_lt x ((mem_sortIds x all).1 hx)) (by
      intro x hx inc a b hs hc
      obtain ⟨h1, h2⟩ := hpost.closed x ((mem_sortIds x all).1 hx) inc a b hs hc
      exact ⟨Or.inr ((mem_sortIds a all).2 h1), Or.inr ((mem_sortIds b all).2 h2)⟩)
  have hroot : (SmallMap.get pre' id).isSome = true :=
    hget id (Or.inr ((mem_sortIds id all).2 (hpost.stack_in id (List.mem_singleton.2 rfl))))
  obtain ⟨tree, htree⟩ := Option.isSome_iff_exists.1 hroot
  simp only [hcol, bind, Except.bind, pure, Except.pure] at hbuild ⊢
  rw [hbuild]
  simp only [htree, unwrapOr]
  exact ⟨_, rfl⟩

end State
end
end Pubgrub

//! Scale runs: registries with tens of thousands of packages / decision levels, far beyond what the
//! model can mirror (the driver answers `not-modelled`); direct oracles only: `resolve` returns without
//! panicking (C05), the solution is valid (C01) and every selected package is reachable from the root
//! (C04).  They expose counters, levels or indices narrowed to 8 or 16 bits.
//!
//! `scale|chain|n`  : root -> 1 -> 2 -> … -> n, one version each: n + 1 decision levels, no conflict.
//! `scale|jump|n`   : root needs the chain 1..n (ending in A), B and Y = 1.  A 2 needs W, A 1 nothing;
//!                    B 1 needs Y = 2 (impossible), B 0 needs A = 1.  The chain and A are decided first, B
//!                    last: its conflict backjumps from level n + 3 to level 1 — a jump of n + 2 levels
//!                    over derivations introduced at every level in between — then A 1 is chosen and W
//!                    must disappear.
use crate::cases::{Case, Sink};
use crate::eval::eval_line;
use pubgrub::{resolve, Dependencies, DependencyProvider, OfflineDependencyProvider, PubGrubError, Range};
use std::cmp::Reverse;
use std::collections::{BTreeMap, BTreeSet};
use std::convert::Infallible;

const A: u32 = 1_000_000;
const B: u32 = 1_000_001;
const Y: u32 = 1_000_002;
const W: u32 = 1_000_003;

/// first package id of the tail of a `late-<seed>` run
const T0: u32 = 2_000_000;

struct Ordered(OfflineDependencyProvider<u32, Range<u32>>, u64);

impl DependencyProvider for Ordered {
    type P = u32;
    type V = u32;
    type VS = Range<u32>;
    type M = String;
    type Err = Infallible;
    type Priority = (u32, Reverse<u32>);
    fn prioritize(&self, package: &u32, range: &Range<u32>) -> Self::Priority {
        // the chain first (in order), then A, Y, W; B last while unrestricted, first once restricted
        if *package >= T0 {
            // the tail of a `late` run: after the chain; by id, or fewest matching versions first (seed bit 0)
            let count = self.0.versions(package).map(|vs| vs.filter(|v| range.contains(v)).count() as u32).unwrap_or(0);
            return if self.1 & 1 == 0 { (1, Reverse(*package)) } else { (1, Reverse(count * 100 + (*package - T0))) };
        }
        let class = match *package {
            B if *range == Range::full() => 0,
            B => 9,
            W => 1,
            Y => 2,
            A => 3,
            _ => 5,
        };
        (class, Reverse(*package))
    }
    fn choose_version(&self, package: &u32, range: &Range<u32>) -> Result<Option<u32>, Infallible> {
        if *package >= T0 && self.1 & 2 != 0 {
            // oldest first (seed bit 1)
            return Ok(self.0.versions(package).and_then(|mut vs| vs.find(|v| range.contains(v)).cloned()));
        }
        self.0.choose_version(package, range)
    }
    fn get_dependencies(&self, package: &u32, version: &u32) -> Result<Dependencies<u32, Range<u32>, String>, Infallible> {
        self.0.get_dependencies(package, version)
    }
}

/// the tail of a `late` run: 4..6 packages T0.., versions among {1,2,3}, up to 2 dependencies per version on
/// other tail packages (cycles allowed) with sets from a small family; the root needs T0 and T0+1
fn tail_registry(seed: u64) -> (Vec<(u32, Range<u32>)>, BTreeMap<(u32, u32), Vec<(u32, Range<u32>)>>) {
    let mut rng = crate::util::Rng::new(seed.wrapping_mul(0x9e37_79b9).wrapping_add(77));
    let k = 4 + rng.below(3) as u32;
    let set = |rng: &mut crate::util::Rng| -> Range<u32> {
        match rng.below(9) {
            0 => Range::full(),
            1 | 2 => Range::singleton(1 + rng.below(3) as u32),
            3 => Range::between(1u32, 3u32),
            4 => Range::higher_than(2u32),
            5 => Range::singleton(1u32).union(&Range::singleton(3u32)),
            6 => Range::strictly_lower_than(2u32),
            7 => Range::strictly_higher_than(2u32),
            _ => Range::singleton(2u32).complement(),
        }
    };
    let mut reg = BTreeMap::new();
    for i in 0..k {
        for v in 1..=3u32 {
            if rng.chance(1, 5) && v != 2 {
                continue;
            }
            let mut ds: BTreeMap<u32, Range<u32>> = BTreeMap::new();
            for _ in 0..rng.below(3) {
                let extra = if rng.chance(1, 12) { 1 } else { 0 };
                let q = T0 + rng.below(k as u64 + extra) as u32;
                if q != T0 + i {
                    ds.insert(q, set(&mut rng));
                }
            }
            reg.insert((T0 + i, v), ds.into_iter().collect());
        }
    }
    let root = vec![(T0, set(&mut rng)), (T0 + 1, set(&mut rng))];
    (root, reg)
}

/// is there a valid selection of tail packages satisfying `root`'s requirements? (brute force, <= 4^7)
fn tail_has_solution(root: &[(u32, Range<u32>)], reg: &BTreeMap<(u32, u32), Vec<(u32, Range<u32>)>>) -> bool {
    let mut pkgs: Vec<u32> = reg.keys().map(|(p, _)| *p).collect();
    pkgs.dedup();
    let opts: Vec<Vec<Option<u32>>> = pkgs.iter().map(|p| std::iter::once(None).chain(reg.keys().filter(|(q, _)| q == p).map(|(_, v)| Some(*v))).collect()).collect();
    let mut idx = vec![0usize; pkgs.len()];
    loop {
        let sel: BTreeMap<u32, u32> = pkgs.iter().zip(&idx).zip(&opts).filter_map(|((p, i), o)| o[*i].map(|v| (*p, v))).collect();
        let ok_dep = |q: &u32, set: &Range<u32>| sel.get(q).is_some_and(|v| set.contains(v));
        if root.iter().all(|(q, s)| ok_dep(q, s)) && sel.iter().all(|(p, v)| reg[&(*p, *v)].iter().all(|(q, s)| ok_dep(q, s))) {
            return true;
        }
        let mut j = 0;
        loop {
            if j == idx.len() {
                return false;
            }
            idx[j] += 1;
            if idx[j] < opts[j].len() {
                break;
            }
            idx[j] = 0;
            j += 1;
        }
    }
}

fn late_seed(shape: &str) -> Option<u64> {
    shape.strip_prefix("late-").and_then(|s| s.parse().ok())
}

fn registry(shape: &str, n: u32) -> (Ordered, BTreeMap<(u32, u32), Vec<(u32, Range<u32>)>>) {
    let mut reg: BTreeMap<(u32, u32), Vec<(u32, Range<u32>)>> = BTreeMap::new();
    if let Some(seed) = late_seed(shape) {
        // root -> chain 1..n (decided first, one level each) and the tail's two entry packages
        let (troot, treg) = tail_registry(seed);
        let mut root = vec![(1u32, Range::full())];
        root.extend(troot);
        reg.insert((0, 1), root);
        for i in 1..n {
            reg.insert((i, 1), vec![(i + 1, Range::full())]);
        }
        reg.insert((n, 1), vec![]);
        reg.extend(treg);
        let mut dp = OfflineDependencyProvider::<u32, Range<u32>>::new();
        for ((p, v), ds) in &reg {
            dp.add_dependencies(*p, *v, ds.iter().cloned());
        }
        return (Ordered(dp, seed >> 8), reg);
    }
    let last = if shape == "jump" { A } else { 0 };
    let mut root = vec![(1u32, Range::full())];
    if shape == "jump" {
        root.push((B, Range::full()));
        root.push((Y, Range::singleton(1u32)));
    }
    reg.insert((0, 1), root);
    for i in 1..n {
        reg.insert((i, 1), vec![(i + 1, Range::full())]);
    }
    reg.insert((n, 1), if last == A { vec![(A, Range::full())] } else { vec![] });
    if shape == "jump" {
        reg.insert((A, 2), vec![(W, Range::singleton(1u32))]);
        reg.insert((A, 1), vec![]);
        reg.insert((B, 1), vec![(Y, Range::singleton(2u32))]);
        reg.insert((B, 0), vec![(A, Range::singleton(1u32))]);
        reg.insert((Y, 1), vec![]);
        reg.insert((Y, 2), vec![]);
        reg.insert((W, 1), vec![]);
    }
    let mut dp = OfflineDependencyProvider::<u32, Range<u32>>::new();
    for ((p, v), ds) in &reg {
        dp.add_dependencies(*p, *v, ds.iter().cloned());
    }
    (Ordered(dp, 0), reg)
}

/// `scale|<shape>|<n>`
pub fn eval_scale(req: &str, shape: &str, n: u32) -> Case {
    let (dp, reg) = registry(shape, n);
    let res = crate::util::quiet(|| crate::solver::watched(req.to_string(), || std::panic::catch_unwind(std::panic::AssertUnwindSafe(|| resolve(&dp, 0u32, 1u32)))));
    let mut fail: Option<String> = None;
    let imp = match res {
        Err(e) => {
            let msg = e.downcast_ref::<String>().cloned().or_else(|| e.downcast_ref::<&str>().map(|s| s.to_string())).unwrap_or("?".into());
            fail = Some(format!("resolve panicked on a registry with {} packages: {}", n, msg.replace('\n', " ")));
            "panic".to_string()
        }
        Ok(Err(PubGrubError::NoSolution(_))) => {
            let solvable = match late_seed(shape) {
                Some(seed) => {
                    let (troot, treg) = tail_registry(seed);
                    tail_has_solution(&troot, &treg)
                }
                None => true,
            };
            if solvable {
                fail = Some("NoSolution although the registry has a solution".into());
            }
            "nosolution".to_string()
        }
        Ok(Err(e)) => {
            fail = Some(format!("resolve returned an error: {:?}", e).chars().take(300).collect());
            "error".to_string()
        }
        Ok(Ok(sol)) => {
            // validity and reachability
            let sel: BTreeMap<u32, u32> = sol.into_iter().collect();
            let mut needed: BTreeSet<u32> = BTreeSet::new();
            needed.insert(0);
            if sel.get(&0) != Some(&1) {
                fail = Some("the root is not selected at the requested version".into());
            }
            for (p, v) in &sel {
                match reg.get(&(*p, *v)) {
                    None => fail = Some(format!("{} {} was never offered", p, v)),
                    Some(ds) => {
                        for (q, set) in ds {
                            needed.insert(*q);
                            if !sel.get(q).is_some_and(|qv| set.contains(qv)) {
                                fail = Some(format!("the dependency of {} {} on {} {} is not satisfied", p, v, q, set));
                            }
                        }
                    }
                }
            }
            let extra: Vec<u32> = sel.keys().filter(|p| !needed.contains(p)).cloned().collect();
            if !extra.is_empty() {
                fail = Some(format!("selected although nothing selected depends on them: {:?}", extra));
            }
            format!("ok {} packages", sel.len())
        }
    };
    Case { req: req.to_string(), imp, nontrivial: true, oracle_fail: fail, tags: vec![if shape == "jump" { "scale_long_backjump" } else if shape.starts_with("late") { "scale_late_conflicts" } else { "scale_chain" }] }
}

pub fn gen_scale(sink: &mut Sink, thorough: bool) {
    let mut lens: Vec<u32> = vec![];
    // a backjump of n + 2 levels: every alignment around 2^8 and 2^16
    lens.extend(250..=260);
    if thorough {
        lens.extend(65_528..=65_542);
        lens.push(131_070);
    } else {
        lens.extend([65_533, 65_534, 65_535, 65_536]);
    }
    for t in crate::util::thresholds(140_000) {
        let t = t as u32;
        lens.extend(t.saturating_sub(4).max(3)..=t + 2);
    }
    lens.sort();
    lens.dedup();
    for n in &lens {
        sink.push(eval_line(&format!("scale|jump|{}", n)));
    }
    let mut chains: Vec<u32> = if thorough { vec![300, 70_000, 140_000] } else { vec![300, 70_000] };
    chains.extend(crate::util::thresholds(200_000).iter().map(|t| *t as u32 + 2));
    for n in &chains {
        sink.push(eval_line(&format!("scale|chain|{}", n)));
    }
    // late conflicts: a conflict-rich tail decided on top of a chain of n levels, so that conflicts, backjumps
    // and re-decisions all happen at decision levels around 2^8 / 2^16.  The tails are chosen (on a chain of 3)
    // among random ones for having at least two backtracks — their behaviour does not depend on the chain.
    let mut tails: Vec<u64> = vec![];
    let mut seed = 0u64;
    let want = if thorough { 24 } else { 8 };
    while tails.len() < want && seed < 4000 {
        seed += 1;
        let (dp, _) = registry(&format!("late-{}", seed), 3);
        let counter = BacktrackCounter { inner: dp, picks: std::cell::RefCell::new(vec![]) };
        let _ = std::panic::catch_unwind(std::panic::AssertUnwindSafe(|| resolve(&counter, 0u32, 1u32)));
        // a package chosen again = a backtrack undid its decision
        let picks = counter.picks.borrow();
        let repeats = picks.iter().enumerate().filter(|(i, p)| picks[..*i].contains(p)).count();
        if repeats >= 2 {
            tails.push(seed);
        }
    }
    let mut late_ns: Vec<u32> = if thorough { (65_530..=65_538).chain(252..=258).collect() } else { vec![254, 256, 65_533, 65_535] };
    for t in crate::util::thresholds(140_000) {
        let t = t as u32;
        late_ns.extend(t.saturating_sub(3).max(3)..=t + 1);
    }
    late_ns.sort();
    late_ns.dedup();
    for (i, t) in tails.iter().enumerate() {
        for (j, n) in late_ns.iter().enumerate() {
            if thorough || (i + j) % 2 == 0 {
                sink.push(eval_line(&format!("scale|late-{}|{}", t, n)));
            }
        }
    }
    sink.notes.push(format!("late-conflict runs: {} conflict-rich tails (>= 2 backtracks each) on top of chains of {:?} decision levels; Ok checked for validity and reachability, NoSolution against a brute-force search of the tail", tails.len(), late_ns));
    sink.notes.push(format!("scale runs (direct oracles only, not mirrored): long backjumps over n + 2 decision levels for n in {:?}, conflict-free chains of {:?} packages", lens, chains));
}

/// records which packages `choose_version` is asked about (to count re-decisions)
struct BacktrackCounter {
    inner: Ordered,
    picks: std::cell::RefCell<Vec<u32>>,
}
impl DependencyProvider for BacktrackCounter {
    type P = u32;
    type V = u32;
    type VS = Range<u32>;
    type M = String;
    type Err = Infallible;
    type Priority = (u32, Reverse<u32>);
    fn prioritize(&self, package: &u32, range: &Range<u32>) -> Self::Priority {
        self.inner.prioritize(package, range)
    }
    fn choose_version(&self, package: &u32, range: &Range<u32>) -> Result<Option<u32>, Infallible> {
        self.picks.borrow_mut().push(*package);
        self.inner.choose_version(package, range)
    }
    fn get_dependencies(&self, package: &u32, version: &u32) -> Result<Dependencies<u32, Range<u32>, String>, Infallible> {
        self.inner.get_dependencies(package, version)
    }
}

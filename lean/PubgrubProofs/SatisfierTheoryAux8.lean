/-
Helpers for `SatisfierTheory.lean`, part 8: `relation` returning `almostSatisfied`, the prior cause of a
satisfied incompatibility, `State.backtrack`.
-/
import PubgrubProofs.SatisfierTheoryAux7

set_option linter.unusedSectionVars false
set_option linter.unusedVariables false

namespace Pubgrub
open VersionSet

section
variable {P S V M Pr : Type} [DecidableEq P] [VersionSet S V] [DecidableEq S] [LawfulVersionSet S V]

namespace Incompat

/-- once a term was found inconclusive, `almostSatisfied` is only returned if all the others are satisfied -/
theorem relationGo_almost_of_almost (terms : P → Option (Term S)) (p0 p : P) :
    ∀ (l : List (P × Term S)), relationGo terms (.almostSatisfied p0) l = .almostSatisfied p →
      p = p0 ∧ ∀ q t, (q, t) ∈ l → ∃ o, terms q = some o ∧ t.relationWith o = .satisfied := by
  intro l
  induction l with
  | nil =>
    intro h
    simp only [relationGo] at h
    injection h with h
    exact ⟨h.symm, fun q t hm => by cases hm⟩
  | cons x rest ih =>
    intro h
    obtain ⟨q0, t0⟩ := x
    unfold relationGo at h
    split at h
    · rename_i hrel
      obtain ⟨h1, h2⟩ := ih h
      refine ⟨h1, ?_⟩
      intro q t hm
      rcases List.mem_cons.1 hm with e | e
      · injection e with e1 e2; subst e1; subst e2
        cases ho : terms q with
        | none => rw [ho] at hrel; cases hrel
        | some o =>
          rw [ho] at hrel
          simp only [Option.map_some, Option.some.injEq] at hrel
          exact ⟨o, rfl, hrel⟩
      · exact h2 q t e
    · cases h
    · rw [if_neg (by intro e; cases e)] at h; cases h

/-- what `relation = almostSatisfied p` means -/
theorem relationGo_almost (terms : P → Option (Term S)) (p : P) :
    ∀ (l : List (P × Term S)), relationGo terms .satisfied l = .almostSatisfied p →
      (∀ q t, (q, t) ∈ l → q ≠ p → ∃ o, terms q = some o ∧ t.relationWith o = .satisfied) ∧
      ∃ t, (p, t) ∈ l ∧ (terms p = none ∨ ∃ o, terms p = some o ∧ t.relationWith o = .inconclusive) := by
  intro l
  induction l with
  | nil => intro h; simp only [relationGo] at h; cases h
  | cons x rest ih =>
    intro h
    obtain ⟨q0, t0⟩ := x
    unfold relationGo at h
    split at h
    · rename_i hrel
      obtain ⟨h1, t, h2, h3⟩ := ih h
      refine ⟨?_, t, List.mem_cons_of_mem _ h2, h3⟩
      intro q t' hm hq
      rcases List.mem_cons.1 hm with e | e
      · injection e with e1 e2; subst e1; subst e2
        cases ho : terms q with
        | none => rw [ho] at hrel; cases hrel
        | some o =>
          rw [ho] at hrel
          simp only [Option.map_some, Option.some.injEq] at hrel
          exact ⟨o, rfl, hrel⟩
      · exact h1 q t' e hq
    · cases h
    · rename_i hns hnc
      rw [if_pos rfl] at h
      obtain ⟨h1, h2⟩ := relationGo_almost_of_almost terms q0 p rest h
      subst h1
      refine ⟨fun q t hm hq => ?_, t0, List.mem_cons_self, ?_⟩
      · rcases List.mem_cons.1 hm with e | e
        · injection e with e1 _; exact absurd e1 hq
        · exact h2 q t e
      · cases ho : terms p with
        | none => exact Or.inl rfl
        | some o =>
          right
          refine ⟨o, rfl, ?_⟩
          rw [ho] at hns hnc
          simp only [Option.map_some] at hns hnc
          cases hr : t0.relationWith o with
          | satisfied => exact absurd (by rw [hr]) (hns)
          | contradicted => exact absurd (by rw [hr]) (hnc)
          | inconclusive => rfl

end Incompat

theorem TInv.congr {root : P} {rv : V} {st st' : State P S V M Pr} (h : TInv root rv st)
    (e1 : st'.ps = st.ps) (e2 : st'.store = st.store) : TInv root rv st' := by
  obtain ⟨h1, h2, h3, ⟨r1, r2, r3, r4⟩⟩ := h
  refine ⟨?_, ?_, ?_, ⟨?_, ?_, ?_, ?_⟩⟩
  · rw [e1]; exact h1
  · rw [e1]; exact h2
  · unfold State.CauseInv; rw [e1, e2]; exact h3
  · rw [e1, e2]; exact r1
  · rw [e1, e2]; exact r2
  · rw [e1]; exact r3
  · rw [e1]; exact r4

/-- the invariant when the store grows (at decision level 0: by incompatibilities that only mention
the root) -/
theorem TInv.storeExt {root : P} {rv : V} {st st' : State P S V M Pr} (h : TInv root rv st)
    (e1 : st'.ps = st.ps)
    (e2 : ∀ (i : Nat) (inc : Incompat P S V M), st.store[i]? = some inc → st'.store[i]? = some inc)
    (hne : st.ps.assignments ≠ [])
    (hl : st.ps.currentDecisionLevel = 0 → ∀ inc ∈ st'.store, ∀ kv ∈ inc.terms, kv.1 = root) :
    TInv root rv st' := by
  obtain ⟨h1, h2, h3, ⟨r1, r2, r3, r4⟩⟩ := h
  refine ⟨?_, ?_, ?_, ⟨?_, ?_, ?_, ?_⟩⟩
  · rw [e1]; exact h1
  · rw [e1]; exact h2
  · unfold State.CauseInv; rw [e1]
    intro p pa hm dd hdd
    obtain ⟨inc, g1, g2⟩ := h3 p pa hm dd hdd
    exact ⟨inc, e2 _ _ g1, g2⟩
  · rw [e1]
    intro h0
    obtain ⟨g1, g2, g3⟩ := r1 h0
    exact ⟨g1, hl h0, g3⟩
  · rw [e1]; intro h; exact absurd h hne
  · rw [e1]; exact r3
  · rw [e1]; exact r4

/-- the prior cause of a satisfied incompatibility and of the cause of one of the derivations is
satisfied -/
theorem satisfies_priorCause (W : World P S V M) (root : P) (rv : V) {st : State P S V M Pr}
    (hs : SInv W root rv st) (hp : PInv st) (ht : TInv root rv st)
    {inc causeInc prior : Incompat P S V M} {cur c : Nat} (hinc : st.store[cur]? = some inc)
    (hcause : st.store[c]? = some causeInc) (hsat : st.ps.Satisfies inc)
    {pkg : P} {pa : PackageAssignments S V} {dd : DatedDerivation S} (hpa : st.ps.getPA pkg = some pa)
    (hdd : dd ∈ pa.dated) (hc : dd.cause = c)
    (hprior : Incompat.priorCause cur c inc causeInc pkg = .ok prior) : st.ps.Satisfies prior := by
  have hw := hp.wf
  have gi := hs.store cur inc hinc
  have gc := hs.store c causeInc hcause
  obtain ⟨t1, t2, merged, hg1, hg2, hnm, hm, _, hterms⟩ :=
    Incompat.priorCause_spec inc causeInc gi.nodup gc.nodup cur c pkg prior hprior
  have v1 : t1.Valid := gi.sets _ _ (SmallMap.mem_of_get hg1)
  have v2 : t2.Valid := gc.sets _ _ (SmallMap.mem_of_get hg2)
  -- the terms of the cause other than the pivot are satisfied
  have hcauseSat : ∀ k b, SmallMap.get causeInc.terms k = some b → k ≠ pkg →
      ∃ par, st.ps.getPA k = some par ∧ par.inter.term.Imp b := by
    intro k b hb hk
    obtain ⟨inc0, g1, _, g3⟩ := ht.cause pkg pa (SmallMap.mem_of_get hpa) dd hdd
    rw [hc, hcause] at g1; injection g1 with g1; subst g1
    obtain ⟨par, tb, k1, k2, k3⟩ := g3 k b (SmallMap.mem_of_get hb) hk
    have hparm := SmallMap.mem_of_get k1
    obtain ⟨j, _, hwf, _⟩ := hw.entry_of_mem hparm
    refine ⟨par, k1, Term.Imp.trans (PackageAssignments.term_imp_termBefore hwf (ht.shrink _ hparm) k2) ?_⟩
    exact Term.imp_of_subsetOf (PackageAssignments.termBefore_valid (hs.ps _ hparm) k2)
      (gc.sets _ _ (SmallMap.mem_of_get hb)) k3
  have hincSat : ∀ k a, SmallMap.get inc.terms k = some a →
      ∃ par, st.ps.getPA k = some par ∧ par.inter.term.Imp a :=
    fun k a ha => hsat k a (SmallMap.mem_of_get ha)
  have hmerged : ∀ k t, k ≠ pkg → SmallMap.get merged k = some t →
      ∃ par, st.ps.getPA k = some par ∧ par.inter.term.Imp t := by
    intro k t hk hg
    rw [hm k, if_neg hk] at hg
    cases hx : SmallMap.get inc.terms k <;> cases hy : SmallMap.get causeInc.terms k <;>
      rw [hx, hy] at hg <;> simp only [SmallMap.mergeOpt, Option.some.injEq, reduceCtorEq] at hg
    · subst hg; exact hcauseSat k _ hy hk
    · subst hg; exact hincSat k _ hx
    · subst hg
      obtain ⟨par, k1, k2⟩ := hincSat k _ hx
      obtain ⟨par', k3, k4⟩ := hcauseSat k _ hy hk
      rw [k1] at k3; injection k3 with k3; subst k3
      refine ⟨par, k1, ?_⟩
      intro c' hc'
      rw [Term.eval_intersection _ _ (gi.sets _ _ (SmallMap.mem_of_get hx)) (gc.sets _ _ (SmallMap.mem_of_get hy)),
        k2 c' hc', k4 c' hc']
      rfl
  have hpivot : ∃ par, st.ps.getPA pkg = some par ∧ par.inter.term.Imp (Term.union t1 t2) := by
    obtain ⟨par, k1, k2⟩ := hincSat pkg t1 hg1
    refine ⟨par, k1, ?_⟩
    intro c' hc'
    rw [Term.eval_union _ _ v1 v2, k2 c' hc']; rfl
  intro q t hqt
  rw [hterms] at hqt
  split at hqt
  · rw [SmallMap.mem_insert_iff _ hnm] at hqt
    rcases hqt with ⟨rfl, rfl⟩ | ⟨hq, hqt⟩
    · exact hpivot
    · exact hmerged q t hq (SmallMap.get_of_mem hnm hqt)
  · have hg := SmallMap.get_of_mem hnm hqt
    by_cases hq : q = pkg
    · subst hq; rw [hm q, if_pos rfl] at hg; cases hg
    · exact hmerged q t hq hg

/-- `prior_cause` does not panic when both incompatibilities contain the pivot -/
theorem Incompat.priorCause_ok {a b : Incompat P S V M} {p : P} (id1 id2 : Nat)
    (ha : (a.get p).isSome = true) (hb : (b.get p).isSome = true) :
    ∃ r, Incompat.priorCause id1 id2 a b p = .ok r := by
  unfold Incompat.get at ha hb
  cases h1 : SmallMap.get a.terms p with
  | none => rw [h1] at ha; cases ha
  | some t1 =>
    cases h2 : SmallMap.get b.terms p with
    | none => rw [h2] at hb; cases hb
    | some t2 =>
      unfold Incompat.priorCause
      simp only [SmallMap.splitOne, h1, h2, unwrapOr, bind, Except.bind, pure, Except.pure]
      exact ⟨_, rfl⟩

namespace State

theorem backtrack_safe {st : State P S V M Pr} (hp : PInv st) (cur : Nat) (changed : Bool) (dl : Nat) :
    Safe (st.backtrack cur changed dl) (fun st' => BtStep st.ps st'.ps dl ∧
      ∀ (i : Nat) (inc : Incompat P S V M), st.store[i]? = some inc → st'.store[i]? = some inc) := by
  unfold State.backtrack
  refine Safe.bind (PartialSolution.backtrack_step hp.wf dl) ?_
  intro ps' _ hbt
  dsimp only
  split
  · refine Safe.intro ?_ ?_
    · intro st' hst'
      obtain ⟨e1, _, _, inc, _, hc⟩ := mergeIncompatibility_spec hst'
      refine ⟨by rw [e1]; exact hbt, ?_⟩
      intro i inc' hi
      rcases hc with ⟨e3, _⟩ | ⟨_, _, _, _, _, e3, _⟩
      · rw [e3]; exact hi
      · rw [e3]; simp only
        rw [List.getElem?_append_left (List.getElem?_eq_some_iff.1 hi).1]; exact hi
    · intro s hs
      exact (mergeIncompatibility_safe _ _).of_panic hs
  · exact Safe.ok ⟨hbt, fun i inc hi => hi⟩

end State
end
end Pubgrub

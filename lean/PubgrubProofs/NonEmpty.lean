/-
TARGET FILE: PubgrubProofs/NonEmpty.lean
Property C12, last open clause: "choose_version(p, set) is only called with a non-empty set".
It follows from the invariant that no term of the partial solution is `Positive` of a set without
members (evaluated executably on 205 171 states of mirrored runs: holds).  Emptiness must be canonical
for this: `LawfulVersionSet` does not say that a member-free valid set IS `empty` (a pathological
implementation could hand out a member-free set that is `≠ empty`, e.g. as a dependency set, and then
`choose_version` is legitimately asked about a member-free set), hence the extra class below.
Available and proved: PubgrubProofs/StoreInvariant*.lean, PSInvariant*.lean, SatisfierTheory*.lean
(in particular the post-backjump facts of `satisfierSearch_safe` / `afterConflict_backtrack`: after the
backtrack the learned clause's term for the satisfier package is not satisfied by that package's term),
TermLaws.lean.
Replace every `sorry`; add helpers; keep the target statements.
-/
import PubgrubProofs.SatisfierTheory
import PubgrubProofs.NonEmptyAux3

set_option linter.unusedSectionVars false
set_option linter.unusedVariables false

namespace Pubgrub
open VersionSet

/-- canonical emptiness: a valid set without members is `empty` (true of `Range` over a dense order
without end points and of the bit set) -/
class CanonicalEmpty (S V : Type) [VersionSet S V] [LawfulVersionSet S V] : Prop where
  eq_empty_of_no_member : ∀ s : S, LawfulVersionSet.Valid V s → (∀ v : V, VersionSet.contains s v = false) →
    s = (empty : S)

variable {P S V M Pr E : Type} [DecidableEq P] [VersionSet S V] [DecidableEq S] [DecidableEq V]
  [LE Pr] [DecidableLE Pr] [LawfulVersionSet S V]

/-- a term that some choice makes true: a positive term needs a member, a negative term is true when
the package is not selected -/
def Term.Inhabited : Term S → Prop
  | .pos s => ∃ v : V, VersionSet.contains s v = true
  | .neg _ => True

/-- NonEmpty: every current and every accumulated term of the partial solution is inhabited -/
def PartialSolution.NonEmpty (ps : PartialSolution P S V Pr) : Prop :=
  ∀ p pa, (p, pa) ∈ ps.assignments →
    Term.Inhabited (V := V) pa.inter.term ∧ ∀ dd ∈ pa.dated, Term.Inhabited (V := V) dd.accumulated


/-! ### the definitions above and the ones used by the helper files -/

theorem CanonicalEmpty.canonEmpty [CanonicalEmpty S V] : CanonEmpty S V :=
  CanonicalEmpty.eq_empty_of_no_member

theorem Term.inhabited_iff_inh (t : Term S) : Term.Inhabited (V := V) t ↔ Term.Inh (V := V) t := by
  cases t <;> exact Iff.rfl

theorem PartialSolution.nonEmpty_iff_ne (ps : PartialSolution P S V Pr) : ps.NonEmpty ↔ ps.NE := by
  constructor
  · intro h p pa hm
    obtain ⟨h1, h2⟩ := h p pa hm
    exact ⟨(Term.inhabited_iff_inh _).1 h1, fun dd hdd => (Term.inhabited_iff_inh _).1 (h2 dd hdd)⟩
  · intro h p pa hm
    obtain ⟨h1, h2⟩ := h p pa hm
    exact ⟨(Term.inhabited_iff_inh _).2 h1, fun dd hdd => (Term.inhabited_iff_inh _).2 (h2 dd hdd)⟩

/-- the terms only depend on the assignments -/
theorem PartialSolution.NE.congr {ps ps' : PartialSolution P S V Pr} (h : ps.NE)
    (e : ps'.assignments = ps.assignments) : ps'.NE := by
  intro p pa hm
  rw [e] at hm
  exact h p pa hm

/-! ### the run-level invariant -/

/-- every term of the partial solution of an unfinished state is inhabited -/
def RInvN (x : SolverState P S V M Pr × Request P S V M Pr E) : Prop :=
  x.1.phase ≠ .finished → x.1.st.ps.NE

theorem rinvN_finish (s : SolverState P S V M Pr) (r : Request P S V M Pr E) :
    RInvN (Solver.finish s r) := fun h => absurd rfl h

theorem rinvN_loopAgain (s : SolverState P S V M Pr) (st : State P S V M Pr) (h : st.ps.NE) :
    RInvN (E := E) (Solver.loopAgain s st) := fun _ => h

theorem rinvN_step (ce : CanonEmpty S V) (W : World P S V M) (hW : W.SetsValid) (root : P) (rv : V)
    (s : SolverState P S V M Pr) (req : Request P S V M Pr E) (a : Answer P S V M Pr E)
    (h0 : RInv W root rv (s, req)) (h1 : RInv' (s, req)) (hT : RInvT root rv (s, req))
    (h : RInvN (s, req)) (ha : AnswerOK W req a) : RInvN (Solver.step s a) := by
  have hs : SInv W root rv s.st := h0.sinv
  unfold Solver.step
  split
  · -- finished
    rename_i hph
    exact fun hn => absurd hph hn
  · exact rinvN_finish _ _
  · -- cancel, ok
    rename_i hph
    have hlive : s.phase ≠ .finished := by rw [hph]; intro e; cases e
    obtain ⟨hp, _⟩ := h1.live hlive
    have ht := hT.live hlive
    have hne : s.st.ps.NE := h hlive
    have hup := State.unitPropagation_ne ce W root rv s.fuel s.st s.next hs hp ht hne
    split
    · exact rinvN_finish _ _
    · split <;> exact rinvN_finish _ _
    · rename_i st hu
      have hne1 : st.ps.NE := hup.of_ok hu rfl
      split
      · exact rinvN_finish _ _
      · exact fun _ => hne1
      · exact fun _ => hne1
  · -- prioritizing
    rename_i cur rest acc pr hph
    have hlive : s.phase ≠ .finished := by rw [hph]; intro e; cases e
    have hne : s.st.ps.NE := h hlive
    simp only
    split
    · exact fun _ => hne
    · exact fun _ => hne
  · -- picking
    rename_i acc o hph
    have hlive : s.phase ≠ .finished := by rw [hph]; intro e; cases e
    have hne : s.st.ps.NE := h hlive
    simp only
    split
    · split
      · exact rinvN_finish _ _
      · split <;> exact rinvN_finish _ _
    · split
      · exact rinvN_finish _ _
      · split
        · exact rinvN_finish _ _
        · split
          · exact rinvN_finish _ _
          · exact fun _ => hne.congr rfl
  · -- choosing, error
    exact rinvN_finish _ _
  · -- choosing, none
    rename_i p t hph
    have hlive : s.phase ≠ .finished := by rw [hph]; intro e; cases e
    obtain ⟨hp, _⟩ := h1.live hlive
    have hne : s.st.ps.NE := h hlive
    split
    · exact rinvN_finish _ _
    · split
      · exact rinvN_finish _ _
      · rename_i st hadd
        exact rinvN_loopAgain s st (hne.congr (by rw [(State.addIncompatibility_pinv hadd hp).2]))
  · -- choosing, some v
    rename_i p t v hph
    have hlive : s.phase ≠ .finished := by rw [hph]; intro e; cases e
    have hne : s.st.ps.NE := h hlive
    split
    · exact rinvN_finish _ _
    · simp only
      split
      · exact fun _ => hne
      · split
        · exact rinvN_finish _ _
        · rename_i ps hps
          exact rinvN_loopAgain _ _ (PartialSolution.addDecision_ne hne hps)
  · -- fetching, error
    exact rinvN_finish _ _
  · -- fetching, unavailable
    rename_i p v m hph
    have hlive : s.phase ≠ .finished := by rw [hph]; intro e; cases e
    obtain ⟨hp, _⟩ := h1.live hlive
    have hne : s.st.ps.NE := h hlive
    split
    · exact rinvN_finish _ _
    · rename_i st hadd
      exact rinvN_loopAgain s st (hne.congr (by rw [(State.addIncompatibility_pinv hadd hp).2]))
  · -- fetching, available
    rename_i p v deps hph
    have hlive : s.phase ≠ .finished := by rw [hph]; intro e; cases e
    obtain ⟨hp, _⟩ := h1.live hlive
    have hne : s.st.ps.NE := h hlive
    split
    · exact rinvN_finish _ _
    · rename_i st start stop hadd
      obtain ⟨_, eps⟩ := State.addIncompatibilityFromDependencies_pinv hadd hp
      simp only
      split
      · exact rinvN_finish _ _
      · rename_i ps hps
        exact rinvN_loopAgain _ _ (PartialSolution.addVersion_ne (hne.congr (by rw [eps])) hps)
  · -- anything else
    exact rinvN_finish _ _

theorem reachable_rinvN [CanonicalEmpty S V] (W : World P S V M) (hW : W.SetsValid) (debug : Bool)
    (fuel : Nat) (root : P) (rv : V) (x : SolverState P S V M Pr × Request P S V M Pr E)
    (h : Reachable W debug fuel root rv x) : RInvN x := by
  induction h with
  | start => exact fun _ => PartialSolution.ne_empty
  | step hreach ha ih =>
    exact rinvN_step CanonicalEmpty.canonEmpty W hW root rv _ _ _
      (reachable_rinv W hW debug fuel root rv _ hreach)
      (reachable_rinv' W hW debug fuel root rv _ hreach)
      (reachable_rinvT W hW debug fuel root rv _ hreach) ih ha

/-- the phase of a state with a pending `choose_version` -/
theorem choosing_of_chooseVersion {s : SolverState P S V M Pr} {p : P} {set : S}
    (hc : Solver.Coherent (E := E) (s, .chooseVersion p set)) : s.phase = .choosing p (.pos set) := by
  unfold Solver.Coherent at hc
  split at hc
  · cases hc
  · cases hc
  · obtain ⟨_, hc⟩ := hc; cases hc
  · rename_i p' t hph
    obtain ⟨set', hreq, ht⟩ := hc
    simp only at hreq
    injection hreq with e1 e2
    subst e1; subst e2; subst ht
    exact hph
  · cases hc
  · simp [Request.isFinal] at hc

/-- every dependency set the provider hands out is non-empty or literally `empty` (implied by
`CanonicalEmpty` + `W.SetsValid`; stated separately in case you prefer it as the working hypothesis) -/
theorem reachable_nonEmpty [CanonicalEmpty S V] (W : World P S V M) (hW : W.SetsValid) (debug : Bool)
    (fuel : Nat) (root : P) (rv : V) (x : SolverState P S V M Pr × Request P S V M Pr E)
    (h : Reachable W debug fuel root rv x) (hph : x.2.isFinal = false) : x.1.st.ps.NonEmpty := by
  exact (PartialSolution.nonEmpty_iff_ne _).2
    (reachable_rinvN W hW debug fuel root rv x h
      (live_of_not_final (reachable_coherent W debug fuel root rv x h) hph))

/-- C12: `choose_version` is only called with a set that has a member -/
theorem choose_nonempty [CanonicalEmpty S V] (W : World P S V M) (hW : W.SetsValid) (debug : Bool)
    (fuel : Nat) (root : P) (rv : V) (s : SolverState P S V M Pr) (p : P) (set : S)
    (h : Reachable (E := E) W debug fuel root rv (s, .chooseVersion p set)) :
    ∃ v : V, VersionSet.contains set v = true := by
  have hph := choosing_of_chooseVersion (reachable_coherent W debug fuel root rv _ h)
  have hlive : s.phase ≠ .finished := by rw [hph]; intro e; cases e
  have hne : s.st.ps.NE := reachable_rinvN W hW debug fuel root rv _ h hlive
  obtain ⟨_, hterm, _⟩ := (reachable_rinv' W hW debug fuel root rv _ h).choosing p (.pos set) hph
  simp only [PartialSolution.termIntersectionForPackage, Option.map_eq_some_iff] at hterm
  obtain ⟨pa, hpa, ht⟩ := hterm
  have := (hne p pa (SmallMap.mem_of_get hpa)).1
  rw [ht] at this
  exact this

end Pubgrub

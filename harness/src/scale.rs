//! Scale runs: registries with tens of thousands of packages / decision levels, far beyond what the
//! model can mirror (the driver answers `not-modelled`); direct oracles only: `resolve` returns without
//! panicking (C05), the solution is valid (C01) and every selected package is reachable from the root
//! (C04).  They expose counters, levels or indices narrowed to 8 or 16 bits.
//!
//! `scale|chain|n`  : root -> 1 -> 2 -> … -> n, one version each: n + 1 decision levels, no conflict.
//! `scale|jump|n`   : root needs the chain 1..n (ending in A), B and Y = 1.  A 2 needs W, A 1 nothing;
//!                    B 1 needs Y = 2 (impossible), B 0 needs A = 1.  The chain and A are decided first, B
//!                    last: its conflict backjumps from level n + 3 to level 1 — a jump of n + 2 levels
//!                    over derivations introduced at every level in between — then A 1 is chosen and W
//!                    must disappear.
use crate::cases::{Case, Sink};
use crate::eval::eval_line;
use pubgrub::{resolve, Dependencies, DependencyProvider, OfflineDependencyProvider, PubGrubError, Range};
use std::cmp::Reverse;
use std::collections::{BTreeMap, BTreeSet};
use std::convert::Infallible;

const A: u32 = 1_000_000;
const B: u32 = 1_000_001;
const Y: u32 = 1_000_002;
const W: u32 = 1_000_003;

struct Ordered(OfflineDependencyProvider<u32, Range<u32>>);

impl DependencyProvider for Ordered {
    type P = u32;
    type V = u32;
    type VS = Range<u32>;
    type M = String;
    type Err = Infallible;
    type Priority = (u32, Reverse<u32>);
    fn prioritize(&self, package: &u32, range: &Range<u32>) -> Self::Priority {
        // the chain first (in order), then A, Y, W; B last while unrestricted, first once restricted
        let class = match *package {
            B if *range == Range::full() => 0,
            B => 9,
            W => 1,
            Y => 2,
            A => 3,
            _ => 5,
        };
        (class, Reverse(*package))
    }
    fn choose_version(&self, package: &u32, range: &Range<u32>) -> Result<Option<u32>, Infallible> {
        self.0.choose_version(package, range)
    }
    fn get_dependencies(&self, package: &u32, version: &u32) -> Result<Dependencies<u32, Range<u32>, String>, Infallible> {
        self.0.get_dependencies(package, version)
    }
}

fn registry(shape: &str, n: u32) -> (Ordered, BTreeMap<(u32, u32), Vec<(u32, Range<u32>)>>) {
    let mut reg: BTreeMap<(u32, u32), Vec<(u32, Range<u32>)>> = BTreeMap::new();
    let last = if shape == "jump" { A } else { 0 };
    let mut root = vec![(1u32, Range::full())];
    if shape == "jump" {
        root.push((B, Range::full()));
        root.push((Y, Range::singleton(1u32)));
    }
    reg.insert((0, 1), root);
    for i in 1..n {
        reg.insert((i, 1), vec![(i + 1, Range::full())]);
    }
    reg.insert((n, 1), if last == A { vec![(A, Range::full())] } else { vec![] });
    if shape == "jump" {
        reg.insert((A, 2), vec![(W, Range::singleton(1u32))]);
        reg.insert((A, 1), vec![]);
        reg.insert((B, 1), vec![(Y, Range::singleton(2u32))]);
        reg.insert((B, 0), vec![(A, Range::singleton(1u32))]);
        reg.insert((Y, 1), vec![]);
        reg.insert((Y, 2), vec![]);
        reg.insert((W, 1), vec![]);
    }
    let mut dp = OfflineDependencyProvider::<u32, Range<u32>>::new();
    for ((p, v), ds) in &reg {
        dp.add_dependencies(*p, *v, ds.iter().cloned());
    }
    (Ordered(dp), reg)
}

/// `scale|<shape>|<n>`
pub fn eval_scale(req: &str, shape: &str, n: u32) -> Case {
    let (dp, reg) = registry(shape, n);
    let res = crate::solver::watched(req.to_string(), || std::panic::catch_unwind(std::panic::AssertUnwindSafe(|| resolve(&dp, 0u32, 1u32))));
    let mut fail: Option<String> = None;
    let imp = match res {
        Err(e) => {
            let msg = e.downcast_ref::<String>().cloned().or_else(|| e.downcast_ref::<&str>().map(|s| s.to_string())).unwrap_or("?".into());
            fail = Some(format!("resolve panicked on a registry with {} packages: {}", n, msg.replace('\n', " ")));
            "panic".to_string()
        }
        Ok(Err(PubGrubError::NoSolution(_))) => {
            fail = Some("NoSolution although the registry has a solution".into());
            "nosolution".to_string()
        }
        Ok(Err(e)) => {
            fail = Some(format!("resolve returned an error: {:?}", e).chars().take(300).collect());
            "error".to_string()
        }
        Ok(Ok(sol)) => {
            // validity and reachability
            let sel: BTreeMap<u32, u32> = sol.into_iter().collect();
            let mut needed: BTreeSet<u32> = BTreeSet::new();
            needed.insert(0);
            if sel.get(&0) != Some(&1) {
                fail = Some("the root is not selected at the requested version".into());
            }
            for (p, v) in &sel {
                match reg.get(&(*p, *v)) {
                    None => fail = Some(format!("{} {} was never offered", p, v)),
                    Some(ds) => {
                        for (q, set) in ds {
                            needed.insert(*q);
                            if !sel.get(q).is_some_and(|qv| set.contains(qv)) {
                                fail = Some(format!("the dependency of {} {} on {} {} is not satisfied", p, v, q, set));
                            }
                        }
                    }
                }
            }
            let extra: Vec<u32> = sel.keys().filter(|p| !needed.contains(p)).cloned().collect();
            if !extra.is_empty() {
                fail = Some(format!("selected although nothing selected depends on them: {:?}", extra));
            }
            format!("ok {} packages", sel.len())
        }
    };
    Case { req: req.to_string(), imp, nontrivial: true, oracle_fail: fail, tags: vec![if shape == "jump" { "scale_long_backjump" } else { "scale_chain" }] }
}

pub fn gen_scale(sink: &mut Sink, thorough: bool) {
    let mut lens: Vec<u32> = vec![];
    // a backjump of n + 2 levels: every alignment around 2^8 and 2^16
    lens.extend(250..=260);
    if thorough {
        lens.extend(65_528..=65_542);
        lens.push(131_070);
    } else {
        lens.extend([65_533, 65_534, 65_535, 65_536]);
    }
    for n in &lens {
        sink.push(eval_line(&format!("scale|jump|{}", n)));
    }
    let chains: &[u32] = if thorough { &[300, 70_000, 140_000] } else { &[300, 70_000] };
    for n in chains {
        sink.push(eval_line(&format!("scale|chain|{}", n)));
    }
    sink.notes.push(format!("scale runs (direct oracles only, not mirrored): long backjumps over n + 2 decision levels for n in {:?}, conflict-free chains of {:?} packages", lens, chains));
}

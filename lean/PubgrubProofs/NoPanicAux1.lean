/-
Helpers for `NoPanic.lean`, part 1: the Hoare-style predicates `NoPanic` ("a value satisfying `Q`, or
out of fuel: never a panic") and `Fine` ("…, or a panic listed in `no_satisfier_panic`"), the extra
hypothesis `UnionCanon`, terms that are not `Term.any`, totality of `mergeDependents`.
-/
import PubgrubProofs.PSInvariant
import PubgrubProofs.SatisfierTheory
import PubgrubProofs.TreeSound

set_option linter.unusedSectionVars false
set_option linter.unusedVariables false

namespace Pubgrub
open VersionSet

/-- the result is a value satisfying `Q`, or the model ran out of fuel: never a panic -/
def NoPanic {α : Type} (r : R α) (Q : α → Prop) : Prop :=
  match r with
  | .ok a => Q a
  | .error (.panic _) => False
  | .error .outOfFuel => True

/-- the result is a value satisfying `Q`, or out of fuel, or one of the panics excluded by
`no_satisfier_panic` -/
def Fine {α : Type} (r : R α) (Q : α → Prop) : Prop :=
  match r with
  | .ok a => Q a
  | .error (.panic s) => Listed s
  | .error .outOfFuel => True

/-- closes `Listed "literal"` -/
macro "is_listed" : tactic => `(tactic| (simp [Listed, listedSites]))

namespace NoPanic
variable {α β : Type}

theorem ok {a : α} {Q : α → Prop} (h : Q a) : NoPanic (.ok a) Q := h
theorem pure' {a : α} {Q : α → Prop} (h : Q a) : NoPanic (pure a : R α) Q := h
theorem fuel {Q : α → Prop} : NoPanic (.error .outOfFuel : R α) Q := trivial

theorem of_ok {r : R α} {Q : α → Prop} (h : NoPanic r Q) {a : α} (hr : r = .ok a) : Q a := by
  subst hr; exact h

theorem not_panic {r : R α} {Q : α → Prop} (h : NoPanic r Q) {s : String} (hr : r = .error (.panic s)) :
    False := by
  subst hr; exact h

theorem of_eq {r : R α} {Q : α → Prop} {a : α} (hr : r = .ok a) (h : Q a) : NoPanic r Q := by
  subst hr; exact h

theorem mono {r : R α} {Q Q' : α → Prop} (h : NoPanic r Q) (hq : ∀ a, r = .ok a → Q a → Q' a) :
    NoPanic r Q' := by
  cases r with
  | ok a => exact hq a rfl h
  | error e => cases e <;> exact h

theorem bind {x : R α} {f : α → R β} {Q : α → Prop} {Q' : β → Prop} (hx : NoPanic x Q)
    (hf : ∀ a, x = .ok a → Q a → NoPanic (f a) Q') : NoPanic (x >>= f) Q' := by
  cases x with
  | ok a => exact hf a rfl hx
  | error e => cases e <;> exact hx

theorem bind_ok {x : R α} {f : α → R β} {Q' : β → Prop} {a : α} (hx : x = .ok a)
    (hf : NoPanic (f a) Q') : NoPanic (x >>= f) Q' := by
  subst hx; exact hf

/-- a function proved `Safe` (no listed panic) and `Fine` (only listed panics) does not panic -/
theorem of_safe_fine {r : R α} {Q1 Q2 : α → Prop} (h1 : Safe r Q1) (h2 : Fine r Q2) :
    NoPanic r (fun a => Q1 a ∧ Q2 a) := by
  cases r with
  | ok a => exact ⟨h1, h2⟩
  | error e =>
    cases e with
    | panic s => exact h1 h2
    | outOfFuel => trivial

/-- an error of a computation that does not panic is `outOfFuel` -/
theorem error_eq {r : R α} {Q : α → Prop} (h : NoPanic r Q) {e : Fault} (hr : r = .error e) :
    e = .outOfFuel := by
  subst hr
  cases e with
  | panic s => exact absurd h id
  | outOfFuel => rfl

theorem of_error {r : R α} {Q : α → Prop} (h : NoPanic r Q) {e : Fault} (hr : r = .error e)
    {Q' : β → Prop} : NoPanic (.error e : R β) Q' := by
  rw [h.error_eq hr]; trivial

theorem storeGet {store : List α} {id : Nat} {Q : α → Prop} {a : α} (h : store[id]? = some a) (hq : Q a) :
    NoPanic (storeGet store id) Q := by
  rw [storeGet_some h]; exact hq

end NoPanic

namespace Fine
variable {α β : Type}

theorem ok {a : α} {Q : α → Prop} (h : Q a) : Fine (.ok a) Q := h
theorem pure' {a : α} {Q : α → Prop} (h : Q a) : Fine (pure a : R α) Q := h
theorem panic {s : String} {Q : α → Prop} (h : Listed s) : Fine (.error (.panic s) : R α) Q := h
theorem throw' {s : String} {Q : α → Prop} (h : Listed s) : Fine (throw (.panic s) : R α) Q := h
theorem fuel {Q : α → Prop} : Fine (.error .outOfFuel : R α) Q := trivial

theorem of_ok {r : R α} {Q : α → Prop} (h : Fine r Q) {a : α} (hr : r = .ok a) : Q a := by
  subst hr; exact h

theorem mono {r : R α} {Q Q' : α → Prop} (h : Fine r Q) (hq : ∀ a, r = .ok a → Q a → Q' a) :
    Fine r Q' := by
  cases r with
  | ok a => exact hq a rfl h
  | error e => cases e <;> exact h

theorem bind {x : R α} {f : α → R β} {Q : α → Prop} {Q' : β → Prop} (hx : Fine x Q)
    (hf : ∀ a, x = .ok a → Q a → Fine (f a) Q') : Fine (x >>= f) Q' := by
  cases x with
  | ok a => exact hf a rfl hx
  | error e => cases e <;> exact hx

theorem unwrapOr {o : Option α} {site : String} {Q : α → Prop} (hn : o = none → Listed site)
    (hs : ∀ a, o = some a → Q a) : Fine (unwrapOr o site) Q := by
  cases o with
  | none => exact hn rfl
  | some a => exact hs a rfl

end Fine

section Canon
variable (S V : Type) [VersionSet S V] [LawfulVersionSet S V]

/-- The extra hypothesis of `no_panic_partial`: the union of two valid sets is not (syntactically) the
canonical `empty` unless the first one is.  `Range` has it (the union of a non-`[]` segment list is not
`[]`), and so does every implementation whose valid sets are equal when they have the same members.
It is needed for the Rust's `debug_assert`, `assert_ne!(term, Term::any())`, only: without it the
model panics there (see `PubgrubProofs/NoPanicCex.lean`). -/
def UnionCanon : Prop :=
  ∀ a b : S, LawfulVersionSet.Valid V a → LawfulVersionSet.Valid V b → a ≠ (empty : S) →
    union a b ≠ (empty : S)

end Canon

section Incompat
variable {P S V M : Type} [DecidableEq P] [VersionSet S V] [DecidableEq S] [LawfulVersionSet S V]

/-- no negative term is `Term.any` (positive terms never are) -/
def Incompat.NoAny (i : Incompat P S V M) : Prop :=
  ∀ p s, (p, Term.neg s) ∈ i.terms → s ≠ (empty : S)

theorem Incompat.NoAny.any_false {i : Incompat P S V M} (h : i.NoAny) :
    i.terms.any (fun kv => decide (kv.2 = (Term.any : Term S))) = false := by
  rw [List.any_eq_false]
  intro kv hkv
  obtain ⟨p, t⟩ := kv
  simp only [decide_eq_true_eq]
  intro e
  subst e
  exact h p _ hkv rfl

theorem Incompat.noAny_of_terms {i j : Incompat P S V M} (h : i.NoAny) (e : j.terms = i.terms) : j.NoAny := by
  intro p s hm; rw [e] at hm; exact h p s hm

theorem Incompat.noAny_notRoot (root : P) (rv : V) : (Incompat.notRoot root rv : Incompat P S V M).NoAny := by
  intro p s hm
  simp only [Incompat.notRoot, List.mem_singleton, Prod.mk.injEq, Term.neg.injEq] at hm
  obtain ⟨_, rfl⟩ := hm
  intro e
  have h1 := (LawfulVersionSet.contains_singleton (S := S) rv rv).2 rfl
  rw [e, LawfulVersionSet.contains_empty] at h1
  cases h1

theorem Incompat.noAny_fromDependency (p : P) (s : S) (dep : P × S) :
    (Incompat.fromDependency (M := M) (V := V) p s dep).NoAny := by
  intro q t hm
  simp only [Incompat.fromDependency] at hm
  split at hm
  · simp at hm
  · split at hm
    · simp at hm
    · rename_i hne
      simp only [List.mem_cons, Prod.mk.injEq, reduceCtorEq, and_false, Term.neg.injEq, List.not_mem_nil,
        or_false, false_or] at hm
      rw [hm.2]; exact hne

theorem Incompat.noAny_single_pos {i : Incompat P S V M} {p : P} {s : S} (h : i.terms = [(p, Term.pos s)]) :
    i.NoAny := by
  intro q t hm
  rw [h] at hm
  simp at hm

/-- the learned clause has no `Term.any` (this is where `UnionCanon` is needed) -/
theorem Incompat.noAny_priorCause (hU : UnionCanon S V) {ia ib r : Incompat P S V M}
    (na : SmallMap.NoDupKeys ia.terms) (nb : SmallMap.NoDupKeys ib.terms)
    (sa : ia.SetsValid) (sb : ib.SetsValid) (ha : ia.NoAny) (hb : ib.NoAny) {a b : Nat} {pivot : P}
    (hr : Incompat.priorCause a b ia ib pivot = .ok r) : r.NoAny := by
  obtain ⟨t1, t2, merged, h1, h2, hn, hget, _, hterms⟩ := Incompat.priorCause_spec ia ib na nb a b pivot r hr
  have hmerged : ∀ q s, (q, Term.neg s) ∈ merged → s ≠ (empty : S) := by
    intro q s hm
    have hg := SmallMap.get_of_mem hn hm
    rw [hget q] at hg
    split at hg
    · cases hg
    · cases h3 : SmallMap.get ia.terms q with
      | none =>
        cases h4 : SmallMap.get ib.terms q with
        | none => rw [h3, h4] at hg; simp [SmallMap.mergeOpt] at hg
        | some y =>
          rw [h3, h4] at hg; simp only [SmallMap.mergeOpt, Option.some.injEq] at hg
          subst hg; exact hb q s (SmallMap.mem_of_get h4)
      | some x =>
        cases h4 : SmallMap.get ib.terms q with
        | none =>
          rw [h3, h4] at hg; simp only [SmallMap.mergeOpt, Option.some.injEq] at hg
          subst hg; exact ha q s (SmallMap.mem_of_get h3)
        | some y =>
          rw [h3, h4] at hg; simp only [SmallMap.mergeOpt, Option.some.injEq] at hg
          have hx := SmallMap.mem_of_get h3
          have hy := SmallMap.mem_of_get h4
          cases x with
          | pos r1 => cases y <;> simp [Term.intersection] at hg
          | neg r1 =>
            cases y with
            | pos r2 => simp [Term.intersection] at hg
            | neg r2 =>
              simp only [Term.intersection, Term.neg.injEq] at hg
              subst hg
              exact hU r1 r2 (sa q _ hx) (sb q _ hy) (ha q r1 hx)
  intro q s hm
  rw [hterms] at hm
  split at hm
  · rename_i hne
    rcases SmallMap.mem_insert_sub hm with e | hm'
    · injection e with e1 e2
      intro e3
      apply hne
      rw [← e2, e3]; rfl
    · exact hmerged q s hm'
  · exact hmerged q s hm

/-- `merge_dependents` never panics on incompatibilities whose kind is true -/
theorem Incompat.mergeDependents_ok (W : World P S V M) (root : P) (rv : V) (store : List (Incompat P S V M))
    (a b : Nat) (ia ib : Incompat P S V M)
    (ga : ia.Good W root rv store a) (gb : ib.Good W root rv store b) :
    ∃ r, Incompat.mergeDependents ia ib = .ok r := by
  unfold Incompat.mergeDependents
  cases ha : ia.asDependency with
  | none => exact ⟨_, rfl⟩
  | some pa =>
    obtain ⟨p1, p2⟩ := pa
    cases hb : ib.asDependency with
    | none => exact ⟨_, rfl⟩
    | some o =>
      simp only
      by_cases ho : (p1, p2) ≠ o
      · rw [if_pos ho]; exact ⟨_, rfl⟩
      · rw [if_neg ho]
        have ho : (p1, p2) = o := not_not.mp ho
        subst ho
        obtain ⟨s1, t1, hka, hne⟩ := Incompat.asDependency_some ha
        obtain ⟨s2, t2, hkb, _⟩ := Incompat.asDependency_some hb
        have ka := ga.kind
        simp only [Incompat.KindTrue, hka] at ka
        have kb := gb.kind
        simp only [Incompat.KindTrue, hkb] at kb
        obtain ⟨da, vs1, vt1, hta⟩ := ka
        obtain ⟨db, vs2, vt2, htb⟩ := kb
        obtain ⟨a1, a2⟩ := Incompat.get_fromDependency_terms (M := M) p1 p2 s1 t1 hne
        obtain ⟨b1, b2⟩ := Incompat.get_fromDependency_terms (M := M) p1 p2 s2 t2 hne
        rw [← hta] at a1 a2
        rw [← htb] at b1 b2
        simp only [Incompat.get, a1, a2, b1, b2, unwrapOr, Incompat.unwrapPositive, bind, Except.bind, pure,
          Except.pure]
        by_cases e1 : t1 = (empty : S) <;> by_cases e2 : t2 = (empty : S)
        · simp only [if_pos e1, if_pos e2, ne_eq, not_true_eq_false, if_false]; exact ⟨_, rfl⟩
        · simp only [if_pos e1, if_neg e2, ne_eq, reduceCtorEq, not_false_eq_true, if_true]; exact ⟨_, rfl⟩
        · simp only [if_neg e1, if_pos e2, ne_eq, reduceCtorEq, not_false_eq_true, if_true]; exact ⟨_, rfl⟩
        · simp only [if_neg e1, if_neg e2]
          split
          · exact ⟨_, rfl⟩
          · simp only [Incompat.unwrapNegative]; exact ⟨_, rfl⟩

end Incompat
end Pubgrub

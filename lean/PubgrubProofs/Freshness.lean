/-
TARGET FILE: PubgrubProofs/Freshness.lean
Properties C12 ("choose_version(p, set) is only called with … the set last passed to prioritize for p")
and C14 ("every such package's most recent priority was reported for its current set of allowed
versions", hence the package asked about has a maximal most-recently-reported priority).
These are statements about the callback TRACE (`Solver.trace`, PubgrubProofs/SolverDefs.lean).
Available and proved: PubgrubProofs/PSInvariant*.lean (I-PS, I-Q, `pick_sees_all`, `choose_is_maximal`,
the run-level invariant `RInv'` and its step lemma), PubgrubProofs/Protocol*.lean (trace/after algebra:
`after_append`, the index lemma `(trace …)[k]? = some r ↔ …`, `Coherent`).
Helpers: PubgrubProofs/FreshnessAux1 (state-level invariant `QFresh`, preserved by unit propagation),
FreshnessAux2 (effective queue `EQ`, run-level invariant `FInv`), FreshnessAux3 (`finv_step`).
-/
import PubgrubProofs.PSInvariant
import PubgrubProofs.Protocol
import PubgrubProofs.FreshnessAux3

set_option linter.unusedSectionVars false
set_option linter.unusedVariables false

namespace Pubgrub
open VersionSet

variable {P S V M Pr E : Type} [DecidableEq P] [VersionSet S V] [DecidableEq S] [DecidableEq V]
  [LE Pr] [DecidableLE Pr] [LawfulVersionSet S V]

/-- the most recent `prioritize(q, ·)` call among the first `k` requests of a run and its answer:
the set it carried and the priority reported -/
def lastPrio (tr : List (Request P S V M Pr E)) (as : List (Answer P S V M Pr E)) (k : Nat) (q : P) :
    Option (S × Pr) :=
  ((List.range k).reverse.findSome? fun j =>
    match (tr[j]? : Option (Request P S V M Pr E)), (as[j]? : Option (Answer P S V M Pr E)) with
    | some (Request.prioritize q' s), some (Answer.priority pr) => if q' = q then some (s, pr) else none
    | _, _ => none)

/-- all answers of a run are consistent with the world -/
def AnswersOK (W : World P S V M) (debug : Bool) (fuel : Nat) (root : P) (rv : V)
    (as : List (Answer P S V M Pr E)) : Prop :=
  ∀ (k : Nat) (a : Answer P S V M Pr E), as[k]? = some a →
    ∃ r, (Solver.trace debug fuel root rv as)[k]? = some r ∧ AnswerOK W r a


/-! ### helpers -/

theorem lastPrio_zero (tr : List (Request P S V M Pr E)) (as : List (Answer P S V M Pr E)) :
    lastPrio tr as 0 = fun _ => none := by
  funext q
  simp [lastPrio]

/-- `lastPrio` one position further -/
theorem lastPrio_succ (tr : List (Request P S V M Pr E)) (as : List (Answer P S V M Pr E)) (k : Nat)
    (r : Request P S V M Pr E) (a : Answer P S V M Pr E) (htr : tr[k]? = some r) (has : as[k]? = some a) :
    lastPrio tr as (k + 1) = lpNext (lastPrio tr as k) r a := by
  funext q
  unfold lastPrio
  rw [List.range_succ, List.reverse_append, List.reverse_singleton, List.singleton_append,
    List.findSome?_cons, htr, has]
  cases r <;> cases a <;> simp only [lpNext]
  rename_i q' s pr
  by_cases hq : q' = q
  · simp [hq]
  · simp [hq]

/-- a `choose_version` request is only issued as the reply to a pop of the queue -/
theorem step_chooseVersion (s : SolverState P S V M Pr) (a : Answer P S V M Pr E) (p : P) (set : S)
    (h : (Solver.step s a).2 = .chooseVersion p set) :
    ∃ acc, s.phase = .picking acc ∧ a = .picked (some p) := by
  revert h
  unfold Solver.step
  repeat' first | split | dsimp only
  all_goals first | (simp [Solver.finish, Solver.loopAgain]; done) | skip
  intro h; cases h; exact ⟨_, ‹_›, rfl⟩

/-- the state before answer `k` of a run whose answers are consistent with the world is reachable -/
theorem reachable_take (W : World P S V M) (debug : Bool) (fuel : Nat) (root : P) (rv : V)
    (as : List (Answer P S V M Pr E)) (hok : AnswersOK W debug fuel root rv as) (k : Nat)
    (hk : k ≤ as.length) :
    Reachable W debug fuel root rv (Solver.after (Solver.start debug fuel root rv) (as.take k)) := by
  induction k with
  | zero => simp only [List.take_zero, Solver.after_nil]; exact Reachable.start
  | succ k ih =>
    have hk' : k < as.length := hk
    rw [Solver.take_succ_snoc as k hk', Solver.after_snoc]
    obtain ⟨r, hr, har⟩ := hok k as[k] (List.getElem?_eq_getElem hk')
    rw [Solver.trace_eq, Solver.traceFrom_getElem?_eq_some] at hr
    obtain ⟨_, hr⟩ := hr
    subst hr
    exact Reachable.step (s := (Solver.after (Solver.start debug fuel root rv) (as.take k)).1)
      (req := (Solver.after (Solver.start debug fuel root rv) (as.take k)).2) (ih (Nat.le_of_lt hk')) har

/-- the freshness invariant holds along the run, relative to `lastPrio` -/
theorem fresh_take (W : World P S V M) (hW : W.SetsValid) (debug : Bool) (fuel : Nat) (root : P) (rv : V)
    (as : List (Answer P S V M Pr E)) (hok : AnswersOK W debug fuel root rv as) (k : Nat)
    (hk : k ≤ as.length) :
    FInv (lastPrio (Solver.trace debug fuel root rv as) as k)
      (Solver.after (Solver.start debug fuel root rv) (as.take k)) := by
  induction k with
  | zero =>
    rw [lastPrio_zero]
    simp only [List.take_zero, Solver.after_nil]
    exact finv_start debug fuel root rv
  | succ k ih =>
    have hk' : k < as.length := hk
    have hreach := reachable_take W debug fuel root rv as hok k (Nat.le_of_lt hk')
    obtain ⟨r, hr, har⟩ := hok k as[k] (List.getElem?_eq_getElem hk')
    have hr' := hr
    rw [Solver.trace_eq, Solver.traceFrom_getElem?_eq_some] at hr'
    obtain ⟨_, hr'⟩ := hr'
    subst hr'
    rw [lastPrio_succ _ _ k _ _ hr (List.getElem?_eq_getElem hk'), Solver.take_succ_snoc as k hk',
      Solver.after_snoc]
    exact finv_step W hW root rv _ _ _ _
      (reachable_rinv W hW debug fuel root rv _ hreach)
      (reachable_rinv' W hW debug fuel root rv _ hreach)
      (reachable_coherent W debug fuel root rv _ hreach)
      (ih (Nat.le_of_lt hk')) har

/-! ### the targets -/

/-- C12: the set passed to `choose_version` is the set last passed to `prioritize` for that package -/
theorem choose_set_is_prioritized_set (W : World P S V M) (hW : W.SetsValid) (debug : Bool) (fuel : Nat)
    (root : P) (rv : V) (as : List (Answer P S V M Pr E)) (hok : AnswersOK W debug fuel root rv as)
    (k : Nat) (p : P) (s : S)
    (hk : (Solver.trace debug fuel root rv as)[k]? = some (.chooseVersion p s)) :
    ∃ pr, lastPrio (Solver.trace debug fuel root rv as) as k p = some (s, pr) := by
  rw [Solver.trace_eq, Solver.traceFrom_getElem?_eq_some] at hk
  obtain ⟨hle, hreq⟩ := hk
  exact (fresh_take W hW debug fuel root rv as hok k hle).chooseReq p s hreq

/-- C14 in full: when `choose_version(p, ·)` is requested at position `k` (so position `k-1` is the pop
of the queue), every package `q` that has a positive requirement `set_q` and no selected version at that
moment had its most recent priority reported for exactly `set_q`, and that priority is at most the most
recently reported priority of `p` -/
theorem choose_has_maximal_last_priority (W : World P S V M) (hW : W.SetsValid) (debug : Bool)
    (fuel : Nat) (root : P) (rv : V) (as : List (Answer P S V M Pr E))
    (hok : AnswersOK W debug fuel root rv as) (k : Nat) (p : P) (s : S)
    (hk : (Solver.trace debug fuel root rv as)[k + 1]? = some (.chooseVersion p s))
    (q : P) (pa : PackageAssignments S V) (setq : S)
    (hq : (Solver.after (Solver.start debug fuel root rv) (as.take k)).1.st.ps.getPA q = some pa)
    (hpos : pa.inter = .derivations (.pos setq)) :
    ∃ prq prp, lastPrio (Solver.trace debug fuel root rv as) as k q = some (setq, prq) ∧
      (∃ sp, lastPrio (Solver.trace debug fuel root rv as) as k p = some (sp, prp)) ∧ prq ≤ prp := by
  rw [Solver.trace_eq, Solver.traceFrom_getElem?_eq_some] at hk
  obtain ⟨hle, hreq⟩ := hk
  have hk' : k < as.length := hle
  have hreach := reachable_take W debug fuel root rv as hok k (Nat.le_of_lt hk')
  have hfr := fresh_take W hW debug fuel root rv as hok k (Nat.le_of_lt hk')
  have hi := reachable_rinv' W hW debug fuel root rv _ hreach
  rw [Solver.take_succ_snoc as k hk', Solver.after_snoc] at hreq
  generalize hx : Solver.after (Solver.start debug fuel root rv) (as.take k) = x at *
  obtain ⟨sx, rx⟩ := x
  simp only at hreq hq
  obtain ⟨acc, hph, hak⟩ := step_chooseVersion sx as[k] p s hreq
  obtain ⟨hpinv, _⟩ := hi.live (by simp only; rw [hph]; intro e; cases e)
  obtain ⟨⟨L, hL, hLk⟩, hrx⟩ := hi.picking acc hph
  simp only at hrx hL
  subst hrx
  rw [hak] at hreq
  obtain ⟨prp, hprp, hmax⟩ := choose_is_maximal W hW debug fuel root rv sx _ p hreach s
    (Solver.step sx (.picked (some p))).1 (by rw [← hreq])
  obtain ⟨prq, hprq, hle'⟩ := hmax q pa setq hq hpos
  have he := hfr.picking acc hph
  obtain ⟨sp, hlp, _⟩ := he.settled hL hLk hprp
  obtain ⟨sq, hlq, hall⟩ := he.settled hL hLk hprq
  obtain ⟨i, _, hiq⟩ := PartialSolution.getElem_of_getPA hq
  have := hall i pa setq hiq hpos
  subst this
  exact ⟨prq, prp, hlq, ⟨sp, hlp⟩, hle'⟩

end Pubgrub

#!/usr/bin/env python3
"""
tools/seedtest.py <worktree-dir> <seed-id> <property> [other properties to run...]

1. confirms the seeded change in a scratch worktree: patch applies on HEAD, the existing test suite
   passes with it, the demonstration fails with it and passes without it;
2. stores it as /verif/seeded/<seed-id>/ (patch.diff, seed_demo.rs, meta.json);
3. applies it to /repo, runs ./check <property> quick (and the other listed properties), undoes it.
"""
import json, os, subprocess, sys, shutil
V = os.path.dirname(os.path.dirname(os.path.abspath(__file__)))
def sh(cmd, cwd=None, timeout=3600):
    e = dict(os.environ); e["CARGO_NET_OFFLINE"] = "true"
    r = subprocess.run(cmd, cwd=cwd, shell=isinstance(cmd, str), env=e, capture_output=True, text=True, timeout=timeout)
    return r.returncode, r.stdout + r.stderr
wt, sid, prop = sys.argv[1], sys.argv[2], sys.argv[3]
others = sys.argv[4:]
seed = os.path.join(wt, "_seed")
out = os.path.join(V, "seeded", sid)
os.makedirs(out, exist_ok=True)
for f in ("patch.diff", "seed_demo.rs", "meta.json"):
    shutil.copy(os.path.join(seed, f), os.path.join(out, f))
meta = json.load(open(os.path.join(out, "meta.json")))
log = []
# --- confirm in the scratch worktree
sh("git checkout -- . && rm -f tests/seed_demo.rs", cwd=wt)
rc, o = sh(f"git apply --check {out}/patch.diff", cwd=wt); log.append(f"git apply --check: rc={rc}")
assert rc == 0, o
shutil.copy(os.path.join(out, "seed_demo.rs"), os.path.join(wt, "tests", "seed_demo.rs"))
flag = 'RUSTFLAGS="--cfg pubgrub_verif" ' if "cfg(pubgrub_verif)" in open(os.path.join(out, "seed_demo.rs")).read() else ""
feat = "--features serde " if 'feature = "serde"' in open(os.path.join(out, "seed_demo.rs")).read() else ""
rc0, o0 = sh(flag + "cargo test --offline " + feat + "--test seed_demo 2>&1 | tail -5", cwd=wt); 
demo_without = "test result: ok" in o0
log.append(f"demo WITHOUT the change: {'passes' if demo_without else 'FAILS'}")
sh(f"git apply {out}/patch.diff", cwd=wt)
rc1, o1 = sh(flag + "cargo test --offline " + feat + "--test seed_demo 2>&1 | tail -8", cwd=wt)
demo_with = "test result: ok" in o1 and " 0 passed" not in o1
demo_without = demo_without and " 0 passed" not in o0
log.append(f"demo WITH the change: {'passes' if demo_with else 'fails'}")
os.rename(os.path.join(wt, "tests", "seed_demo.rs"), os.path.join(wt, "_seed", "seed_demo.rs.moved"))
rc2, o2 = sh("cargo test --workspace --no-fail-fast --offline 2>&1 | grep -E '^test result|FAILED|failed' ", cwd=wt)
suite_ok = "FAILED" not in o2 and "failed;" in o2 and all(" 0 failed" in l for l in o2.splitlines() if l.startswith("test result"))
log.append(f"existing suite WITH the change: {'passes' if suite_ok else 'FAILS'} :: " + " | ".join(l.strip() for l in o2.splitlines()))
confirmed = demo_without and (not demo_with) and suite_ok
# --- run the checks against /repo with the patch
results = {}
if confirmed:
    rc, o = sh(f"git -C /repo apply {out}/patch.diff")
    assert rc == 0, o
    try:
        for p in [prop] + others:
            rc, o = sh(f"./check {p} quick", cwd=V, timeout=7200)
            lines = [l for l in o.splitlines() if l.startswith(("VIOLATION", "OK", "KNOWN-FINDING"))]
            results[p] = {"exit": rc, "lines": lines}
            if rc != 0:
                for l in lines:
                    if "replay=" in l:
                        rp = l.split("replay=")[1].split()[0]
                        try:
                            results[p]["replay_head"] = open(rp).read()[:1500]
                        except Exception: pass
    finally:
        sh("git -C /repo checkout -- .")
        rc, o = sh("git -C /repo status --short")
        assert o.strip() == "", o
meta["confirmation"] = {"confirmed": confirmed, "log": log}
meta["checks_on_patched_repo"] = results
meta["caught_by"] = [p for p, r in results.items() if r["exit"] != 0]
json.dump(meta, open(os.path.join(out, "meta.json"), "w"), indent=1)
print(json.dumps({"seed": sid, "confirmed": confirmed, "log": log, "caught_by": meta["caught_by"],
                  "lines": {p: r["lines"] for p, r in results.items()}}, indent=1))

/-
Candidate invariants of the partial solution and of the priority queue (properties C14, C12, C05, C01):
definitions only.  Both were evaluated (as executable checks, PubgrubModel/Diag.lean) on every step of
12 000 mirrored runs of the real solver before being stated here.
-/
import PubgrubProofs.SolverDefs

namespace Pubgrub
open VersionSet

section
variable {P S V Pr : Type} [DecidableEq P] [VersionSet S V] [DecidableEq S]

/-- well-formedness of one entry of `package_assignments` at index `i` -/
structure PackageAssignments.WFAt (dl next i : Nat) (pa : PackageAssignments S V) : Prop where
  /-- the first `dl` entries are the decisions, in decision-level order -/
  decided : i < dl → ∃ g v, pa.inter = .decision g v (Term.exact v) ∧ pa.highest = i + 1 ∧ g < next ∧
      (∀ dd ∈ pa.dated, dd.globalIndex < g) ∧
      (∀ dd, pa.dated.getLast? = some dd → dd.accumulated.contains v = true)
  /-- the others carry derivations only; the current term is the last accumulated intersection -/
  undecided : dl ≤ i → ∃ t l f, pa.inter = .derivations t ∧ pa.highest ≤ dl ∧
      pa.dated.getLast? = some l ∧ pa.dated.head? = some f ∧ l.accumulated = t ∧
      l.decisionLevel = pa.highest ∧ f.decisionLevel = pa.smallest
  levels : (pa.dated.map (·.decisionLevel)).Pairwise (· ≤ ·)
  indices : (pa.dated.map (·.globalIndex)).Pairwise (· < ·)
  indices_lt : ∀ dd ∈ pa.dated, dd.globalIndex < next
  range : pa.smallest ≤ pa.highest

/-- I-PS: well-formedness of the partial solution -/
structure PartialSolution.WF (ps : PartialSolution P S V Pr) : Prop where
  changed_le : ps.changed ≤ ps.assignments.length
  level_le : ps.currentDecisionLevel ≤ ps.assignments.length
  keys : (ps.assignments.map Prod.fst).Nodup
  entries : ∀ (i : Nat) (p : P) (pa : PackageAssignments S V), ps.assignments[i]? = some (p, pa) →
      pa.WFAt ps.currentDecisionLevel ps.nextGlobalIndex i
  queue_keys : (ps.queue.map Prod.fst).Nodup
  /-- only undecided packages with a positive term are queued -/
  queue_sub : ∀ p pr, (p, pr) ∈ ps.queue → ∃ pa s, ps.getPA p = some pa ∧ pa.inter = .derivations (.pos s)

/-- I-Q: every undecided package with a positive term, other than the one in flight (popped from the
queue and not yet re-examined), is in the queue or will be re-prioritised at the next pick -/
def PartialSolution.QInv (ps : PartialSolution P S V Pr) (inflight : Option P) : Prop :=
  ∀ (i : Nat) (p : P) (pa : PackageAssignments S V) (s : S), ps.assignments[i]? = some (p, pa) →
    pa.inter = .derivations (.pos s) → some p ≠ inflight →
    (SmallMap.get ps.queue p).isSome = true ∨
    (ps.changed ≤ i ∧ (ps.changed = ps.currentDecisionLevel - 1 ∨ pa.highest = ps.currentDecisionLevel))

end

/-- the package popped from the queue whose fate is not settled yet -/
def SolverState.inflight {P S V M Pr : Type} (s : SolverState P S V M Pr) : Option P :=
  match s.phase with
  | .cancel | .choosing _ _ | .fetching _ _ => some s.next
  | _ => none

end Pubgrub

/-
Property C16 — Range equality, ordering and hashing cohere.

"The ordering on ranges is a total order consistent with equality: a.cmp(b) is Equal exactly when
a == b, it is antisymmetric and transitive, and partial_cmp agrees with cmp; equal ranges hash equally."

`Range.cmp` models `impl PartialOrd/Ord for Range` (`partial_cmp` is `Some(cmp)`: for a totally
ordered `V` no `?` in `cmp_bounds_*` can return `None`; `cmp` unwraps it).  `==` is equality of the
segment slices (`SmallVec`'s `PartialEq` compares `as_slice()`), i.e. equality of the model's lists.
Totality is the type of `cmp` (an `Ordering`); `partial_cmp` agrees with `cmp` by construction (`cmp` is
`partial_cmp(..).expect(..)`; the harness checks `partial_cmp == Some(cmp)` on every pair).
Hashing: `SmallVec`'s `Hash` hashes `len` and then the slice: the storage is modelled variant by variant
below and shown to compare and hash by the slice alone, for every history of operations.
Theorems hold for all segment lists (no canonical-form hypothesis), over any linear order.
-/
import PubgrubProofs.RangeOrd
import PubgrubProofs.ContainersLaws

set_option linter.unusedSectionVars false
namespace Pubgrub.C16
open Pubgrub

variable {V : Type} [LinearOrder V]

/-- `cmp` is `Equal` exactly when `==` -/
theorem C16_cmp_eq_iff (a b : Range V) : Range.cmp a b = .eq ↔ a = b := Range.cmp_eq_iff a b

/-- antisymmetry: swapping the operands swaps the result -/
theorem C16_antisymmetric (a b : Range V) : Range.cmp b a = (Range.cmp a b).swap := Range.cmp_swap a b

/-- transitivity -/
theorem C16_transitive (a b c : Range V) :
    (Range.cmp a b = .lt → Range.cmp b c = .lt → Range.cmp a c = .lt) ∧
    (Range.cmp a b ≠ .gt → Range.cmp b c ≠ .gt → Range.cmp a c ≠ .gt) :=
  ⟨Range.cmp_lt_trans a b c, Range.cmp_le_trans a b c⟩

/-! Non-vacuity -/
example : Range.cmp (Range.between (1 : Nat) 3) (Range.between 1 3) = .eq :=
  (C16_cmp_eq_iff _ _).2 rfl

/-! ### the storage of a `Range`: `SmallVec` (exact model, PubgrubModel/Containers.lean)

"Equal ranges hash equally": `Range` derives `Hash`/`Eq` from its `SmallVec` of segments, whose `==`
compares slices and whose `Hash` feeds the length and the slice.  For every history of `push` / `pop` /
`clear` the slice is what a plain list doing the same holds, so two histories ending in the same slice
give `==` vectors that feed the hasher identically, whatever variants (`Empty`/`One`/`Two`/`Flexible`)
they ended in. -/
section Storage
variable {T : Type}

theorem C16_smallvec_history (s : SmallVecX T) (ops : List (SmallVecX.Op T)) :
    (SmallVecX.run s ops).toList = SmallVecX.runList s.toList ops :=
  SmallVecX.toList_run s ops

theorem C16_smallvec_eq_iff [DecidableEq T] (a b : SmallVecX T) : a.beq b = true ↔ a.toList = b.toList :=
  SmallVecX.beq_iff a b

theorem C16_equal_vectors_hash_equally [DecidableEq T] (a b : SmallVecX T) (h : a.beq b = true) :
    a.hashFeed = b.hashFeed :=
  SmallVecX.hashFeed_eq_of_beq a b h

theorem C16_hash_independent_of_history (ops1 ops2 : List (SmallVecX.Op T))
    (h : SmallVecX.runList [] ops1 = SmallVecX.runList [] ops2) :
    (SmallVecX.run (.empty : SmallVecX T) ops1).hashFeed = (SmallVecX.run .empty ops2).hashFeed :=
  SmallVecX.hashFeed_run_eq ops1 ops2 h

end Storage

end Pubgrub.C16

/-
Model of the data types of `/repo/src/report.rs`: `DerivationTree`, `External`, `Derived`.
`Arc` sharing is represented by `sharedId` only (equal ids ⇒ equal subtrees is an invariant of the
trees the solver builds, see `PubgrubProofs`).  `Derived.terms` is a hash map: here a list, printed sorted.
-/
import PubgrubModel.Incompat

namespace Pubgrub

/-- `enum External` -/
inductive External (P S V M : Type) where
  | notRoot (p : P) (v : V)
  | noVersions (p : P) (s : S)
  | fromDependencyOf (p : P) (s : S) (q : P) (t : S)
  | custom (p : P) (s : S) (m : M)
  deriving DecidableEq, Repr

/-- `enum DerivationTree` with `struct Derived` inlined -/
inductive DerivationTree (P S V M : Type) where
  | external (e : External P S V M)
  | derived (terms : List (P × Term S)) (sharedId : Option Nat)
      (cause1 cause2 : DerivationTree P S V M)
  deriving Repr

end Pubgrub

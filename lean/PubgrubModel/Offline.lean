/-
Model of `OfflineDependencyProvider` in `/repo/src/solver.rs`:
`dependencies: Map<P, BTreeMap<V, DependencyConstraints<P, VS>>>` as an association list keyed by
`(package, version)`; `DependencyConstraints` (a hash map) as an association list with distinct keys.
-/
import PubgrubModel.SmallMap
import PubgrubModel.VersionSet

namespace Pubgrub

/-- the store -/
abbrev Offline (P S V : Type) := List ((P × V) × List (P × S))

namespace Offline
variable {P S V : Type} [DecidableEq P] [DecidableEq V] [VersionSet S V]

def empty : Offline P S V := []

/-- `dependencies.into_iter().collect()` into a map: a later entry for the same package replaces an
earlier one -/
def collectDeps (deps : List (P × S)) : List (P × S) :=
  deps.foldl (fun m d => SmallMap.insert m d.1 d.2) []

/-- `add_dependencies`: the entry for `(package, version)` is replaced -/
def addDependencies (o : Offline P S V) (p : P) (v : V) (deps : List (P × S)) : Offline P S V :=
  SmallMap.insert o (p, v) (collectDeps deps)

/-- `get_dependencies`: `none` stands for `Dependencies::Unavailable("its dependencies could not be determined")` -/
def getDependencies (o : Offline P S V) (p : P) (v : V) : Option (List (P × S)) :=
  SmallMap.get o (p, v)

/-- the versions added for a package (unordered) -/
def versionsOf (o : Offline P S V) (p : P) : List V :=
  (o.filter fun e => e.1.1 = p).map fun e => e.1.2

/-- `packages()` (unordered; the Rust iterates a hash map) -/
def packages (o : Offline P S V) : List P := (o.map fun e => e.1.1).eraseDups

/-- `choose_version`: the greatest added version inside the set -/
def chooseVersion [LT V] [DecidableLT V] (o : Offline P S V) (p : P) (s : S) : Option V :=
  ((versionsOf o p).filter fun v => VersionSet.contains s v).foldl
    (fun best v => match best with
      | none => some v
      | some b => if b < v then some v else some b) none

/-- `prioritize`: `Reverse(count)`; the count is what is modelled, the order is reversed -/
def matchingCount (o : Offline P S V) (p : P) (s : S) : Nat :=
  ((versionsOf o p).filter fun v => VersionSet.contains s v).length

end Offline
end Pubgrub

/-
Property C02 — NoSolution is reported only when no solution exists.

"Whenever resolve returns Err(NoSolution), there is no set of package versions - drawn from the
versions the provider can offer and whose dependencies are available - that contains the root at the
requested version and satisfies all dependencies of its members."

Theorem about the coroutine model of `resolve`, for every world, every answer sequence consistent
with it (any strategy, any tie-breaking, any fuel), every lawful version set.

Open: the "equivalently" clause (whether a solution is found never depends on the strategy) needs,
besides this theorem, C01's soundness of `Ok` *and* termination (C05): two runs could otherwise differ
by one of them not finishing.  With `C01_solution_valid` (see C01) the part that is proved is: no two
runs over the same world end one in `Ok` with a valid solution and the other in `NoSolution`
(`C02_not_both`).
-/
import PubgrubProofs.StoreInvariant
import PubgrubProofs.RangeAnyOrder

namespace Pubgrub.C02
open Pubgrub

variable {P S V M Pr E : Type} [DecidableEq P] [VersionSet S V] [DecidableEq S] [DecidableEq V]
  [LE Pr] [DecidableLE Pr] [LawfulVersionSet S V]

/-- C02 -/
theorem C02_noSolution_sound (W : World P S V M) (hW : W.SetsValid) (debug : Bool) (fuel : Nat)
    (root : P) (rv : V) (s : SolverState P S V M Pr) (tree : DerivationTree P S V M)
    (h : Reachable (E := E) W debug fuel root rv (s, .noSolution tree)) :
    ¬ ∃ σ : P → Option V, IsSolution W root rv σ :=
  noSolution_sound W hW debug fuel root rv s tree h

/-- strategy independence, the part that does not need termination: whatever the strategies, fuels and
tie-breakings of two runs over the same world, if one reports `NoSolution` the other cannot return a
selection that is a solution -/
theorem C02_not_both (W : World P S V M) (hW : W.SetsValid) (debug debug' : Bool) (fuel fuel' : Nat)
    (root : P) (rv : V) (s s' : SolverState P S V M Pr) (tree : DerivationTree P S V M)
    (sel : List (P × V))
    (h : Reachable (E := E) W debug fuel root rv (s, .noSolution tree))
    (_h' : Reachable (E := E) W debug' fuel' root rv (s', .solution sel)) :
    ¬ IsSolution W root rv (fun p => SmallMap.get sel p) := by
  intro hsol
  exact noSolution_sound W hW debug fuel root rv s tree h ⟨_, hsol⟩

/-! ### `Range V` over ANY linear order (the discrete `u32`, `SemanticVersion` included), where `Range` is
not a `LawfulVersionSet`: pulled back along the embedding into `Range (V ×ₗ ℚ)` (RangeHom, HomSolver,
RangeAnyOrder) -/
section AnyOrder
variable {P V M Pr E : Type} [DecidableEq P] [LinearOrder V] [LE Pr] [DecidableLE Pr]

theorem C02_range_noSolution_sound (W : World P (Range V) V M) (hW : W.RangesWF) (debug : Bool) (fuel : Nat)
    (root : P) (rv : V) (s : SolverState P (Range V) V M Pr) (tree : DerivationTree P (Range V) V M)
    (h : Reachable (E := E) W debug fuel root rv (s, .noSolution tree)) :
    ¬ ∃ σ : P → Option V, IsSolution W root rv σ :=
  range_noSolution_sound W hW debug fuel root rv s tree h

end AnyOrder

end Pubgrub.C02

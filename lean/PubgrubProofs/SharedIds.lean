/-
TARGET FILE: PubgrubProofs/SharedIds.lean
Property C03, last open clause: "a derived node carries a shared id EXACTLY when it is reachable along
more than one path".  Proved so far (TreeSound.lean): carries an id ⇒ occurs at least twice; equal ids ⇒
equal subtrees.  To prove: the exact characterisation of the set `shared` computed by the traversal
`State.collectIds` (model of the explicit-stack loop at the top of `build_derivation_tree`,
/repo/src/internal/core.rs): a derived id is in `shared` iff at least two distinct cause EDGES of the
DAG reachable from the top lead to it (each reachable derived node is expanded exactly once and pushes
both its causes; an id is put into `shared` when it is popped while already in `all`).
Available: TreeSoundAux.lean (`IsTreeOf`, `buildDerivationTree_spec`), TreeSoundAux2.lean (`CausesBelow`,
`collectIds_phi` — a potential-function invariant of the traversal that is a good template),
`TreeAux.causesBelow_of_storeInv`.

Proof: ghost lists of edges.  `sE` = the edges whose targets are on the stack (in stack order),
`pE` = the edges already popped.  Invariant `SharedAux.Inv`: `sE ++ pE` has no duplicates and consists
exactly of the edges leaving an expanded node (derived, in `all`); `all` ⊆ reachable; `all` = `top` plus
the targets of popped edges; `shared` = derived ids that are the target of two distinct popped edges.
-/
import PubgrubProofs.TreeSound

set_option linter.unusedSectionVars false
set_option linter.unusedVariables false

namespace Pubgrub
open VersionSet

variable {P S V M Pr : Type} [DecidableEq P] [VersionSet S V] [DecidableEq S]

/-- ids reachable from `top` through the causes of derived clauses -/
inductive IdReach (store : List (Incompat P S V M)) (top : Nat) : Nat → Prop
  | top : IdReach store top top
  | left (i a b : Nat) (inc : Incompat P S V M) :
      IdReach store top i → store[i]? = some inc → inc.causes = some (a, b) → IdReach store top a
  | right (i a b : Nat) (inc : Incompat P S V M) :
      IdReach store top i → store[i]? = some inc → inc.causes = some (a, b) → IdReach store top b

/-- `(i, side)` is a cause edge of the reachable DAG leading to `k` (`side = false`: first cause) -/
def IsEdgeTo (store : List (Incompat P S V M)) (top : Nat) (k : Nat) (e : Nat × Bool) : Prop :=
  IdReach store top e.1 ∧ ∃ inc a b, store[e.1]? = some inc ∧ inc.causes = some (a, b) ∧
    (if e.2 then b else a) = k

/-- at least two distinct cause edges of the reachable DAG lead to `k` -/
def TwoEdgesTo (store : List (Incompat P S V M)) (top : Nat) (k : Nat) : Prop :=
  ∃ e1 e2 : Nat × Bool, e1 ≠ e2 ∧ IsEdgeTo store top k e1 ∧ IsEdgeTo store top k e2

/-! ### helpers -/

namespace SharedAux

/-- `i` is a derived entry of the store -/
def Derived (store : List (Incompat P S V M)) (i : Nat) : Prop :=
  ∃ inc a b, store[i]? = some inc ∧ inc.causes = some (a, b)

/-- target of the edge `(i, side)` (`0` if `i` is not derived) -/
def tgt (store : List (Incompat P S V M)) (e : Nat × Bool) : Nat :=
  match (store[e.1]?).bind Incompat.causes with
  | some (a, b) => if e.2 then b else a
  | none => 0

theorem tgt_eq (store : List (Incompat P S V M)) (i : Nat) (inc : Incompat P S V M) (a b : Nat)
    (hs : store[i]? = some inc) (hc : inc.causes = some (a, b)) (s : Bool) :
    tgt store (i, s) = if s then b else a := by
  simp [tgt, hs, hc]

theorem isEdgeTo_iff (store : List (Incompat P S V M)) (top k : Nat) (e : Nat × Bool) :
    IsEdgeTo store top k e ↔ IdReach store top e.1 ∧ Derived store e.1 ∧ tgt store e = k := by
  constructor
  · rintro ⟨hr, inc, a, b, hs, hc, h⟩
    exact ⟨hr, ⟨inc, a, b, hs, hc⟩, by simp [tgt, hs, hc, h]⟩
  · rintro ⟨hr, ⟨inc, a, b, hs, hc⟩, h⟩
    refine ⟨hr, inc, a, b, hs, hc, ?_⟩
    simpa [tgt, hs, hc] using h

theorem reach_le (store : List (Incompat P S V M)) (hlt : CausesBelow store) (top k : Nat)
    (h : IdReach store top k) : k ≤ top := by
  induction h with
  | top => exact Nat.le_refl _
  | left i a b inc _ hs hc ih => have := hlt i inc a b hs hc; omega
  | right i a b inc _ hs hc ih => have := hlt i inc a b hs hc; omega

theorem tgt_lt (store : List (Incompat P S V M)) (hlt : CausesBelow store) (e : Nat × Bool)
    (h : Derived store e.1) : tgt store e < e.1 := by
  obtain ⟨inc, a, b, hs, hc⟩ := h
  have := hlt e.1 inc a b hs hc
  simp only [tgt, hs, hc, Option.bind_some]
  split <;> omega

theorem reach_tgt (store : List (Incompat P S V M)) (top : Nat) (e : Nat × Bool)
    (hr : IdReach store top e.1) (h : Derived store e.1) : IdReach store top (tgt store e) := by
  obtain ⟨inc, a, b, hs, hc⟩ := h
  simp only [tgt, hs, hc, Option.bind_some]
  split
  · exact IdReach.right e.1 a b inc hr hs hc
  · exact IdReach.left e.1 a b inc hr hs hc

/-- the invariant of the traversal; `sE`: edges on the stack, `pE`: popped edges -/
structure Inv (store : List (Incompat P S V M)) (top : Nat) (sE pE : List (Nat × Bool))
    (all shared : List Nat) : Prop where
  nodup : (sE ++ pE).Nodup
  edges : ∀ e, e ∈ sE ++ pE ↔ (e.1 ∈ all ∧ Derived store e.1)
  reach : ∀ k ∈ all, IdReach store top k
  allIff : ∀ k, k ∈ all ↔ k = top ∨ ∃ e ∈ pE, tgt store e = k
  sharedIff : ∀ k, k ∈ shared ↔
    Derived store k ∧ ∃ e1 ∈ pE, ∃ e2 ∈ pE, e1 ≠ e2 ∧ tgt store e1 = k ∧ tgt store e2 = k

section steps
variable {store : List (Incompat P S V M)} {top : Nat} {sE pE : List (Nat × Bool)} {e : Nat × Bool}
  {all shared : List Nat}

theorem Inv.src (h : Inv store top (sE ++ [e]) pE all shared) :
    e.1 ∈ all ∧ Derived store e.1 ∧ IdReach store top e.1 := by
  have := (h.edges e).1 (by simp)
  exact ⟨this.1, this.2, h.reach _ this.1⟩

theorem Inv.notMem (h : Inv store top (sE ++ [e]) pE all shared) : e ∉ pE := by
  have := h.nodup
  simp only [List.append_assoc, List.singleton_append] at this
  have := (List.nodup_append.1 this).2.1
  exact (List.nodup_cons.1 this).1

theorem Inv.nodup' (h : Inv store top (sE ++ [e]) pE all shared) : (sE ++ e :: pE).Nodup := by
  simpa [List.append_assoc] using h.nodup

theorem Inv.edges' (h : Inv store top (sE ++ [e]) pE all shared) (e' : Nat × Bool) :
    e' ∈ sE ++ e :: pE ↔ (e'.1 ∈ all ∧ Derived store e'.1) := by
  rw [← h.edges e']; simp

/-- popped a derived id that was already seen -/
theorem Inv.step_shared (hlt : CausesBelow store) (h : Inv store top (sE ++ [e]) pE all shared)
    (hd : Derived store (tgt store e)) (hin : tgt store e ∈ all) (shared2 : List Nat)
    (hm : ∀ x, x ∈ shared2 ↔ x ∈ shared ∨ x = tgt store e) :
    Inv store top sE (e :: pE) all shared2 := by
  obtain ⟨hsa, hsd, hsr⟩ := h.src
  refine ⟨h.nodup', h.edges', h.reach, ?_, ?_⟩
  · intro k
    rw [h.allIff k]
    constructor
    · rintro (hk | ⟨e', he', hk⟩)
      · exact Or.inl hk
      · exact Or.inr ⟨e', List.mem_cons_of_mem _ he', hk⟩
    · rintro (hk | ⟨e', he', hk⟩)
      · exact Or.inl hk
      · rcases List.mem_cons.1 he' with rfl | he'
        · exact (h.allIff k).1 (hk ▸ hin)
        · exact Or.inr ⟨e', he', hk⟩
  · intro k
    rw [hm k, h.sharedIff k]
    constructor
    · rintro (⟨hdk, e1, he1, e2, he2, hne, h1, h2⟩ | rfl)
      · exact ⟨hdk, e1, List.mem_cons_of_mem _ he1, e2, List.mem_cons_of_mem _ he2, hne, h1, h2⟩
      · refine ⟨hd, ?_⟩
        rcases (h.allIff _).1 hin with htop | ⟨e', he', hk⟩
        · have h1 := tgt_lt store hlt e hsd
          have h2 := reach_le store hlt top _ hsr
          omega
        · refine ⟨e, List.mem_cons_self, e', List.mem_cons_of_mem _ he', ?_, rfl, hk⟩
          rintro rfl
          exact h.notMem he'
    · rintro ⟨hdk, e1, he1, e2, he2, hne, h1, h2⟩
      rcases List.mem_cons.1 he1 with rfl | he1
      · exact Or.inr h1.symm
      · rcases List.mem_cons.1 he2 with rfl | he2
        · exact Or.inr h2.symm
        · exact Or.inl ⟨hdk, e1, he1, e2, he2, hne, h1, h2⟩

/-- popped an external id -/
theorem Inv.step_leaf (h : Inv store top (sE ++ [e]) pE all shared)
    (hd : ¬ Derived store (tgt store e)) (all2 : List Nat)
    (hm : ∀ x, x ∈ all2 ↔ x ∈ all ∨ x = tgt store e) :
    Inv store top sE (e :: pE) all2 shared := by
  obtain ⟨hsa, hsd, hsr⟩ := h.src
  refine ⟨h.nodup', ?_, ?_, ?_, ?_⟩
  · intro e'
    rw [h.edges' e', hm]
    constructor
    · rintro ⟨h1, h2⟩; exact ⟨Or.inl h1, h2⟩
    · rintro ⟨h1 | h1, h2⟩
      · exact ⟨h1, h2⟩
      · exact absurd (h1 ▸ h2) hd
  · intro k hk
    rcases (hm k).1 hk with hk | rfl
    · exact h.reach k hk
    · exact reach_tgt store top e hsr hsd
  · intro k
    rw [hm k, h.allIff k]
    constructor
    · rintro ((hk | ⟨e', he', hk⟩) | rfl)
      · exact Or.inl hk
      · exact Or.inr ⟨e', List.mem_cons_of_mem _ he', hk⟩
      · exact Or.inr ⟨e, List.mem_cons_self, rfl⟩
    · rintro (hk | ⟨e', he', hk⟩)
      · exact Or.inl (Or.inl hk)
      · rcases List.mem_cons.1 he' with rfl | he'
        · exact Or.inr hk.symm
        · exact Or.inl (Or.inr ⟨e', he', hk⟩)
  · intro k
    rw [h.sharedIff k]
    constructor
    · rintro ⟨hdk, e1, he1, e2, he2, hne, h1, h2⟩
      exact ⟨hdk, e1, List.mem_cons_of_mem _ he1, e2, List.mem_cons_of_mem _ he2, hne, h1, h2⟩
    · rintro ⟨hdk, e1, he1, e2, he2, hne, h1, h2⟩
      rcases List.mem_cons.1 he1 with rfl | he1
      · exact absurd (h1 ▸ hdk) hd
      · rcases List.mem_cons.1 he2 with rfl | he2
        · exact absurd (h2 ▸ hdk) hd
        · exact ⟨hdk, e1, he1, e2, he2, hne, h1, h2⟩

/-- popped a derived id for the first time: it is expanded -/
theorem Inv.step_expand (h : Inv store top (sE ++ [e]) pE all shared) (i : Nat) (hi : tgt store e = i)
    (hd : Derived store i) (hnin : i ∉ all) :
    Inv store top (sE ++ [(i, false), (i, true)]) (e :: pE) (all ++ [i]) shared := by
  obtain ⟨hsa, hsd, hsr⟩ := h.src
  have hfresh : ∀ s, (i, s) ∉ sE ++ e :: pE := fun s hmem => hnin ((h.edges' _).1 hmem).1
  refine ⟨?_, ?_, ?_, ?_, ?_⟩
  · have hnd := h.nodup'
    have hperm : (sE ++ [(i, false), (i, true)] ++ e :: pE).Perm
        ((i, false) :: (i, true) :: (sE ++ e :: pE)) := by
      rw [List.append_assoc]
      exact List.perm_middle.trans (List.Perm.cons _ List.perm_middle)
    rw [hperm.nodup_iff]
    refine List.nodup_cons.2 ⟨?_, List.nodup_cons.2 ⟨hfresh true, hnd⟩⟩
    intro hmem
    rcases List.mem_cons.1 hmem with hbad | hmem
    · simp at hbad
    · exact hfresh false hmem
  · intro e'
    have : e' ∈ sE ++ [(i, false), (i, true)] ++ e :: pE ↔
        (e' ∈ sE ++ e :: pE ∨ e' = (i, false) ∨ e' = (i, true)) := by
      simp only [List.mem_append, List.mem_cons, List.not_mem_nil, or_false]
      grind
    rw [this, h.edges' e']
    simp only [List.mem_append, List.mem_singleton]
    constructor
    · rintro (⟨h1, h2⟩ | rfl | rfl)
      · exact ⟨Or.inl h1, h2⟩
      · exact ⟨Or.inr rfl, hd⟩
      · exact ⟨Or.inr rfl, hd⟩
    · rintro ⟨h1 | h1, h2⟩
      · exact Or.inl ⟨h1, h2⟩
      · obtain ⟨j, s⟩ := e'
        simp only at h1
        subst h1
        cases s
        · exact Or.inr (Or.inl rfl)
        · exact Or.inr (Or.inr rfl)
  · intro k hk
    rcases List.mem_append.1 hk with hk | hk
    · exact h.reach k hk
    · rw [List.mem_singleton.1 hk, ← hi]
      exact reach_tgt store top e hsr hsd
  · intro k
    rw [List.mem_append, List.mem_singleton, h.allIff k]
    constructor
    · rintro ((hk | ⟨e', he', hk⟩) | rfl)
      · exact Or.inl hk
      · exact Or.inr ⟨e', List.mem_cons_of_mem _ he', hk⟩
      · exact Or.inr ⟨e, List.mem_cons_self, hi⟩
    · rintro (hk | ⟨e', he', hk⟩)
      · exact Or.inl (Or.inl hk)
      · rcases List.mem_cons.1 he' with rfl | he'
        · exact Or.inr (hk.symm.trans hi)
        · exact Or.inl (Or.inr ⟨e', he', hk⟩)
  · intro k
    rw [h.sharedIff k]
    have hno : ∀ e' ∈ pE, tgt store e' ≠ i := fun e' he' hk =>
      hnin ((h.allIff i).2 (Or.inr ⟨e', he', hk⟩))
    constructor
    · rintro ⟨hdk, e1, he1, e2, he2, hne, h1, h2⟩
      exact ⟨hdk, e1, List.mem_cons_of_mem _ he1, e2, List.mem_cons_of_mem _ he2, hne, h1, h2⟩
    · rintro ⟨hdk, e1, he1, e2, he2, hne, h1, h2⟩
      rcases List.mem_cons.1 he1 with rfl | he1'
      · rcases List.mem_cons.1 he2 with rfl | he2'
        · exact absurd rfl hne
        · exact absurd (h2.trans (h1.symm.trans hi)) (hno e2 he2')
      · rcases List.mem_cons.1 he2 with rfl | he2'
        · exact absurd (h1.trans (h2.symm.trans hi)) (hno e1 he1')
        · exact ⟨hdk, e1, he1', e2, he2', hne, h1, h2⟩

end steps

/-- the invariant is preserved by the whole traversal -/
theorem collectIds_inv (store : List (Incompat P S V M)) (hlt : CausesBelow store) (top : Nat) :
    ∀ (fuel : Nat) (sE pE : List (Nat × Bool)) (all shared all' shared' : List Nat),
      Inv store top sE pE all shared →
      State.collectIds store fuel (sE.map (tgt store)) all shared = .ok (all', shared') →
      ∃ pE', Inv store top [] pE' all' shared' := by
  intro fuel
  induction fuel with
  | zero => intro sE pE all shared all' shared' _ h; simp [State.collectIds] at h
  | succ fuel ih =>
    intro sE pE all shared all' shared' hinv h
    rcases List.eq_nil_or_concat sE with rfl | ⟨sE', e, hE⟩
    · rw [State.collectIds] at h
      simp only [List.map_nil, List.getLast?_nil, Except.ok.injEq, Prod.mk.injEq] at h
      obtain ⟨rfl, rfl⟩ := h
      exact ⟨pE, hinv⟩
    · rw [List.concat_eq_append] at hE
      subst hE
      rw [State.collectIds] at h
      simp only [List.map_append, List.map_cons, List.map_nil, List.getLast?_concat,
        List.dropLast_concat] at h
      cases hs : store[tgt store e]? with
      | none => simp [storeGet, unwrapOr, hs] at h
      | some inc =>
        simp only [storeGet, unwrapOr, hs] at h
        cases hc : inc.causes with
        | none =>
          simp only [hc] at h
          have hnd : ¬ Derived store (tgt store e) := by
            rintro ⟨inc', a, b, hs', hc'⟩
            rw [hs] at hs'; cases hs'; rw [hc] at hc'; cases hc'
          have hm := TreeAux.mem_pushNew all (tgt store e)
          generalize (if all.contains (tgt store e) = true then all else all ++ [tgt store e]) = all2
            at h hm
          exact ih _ _ _ _ _ _ (hinv.step_leaf hnd all2 hm) h
        | some ab =>
          obtain ⟨a, b⟩ := ab
          simp only [hc] at h
          have hd : Derived store (tgt store e) := ⟨inc, a, b, hs, hc⟩
          by_cases hia : all.contains (tgt store e) = true
          · simp only [hia, if_true] at h
            have hia' : tgt store e ∈ all := by simpa using hia
            have hm := TreeAux.mem_pushNew shared (tgt store e)
            generalize (if shared.contains (tgt store e) = true then shared
              else shared ++ [tgt store e]) = shared2 at h hm
            exact ih _ _ _ _ _ _ (hinv.step_shared hlt hd hia' shared2 hm) h
          · simp only [hia] at h
            have hia' : tgt store e ∉ all := by simpa using hia
            have hst : List.map (tgt store) sE' ++ [a, b] =
                (sE' ++ [(tgt store e, false), (tgt store e, true)]).map (tgt store) := by
              simp [tgt_eq store _ inc a b hs hc]
            rw [hst] at h
            exact ih _ _ _ _ _ _ (hinv.step_expand _ rfl hd hia') h

/-- the traversal started at `top` ends in a state satisfying the invariant with an empty stack -/
theorem collectIds_final (store : List (Incompat P S V M)) (hlt : CausesBelow store)
    (top fuel : Nat) (all shared : List Nat)
    (h : State.collectIds store fuel [top] [] [] = .ok (all, shared)) :
    ∃ pE, Inv store top [] pE all shared := by
  cases fuel with
  | zero => simp [State.collectIds] at h
  | succ fuel =>
    rw [State.collectIds] at h
    simp only [List.getLast?_singleton, List.dropLast_singleton] at h
    cases hs : store[top]? with
    | none => simp [storeGet, unwrapOr, hs] at h
    | some inc =>
      simp only [storeGet, unwrapOr, hs] at h
      cases hc : inc.causes with
      | none =>
        simp only [hc, List.contains_nil, Bool.false_eq_true, if_false, List.nil_append] at h
        have hnd : ¬ Derived store top := by
          rintro ⟨inc', a, b, hs', hc'⟩
          rw [hs] at hs'; cases hs'; rw [hc] at hc'; cases hc'
        refine collectIds_inv store hlt top fuel [] [] [top] [] all shared ?_ (by simpa using h)
        refine ⟨by simp, ?_, ?_, by simp, by simp⟩
        · intro e'
          simp only [List.append_nil, List.not_mem_nil, List.mem_singleton, false_iff, not_and]
          intro h1 h2; exact hnd (h1 ▸ h2)
        · intro k hk
          rw [List.mem_singleton.1 hk]; exact IdReach.top
      | some ab =>
        obtain ⟨a, b⟩ := ab
        simp only [hc, List.contains_nil, Bool.false_eq_true, if_false, List.nil_append] at h
        have hd : Derived store top := ⟨inc, a, b, hs, hc⟩
        have hst : [a, b] = ([(top, false), (top, true)] : List (Nat × Bool)).map (tgt store) := by
          simp [tgt_eq store _ inc a b hs hc]
        rw [hst] at h
        refine collectIds_inv store hlt top fuel _ [] [top] [] all shared ?_ h
        refine ⟨by simp, ?_, ?_, by simp, by simp⟩
        · intro e'
          obtain ⟨j, s⟩ := e'
          simp only [List.append_nil, List.mem_cons, List.not_mem_nil, or_false, Prod.mk.injEq]
          constructor
          · rintro (⟨rfl, _⟩ | ⟨rfl, _⟩) <;> exact ⟨rfl, hd⟩
          · rintro ⟨rfl, _⟩
            cases s <;> simp
        · intro k hk
          rw [List.mem_singleton.1 hk]; exact IdReach.top

theorem Inv.all_iff {store : List (Incompat P S V M)} {top : Nat} {pE : List (Nat × Bool)}
    {all shared : List Nat} (h : Inv store top [] pE all shared) (k : Nat) :
    k ∈ all ↔ IdReach store top k := by
  constructor
  · exact h.reach k
  · intro hr
    induction hr with
    | top => exact (h.allIff top).2 (Or.inl rfl)
    | left i a b inc _ hs hc ih =>
      have hmem : (i, false) ∈ pE := by
        simpa using (h.edges (i, false)).2 ⟨ih, inc, a, b, hs, hc⟩
      exact (h.allIff a).2 (Or.inr ⟨_, hmem, by simp [tgt_eq store i inc a b hs hc]⟩)
    | right i a b inc _ hs hc ih =>
      have hmem : (i, true) ∈ pE := by
        simpa using (h.edges (i, true)).2 ⟨ih, inc, a, b, hs, hc⟩
      exact (h.allIff b).2 (Or.inr ⟨_, hmem, by simp [tgt_eq store i inc a b hs hc]⟩)

theorem Inv.edge_iff {store : List (Incompat P S V M)} {top : Nat} {pE : List (Nat × Bool)}
    {all shared : List Nat} (h : Inv store top [] pE all shared) (k : Nat) (e : Nat × Bool) :
    IsEdgeTo store top k e ↔ e ∈ pE ∧ tgt store e = k := by
  rw [isEdgeTo_iff, ← h.all_iff, ← and_assoc, ← h.edges e]
  simp

theorem Inv.shared_iff {store : List (Incompat P S V M)} {top : Nat} {pE : List (Nat × Bool)}
    {all shared : List Nat} (h : Inv store top [] pE all shared) (k : Nat) :
    k ∈ shared ↔
      (∃ inc a b, store[k]? = some inc ∧ inc.causes = some (a, b)) ∧ TwoEdgesTo store top k := by
  rw [h.sharedIff k]
  refine and_congr Iff.rfl ?_
  unfold TwoEdgesTo
  constructor
  · rintro ⟨e1, he1, e2, he2, hne, h1, h2⟩
    exact ⟨e1, e2, hne, (h.edge_iff k e1).2 ⟨he1, h1⟩, (h.edge_iff k e2).2 ⟨he2, h2⟩⟩
  · rintro ⟨e1, e2, hne, h1, h2⟩
    obtain ⟨he1, h1⟩ := (h.edge_iff k e1).1 h1
    obtain ⟨he2, h2⟩ := (h.edge_iff k e2).1 h2
    exact ⟨e1, he1, e2, he2, hne, h1, h2⟩

end SharedAux

/-! ### targets -/

/-- the traversal's `shared` is exactly: derived, with at least two incoming edges -/
theorem collectIds_shared_iff (store : List (Incompat P S V M)) (hlt : CausesBelow store)
    (top : Nat) (all shared : List Nat)
    (h : State.collectIds store (2 * store.length + 2) [top] [] [] = .ok (all, shared)) (k : Nat) :
    shared.contains k = true ↔
      (∃ inc a b, store[k]? = some inc ∧ inc.causes = some (a, b)) ∧ TwoEdgesTo store top k := by
  obtain ⟨pE, hinv⟩ := SharedAux.collectIds_final store hlt top _ all shared h
  rw [← hinv.shared_iff k]
  simp

/-- … and `all` is exactly the reachable ids -/
theorem collectIds_all_iff (store : List (Incompat P S V M)) (hlt : CausesBelow store)
    (top : Nat) (all shared : List Nat)
    (h : State.collectIds store (2 * store.length + 2) [top] [] [] = .ok (all, shared)) (k : Nat) :
    all.contains k = true ↔ IdReach store top k := by
  obtain ⟨pE, hinv⟩ := SharedAux.collectIds_final store hlt top _ all shared h
  rw [← hinv.all_iff k]
  simp

/-- C03, shared-id clause in full: the tree built for `top` marks a derived node with its id exactly
when two distinct cause edges of the reachable DAG lead to it -/
theorem buildDerivationTree_shared_iff (W : World P S V M) (root : P) (rv : V)
    [LawfulVersionSet S V]
    (st : State P S V M Pr) (hinv : StoreInv W root rv st.store) (top : Nat)
    (tree : DerivationTree P S V M) (h : st.buildDerivationTree top = .ok tree) :
    ∃ sh : Nat → Bool, IsTreeOf st.store sh top tree ∧
      ∀ k, sh k = true ↔
        (∃ inc a b, st.store[k]? = some inc ∧ inc.causes = some (a, b)) ∧ TwoEdgesTo st.store top k := by
  obtain ⟨all, shared, hcol, ht⟩ := buildDerivationTree_spec st top tree h
  have hlt := TreeAux.causesBelow_of_storeInv W root rv st.store hinv
  exact ⟨fun i => shared.contains i, ht, fun k => collectIds_shared_iff st.store hlt top all shared hcol k⟩

end Pubgrub

/-
Helpers for `NoPanic.lean`, part 7: the run-level invariant `RInvX` and its preservation by
`Solver.step`: the request after a step is never a panic.
-/
import PubgrubProofs.NoPanicAux6

set_option linter.unusedSectionVars false
set_option linter.unusedVariables false

namespace Pubgrub
open VersionSet

variable {P S V M Pr E : Type} [DecidableEq P] [VersionSet S V] [DecidableEq S] [DecidableEq V]
  [LE Pr] [DecidableLE Pr] [LawfulVersionSet S V]

/-- the run-level invariant behind `no_panic` -/
structure RInvX (x : SolverState P S V M Pr × Request P S V M Pr E) : Prop where
  live : x.1.phase ≠ .finished → XInv x.1.st
  cancel : x.1.phase = .cancel → (SmallMap.get x.1.st.incompatibilities x.1.next).isSome = true
  choosing : ∀ p t, x.1.phase = .choosing p t → x.1.st.ps.changed = x.1.st.ps.assignments.length
  fetching : ∀ p v, x.1.phase = .fetching p v → x.1.st.ps.changed = x.1.st.ps.assignments.length
  nopanic : ∀ site, x.2 ≠ .fault (.panic site)

theorem rinvX_finish (s : SolverState P S V M Pr) (r : Request P S V M Pr E)
    (hr : ∀ site, r ≠ .fault (.panic site)) : RInvX (Solver.finish s r) := by
  refine ⟨?_, ?_, ?_, ?_, hr⟩
  · intro h; simp [Solver.finish] at h
  · intro h; simp [Solver.finish] at h
  · intro _ _ h; simp [Solver.finish] at h
  · intro _ _ h; simp [Solver.finish] at h

/-- a fault of a computation that does not panic -/
theorem rinvX_fault (s : SolverState P S V M Pr) {α : Type} {x : R α} {Q : α → Prop}
    (hx : NoPanic x Q) {f : Fault} (he : x = .error f) :
    RInvX (E := E) (Solver.finish s (.fault f)) := by
  refine rinvX_finish s _ ?_
  intro site h
  injection h with h
  rw [hx.error_eq he] at h
  cases h

theorem rinvX_loopAgain (s : SolverState P S V M Pr) (st : State P S V M Pr) (h : XInv st)
    (hn : (SmallMap.get st.incompatibilities s.next).isSome = true) :
    RInvX (E := E) (Solver.loopAgain s st) := by
  refine ⟨fun _ => h, fun _ => hn, ?_, ?_, ?_⟩
  · intro _ _ h'; simp [Solver.loopAgain] at h'
  · intro _ _ h'; simp [Solver.loopAgain] at h'
  · intro site h'; simp [Solver.loopAgain] at h'

theorem rinvX_start (debug : Bool) (fuel : Nat) (root : P) (rv : V) (hU : debug = true → UnionCanon S V) :
    RInvX (Solver.start (Pr := Pr) (E := E) (M := M) (S := S) debug fuel root rv) := by
  refine ⟨?_, ?_, ?_, ?_, ?_⟩
  · intro _
    refine ⟨?_, ?_, ?_, ?_, ?_⟩
    · intro p ids hg id hid
      simp only [Solver.start, State.init, SmallMap.get] at hg
      split at hg
      · injection hg with hg; subst hg
        rw [List.mem_singleton] at hid; subst hid
        refine ⟨Incompat.notRoot root rv, rfl, ?_⟩
        intro kv hkv
        simp only [Incompat.notRoot, List.mem_singleton] at hkv
        subst hkv
        simp [Solver.start, State.init, SmallMap.get]
      · cases hg
    · intro key ids hg; simp [Solver.start, State.init, SmallMap.get] at hg
    · intro p pa hpa
      simp [Solver.start, State.init, PartialSolution.getPA, PartialSolution.empty, SmallMap.get] at hpa
    · intro p hp; simp [Solver.start, State.init] at hp
    · intro hd
      refine ⟨hU hd, ?_⟩
      intro inc hinc
      simp only [Solver.start, State.init, List.mem_singleton] at hinc
      subst hinc
      exact Incompat.noAny_notRoot root rv
  · intro _; simp [Solver.start, State.init, SmallMap.get]
  · intro _ _ h; simp [Solver.start] at h
  · intro _ _ h; simp [Solver.start] at h
  · intro site h; simp [Solver.start] at h

/-- the term of the package in flight is its positive term -/
theorem inflight_term {ps : PartialSolution P S V Pr} {p : P} {t : Term S}
    (hfl : ps.InFlightOK p) (hterm : ps.termIntersectionForPackage p = some t) :
    ∃ pa, ps.getPA p = some pa ∧ pa.inter = .derivations t := by
  obtain ⟨_, _, pa, set, hpa, hinter⟩ := hfl
  refine ⟨pa, hpa, ?_⟩
  simp only [PartialSolution.termIntersectionForPackage, hpa, Option.map_some, hinter, AssignInter.term] at hterm
  injection hterm with hterm
  rw [← hterm]; exact hinter

theorem rinvX_step (W : World P S V M) (hW : W.SetsValid) (root : P) (rv : V)
    (s : SolverState P S V M Pr) (req : Request P S V M Pr E) (a : Answer P S V M Pr E)
    (h0 : RInv W root rv (s, req)) (h1 : RInv' (s, req)) (hT : RInvT root rv (s, req))
    (h : RInvX (s, req)) (ha : AnswerOK W req a) : RInvX (Solver.step s a) := by
  have hs : SInv W root rv s.st := h0.sinv
  unfold Solver.step
  split
  · -- finished
    rename_i hph
    refine ⟨fun hn => absurd hph hn, ?_, ?_, ?_, ?_⟩
    · intro h'; simp only at h'; rw [hph] at h'; cases h'
    · intro _ _ h'; simp only at h'; rw [hph] at h'; cases h'
    · intro _ _ h'; simp only at h'; rw [hph] at h'; cases h'
    · intro site h'; cases h'
  · exact rinvX_finish s _ (by intro site h'; cases h')
  · -- cancel, ok
    rename_i hph
    have hlive : s.phase ≠ .finished := by rw [hph]; intro e; cases e
    obtain ⟨hp, _⟩ := h1.live hlive
    have ht := hT.live hlive
    have hx := h.live hlive
    have hup := State.unitPropagation_np W root rv s.fuel s.st s.next hs hp ht hx (h.cancel hph)
    split
    · rename_i f hu
      exact rinvX_fault s hup hu
    · rename_i st terminal hu
      obtain ⟨hx1, hterm⟩ := hup.of_ok hu
      obtain ⟨hs1, _⟩ := State.unitPropagation_inv W root rv hu hs
      obtain ⟨tree, htree⟩ := State.buildDerivationTree_ok st
        (TreeAux.causesBelow_of_storeInv W root rv st.store hs1.store) terminal (hterm terminal rfl)
      rw [htree]
      exact rinvX_finish _ _ (by intro site h'; cases h')
    · rename_i st hu
      obtain ⟨hx1, _⟩ := hup.of_ok hu
      have hp1 : PInv st := by
        unfold State.unitPropagation at hu
        exact (State.unitPropagationLoop_pinv _ _ hu ⟨hp.wf, hp.cache⟩).1
      obtain ⟨L, hL⟩ := PartialSolution.toPrioritize_ok hp1.wf.wf
      rw [hL]
      cases L with
      | nil =>
        refine ⟨fun _ => hx1, ?_, ?_, ?_, ?_⟩
        · intro h'; simp at h'
        · intro _ _ h'; simp at h'
        · intro _ _ h'; simp at h'
        · intro site h'; cases h'
      | cons cur rest =>
        refine ⟨fun _ => hx1, ?_, ?_, ?_, ?_⟩
        · intro h'; simp at h'
        · intro _ _ h'; simp at h'
        · intro _ _ h'; simp at h'
        · intro site h'; cases h'
  · -- prioritizing
    rename_i cur rest acc pr hph
    have hlive : s.phase ≠ .finished := by rw [hph]; intro e; cases e
    have hx := h.live hlive
    simp only
    split
    · refine ⟨fun _ => hx, ?_, ?_, ?_, ?_⟩
      · intro h'; simp at h'
      · intro _ _ h'; simp at h'
      · intro _ _ h'; simp at h'
      · intro site h'; cases h'
    · refine ⟨fun _ => hx, ?_, ?_, ?_, ?_⟩
      · intro h'; simp at h'
      · intro _ _ h'; simp at h'
      · intro _ _ h'; simp at h'
      · intro site h'; cases h'
  · -- picking
    rename_i acc o hph
    have hlive : s.phase ≠ .finished := by rw [hph]; intro e; cases e
    obtain ⟨hp, _⟩ := h1.live hlive
    have hx := h.live hlive
    obtain ⟨⟨L, hL, hLk⟩, _⟩ := h1.picking acc hph
    have hw1 : (s.st.ps.afterPrioritize acc).WF' :=
      PartialSolution.afterPrioritize_wf' hp.wf acc
        (fun q hq' => PartialSolution.toPrioritize_sound hp.wf.wf hL q (hLk ▸ hq'))
    simp only
    split
    · split
      · exact rinvX_finish s _ (by intro site h'; cases h')
      · obtain ⟨sel, hsel, _⟩ := PartialSolution.extractSolution_ok hw1.wf
        rw [hsel]
        exact rinvX_finish _ _ (by intro site h'; cases h')
    · rename_i p
      split
      · exact rinvX_finish s _ (by intro site h'; cases h')
      · rename_i hmax
        have hmax' : Solver.isMaximal (s.st.ps.afterPrioritize acc).queue p = true := by
          cases hm : Solver.isMaximal (s.st.ps.afterPrioritize acc).queue p with
          | true => rfl
          | false => rw [hm] at hmax; simp at hmax
        obtain ⟨pr, hpr, _⟩ := isMaximal_spec hmax'
        obtain ⟨pa, set, hpa, hinter⟩ := hw1.wf.queue_sub p pr (SmallMap.mem_of_get hpr)
        have hpa' : SmallMap.get s.st.ps.assignments p = some pa := hpa
        have hterm : PartialSolution.termIntersectionForPackage
            ({ s.st.ps.afterPrioritize acc with
                queue := SmallMap.remove (s.st.ps.afterPrioritize acc).queue p } : PartialSolution P S V Pr) p =
            some (.pos set) := by
          simp [PartialSolution.termIntersectionForPackage, PartialSolution.getPA,
            PartialSolution.afterPrioritize, hpa', hinter, AssignInter.term]
        simp only [hterm, Incompat.unwrapPositive]
        refine ⟨fun _ => ⟨hx.idx, hx.md, hx.asg, hx.buf, hx.noAny⟩, ?_, ?_, ?_, ?_⟩
        · intro h'; simp at h'
        · intro _ _ _; rfl
        · intro _ _ h'; simp at h'
        · intro site h'; cases h'
  · -- choosing, error
    exact rinvX_finish s _ (by intro site h'; cases h')
  · -- choosing, none
    rename_i p t hph
    have hlive : s.phase ≠ .finished := by rw [hph]; intro e; cases e
    obtain ⟨hp, _⟩ := h1.live hlive
    have hx := h.live hlive
    obtain ⟨hnext, hterm, hfl⟩ := h1.choosing p t hph
    simp only at hnext hterm hfl
    obtain ⟨htv, set, hreq, hts⟩ := h0.choosing p t hph
    simp only at hreq
    subst hreq
    subst hts
    have hnv : Incompat.noVersions (V := V) (M := M) p (Term.pos set) =
        .ok { terms := [(p, Term.pos set)], kind := .noVersions p set } := rfl
    rw [hnv]
    dsimp only
    have g := Incompat.noVersions_good W root rv s.st.store s.st.store.length p (Term.pos set) htv set rfl ha _ hnv
    have hadd := State.addIncompatibility_np W root rv hs hx g
      (fun _ => Incompat.noAny_single_pos (p := p) (s := set) rfl)
    split
    · rename_i f hb
      exact rinvX_fault s hadd hb
    · rename_i st hb
      obtain ⟨hx1, hmono, _⟩ := hadd.of_ok hb
      obtain ⟨pa, hpa, _⟩ := inflight_term hfl hterm
      refine rinvX_loopAgain s st hx1 (hmono _ ?_)
      rw [hnext]; exact hx.asg p pa hpa
  · -- choosing, some v
    rename_i p t v hph
    have hlive : s.phase ≠ .finished := by rw [hph]; intro e; cases e
    obtain ⟨hp, _⟩ := h1.live hlive
    have hx := h.live hlive
    obtain ⟨hnext, hterm, hfl⟩ := h1.choosing p t hph
    simp only at hnext hterm hfl
    have hch := h.choosing p t hph
    simp only at hch
    split
    · exact rinvX_finish s _ (by intro site h'; cases h')
    · rename_i hcont
      have hcont' : t.contains v = true := by
        cases hc : t.contains v with
        | true => rfl
        | false => rw [hc] at hcont; simp at hcont
      simp only
      split
      · refine ⟨fun _ => hx, ?_, ?_, ?_, ?_⟩
        · intro h'; simp at h'
        · intro _ _ h'; simp at h'
        · intro _ _ _; exact hch
        · intro site h'; cases h'
      · obtain ⟨pa, hpa, hinter⟩ := inflight_term hfl hterm
        obtain ⟨ps, hps⟩ := PartialSolution.addDecision_ok hp.wf.wf hpa hinter hcont' hch s.st.debug
        rw [hps]
        dsimp only
        obtain ⟨hp1, _⟩ := decided_ok hp hfl hterm hcont' hps
        refine rinvX_loopAgain _ _ (XInv.decide hx hp.wf.wf hps hp1.wf.wf hpa hinter) ?_
        simp only
        rw [hnext]; exact hx.asg p pa hpa
  · -- fetching, error
    exact rinvX_finish s _ (by intro site h'; cases h')
  · -- fetching, unavailable
    rename_i p v m hph
    have hlive : s.phase ≠ .finished := by rw [hph]; intro e; cases e
    obtain ⟨hp, _⟩ := h1.live hlive
    have hx := h.live hlive
    obtain ⟨hnext, hfl, t, hterm, hcont⟩ := h1.fetching p v hph
    simp only at hnext hterm hfl
    have hreq := h0.fetching p v hph
    simp only at hreq
    subst hreq
    have hadd := State.addIncompatibility_np W root rv hs hx
      (Incompat.customVersion_good W root rv s.st.store s.st.store.length p v m ha)
      (fun _ => Incompat.noAny_single_pos (i := Incompat.customVersion p v m) (p := p)
        (s := VersionSet.singleton v) rfl)
    split
    · rename_i f hb
      exact rinvX_fault s hadd hb
    · rename_i st hb
      obtain ⟨hx1, hmono, _⟩ := hadd.of_ok hb
      obtain ⟨pa, hpa, _⟩ := inflight_term hfl hterm
      refine rinvX_loopAgain s st hx1 (hmono _ ?_)
      rw [hnext]; exact hx.asg p pa hpa
  · -- fetching, available
    rename_i p v deps hph
    have hlive : s.phase ≠ .finished := by rw [hph]; intro e; cases e
    obtain ⟨hp, _⟩ := h1.live hlive
    have hx := h.live hlive
    obtain ⟨hnext, hfl, t, hterm, hcont⟩ := h1.fetching p v hph
    simp only at hnext hterm hfl
    have hch := h.fetching p v hph
    simp only at hch
    have hreq := h0.fetching p v hph
    simp only at hreq
    subst hreq
    have hadd := State.addIncompatibilityFromDependencies_np W hW root rv hs hx ha
    split
    · rename_i f hb
      exact rinvX_fault s hadd hb
    · rename_i st start stop hb
      obtain ⟨hx1, hmono⟩ := hadd.of_ok hb
      simp only at hx1 hmono
      obtain ⟨hp1, eps⟩ := State.addIncompatibilityFromDependencies_pinv hb hp
      have hfl1 : st.ps.InFlightOK p := eps ▸ hfl
      have hterm1 : st.ps.termIntersectionForPackage p = some t := eps ▸ hterm
      have hch1 : st.ps.changed = st.ps.assignments.length := by rw [eps]; exact hch
      obtain ⟨pa, hpa, hinter⟩ := inflight_term hfl1 hterm1
      have hnidx : (SmallMap.get st.incompatibilities s.next).isSome = true := by
        refine hmono _ ?_
        rw [hnext]
        exact hx.asg p pa (by rw [← eps]; exact hpa)
      obtain ⟨ps, hps⟩ := PartialSolution.addVersion_ok hp1.wf.wf hpa hinter hcont hch1 st.debug
        ((st.store.drop start).take (stop - start))
      simp only
      rw [hps]
      dsimp only
      refine rinvX_loopAgain _ _ ?_ hnidx
      unfold PartialSolution.addVersion at hps
      split at hps
      · obtain ⟨hp2, _⟩ := decided_ok hp1 hfl1 hterm1 hcont hps
        exact XInv.decide hx1 hp1.wf.wf hps hp2.wf.wf hpa hinter
      · simp only at hps
        split at hps
        · obtain ⟨hp2, _⟩ := decided_ok hp1 hfl1 hterm1 hcont hps
          exact XInv.decide hx1 hp1.wf.wf hps hp2.wf.wf hpa hinter
        · injection hps with hps; subst hps
          exact ⟨hx1.idx, hx1.md, hx1.asg, hx1.buf, hx1.noAny⟩
  · -- anything else
    exact rinvX_finish s _ (by intro site h'; cases h')

end Pubgrub

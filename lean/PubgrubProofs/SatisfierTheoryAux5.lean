/-
Helpers for `SatisfierTheory.lean`, part 5: the state-level invariant and its preservation by a
derivation and by a decision.
-/
import PubgrubProofs.SatisfierTheoryAux4

set_option linter.unusedSectionVars false
set_option linter.unusedVariables false

namespace Pubgrub
open VersionSet

section
variable {P S V M Pr : Type} [DecidableEq P] [VersionSet S V] [DecidableEq S] [LawfulVersionSet S V]

/-- what is special about the root package and about decision level 0 -/
structure RootInv (root : P) (rv : V) (st : State P S V M Pr) : Prop where
  lvl0 : st.ps.currentDecisionLevel = 0 → st.ps.hasEverBacktracked = false ∧
    (∀ inc ∈ st.store, ∀ kv ∈ inc.terms, kv.1 = root) ∧
    (∀ kv ∈ st.ps.assignments, kv.1 = root ∧ kv.2.inter = .derivations (Term.exact rv))
  empty : st.ps.assignments = [] → st.store = [Incompat.notRoot root rv]
  dated0 : ∀ p pa, (p, pa) ∈ st.ps.assignments → ∀ dd ∈ pa.dated, dd.decisionLevel = 0 → p = root
  first : ∀ p pa, (p, pa) ∈ st.ps.assignments → ∀ g v t, pa.inter = .decision g v t → pa.highest = 1 →
    p = root ∧ v = rv

/-- the state-level invariant of this file -/
structure TInv (root : P) (rv : V) (st : State P S V M Pr) : Prop where
  gmono : st.ps.GMono
  shrink : ∀ kv ∈ st.ps.assignments, kv.2.Shrink
  cause : st.CauseInv
  rootinv : RootInv root rv st

theorem TInv.searchCtx {W : World P S V M} {root : P} {rv : V} {st : State P S V M Pr}
    (hs : SInv W root rv st) (hp : PInv st) (ht : TInv root rv st) : SearchCtx root rv st.ps st.store := by
  refine ⟨hp.wf, hs.ps, ht.gmono, ?_, ht.rootinv.dated0, ht.rootinv.first⟩
  intro p pa hm dd hdd
  obtain ⟨inc, hinc, hsome, _⟩ := ht.cause p pa hm dd hdd
  cases hg : inc.get p with
  | none => rw [hg] at hsome; cases hsome
  | some t => exact ⟨inc, t, hinc, hg, Incompat.get_valid W root rv hs.store hinc hg⟩

/-! ### adding one assignment -/

theorem gmonoL_extend {asg asg' : List (P × PackageAssignments S V)} {p : P} {e : Nat × Nat × Bool}
    (h : GMonoL asg)
    (hb : ∀ q qa, (q, qa) ∈ asg → ∀ a ∈ qa.events, a.1 < e.1 ∧ a.2.1 ≤ e.2.1 ∧ (e.2.2 = true → a.2.1 < e.2.1))
    (hm : ∀ q qa', (q, qa') ∈ asg' → (q, qa') ∈ asg ∨
      (q = p ∧ ∀ a ∈ qa'.events, a = e ∨ ∃ pa, (p, pa) ∈ asg ∧ a ∈ pa.events)) : GMonoL asg' := by
  -- every event is an old event of the same package, or the new event of `p`
  have hcl : ∀ q qa', (q, qa') ∈ asg' → ∀ a ∈ qa'.events,
      (∃ qa, (q, qa) ∈ asg ∧ a ∈ qa.events) ∨ (q = p ∧ a = e) := by
    intro q qa' hq a ha
    rcases hm q qa' hq with h1 | ⟨rfl, h2⟩
    · exact Or.inl ⟨qa', h1, ha⟩
    · rcases h2 a ha with e1 | ⟨pa, hpa, hpa'⟩
      · exact Or.inr ⟨rfl, e1⟩
      · exact Or.inl ⟨pa, hpa, hpa'⟩
  intro q1 qa1 q2 qa2 h1 h2 a ha b hb'
  rcases hcl q1 qa1 h1 a ha with ⟨pa1, hpa1, ha1⟩ | ⟨rfl, rfl⟩ <;>
    rcases hcl q2 qa2 h2 b hb' with ⟨pa2, hpa2, hb2⟩ | ⟨rfl, rfl⟩
  · exact h q1 pa1 q2 pa2 hpa1 hpa2 a ha1 b hb2
  · obtain ⟨x1, x2, x3⟩ := hb q1 pa1 hpa1 a ha1
    exact ⟨fun _ => ⟨x2, x3⟩, fun e' => by omega⟩
  · obtain ⟨x1, x2, x3⟩ := hb q2 pa2 hpa2 b hb2
    exact ⟨fun e' => by omega, fun e' => by omega⟩
  · exact ⟨fun e' => by omega, fun _ => rfl⟩

/-- the events of a well-formed partial solution are below the next global index and at most the
current decision level -/
theorem PartialSolution.events_bound {ps : PartialSolution P S V Pr} (h : ps.WF') {q : P}
    {qa : PackageAssignments S V} (hq : (q, qa) ∈ ps.assignments) {a : Nat × Nat × Bool} (ha : a ∈ qa.events) :
    a.1 < ps.nextGlobalIndex ∧ a.2.1 ≤ ps.currentDecisionLevel := by
  obtain ⟨i, hi, hw, hx⟩ := h.entry_of_mem hq
  exact PackageAssignments.events_bound hw hx
    (PartialSolution.highest_le h.wf (PartialSolution.getPA_of_mem h.wf hq)) ha

/-- what a derivation does to the partial solution -/
structure DerivStep (ps ps' : PartialSolution P S V Pr) (p : P) (id : Nat) (t' : Term S)
    (pa' : PackageAssignments S V) : Prop where
  mem : ∀ q qa, (q, qa) ∈ ps'.assignments → (q, qa) ∈ ps.assignments ∨ (q = p ∧ qa = pa')
  getPA_self : ps'.getPA p = some pa'
  getPA_ne : ∀ q, q ≠ p → ps'.getPA q = ps.getPA q
  inter : pa'.inter = .derivations t'
  dated : ∃ old, pa'.dated = old ++ [⟨ps.nextGlobalIndex, ps.currentDecisionLevel, id, t'⟩] ∧
    ((∃ pa t0, ps.getPA p = some pa ∧ pa.inter = .derivations t0 ∧ old = pa.dated ∧
        ∃ x : Term S, x.Valid ∧ t' = t0.intersection x) ∨
      (ps.getPA p = none ∧ old = []))
  level : ps'.currentDecisionLevel = ps.currentDecisionLevel
  next : ps'.nextGlobalIndex = ps.nextGlobalIndex + 1
  backtracked : ps'.hasEverBacktracked = ps.hasEverBacktracked
  before : ∀ pa g, ps.getPA p = some pa → g ≤ ps.nextGlobalIndex → pa'.termBefore g = pa.termBefore g
  nonempty : ps'.assignments ≠ []

theorem PartialSolution.addDerivation_step (W : World P S V M) (root : P) (rv : V)
    {ps ps' : PartialSolution P S V Pr} {p : P} {id : Nat} {store : List (Incompat P S V M)}
    (hs : StoreInv W root rv store) (hw : ps.WF) (hr : ps.addDerivation p id store = .ok ps') :
    ∃ inc t t' pa', store[id]? = some inc ∧ inc.get p = some t ∧
      (ps.getPA p = none → t' = t.negate) ∧ DerivStep ps ps' p id t' pa' := by
  have hne := fun q (hq : q ≠ p) => PartialSolution.addDerivation_getPA_ne hw hr hq
  obtain ⟨inc, t, hinc, ht, hcase⟩ := PartialSolution.addDerivation_spec hr
  have htv : t.negate.Valid := Term.valid_negate _ (Incompat.get_valid W root rv hs hinc ht)
  rcases hcase with ⟨idx, pa, t0, hidx, hpa, ht0, rfl⟩ | ⟨hpa, rfl⟩
  · have hget := PartialSolution.getElem_of_indexOf_getPA hidx hpa
    have hlt := (List.getElem?_eq_some_iff.1 hget).1
    refine ⟨inc, t, t0.intersection t.negate,
      pa.pushDD ps.currentDecisionLevel ps.nextGlobalIndex id (t0.intersection t.negate), hinc, ht,
      (fun h => by rw [hpa] at h; cases h), ?_⟩
    refine ⟨?_, ?_, hne, rfl, ⟨pa.dated, rfl, Or.inl ⟨pa, t0, hpa, ht0, rfl, t.negate, htv, rfl⟩⟩, rfl, rfl, rfl,
      ?_, ?_⟩
    · intro q qa hq
      rcases List.mem_or_eq_of_mem_set hq with h' | h'
      · exact Or.inl h'
      · injection h' with h1 h2; exact Or.inr ⟨h1, h2⟩
    · show SmallMap.get (ps.assignments.set idx _) p = _
      rw [SmallMap.get_set_same_key hw.keys hget, if_pos rfl]; rfl
    · intro pa1 g hpa1 hg
      rw [hpa] at hpa1; injection hpa1 with hpa1; subst hpa1
      exact PackageAssignments.termBefore_pushDD ht0 _ _ _ _ hg
    · intro e
      have := congrArg List.length e
      simp only [List.length_set, List.length_nil] at this
      omega
  · refine ⟨inc, t, t.negate, PackageAssignments.single ps.currentDecisionLevel ps.nextGlobalIndex id t.negate,
      hinc, ht, fun _ => rfl, ?_⟩
    refine ⟨?_, ?_, hne, rfl, ⟨[], rfl, Or.inr ⟨hpa, rfl⟩⟩, rfl, rfl, rfl, ?_, ?_⟩
    · intro q qa hq
      simp only [List.mem_append, List.mem_singleton] at hq
      rcases hq with h' | h'
      · exact Or.inl h'
      · injection h' with h1 h2; exact Or.inr ⟨h1, h2⟩
    · show SmallMap.get (ps.assignments ++ _) p = _
      have hpa' : SmallMap.get ps.assignments p = none := hpa
      rw [SmallMap.get_append_none hpa']
      simp [SmallMap.get]; rfl
    · intro pa1 g hpa1; rw [hpa] at hpa1; cases hpa1
    · simp


theorem DerivStep.mem_dated {ps ps' : PartialSolution P S V Pr} {p : P} {id : Nat} {t' : Term S}
    {pa' : PackageAssignments S V} (h : DerivStep ps ps' p id t' pa') {dd : DatedDerivation S}
    (hdd : dd ∈ pa'.dated) :
    (∃ pa, ps.getPA p = some pa ∧ dd ∈ pa.dated) ∨
      dd = ⟨ps.nextGlobalIndex, ps.currentDecisionLevel, id, t'⟩ := by
  obtain ⟨old, hold, hc⟩ := h.dated
  rw [hold] at hdd
  rcases List.mem_append.1 hdd with h1 | h1
  · rcases hc with ⟨pa, t0, hpa, _, e, _⟩ | ⟨_, e⟩
    · subst e; exact Or.inl ⟨pa, hpa, h1⟩
    · subst e; cases h1
  · exact Or.inr (List.mem_singleton.1 h1)

/-- lookups and terms before an existing global index are not changed by a derivation -/
theorem DerivStep.transport {ps ps' : PartialSolution P S V Pr} {p : P} {id : Nat} {t' : Term S}
    {pa' : PackageAssignments S V} (h : DerivStep ps ps' p id t' pa') {r : P} {par : PackageAssignments S V}
    (hr : ps.getPA r = some par) {g : Nat} (hg : g ≤ ps.nextGlobalIndex) :
    ∃ par', ps'.getPA r = some par' ∧ par'.termBefore g = par.termBefore g := by
  by_cases hrp : r = p
  · subst hrp; exact ⟨pa', h.getPA_self, h.before par g hr hg⟩
  · exact ⟨par, by rw [h.getPA_ne r hrp]; exact hr, rfl⟩

/-- the invariant after a derivation whose cause has all its other terms satisfied -/
theorem tinv_deriv (W : World P S V M) (root : P) (rv : V) {st st' : State P S V M Pr}
    (hs : SInv W root rv st) (hp : PInv st) (ht : TInv root rv st)
    {ps' : PartialSolution P S V Pr} {p : P} {id : Nat} {t t' : Term S} {pa' : PackageAssignments S V}
    {inc : Incompat P S V M}
    (hstep : DerivStep st.ps ps' p id t' pa') (hinc : st.store[id]? = some inc) (hgett : inc.get p = some t)
    (hnone : st.ps.getPA p = none → t' = t.negate)
    (hnew : ∀ r tr, (r, tr) ∈ inc.terms → r ≠ p → ∃ par, st.ps.getPA r = some par ∧ par.inter.term.Imp tr)
    (hroot : st.ps.currentDecisionLevel = 0 → p = root ∧ st.ps.assignments = [])
    (e1 : st'.ps = ps') (e2 : st'.store = st.store) : TInv root rv st' := by
  have hw := hp.wf
  have hmem' : ∀ q qa, (q, qa) ∈ st'.ps.assignments → (q, qa) ∈ st.ps.assignments ∨ (q = p ∧ qa = pa') := by
    rw [e1]; exact hstep.mem
  have hpaold : ∀ pa, st.ps.getPA p = some pa → (p, pa) ∈ st.ps.assignments := fun pa h => SmallMap.mem_of_get h
  refine ⟨?_, ?_, ?_, ?_⟩
  · -- gmono
    refine gmonoL_extend (p := p) (e := (st.ps.nextGlobalIndex, st.ps.currentDecisionLevel, false)) ht.gmono ?_ ?_
    · intro q qa hq a ha
      obtain ⟨h1, h2⟩ := PartialSolution.events_bound hw hq ha
      exact ⟨h1, h2, fun e => by cases e⟩
    · intro q qa hq
      rcases hmem' q qa hq with h1 | ⟨rfl, rfl⟩
      · exact Or.inl h1
      · refine Or.inr ⟨rfl, ?_⟩
        intro a ha
        rw [PackageAssignments.events_derivations hstep.inter, List.mem_map] at ha
        obtain ⟨dd, hdd, rfl⟩ := ha
        rcases hstep.mem_dated hdd with ⟨pa, hpa, hdd'⟩ | e
        · exact Or.inr ⟨pa, hpaold pa hpa, PackageAssignments.mem_events_dated hdd'⟩
        · subst e; exact Or.inl rfl
  · -- shrink
    intro kv hkv
    obtain ⟨q, qa⟩ := kv
    rcases hmem' q qa hkv with h1 | ⟨rfl, rfl⟩
    · exact ht.shrink _ h1
    · obtain ⟨old, hold, hc⟩ := hstep.dated
      unfold PackageAssignments.Shrink
      rw [hold, List.pairwise_append]
      rcases hc with ⟨pa, t0, hpa, ht0, e, x, hx, et'⟩ | ⟨_, e⟩
      · subst e
        have hpam := hpaold pa hpa
        obtain ⟨i, _, hwf, _⟩ := hw.entry_of_mem hpam
        refine ⟨ht.shrink _ hpam, List.pairwise_singleton _ _, ?_⟩
        intro a ha b hb
        rw [List.mem_singleton] at hb; subst hb
        simp only
        have h1 := PackageAssignments.term_imp_dated hwf (ht.shrink _ hpam) ha
        rw [ht0] at h1; simp only [AssignInter.term] at h1
        have hv0 : t0.Valid := by
          have := (hs.ps _ hpam).inter; rw [ht0] at this; exact this
        rw [et']
        exact Term.Imp.trans (Term.inter_imp_left hv0 hx) h1
      · subst e
        exact ⟨List.Pairwise.nil, List.pairwise_singleton _ _, by intro a ha; cases ha⟩
  · -- cause
    intro q qa hq dd hdd
    -- an existing derivation keeps its witness
    have hold : ∀ qa0, (q, qa0) ∈ st.ps.assignments → dd ∈ qa0.dated →
        ∃ inc : Incompat P S V M, st'.store[dd.cause]? = some inc ∧ (inc.get q).isSome = true ∧
          ∀ r tr, (r, tr) ∈ inc.terms → r ≠ q →
            ∃ par t, st'.ps.getPA r = some par ∧ par.termBefore dd.globalIndex = some t ∧
              t.subsetOf tr = true := by
      intro qa0 hq0 hdd0
      obtain ⟨inc0, h1, h2, h3⟩ := ht.cause q qa0 hq0 dd hdd0
      refine ⟨inc0, by rw [e2]; exact h1, h2, ?_⟩
      intro r tr hr hrq
      obtain ⟨par, t1, g1, g2, g3⟩ := h3 r tr hr hrq
      obtain ⟨i, _, hwf, _⟩ := hw.entry_of_mem hq0
      obtain ⟨par', g4, g5⟩ := hstep.transport g1 (Nat.le_of_lt (hwf.indices_lt dd hdd0))
      exact ⟨par', t1, by rw [e1]; exact g4, by rw [g5]; exact g2, g3⟩
    rcases hmem' q qa hq with h1 | ⟨rfl, rfl⟩
    · exact hold qa h1 hdd
    · rcases hstep.mem_dated hdd with ⟨pa, hpa, hdd'⟩ | e
      · exact hold pa (hpaold pa hpa) hdd'
      · subst e
        refine ⟨inc, by rw [e2]; exact hinc, by rw [hgett]; rfl, ?_⟩
        intro r tr hr hrq
        obtain ⟨par, g1, g2⟩ := hnew r tr hr hrq
        obtain ⟨i, _, hwf, _⟩ := hw.entry_of_getPA g1
        refine ⟨par, par.inter.term, by rw [e1, hstep.getPA_ne r hrq]; exact g1,
          PackageAssignments.termBefore_current hwf (Nat.le_refl _), ?_⟩
        exact Term.subsetOf_of_imp (hs.ps _ (SmallMap.mem_of_get g1)).inter
          ((hs.store id inc hinc).sets r tr hr) g2
  · -- rootinv
    have hr := ht.rootinv
    refine ⟨?_, ?_, ?_, ?_⟩
    · intro h0
      rw [e1, hstep.level] at h0
      obtain ⟨hproot, hempty⟩ := hroot h0
      obtain ⟨g1, g2, g3⟩ := hr.lvl0 h0
      have hst := hr.empty hempty
      refine ⟨by rw [e1, hstep.backtracked]; exact g1, by rw [e2]; exact g2, ?_⟩
      intro kv hkv
      obtain ⟨q, qa⟩ := kv
      rcases hmem' q qa hkv with h1 | ⟨rfl, rfl⟩
      · rw [hempty] at h1; cases h1
      · refine ⟨hproot, ?_⟩
        have hnonep : st.ps.getPA q = none := by
          unfold PartialSolution.getPA; rw [hempty]; rfl
        rw [hstep.inter, hnone hnonep]
        rw [hst] at hinc
        have hid : id = 0 := by
          cases id with
          | zero => rfl
          | succ k => simp at hinc
        subst hid
        simp only [List.getElem?_cons_zero, Option.some.injEq] at hinc
        subst hinc
        rw [hproot] at hgett
        simp only [Incompat.get, Incompat.notRoot, SmallMap.get, if_true, Option.some.injEq] at hgett
        subst hgett
        rfl
    · intro h; rw [e1] at h; exact absurd h hstep.nonempty
    · intro q qa hq dd hdd h0
      rcases hmem' q qa hq with h1 | ⟨rfl, rfl⟩
      · exact hr.dated0 q qa h1 dd hdd h0
      · rcases hstep.mem_dated hdd with ⟨pa, hpa, hdd'⟩ | e
        · exact hr.dated0 q pa (hpaold pa hpa) dd hdd' h0
        · subst e; exact (hroot h0).1
    · intro q qa hq g v t0 hinter hh
      rcases hmem' q qa hq with h1 | ⟨rfl, rfl⟩
      · exact hr.first q qa h1 g v t0 hinter hh
      · rw [hstep.inter] at hinter; cases hinter

/-! ### a decision -/

/-- what a decision does to the partial solution -/
structure DecStep (ps ps' : PartialSolution P S V Pr) (p : P) (pa' : PackageAssignments S V) : Prop where
  mem : ∀ q qa, (q, qa) ∈ ps'.assignments → (q, qa) ∈ ps.assignments ∨ (q = p ∧ qa = pa')
  mem_new : (p, pa') ∈ ps'.assignments
  getPA_self : ps'.getPA p = some pa'
  getPA_ne : ∀ q, q ≠ p → ps'.getPA q = ps.getPA q
  level : ps'.currentDecisionLevel = ps.currentDecisionLevel + 1
  next : ps'.nextGlobalIndex = ps.nextGlobalIndex + 1
  backtracked : ps'.hasEverBacktracked = ps.hasEverBacktracked

theorem PartialSolution.addDecision_step {ps ps' : PartialSolution P S V Pr} {debug : Bool} {p : P} {v : V}
    (h : ps.WF) (hr : PartialSolution.addDecision debug ps p v = .ok ps') (h' : ps'.WF)
    {t : Term S} {pa : PackageAssignments S V} (hpa : ps.getPA p = some pa) (ht : pa.inter = .derivations t) :
    DecStep ps ps' p (pa.decide ps.currentDecisionLevel ps.nextGlobalIndex v) := by
  obtain ⟨oldIdx, hget, hge, e1, e2, e3, e4, e5, hk⟩ := PartialSolution.addDecision_spec h hr hpa ht
  have hmem : ∀ q qa, (q, qa) ∈ ps'.assignments → (q, qa) ∈ ps.assignments ∨
      (q = p ∧ qa = pa.decide ps.currentDecisionLevel ps.nextGlobalIndex v) := by
    intro q qa hq
    obtain ⟨k, hk'⟩ := List.getElem?_of_mem hq
    rw [hk] at hk'
    split at hk'
    · injection hk' with hk'; injection hk' with h1 h2
      exact Or.inr ⟨h1.symm, h2.symm⟩
    · split at hk'
      · exact Or.inl (List.mem_of_getElem? hk')
      · exact Or.inl (List.mem_of_getElem? hk')
  have hnew : (p, pa.decide ps.currentDecisionLevel ps.nextGlobalIndex v) ∈ ps'.assignments := by
    apply List.mem_of_getElem? (i := ps.currentDecisionLevel)
    rw [hk, if_pos rfl]
  have hback : ∀ q qa, (q, qa) ∈ ps.assignments → q ≠ p → (q, qa) ∈ ps'.assignments := by
    intro q qa hq hqp
    obtain ⟨j, hj⟩ := List.getElem?_of_mem hq
    have hjo : j ≠ oldIdx := by
      intro e; subst e; rw [hget] at hj; injection hj with hj; injection hj with hj; exact hqp hj.symm
    by_cases hjd : j = ps.currentDecisionLevel
    · subst hjd
      apply List.mem_of_getElem? (i := oldIdx)
      rw [hk, if_neg (fun e => hjo e.symm), if_pos rfl]; exact hj
    · apply List.mem_of_getElem? (i := j)
      rw [hk, if_neg hjd, if_neg hjo]; exact hj
  refine ⟨hmem, hnew, SmallMap.get_of_mem h'.keys hnew, ?_, e1, e2, e5⟩
  intro q hqp
  cases hg : ps.getPA q with
  | some qa => exact SmallMap.get_of_mem h'.keys (hback q qa (SmallMap.mem_of_get hg) hqp)
  | none =>
    cases hg' : ps'.getPA q with
    | none => rfl
    | some qa' =>
      rcases hmem q qa' (SmallMap.mem_of_get hg') with h1 | ⟨h1, _⟩
      · have := SmallMap.get_of_mem h.keys h1
        unfold PartialSolution.getPA at hg
        rw [hg] at this; cases this
      · exact absurd h1 hqp

/-- the invariant after a decision for a version inside the term of the package -/
theorem tinv_decision (W : World P S V M) (root : P) (rv : V) {st st' : State P S V M Pr}
    (hs : SInv W root rv st) (hp : PInv st) (ht : TInv root rv st)
    {ps' : PartialSolution P S V Pr} {debug : Bool} {p : P} {v : V} {t : Term S} {pa : PackageAssignments S V}
    (hr : PartialSolution.addDecision debug st.ps p v = .ok ps') (hw' : ps'.WF)
    (hpa : st.ps.getPA p = some pa) (hinter : pa.inter = .derivations t) (hv : t.contains v = true)
    (e1 : st'.ps = ps')
    (e2 : ∀ (i : Nat) (inc : Incompat P S V M), st.store[i]? = some inc → st'.store[i]? = some inc) :
    TInv root rv st' := by
  have hw := hp.wf
  have hstep := PartialSolution.addDecision_step hw.wf hr hw' hpa hinter
  have hpam : (p, pa) ∈ st.ps.assignments := SmallMap.mem_of_get hpa
  have hmem' : ∀ q qa, (q, qa) ∈ st'.ps.assignments → (q, qa) ∈ st.ps.assignments ∨
      (q = p ∧ qa = pa.decide st.ps.currentDecisionLevel st.ps.nextGlobalIndex v) := by
    rw [e1]; exact hstep.mem
  have htrans : ∀ r par g, st.ps.getPA r = some par → g ≤ st.ps.nextGlobalIndex →
      ∃ par', st'.ps.getPA r = some par' ∧ par'.termBefore g = par.termBefore g := by
    intro r par g hr' hg
    rw [e1]
    by_cases hrp : r = p
    · subst hrp
      rw [hpa] at hr'; injection hr' with hr'; subst hr'
      exact ⟨_, hstep.getPA_self, PackageAssignments.termBefore_decide hinter _ _ _ hg⟩
    · exact ⟨par, by rw [hstep.getPA_ne r hrp]; exact hr', rfl⟩
  refine ⟨?_, ?_, ?_, ?_⟩
  · refine gmonoL_extend (p := p) (e := (st.ps.nextGlobalIndex, st.ps.currentDecisionLevel + 1, true))
      ht.gmono ?_ ?_
    · intro q qa hq a ha
      obtain ⟨h1, h2⟩ := PartialSolution.events_bound hw hq ha
      exact ⟨h1, by simp only; omega, fun _ => by simp only; omega⟩
    · intro q qa hq
      rcases hmem' q qa hq with h1 | ⟨rfl, rfl⟩
      · exact Or.inl h1
      · refine Or.inr ⟨rfl, ?_⟩
        intro a ha
        unfold PackageAssignments.events PackageAssignments.decide at ha
        simp only [List.mem_append, List.mem_singleton] at ha
        rcases ha with ha | ha
        · refine Or.inr ⟨pa, hpam, ?_⟩
          unfold PackageAssignments.events
          exact List.mem_append_left _ ha
        · exact Or.inl ha
  · intro kv hkv
    obtain ⟨q, qa⟩ := kv
    rcases hmem' q qa hkv with h1 | ⟨rfl, rfl⟩
    · exact ht.shrink _ h1
    · exact ht.shrink (q, pa) hpam
  · intro q qa hq dd hdd
    have hold : ∀ qa0, (q, qa0) ∈ st.ps.assignments → dd ∈ qa0.dated →
        ∃ inc : Incompat P S V M, st'.store[dd.cause]? = some inc ∧ (inc.get q).isSome = true ∧
          ∀ r tr, (r, tr) ∈ inc.terms → r ≠ q →
            ∃ par t, st'.ps.getPA r = some par ∧ par.termBefore dd.globalIndex = some t ∧
              t.subsetOf tr = true := by
      intro qa0 hq0 hdd0
      obtain ⟨inc0, h1, h2, h3⟩ := ht.cause q qa0 hq0 dd hdd0
      refine ⟨inc0, e2 _ _ h1, h2, ?_⟩
      intro r tr hr' hrq
      obtain ⟨par, t1, g1, g2, g3⟩ := h3 r tr hr' hrq
      obtain ⟨i, _, hwf, _⟩ := hw.entry_of_mem hq0
      obtain ⟨par', g4, g5⟩ := htrans r par _ g1 (Nat.le_of_lt (hwf.indices_lt dd hdd0))
      exact ⟨par', t1, g4, by rw [g5]; exact g2, g3⟩
    rcases hmem' q qa hq with h1 | ⟨rfl, rfl⟩
    · exact hold qa h1 hdd
    · exact hold pa hpam hdd
  · have hr0 := ht.rootinv
    refine ⟨?_, ?_, ?_, ?_⟩
    · intro h0; rw [e1, hstep.level] at h0; omega
    · intro h; rw [e1] at h
      have := hstep.mem_new; rw [h] at this; cases this
    · intro q qa hq dd hdd h0
      rcases hmem' q qa hq with h1 | ⟨rfl, rfl⟩
      · exact hr0.dated0 q qa h1 dd hdd h0
      · exact hr0.dated0 q pa hpam dd hdd h0
    · intro q qa hq g v' t0 hint hh
      rcases hmem' q qa hq with h1 | ⟨rfl, rfl⟩
      · exact hr0.first q qa h1 g v' t0 hint hh
      · simp only [PackageAssignments.decide] at hint hh
        injection hint with _ hv' _
        subst hv'
        have h0 : st.ps.currentDecisionLevel = 0 := by omega
        obtain ⟨_, _, g3⟩ := hr0.lvl0 h0
        obtain ⟨g4, g5⟩ := g3 _ hpam
        refine ⟨g4, ?_⟩
        simp only at g5
        rw [hinter] at g5; injection g5 with g5; subst g5
        exact (LawfulVersionSet.contains_singleton (S := S) rv v).1 hv

end
end Pubgrub

/-
Property C17 — VersionSet provided methods are correct and the solver is generic over them.

(a) For ANY implementation whose five required methods behave as set operations with canonical
equality (`LawfulRequired`), the trait's provided bodies of `full`, `union`, `is_disjoint`, `subset_of`
(`VersionSet.Default.*`, transcribed from `/repo/src/version_set.rs`) compute the universe, the union,
emptiness of the intersection and inclusion.  Instantiated for the finite bit set (the custom
implementation the harness runs through the real `resolve`) and for `Range` (which overrides them).
(b) "resolve gives the guarantees C01–C05 with such an implementation exactly as with Range": the
solver model never mentions `Range`; every solver theorem (C02, C03, C06, C12, C13 …) is stated for an
arbitrary `LawfulVersionSet`, and `lawful_ofRequired` turns a `LawfulRequired` implementation into
one.  So this clause holds to exactly the extent C01–C05 are proved (see their files).
-/
import PubgrubProofs.VSetInstances

set_option linter.unusedSectionVars false
set_option warn.classDefReducibility false
namespace Pubgrub.C17
open Pubgrub

variable {S V : Type} [DecidableEq S]

/-- (a) the four provided methods -/
theorem C17_provided (empty : S) (singleton : V → S) (complement : S → S)
    (intersection : S → S → S) (contains : S → V → Bool)
    (R : @LawfulRequired S V (VersionSet.ofRequired empty singleton complement intersection contains)) :
    (∀ v : V, contains (VersionSet.Default.full empty complement) v = true) ∧
    (∀ a b : S, R.Valid a → R.Valid b → ∀ v : V,
      contains (VersionSet.Default.union complement intersection a b) v = (contains a v || contains b v)) ∧
    (∀ a b : S, R.Valid a → R.Valid b →
      (VersionSet.Default.isDisjoint empty intersection a b = true ↔
        ∀ v : V, ¬ (contains a v = true ∧ contains b v = true))) ∧
    (∀ a b : S, R.Valid a → R.Valid b →
      (VersionSet.Default.subsetOf intersection a b = true ↔
        ∀ v : V, contains a v = true → contains b v = true)) :=
  ⟨C17_full empty singleton complement intersection contains R,
   fun a b ha hb v => C17_union empty singleton complement intersection contains R a b ha hb v,
   fun a b ha hb => C17_isDisjoint empty singleton complement intersection contains R a b ha hb,
   fun a b ha hb => C17_subsetOf empty singleton complement intersection contains R a b ha hb⟩

/-- (b) such an implementation is a lawful version set in the sense every solver theorem assumes -/
def C17_lawful (empty : S) (singleton : V → S) (complement : S → S)
    (intersection : S → S → S) (contains : S → V → Bool)
    (R : @LawfulRequired S V (VersionSet.ofRequired empty singleton complement intersection contains)) :
    @LawfulVersionSet S V (VersionSet.ofRequired empty singleton complement intersection contains) :=
  lawful_ofRequired empty singleton complement intersection contains R

/-- the bit set over `Fin n` is such an implementation -/
def C17_bitset_lawful (n : Nat) : @LawfulVersionSet (BitSet n) (Fin n) (BitSet.instVersionSetBitSetFin n) :=
  BitSet.lawful n

/-- `Range` over a dense order without end points is one too (with its overriding sweeps) -/
def C17_range_lawful {V : Type} [LinearOrder V] [DenselyOrdered V] [NoMinOrder V] [NoMaxOrder V]
    [Nonempty V] : LawfulVersionSet (Range V) V := Range.lawful

end Pubgrub.C17

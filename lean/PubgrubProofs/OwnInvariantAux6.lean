/-
Helpers for `OwnInvariant.lean`, part 6: unit propagation and conflict resolution preserve the semantic
bundle; the clauses of the package for which `unitPropagation` is called are examined first, which
discharges the obligations waived at its decision.
-/
import PubgrubProofs.OwnInvariantAux5

set_option linter.unusedSectionVars false
set_option linter.unusedVariables false

namespace Pubgrub
open VersionSet

section Lawful
variable {P S V M Pr : Type} [DecidableEq P] [VersionSet S V] [DecidableEq S] [LawfulVersionSet S V]

/-- discharging the pending obligation of the id at the head of the list -/
theorem Sem.discharge (W : World P S V M) (root : P) (rv : V) {st : State P S V M Pr}
    {cur : P} {id : Nat} {rest : List Nat}
    (h : Sem W root rv st (fun p i => p = cur ∧ i ∈ id :: rest))
    (hd : ∀ pa g v t inc, st.ps.getPA cur = some pa → pa.inter = .decision g v t →
      st.store[id]? = some inc → inc.OwnedBy cur → id ∈ st.indexOf cur →
      inc.SContra (st.ps.termsAt st.ps.currentDecisionLevel)) :
    Sem W root rv st (fun p i => p = cur ∧ i ∈ rest) := by
  refine ⟨h.sinv, h.pinv, ?_, h.cache, h.rootc, h.idxb⟩
  intro p pa g v t e1 e2 l l1 l2 i hi inc hinc ho hwv
  by_cases hc : l = st.ps.currentDecisionLevel ∧ p = cur ∧ i = id
  · obtain ⟨rfl, rfl, rfl⟩ := hc
    exact hd pa g v t inc e1 e2 hinc ho hi
  · apply h.own p pa g v t e1 e2 l l1 l2 i hi inc hinc ho
    rintro hl ⟨hp, hmem⟩
    rcases List.mem_cons.1 hmem with rfl | hmem
    · exact hc ⟨hl, hp, rfl⟩
    · exact hwv hl ⟨hp, hmem⟩

/-- the store only grows at its end -/
def StorePrefix (st st' : State P S V M Pr) : Prop :=
  ∀ (i : Nat) (x : Incompat P S V M), st.store[i]? = some x → st'.store[i]? = some x

theorem StorePrefix.refl (st : State P S V M Pr) : StorePrefix st st := fun _ _ h => h

theorem StorePrefix.of_eq {st st' : State P S V M Pr} (h : st'.store = st.store) : StorePrefix st st' :=
  fun _ _ hx => by rw [h]; exact hx

theorem StorePrefix.trans {a b c : State P S V M Pr} (h1 : StorePrefix a b) (h2 : StorePrefix b c) :
    StorePrefix a c := fun i x hx => h2 i x (h1 i x hx)

/-- no new decisions: every package decided in `st'` was decided in `st`, at the same version -/
def DecSub (st st' : State P S V M Pr) : Prop :=
  ∀ (p : P) (pa : PackageAssignments S V) (g : Nat) (v : V) (t : Term S),
    st'.ps.getPA p = some pa → pa.inter = .decision g v t →
    ∃ pa0 g0 t0, st.ps.getPA p = some pa0 ∧ pa0.inter = .decision g0 v t0

theorem DecSub.of_eq {st st' : State P S V M Pr} (h : st'.ps = st.ps) : DecSub st st' :=
  fun p pa g v t e1 e2 => ⟨pa, g, t, h ▸ e1, e2⟩

theorem DecSub.trans {a b c : State P S V M Pr} (h1 : DecSub a b) (h2 : DecSub b c) : DecSub a c := by
  intro p pa g v t e1 e2
  obtain ⟨pa0, g0, t0, e3, e4⟩ := h2 p pa g v t e1 e2
  exact h1 p pa0 g0 v t0 e3 e4

/-- the store grows at its end and no decision is added -/
structure Grow (st st' : State P S V M Pr) : Prop where
  store : StorePrefix st st'
  dec : DecSub st st'

theorem Grow.refl (st : State P S V M Pr) : Grow st st := ⟨StorePrefix.refl st, DecSub.of_eq rfl⟩

theorem Grow.trans {a b c : State P S V M Pr} (h1 : Grow a b) (h2 : Grow b c) : Grow a c :=
  ⟨h1.store.trans h2.store, h1.dec.trans h2.dec⟩

theorem Grow.of_eq {st st' : State P S V M Pr} (h1 : st'.store = st.store) (h2 : st'.ps = st.ps) :
    Grow st st' := ⟨StorePrefix.of_eq h1, DecSub.of_eq h2⟩

theorem Grow.derive {st : State P S V M Pr} {q : P} {cause : Nat} {ps : PartialSolution P S V Pr}
    {b : List P} {c : List (Nat × Nat)} (hw : st.ps.WF')
    (hps : st.ps.addDerivation q cause st.store = .ok ps) :
    Grow st { st with buffer := b, ps := ps, contradicted := c } := by
  refine ⟨fun _ _ hx => hx, ?_⟩
  intro p' pa' g' v' t' e1 e2
  exact ⟨pa', g', t', PartialSolution.addDerivation_decided hw hps e1 e2, e2⟩

namespace State

/-- the loop over the incompatibilities of the current package: each examined id gets excluded at the
current level (or the loop stops on a conflict) -/
theorem propagateIncompats_sem (W : World P S V M) (root : P) (rv : V) (cur : P) :
    ∀ (ids : List Nat) (st : State P S V M Pr) {st' : State P S V M Pr} {r : Option Nat},
    propagateIncompats st ids = .ok (st', r) →
    Sem W root rv st (fun p i => p = cur ∧ i ∈ ids) →
    (∃ rest', Sem W root rv st' (fun p i => p = cur ∧ i ∈ rest') ∧ (r = none → rest' = [])) ∧
      st'.store = st.store ∧ st'.incompatibilities = st.incompatibilities ∧ DecSub st st' := by
  intro ids
  induction ids with
  | nil =>
    intro st st' r hr h
    simp only [propagateIncompats] at hr
    injection hr with hr; injection hr with h1 h2; subst h1
    exact ⟨⟨[], h, fun _ => rfl⟩, rfl, rfl, DecSub.of_eq rfl⟩
  | cons id rest ih =>
    intro st st' r hr h
    have hw := h.pinv.wf.wf
    have htop := PartialSolution.termsAt_top hw (Nat.le_refl _)
    unfold propagateIncompats at hr
    split at hr
    · -- cached
      rename_i hck
      apply ih _ hr
      apply Sem.discharge W root rv h
      intro pa g v t inc _ _ hinc _ _
      unfold SmallMap.containsKey at hck
      cases hg : SmallMap.get st.contradicted id with
      | none => rw [hg] at hck; cases hck
      | some l0 =>
        obtain ⟨hl0, hc⟩ := h.cache id l0 (SmallMap.mem_of_get hg)
        exact hc inc hinc _ hl0 (Nat.le_refl _)
    split at hr
    · cases hr
    rename_i inc hinc
    have hinc' := storeGet_ok hinc
    have ginc := h.sinv.store id inc hinc'
    split at hr
    · -- satisfied: conflict
      injection hr with hr; injection hr with h1 h2; subst h1; subst h2
      exact ⟨⟨id :: rest, h, fun e => by cases e⟩, rfl, rfl, DecSub.of_eq rfl⟩
    · -- almost satisfied
      split at hr
      · cases hr
      rename_i q ps hps
      obtain ⟨hA, hB, hC, hD⟩ := ih _ hr (Sem.derive W root rv _ h hps)
      refine ⟨hA, hB, hC, DecSub.trans ?_ hD⟩
      intro p' pa' g' v' t' e1 e2
      exact ⟨pa', g', t', PartialSolution.addDerivation_decided h.pinv.wf hps e1 e2, e2⟩
    · -- contradicted
      rename_i q hrel
      have hc : inc.SContra st.ps.terms :=
        Incompat.sContra_of_relation ginc.sets (PartialSolution.terms_valid h.sinv.ps) hrel
      obtain ⟨hA, hB, hC, hD⟩ := ih _ hr (Sem.cacheInsert W root rv h hinc' hc)
      exact ⟨hA, hB, hC, DecSub.trans (DecSub.of_eq rfl) hD⟩
    · -- inconclusive: impossible for an owned clause of a decided package
      rename_i hrel
      apply ih _ hr
      apply Sem.discharge W root rv h
      intro pa g v t inc2 hpa hd hinc2 ho _
      rw [hinc'] at hinc2; injection hinc2 with hinc2; subst hinc2
      exfalso
      exact Incompat.owned_ne_inconclusive W root rv ginc ho st.ps.terms
        (PartialSolution.terms_of_decided hw hpa hd).1 hrel

end State

namespace PartialSolution

/-- the level `satisfier_search` asks to backtrack to is strictly below the current one -/
theorem satisfierSearch_level_lt {ps : PartialSolution P S V Pr} (h : ps.WF') {inc : Incompat P S V M}
    {store : List (Incompat P S V M)} {pkg : P} {prev : Nat}
    (hr : ps.satisfierSearch inc store = .ok (pkg, .differentDecisionLevels prev)) :
    prev < ps.currentDecisionLevel := by
  unfold satisfierSearch at hr
  simp only [bind, Except.bind, pure, Except.pure] at hr
  split at hr
  · cases hr
  rename_i m hm
  split at hr
  · cases hr
  rename_i y hy
  obtain ⟨sp, sc, sg, sdl⟩ := y
  simp only at hr
  split at hr
  · cases hr
  rename_i prev' hprev
  have hmem := maxByIndex_mem _ _ (unwrapOr_ok hy)
  have hlev := findSatisfier_level h inc.terms [] m (by intro kv hkv; cases hkv) hm _ hmem
  simp only at hlev
  split at hr
  · split at hr
    · cases hr
    · injection hr with hr; injection hr with _ hr; cases hr
  · rename_i hlt
    injection hr with hr; injection hr with _ hr; injection hr with hr; subst hr
    omega

end PartialSolution

theorem Incompat.priorCause_kind {id1 id2 : Nat} {ia ib : Incompat P S V M} {p : P} {r : Incompat P S V M}
    (h : Incompat.priorCause id1 id2 ia ib p = .ok r) : r.kind = .derivedFrom id1 id2 := by
  unfold Incompat.priorCause at h
  simp only [bind, Except.bind, pure, Except.pure] at h
  split at h
  · cases h
  split at h
  · cases h
  injection h with h; subst h; rfl

namespace State

theorem IndexComplete.congr {st st' : State P S V M Pr} (h : st.IndexComplete)
    (hs : st'.store = st.store) (hi : st'.incompatibilities = st.incompatibilities) :
    st'.IndexComplete := by
  rw [State.indexComplete_iff] at h ⊢
  intro id inc hinc
  rw [hs] at hinc
  exact State.Rep.mono (h id inc hinc) (fun i x hx => by rw [hs]; exact hx)
    (fun p i hi' => by unfold State.indexOf at hi' ⊢; rw [hi]; exact hi')

/-- `State.backtrack` to a level strictly below the current one -/
theorem backtrack_sem (W : World P S V M) (root : P) (rv : V) {st st' : State P S V M Pr}
    {waive : P → Nat → Prop} {incompat : Nat} {changed : Bool} {dl : Nat}
    (hr : st.backtrack incompat changed dl = .ok st') (h : Sem W root rv st waive)
    (hic : st.IndexComplete) (hdl : dl < st.ps.currentDecisionLevel)
    (hch : changed = true → ∃ inc a b, st.store[incompat]? = some inc ∧ inc.kind = .derivedFrom a b) :
    Sem W root rv st' noWaive ∧ st'.IndexComplete ∧ Grow st st' := by
  unfold State.backtrack at hr
  simp only [bind, Except.bind, pure, Except.pure] at hr
  split at hr
  · cases hr
  rename_i ps hps
  have h1 := Sem.backtrackPS W root rv h hdl hps
  have hic1 : State.IndexComplete
      ({ st with ps := ps, contradicted := SmallMap.retainVals st.contradicted (fun l => l ≤ dl) } :
        State P S V M Pr) :=
    hic.congr rfl rfl
  have hdec1 : DecSub st
      ({ st with ps := ps, contradicted := SmallMap.retainVals st.contradicted (fun l => l ≤ dl) } :
        State P S V M Pr) := by
    intro p pa g v t e1 e2
    exact ⟨pa, g, t, (PartialSolution.backtrack_decided h.pinv.wf.wf hps e1 e2).1, e2⟩
  split at hr
  · rename_i hc
    obtain ⟨inc, a, b, hinc, hk⟩ := hch hc
    obtain ⟨h2, _, h3⟩ := mergeIncompatibility_icx W root rv hr h1.sinv.store
      (State.icx_of_indexComplete hic1 0 0) (Nat.zero_le _)
    have hps2 := (mergeIncompatibility_pinv hr h1.pinv).2
    refine ⟨mergeIncompatibility_sem W root rv hr h1 ?_, State.indexComplete_of_icx h2 (Nat.le_refl _),
      ⟨h3, hdec1.trans (DecSub.of_eq hps2)⟩⟩
    intro inc' hinc' p ho
    simp only at hinc'
    rw [hinc] at hinc'; injection hinc' with hinc'; subst hinc'
    unfold Incompat.OwnedBy at ho; rw [hk] at ho; exact ho.elim
  · injection hr with hr; subst hr; exact ⟨h1, hic1, ⟨fun _ _ hx => hx, hdec1⟩⟩

theorem conflictResolution_sem (W : World P S V M) (root : P) (rv : V) :
    ∀ (fuel : Nat) (st : State P S V M Pr) (cur : Nat) (changed : Bool)
      {st' : State P S V M Pr} {r : Except Nat (P × Nat)} {waive : P → Nat → Prop},
    conflictResolution fuel st cur changed = .ok (st', r) → Sem W root rv st waive →
    st.IndexComplete →
    (changed = true → ∃ inc a b, st.store[cur]? = some inc ∧ inc.kind = .derivedFrom a b) →
    ∀ x, r = .ok x → Sem W root rv st' noWaive ∧ st'.IndexComplete ∧ Grow st st' := by
  intro fuel
  induction fuel with
  | zero => intro st cur changed st' r waive hr; simp [conflictResolution] at hr
  | succ fuel ih =>
    intro st cur changed st' r waive hr h hic hch x hx
    unfold conflictResolution at hr
    simp only [bind, Except.bind, pure, Except.pure] at hr
    split at hr
    · cases hr
    rename_i inc hinc
    split at hr
    · injection hr with hr; injection hr with h1 h2; subst h1; subst h2
      cases hx
    · split at hr
      · cases hr
      rename_i ps hss
      split at hr
      · rename_i prev hsearch
        split at hr
        · cases hr
        rename_i st1 hb
        injection hr with hr; injection hr with h1 h2; subst h1; subst h2
        have hlev : prev < st.ps.currentDecisionLevel := by
          apply PartialSolution.satisfierSearch_level_lt h.pinv.wf (inc := inc) (store := st.store) (pkg := ps.1)
          rw [hss]
          obtain ⟨a, b⟩ := ps
          simp only at hsearch
          rw [hsearch]
        exact backtrack_sem W root rv hb h hic hlev hch
      · rename_i satisfierCause _
        split at hr
        · cases hr
        rename_i causeInc hcause
        split at hr
        · cases hr
        rename_i prior hprior
        have hk := Incompat.priorCause_kind hprior
        have hgood : StoreInv W root rv (st.store ++ [prior]) := by
          apply storeInv_push W root rv st.store prior h.sinv.store
          exact Incompat.priorCause_good W root rv st.store cur satisfierCause inc causeInc
            (storeGet_ok hinc) (storeGet_ok hcause) (h.sinv.store _ _ (storeGet_ok hinc))
            (h.sinv.store _ _ (storeGet_ok hcause)) ps.1 prior hprior st.store.length
            (storeGet_lt hinc) (storeGet_lt hcause)
        have hpre : Grow st ({ st with store := st.store ++ [prior] } : State P S V M Pr) := by
          refine ⟨?_, DecSub.of_eq rfl⟩
          intro i y hy
          show (st.store ++ [prior])[i]? = some y
          rw [List.getElem?_append_left (List.getElem?_eq_some_iff.1 hy).1]; exact hy
        have hrec := ih _ _ _ hr (Sem.storeAppend W root rv h [prior] hgood) ?_ ?_ x hx
        · exact ⟨hrec.1, hrec.2.1, hpre.trans hrec.2.2⟩
        · exact State.indexComplete_of_icx
            (State.ICx.storePush (State.icx_of_indexComplete hic 0 0) prior ⟨_, _, hk⟩) (Nat.le_refl _)
        · intro _
          refine ⟨prior, _, _, ?_, hk⟩
          show (st.store ++ [prior])[st.store.length]? = some prior
          rw [List.getElem?_append_right (Nat.le_refl _)]; simp

/-- the propagation loop: the obligations of the package on top of the buffer may be pending -/
theorem unitPropagationLoop_sem (W : World P S V M) (root : P) (rv : V) :
    ∀ (fuel : Nat) (st : State P S V M Pr) {st' : State P S V M Pr},
    unitPropagationLoop fuel st = .ok (st', none) →
    Sem W root rv st (fun p _ => st.buffer.getLast? = some p) → st.IndexComplete →
    Sem W root rv st' noWaive ∧ st'.IndexComplete ∧ Grow st st' := by
  intro fuel
  induction fuel with
  | zero => intro st st' hr; simp [unitPropagationLoop] at hr
  | succ fuel ih =>
    intro st st' hr h hic
    unfold unitPropagationLoop at hr
    split at hr
    · rename_i hnone
      injection hr with hr; injection hr with h1 h2; subst h1
      refine ⟨Sem.reWaive W root rv h ?_, hic, Grow.refl _⟩
      intro p id _ hw
      rw [hnone] at hw; cases hw
    rename_i current hcur
    simp only at hr
    split at hr
    · cases hr
    rename_i ids hids
    -- the state after the pop, with the obligations of `current` pending
    have h0 : Sem W root rv ({ st with buffer := st.buffer.dropLast } : State P S V M Pr)
        (fun p i => p = current ∧ i ∈ ids.reverse) := by
      apply Sem.reWaive W root rv (Sem.setBuffer W root rv h st.buffer.dropLast)
      intro p id hid hw
      rw [hcur] at hw; injection hw with hw; subst hw
      refine ⟨rfl, ?_⟩
      have : State.indexOf ({ st with buffer := st.buffer.dropLast } : State P S V M Pr) current = ids := by
        unfold State.indexOf
        simp only at hids ⊢
        rw [hids]; rfl
      rw [this] at hid
      exact List.mem_reverse.2 hid
    have hic0 : State.IndexComplete ({ st with buffer := st.buffer.dropLast } : State P S V M Pr) :=
      hic.congr rfl rfl
    split at hr
    · cases hr
    · rename_i st1 hp
      obtain ⟨⟨rest', h1, hrest⟩, e1, e2, e3⟩ := propagateIncompats_sem W root rv current _ _ hp h0
      have := hrest rfl
      subst this
      have hrec := ih _ hr (Sem.reWaive W root rv h1 (fun p id _ hw => absurd hw.2 (by simp)))
        (hic0.congr e1 e2)
      exact ⟨hrec.1, hrec.2.1, Grow.trans ⟨StorePrefix.of_eq (st := st) e1, e3⟩ hrec.2.2⟩
    · rename_i st1 conflictId hp
      obtain ⟨⟨rest', h1, _⟩, e1, e2, e3⟩ := propagateIncompats_sem W root rv current _ _ hp h0
      have hic1 : st1.IndexComplete := hic0.congr e1 e2
      split at hr
      · cases hr
      · injection hr with hr; injection hr with _ hr; cases hr
      · rename_i st2 packageAlmost rootCause hc
        obtain ⟨h2, hic2, hpre2⟩ := conflictResolution_sem W root rv _ _ _ _ hc h1 hic1
          (by intro e; cases e) _ rfl
        split at hr
        · cases hr
        rename_i ps hps
        have h2' : Sem W root rv st2 (fun p i => p = packageAlmost ∧ i ∈ rootCause :: []) :=
          Sem.reWaive W root rv h2 (fun _ _ _ hw => hw.elim)
        have h3 := Sem.derive W root rv [packageAlmost] h2' hps
        have hrec := ih _ hr (Sem.reWaive W root rv h3 (fun p id _ hw => absurd hw.2 (by simp)))
          (hic2.congr rfl rfl)
        have hg3 := Grow.derive (b := [packageAlmost])
          (c := SmallMap.insert st2.contradicted rootCause ps.currentDecisionLevel) h2.pinv.wf hps
        exact ⟨hrec.1, hrec.2.1,
          ((Grow.trans ⟨StorePrefix.of_eq (st := st) e1, e3⟩ hpre2).trans hg3).trans hrec.2.2⟩

/-- `unit_propagation(p)` without conflict: the obligations of `p` waived at its decision are
discharged, the full invariant holds -/
theorem unitPropagation_sem (W : World P S V M) (root : P) (rv : V)
    {fuel : Nat} {st st' : State P S V M Pr} {p : P}
    (hr : unitPropagation fuel st p = .ok (st', none))
    (h : Sem W root rv st (fun p' _ => p' = p)) (hic : st.IndexComplete) :
    Sem W root rv st' noWaive ∧ st'.IndexComplete ∧ Grow st st' := by
  unfold unitPropagation at hr
  have hres := unitPropagationLoop_sem W root rv _ _ hr
    (Sem.reWaive W root rv (Sem.setBuffer W root rv h [p]) (fun p' id _ hw => by subst hw; rfl))
    (hic.congr rfl rfl)
  exact ⟨hres.1, hres.2.1, (Grow.of_eq (st := st) (st' := { st with buffer := [p] }) rfl rfl).trans hres.2.2⟩

end State
end Lawful
end Pubgrub

//! Solver layer: registries, recording / fault-injecting providers, one `solve` request =
//! one run of the real `resolve`, its canonical transcript, and the direct oracles of
//! C01–C06, C12–C14, C17 on the real result.
use crate::cases::Case;
use crate::hset::HSet;
use crate::util::*;
use pubgrub::{
    resolve, Dependencies, DependencyProvider, DerivationTree, External, Map, PubGrubError, Term,
};
use std::cell::{Cell, RefCell};
use std::collections::{BTreeMap, BTreeSet};
use std::rc::Rc;

// ------------------------------------------------------------------ registry

#[derive(Clone, Debug)]
pub struct Registry<VS: HSet> {
    /// (package, version) -> None (dependencies unavailable, with a reason) or the dependency list
    pub entries: BTreeMap<(String, u32), Result<Vec<(String, VS)>, String>>,
}

impl<VS: HSet> Registry<VS> {
    pub fn packages(&self) -> Vec<String> {
        let mut s: BTreeSet<String> = BTreeSet::new();
        for ((p, _), d) in &self.entries {
            s.insert(p.clone());
            if let Ok(ds) = d {
                for (q, _) in ds {
                    s.insert(q.clone());
                }
            }
        }
        s.into_iter().collect()
    }
    pub fn versions(&self, p: &str) -> Vec<u32> {
        self.entries.keys().filter(|(q, _)| q == p).map(|(_, v)| *v).collect()
    }
    pub fn to_text(&self) -> String {
        self.entries
            .iter()
            .map(|((p, v), d)| match d {
                Err(m) => format!("{}@{}:!{}", p, v, m),
                Ok(ds) => format!(
                    "{}@{}:{}",
                    p,
                    v,
                    ds.iter().map(|(q, s)| format!("{}={}", q, s.to_machine())).collect::<Vec<_>>().join(",")
                ),
            })
            .collect::<Vec<_>>()
            .join(";")
    }
    pub fn from_text(s: &str) -> Self {
        let mut entries = BTreeMap::new();
        for e in s.split(';') {
            if e.is_empty() {
                continue;
            }
            let (pv, rest) = e.split_once(':').expect("entry");
            let (p, v) = pv.split_once('@').expect("p@v");
            let val = if let Some(m) = rest.strip_prefix('!') {
                Err(m.to_string())
            } else if rest.is_empty() {
                Ok(vec![])
            } else {
                Ok(rest
                    .split(',')
                    .map(|d| {
                        let (q, s) = d.split_once('=').expect("dep");
                        (q.to_string(), VS::from_machine(s))
                    })
                    .collect())
            };
            entries.insert((p.to_string(), v.parse().unwrap()), val);
        }
        Registry { entries }
    }
}

// ------------------------------------------------------------------ strategies

#[derive(Clone, Debug, PartialEq)]
pub enum Strat {
    NewestFewest,
    OldestFewest,
    Const,
    ByName,
    SetDep,
    Random(u64),
    /// packages in alphabetical order of their names; newest version
    Alphabetical,
    /// package `x` (the first layer of a layered registry) first, then the packages named `f_…`, then
    /// fewest versions first; newest version: a conflict in the deeper layers backjumps over all fillers
    FillersFirst,
}
impl Strat {
    pub fn to_text(&self) -> String {
        match self {
            Strat::NewestFewest => "newest_fewest".into(),
            Strat::OldestFewest => "oldest_fewest".into(),
            Strat::Const => "const".into(),
            Strat::ByName => "byname".into(),
            Strat::SetDep => "setdep".into(),
            Strat::Random(s) => format!("random:{}", s),
            Strat::FillersFirst => "fillers_first".into(),
            Strat::Alphabetical => "alphabetical".into(),
        }
    }
    pub fn from_text(s: &str) -> Self {
        match s {
            "newest_fewest" => Strat::NewestFewest,
            "oldest_fewest" => Strat::OldestFewest,
            "const" => Strat::Const,
            "byname" => Strat::ByName,
            "setdep" => Strat::SetDep,
            "fillers_first" => Strat::FillersFirst,
            "alphabetical" => Strat::Alphabetical,
            _ => Strat::Random(s.strip_prefix("random:").expect("strategy").parse().unwrap()),
        }
    }
}

#[derive(Clone, Debug, PartialEq)]
pub enum Fault {
    None,
    /// the k-th callback (0-based, counting should_cancel / choose_version / get_dependencies) returns Err
    Fail(usize),
    /// the k-th callback, if it is a choose_version, answers a version outside the set
    OutOfSet(usize),
}
impl Fault {
    pub fn to_text(&self) -> String {
        match self {
            Fault::None => "-".into(),
            Fault::Fail(k) => format!("fail@{}", k),
            Fault::OutOfSet(k) => format!("oos@{}", k),
        }
    }
    pub fn from_text(s: &str) -> Self {
        if let Some(k) = s.strip_prefix("fail@") {
            Fault::Fail(k.parse().unwrap())
        } else if let Some(k) = s.strip_prefix("oos@") {
            Fault::OutOfSet(k.parse().unwrap())
        } else {
            Fault::None
        }
    }
}

#[derive(Debug, Clone)]
pub struct HErr(pub String);
impl std::fmt::Display for HErr {
    fn fmt(&self, f: &mut std::fmt::Formatter<'_>) -> std::fmt::Result {
        write!(f, "{}", self.0)
    }
}
impl std::error::Error for HErr {}

// ------------------------------------------------------------------ events

#[derive(Clone, Debug)]
pub enum Ev {
    Cancel { err: Option<String> },
    Prio { p: String, set_disp: String, set_m: String, prio: u64 },
    Choose { p: String, set_disp: String, set_m: String, ans: Result<Option<u32>, String> },
    Deps { p: String, v: u32, ans: Result<Result<Vec<(String, String)>, String>, String> },
    Snap(String),
}

pub struct HProvider<VS: HSet> {
    pub reg: Registry<VS>,
    pub dep_maps: BTreeMap<(String, u32), Map<String, VS>>,
    pub strat: Strat,
    pub fault: Fault,
    pub log: Rc<RefCell<Vec<Ev>>>,
    pub calls: Cell<usize>,
    pub rng: RefCell<Rng>,
    pub budget: usize,
}

impl<VS: HSet> HProvider<VS> {
    pub fn new(reg: Registry<VS>, strat: Strat, fault: Fault, log: Rc<RefCell<Vec<Ev>>>) -> Self {
        let mut dep_maps = BTreeMap::new();
        for ((p, v), d) in &reg.entries {
            if let Ok(ds) = d {
                let mut m: Map<String, VS> = Map::default();
                for (q, s) in ds {
                    m.insert(q.clone(), s.clone()); // duplicates: last wins, as collecting into a map does
                }
                dep_maps.insert((p.clone(), *v), m);
            }
        }
        let seed = if let Strat::Random(s) = strat { s } else { 0 };
        {
            // deep registries: every snapshot lists hundreds of packages; a runaway run must stay small
            let budget = if reg.entries.len() > 100 { 40_000 } else { 4_000 };
            HProvider { reg, dep_maps, strat, fault, log, calls: Cell::new(0), rng: RefCell::new(Rng::new(seed)), budget }
        }
    }
    fn tick(&self) -> Result<usize, HErr> {
        let k = self.calls.get();
        self.calls.set(k + 1);
        if k > self.budget {
            BUDGET_HITS.fetch_add(1, std::sync::atomic::Ordering::Relaxed);
            panic!("call budget exceeded");
        }
        if self.fault == Fault::Fail(k) {
            return Err(HErr(format!("injected{}", k)));
        }
        Ok(k)
    }
    fn matching(&self, p: &str, set: &VS) -> Vec<u32> {
        self.reg.versions(p).into_iter().filter(|v| set.contains(v)).collect()
    }
}

impl<VS: HSet> DependencyProvider for HProvider<VS> {
    type P = String;
    type V = u32;
    type VS = VS;
    type M = String;
    type Priority = u64;
    type Err = HErr;

    fn should_cancel(&self) -> Result<(), HErr> {
        let r = self.tick().map(|_| ());
        self.log.borrow_mut().push(Ev::Cancel { err: r.as_ref().err().map(|e| e.0.clone()) });
        r
    }

    fn prioritize(&self, p: &String, set: &VS) -> u64 {
        let n = self.matching(p, set).len() as u64;
        let prio = match self.strat {
            Strat::NewestFewest | Strat::OldestFewest => 1_000_000 - n,
            Strat::Const => 0,
            Strat::ByName => p.bytes().map(|b| b as u64).sum::<u64>() % 7,
            Strat::SetDep => (set.to_machine().len() as u64 * 7 + n) % 5,
            Strat::Random(_) => self.rng.borrow_mut().below(3),
            Strat::Alphabetical => {
                // the first 8 bytes of the name as a big-endian number, inverted: earlier names first
                let mut k = [0u8; 8];
                for (i, b) in p.bytes().take(8).enumerate() {
                    k[i] = b;
                }
                u64::MAX - u64::from_be_bytes(k)
            }
            Strat::FillersFirst => if p == "x" { 3_000_000 } else if p.starts_with("f_") { 2_000_000 } else { 1_000_000 - n },
        };
        self.log.borrow_mut().push(Ev::Prio { p: p.clone(), set_disp: set.to_string(), set_m: set.to_machine(), prio });
        prio
    }

    fn choose_version(&self, p: &String, set: &VS) -> Result<Option<u32>, HErr> {
        let r = self.tick().map(|k| {
            if self.fault == Fault::OutOfSet(k) {
                // a version outside the offered set, if there is one in the universe
                if let Some(v) = VS::universe().into_iter().rev().chain(std::iter::once(99)).find(|v| !set.contains(v)) {
                    return Some(v);
                }
                // the offered set contains every version: there is nothing outside it to answer
            }
            let m = self.matching(p, set);
            match self.strat {
                Strat::NewestFewest | Strat::Const | Strat::SetDep | Strat::FillersFirst | Strat::Alphabetical => m.last().copied(),
                Strat::OldestFewest | Strat::ByName => m.first().copied(),
                Strat::Random(_) => {
                    if m.is_empty() {
                        None
                    } else {
                        let i = self.rng.borrow_mut().below(m.len() as u64) as usize;
                        Some(m[i])
                    }
                }
            }
        });
        self.log.borrow_mut().push(Ev::Choose {
            p: p.clone(),
            set_disp: set.to_string(),
            set_m: set.to_machine(),
            ans: r.clone().map_err(|e| e.0),
        });
        r
    }

    fn get_dependencies(&self, p: &String, v: &u32) -> Result<Dependencies<String, VS, String>, HErr> {
        let r = self.tick().map(|_| match self.reg.entries.get(&(p.clone(), *v)) {
            None => Dependencies::Unavailable("unknown".to_string()),
            Some(Err(m)) => Dependencies::Unavailable(m.clone()),
            Some(Ok(_)) => Dependencies::Available(self.dep_maps[&(p.clone(), *v)].clone()),
        });
        let logged = match &r {
            Err(e) => Err(e.0.clone()),
            Ok(Dependencies::Unavailable(m)) => Ok(Err(m.clone())),
            // the order in which `resolve` will consume the map (iteration order of the hash map)
            Ok(Dependencies::Available(m)) => Ok(Ok(m.iter().map(|(q, s)| (q.clone(), s.to_machine())).collect())),
        };
        self.log.borrow_mut().push(Ev::Deps { p: p.clone(), v: *v, ans: logged });
        r
    }
}

// ------------------------------------------------------------------ canonical text of results

pub fn tree_sexp<VS: HSet>(t: &DerivationTree<String, VS, String>) -> String {
    match t {
        DerivationTree::External(e) => match e {
            External::NotRoot(p, v) => format!("(notroot {} {})", p, v),
            External::NoVersions(p, s) => format!("(novers {} {})", p, s),
            External::FromDependencyOf(p, s, q, t) => format!("(dep {} {} {} {})", p, s, q, t),
            External::Custom(p, s, m) => format!("(custom {} {} {})", p, s, m),
        },
        DerivationTree::Derived(d) => {
            let mut terms: Vec<String> = d.terms.iter().map(|(p, t)| format!("{} {}", p, t)).collect();
            terms.sort();
            format!(
                "(derived {} {{{}}} {} {})",
                d.shared_id.map(|i| i.to_string()).unwrap_or("-".into()),
                terms.join(";"),
                tree_sexp(&d.cause1),
                tree_sexp(&d.cause2)
            )
        }
    }
}

pub enum Outcome<VS: HSet> {
    Solution(BTreeMap<String, u32>),
    NoSolution(DerivationTree<String, VS, String>),
    ErrCancel(String),
    ErrChoose(String),
    ErrDeps(String, u32, String),
    Failure(String),
    Panic(String),
}

pub struct Run<VS: HSet> {
    pub events: Vec<Ev>,
    pub outcome: Outcome<VS>,
}

/// runs that exceeded the call budget so far (after a few dozen the generators stop producing solver
/// cases: the violation is established, and every further looping run costs the whole budget)
pub static BUDGET_HITS: std::sync::atomic::AtomicUsize = std::sync::atomic::AtomicUsize::new(0);

/// the call of the real `resolve` in flight (start time, replayable request line): read by the watchdog
pub static IN_FLIGHT: std::sync::Mutex<Option<(std::time::Instant, String)>> = std::sync::Mutex::new(None);

/// Abort the process when one call of `resolve` has been running for `limit_s` seconds (a loop that
/// makes no provider call cannot be stopped from inside): the request is written to `hang_file` so
/// that the check can report it as the failing input, and the process exits with status 3.
pub fn start_watchdog(limit_s: u64, hang_file: Option<String>) {
    std::thread::spawn(move || loop {
        std::thread::sleep(std::time::Duration::from_millis(500));
        let cur = IN_FLIGHT.lock().unwrap().clone();
        if let Some((t0, line)) = cur {
            if t0.elapsed().as_secs() >= limit_s {
                if let Some(f) = &hang_file {
                    let _ = std::fs::write(f, format!("{}\n", line));
                }
                println!("hang:resolve did not return within {} s", limit_s);
                eprintln!("ORACLE-FAIL {} :: resolve did not return within {} s", line, limit_s);
                std::process::exit(3);
            }
        }
    });
}

/// run a call of the real code under the watchdog (`line` = what to report if it does not return)
pub fn watched<T>(line: String, f: impl FnOnce() -> T) -> T {
    *IN_FLIGHT.lock().unwrap() = Some((std::time::Instant::now(), line));
    let r = f();
    *IN_FLIGHT.lock().unwrap() = None;
    r
}

pub fn run_resolve<VS: HSet>(reg: &Registry<VS>, root: &str, rv: u32, strat: &Strat, fault: &Fault) -> Run<VS> {
    *IN_FLIGHT.lock().unwrap() = Some((
        std::time::Instant::now(),
        format!("solve|{}|{}|{}|{}|{}|{}|{}|", VS::KIND, if cfg!(debug_assertions) { "dbg" } else { "rel" }, root, rv, reg.to_text(), strat.to_text(), fault.to_text()),
    ));
    let r = run_resolve_inner(reg, root, rv, strat, fault);
    *IN_FLIGHT.lock().unwrap() = None;
    r
}

fn run_resolve_inner<VS: HSet>(reg: &Registry<VS>, root: &str, rv: u32, strat: &Strat, fault: &Fault) -> Run<VS> {
    let log: Rc<RefCell<Vec<Ev>>> = Rc::new(RefCell::new(vec![]));
    let provider = HProvider::new(reg.clone(), strat.clone(), fault.clone(), log.clone());
    let log2 = log.clone();
    // a run that loops (only a defective build does) would record gigabytes of snapshots: stop recording
    // after 64 MB; such a run ends in the budget panic or the watchdog, never in a comparison of transcripts
    let recorded = Cell::new(0usize);
    pubgrub::verif::set_observer(Some(Box::new(move |s: &str| {
        if recorded.get() > 64_000_000 {
            return;
        }
        recorded.set(recorded.get() + s.len());
        log2.borrow_mut().push(Ev::Snap(s.replace('\n', " ## ")));
    })));
    let res = std::panic::catch_unwind(std::panic::AssertUnwindSafe(|| resolve(&provider, root.to_string(), rv)));
    pubgrub::verif::set_observer(None);
    let outcome = match res {
        Err(e) => {
            let msg = if let Some(s) = e.downcast_ref::<String>() {
                s.clone()
            } else if let Some(s) = e.downcast_ref::<&str>() {
                s.to_string()
            } else {
                "?".into()
            };
            Outcome::Panic(msg.replace('\n', " "))
        }
        Ok(Ok(sol)) => Outcome::Solution(sol.into_iter().collect()),
        Ok(Err(PubGrubError::NoSolution(t))) => Outcome::NoSolution(t),
        Ok(Err(PubGrubError::ErrorInShouldCancel(e))) => Outcome::ErrCancel(e.0),
        Ok(Err(PubGrubError::ErrorChoosingPackageVersion(e))) => Outcome::ErrChoose(e.0),
        Ok(Err(PubGrubError::ErrorRetrievingDependencies { package, version, source })) => {
            Outcome::ErrDeps(package, version, source.0)
        }
        Ok(Err(PubGrubError::Failure(m))) => Outcome::Failure(m),
    };
    let events = log.borrow().clone();
    Run { events, outcome }
}

pub fn outcome_text<VS: HSet>(o: &Outcome<VS>) -> String {
    match o {
        Outcome::Solution(m) => format!(
            "result ok {}",
            m.iter().map(|(p, v)| format!("{}={}", p, v)).collect::<Vec<_>>().join(",")
        ),
        Outcome::NoSolution(t) => format!("result nosolution {}", tree_sexp(t)),
        Outcome::ErrCancel(e) => format!("result err cancel {}", e),
        Outcome::ErrChoose(e) => format!("result err choose {}", e),
        Outcome::ErrDeps(p, v, e) => format!("result err deps {} {} {}", p, v, e),
        Outcome::Failure(m) => format!("result failure {}", m),
        Outcome::Panic(_) => "result panic".to_string(),
    }
}

/// the transcript line compared with the model, and the answer list handed to the model
pub fn transcript<VS: HSet>(run: &Run<VS>) -> (String, String) {
    let mut out: Vec<String> = vec![];
    let mut ans: Vec<String> = vec![];
    for ev in &run.events {
        match ev {
            Ev::Cancel { err } => {
                out.push("cancel".into());
                ans.push(match err {
                    None => "ok".into(),
                    Some(e) => format!("E {}", e),
                });
            }
            Ev::Prio { p, set_disp, prio, .. } => {
                out.push(format!("prio {} {}", p, set_disp));
                ans.push(format!("P {}", prio));
            }
            Ev::Choose { p, set_disp, ans: a, .. } => {
                ans.push(format!("K {}", p));
                out.push(format!("choose {} {}", p, set_disp));
                ans.push(match a {
                    Err(e) => format!("E {}", e),
                    Ok(None) => "V -".into(),
                    Ok(Some(v)) => format!("V {}", v),
                });
            }
            Ev::Deps { p, v, ans: a } => {
                out.push(format!("deps {} {}", p, v));
                ans.push(match a {
                    Err(e) => format!("E {}", e),
                    Ok(Err(m)) => format!("U {}", m),
                    Ok(Ok(ds)) => format!(
                        "A {}",
                        ds.iter().map(|(q, s)| format!("{}={}", q, s)).collect::<Vec<_>>().join(",")
                    ),
                });
            }
            Ev::Snap(s) => {
                if !s.starts_with("terminal;") {
                    out.push(format!("snap {}", s))
                }
            }
        }
    }
    if let Outcome::Solution(_) = run.outcome {
        ans.push("K -".into());
    }
    out.push(outcome_text(&run.outcome));
    (out.join(";;"), ans.join(";;"))
}

// ------------------------------------------------------------------ semantics for the oracles

pub type Sel = BTreeMap<String, u32>;

/// all selections over the registry's packages and offered versions
pub fn all_selections<VS: HSet>(reg: &Registry<VS>) -> Vec<Sel> {
    let pkgs: Vec<String> = reg.packages();
    let mut out: Vec<Sel> = vec![BTreeMap::new()];
    for p in pkgs {
        let vs = reg.versions(&p);
        let mut next = vec![];
        for s in &out {
            next.push(s.clone());
            for v in &vs {
                let mut t = s.clone();
                t.insert(p.clone(), *v);
                next.push(t);
            }
        }
        out = next;
    }
    out
}

/// the definition of "solution" of property C01/C02
pub fn is_solution<VS: HSet>(reg: &Registry<VS>, root: &str, rv: u32, sel: &Sel) -> Result<(), String> {
    if sel.get(root) != Some(&rv) {
        return Err(format!("root {} is not selected at {}", root, rv));
    }
    for (p, v) in sel {
        match reg.entries.get(&(p.clone(), *v)) {
            None => return Err(format!("{} {} was never offered by the provider", p, v)),
            Some(Err(_)) => return Err(format!("{} {} has unavailable dependencies", p, v)),
            Some(Ok(ds)) => {
                // duplicates collapse last-wins, as the provider's map does
                let mut m: BTreeMap<&String, &VS> = BTreeMap::new();
                for (q, s) in ds {
                    m.insert(q, s);
                }
                for (q, s) in m {
                    match sel.get(q) {
                        None => return Err(format!("{} {} depends on {} which is not selected", p, v, q)),
                        Some(w) => {
                            if !s.contains(w) {
                                return Err(format!("{} {} depends on {} {} but {} is selected", p, v, q, s, w));
                            }
                        }
                    }
                }
            }
        }
    }
    Ok(())
}

/// A solution found by depth-first search with propagation of the dependency constraints (for
/// registries too large for the enumeration of all selections): `Some(Some(sel))` a solution,
/// `Some(None)` there is none, `None` gave up after `cap` search nodes.
pub fn search_solution<VS: HSet>(reg: &Registry<VS>, root: &str, rv: u32, cap: usize) -> Option<Option<Sel>> {
    fn deps_of<VS: HSet>(reg: &Registry<VS>, p: &str, v: u32) -> Option<BTreeMap<String, VS>> {
        match reg.entries.get(&(p.to_string(), v)) {
            Some(Ok(ds)) => {
                let mut m = BTreeMap::new();
                for (q, s) in ds {
                    m.insert(q.clone(), VS::from_machine(&s.to_machine())); // duplicates: last wins
                }
                Some(m)
            }
            _ => None,
        }
    }
    fn go<VS: HSet>(reg: &Registry<VS>, sel: &mut Sel, nodes: &mut usize, cap: usize) -> Option<bool> {
        *nodes += 1;
        if *nodes > cap {
            return None;
        }
        // constraints on every package from the selected versions
        let mut need: BTreeMap<String, Vec<VS>> = BTreeMap::new();
        for (p, v) in sel.iter() {
            for (q, s) in deps_of(reg, p, *v)? {
                need.entry(q).or_default().push(s);
            }
        }
        for (q, sets) in &need {
            if let Some(w) = sel.get(q) {
                if sets.iter().any(|s| !s.contains(w)) {
                    return Some(false);
                }
            }
        }
        // an unselected required package: branch on its versions (fewest candidates first)
        let mut best: Option<(String, Vec<u32>)> = None;
        for (q, sets) in &need {
            if sel.contains_key(q) {
                continue;
            }
            let cands: Vec<u32> = reg.versions(q).into_iter().filter(|w| sets.iter().all(|s| s.contains(w)) && deps_of(reg, q, *w).is_some()).collect();
            if cands.is_empty() {
                return Some(false);
            }
            if best.as_ref().map_or(true, |(_, c)| cands.len() < c.len()) {
                best = Some((q.clone(), cands));
            }
        }
        match best {
            None => Some(true),
            Some((q, cands)) => {
                for w in cands.into_iter().rev() {
                    sel.insert(q.clone(), w);
                    match go(reg, sel, nodes, cap) {
                        None => return None,
                        Some(true) => return Some(true),
                        Some(false) => {}
                    }
                    sel.remove(&q);
                }
                Some(false)
            }
        }
    }
    if deps_of(reg, root, rv).is_none() {
        return Some(None);
    }
    let mut sel: Sel = BTreeMap::new();
    sel.insert(root.to_string(), rv);
    let mut nodes = 0usize;
    match go(reg, &mut sel, &mut nodes, cap) {
        None => None,
        Some(true) => Some(Some(sel)),
        Some(false) => Some(None),
    }
}

pub fn reachable<VS: HSet>(reg: &Registry<VS>, root: &str, sel: &Sel) -> BTreeSet<String> {
    let mut seen: BTreeSet<String> = BTreeSet::new();
    let mut stack = vec![root.to_string()];
    while let Some(p) = stack.pop() {
        if !seen.insert(p.clone()) {
            continue;
        }
        if let Some(v) = sel.get(&p) {
            if let Some(Ok(ds)) = reg.entries.get(&(p.clone(), *v)) {
                for (q, _) in ds {
                    stack.push(q.clone());
                }
            }
        }
    }
    seen
}

/// truth of a term under a selection
pub fn term_true<VS: HSet>(t: &Term<VS>, c: Option<u32>) -> bool {
    match (t, c) {
        (Term::Positive(s), Some(v)) => s.contains(&v),
        (Term::Positive(_), None) => false,
        (Term::Negative(s), Some(v)) => !s.contains(&v),
        (Term::Negative(_), None) => true,
    }
}

pub fn parse_term_display<VS: HSet>(s: &str) -> Option<Term<VS>> {
    if let Some(inner) = s.strip_prefix("Not ( ").and_then(|x| x.strip_suffix(" )")) {
        VS::from_display(inner).map(Term::Negative)
    } else {
        VS::from_display(s).map(Term::Positive)
    }
}

/// one stored incompatibility parsed back from the snapshot text: (id, kind text, terms)
pub struct StoreEntry<VS: HSet> {
    pub id: usize,
    pub kind: String,
    pub terms: Vec<(String, Term<VS>)>,
}

pub fn parse_store<VS: HSet>(snap: &str) -> Option<Vec<StoreEntry<VS>>> {
    let mut out = vec![];
    for line in snap.split(" ## ") {
        if let Some(rest) = line.strip_prefix('I') {
            let mut parts = rest.split(';');
            let id: usize = parts.next()?.parse().ok()?;
            let kind = parts.next()?.to_string();
            let mut terms = vec![];
            for t in parts {
                if t.is_empty() {
                    continue;
                }
                let (p, tt) = t.split_once(' ')?;
                terms.push((p.to_string(), parse_term_display::<VS>(tt)?));
            }
            out.push(StoreEntry { id, kind, terms });
        }
    }
    Some(out)
}

/// structure of the expected tree, rebuilt from the store: derived nodes with their terms and the
/// shared id (= arena id) exactly when the node has in-degree >= 2 among the nodes reachable from the
/// terminal incompatibility; leaves by kind and package
pub fn expected_shape<VS: HSet>(entries: &[StoreEntry<VS>], terminal: usize) -> String {
    let causes = |id: usize| -> Option<(usize, usize)> {
        let k = &entries.get(id)?.kind;
        let inner = k.strip_prefix("derived(")?.strip_suffix(')')?;
        let (a, b) = inner.split_once(' ')?;
        Some((a.parse().ok()?, b.parse().ok()?))
    };
    let mut indeg: BTreeMap<usize, usize> = BTreeMap::new();
    let mut seen: BTreeSet<usize> = BTreeSet::new();
    let mut stack = vec![terminal];
    seen.insert(terminal);
    while let Some(i) = stack.pop() {
        if let Some((a, b)) = causes(i) {
            for c in [a, b] {
                *indeg.entry(c).or_insert(0) += 1;
                if seen.insert(c) {
                    stack.push(c);
                }
            }
        }
    }
    fn go<VS: HSet>(entries: &[StoreEntry<VS>], id: usize, indeg: &BTreeMap<usize, usize>, causes: &dyn Fn(usize) -> Option<(usize, usize)>) -> String {
        let e = &entries[id];
        match causes(id) {
            Some((a, b)) => {
                let mut terms: Vec<String> = e.terms.iter().map(|(p, t)| format!("{}{}", p, crate::treeck::term_m(t))).collect();
                terms.sort();
                let sid = if indeg.get(&id).copied().unwrap_or(0) >= 2 { id.to_string() } else { "-".into() };
                format!("D[{}][{}]({})({})", sid, terms.join(","), go(entries, a, indeg, causes), go(entries, b, indeg, causes))
            }
            None => {
                let tag = if e.kind.starts_with("notroot") { "N" } else if e.kind.starts_with("novers") { "V" } else if e.kind.starts_with("dep") { "F" } else { "C" };
                let inner = e.kind.split_once('(').map(|x| x.1).unwrap_or("");
                let p = inner.split(' ').next().unwrap_or("");
                format!("{}@{}", tag, p)
            }
        }
    }
    go(entries, terminal, &indeg, &causes)
}

pub fn actual_shape<VS: HSet>(t: &DerivationTree<String, VS, String>) -> String {
    match t {
        DerivationTree::External(e) => match e {
            External::NotRoot(p, _) => format!("N@{}", p),
            External::NoVersions(p, _) => format!("V@{}", p),
            External::FromDependencyOf(p, ..) => format!("F@{}", p),
            External::Custom(p, ..) => format!("C@{}", p),
        },
        DerivationTree::Derived(d) => {
            let mut terms: Vec<String> = d.terms.iter().map(|(p, t)| format!("{}{}", p, crate::treeck::term_m(t))).collect();
            terms.sort();
            format!(
                "D[{}][{}]({})({})",
                d.shared_id.map(|i| i.to_string()).unwrap_or("-".into()),
                terms.join(","),
                actual_shape(&d.cause1),
                actual_shape(&d.cause2)
            )
        }
    }
}

// ------------------------------------------------------------------ the request

pub struct SolveReq<VS: HSet> {
    pub debug: bool,
    pub root: String,
    pub rv: u32,
    pub reg: Registry<VS>,
    pub strat: Strat,
    pub fault: Fault,
}

pub fn req_line<VS: HSet>(r: &SolveReq<VS>, answers: &str) -> String {
    format!(
        "solve|{}|{}|{}|{}|{}|{}|{}|{}",
        VS::KIND,
        if r.debug { "dbg" } else { "rel" },
        r.root,
        r.rv,
        r.reg.to_text(),
        r.strat.to_text(),
        r.fault.to_text(),
        answers
    )
}

pub fn parse_req<VS: HSet>(f: &[&str]) -> SolveReq<VS> {
    SolveReq {
        debug: f[2] == "dbg",
        root: f[3].to_string(),
        rv: f[4].parse().unwrap(),
        reg: Registry::from_text(f[5]),
        strat: Strat::from_text(f[6]),
        fault: Fault::from_text(f[7]),
    }
}

pub struct SolveEval<VS: HSet> {
    pub run: Run<VS>,
    pub req: String,
    pub imp: String,
    /// (property, what)
    pub failures: Vec<(&'static str, String)>,
    pub tags: Vec<&'static str>,
    pub conflicts: usize,
}

/// run the real resolve for this request and evaluate every direct oracle on it
pub fn eval_solve<VS: HSet>(r: &SolveReq<VS>) -> SolveEval<VS> {
    let run = run_resolve(&r.reg, &r.root, r.rv, &r.strat, &r.fault);
    let (imp, answers) = transcript(&run);
    let req = req_line(r, &answers);
    let mut failures: Vec<(&'static str, String)> = vec![];
    let mut tags: Vec<&'static str> = vec![];
    // brute force over all selections, unless the registry is too large for it (then the oracles that
    // need all solutions are skipped for this request and the request only serves the exact mirror)
    let space: u64 = r.reg.packages().iter().map(|p| r.reg.versions(p).len() as u64 + 1).fold(1u64, |a, b| a.saturating_mul(b));
    let brute = space <= 4_000;
    let sels = if brute { all_selections(&r.reg) } else { vec![] };
    let solutions: Vec<&Sel> = sels.iter().filter(|s| is_solution(&r.reg, &r.root, r.rv, s).is_ok()).collect();
    if !brute {
        tags.push("too_large_for_brute_force");
    }
    let faulty = r.fault != Fault::None;

    // ---- trace facts
    let mut chosen: BTreeSet<(String, u32)> = BTreeSet::new();
    let mut deps_asked: BTreeSet<(String, u32)> = BTreeSet::new();
    let mut last_prio: BTreeMap<String, (String, u64)> = BTreeMap::new();
    let mut last_snap_ps: Option<String> = None;
    let mut cancels_since_choose = 0usize;
    let mut seen_first_version_query = false;
    let mut prev: Option<&Ev> = None;
    let mut n_backtracks = 0;
    let mut store_snap: Option<String> = None;
    let mut terminal_id: Option<usize> = None;
    for ev in &run.events {
        match ev {
            Ev::Cancel { .. } => cancels_since_choose += 1,
            Ev::Prio { p, set_m, prio, .. } => {
                last_prio.insert(p.clone(), (set_m.clone(), *prio));
            }
            Ev::Choose { p, set_m, ans, .. } => {
                // C12
                if cancels_since_choose == 0 {
                    failures.push(("C12", format!("no should_cancel poll before choose_version({})", p)));
                }
                cancels_since_choose = 0;
                if !seen_first_version_query {
                    seen_first_version_query = true;
                    let want = VS::singleton(r.rv).to_machine();
                    if p != &r.root || set_m != &want {
                        failures.push(("C12", format!("first version query is {} {} instead of the root with the singleton set", p, set_m)));
                    }
                }
                let set = VS::from_machine(set_m);
                if set == VS::empty() {
                    failures.push(("C12", format!("choose_version({}) called with the empty set", p)));
                }
                match last_prio.get(p) {
                    None => failures.push(("C12", format!("choose_version({}) without a previous prioritize", p))),
                    Some((s, _)) => {
                        if s != set_m {
                            failures.push(("C12", format!("choose_version({}, {}) but the set last passed to prioritize was {}", p, set_m, s)));
                        }
                    }
                }
                // C14: from the partial-solution snapshot taken just before the prioritize calls
                if let (Some(ps), true) = (&last_snap_ps, VS::DISPLAY_INJECTIVE) {
                    let mut my_prio = None;
                    let mut others: Vec<(String, String)> = vec![];
                    for line in ps.split(" ## ").skip(1) {
                        let f: Vec<&str> = line.split(';').collect();
                        if f.len() >= 4 && f[0] == "pa" {
                            if let Some(t) = f[3].strip_prefix("T ") {
                                if !t.starts_with("Not ( ") {
                                    if let Some(s) = VS::from_display(t) {
                                        others.push((f[1].to_string(), s.to_machine()));
                                    }
                                }
                            }
                        }
                    }
                    if let Some((_, pr)) = last_prio.get(p) {
                        my_prio = Some(*pr);
                    }
                    for (q, s) in &others {
                        match last_prio.get(q) {
                            None => failures.push(("C14", format!("undecided positive package {} was never prioritized before choose_version({})", q, p))),
                            Some((ls, lp)) => {
                                if ls != s {
                                    failures.push(("C14", format!("package {}: last priority was reported for {} but its current set is {}", q, ls, s)));
                                }
                                if let Some(mp) = my_prio {
                                    if *lp > mp {
                                        failures.push(("C14", format!("choose_version({}) with priority {} while {} has priority {}", p, mp, q, lp)));
                                    }
                                }
                            }
                        }
                    }
                    if !others.iter().any(|(q, _)| q == p) {
                        failures.push(("C14", format!("choose_version({}) for a package without a positive undecided requirement", p)));
                    }
                }
                if let Ok(Some(v)) = ans {
                    chosen.insert((p.clone(), *v));
                }
            }
            Ev::Deps { p, v, .. } => {
                let ok_prev = matches!(prev, Some(Ev::Choose { p: pp, ans: Ok(Some(vv)), .. }) if pp == p && vv == v);
                if !ok_prev {
                    failures.push(("C12", format!("get_dependencies({}, {}) not immediately after choose_version returned it", p, v)));
                }
                if !deps_asked.insert((p.clone(), *v)) {
                    failures.push(("C12", format!("get_dependencies({}, {}) called twice", p, v)));
                }
            }
            Ev::Snap(s) => {
                if s.starts_with("ps;") {
                    if s.contains(";bt=1;") {
                        n_backtracks = 1;
                    }
                    last_snap_ps = Some(s.clone());
                } else if s.starts_with("store") {
                    store_snap = Some(s.clone());
                } else if let Some(t) = s.strip_prefix("terminal;") {
                    terminal_id = t.parse().ok();
                }
            }
        }
        if !matches!(ev, Ev::Snap(_)) {
            prev = Some(ev);
        }
    }
    if let Some(Ev::Cancel { .. }) = run.events.iter().find(|e| !matches!(e, Ev::Snap(_))) {
    } else if !run.events.is_empty() {
        failures.push(("C12", "should_cancel was not polled before the first query".into()));
    }
    if n_backtracks > 0 {
        tags.push("run_backtracked");
    }

    // ---- outcome oracles
    match &run.outcome {
        Outcome::Solution(sol) => {
            tags.push("outcome_ok");
            if let Err(e) = is_solution(&r.reg, &r.root, r.rv, sol) {
                failures.push(("C01", format!("returned solution is invalid: {}", e)));
            }
            for (p, v) in sol {
                if !chosen.contains(&(p.clone(), *v)) {
                    failures.push(("C01", format!("{} {} is in the solution but was never returned by choose_version", p, v)));
                }
            }
            let reach = reachable(&r.reg, &r.root, sol);
            for p in sol.keys() {
                if !reach.contains(p) {
                    failures.push(("C04", format!("{} is selected but not reachable from the root through selected versions", p)));
                }
            }
            if faulty {
                if let Fault::OutOfSet(_) = r.fault {
                    // only a violation if the out-of-set answer was actually given
                    if run.events.iter().any(|e| matches!(e, Ev::Choose{ set_m, ans: Ok(Some(v)), ..} if !VS::from_machine(set_m).contains(v))) {
                        failures.push(("C13", "choose_version answered outside the set but resolve returned a solution".into()));
                    }
                }
            }
        }
        Outcome::NoSolution(tree) => {
            tags.push("outcome_nosolution");
            if let Some(s) = solutions.first().filter(|_| brute) {
                failures.push(("C02", format!("NoSolution reported but {:?} is a solution", s)));
            }
            if !brute {
                // too large for the enumeration: a bounded depth-first search for a solution
                match search_solution(&r.reg, &r.root, r.rv, 200_000) {
                    Some(Some(s)) => {
                        tags.push("nosolution_checked_by_search");
                        match is_solution(&r.reg, &r.root, r.rv, &s) {
                            Ok(()) => failures.push(("C02", format!("NoSolution reported but {:?} is a solution", s))),
                            Err(_) => tags.push("search_oracle_inconsistent"),
                        }
                    }
                    Some(None) => tags.push("nosolution_checked_by_search"),
                    None => tags.push("nosolution_search_gave_up"),
                }
            }
            // C03: the tree is a checkable proof (independent semantic check against the registry)
            for e in crate::treeck::check_tree(&r.reg, &r.root, r.rv, tree, false) {
                failures.push(("C03", e));
            }
            // C03: shared ids, by independent reconstruction from the store snapshot
            if let (Some(snap), Some(tid), true) = (&store_snap, terminal_id, VS::DISPLAY_INJECTIVE) {
                match parse_store::<VS>(snap) {
                    None => failures.push(("C03", "store snapshot not parseable".into())),
                    Some(entries) => {
                        let want = expected_shape(&entries, tid);
                        let got = actual_shape(tree);
                        if want != got {
                            failures.push(("C03", format!("tree shape / shared ids differ from the cause DAG of the store: expected {} got {}", want, got)));
                        }
                        if want.contains("D[") && want.matches("D[").count() > want.matches("D[-]").count() {
                            tags.push("tree_has_shared_node");
                        }
                    }
                }
            } else if VS::DISPLAY_INJECTIVE {
                failures.push(("C03", "no store snapshot / terminal id emitted for a NoSolution run".into()));
            }
            let mut nodes = vec![];
            crate::treeck::derived_nodes(tree, &mut nodes);
            let mut by_id: BTreeMap<usize, &String> = BTreeMap::new();
            for (sid, canon) in &nodes {
                if let Some(id) = sid {
                    if let Some(prev) = by_id.insert(*id, canon) {
                        if prev != canon {
                            failures.push(("C03", format!("two different subtrees carry the shared id {}", id)));
                        }
                    }
                }
            }
        }
        Outcome::Panic(m) => {
            tags.push("outcome_panic");
            failures.push(("C05", format!("resolve panicked: {}", m)));
        }
        Outcome::Failure(m) => {
            tags.push("outcome_failure");
            let oos_given = run.events.iter().any(|e| matches!(e, Ev::Choose{ set_m, ans: Ok(Some(v)), ..} if !VS::from_machine(set_m).contains(v)));
            if !oos_given {
                failures.push(("C05", format!("resolve returned Failure({}) for a well-behaved provider", m)));
            }
        }
        Outcome::ErrCancel(_) | Outcome::ErrChoose(_) | Outcome::ErrDeps(..) => {
            tags.push("outcome_provider_error");
            if !faulty {
                failures.push(("C05", "provider error reported although no callback failed".into()));
            }
        }
    }
    // C13: the injected fault is reported faithfully and is the last callback
    if let Fault::Fail(k) = r.fault {
        let calls: Vec<&Ev> = run.events.iter().filter(|e| matches!(e, Ev::Cancel { .. } | Ev::Choose { .. } | Ev::Deps { .. })).collect();
        if k < calls.len() {
            if calls.len() != k + 1 {
                failures.push(("C13", format!("{} provider calls after the failing callback", calls.len() - k - 1)));
            }
            if run.events.iter().rev().take_while(|e| !matches!(e, Ev::Cancel { .. } | Ev::Choose { .. } | Ev::Deps { .. })).any(|e| matches!(e, Ev::Prio { .. })) {
                failures.push(("C13", "prioritize called after the failing callback".into()));
            }
            let want = format!("injected{}", k);
            let ok = match (calls[k], &run.outcome) {
                (Ev::Cancel { .. }, Outcome::ErrCancel(e)) => e == &want,
                (Ev::Choose { .. }, Outcome::ErrChoose(e)) => e == &want,
                (Ev::Deps { p, v, .. }, Outcome::ErrDeps(pp, vv, e)) => e == &want && p == pp && v == vv,
                _ => false,
            };
            if !ok {
                failures.push(("C13", format!("callback {} failed but the result is {}", k, outcome_text(&run.outcome))));
            }
        }
    }
    if let Fault::OutOfSet(_) = r.fault {
        let oos_given = run.events.iter().any(|e| matches!(e, Ev::Choose{ set_m, ans: Ok(Some(v)), ..} if !VS::from_machine(set_m).contains(v)));
        if oos_given && !matches!(run.outcome, Outcome::Failure(_)) {
            failures.push(("C13", format!("choose_version answered outside the set but the result is {}", outcome_text(&run.outcome))));
        }
        if oos_given {
            tags.push("out_of_set_answer_given");
        }
    }
    // C06: every stored incompatibility is true of all solutions
    let mut conflicts = 0;
    if let (Some(snap), false) = (&store_snap, VS::DISPLAY_INJECTIVE) {
        conflicts = snap.matches(";derived(").count();
    }
    if let (Some(snap), true) = (&store_snap, VS::DISPLAY_INJECTIVE) {
        match parse_store::<VS>(snap) {
            None => failures.push(("C06", "store snapshot not parseable".into())),
            Some(entries) => {
                conflicts = entries.iter().filter(|e| e.kind.starts_with("derived")).count();
                for e in &entries {
                    for s in &solutions {
                        if e.terms.iter().all(|(p, t)| term_true(t, s.get(p).copied())) {
                            failures.push(("C06", format!("incompatibility I{} {} has all its terms true in the solution {:?}", e.id, e.kind, s)));
                            break;
                        }
                    }
                }
            }
        }
    }
    if conflicts > 0 {
        tags.push("run_had_conflict");
    }
    SolveEval { run, req, imp, failures, tags, conflicts }
}

// ------------------------------------------------------------------ generators

pub const NAMES: [&str; 6] = ["root", "a", "b", "c", "d", "e"];

pub fn random_registry<VS: HSet>(rng: &mut Rng, versions: &[u32]) -> Registry<VS> {
    let n_pkgs = 2 + rng.below(4) as usize; // 2..=5 incl. root
    let mut entries = BTreeMap::new();
    for (pi, p) in NAMES.iter().take(n_pkgs).enumerate() {
        let nv = if pi == 0 { 1 + rng.below(2) } else { rng.below(4) } as usize; // a package may have no version
        let mut vs: Vec<u32> = versions.to_vec();
        // random subset of size nv
        while vs.len() > nv {
            let i = rng.below(vs.len() as u64) as usize;
            vs.remove(i);
        }
        for v in vs {
            if rng.chance(1, 12) {
                entries.insert((p.to_string(), v), Err("nodeps".to_string()));
                continue;
            }
            let nd = rng.below(4) as usize;
            let mut ds = vec![];
            for _ in 0..nd {
                // dependency target: mostly other packages, sometimes itself, sometimes unknown
                let q = match rng.below(20) {
                    0 => p.to_string(),
                    1 => "zz".to_string(),
                    _ => NAMES[rng.below(n_pkgs as u64) as usize].to_string(),
                };
                ds.push((q, VS::family(rng)));
            }
            entries.insert((p.to_string(), v), Ok(ds));
        }
    }
    Registry { entries }
}

/// wide registries: a hub `c_f` depending on `n` leaves `h_i`, each excluding one version of a common
/// package `z_t`, and a package `b_g`, decided before the hub, that excludes the only version of `z_t` the
/// leaves leave over.  With the packages decided in alphabetical order the first conflict is met late;
/// after the backjump the learned dependencies of all `h_i` fire at the hub's decision level and conflict
/// resolution unifies on `z_t` `n` times while the clause grows by one leaf per step: incompatibilities
/// with dozens of terms (a threshold on the number of terms shows).  `solvable`: `b_g` has an older version
/// without the constraint.
pub fn wide_registry<VS: HSet>(n: u32, solvable: bool) -> Registry<VS> {
    let set = |m: &str| VS::from_machine(m);
    let mut entries = BTreeMap::new();
    entries.insert(("a_root".to_string(), 1), Ok(vec![("b_g".to_string(), set("u:u")), ("c_f".to_string(), set("u:u")), ("z_t".to_string(), set("u:u"))]));
    if solvable {
        entries.insert(("b_g".to_string(), 1), Ok(vec![]));
    }
    entries.insert(("b_g".to_string(), 2), Ok(vec![("z_t".to_string(), set(&format!("u:e{}", n)))]));
    entries.insert(("c_f".to_string(), 1), Ok((0..n).map(|i| (format!("h_{:02}", i), set("i1:i1"))).collect()));
    for i in 0..n {
        // z_t != i
        let m = if i == 0 { "e0:u".to_string() } else { format!("u:e{} e{}:u", i, i) };
        entries.insert((format!("h_{:02}", i), 1), Ok(vec![("z_t".to_string(), set(&m))]));
    }
    for v in 0..=n {
        entries.insert(("z_t".to_string(), v), Ok(vec![]));
    }
    Registry { entries }
}

/// deep registries: `n_fillers` independent packages `f_000…` (one version, no dependencies) that the
/// strategy `FillersFirst` decides first, one decision level each, in front of a layered registry: the
/// conflicts and backjumps of the layered part then happen at decision levels around `n_fillers`
/// (chosen so that they straddle 256: a level stored or compared in 8 bits shows)
pub fn deep_registry<VS: HSet>(rng: &mut Rng, versions: &[u32]) -> Registry<VS> {
    let mut reg = layered_registry::<VS>(rng, versions);
    let n_fillers = 248 + rng.below(8) as usize; // 248..=255: the layered part is decided around level 256
    let full = VS::from_machine(&VS::full().to_machine());
    let names: Vec<String> = (0..n_fillers).map(|i| format!("f_{:03}", i)).collect();
    for ((p, _), d) in reg.entries.iter_mut() {
        if p == "root" {
            if let Ok(ds) = d {
                for n in &names {
                    ds.push((n.clone(), VS::from_machine(&full.to_machine())));
                }
            }
        }
    }
    for n in &names {
        reg.entries.insert((n.clone(), 1), Ok(vec![]));
    }
    reg
}

/// layered registries: root -> x -> y -> z with several versions per layer and breakage at the bottom,
/// so that learned incompatibilities are reused after backtracking (shared nodes in the error tree)
pub fn layered_registry<VS: HSet>(rng: &mut Rng, versions: &[u32]) -> Registry<VS> {
    let mut entries = BTreeMap::new();
    let layers = ["x", "y", "z", "w"];
    let depth = 2 + rng.below(3) as usize; // 2..=4 layers below the root
    let pick_versions = |rng: &mut Rng| -> Vec<u32> {
        let mut vs: Vec<u32> = versions.to_vec();
        let n = 1 + rng.below(vs.len() as u64) as usize;
        while vs.len() > n {
            let i = rng.below(vs.len() as u64) as usize;
            vs.remove(i);
        }
        vs
    };
    let wide = |rng: &mut Rng| -> VS {
        if rng.chance(2, 3) {
            VS::full()
        } else {
            VS::family(rng)
        }
    };
    let rv = versions[0];
    let mut root_deps = vec![(layers[0].to_string(), wide(rng))];
    if rng.chance(1, 3) && depth >= 2 {
        root_deps.push((layers[1].to_string(), wide(rng)));
    }
    entries.insert(("root".to_string(), rv), Ok(root_deps));
    for l in 0..depth {
        let p = layers[l];
        for v in pick_versions(rng) {
            if rng.chance(1, 15) {
                entries.insert((p.to_string(), v), Err("nodeps".to_string()));
                continue;
            }
            let mut ds: Vec<(String, VS)> = vec![];
            if l + 1 < depth {
                ds.push((layers[l + 1].to_string(), wide(rng)));
                if rng.chance(1, 4) && l + 2 < depth {
                    ds.push((layers[l + 2].to_string(), wide(rng)));
                }
            } else {
                // bottom layer: mostly broken
                match rng.below(6) {
                    0 => {}
                    1 => ds.push(("zz".to_string(), VS::full())),
                    2 => ds.push((layers[0].to_string(), VS::family(rng))),
                    3 => ds.push((p.to_string(), VS::family(rng))),
                    4 => ds.push((layers[l.saturating_sub(1)].to_string(), VS::empty())),
                    _ => ds.push(("zz".to_string(), VS::family(rng))),
                }
            }
            if rng.chance(1, 6) {
                ds.push((layers[rng.below(depth as u64) as usize].to_string(), VS::family(rng)));
            }
            entries.insert((p.to_string(), v), Ok(ds));
        }
    }
    Registry { entries }
}

/// larger registries (6-9 packages, up to 4 versions, denser dependencies): deeper conflict chains and
/// incompatibilities with three and more terms; mostly beyond brute force, they serve the exact mirror,
/// the tree oracles and the trace oracles
pub fn big_registry<VS: HSet>(rng: &mut Rng, versions: &[u32]) -> Registry<VS> {
    let names = ["root", "a", "b", "c", "d", "e", "f", "g", "h"];
    let n = 6 + rng.below(4) as usize;
    let mut entries = BTreeMap::new();
    for (pi, p) in names.iter().take(n).enumerate() {
        let mut vs: Vec<u32> = versions.to_vec();
        let nv = if pi == 0 { 1 } else { 1 + rng.below(vs.len() as u64) as usize };
        while vs.len() > nv {
            let i = rng.below(vs.len() as u64) as usize;
            vs.remove(i);
        }
        for v in vs {
            if rng.chance(1, 25) {
                entries.insert((p.to_string(), v), Err("nodeps".to_string()));
                continue;
            }
            let nd = if pi == 0 { 2 + rng.below(3) } else { rng.below(4) } as usize;
            let mut ds = vec![];
            for _ in 0..nd {
                // mostly "forward" dependencies so that many packages get pulled in, some backward ones (cycles)
                let q = if rng.chance(4, 5) { names[(pi + 1 + rng.below((n - 1) as u64) as usize) % n] } else { names[rng.below(n as u64) as usize] };
                let set = if rng.chance(1, 2) { VS::full() } else { VS::family(rng) };
                ds.push((q.to_string(), set));
            }
            entries.insert((p.to_string(), v), Ok(ds));
        }
    }
    Registry { entries }
}

pub fn random_strat(rng: &mut Rng) -> Strat {
    match rng.below(8) {
        0 | 1 => Strat::NewestFewest,
        2 => Strat::OldestFewest,
        3 => Strat::Const,
        4 => Strat::ByName,
        5 => Strat::SetDep,
        _ => Strat::Random(rng.below(1000)),
    }
}

pub fn eval_to_case<VS: HSet>(e: SolveEval<VS>, prop: &str) -> Case {
    // C17's solver clause ("the guarantees C01–C05 hold with a custom set exactly as with Range") is
    // decided by the oracles of C01..C05 on the runs over the custom set
    let serves = |p: &str| p == prop || (prop == "C17" && matches!(p, "C01" | "C02" | "C03" | "C04" | "C05"));
    let mine: Vec<String> = e.failures.iter().filter(|(p, _)| serves(p)).map(|(p, w)| if *p == prop { w.clone() } else { format!("[{}] {}", p, w) }).collect();
    let skipped = (prop == "C02" || prop == "C06") && e.tags.contains(&"too_large_for_brute_force");
    Case {
        req: e.req,
        imp: e.imp,
        nontrivial: !skipped && (e.conflicts > 0 || e.tags.contains(&"run_backtracked")),
        oracle_fail: mine.first().cloned(),
        tags: e.tags,
    }
}

/-
Helpers for `PSInvariant.lean`, part 10: the run-level invariant and its preservation by `Solver.step`.
-/
import PubgrubProofs.ProtocolAux
import PubgrubProofs.PSInvariantAux9

set_option linter.unusedSectionVars false
set_option linter.unusedVariables false

namespace Pubgrub
open VersionSet

variable {P S V M Pr E : Type} [DecidableEq P] [VersionSet S V] [DecidableEq S] [DecidableEq V]
  [LE Pr] [DecidableLE Pr] [LawfulVersionSet S V]

/-- what holds of the package popped from the queue until its fate is settled -/
def PartialSolution.InFlightOK (ps : PartialSolution P S V Pr) (p : P) : Prop :=
  ps.AllQ (some p) ∧ SmallMap.get ps.queue p = none ∧ ps.InflightPos p

/-- the run-level invariant for I-PS and I-Q -/
structure RInv' (x : SolverState P S V M Pr × Request P S V M Pr E) : Prop where
  live : x.1.phase ≠ .finished → PInv x.1.st ∧ x.1.st.ps.QInv x.1.inflight
  cancel : x.1.phase = .cancel → Pending x.1.st x.1.next
  prioritizing : ∀ cur rest acc, x.1.phase = .prioritizing cur rest acc →
    ∃ done, x.1.st.ps.toPrioritize = .ok (done ++ cur :: rest) ∧ done.map Prod.fst = acc.map Prod.fst
  picking : ∀ acc, x.1.phase = .picking acc →
    (∃ L, x.1.st.ps.toPrioritize = .ok L ∧ L.map Prod.fst = acc.map Prod.fst) ∧
    x.2 = .pick (x.1.st.ps.afterPrioritize acc).queue
  choosing : ∀ p t, x.1.phase = .choosing p t →
    x.1.next = p ∧ x.1.st.ps.termIntersectionForPackage p = some t ∧ x.1.st.ps.InFlightOK p
  fetching : ∀ p v, x.1.phase = .fetching p v →
    x.1.next = p ∧ x.1.st.ps.InFlightOK p ∧
    ∃ t, x.1.st.ps.termIntersectionForPackage p = some t ∧ t.contains v = true
  sol : ∀ sel, x.2 = .solution sel → x.1.st.ps.WF ∧
    (∀ p pa set, x.1.st.ps.getPA p = some pa → pa.inter ≠ .derivations (.pos set)) ∧
    x.1.st.ps.extractSolution = .ok sel

theorem rinv'_finish (s : SolverState P S V M Pr) (r : Request P S V M Pr E)
    (hr : ∀ sel, r ≠ .solution sel) : RInv' (Solver.finish s r) := by
  refine ⟨?_, ?_, ?_, ?_, ?_, ?_, ?_⟩
  · intro h; exact absurd rfl h
  · intro h; simp [Solver.finish] at h
  · intro _ _ _ h; simp [Solver.finish] at h
  · intro _ h; simp [Solver.finish] at h
  · intro _ _ h; simp [Solver.finish] at h
  · intro _ _ h; simp [Solver.finish] at h
  · intro sel h; exact absurd h (hr sel)

theorem rinv'_loopAgain (s : SolverState P S V M Pr) (st : State P S V M Pr)
    (h : PInv st) (hq : st.ps.QInv (some s.next)) (hp : Pending st s.next) :
    RInv' (E := E) (Solver.loopAgain s st) := by
  refine ⟨?_, ?_, ?_, ?_, ?_, ?_, ?_⟩
  · intro _; exact ⟨h, hq⟩
  · intro _; exact hp
  · intro _ _ _ h; simp [Solver.loopAgain] at h
  · intro _ h; simp [Solver.loopAgain] at h
  · intro _ _ h; simp [Solver.loopAgain] at h
  · intro _ _ h; simp [Solver.loopAgain] at h
  · intro sel h; simp [Solver.loopAgain] at h

theorem rinv'_start (debug : Bool) (fuel : Nat) (root : P) (rv : V) :
    RInv' (Solver.start (Pr := Pr) (E := E) (M := M) (S := S) debug fuel root rv) := by
  have hwf : (PartialSolution.empty : PartialSolution P S V Pr).WF' := by
    refine ⟨⟨Nat.le_refl _, Nat.le_refl _, List.nodup_nil, ?_, List.nodup_nil, ?_⟩, ?_⟩
    · intro i p pa h; simp [PartialSolution.empty] at h
    · intro p pr h; simp [PartialSolution.empty] at h
    · intro kv h; simp [PartialSolution.empty] at h
  refine ⟨?_, ?_, ?_, ?_, ?_, ?_, ?_⟩
  · intro _
    refine ⟨⟨hwf, ?_⟩, ?_⟩
    · intro kv h; simp [Solver.start, State.init] at h
    · intro i p pa s h; simp [Solver.start, State.init, PartialSolution.empty] at h
  · intro _
    left
    intro i pa s h; simp [Solver.start, State.init, PartialSolution.empty] at h
  · intro _ _ _ h; simp [Solver.start] at h
  · intro _ h; simp [Solver.start] at h
  · intro _ _ h; simp [Solver.start] at h
  · intro _ _ h; simp [Solver.start] at h
  · intro sel h; simp [Solver.start] at h

theorem SolverState.inflight_cancel {s : SolverState P S V M Pr} (h : s.phase = .cancel) :
    s.inflight = some s.next := by simp [SolverState.inflight, h]
theorem SolverState.inflight_choosing {s : SolverState P S V M Pr} {p : P} {t : Term S}
    (h : s.phase = .choosing p t) : s.inflight = some s.next := by simp [SolverState.inflight, h]
theorem SolverState.inflight_fetching {s : SolverState P S V M Pr} {p : P} {v : V}
    (h : s.phase = .fetching p v) : s.inflight = some s.next := by simp [SolverState.inflight, h]
theorem SolverState.inflight_prioritizing {s : SolverState P S V M Pr} {c : P × S} {r : List (P × S)}
    {a : List (P × Pr)} (h : s.phase = .prioritizing c r a) : s.inflight = none := by
  simp [SolverState.inflight, h]
theorem SolverState.inflight_picking {s : SolverState P S V M Pr} {a : List (P × Pr)}
    (h : s.phase = .picking a) : s.inflight = none := by simp [SolverState.inflight, h]

theorem rinv'_finish' (s : SolverState P S V M Pr) (r : Request P S V M Pr E)
    (hr : ∀ sel, r = .solution sel → s.st.ps.WF ∧
      (∀ p pa set, s.st.ps.getPA p = some pa → pa.inter ≠ .derivations (.pos set)) ∧
      s.st.ps.extractSolution = .ok sel) : RInv' (Solver.finish s r) := by
  refine ⟨?_, ?_, ?_, ?_, ?_, ?_, ?_⟩
  · intro h; exact absurd rfl h
  · intro h; simp [Solver.finish] at h
  · intro _ _ _ h; simp [Solver.finish] at h
  · intro _ h; simp [Solver.finish] at h
  · intro _ _ h; simp [Solver.finish] at h
  · intro _ _ h; simp [Solver.finish] at h
  · intro sel h; exact hr sel h

theorem Incompat.noVersions_ok {p : P} {t : Term S} {inc : Incompat P S V M}
    (h : Incompat.noVersions (V := V) (M := M) p t = .ok inc) :
    inc.terms = [(p, t)] ∧ inc.asDependency = none := by
  unfold Incompat.noVersions at h
  split at h
  · injection h with h; subst h; exact ⟨rfl, rfl⟩
  · cases h

/-- the decision for the package in flight settles it -/
theorem decided_ok {st : State P S V M Pr} {p : P} {v : V} {t : Term S} {ps : PartialSolution P S V Pr}
    {debug : Bool} (hp : PInv st) (hfl : st.ps.InFlightOK p)
    (hterm : st.ps.termIntersectionForPackage p = some t) (hcont : t.contains v = true)
    (hps : st.ps.addDecision debug p v = .ok ps) :
    PInv { st with ps := ps } ∧ ps.QInv (some p) ∧ Pending { st with ps := ps } p := by
  obtain ⟨hall, hqn, pa, set, hpa, hinter⟩ := hfl
  have ht : t = .pos set := by
    simp only [PartialSolution.termIntersectionForPackage, hpa, Option.map_some, hinter, AssignInter.term] at hterm
    injection hterm with hterm; exact hterm.symm
  subst ht
  have hw' := PartialSolution.addDecision_wf' hp.wf hps hpa hinter hcont hqn
  have hall' := PartialSolution.addDecision_allQ hp.wf.wf hall hps hpa hinter
  exact ⟨⟨hw', hp.cache⟩, hall'.qInv.weaken _, Or.inl ((PartialSolution.qInv_none_iff _ p).1 hall'.qInv).2⟩

theorem rinv'_step (W : World P S V M) (hW : W.SetsValid) (root : P) (rv : V)
    (s : SolverState P S V M Pr) (req : Request P S V M Pr E) (a : Answer P S V M Pr E)
    (h0 : RInv W root rv (s, req)) (h : RInv' (s, req)) (ha : AnswerOK W req a) :
    RInv' (Solver.step s a) := by
  have hs : SInv W root rv s.st := h0.sinv
  unfold Solver.step
  split
  · -- finished
    rename_i hph
    refine ⟨fun hn => absurd hph hn, ?_, ?_, ?_, ?_, ?_, ?_⟩
    · intro h'; simp only at h'; rw [hph] at h'; cases h'
    · intro _ _ _ h'; simp only at h'; rw [hph] at h'; cases h'
    · intro _ h'; simp only at h'; rw [hph] at h'; cases h'
    · intro _ _ h'; simp only at h'; rw [hph] at h'; cases h'
    · intro _ _ h'; simp only at h'; rw [hph] at h'; cases h'
    · intro sel h'; cases h'
  · exact rinv'_finish s _ (by intro sel h'; cases h')
  · -- cancel, ok
    rename_i hph
    obtain ⟨hp, hq⟩ := h.live (by rw [hph]; intro e; cases e)
    rw [SolverState.inflight_cancel hph] at hq
    have hpend := h.cancel hph
    split
    · exact rinv'_finish s _ (by intro sel h'; cases h')
    · split
      · exact rinv'_finish _ _ (by intro sel h'; cases h')
      · exact rinv'_finish _ _ (by intro sel h'; cases h')
    · rename_i st hu
      obtain ⟨hp1, hq1⟩ := State.unitPropagation_settle W root rv hu hs hp hq hpend
      have hq1 := hq1 rfl
      split
      · exact rinv'_finish _ _ (by intro sel h'; cases h')
      · rename_i hL
        refine ⟨fun _ => ⟨hp1, hq1⟩, ?_, ?_, ?_, ?_, ?_, ?_⟩
        · intro h'; simp at h'
        · intro _ _ _ h'; simp at h'
        · intro acc h'
          simp only [Phase.picking.injEq] at h'
          subst h'
          exact ⟨⟨[], hL, rfl⟩, rfl⟩
        · intro _ _ h'; simp at h'
        · intro _ _ h'; simp at h'
        · intro sel h'; simp at h'
      · rename_i cur rest hL
        refine ⟨fun _ => ⟨hp1, hq1⟩, ?_, ?_, ?_, ?_, ?_, ?_⟩
        · intro h'; simp at h'
        · intro c r ac h'
          simp only [Phase.prioritizing.injEq] at h'
          obtain ⟨rfl, rfl, rfl⟩ := h'
          exact ⟨[], hL, rfl⟩
        · intro _ h'; simp at h'
        · intro _ _ h'; simp at h'
        · intro _ _ h'; simp at h'
        · intro sel h'; simp at h'
  · -- prioritizing
    rename_i cur rest acc pr hph
    obtain ⟨hp, hq⟩ := h.live (by rw [hph]; intro e; cases e)
    rw [SolverState.inflight_prioritizing hph] at hq
    obtain ⟨done, hL, hdone⟩ := h.prioritizing _ _ _ hph
    simp only
    split
    · refine ⟨fun _ => ⟨hp, hq⟩, ?_, ?_, ?_, ?_, ?_, ?_⟩
      · intro h'; simp at h'
      · intro _ _ _ h'; simp at h'
      · intro acc' h'
        simp only [Phase.picking.injEq] at h'
        subst h'
        exact ⟨⟨done ++ [cur], hL, by simp [hdone]⟩, rfl⟩
      · intro _ _ h'; simp at h'
      · intro _ _ h'; simp at h'
      · intro sel h'; simp at h'
    · rename_i nxt rest'
      refine ⟨fun _ => ⟨hp, hq⟩, ?_, ?_, ?_, ?_, ?_, ?_⟩
      · intro h'; simp at h'
      · intro c r ac h'
        simp only [Phase.prioritizing.injEq] at h'
        obtain ⟨rfl, rfl, rfl⟩ := h'
        exact ⟨done ++ [cur], by simpa using hL, by simp [hdone]⟩
      · intro _ h'; simp at h'
      · intro _ _ h'; simp at h'
      · intro _ _ h'; simp at h'
      · intro sel h'; simp at h'
  · -- picking
    rename_i acc o hph
    obtain ⟨hp, hq⟩ := h.live (by rw [hph]; intro e; cases e)
    rw [SolverState.inflight_picking hph] at hq
    obtain ⟨⟨L, hL, hLk⟩, hreq⟩ := h.picking _ hph
    have hw1 : (s.st.ps.afterPrioritize acc).WF' :=
      PartialSolution.afterPrioritize_wf' hp.wf acc
        (fun q hq' => PartialSolution.toPrioritize_sound hp.wf.wf hL q (hLk ▸ hq'))
    have hall : (s.st.ps.afterPrioritize acc).AllQ none := PartialSolution.afterPrioritize_allQ hq hL acc hLk
    simp only
    split
    · split
      · exact rinv'_finish s _ (by intro sel h'; cases h')
      · rename_i hempty
        split
        · exact rinv'_finish _ _ (by intro sel h'; cases h')
        · rename_i sel hsel
          apply rinv'_finish'
          intro sel' h'
          injection h' with h'; subst h'
          refine ⟨hw1.wf, ?_, hsel⟩
          intro p pa set hpa hinter
          obtain ⟨i, _, hi⟩ := PartialSolution.getElem_of_getPA hpa
          have := hall i p pa set hi hinter (by simp)
          have he : (s.st.ps.afterPrioritize acc).queue = [] := by
            cases hq' : (s.st.ps.afterPrioritize acc).queue with
            | nil => rfl
            | cons x xs => rw [hq'] at hempty; simp at hempty
          rw [he] at this
          simp [SmallMap.get] at this
    · rename_i p
      split
      · exact rinv'_finish s _ (by intro sel h'; cases h')
      · rename_i hmax
        have hw2 := PartialSolution.queueRemove_wf' hw1 p
        have hall2 := PartialSolution.queueRemove_allQ hall p
        split
        · exact rinv'_finish _ _ (by intro sel h'; cases h')
        · rename_i t ht
          split
          · exact rinv'_finish _ _ (by intro sel h'; cases h')
          · rename_i set hset
            have hget : ∃ pr, SmallMap.get (s.st.ps.afterPrioritize acc).queue p = some pr := by
              unfold Solver.isMaximal at hmax
              cases hg : SmallMap.get (s.st.ps.afterPrioritize acc).queue p with
              | none => rw [hg] at hmax; simp at hmax
              | some pr => exact ⟨pr, rfl⟩
            obtain ⟨pr, hpr⟩ := hget
            obtain ⟨pa, set', hpa, hinter⟩ := hw1.wf.queue_sub p pr (SmallMap.mem_of_get hpr)
            refine ⟨fun _ => ⟨⟨hw2, hp.cache⟩, hall2.qInv⟩, ?_, ?_, ?_, ?_, ?_, ?_⟩
            · intro h'; simp at h'
            · intro _ _ _ h'; simp at h'
            · intro _ h'; simp at h'
            · intro p' t' h'
              simp only [Phase.choosing.injEq] at h'
              obtain ⟨rfl, rfl⟩ := h'
              refine ⟨rfl, ht, hall2, ?_, pa, set', hpa, hinter⟩
              show SmallMap.get (SmallMap.remove (s.st.ps.afterPrioritize acc).queue p) p = none
              rw [SmallMap.get_remove _ hw1.wf.queue_keys, if_pos rfl]
            · intro _ _ h'; simp at h'
            · intro sel h'; simp at h'

  · -- choosing, error
    exact rinv'_finish s _ (by intro sel h'; cases h')
  · -- choosing, none
    rename_i p t hph
    obtain ⟨hp, hq⟩ := h.live (by rw [hph]; intro e; cases e)
    obtain ⟨hnext, hterm, hall, hqn, hpos⟩ := h.choosing p t hph
    obtain ⟨htv, set, hreq, hts⟩ := h0.choosing p t hph
    simp only at hnext hterm hall hqn hpos
    split
    · exact rinv'_finish s _ (by intro sel h'; cases h')
    · rename_i inc hinc
      obtain ⟨hterms, hdep⟩ := Incompat.noVersions_ok hinc
      split
      · exact rinv'_finish s _ (by intro sel h'; cases h')
      · rename_i st hadd
        obtain ⟨hp1, eps⟩ := State.addIncompatibility_pinv hadd hp
        refine rinv'_loopAgain s st hp1 ?_ ?_
        · rw [eps, hnext]; exact hall.qInv
        · rw [hnext]
          refine State.pending_single W root rv hterms hdep hadd hp hpos hterm ?_
          rw [Term.relationWith_self t htv]; intro e; cases e
  · -- choosing, some v
    rename_i p t v hph
    obtain ⟨hp, hq⟩ := h.live (by rw [hph]; intro e; cases e)
    rw [SolverState.inflight_choosing hph] at hq
    obtain ⟨hnext, hterm, hfl⟩ := h.choosing p t hph
    simp only at hnext hterm hfl
    split
    · exact rinv'_finish s _ (by intro sel h'; cases h')
    · rename_i hcont
      have hcont' : t.contains v = true := by
        cases hc : t.contains v with
        | true => rfl
        | false => rw [hc] at hcont; simp at hcont
      simp only
      split
      · refine ⟨fun _ => ⟨hp, hq⟩, ?_, ?_, ?_, ?_, ?_, ?_⟩
        · intro h'; simp at h'
        · intro _ _ _ h'; simp at h'
        · intro _ h'; simp at h'
        · intro _ _ h'; simp at h'
        · intro p' v' h'
          simp only [Phase.fetching.injEq] at h'
          obtain ⟨rfl, rfl⟩ := h'
          exact ⟨hnext, hfl, t, hterm, hcont'⟩
        · intro sel h'; simp at h'
      · split
        · exact rinv'_finish _ _ (by intro sel h'; cases h')
        · rename_i ps hps
          obtain ⟨h1, h2, h3⟩ := decided_ok hp hfl hterm hcont' hps
          refine rinv'_loopAgain _ _ h1 ?_ ?_
          · show ps.QInv (some s.next)
            rw [hnext]; exact h2
          · show Pending _ s.next
            rw [hnext]; exact h3

  · -- fetching, error
    exact rinv'_finish s _ (by intro sel h'; cases h')
  · -- fetching, unavailable
    rename_i p v m hph
    obtain ⟨hp, hq⟩ := h.live (by rw [hph]; intro e; cases e)
    obtain ⟨hnext, ⟨hall, hqn, hpos⟩, t, hterm, hcont⟩ := h.fetching p v hph
    simp only at hnext hterm hall hqn hpos
    split
    · exact rinv'_finish s _ (by intro sel h'; cases h')
    · rename_i st hadd
      obtain ⟨hp1, eps⟩ := State.addIncompatibility_pinv hadd hp
      refine rinv'_loopAgain s st hp1 ?_ ?_
      · rw [eps, hnext]; exact hall.qInv
      · rw [hnext]
        refine State.pending_single W root rv (tp := Term.pos (VersionSet.singleton v)) rfl rfl hadd hp hpos hterm ?_
        refine Term.relationWith_ne_contradicted_of_common _ _ v (LawfulVersionSet.valid_singleton v)
          (PartialSolution.termIntersection_valid hs.ps hterm) ?_ hcont
        simp [Term.contains, (LawfulVersionSet.contains_singleton (S := S) v v).2 rfl]
  · -- fetching, available
    rename_i p v deps hph
    obtain ⟨hp, hq⟩ := h.live (by rw [hph]; intro e; cases e)
    obtain ⟨hnext, hfl, t, hterm, hcont⟩ := h.fetching p v hph
    simp only at hnext hterm hfl
    have hreq := h0.fetching p v hph
    simp only at hreq
    subst hreq
    split
    · exact rinv'_finish s _ (by intro sel h'; cases h')
    · rename_i st start stop hadd
      obtain ⟨hp1, eps⟩ := State.addIncompatibilityFromDependencies_pinv hadd hp
      simp only
      split
      · exact rinv'_finish _ _ (by intro sel h'; cases h')
      · rename_i ps hps
        have hfl1 : st.ps.InFlightOK p := eps ▸ hfl
        have hterm1 : st.ps.termIntersectionForPackage p = some t := eps ▸ hterm
        unfold PartialSolution.addVersion at hps
        split at hps
        · obtain ⟨h1, h2, h3⟩ := decided_ok hp1 hfl1 hterm1 hcont hps
          refine rinv'_loopAgain _ _ h1 ?_ ?_
          · show ps.QInv (some s.next)
            rw [hnext]; exact h2
          · show Pending _ s.next
            rw [hnext]; exact h3
        · simp only at hps
          split at hps
          · obtain ⟨h1, h2, h3⟩ := decided_ok hp1 hfl1 hterm1 hcont hps
            refine rinv'_loopAgain _ _ h1 ?_ ?_
            · show ps.QInv (some s.next)
              rw [hnext]; exact h2
            · show Pending _ s.next
              rw [hnext]; exact h3
          · rename_i hnall
            injection hps with hps; subst hps
            refine rinv'_loopAgain _ _ hp1 ?_ ?_
            · show st.ps.QInv (some s.next)
              rw [hnext]; exact hfl1.1.qInv
            · show Pending _ s.next
              rw [hnext]
              have hdecl : ∃ i ∈ (st.store.drop start).take (stop - start),
                  i.relation (fun q => if q = p then some (Term.exact v) else st.ps.termIntersectionForPackage q) =
                    .satisfied := by
                rw [List.all_eq_true] at hnall
                simp only [not_forall] at hnall
                obtain ⟨i, hi, hni⟩ := hnall
                refine ⟨i, hi, ?_⟩
                simpa using hni
              have := State.pending_declined W hW root rv hs hp hadd ha hfl.2.2 hterm hcont hdecl
              exact this

  · -- anything else
    exact rinv'_finish s _ (by intro sel h'; cases h')

end Pubgrub

/-
Helpers for PubgrubProofs/DisplayString.lean: list-level uniqueness of "join with a separator"
(`List.intercalate`) when the pieces do not contain a distinguished character of the separator.
-/
import PubgrubProofs.DisplayLaws

namespace Pubgrub.DisplayStringAux

variable {α : Type}

/-- splitting at the first occurrence of `c` is unique -/
theorem split_unique {c : α} : ∀ (x1 x2 r1 r2 : List α), c ∉ x1 → c ∉ x2 →
    x1 ++ c :: r1 = x2 ++ c :: r2 → x1 = x2 ∧ r1 = r2
  | [], [], r1, r2, _, _, h => by
    simp only [List.nil_append, List.cons.injEq, true_and] at h
    exact ⟨rfl, h⟩
  | [], b :: x2, r1, r2, _, h2, h => by
    simp only [List.nil_append, List.cons_append, List.cons.injEq] at h
    exact absurd (h.1 ▸ List.mem_cons_self) h2
  | a :: x1, [], r1, r2, h1, _, h => by
    simp only [List.nil_append, List.cons_append, List.cons.injEq] at h
    exact absurd (h.1 ▸ List.mem_cons_self) h1
  | a :: x1, b :: x2, r1, r2, h1, h2, h => by
    simp only [List.cons_append, List.cons.injEq] at h
    have h1' : c ∉ x1 := fun hc => h1 (List.mem_cons_of_mem _ hc)
    have h2' : c ∉ x2 := fun hc => h2 (List.mem_cons_of_mem _ hc)
    obtain ⟨e1, e2⟩ := split_unique x1 x2 r1 r2 h1' h2' h.2
    exact ⟨by rw [h.1, e1], e2⟩

/-- every element of a joined text comes from the separator or from a piece -/
theorem mem_intercalate {sep : List α} {c : α} : ∀ (l : List (List α)),
    c ∈ sep.intercalate l → c ∈ sep ∨ ∃ x ∈ l, c ∈ x
  | [], h => by simp at h
  | [x], h => by
    rw [List.intercalate_singleton] at h
    exact Or.inr ⟨x, List.mem_cons_self, h⟩
  | x :: y :: t, h => by
    rw [List.intercalate_cons_cons, List.mem_append, List.mem_append] at h
    rcases h with (h | h) | h
    · exact Or.inr ⟨x, List.mem_cons_self, h⟩
    · exact Or.inl h
    · rcases mem_intercalate (y :: t) h with h | ⟨z, hz, hc⟩
      · exact Or.inl h
      · exact Or.inr ⟨z, List.mem_cons_of_mem _ hz, hc⟩

/-- joining NON-EMPTY lists of `c`-free pieces with a separator `pre ++ c :: post` (`c ∉ pre`) is
injective -/
theorem intercalate_inj_cons {c : α} {pre post : List α} (hpre : c ∉ pre) :
    ∀ (t1 : List (List α)) (x1 x2 : List α) (t2 : List (List α)),
      (∀ x ∈ x1 :: t1, c ∉ x) → (∀ x ∈ x2 :: t2, c ∉ x) →
      (pre ++ c :: post).intercalate (x1 :: t1) = (pre ++ c :: post).intercalate (x2 :: t2) →
      x1 :: t1 = x2 :: t2
  | [], x1, x2, [], _, _, h => by
    simpa only [List.intercalate_singleton, List.cons.injEq, and_true] using h
  | [], x1, x2, y2 :: t2, h1, _, h => by
    exfalso
    rw [List.intercalate_singleton, List.intercalate_cons_cons] at h
    apply h1 x1 List.mem_cons_self
    rw [h]
    simp
  | y1 :: t1, x1, x2, [], _, h2, h => by
    exfalso
    rw [List.intercalate_singleton, List.intercalate_cons_cons] at h
    apply h2 x2 List.mem_cons_self
    rw [← h]
    simp
  | y1 :: t1, x1, x2, y2 :: t2, h1, h2, h => by
    rw [List.intercalate_cons_cons, List.intercalate_cons_cons] at h
    have e : ∀ (x r : List α), x ++ (pre ++ c :: post) ++ r = (x ++ pre) ++ c :: (post ++ r) := by
      intro x r; simp
    rw [e, e] at h
    have n1 : c ∉ x1 ++ pre := by
      rw [List.mem_append]; rintro (hc | hc)
      · exact h1 x1 List.mem_cons_self hc
      · exact hpre hc
    have n2 : c ∉ x2 ++ pre := by
      rw [List.mem_append]; rintro (hc | hc)
      · exact h2 x2 List.mem_cons_self hc
      · exact hpre hc
    obtain ⟨ea, eb⟩ := split_unique _ _ _ _ n1 n2 h
    have ex : x1 = x2 := List.append_cancel_right ea
    have er := List.append_cancel_left eb
    have := intercalate_inj_cons hpre t1 y1 y2 t2
      (fun x hx => h1 x (List.mem_cons_of_mem _ hx)) (fun x hx => h2 x (List.mem_cons_of_mem _ hx)) er
    rw [ex, this]

/-- joining lists of NON-EMPTY `c`-free pieces is injective (the lists themselves may be empty) -/
theorem intercalate_inj {c : α} {pre post : List α} (hpre : c ∉ pre) (l1 l2 : List (List α))
    (h1 : ∀ x ∈ l1, c ∉ x ∧ x ≠ []) (h2 : ∀ x ∈ l2, c ∉ x ∧ x ≠ [])
    (h : (pre ++ c :: post).intercalate l1 = (pre ++ c :: post).intercalate l2) : l1 = l2 := by
  have ne : ∀ (x : List α) (t : List (List α)), x ≠ [] →
      (pre ++ c :: post).intercalate (x :: t) ≠ [] := by
    intro x t hx
    cases t with
    | nil => simpa using hx
    | cons y t => simp [hx]
  cases l1 with
  | nil =>
    cases l2 with
    | nil => rfl
    | cons x2 t2 =>
      exact absurd h.symm (ne x2 t2 (h2 x2 List.mem_cons_self).2)
  | cons x1 t1 =>
    cases l2 with
    | nil => exact absurd h (ne x1 t1 (h1 x1 List.mem_cons_self).2)
    | cons x2 t2 =>
      exact intercalate_inj_cons hpre t1 x1 x2 t2 (fun x hx => (h1 x hx).1) (fun x hx => (h2 x hx).1) h

/-- `List.map` is injective when the function is injective on the members -/
theorem map_inj_of_mem {β γ : Type} (f : β → γ) : ∀ (l1 l2 : List β),
    (∀ x ∈ l1, ∀ y ∈ l2, f x = f y → x = y) → l1.map f = l2.map f → l1 = l2
  | [], [], _, _ => rfl
  | [], _ :: _, _, h => by simp at h
  | _ :: _, [], _, h => by simp at h
  | a :: l1, b :: l2, hf, h => by
    simp only [List.map_cons, List.cons.injEq] at h
    rw [hf a List.mem_cons_self b List.mem_cons_self h.1,
      map_inj_of_mem f l1 l2
        (fun x hx y hy => hf x (List.mem_cons_of_mem _ hx) y (List.mem_cons_of_mem _ hy)) h.2]

end Pubgrub.DisplayStringAux

/-
Helpers for `PSInvariant.lean`, part 9: when `add_version` declines the decision, one of the new
dependency incompatibilities (or the merged one that replaced it) is a trigger for the package.
-/
import PubgrubProofs.PSInvariantAux8

set_option linter.unusedSectionVars false
set_option linter.unusedVariables false

namespace Pubgrub
open VersionSet

section PS
variable {P S V M Pr : Type} [DecidableEq P] [VersionSet S V] [DecidableEq S]
  [LawfulVersionSet S V]

namespace Incompat

theorem relationGo_ne_satisfied (terms : P → Option (Term S)) :
    ∀ (l : List (P × Term S)) (rel : Relation P), rel ≠ .satisfied → relationGo terms rel l ≠ .satisfied := by
  intro l
  induction l with
  | nil => intro rel h; simpa [relationGo] using h
  | cons x rest ih =>
    intro rel h
    obtain ⟨q, t⟩ := x
    unfold relationGo
    split
    · exact ih rel h
    · intro e; cases e
    · rw [if_neg h]; intro e; cases e

/-- if the relation is `satisfied`, every term is satisfied -/
theorem relationGo_satisfied_terms (terms : P → Option (Term S)) :
    ∀ (l : List (P × Term S)), relationGo terms .satisfied l = .satisfied →
      ∀ q t, (q, t) ∈ l → ∃ o, terms q = some o ∧ t.relationWith o = .satisfied := by
  intro l
  induction l with
  | nil => intro _ q t h; cases h
  | cons x rest ih =>
    intro h q t hm
    obtain ⟨q0, t0⟩ := x
    unfold relationGo at h
    split at h
    · rename_i hrel
      rcases List.mem_cons.1 hm with e | e
      · injection e with e1 e2; subst e1; subst e2
        cases ho : terms q with
        | none => rw [ho] at hrel; cases hrel
        | some o =>
          rw [ho] at hrel
          simp only [Option.map_some, Option.some.injEq] at hrel
          exact ⟨o, rfl, hrel⟩
      · exact ih h q t e
    · cases h
    · simp only [if_true] at h
      exact absurd h (relationGo_ne_satisfied terms rest _ (by intro e; cases e))

theorem mem_fromDependency_terms {p q : P} (s t : S) (h : p ≠ q) (q' : P) (t' : Term S) :
    (q', t') ∈ (fromDependency (M := M) (V := V) p s (q, t)).terms ↔
      (q', t') = (p, Term.pos s) ∨ (t ≠ (empty : S) ∧ (q', t') = (q, Term.neg t)) := by
  simp only [fromDependency, if_neg h.symm]
  split
  · rename_i he; simp [he]
  · rename_i he; simp [he]

/-- what `merge_dependents` returns on two good incompatibilities -/
theorem mergeDependents_spec (W : World P S V M) (root : P) (rv : V) (store : List (Incompat P S V M))
    (a b : Nat) (ia ib : Incompat P S V M)
    (ga : ia.Good W root rv store a) (gb : ib.Good W root rv store b)
    (r : Incompat P S V M) (hr : mergeDependents ia ib = .ok (some r)) :
    ∃ p1 p2 s1 s2 t, p1 ≠ p2 ∧ ia.kind = .fromDependencyOf p1 s1 p2 t ∧
      ia.terms = (fromDependency (M := M) p1 s1 (p2, t)).terms ∧
      ib.terms = (fromDependency (M := M) p1 s2 (p2, t)).terms ∧
      LawfulVersionSet.Valid V s1 ∧ LawfulVersionSet.Valid V s2 ∧
      r = fromDependency p1 (union s1 s2) (p2, t) := by
  unfold mergeDependents at hr
  cases ha : ia.asDependency with
  | none => simp [ha] at hr
  | some pa =>
    obtain ⟨p1, p2⟩ := pa
    cases hb : ib.asDependency with
    | none => simp [ha, hb] at hr
    | some o =>
      simp only [ha, hb] at hr
      by_cases ho : (p1, p2) ≠ o
      · simp [ho] at hr
      · rw [if_neg ho] at hr
        have ho : (p1, p2) = o := not_not.mp ho
        subst ho
        obtain ⟨s1, t1, hka, hne⟩ := asDependency_some ha
        obtain ⟨s2, t2, hkb, _⟩ := asDependency_some hb
        have ka := ga.kind
        simp only [KindTrue, hka] at ka
        have kb := gb.kind
        simp only [KindTrue, hkb] at kb
        obtain ⟨da, vs1, vt1, hta⟩ := ka
        obtain ⟨db, vs2, vt2, htb⟩ := kb
        obtain ⟨a1, a2⟩ := get_fromDependency_terms (M := M) p1 p2 s1 t1 hne
        obtain ⟨b1, b2⟩ := get_fromDependency_terms (M := M) p1 p2 s2 t2 hne
        rw [← hta] at a1 a2
        rw [← htb] at b1 b2
        simp only [Incompat.get, a1, a2, b1, b2, unwrapOr, unwrapPositive, bind, Except.bind, pure,
          Except.pure] at hr
        have main : t1 = t2 ∧ r = fromDependency p1 (union s1 s2) (p2, t1) := by
          by_cases e1 : t1 = (empty : S) <;> by_cases e2 : t2 = (empty : S)
          · simp [e1, e2] at hr
            exact ⟨by rw [e1, e2], by rw [← hr, e1]⟩
          · simp [e1, e2] at hr
          · simp [e1, e2] at hr
          · simp only [if_neg e1, if_neg e2] at hr
            by_cases e : t1 = t2
            · subst e
              simp [unwrapNegative] at hr
              exact ⟨rfl, hr.symm⟩
            · simp [e] at hr
        obtain ⟨rfl, rfl⟩ := main
        exact ⟨p1, p2, s1, s2, t1, hne, hka, hta, htb, vs1, vs2, rfl⟩

end Incompat

/-- an incompatibility that will trigger for `p` as long as the term of `p` contains `v` -/
def SemOK (ps : PartialSolution P S V Pr) (p : P) (v : V) (inc : Incompat P S V M) : Prop :=
  (∀ q t, (q, t) ∈ inc.terms → q ≠ p →
    ∃ o, ps.termIntersectionForPackage q = some o ∧ t.relationWith o = .satisfied) ∧
  ∃ tp, inc.get p = some tp ∧ tp.Valid ∧ tp.contains v = true

theorem semOK_merge (W : World P S V M) (root : P) (rv : V) (store : List (Incompat P S V M))
    (ps : PartialSolution P S V Pr) (p : P) (v : V)
    (a b : Nat) (ia ib : Incompat P S V M)
    (ga : ia.Good W root rv store a) (gb : ib.Good W root rv store b)
    (hka : ∃ s q t, ia.kind = .fromDependencyOf p s q t)
    (r : Incompat P S V M) (hr : Incompat.mergeDependents ia ib = .ok (some r))
    (h : SemOK ps p v ia ∨ SemOK ps p v ib) : SemOK ps p v r ∧ p ∈ r.terms.map Prod.fst := by
  obtain ⟨p1, p2, s1, s2, t, hne, ka, ta, tb, vs1, vs2, rfl⟩ :=
    Incompat.mergeDependents_spec W root rv store a b ia ib ga gb r hr
  obtain ⟨s0, q0, t0, hka⟩ := hka
  rw [ka] at hka
  injection hka with e1 _ _ _
  subst e1
  obtain ⟨ga1, ga2⟩ := Incompat.get_fromDependency_terms (M := M) p1 p2 s1 t hne
  obtain ⟨gb1, gb2⟩ := Incompat.get_fromDependency_terms (M := M) p1 p2 s2 t hne
  obtain ⟨gr1, gr2⟩ := Incompat.get_fromDependency_terms (M := M) p1 p2 (union s1 s2) t hne
  rw [← ta] at ga1
  rw [← tb] at gb1
  refine ⟨⟨?_, Term.pos (union s1 s2), gr1, LawfulVersionSet.valid_union _ _ vs1 vs2, ?_⟩, ?_⟩
  · intro q t' hm hq
    rw [Incompat.mem_fromDependency_terms _ _ hne] at hm
    rcases hm with e | ⟨hte, e⟩
    · injection e with e1 _; exact absurd e1 hq
    · injection e with e1 e2; subst e1; subst e2
      have hma : (q, Term.neg t) ∈ ia.terms := by
        rw [ta, Incompat.mem_fromDependency_terms _ _ hne]; exact Or.inr ⟨hte, rfl⟩
      have hmb : (q, Term.neg t) ∈ ib.terms := by
        rw [tb, Incompat.mem_fromDependency_terms _ _ hne]; exact Or.inr ⟨hte, rfl⟩
      rcases h with h | h
      · exact h.1 q _ hma hq
      · exact h.1 q _ hmb hq
  · show contains (union s1 s2) v = true
    rw [LawfulVersionSet.contains_union _ _ _ vs1 vs2, Bool.or_eq_true]
    rcases h with h | h
    · obtain ⟨tp, htp, _, hc⟩ := h.2
      unfold Incompat.get at htp
      rw [ga1] at htp; injection htp with htp; subst htp
      exact Or.inl hc
    · obtain ⟨tp, htp, _, hc⟩ := h.2
      unfold Incompat.get at htp
      rw [gb1] at htp; injection htp with htp; subst htp
      exact Or.inr hc
  · rw [List.mem_map]
    exact ⟨(p1, Term.pos (union s1 s2)),
      (Incompat.mem_fromDependency_terms _ _ hne _ _).2 (Or.inl rfl), rfl⟩

/-- `c` is listed in the index of `p` -/
def MemIndex (idx : List (P × List Nat)) (p : P) (c : Nat) : Prop :=
  ∃ ids, SmallMap.get idx p = some ids ∧ c ∈ ids

theorem MemIndex.updIndex {idx : List (P × List Nat)} {p : P} {c : Nat} (h : MemIndex idx p c)
    (k : P) (f : List Nat → List Nat) (hf : ∀ ids, c ∈ ids → c ∈ f ids) :
    MemIndex (State.updIndex idx k f) p c := by
  obtain ⟨ids, hids, hc⟩ := h
  by_cases hk : p = k
  · subst hk
    refine ⟨_, State.get_updIndex_self idx p f, hf _ ?_⟩
    rw [hids]; exact hc
  · exact ⟨ids, by rw [State.get_updIndex_ne idx k p f hk]; exact hids, hc⟩

theorem MemIndex.foldl {p : P} {c : Nat} (f : List Nat → List Nat) (hf : ∀ ids, c ∈ ids → c ∈ f ids)
    (terms : List (P × Term S)) :
    ∀ (idx : List (P × List Nat)), MemIndex idx p c →
      MemIndex (terms.foldl (fun idx kv => State.updIndex idx kv.1 f) idx) p c := by
  induction terms with
  | nil => intro idx h; exact h
  | cons x rest ih => intro idx h; exact ih _ (h.updIndex x.1 f hf)

theorem MemIndex.foldl_new {p : P} {c : Nat} (f : List Nat → List Nat) (hf : ∀ ids, c ∈ ids → c ∈ f ids)
    (hnew : ∀ ids, c ∈ f ids) (terms : List (P × Term S)) (hp : p ∈ terms.map Prod.fst) :
    ∀ (idx : List (P × List Nat)),
      MemIndex (terms.foldl (fun idx kv => State.updIndex idx kv.1 f) idx) p c := by
  induction terms with
  | nil => cases hp
  | cons x rest ih =>
    intro idx
    simp only [List.foldl_cons]
    by_cases hx : p = x.1
    · apply MemIndex.foldl f hf
      subst hx
      exact ⟨_, State.get_updIndex_self idx x.1 f, hnew _⟩
    · apply ih
      simp only [List.map_cons, List.mem_cons] at hp
      rcases hp with hp | hp
      · exact absurd hp hx
      · exact hp

/-- a stored incompatibility, indexed under `p`, that will trigger for `p` -/
def Cand (st0 : State P S V M Pr) (p : P) (v : V) (st' : State P S V M Pr) (c : Nat) : Prop :=
  st0.store.length ≤ c ∧ MemIndex st'.incompatibilities p c ∧
    ∃ inc, st'.store[c]? = some inc ∧ SemOK st0.ps p v inc

namespace State

/-- one `merge_incompatibility` of a dependency incompatibility of `p` keeps a candidate, or makes the
new incompatibility (or the merged one) a candidate -/
theorem cand_step (W : World P S V M) (root : P) (rv : V) {st0 st' st'' : State P S V M Pr} {p : P} {v : V}
    {id' : Nat} (hs : SInv W root rv st') (hlen : st0.store.length ≤ st'.store.length)
    (hm : mergeIncompatibility st' id' = .ok st'') (hid' : st0.store.length ≤ id')
    {self : Incompat P S V M} (hself : st'.store[id']? = some self)
    (hkind : ∃ s q t, self.kind = .fromDependencyOf p s q t) (hkey : p ∈ self.terms.map Prod.fst)
    (h : (∃ c, Cand st0 p v st' c) ∨ SemOK st0.ps p v self) :
    ∃ c, Cand st0 p v st'' c := by
  obtain ⟨_, _, _, inc, hinc, hc⟩ := mergeIncompatibility_spec hm
  rw [hself] at hinc; injection hinc with hinc; subst hinc
  rcases hc with ⟨e1, e2⟩ | ⟨past, pastInc, merged, hpast, hmd, e1, e2⟩
  · rcases h with ⟨c, hc1, hc2, incc, hc3, hc4⟩ | h
    · refine ⟨c, hc1, ?_, incc, by rw [e1]; exact hc3, hc4⟩
      rw [e2]
      exact MemIndex.foldl _ (fun ids hh => List.mem_append_left _ hh) _ _ hc2
    · refine ⟨id', hid', ?_, self, by rw [e1]; exact hself, h⟩
      rw [e2]
      exact MemIndex.foldl_new _ (fun ids hh => List.mem_append_left _ hh)
        (fun ids => List.mem_append_right _ (List.mem_singleton.2 rfl)) _ hkey _
  · have gself := hs.store id' self hself
    have gpast := hs.store past pastInc hpast
    have hnew : ∀ (hh : SemOK st0.ps p v self ∨ SemOK st0.ps p v pastInc),
        ∃ c, Cand st0 p v st'' c := by
      intro hh
      obtain ⟨hsem, hk⟩ := semOK_merge W root rv st'.store st0.ps p v id' past self pastInc gself gpast
        hkind merged hmd hh
      refine ⟨st'.store.length, hlen, ?_, merged, ?_, hsem⟩
      · rw [e2]
        exact MemIndex.foldl_new _ (fun ids hh => List.mem_append_left _ hh)
          (fun ids => List.mem_append_right _ (List.mem_singleton.2 rfl)) _ hk _
      · rw [e1, List.getElem?_append_right (Nat.le_refl _)]; simp
    rcases h with ⟨c, hc1, hc2, incc, hc3, hc4⟩ | h
    · by_cases hcp : c = past
      · subst hcp
        rw [hpast] at hc3; injection hc3 with hc3; subst hc3
        exact hnew (Or.inr hc4)
      · refine ⟨c, hc1, ?_, incc, ?_, hc4⟩
        · rw [e2]
          apply MemIndex.foldl _ (fun ids hh => List.mem_append_left _ hh)
          apply MemIndex.foldl _ _ _ _ hc2
          intro ids hh
          exact List.mem_filter.2 ⟨hh, by simpa using hcp⟩
        · rw [e1, List.getElem?_append_left (List.getElem?_eq_some_iff.1 hc3).1]; exact hc3
    · exact hnew (Or.inl h)

theorem cand_fold (W : World P S V M) (root : P) (rv : V) (st0 : State P S V M Pr) (p : P) (v : V)
    (base : List (Incompat P S V M)) :
    ∀ (ids : List Nat) (st' st'' : State P S V M Pr),
    ids.foldlM (m := R) (fun st id => mergeIncompatibility st id) st' = .ok st'' →
    SInv W root rv st' → st0.store.length ≤ st'.store.length →
    (∀ (j : Nat) x, base[j]? = some x → st'.store[j]? = some x) →
    (∀ id ∈ ids, st0.store.length ≤ id ∧ ∃ self, base[id]? = some self ∧
      (∃ s q t, self.kind = .fromDependencyOf p s q t) ∧ p ∈ self.terms.map Prod.fst) →
    ((∃ c, Cand st0 p v st' c) ∨ (∃ k ∈ ids, ∃ self, base[k]? = some self ∧ SemOK st0.ps p v self)) →
    ∃ c, Cand st0 p v st'' c := by
  intro ids
  induction ids with
  | nil =>
    intro st' st'' hr hs hlen hpre hids h
    simp only [List.foldlM_nil, pure, Except.pure] at hr
    injection hr with hr; subst hr
    rcases h with h | ⟨k, hk, _⟩
    · exact h
    · cases hk
  | cons id' rest ih =>
    intro st' st'' hr hs hlen hpre hids h
    simp only [List.foldlM_cons, bind, Except.bind] at hr
    split at hr
    · cases hr
    rename_i st1 h1
    have hs1 := mergeIncompatibility_inv W root rv h1 hs
    obtain ⟨_, _, _, inc, hinc, hc⟩ := mergeIncompatibility_spec h1
    have hpre1 : ∀ (j : Nat) x, st'.store[j]? = some x → st1.store[j]? = some x := by
      intro j x hj
      rcases hc with ⟨e1, _⟩ | ⟨_, _, _, _, _, e1, _⟩
      · rw [e1]; exact hj
      · rw [e1, List.getElem?_append_left (List.getElem?_eq_some_iff.1 hj).1]; exact hj
    have hlen1 : st0.store.length ≤ st1.store.length := by
      rcases hc with ⟨e1, _⟩ | ⟨_, _, _, _, _, e1, _⟩
      · rw [e1]; exact hlen
      · rw [e1, List.length_append]; omega
    obtain ⟨hid', self, hself, hkind, hkey⟩ := hids id' List.mem_cons_self
    refine ih st1 st'' hr hs1 hlen1 (fun j x hj => hpre1 j x (hpre j x hj))
      (fun id hid => hids id (List.mem_cons_of_mem _ hid)) ?_
    rcases h with h | ⟨k, hk, selfk, hselfk, hsem⟩
    · exact Or.inl (cand_step W root rv hs hlen h1 hid' (hpre _ _ hself) hkind hkey (Or.inl h))
    · rcases List.mem_cons.1 hk with e | e
      · subst e
        rw [hself] at hselfk; injection hselfk with hselfk; subst hselfk
        exact Or.inl (cand_step W root rv hs hlen h1 hid' (hpre _ _ hself) hkind hkey (Or.inr hsem))
      · exact Or.inr ⟨k, e, selfk, hselfk, hsem⟩

end State

namespace State

theorem foldlM_merge_prefix :
    ∀ (ids : List Nat) (st' st'' : State P S V M Pr),
    ids.foldlM (m := R) (fun st id => mergeIncompatibility st id) st' = .ok st'' →
    ∀ (j : Nat) x, st'.store[j]? = some x → st''.store[j]? = some x := by
  intro ids
  induction ids with
  | nil =>
    intro st' st'' hr j x hj
    simp only [List.foldlM_nil, pure, Except.pure] at hr
    injection hr with hr; subst hr; exact hj
  | cons id' rest ih =>
    intro st' st'' hr j x hj
    simp only [List.foldlM_cons, bind, Except.bind] at hr
    split at hr
    · cases hr
    rename_i st1 h1
    obtain ⟨_, _, _, inc, hinc, hc⟩ := mergeIncompatibility_spec h1
    apply ih st1 st'' hr j x
    rcases hc with ⟨e1, _⟩ | ⟨_, _, _, _, _, e1, _⟩
    · rw [e1]; exact hj
    · rw [e1, List.getElem?_append_left (List.getElem?_eq_some_iff.1 hj).1]; exact hj

theorem foldlM_merge_contradicted :
    ∀ (ids : List Nat) (st' st'' : State P S V M Pr),
    ids.foldlM (m := R) (fun st id => mergeIncompatibility st id) st' = .ok st'' →
    st''.contradicted = st'.contradicted := by
  intro ids
  induction ids with
  | nil =>
    intro st' st'' hr
    simp only [List.foldlM_nil, pure, Except.pure] at hr
    injection hr with hr; subst hr; rfl
  | cons id' rest ih =>
    intro st' st'' hr
    simp only [List.foldlM_cons, bind, Except.bind] at hr
    split at hr
    · cases hr
    rename_i st1 h1
    obtain ⟨_, e, _⟩ := mergeIncompatibility_spec h1
    rw [ih st1 st'' hr, e]

theorem fromDependency_key (p : P) (s : S) (dep : P × S) :
    p ∈ (Incompat.fromDependency (M := M) (V := V) p s dep).terms.map Prod.fst := by
  unfold Incompat.fromDependency
  simp only
  split
  · simp
  · split <;> simp

/-- when `add_version` declines the decision because one of the new dependency incompatibilities
would be satisfied, the next propagation for `p` finds a trigger -/
theorem pending_declined (W : World P S V M) (hW : W.SetsValid) (root : P) (rv : V)
    {st st1 : State P S V M Pr} {p : P} {v : V} {deps : List (P × S)} {start stop : Nat}
    (hs : SInv W root rv st) (h : PInv st)
    (hadd : st.addIncompatibilityFromDependencies p v deps = .ok (st1, start, stop))
    (hd : W.deps p v = .available deps)
    (hpos : st.ps.InflightPos p) {cur : Term S} (hcur : st.ps.termIntersectionForPackage p = some cur)
    (hv : cur.contains v = true)
    (hdecl : ∃ i ∈ (st1.store.drop start).take (stop - start),
      i.relation (fun q => if q = p then some (Term.exact v) else st1.ps.termIntersectionForPackage q) =
        .satisfied) :
    Pending st1 p := by
  obtain ⟨hp1, eps⟩ := addIncompatibilityFromDependencies_pinv hadd h
  have hs1 := addIncompatibilityFromDependencies_inv W hW root rv hadd hs hd
  unfold addIncompatibilityFromDependencies at hadd
  simp only [bind, Except.bind, pure, Except.pure] at hadd
  split at hadd
  · cases hadd
  rename_i st1' h1
  injection hadd with hadd
  injection hadd with e1 e2
  subst e1
  injection e2 with e2 e3
  subst e2; subst e3
  generalize hnews : deps.map (fun dep => Incompat.fromDependency (M := M) p (VersionSet.singleton v) dep) = news
    at h1 hdecl
  have hnewsj : ∀ (j : Nat) x, news[j]? = some x → ∃ dep, x = Incompat.fromDependency p (VersionSet.singleton v) dep := by
    intro j x hj
    have := List.mem_of_getElem? hj
    rw [← hnews, List.mem_map] at this
    obtain ⟨dep, _, e⟩ := this
    exact ⟨dep, e.symm⟩
  have hsA : SInv W root rv ({ st with store := st.store ++ news } : State P S V M Pr) := by
    refine ⟨?_, hs.root, hs.rv, hs.ps⟩
    apply storeInv_append W root rv _ _ hs.store
    intro k i hi
    have hmem := List.mem_of_getElem? hi
    rw [← hnews, List.mem_map] at hmem
    obtain ⟨d, hdm, rfl⟩ := hmem
    exact Incompat.fromDependency_good W hW root rv _ _ p v deps hd d hdm
  have hpre := foldlM_merge_prefix _ _ _ h1
  simp only [List.length_append, Nat.add_sub_cancel_left] at h1 hdecl
  obtain ⟨i, hi, hrel⟩ := hdecl
  obtain ⟨j, hj⟩ := List.getElem?_of_mem hi
  rw [List.getElem?_take] at hj
  split at hj
  · rename_i hjlt
    rw [List.getElem?_drop] at hj
    have hbj : (st.store ++ news)[st.store.length + j]? = some (news[j]) := by
      rw [List.getElem?_append_right (Nat.le_add_right _ _), Nat.add_sub_cancel_left]
      exact List.getElem?_eq_getElem hjlt
    have := hpre _ _ hbj
    rw [hj] at this; injection this with this
    obtain ⟨dep, hdep⟩ := hnewsj j _ (List.getElem?_eq_getElem hjlt)
    have gi := hsA.store _ _ hbj
    rw [← this] at hdep gi hbj
    -- the satisfied incompatibility will trigger
    have hsem : SemOK st.ps p v i := by
      have hall := Incompat.relationGo_satisfied_terms _ i.terms hrel
      have hkey : p ∈ i.terms.map Prod.fst := by rw [hdep]; exact fromDependency_key p _ dep
      rw [List.mem_map] at hkey
      obtain ⟨⟨p', tp⟩, hmem, rfl⟩ := hkey
      refine ⟨?_, tp, SmallMap.get_of_mem gi.nodup hmem, gi.sets _ _ hmem, ?_⟩
      · intro q t hm hq
        obtain ⟨o, ho, hsat⟩ := hall q t hm
        simp only [if_neg hq] at ho
        exact ⟨o, eps ▸ ho, hsat⟩
      · obtain ⟨o, ho, hsat⟩ := hall _ tp hmem
        simp only [if_true, Option.some.injEq] at ho
        subst ho
        rw [Term.contains_eq_eval]
        exact Term.relationWith_satisfied_sound tp _ (gi.sets _ _ hmem) (Term.valid_exact v) hsat (some v)
          ((Term.eval_exact v _).2 rfl)
    obtain ⟨c, hc1, ⟨ids, hids, hcm⟩, incc, hc3, hsemc⟩ := cand_fold W root rv st p v (st.store ++ news)
      _ _ _ h1 hsA (by simp) (fun _ _ hh => hh) (by
        intro id hid
        rw [List.mem_range'_1] at hid
        refine ⟨hid.1, ?_⟩
        have hlt : id - st.store.length < news.length := by omega
        obtain ⟨dep', hdep'⟩ := hnewsj _ _ (List.getElem?_eq_getElem hlt)
        refine ⟨news[id - st.store.length], ?_, ?_, ?_⟩
        · rw [List.getElem?_append_right hid.1]; exact List.getElem?_eq_getElem hlt
        · rw [hdep']; exact ⟨_, _, _, rfl⟩
        · rw [hdep']; exact fromDependency_key p _ dep')
      (Or.inr ⟨st.store.length + j, by rw [List.mem_range'_1]; omega, i, hbj, hsem⟩)
    obtain ⟨tp, htp, htpv, htpc⟩ := hsemc.2
    refine Or.inr ⟨eps ▸ hpos, ids, hids, c, hcm, ?_, incc, hc3, ?_, tp, cur, htp, eps ▸ hcur, ?_⟩
    · have hcc := foldlM_merge_contradicted _ _ _ h1
      simp only at hcc
      rw [hcc]
      cases hg : SmallMap.get st.contradicted c with
      | none => rfl
      | some lvl =>
        have := h.cache _ (SmallMap.mem_of_get hg)
        simp only at this
        omega
    · intro q t hm hq
      rw [eps]; exact hsemc.1 q t hm hq
    · exact Term.relationWith_ne_contradicted_of_common tp cur v htpv
        (PartialSolution.termIntersection_valid hs.ps hcur) htpc hv
  · cases hj

end State

end PS
end Pubgrub

/-
Property C10 — Range operations are exact set operations with canonical results.

"For ranges built from the public constructors (between requires lower < upper) and closed under
complement, union and intersection, membership obeys the set laws pointwise, is_disjoint and
subset_of agree with those definitions, and two ranges compare equal exactly when they contain the
same points of a dense order.  In particular a∩b == a iff a ⊆ b and a∩b == ∅ iff they are disjoint."

All theorems are about the model `PubgrubModel/Range.lean` (transcription of `/repo/src/range.rs`),
for every linearly ordered version type `V`; the last group additionally assumes a dense order
without end points (and non-empty), where canonical form = semantic equality.
-/
import PubgrubProofs.RangeSet
import PubgrubProofs.RangeRel

namespace Pubgrub.C10
open Pubgrub Pubgrub.Range Bound

variable {V : Type} [LinearOrder V]

/-- the ranges the property quantifies over: built from the public constructors and closed under
complement, union and intersection -/
inductive Built : Range V → Prop
  | empty : Built Range.empty
  | full : Built Range.full
  | singleton (v : V) : Built (Range.singleton v)
  | higherThan (v : V) : Built (Range.higherThan v)
  | strictlyHigherThan (v : V) : Built (Range.strictlyHigherThan v)
  | lowerThan (v : V) : Built (Range.lowerThan v)
  | strictlyLowerThan (v : V) : Built (Range.strictlyLowerThan v)
  | between (v1 v2 : V) (h : v1 < v2) : Built (Range.between v1 v2)
  | complement {a : Range V} : Built a → Built (Range.complement a)
  | union {a b : Range V} : Built a → Built b → Built (Range.union a b)
  | intersection {a b : Range V} : Built a → Built b → Built (Range.intersection a b)

/-- every such range is in the canonical form that `check_invariants` asserts -/
theorem C10_built_canonical {r : Range V} (h : Built r) : Range.WF r := by
  induction h with
  | empty => exact wf_empty
  | full => exact wf_full
  | singleton v => exact wf_singleton v
  | higherThan v => exact wf_higherThan v
  | strictlyHigherThan v => exact wf_strictlyHigherThan v
  | lowerThan v => exact wf_lowerThan v
  | strictlyLowerThan v => exact wf_strictlyLowerThan v
  | between v1 v2 h => exact wf_between v1 v2 h
  | complement _ ih => exact wf_complement _ ih
  | union _ _ iha ihb => exact wf_union _ _ iha ihb
  | intersection _ _ iha ihb => exact wf_intersection _ _ iha ihb

/-- membership obeys the set laws pointwise -/
theorem C10_membership_laws {a b : Range V} (ha : Built a) (hb : Built b) (v : V) :
    Range.contains (Range.intersection a b) v = (Range.contains a v && Range.contains b v) ∧
    Range.contains (Range.union a b) v = (Range.contains a v || Range.contains b v) ∧
    Range.contains (Range.complement a) v = !Range.contains a v :=
  ⟨contains_intersection a b (C10_built_canonical ha) (C10_built_canonical hb) v,
   contains_union a b (C10_built_canonical ha) (C10_built_canonical hb) v,
   contains_complement a (C10_built_canonical ha) v⟩

/-- the constructors contain what they say -/
theorem C10_constructors (v w v2 : V) :
    Range.contains (Range.empty : Range V) w = false ∧
    Range.contains (Range.full : Range V) w = true ∧
    (Range.contains (Range.singleton v) w = true ↔ w = v) ∧
    (Range.contains (Range.higherThan v) w = true ↔ v ≤ w) ∧
    (Range.contains (Range.strictlyHigherThan v) w = true ↔ v < w) ∧
    (Range.contains (Range.lowerThan v) w = true ↔ w ≤ v) ∧
    (Range.contains (Range.strictlyLowerThan v) w = true ↔ w < v) ∧
    (Range.contains (Range.between v v2) w = true ↔ v ≤ w ∧ w < v2) :=
  ⟨contains_empty w, contains_full w, contains_singleton v w, contains_higherThan v w,
   contains_strictlyHigherThan v w, contains_lowerThan v w, contains_strictlyLowerThan v w,
   contains_between v v2 w⟩

/-- structural form of "in particular": the dedicated sweeps agree with the intersection sweep,
in every linear order -/
theorem C10_sweeps_agree_with_intersection {a b : Range V} (ha : Built a) (hb : Built b) :
    (Range.isDisjoint a b = true ↔ Range.intersection a b = Range.empty) ∧
    (Range.subsetOf a b = true ↔ Range.intersection a b = a) :=
  ⟨isDisjoint_iff_inter_empty a b (C10_built_canonical ha) (C10_built_canonical hb),
   subsetOf_iff_inter_eq a b (C10_built_canonical ha) (C10_built_canonical hb)⟩

section Dense
variable [DenselyOrdered V] [NoMinOrder V] [NoMaxOrder V] [Nonempty V]

omit [DenselyOrdered V] [NoMinOrder V] [NoMaxOrder V] [Nonempty V] in
private theorem contains_eq_iff_mem (a b : Range V) :
    (∀ v, Range.contains a v = Range.contains b v) ↔ ∀ v, Range.Mem v a ↔ Range.Mem v b := by
  constructor
  · intro h v
    rw [← contains_iff_mem, ← contains_iff_mem, h v]
  · intro h v
    rw [Bool.eq_iff_iff, contains_iff_mem, contains_iff_mem]
    exact h v

/-- two ranges compare equal exactly when they contain the same points of a dense order -/
theorem C10_eq_iff_same_points {a b : Range V} (ha : Built a) (hb : Built b) :
    a = b ↔ ∀ v, Range.contains a v = Range.contains b v := by
  constructor
  · rintro rfl v; rfl
  · intro h
    exact ext_of_dense a b (C10_built_canonical ha) (C10_built_canonical hb)
      ((contains_eq_iff_mem a b).1 h)

/-- `is_disjoint` agrees with its definition -/
theorem C10_isDisjoint_iff {a b : Range V} (ha : Built a) (hb : Built b) :
    Range.isDisjoint a b = true ↔ ∀ v, ¬ (Range.contains a v = true ∧ Range.contains b v = true) := by
  have wa := C10_built_canonical ha
  have wb := C10_built_canonical hb
  rw [isDisjoint_iff_inter_empty a b wa wb]
  constructor
  · intro h v hv
    have := contains_intersection a b wa wb v
    rw [h, hv.1, hv.2] at this
    simp [Range.contains] at this
  · intro h
    by_contra hne
    obtain ⟨v, hv⟩ := exists_mem_of_ne_nil _ (wf_intersection a b wa wb) hne
    have hc := (contains_iff_mem _ v).2 hv
    rw [contains_intersection a b wa wb v, Bool.and_eq_true] at hc
    exact h v hc

/-- `subset_of` agrees with its definition -/
theorem C10_subsetOf_iff {a b : Range V} (ha : Built a) (hb : Built b) :
    Range.subsetOf a b = true ↔ ∀ v, Range.contains a v = true → Range.contains b v = true := by
  have wa := C10_built_canonical ha
  have wb := C10_built_canonical hb
  rw [subsetOf_iff_inter_eq a b wa wb]
  constructor
  · intro h v hv
    have := contains_intersection a b wa wb v
    rw [h, hv] at this
    simpa using this.symm
  · intro h
    apply ext_of_dense _ _ (wf_intersection a b wa wb) wa
    apply (contains_eq_iff_mem _ _).1
    intro v
    rw [contains_intersection a b wa wb v]
    cases hav : Range.contains a v
    · simp
    · simp [h v hav]

/-- `a ∩ b == a` iff `a ⊆ b`, and `a ∩ b == ∅` iff disjoint — the two equalities the solver's term
reasoning relies on -/
theorem C10_inter_eq_self_iff_subset {a b : Range V} (ha : Built a) (hb : Built b) :
    Range.intersection a b = a ↔ ∀ v, Range.contains a v = true → Range.contains b v = true := by
  rw [← C10_subsetOf_iff ha hb,
    subsetOf_iff_inter_eq a b (C10_built_canonical ha) (C10_built_canonical hb)]

theorem C10_inter_eq_empty_iff_disjoint {a b : Range V} (ha : Built a) (hb : Built b) :
    Range.intersection a b = Range.empty ↔
      ∀ v, ¬ (Range.contains a v = true ∧ Range.contains b v = true) := by
  rw [← C10_isDisjoint_iff ha hb,
    isDisjoint_iff_inter_empty a b (C10_built_canonical ha) (C10_built_canonical hb)]
  rfl

end Dense

/-! Non-vacuity: concrete operands with touching bounds meet the hypotheses. -/
example : Built (Range.union (Range.between (1 : Nat) 2) (Range.between 2 3)) :=
  .union (.between 1 2 (by decide)) (.between 2 3 (by decide))
example : Built (Range.intersection (Range.complement (Range.singleton (2 : Nat)))
    (Range.union (Range.strictlyLowerThan 2) (Range.higherThan 2))) :=
  .intersection (.complement (.singleton 2)) (.union (.strictlyLowerThan 2) (.higherThan 2))

end Pubgrub.C10

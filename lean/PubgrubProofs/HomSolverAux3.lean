/-
Homomorphisms of version sets, part 3: commutation lemmas for `PubgrubModel/PartialSolution.lean`.
-/
import PubgrubProofs.HomSolverAux2

set_option linter.unusedSectionVars false
set_option linter.unnecessarySeqFocus false

namespace Pubgrub
open VersionSet

/-! ### monadic list functions in `Except` -/

section MonadicLists
variable {ε α α' β β' σ σ' : Type}

theorem filterMapM_map_comm (ga : α → α') (gb : β → β')
    (f : α → Except ε (Option β)) (f' : α' → Except ε (Option β'))
    (hf : ∀ a, f' (ga a) = (f a).map (Option.map gb)) (l : List α) :
    (l.map ga).filterMapM f' = (l.filterMapM f).map (List.map gb) := by
  induction l with
  | nil => rfl
  | cons a l ih =>
    simp only [List.map_cons, List.filterMapM_cons, hf, ih]
    cases f a with
    | error e => rfl
    | ok o =>
      cases o with
      | none => rfl
      | some b =>
        cases List.filterMapM f l <;> rfl

theorem mapM_map_comm (ga : α → α') (gb : β → β')
    (f : α → Except ε β) (f' : α' → Except ε β')
    (hf : ∀ a, f' (ga a) = (f a).map gb) (l : List α) :
    (l.map ga).mapM f' = (l.mapM f).map (List.map gb) := by
  induction l with
  | nil => rfl
  | cons a l ih =>
    simp only [List.map_cons, List.mapM_cons, hf, ih]
    cases f a with
    | error e => rfl
    | ok o => cases List.mapM f l <;> rfl

theorem foldlM_map_comm (gs : σ → σ') (ga : α → α')
    (f : σ → α → Except ε σ) (f' : σ' → α' → Except ε σ')
    (hf : ∀ s a, f' (gs s) (ga a) = (f s a).map gs) (l : List α) (s : σ) :
    (l.map ga).foldlM f' (gs s) = (l.foldlM f s).map gs := by
  induction l generalizing s with
  | nil => rfl
  | cons a l ih =>
    simp only [List.map_cons, List.foldlM_cons, hf]
    cases f s a with
    | error e => rfl
    | ok o => exact ih o

/-- the state is not mapped (only the elements) -/
theorem foldlM_map_comm' (ga : α → α')
    (f : σ → α → Except ε σ) (f' : σ → α' → Except ε σ)
    (hf : ∀ s a, f' s (ga a) = f s a) (l : List α) (s : σ) :
    (l.map ga).foldlM f' s = l.foldlM f s := by
  induction l generalizing s with
  | nil => rfl
  | cons a l ih =>
    simp only [List.map_cons, List.foldlM_cons, hf]
    cases f s a with
    | error e => rfl
    | ok o => exact ih o

theorem except_bind_comm {γ γ' : Type} (m : α → α') (n : γ → γ') (x : Except ε α) (x' : Except ε α')
    (k : α → Except ε γ) (k' : α' → Except ε γ')
    (hx : x' = Except.map m x) (hk : ∀ a, k' (m a) = Except.map n (k a)) :
    (x' >>= k') = Except.map n (x >>= k) := by
  subst hx
  cases x with
  | error e => rfl
  | ok a => exact hk a

end MonadicLists

section PSLemmas
variable {P S V S' V' M Pr : Type} [DecidableEq P] [VersionSet S V] [VersionSet S' V']
  [DecidableEq S] [DecidableEq S']

/-! ### projections -/

@[simp] theorem DatedDerivation.mapH_globalIndex (h : VSetHom S V S' V') (d : DatedDerivation S) :
    (DatedDerivation.mapH h d).globalIndex = d.globalIndex := rfl
@[simp] theorem DatedDerivation.mapH_decisionLevel (h : VSetHom S V S' V') (d : DatedDerivation S) :
    (DatedDerivation.mapH h d).decisionLevel = d.decisionLevel := rfl
@[simp] theorem DatedDerivation.mapH_cause (h : VSetHom S V S' V') (d : DatedDerivation S) :
    (DatedDerivation.mapH h d).cause = d.cause := rfl
@[simp] theorem DatedDerivation.mapH_accumulated (h : VSetHom S V S' V') (d : DatedDerivation S) :
    (DatedDerivation.mapH h d).accumulated = Term.mapH h d.accumulated := rfl

@[simp] theorem PackageAssignments.mapH_smallest (h : VSetHom S V S' V') (pa : PackageAssignments S V) :
    (PackageAssignments.mapH h pa).smallest = pa.smallest := rfl
@[simp] theorem PackageAssignments.mapH_highest (h : VSetHom S V S' V') (pa : PackageAssignments S V) :
    (PackageAssignments.mapH h pa).highest = pa.highest := rfl
@[simp] theorem PackageAssignments.mapH_dated (h : VSetHom S V S' V') (pa : PackageAssignments S V) :
    (PackageAssignments.mapH h pa).dated = pa.dated.map (DatedDerivation.mapH h) := rfl
@[simp] theorem PackageAssignments.mapH_inter (h : VSetHom S V S' V') (pa : PackageAssignments S V) :
    (PackageAssignments.mapH h pa).inter = AssignInter.mapH h pa.inter := rfl

@[simp] theorem PartialSolution.mapH_nextGlobalIndex (h : VSetHom S V S' V') (ps : PartialSolution P S V Pr) :
    (PartialSolution.mapH h ps).nextGlobalIndex = ps.nextGlobalIndex := rfl
@[simp] theorem PartialSolution.mapH_currentDecisionLevel (h : VSetHom S V S' V') (ps : PartialSolution P S V Pr) :
    (PartialSolution.mapH h ps).currentDecisionLevel = ps.currentDecisionLevel := rfl
@[simp] theorem PartialSolution.mapH_assignments (h : VSetHom S V S' V') (ps : PartialSolution P S V Pr) :
    (PartialSolution.mapH h ps).assignments =
      ps.assignments.map fun kv => (kv.1, PackageAssignments.mapH h kv.2) := rfl
@[simp] theorem PartialSolution.mapH_queue (h : VSetHom S V S' V') (ps : PartialSolution P S V Pr) :
    (PartialSolution.mapH h ps).queue = ps.queue := rfl
@[simp] theorem PartialSolution.mapH_changed (h : VSetHom S V S' V') (ps : PartialSolution P S V Pr) :
    (PartialSolution.mapH h ps).changed = ps.changed := rfl
@[simp] theorem PartialSolution.mapH_hasEverBacktracked (h : VSetHom S V S' V') (ps : PartialSolution P S V Pr) :
    (PartialSolution.mapH h ps).hasEverBacktracked = ps.hasEverBacktracked := rfl

theorem PartialSolution.mapH_mk (h : VSetHom S V S' V') (a b : Nat) (c : List (P × PackageAssignments S V))
    (d : List (P × Pr)) (e : Nat) (f : Bool) :
    PartialSolution.mapH h ⟨a, b, c, d, e, f⟩ =
      ⟨a, b, c.map fun kv => (kv.1, PackageAssignments.mapH h kv.2), d, e, f⟩ := rfl

theorem PackageAssignments.mapH_mk (h : VSetHom S V S' V') (a b : Nat) (c : List (DatedDerivation S))
    (d : AssignInter S V) :
    PackageAssignments.mapH h ⟨a, b, c, d⟩ = ⟨a, b, c.map (DatedDerivation.mapH h), AssignInter.mapH h d⟩ := rfl

theorem DatedDerivation.mapH_mk (h : VSetHom S V S' V') (a b c : Nat) (d : Term S) :
    DatedDerivation.mapH h ⟨a, b, c, d⟩ = ⟨a, b, c, Term.mapH h d⟩ := rfl

@[simp] theorem AssignInter.mapH_decision (h : VSetHom S V S' V') (g : Nat) (v : V) (t : Term S) :
    AssignInter.mapH h (.decision g v t) = .decision g (h.ι v) (Term.mapH h t) := rfl
@[simp] theorem AssignInter.mapH_derivations (h : VSetHom S V S' V') (t : Term S) :
    AssignInter.mapH h (.derivations t : AssignInter S V) = .derivations (Term.mapH h t) := rfl

@[simp] theorem AssignInter.term_mapH (h : VSetHom S V S' V') (i : AssignInter S V) :
    (AssignInter.mapH h i).term = Term.mapH h i.term := by
  cases i <;> rfl

/-! ### the functions -/

@[simp] theorem PartialSolution.mapH_empty (h : VSetHom S V S' V') :
    PartialSolution.mapH h (PartialSolution.empty : PartialSolution P S V Pr) = PartialSolution.empty := rfl

@[simp] theorem PartialSolution.getPA_mapH (h : VSetHom S V S' V') (ps : PartialSolution P S V Pr) (p : P) :
    (PartialSolution.mapH h ps).getPA p = (ps.getPA p).map (PackageAssignments.mapH h) := by
  simp [PartialSolution.getPA]

@[simp] theorem PartialSolution.indexOf_mapH (h : VSetHom S V S' V') (ps : PartialSolution P S V Pr) (p : P) :
    (PartialSolution.mapH h ps).indexOf p = ps.indexOf p := by
  simp only [PartialSolution.indexOf, PartialSolution.mapH_assignments, List.length_map]
  rw [findIdx_mapVals (PackageAssignments.mapH h) ps.assignments (fun k => decide (k = p))]

@[simp] theorem PartialSolution.termIntersectionForPackage_mapH (h : VSetHom S V S' V')
    (ps : PartialSolution P S V Pr) (p : P) :
    (PartialSolution.mapH h ps).termIntersectionForPackage p =
      (ps.termIntersectionForPackage p).map (Term.mapH h) := by
  simp [PartialSolution.termIntersectionForPackage, Option.map_map, Function.comp_def]

theorem PartialSolution.addDecision_mapH (h : VSetHom S V S' V') (debug : Bool)
    (ps : PartialSolution P S V Pr) (p : P) (v : V) :
    (PartialSolution.mapH h ps).addDecision debug p (h.ι v) =
      (ps.addDecision debug p v).map (PartialSolution.mapH h) := by
  unfold PartialSolution.addDecision
  simp only [PartialSolution.getPA_mapH, PartialSolution.indexOf_mapH, PartialSolution.mapH_changed,
    PartialSolution.mapH_assignments, List.length_map, PartialSolution.mapH_currentDecisionLevel,
    PartialSolution.mapH_nextGlobalIndex]
  have hset : ∀ (sm : Nat) (dated : List (DatedDerivation S)) (oldIdx : Nat),
      (ps.assignments.map fun kv => (kv.1, PackageAssignments.mapH h kv.2)).set oldIdx
        (p, ⟨sm, ps.currentDecisionLevel + 1, dated.map (DatedDerivation.mapH h),
              .decision ps.nextGlobalIndex (h.ι v) (Term.exact (h.ι v))⟩) =
        (ps.assignments.set oldIdx (p, ⟨sm, ps.currentDecisionLevel + 1, dated,
              .decision ps.nextGlobalIndex v (Term.exact v)⟩)).map
          fun kv => (kv.1, PackageAssignments.mapH h kv.2) := by
    intro sm dated oldIdx
    rw [List.map_set]
    simp [PackageAssignments.mapH]
  cases hg : ps.getPA p with
  | none =>
    cases debug <;> cases ps.indexOf p <;> simp [bind, Except.bind]
  | some pa =>
    obtain ⟨sm, hi, dated, inter⟩ := pa
    cases hidx : ps.indexOf p with
    | none =>
      cases inter <;> cases debug <;> simp [bind, Except.bind] <;> (repeat' split) <;> rfl
    | some oldIdx =>
      cases inter <;> cases debug <;>
        simp [bind, Except.bind, PackageAssignments.mapH_mk, hset, swapIndices_map, -List.map_set] <;>
        generalize swapIndices _ _ _ = r <;> cases r <;> (repeat' split) <;>
        simp_all [PartialSolution.mapH]

theorem PartialSolution.addDerivation_mapH (h : VSetHom S V S' V') (ps : PartialSolution P S V Pr) (p : P)
    (cause : Nat) (store : List (Incompat P S V M)) :
    (PartialSolution.mapH h ps).addDerivation p cause (store.map (Incompat.mapH h)) =
      (ps.addDerivation p cause store).map (PartialSolution.mapH h) := by
  unfold PartialSolution.addDerivation
  simp only [storeGet_map, PartialSolution.getPA_mapH, PartialSolution.indexOf_mapH]
  cases storeGet store cause with
  | error e => rfl
  | ok inc =>
    simp only [exceptMap_ok, except_ok_bind, Incompat.get_mapH]
    cases inc.get p with
    | none => rfl
    | some t =>
      cases hidx : ps.indexOf p with
      | none =>
        simp [PartialSolution.mapH, PackageAssignments.mapH, DatedDerivation.mapH]
      | some idx =>
        cases hg : ps.getPA p with
        | none =>
          simp [PartialSolution.mapH, PackageAssignments.mapH, DatedDerivation.mapH]
        | some pa =>
          obtain ⟨sm, hi, dated, inter⟩ := pa
          cases inter <;>
            simp [PartialSolution.mapH, PackageAssignments.mapH, DatedDerivation.mapH]

@[simp] theorem PartialSolution.potentialPackageFilter_mapH (h : VSetHom S V S' V') (p : P)
    (pa : PackageAssignments S V) :
    PartialSolution.potentialPackageFilter p (PackageAssignments.mapH h pa) =
      (PartialSolution.potentialPackageFilter p pa).map fun kv => (kv.1, h.f kv.2) := by
  obtain ⟨sm, hi, dated, inter⟩ := pa
  cases inter with
  | decision g v t => rfl
  | derivations t => cases t <;> rfl

theorem PartialSolution.toPrioritize_mapH (h : VSetHom S V S' V') (ps : PartialSolution P S V Pr) :
    (PartialSolution.mapH h ps).toPrioritize =
      ps.toPrioritize.map (List.map fun kv => (kv.1, h.f kv.2)) := by
  unfold PartialSolution.toPrioritize
  simp only [PartialSolution.mapH_changed, PartialSolution.mapH_assignments, List.length_map,
    PartialSolution.mapH_currentDecisionLevel]
  split
  · rfl
  · simp only [exceptMap_ok, ← List.map_drop, List.filterMap_map, List.map_filterMap]
    congr 2
    funext x
    obtain ⟨p, pa⟩ := x
    simp only [Function.comp, PackageAssignments.mapH_highest, PartialSolution.potentialPackageFilter_mapH]
    split <;> simp

@[simp] theorem PartialSolution.afterPrioritize_mapH (h : VSetHom S V S' V') (ps : PartialSolution P S V Pr)
    (prios : List (P × Pr)) :
    (PartialSolution.mapH h ps).afterPrioritize prios = PartialSolution.mapH h (ps.afterPrioritize prios) := by
  simp [PartialSolution.afterPrioritize, PartialSolution.mapH]

@[simp] theorem PartialSolution.satisfier_mapH (h : VSetHom S V S' V') (pa : PackageAssignments S V)
    (t : Term S) :
    PartialSolution.satisfier (PackageAssignments.mapH h pa) (Term.mapH h t) =
      PartialSolution.satisfier pa t := by
  unfold PartialSolution.satisfier
  simp only [PackageAssignments.mapH_dated, List.find?_map, Function.comp_def,
    DatedDerivation.mapH_accumulated, Term.isDisjoint_mapH, PackageAssignments.mapH_inter,
    PackageAssignments.mapH_highest]
  cases List.find? (fun dd => dd.accumulated.isDisjoint t) pa.dated with
  | some dd => rfl
  | none =>
    simp only [Option.map_none]
    cases pa.inter <;> rfl

@[simp] theorem PartialSolution.findSatisfier_mapH (h : VSetHom S V S' V') (ps : PartialSolution P S V Pr)
    (terms : List (P × Term S)) :
    (PartialSolution.mapH h ps).findSatisfier (terms.map fun kv => (kv.1, Term.mapH h kv.2)) =
      ps.findSatisfier terms := by
  unfold PartialSolution.findSatisfier
  apply foldlM_map_comm'
  intro acc pt
  simp only [PartialSolution.getPA_mapH]
  cases ps.getPA pt.1 with
  | none => rfl
  | some pa => simp [bind, Except.bind]

theorem PartialSolution.findPreviousSatisfier_mapH (h : VSetHom S V S' V') (ps : PartialSolution P S V Pr)
    (inc : Incompat P S V M) (sp : P) (m : SmallMap P (Option Nat × Nat × Nat))
    (store : List (Incompat P S V M)) :
    (PartialSolution.mapH h ps).findPreviousSatisfier (Incompat.mapH h inc) sp m
        (store.map (Incompat.mapH h)) = ps.findPreviousSatisfier inc sp m store := by
  unfold PartialSolution.findPreviousSatisfier
  simp only [PartialSolution.getPA_mapH, storeGet_map, Incompat.get_mapH]
  cases ps.getPA sp with
  | none => rfl
  | some pa =>
    cases SmallMap.get m sp with
    | none => rfl
    | some x =>
      obtain ⟨sc, a, b⟩ := x
      cases sc with
      | none =>
        cases hi : pa.inter <;> cases inc.get sp <;> simp [bind, Except.bind, hi]
      | some cause =>
        simp only [Option.map_some, hom_unwrapOr_some, except_ok_bind]
        cases storeGet store cause with
        | error e => simp [bind, Except.bind]
        | ok c =>
          simp only [exceptMap_ok, except_ok_bind, Incompat.get_mapH]
          cases c.get sp <;> cases inc.get sp <;> simp [bind, Except.bind]

theorem PartialSolution.satisfierSearch_mapH (h : VSetHom S V S' V') (ps : PartialSolution P S V Pr)
    (inc : Incompat P S V M) (store : List (Incompat P S V M)) :
    (PartialSolution.mapH h ps).satisfierSearch (Incompat.mapH h inc) (store.map (Incompat.mapH h)) =
      ps.satisfierSearch inc store := by
  unfold PartialSolution.satisfierSearch
  simp only [Incompat.mapH_terms, PartialSolution.findSatisfier_mapH,
    PartialSolution.findPreviousSatisfier_mapH]

@[simp] theorem PartialSolution.popWhileAbove_mapH (h : VSetHom S V S' V') (dl : Nat)
    (l : List (DatedDerivation S)) :
    PartialSolution.popWhileAbove dl (l.map (DatedDerivation.mapH h)) =
      (PartialSolution.popWhileAbove dl l).map (DatedDerivation.mapH h) := by
  cases l with
  | nil => rfl
  | cons a l =>
    simp only [List.map_cons, PartialSolution.popWhileAbove]
    rw [← List.map_cons, ← List.map_reverse, List.dropWhile_map, ← List.map_reverse]
    rfl

theorem PartialSolution.backtrack_mapH (h : VSetHom S V S' V') (ps : PartialSolution P S V Pr) (dl : Nat) :
    (PartialSolution.mapH h ps).backtrack dl = (ps.backtrack dl).map (PartialSolution.mapH h) := by
  unfold PartialSolution.backtrack
  simp only [PartialSolution.mapH_assignments]
  apply except_bind_comm (fun l : List (P × PackageAssignments S V) =>
    l.map (fun kv => (kv.1, PackageAssignments.mapH h kv.2)))
  · apply filterMapM_map_comm
    intro x
    obtain ⟨p, pa⟩ := x
    simp only [PackageAssignments.mapH_smallest, PackageAssignments.mapH_highest,
      PackageAssignments.mapH_dated, PartialSolution.popWhileAbove_mapH, List.getLast?_map]
    split
    · rfl
    split
    · rfl
    cases (PartialSolution.popWhileAbove dl pa.dated).getLast? <;>
      simp [bind, Except.bind, PackageAssignments.mapH]
  · intro a
    rfl

@[simp] theorem PartialSolution.relation_mapH (h : VSetHom S V S' V') (ps : PartialSolution P S V Pr)
    (i : Incompat P S V M) :
    (PartialSolution.mapH h ps).relation (Incompat.mapH h i) = ps.relation i := by
  simp only [PartialSolution.relation, PartialSolution.termIntersectionForPackage_mapH,
    Incompat.relation_mapH]

theorem PartialSolution.addVersion_mapH (h : VSetHom S V S' V') (debug : Bool) (ps : PartialSolution P S V Pr)
    (p : P) (v : V) (news : List (Incompat P S V M)) :
    (PartialSolution.mapH h ps).addVersion debug p (h.ι v) (news.map (Incompat.mapH h)) =
      (ps.addVersion debug p v news).map (PartialSolution.mapH h) := by
  unfold PartialSolution.addVersion
  have hfun : ∀ i : Incompat P S V M,
      (Incompat.mapH h i).relation (fun q => if q = p then some (Term.exact (h.ι v))
        else (PartialSolution.mapH h ps).termIntersectionForPackage q) =
      i.relation (fun q => if q = p then some (Term.exact v) else ps.termIntersectionForPackage q) := by
    intro i
    rw [← Incompat.relation_mapH h]
    congr 1
    funext q
    split <;> simp
  simp only [PartialSolution.mapH_hasEverBacktracked, PartialSolution.addDecision_mapH, List.all_map,
    Function.comp_def, hfun]
  split
  · rfl
  · split <;> rfl

theorem PartialSolution.extractSolution_mapH (h : VSetHom S V S' V') (ps : PartialSolution P S V Pr) :
    (PartialSolution.mapH h ps).extractSolution =
      ps.extractSolution.map (List.map fun kv => (kv.1, h.ι kv.2)) := by
  unfold PartialSolution.extractSolution
  simp only [PartialSolution.mapH_assignments, PartialSolution.mapH_currentDecisionLevel, ← List.map_take]
  apply mapM_map_comm
  intro x
  obtain ⟨p, pa⟩ := x
  simp only [PackageAssignments.mapH_inter]
  cases pa.inter <;> rfl

end PSLemmas
end Pubgrub

/-
Machine-checked counterexample to the syntactic form of Inv-Own (`State.OwnInv`, phrased with
`relation … = .contradicted _`) for an abstract `LawfulVersionSet`.

The set type `J` (subsets of a one-version universe with a junk tag that membership ignores) satisfies
every law of `LawfulVersionSet`, but its equality is not canonical: `tJ` has no member and differs from
`empty`.  The root depends on `(q, tJ)`.  `from_dependency` therefore builds the two-term clause
`{root: pos {()}, q: neg tJ}`; after the root is decided the clause is almost satisfied, `q` receives the
member-free term `pos tJ`, the clause is cached as contradicted -- but `relation_with (neg tJ) (pos tJ)`
is `Satisfied` (a member-free set is a subset of everything, and `subset_of` is tested first).  At the
next pop of the queue (a stable point) the clause owned by the decided root evaluates to `.satisfied`,
so `State.OwnInv` fails there.  (With `Range`, whose valid sets are canonical, a member-free valid set
IS `empty`, `from_dependency` builds the one-term clause, and this cannot happen.)
-/
import PubgrubProofs.OwnDefs

namespace Pubgrub
namespace Cex
open VersionSet

/-- subsets of the one-version universe `Unit`, with a junk tag that membership ignores -/
structure J where
  junk : Bool
  mem : Bool
  deriving DecidableEq, Repr

instance : VersionSet J Unit where
  empty := ⟨false, false⟩
  singleton _ := ⟨false, true⟩
  complement a := ⟨false, !a.mem⟩
  intersection a b := ⟨false, a.mem && b.mem⟩
  contains a _ := a.mem
  full := ⟨false, true⟩
  union a b := ⟨false, a.mem || b.mem⟩
  isDisjoint a b := !(a.mem && b.mem)
  subsetOf a b := !a.mem || b.mem

instance : LawfulVersionSet J Unit where
  Valid _ := True
  valid_empty := trivial
  valid_singleton _ := trivial
  valid_complement _ _ := trivial
  valid_intersection _ _ _ _ := trivial
  valid_full := trivial
  valid_union _ _ _ _ := trivial
  contains_empty _ := rfl
  contains_singleton v w := by cases v; cases w; simp [VersionSet.contains, VersionSet.singleton]
  contains_complement _ _ _ := rfl
  contains_intersection _ _ _ _ _ := rfl
  contains_full _ := rfl
  contains_union _ _ _ _ _ := rfl
  isDisjoint_iff a b _ _ := by
    obtain ⟨ja, ma⟩ := a; obtain ⟨jb, mb⟩ := b
    cases ma <;> cases mb <;> simp [VersionSet.isDisjoint, VersionSet.contains]
  subsetOf_iff a b _ _ := by
    obtain ⟨ja, ma⟩ := a; obtain ⟨jb, mb⟩ := b
    cases ma <;> cases mb <;> simp [VersionSet.subsetOf, VersionSet.contains]

/-- member-free, valid, but not `empty` -/
def tJ : J := ⟨true, false⟩

/-- the root `true` at its only version depends on the package `false` in the set `tJ` -/
def W : World Bool J Unit Unit where
  versions _ := [()]
  deps p _ := if p then .available [(false, tJ)] else .available []

abbrev St := SolverState Bool J Unit Unit Nat
abbrev Rq := Request Bool J Unit Unit Nat Unit
abbrev An := Answer Bool J Unit Unit Nat Unit

def x0 : St × Rq := Solver.start false 10 true ()
def x1 : St × Rq := Solver.step x0.1 .ok
def x2 : St × Rq := Solver.step x1.1 (.priority 0)
def x3 : St × Rq := Solver.step x2.1 (.picked (some true))
def x4 : St × Rq := Solver.step x3.1 (.version (some ()))
def x5 : St × Rq := Solver.step x4.1 (.available [(false, tJ)])
def x6 : St × Rq := Solver.step x5.1 .ok
def x7 : St × Rq := Solver.step x6.1 (.priority 0)

theorem W_valid : W.SetsValid := fun _ _ _ _ _ _ => trivial

theorem reach7 : Reachable W false 10 true () x7 := by
  have r0 : Reachable W false 10 true () x0 := .start
  have r1 : Reachable W false 10 true () x1 := .step (s := x0.1) (req := x0.2) r0 trivial
  have r2 : Reachable W false 10 true () x2 := .step (s := x1.1) (req := x1.2) r1 trivial
  have r3 : Reachable W false 10 true () x3 := .step (s := x2.1) (req := x2.2) r2 trivial
  have r4 : Reachable W false 10 true () x4 :=
    .step (s := x3.1) (req := x3.2) (a := .version (some ())) r3 (List.mem_singleton.2 rfl)
  have r5 : Reachable W false 10 true () x5 :=
    .step (s := x4.1) (req := x4.2) (a := .available [(false, tJ)]) r4 rfl
  have r6 : Reachable W false 10 true () x6 := .step (s := x5.1) (req := x5.2) r5 trivial
  exact .step (s := x6.1) (req := x6.2) r6 trivial

theorem x7_pick : ∃ q, x7.2 = .pick q := ⟨_, rfl⟩

theorem x7_not_ownInv : ¬ x7.1.st.OwnInv := by
  intro h
  obtain ⟨psl, hb, hrel⟩ : ∃ psl, x7.1.st.ps.backtrack 1 = .ok psl ∧
      ∀ inc, x7.1.st.store[1]? = some inc → psl.relation inc = .satisfied := ⟨_, rfl, fun inc hi => by
        injection hi with hi; subst hi; rfl⟩
  obtain ⟨pa, hpa⟩ : ∃ pa, x7.1.st.ps.assignments[0]? = some (true, pa) := ⟨_, rfl⟩
  obtain ⟨inc, hinc, hown⟩ : ∃ inc, x7.1.st.store[1]? = some inc ∧ inc.OwnedBy true := ⟨_, rfl, rfl⟩
  obtain ⟨q, hq⟩ := h 0 true pa hpa (by decide) 1 (Nat.le_refl _) (by decide) psl hb 1 (by decide) inc hinc hown
  rw [hrel inc hinc] at hq
  cases hq

/-- the skeleton's `stable_invariants` fails for this lawful version-set type: a reachable `pick` point
of a run over a world with valid sets where `State.OwnInv` does not hold -/
theorem stable_invariants_counterexample :
    ∃ (s : St) (q : List (Bool × Nat)),
      Reachable (E := Unit) W false 10 true () (s, .pick q) ∧ W.SetsValid ∧ ¬ s.st.OwnInv := by
  obtain ⟨q, hq⟩ := x7_pick
  refine ⟨x7.1, q, ?_, W_valid, x7_not_ownInv⟩
  have : x7 = (x7.1, Request.pick q) := Prod.ext rfl hq
  rw [← this]
  exact reach7

end Cex
end Pubgrub

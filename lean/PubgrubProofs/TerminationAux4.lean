/-
Helpers for `Termination.lean`, part 4: the invariant `KInv` (every term is about a package of the finite
world and over a generated set: G1, G2 of the plan) is preserved by the operations on the store and on
the partial solution.
-/
import PubgrubProofs.TerminationAux3

set_option linter.unusedSectionVars false
set_option linter.unusedVariables false

namespace Pubgrub
open VersionSet

section
variable {P S V M Pr : Type} [DecidableEq P] [VersionSet S V] [DecidableEq S] [LawfulVersionSet S V]
variable {W : World P S V M} {root : P} {rv : V} (fw : FiniteWorld W root rv)

/-- every term of the incompatibility is fine -/
def Incompat.OKI (inc : Incompat P S V M) : Prop := ∀ kv ∈ inc.terms, OKT fw kv.1 kv.2

theorem KInv.oki {st : State P S V M Pr} (h : KInv fw st) {id : Nat} {inc : Incompat P S V M}
    (hinc : st.store[id]? = some inc) : inc.OKI fw := h.store inc (List.mem_of_getElem? hinc)

theorem KInv.get {st : State P S V M Pr} (h : KInv fw st) {id : Nat} {inc : Incompat P S V M}
    (hinc : st.store[id]? = some inc) {p : P} {t : Term S} (ht : inc.get p = some t) : OKT fw p t :=
  h.oki fw hinc (p, t) (SmallMap.mem_of_get ht)

theorem KInv.terms {st : State P S V M Pr} (h : KInv fw st) {p : P} {t : Term S}
    (ht : st.ps.terms p = some t) : OKT fw p t := by
  simp only [PartialSolution.terms, PartialSolution.termIntersectionForPackage, Option.map_eq_some_iff] at ht
  obtain ⟨pa, hpa, rfl⟩ := ht
  exact (h.ps _ (SmallMap.mem_of_get hpa)).1

/-! ### constructors -/

theorem oki_notRoot : (Incompat.notRoot root rv : Incompat P S V M).OKI fw := by
  intro kv hkv
  simp only [Incompat.notRoot, List.mem_singleton] at hkv
  subst hkv
  exact ⟨fw.root_mem, GeneratedSet.rootVersion rfl⟩

theorem oki_single {inc : Incompat P S V M} {p : P} {t : Term S} (h : inc.terms = [(p, t)])
    (ht : OKT fw p t) : inc.OKI fw := by
  intro kv hkv
  rw [h, List.mem_singleton] at hkv
  subst hkv; exact ht

theorem oki_fromDependency {p q : P} {vs s : S} (hp : OKT fw p (Term.pos vs)) (hq : OKT fw q (Term.neg s)) :
    (Incompat.fromDependency (M := M) p vs (q, s)).OKI fw := by
  intro kv hkv
  unfold Incompat.fromDependency at hkv
  simp only at hkv
  split at hkv
  · rename_i e
    subst e
    rw [List.mem_singleton] at hkv; subst hkv
    exact ⟨hp.1, GeneratedSet.intersection _ _ hp.2 (GeneratedSet.complement _ hq.2)⟩
  · split at hkv
    · rw [List.mem_singleton] at hkv; subst hkv; exact hp
    · simp only [List.mem_cons, List.not_mem_nil, or_false] at hkv
      rcases hkv with e | e <;> subst e
      · exact hp
      · exact hq

theorem oki_priorCause {ia ib r : Incompat P S V M} (ha : ia.OKI fw) (hb : ib.OKI fw)
    (na : SmallMap.NoDupKeys ia.terms) (nb : SmallMap.NoDupKeys ib.terms) {a b : Nat} {pivot : P}
    (hr : Incompat.priorCause a b ia ib pivot = .ok r) : r.OKI fw := by
  obtain ⟨t1, t2, merged, h1, h2, hnm, hm, _, hterms⟩ := Incompat.priorCause_spec ia ib na nb a b pivot r hr
  have ok1 : OKT fw pivot t1 := ha _ (SmallMap.mem_of_get h1)
  have ok2 : OKT fw pivot t2 := hb _ (SmallMap.mem_of_get h2)
  have hmerged : ∀ k t, SmallMap.get merged k = some t → OKT fw k t := by
    intro k t hg
    rw [hm k] at hg
    split at hg
    · cases hg
    · cases hx : SmallMap.get ia.terms k <;> cases hy : SmallMap.get ib.terms k <;>
        rw [hx, hy] at hg <;> simp only [SmallMap.mergeOpt, Option.some.injEq, reduceCtorEq] at hg
      · subst hg; exact hb _ (SmallMap.mem_of_get hy)
      · subst hg; exact ha _ (SmallMap.mem_of_get hx)
      · subst hg
        exact (ha _ (SmallMap.mem_of_get hx)).intersection fw (hb _ (SmallMap.mem_of_get hy))
  intro kv hkv
  obtain ⟨k, t⟩ := kv
  rw [hterms] at hkv
  split at hkv
  · rw [SmallMap.mem_insert_iff _ hnm] at hkv
    rcases hkv with ⟨rfl, rfl⟩ | ⟨_, hkv⟩
    · exact ok1.union fw ok2
    · exact hmerged k t (SmallMap.get_of_mem hnm hkv)
  · exact hmerged k t (SmallMap.get_of_mem hnm hkv)

theorem oki_merged (store : List (Incompat P S V M)) {a b : Nat} {ia ib r : Incompat P S V M}
    (ga : ia.Good W root rv store a) (gb : ib.Good W root rv store b) (ha : ia.OKI fw) (hb : ib.OKI fw)
    (hr : Incompat.mergeDependents ia ib = .ok (some r)) : r.OKI fw := by
  obtain ⟨p1, p2, s1, s2, t, hne, _, hta, htb, _, _, rfl⟩ :=
    Incompat.mergeDependents_spec W root rv store a b ia ib ga gb r hr
  have m1 : (p1, Term.pos s1) ∈ ia.terms := by
    rw [hta, Incompat.mem_fromDependency_terms s1 t hne]; exact Or.inl rfl
  have m2 : (p1, Term.pos s2) ∈ ib.terms := by
    rw [htb, Incompat.mem_fromDependency_terms s2 t hne]; exact Or.inl rfl
  have o1 := ha _ m1
  have o2 := hb _ m2
  intro kv hkv
  obtain ⟨k, x⟩ := kv
  rw [Incompat.mem_fromDependency_terms _ t hne] at hkv
  rcases hkv with e | ⟨hte, e⟩
  · injection e with e1 e2
    show OKT fw k x
    rw [e1, e2]
    exact ⟨o1.1, GeneratedSet.union _ _ o1.2 o2.2⟩
  · injection e with e1 e2
    show OKT fw k x
    rw [e1, e2]
    have m3 : (p2, Term.neg t) ∈ ia.terms := by
      rw [hta, Incompat.mem_fromDependency_terms s1 t hne]; exact Or.inr ⟨hte, rfl⟩
    exact ha _ m3

/-! ### the store -/

theorem KInv.congr {st st' : State P S V M Pr} (h : KInv fw st) (e1 : st'.ps.assignments = st.ps.assignments)
    (e2 : st'.store = st.store) : KInv fw st' := by
  refine ⟨?_, ?_⟩
  · rw [e1]; exact h.ps
  · rw [e2]; exact h.store

theorem KInv.storeAppend {st : State P S V M Pr} (h : KInv fw st) (extra : List (Incompat P S V M))
    (hx : ∀ inc ∈ extra, inc.OKI fw) : KInv fw { st with store := st.store ++ extra } := by
  refine ⟨h.ps, ?_⟩
  intro inc hinc
  rcases List.mem_append.1 hinc with h1 | h1
  · exact h.store inc h1
  · exact hx inc h1

namespace State

theorem mergeIncompatibility_kinv {st st' : State P S V M Pr} {id : Nat}
    (hr : mergeIncompatibility st id = .ok st') (hs : StoreInv W root rv st.store) (h : KInv fw st) :
    KInv fw st' := by
  obtain ⟨e1, _, _, inc, hinc, hc⟩ := mergeIncompatibility_spec hr
  rcases hc with ⟨e3, _⟩ | ⟨past, pastInc, merged, hpast, hm, e3, _⟩
  · exact h.congr fw (by rw [e1]) e3
  · refine ⟨by rw [e1]; exact h.ps, ?_⟩
    rw [e3]
    intro i hi
    rcases List.mem_append.1 hi with h1 | h1
    · exact h.store i h1
    · rw [List.mem_singleton] at h1; subst h1
      exact oki_merged fw st.store (hs _ _ hinc) (hs _ _ hpast) (h.oki fw hinc) (h.oki fw hpast) hm

theorem addIncompatibility_kinv {st st' : State P S V M Pr} {inc : Incompat P S V M}
    (hr : addIncompatibility st inc = .ok st') (hs : StoreInv W root rv (st.store ++ [inc]))
    (h : KInv fw st) (hi : inc.OKI fw) : KInv fw st' := by
  unfold addIncompatibility at hr
  exact mergeIncompatibility_kinv fw hr hs (h.storeAppend fw [inc] (by
    intro i hi'; rw [List.mem_singleton] at hi'; subst hi'; exact hi))

theorem foldlM_merge_kinv :
    ∀ (ids : List Nat) {st st' : State P S V M Pr},
    ids.foldlM (m := R) (fun st id => mergeIncompatibility st id) st = .ok st' →
    SInv W root rv st → KInv fw st → KInv fw st' := by
  intro ids
  induction ids with
  | nil =>
    intro st st' hr _ h
    simp only [List.foldlM_nil, pure, Except.pure] at hr
    injection hr with hr; subst hr; exact h
  | cons a rest ih =>
    intro st st' hr hs h
    simp only [List.foldlM_cons, bind, Except.bind] at hr
    split at hr
    · cases hr
    rename_i st1 h1
    exact ih hr (mergeIncompatibility_inv W root rv h1 hs) (mergeIncompatibility_kinv fw h1 hs.store h)

theorem addIncompatibilityFromDependencies_kinv (hW : W.SetsValid) {st st' : State P S V M Pr} {p : P} {v : V}
    {deps : List (P × S)} {start stop : Nat}
    (hr : addIncompatibilityFromDependencies st p v deps = .ok (st', start, stop))
    (hs : SInv W root rv st) (h : KInv fw st) (hd : W.deps p v = .available deps)
    (hv : v ∈ W.versions p) (hp : p ∈ fw.pkgs) : KInv fw st' := by
  unfold addIncompatibilityFromDependencies at hr
  simp only [bind, Except.bind, pure, Except.pure] at hr
  split at hr
  · cases hr
  rename_i st1 h1
  injection hr with hr; injection hr with hr; subst hr
  have hgood : ∀ inc ∈ deps.map (fun dep => Incompat.fromDependency (M := M) p (VersionSet.singleton v) dep),
      inc.OKI fw := by
    intro inc hinc
    rw [List.mem_map] at hinc
    obtain ⟨d, hdm, rfl⟩ := hinc
    obtain ⟨q, s⟩ := d
    exact oki_fromDependency fw ⟨hp, GeneratedSet.version v hv⟩
      ⟨fw.deps_mem p v deps hv hd _ hdm, GeneratedSet.dep p v deps s hp hv hd hdm⟩
  have hsA : SInv W root rv ({ st with store := (st.store ++
      deps.map (fun dep => Incompat.fromDependency (M := M) p (VersionSet.singleton v) dep)) } :
      State P S V M Pr) := by
    refine ⟨?_, hs.root, hs.rv, hs.ps⟩
    apply storeInv_append W root rv _ _ hs.store
    intro k i hi
    have hmem := List.mem_of_getElem? hi
    rw [List.mem_map] at hmem
    obtain ⟨d, hdm, rfl⟩ := hmem
    exact Incompat.fromDependency_good W hW root rv _ _ p v deps hd d hdm
  exact foldlM_merge_kinv fw _ h1 hsA (h.storeAppend fw _ hgood)

end State

/-! ### the partial solution -/

/-- a derivation keeps the invariant -/
theorem KInv.derive {st : State P S V M Pr} (h : KInv fw st) (hs : SInv W root rv st) (hw : st.ps.WF)
    {q : P} {id : Nat} {ps : PartialSolution P S V Pr} (hps : st.ps.addDerivation q id st.store = .ok ps)
    {st' : State P S V M Pr} (e1 : st'.ps = ps) (e2 : st'.store = st.store) : KInv fw st' := by
  obtain ⟨inc, t, t', pa', hinc, ht, hnone, hstep⟩ :=
    PartialSolution.addDerivation_step W root rv hs.store hw hps
  have hok : OKT fw q t := h.get fw hinc ht
  -- the new term
  have ht' : OKT fw q t' := by
    cases ho : st.ps.termIntersectionForPackage q with
    | none =>
      have : st.ps.getPA q = none := by
        simp only [PartialSolution.termIntersectionForPackage, Option.map_eq_none_iff] at ho; exact ho
      rw [hnone this]; exact hok.negate fw
    | some o =>
      obtain ⟨inc2, t2, hinc2, ht2, hnew⟩ := PartialSolution.addDerivation_term_self hw hps ho
      rw [hinc] at hinc2; injection hinc2 with hinc2; subst hinc2
      rw [ht] at ht2; injection ht2 with ht2; subst ht2
      have : ps.termIntersectionForPackage q = some t' := by
        simp only [PartialSolution.termIntersectionForPackage, hstep.getPA_self, Option.map_some, hstep.inter,
          AssignInter.term]
      rw [hnew] at this; injection this with this
      rw [← this]
      exact (h.terms fw ho).intersection fw (hok.negate fw)
  refine ⟨?_, by rw [e2]; exact h.store⟩
  rw [e1]
  intro kv hkv
  obtain ⟨k, ka⟩ := kv
  rcases hstep.mem k ka hkv with hold | ⟨rfl, rfl⟩
  · exact h.ps _ hold
  · simp only
    rw [hstep.inter]
    refine ⟨ht', ?_⟩
    intro dd hdd
    rcases hstep.mem_dated hdd with ⟨pa, hpa, hdd'⟩ | rfl
    · exact (h.ps _ (SmallMap.mem_of_get hpa)).2 dd hdd'
    · exact ht'

/-- a decision for an offered version keeps the invariant -/
theorem KInv.decide {st : State P S V M Pr} (h : KInv fw st) (hw : st.ps.WF)
    {ps' : PartialSolution P S V Pr} {debug : Bool} {p : P} {v : V}
    (hr : PartialSolution.addDecision debug st.ps p v = .ok ps') (hw' : ps'.WF)
    {t : Term S} {pa : PackageAssignments S V} (hpa : st.ps.getPA p = some pa)
    (ht : pa.inter = .derivations t) (hv : v ∈ W.versions p)
    {st' : State P S V M Pr} (e1 : st'.ps = ps') (e2 : st'.store = st.store) : KInv fw st' := by
  have hstep := PartialSolution.addDecision_step hw hr hw' hpa ht
  have hold := h.ps _ (SmallMap.mem_of_get hpa)
  refine ⟨?_, by rw [e2]; exact h.store⟩
  rw [e1]
  intro kv hkv
  obtain ⟨k, ka⟩ := kv
  rcases hstep.mem k ka hkv with hold' | ⟨rfl, rfl⟩
  · exact h.ps _ hold'
  · simp only [PackageAssignments.decide, AssignInter.term]
    exact ⟨⟨hold.1.1, GeneratedSet.version v hv⟩, hold.2⟩

/-- a backtrack keeps the invariant -/
theorem KInv.backtrack {st : State P S V M Pr} (h : KInv fw st) (hw : st.ps.WF')
    {ps' : PartialSolution P S V Pr} {dl : Nat} (hbt : BtStep st.ps ps' dl)
    {st' : State P S V M Pr} (e1 : st'.ps = ps') (e2 : st'.store = st.store) : KInv fw st' := by
  refine ⟨?_, by rw [e2]; exact h.store⟩
  rw [e1]
  intro kv hkv
  obtain ⟨k, ka⟩ := kv
  obtain ⟨qa, hm, hg⟩ := hbt.mem hkv
  have hold := h.ps _ hm
  simp only at hold ⊢
  rcases (PartialSolution.btG_eq_some (hw.wfx _ hm) hg).2 with ⟨_, e⟩ | ⟨_, _, last, hl, e⟩
  · simp only at e; subst e; exact hold
  · simp only at e; subst e
    have hsub := PartialSolution.popWhileAbove_sublist dl qa.dated
    simp only [PackageAssignments.cut, AssignInter.term]
    exact ⟨hold.2 last (hsub.subset (List.mem_of_getLast? hl)), fun dd hdd => hold.2 dd (hsub.subset hdd)⟩

end
end Pubgrub

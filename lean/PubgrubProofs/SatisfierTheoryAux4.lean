/-
Helpers for `SatisfierTheory.lean`, part 4: what `backtrack` does to one package and to the lookups.
-/
import PubgrubProofs.SatisfierTheoryAux3

set_option linter.unusedSectionVars false
set_option linter.unusedVariables false

namespace Pubgrub
open VersionSet

theorem SmallMap.get_filterMap {K T : Type} [DecidableEq K] (g : K × T → Option (K × T))
    (hg : ∀ x y, g x = some y → y.1 = x.1) :
    ∀ (l : SmallMap K T), SmallMap.NoDupKeys l → ∀ k,
      SmallMap.get (l.filterMap g) k = (SmallMap.get l k).bind (fun v => (g (k, v)).map Prod.snd) := by
  intro l
  induction l with
  | nil => intro _ k; rfl
  | cons x rest ih =>
    intro hn k
    obtain ⟨a, b⟩ := x
    rw [SmallMap.nodup_cons] at hn
    have ih' := ih hn.2
    rw [List.filterMap_cons]
    cases hgx : g (a, b) with
    | none =>
      simp only
      by_cases hk : k = a
      · subst hk
        rw [ih' k, (SmallMap.get_eq_none_iff rest k).2 hn.1]
        simp [SmallMap.get, hgx]
      · rw [ih' k]; simp [SmallMap.get, hk]
    | some y =>
      obtain ⟨a', b'⟩ := y
      have ha : a' = a := hg _ _ hgx
      subst ha
      simp only
      by_cases hk : k = a'
      · subst hk; simp [SmallMap.get, hgx]
      · simp [SmallMap.get, hk, ih' k]

theorem filterMapM_total {α β : Type} (f : α → R (Option β)) :
    ∀ (l : List α), (∀ x ∈ l, ∃ o, f x = .ok o) → ∃ l', l.filterMapM f = .ok l' := by
  intro l
  induction l with
  | nil => intro _; exact ⟨[], rfl⟩
  | cons a l ih =>
    intro h
    obtain ⟨o, ho⟩ := h a List.mem_cons_self
    obtain ⟨l', hl'⟩ := ih (fun x hx => h x (List.mem_cons_of_mem _ hx))
    rw [List.filterMapM_cons]
    simp only [bind, Except.bind, ho, hl', pure, Except.pure]
    cases o with
    | none => exact ⟨_, rfl⟩
    | some b => exact ⟨_, rfl⟩

section
variable {P S V M Pr : Type} [DecidableEq P] [VersionSet S V] [DecidableEq S] [LawfulVersionSet S V]

namespace PartialSolution

/-- `popWhileAbove` keeps a prefix; what is cut off lies above the level -/
theorem popWhileAbove_split (dl : Nat) (l : List (DatedDerivation S)) :
    ∃ suf, l = popWhileAbove dl l ++ suf ∧ ∀ x ∈ suf, dl < x.decisionLevel := by
  unfold popWhileAbove
  split
  · exact ⟨[], rfl, by intro x hx; cases hx⟩
  · rename_i a as
    refine ⟨((a :: as).reverse.takeWhile fun dd => Decidable.decide (dd.decisionLevel > dl)).reverse, ?_, ?_⟩
    · rw [← List.reverse_append, List.takeWhile_append_dropWhile, List.reverse_reverse]
    · intro x hx
      rw [List.mem_reverse] at hx
      have := List.all_eq_true.1 (List.all_takeWhile (l := (a :: as).reverse)
        (p := fun dd => Decidable.decide (dd.decisionLevel > dl))) x hx
      simpa using this

/-- on sorted levels, what `popWhileAbove` keeps is at most the level -/
theorem popWhileAbove_le (dl : Nat) (l : List (DatedDerivation S))
    (hs : (l.map (·.decisionLevel)).Pairwise (· ≤ ·)) :
    ∀ x ∈ popWhileAbove dl l, x.decisionLevel ≤ dl := by
  intro x hx
  obtain ⟨y, hy⟩ := getLast?_of_mem hx
  have hyl := popWhileAbove_last dl l y hy
  obtain ⟨suf, hsuf, _⟩ := popWhileAbove_split dl l
  have hsub : (popWhileAbove dl l).Sublist l := by
    conv => rhs; rw [hsuf]
    exact List.sublist_append_left _ _
  have hs' : ((popWhileAbove dl l).map (·.decisionLevel)).Pairwise (· ≤ ·) :=
    List.Pairwise.sublist (hsub.map _) hs
  have hl' : ((popWhileAbove dl l).map (·.decisionLevel)).getLast? = some y.decisionLevel := by
    rw [List.getLast?_map, hy]; rfl
  rcases pairwise_getLast hs' hl' x.decisionLevel (List.mem_map.2 ⟨x, hx, rfl⟩) with e | e
  · omega
  · omega

/-- a derivation at most the level is kept -/
theorem mem_popWhileAbove_of_le (dl : Nat) (l : List (DatedDerivation S)) {x : DatedDerivation S}
    (hx : x ∈ l) (hle : x.decisionLevel ≤ dl) : x ∈ popWhileAbove dl l := by
  obtain ⟨suf, hsuf, hs⟩ := popWhileAbove_split dl l
  rw [hsuf] at hx
  rcases List.mem_append.1 hx with h | h
  · exact h
  · have := hs x h; omega

/-- the entry after a backtrack that cuts it -/
def _root_.Pubgrub.PackageAssignments.cut (pa : PackageAssignments S V) (dl : Nat) (last : DatedDerivation S) :
    PackageAssignments S V :=
  { pa with dated := popWhileAbove dl pa.dated, highest := last.decisionLevel,
            inter := .derivations last.accumulated }

/-- the three outcomes of `backtrack` for one package -/
theorem sat_btG_cases (dl : Nat) (p : P) {pa : PackageAssignments S V} (hx : pa.WFX) :
    (dl < pa.smallest ∧ btF dl (p, pa) = .ok none) ∨
    (pa.smallest ≤ dl ∧ pa.highest ≤ dl ∧ btF dl (p, pa) = .ok (some (p, pa))) ∨
    (pa.smallest ≤ dl ∧ dl < pa.highest ∧ ∃ last, (popWhileAbove dl pa.dated).getLast? = some last ∧
      btF dl (p, pa) = .ok (some (p, pa.cut dl last))) := by
  unfold btF
  simp only
  by_cases h1 : pa.smallest > dl
  · left; rw [if_pos h1]; exact ⟨h1, rfl⟩
  · right
    rw [if_neg h1]
    by_cases h2 : pa.highest ≤ dl
    · left; rw [if_pos h2]; exact ⟨by omega, h2, rfl⟩
    · right
      rw [if_neg h2]
      obtain ⟨f, hf, hfl⟩ := hx.head
      have hfm : f ∈ popWhileAbove dl pa.dated :=
        mem_popWhileAbove_of_le dl _ (List.mem_of_mem_head? hf) (by omega)
      obtain ⟨last, hlast⟩ := getLast?_of_mem hfm
      refine ⟨by omega, by omega, last, hlast, ?_⟩
      simp only [hlast, unwrapOr, bind, Except.bind, pure, Except.pure]
      rfl

theorem btG_eq_some {dl : Nat} {p : P} {pa : PackageAssignments S V} {y : P × PackageAssignments S V}
    (hx : pa.WFX) (h : btG dl (p, pa) = some y) :
    y.1 = p ∧ ((pa.highest ≤ dl ∧ y.2 = pa) ∨
      (pa.smallest ≤ dl ∧ dl < pa.highest ∧ ∃ last, (popWhileAbove dl pa.dated).getLast? = some last ∧
        y.2 = pa.cut dl last)) := by
  unfold btG at h
  rcases sat_btG_cases dl p hx with ⟨_, e⟩ | ⟨_, h2, e⟩ | ⟨h1, h2, last, hl, e⟩
  · rw [e] at h; cases h
  · rw [e] at h; injection h with h; subst h; exact ⟨rfl, Or.inl ⟨h2, rfl⟩⟩
  · rw [e] at h; injection h with h; subst h; exact ⟨rfl, Or.inr ⟨h1, h2, last, hl, rfl⟩⟩

/-- `backtrack` does not panic on a well-formed partial solution -/
theorem backtrack_safe {ps : PartialSolution P S V Pr} (h : ps.WF') (dl : Nat) :
    Safe (ps.backtrack dl) (fun ps' =>
      ps' = { ps with currentDecisionLevel := dl, assignments := ps.assignments.filterMap (btG dl), queue := [],
                      changed := dl - 1, hasEverBacktracked := true }) := by
  rw [backtrack_eq]
  obtain ⟨asg, hasg⟩ := filterMapM_total (btF (P := P) (S := S) (V := V) dl) ps.assignments (by
    intro x hx
    obtain ⟨p, pa⟩ := x
    rcases sat_btG_cases dl p (h.wfx _ hx) with ⟨_, e⟩ | ⟨_, _, e⟩ | ⟨_, _, _, _, e⟩ <;> exact ⟨_, e⟩)
  refine Safe.bind_ok hasg ?_
  have := filterMapM_ok_eq _ _ _ hasg
  subst this
  exact Safe.ok rfl


theorem popWhileAbove_sublist (dl : Nat) (l : List (DatedDerivation S)) : (popWhileAbove dl l).Sublist l := by
  obtain ⟨suf, hsuf, _⟩ := popWhileAbove_split dl l
  conv => rhs; rw [hsuf]
  exact List.sublist_append_left _ _

theorem btG_dated {dl : Nat} {p : P} {pa : PackageAssignments S V} {y : P × PackageAssignments S V}
    (hx : pa.WFX) (h : btG dl (p, pa) = some y) : y.2.dated.Sublist pa.dated := by
  rcases (btG_eq_some hx h).2 with ⟨_, e⟩ | ⟨_, _, last, _, e⟩
  · rw [e]; exact List.Sublist.refl _
  · rw [e]; exact popWhileAbove_sublist dl _

theorem btG_events {dl : Nat} {p : P} {pa : PackageAssignments S V} {y : P × PackageAssignments S V}
    (hx : pa.WFX) (h : btG dl (p, pa) = some y) : ∀ e ∈ y.2.events, e ∈ pa.events := by
  rcases (btG_eq_some hx h).2 with ⟨_, e⟩ | ⟨_, _, last, _, e⟩
  · rw [e]; exact fun _ h => h
  · rw [e]
    intro ev hev
    rw [PackageAssignments.events_derivations (t := last.accumulated) rfl, List.mem_map] at hev
    obtain ⟨dd, hdd, rfl⟩ := hev
    exact PackageAssignments.mem_events_dated ((popWhileAbove_sublist dl _).subset hdd)

theorem btG_decided {dl : Nat} {p : P} {pa : PackageAssignments S V} {y : P × PackageAssignments S V}
    (hx : pa.WFX) (h : btG dl (p, pa) = some y) {g : Nat} {v : V} {t : Term S}
    (hd : y.2.inter = .decision g v t) : y.2 = pa := by
  rcases (btG_eq_some hx h).2 with ⟨_, e⟩ | ⟨_, _, last, _, e⟩
  · exact e
  · rw [e] at hd; cases hd

theorem btG_levels {dl dl0 n i : Nat} {p : P} {pa : PackageAssignments S V} {y : P × PackageAssignments S V}
    (hw : pa.WFAt dl0 n i) (hx : pa.WFX) (h : btG dl (p, pa) = some y) :
    ∀ dd ∈ y.2.dated, dd.decisionLevel ≤ dl := by
  rcases (btG_eq_some hx h).2 with ⟨h1, e⟩ | ⟨_, _, last, _, e⟩
  · rw [e]; intro dd hdd; exact Nat.le_trans (hx.le_highest dd hdd) h1
  · rw [e]; exact popWhileAbove_le dl _ hw.levels

theorem btG_shrink {dl : Nat} {p : P} {pa : PackageAssignments S V} {y : P × PackageAssignments S V}
    (hx : pa.WFX) (hs : pa.Shrink) (h : btG dl (p, pa) = some y) : y.2.Shrink :=
  List.Pairwise.sublist (btG_dated hx h) hs

/-- a term satisfied by an assignment of level at most `dl` is still satisfied after the backtrack -/
theorem btG_survive {dl dl0 n i : Nat} {p : P} {pa : PackageAssignments S V} (hw : pa.WFAt dl0 n i)
    (hx : pa.WFX) (hs : pa.Shrink) {tr : Term S} (hsat : pa.SatBy tr dl) :
    ∃ pa', btG dl (p, pa) = some (p, pa') ∧ pa'.inter.term.Imp tr := by
  obtain ⟨f, hf, hfl⟩ := hx.head
  have hfm := List.mem_of_mem_head? hf
  have hsm : pa.smallest ≤ dl := by
    rcases hsat with ⟨dd, hdd, hle, _⟩ | ⟨hle, _⟩
    · -- the first derivation is not above `dd`
      have : f.decisionLevel ≤ dd.decisionLevel := by
        obtain ⟨as, has⟩ : ∃ as, pa.dated = f :: as := by
          cases hd : pa.dated with
          | nil => rw [hd] at hf; cases hf
          | cons a as => rw [hd] at hf; simp at hf; subst hf; exact ⟨as, rfl⟩
        have hl := hw.levels
        rw [has] at hl hdd
        simp only [List.map_cons, List.pairwise_cons] at hl
        rcases List.mem_cons.1 hdd with e | e
        · subst e; exact Nat.le_refl _
        · exact hl.1 _ (List.mem_map.2 ⟨dd, e, rfl⟩)
      omega
    · have := hw.range; omega
  unfold btG
  rcases sat_btG_cases dl p hx with ⟨h1, _⟩ | ⟨_, h2, e⟩ | ⟨_, h2, last, hl, e⟩
  · omega
  · rw [e]
    refine ⟨pa, rfl, ?_⟩
    rcases hsat with ⟨dd, hdd, _, himp⟩ | ⟨_, himp⟩
    · exact Term.Imp.trans (PackageAssignments.term_imp_dated hw hs hdd) himp
    · exact himp
  · rw [e]
    refine ⟨pa.cut dl last, rfl, ?_⟩
    rcases hsat with ⟨dd, hdd, hle, himp⟩ | ⟨hle, _⟩
    · have hdm := mem_popWhileAbove_of_le dl _ hdd hle
      have hs' : (popWhileAbove dl pa.dated).Pairwise (fun a b => b.accumulated.Imp a.accumulated) :=
        List.Pairwise.sublist (popWhileAbove_sublist dl _) hs
      show last.accumulated.Imp tr
      rcases pairwise_getLast hs' hl dd hdm with e' | e'
      · subst e'; exact himp
      · exact Term.Imp.trans e' himp
    · omega

/-- the term before `g` survives the backtrack if the earlier assignments are at most the level -/
theorem btG_termBefore {dl dl0 n i : Nat} {p : P} {pa : PackageAssignments S V} (hw : pa.WFAt dl0 n i)
    (hx : pa.WFX) {g : Nat} (hev : ∀ e ∈ pa.events, e.1 < g → e.2.1 ≤ dl) {t : Term S}
    (ht : pa.termBefore g = some t) :
    ∃ pa', btG dl (p, pa) = some (p, pa') ∧ pa'.termBefore g = some t := by
  obtain ⟨f, hf, hfl⟩ := hx.head
  have hfm := List.mem_of_mem_head? hf
  obtain ⟨as, has⟩ : ∃ as, pa.dated = f :: as := by
    cases hd : pa.dated with
    | nil => rw [hd] at hf; cases hf
    | cons a as => rw [hd] at hf; simp at hf; subst hf; exact ⟨as, rfl⟩
  have hfirst : ∀ dd ∈ pa.dated, f.globalIndex ≤ dd.globalIndex := by
    intro dd hdd
    have hl := hw.indices
    rw [has] at hl hdd
    simp only [List.map_cons, List.pairwise_cons] at hl
    rcases List.mem_cons.1 hdd with e | e
    · subst e; exact Nat.le_refl _
    · exact Nat.le_of_lt (hl.1 _ (List.mem_map.2 ⟨dd, e, rfl⟩))
  -- the first derivation is before `g`
  have hfg : f.globalIndex < g := by
    unfold PackageAssignments.termBefore at ht
    have hfrom : ((pa.dated.filter fun dd => Decidable.decide (dd.globalIndex < g)).getLast?).map
        (·.accumulated) = some t → f.globalIndex < g := by
      intro hh
      rw [Option.map_eq_some_iff] at hh
      obtain ⟨dd, hdd, _⟩ := hh
      have := List.mem_filter.1 (List.mem_of_getLast? hdd)
      have h2 : dd.globalIndex < g := by simpa using this.2
      exact Nat.lt_of_le_of_lt (hfirst dd this.1) h2
    split at ht
    · rename_i gd v t' hinter
      split at ht
      · rename_i hlt
        rcases hw.inter_cases with ⟨g', v', h1, _, _, h4, _⟩ | ⟨t'', l, f', h1, _⟩
        · rw [hinter] at h1; injection h1 with e1 _ _; subst e1
          exact Nat.lt_trans (h4 f hfm) hlt
        · rw [hinter] at h1; cases h1
      · exact hfrom ht
    · exact hfrom ht
  have hsm : pa.smallest ≤ dl := by
    have := hev _ (PackageAssignments.mem_events_dated hfm) hfg
    simp only at this; omega
  unfold btG
  rcases sat_btG_cases dl p hx with ⟨h1, _⟩ | ⟨_, h2, e⟩ | ⟨_, h2, last, hl, e⟩
  · omega
  · rw [e]; exact ⟨pa, rfl, ht⟩
  · rw [e]
    refine ⟨pa.cut dl last, rfl, ?_⟩
    obtain ⟨suf, hsuf, hsufl⟩ := popWhileAbove_split dl pa.dated
    have hfilter : (popWhileAbove dl pa.dated).filter (fun dd => Decidable.decide (dd.globalIndex < g)) =
        pa.dated.filter (fun dd => Decidable.decide (dd.globalIndex < g)) := by
      conv => rhs; rw [hsuf]
      rw [List.filter_append]
      have : suf.filter (fun dd => Decidable.decide (dd.globalIndex < g)) = [] := by
        rw [List.filter_eq_nil_iff]
        intro dd hdd
        simp only [decide_eq_true_eq]
        intro hlt
        have hdm : dd ∈ pa.dated := by rw [hsuf]; exact List.mem_append_right _ hdd
        have := hev _ (PackageAssignments.mem_events_dated hdm) hlt
        have := hsufl dd hdd
        simp only at *
        omega
      rw [this, List.append_nil]
    unfold PackageAssignments.termBefore PackageAssignments.cut
    simp only
    rw [hfilter]
    unfold PackageAssignments.termBefore at ht
    split at ht
    · rename_i gd v t' hinter
      split at ht
      · rename_i hlt
        have := hev _ (PackageAssignments.mem_events_decision hinter) hlt
        simp only at this; omega
      · exact ht
    · exact ht

end PartialSolution
end
end Pubgrub

/-
Property C02 — NoSolution is reported only when no solution exists.

"Whenever resolve returns Err(NoSolution), there is no set of package versions - drawn from the
versions the provider can offer and whose dependencies are available - that contains the root at the
requested version and satisfies all dependencies of its members."

Theorem about the coroutine model of `resolve`, for every world, every answer sequence consistent
with it (any strategy, any tie-breaking, any fuel), every lawful version set.

The "equivalently" clause (whether a solution is found never depends on the strategy) needs, besides
`C02_noSolution_sound`, C01's soundness of `Ok` and termination (C05): all three are proved, and combined
in `C02_resolve_returns` (over a finite registry `resolve` returns within `N` provider calls, and what
it returns is decided by the registry: `Ok(sel)` with `sel` a solution, or `NoSolution` and no solution
exists) and `C02_strategy_independent` (two well-behaved runs over one registry never return one `Ok`
and the other `NoSolution`); both also for `Range` over any linear order.
-/
import PubgrubProofs.StoreInvariant
import PubgrubProofs.RangeAnyOrder
import PubgrubProofs.Decides
import PubgrubProofs.Examples

namespace Pubgrub.C02
open Pubgrub

variable {P S V M Pr E : Type} [DecidableEq P] [VersionSet S V] [DecidableEq S] [DecidableEq V]
  [LE Pr] [DecidableLE Pr] [LawfulVersionSet S V]

/-- C02 -/
theorem C02_noSolution_sound (W : World P S V M) (hW : W.SetsValid) (debug : Bool) (fuel : Nat)
    (root : P) (rv : V) (s : SolverState P S V M Pr) (tree : DerivationTree P S V M)
    (h : Reachable (E := E) W debug fuel root rv (s, .noSolution tree)) :
    ¬ ∃ σ : P → Option V, IsSolution W root rv σ :=
  noSolution_sound W hW debug fuel root rv s tree h

/-- strategy independence, the part that does not need termination: whatever the strategies, fuels and
tie-breakings of two runs over the same world, if one reports `NoSolution` the other cannot return a
selection that is a solution -/
theorem C02_not_both (W : World P S V M) (hW : W.SetsValid) (debug debug' : Bool) (fuel fuel' : Nat)
    (root : P) (rv : V) (s s' : SolverState P S V M Pr) (tree : DerivationTree P S V M)
    (sel : List (P × V))
    (h : Reachable (E := E) W debug fuel root rv (s, .noSolution tree))
    (_h' : Reachable (E := E) W debug' fuel' root rv (s', .solution sel)) :
    ¬ IsSolution W root rv (fun p => SmallMap.get sel p) := by
  intro hsol
  exact noSolution_sound W hW debug fuel root rv s tree h ⟨_, hsol⟩

/-! ### `Range V` over ANY linear order (the discrete `u32`, `SemanticVersion` included), where `Range` is
not a `LawfulVersionSet`: pulled back along the embedding into `Range (V ×ₗ ℚ)` (RangeHom, HomSolver,
RangeAnyOrder) -/
section AnyOrder
variable {P V M Pr E : Type} [DecidableEq P] [LinearOrder V] [LE Pr] [DecidableLE Pr]

theorem C02_range_noSolution_sound (W : World P (Range V) V M) (hW : W.RangesWF) (debug : Bool) (fuel : Nat)
    (root : P) (rv : V) (s : SolverState P (Range V) V M Pr) (tree : DerivationTree P (Range V) V M)
    (h : Reachable (E := E) W debug fuel root rv (s, .noSolution tree)) :
    ¬ ∃ σ : P → Option V, IsSolution W root rv σ :=
  range_noSolution_sound W hW debug fuel root rv s tree h

end AnyOrder

/-! ### the "equivalently" clause in full: the result is decided by the registry alone

`C02_resolve_returns`: over a finite registry, within `N` provider calls `resolve` returns (first final
request of the trace) and what it returns is `Ok(sel)` with `sel` a solution, or `NoSolution` and no
solution exists (`DecidedBy`; the third alternative is the model's `protocolError` for an ill-typed
answer).  Hence a solution is found iff one exists, whatever the strategy.  `C02_strategy_independent`:
two well-behaved runs over one registry never return one `Ok` and the other `NoSolution`. -/
section Decides
variable [CanonicalEmpty S V]

theorem C02_resolve_returns (W : World P S V M) (hW : W.SetsValid) (root : P) (rv : V)
    (fw : FiniteWorld W root rv) (debug : Bool) :
    ∃ N fuel0 : Nat, ∀ fuel, fuel0 ≤ fuel → ∀ as : List (Answer P S V M Pr E), N ≤ as.length →
      WellBehavedRun W debug fuel root rv as →
      ∃ k, k ≤ N ∧
        (Solver.after (Solver.start debug fuel root rv) (as.take k)).2.isFinal = true ∧
        (∀ j, j < k → (Solver.after (Solver.start debug fuel root rv) (as.take j)).2.isFinal = false) ∧
        DecidedBy W root rv (Solver.after (Solver.start debug fuel root rv) (as.take k)).2 :=
  by apply resolve_returns (Pr := Pr) (E := E) <;> assumption

end Decides

theorem C02_strategy_independent (W : World P S V M) (hW : W.SetsValid) (root : P) (rv : V)
    (debug debug' : Bool) (fuel fuel' : Nat) (s s' : SolverState P S V M Pr) (sel : List (P × V))
    (t : DerivationTree P S V M)
    (h : ReachableWB (E := E) W debug fuel root rv (s, .solution sel))
    (h' : ReachableWB (E := E) W debug' fuel' root rv (s', .noSolution t)) : False :=
  noSolution_sound W hW debug' fuel' root rv s' t (c04_reachable_of_wb W debug' fuel' root rv _ h')
    ⟨_, (solution_valid W hW debug fuel root rv s sel h).1⟩

section AnyOrderDecides
variable {P V M Pr E : Type} [DecidableEq P] [LinearOrder V] [LE Pr] [DecidableLE Pr]

theorem C02_range_resolve_returns (W : World P (Range V) V M) (hW : W.RangesWF) (root : P) (rv : V)
    (fr : FiniteRegistry W root) (debug : Bool) :
    ∃ N fuel0 : Nat, ∀ fuel, fuel0 ≤ fuel → ∀ as : List (Answer P (Range V) V M Pr E), N ≤ as.length →
      WellBehavedRun W debug fuel root rv as →
      ∃ k, k ≤ N ∧
        (Solver.after (Solver.start debug fuel root rv) (as.take k)).2.isFinal = true ∧
        (∀ j, j < k → (Solver.after (Solver.start debug fuel root rv) (as.take j)).2.isFinal = false) ∧
        ((∃ sel, (Solver.after (Solver.start debug fuel root rv) (as.take k)).2 = .solution sel ∧
            IsSolution W root rv (fun p => SmallMap.get sel p)) ∨
         ((∃ t, (Solver.after (Solver.start debug fuel root rv) (as.take k)).2 = .noSolution t) ∧
            ¬ ∃ σ : P → Option V, IsSolution W root rv σ) ∨
         (∃ m, (Solver.after (Solver.start debug fuel root rv) (as.take k)).2 = .protocolError m)) :=
  by apply range_resolve_returns (Pr := Pr) (E := E) <;> assumption

theorem C02_range_strategy_independent (W : World P (Range V) V M) (hW : W.RangesWF) (root : P) (rv : V)
    (debug debug' : Bool) (fuel fuel' : Nat) (s s' : SolverState P (Range V) V M Pr) (sel : List (P × V))
    (t : DerivationTree P (Range V) V M)
    (h : ReachableWB (E := E) W debug fuel root rv (s, .solution sel))
    (h' : ReachableWB (E := E) W debug' fuel' root rv (s', .noSolution t)) : False :=
  range_strategy_independent W hW root rv debug debug' fuel fuel' s s' sel t h h'

end AnyOrderDecides

/-! ### Non-vacuity over a DISCRETE order: a concrete registry over `Range Nat` (the stand-in for `u32`) -/
section ExampleNat

/-- root 1 needs `a` in `[1, 3)`; `a` has versions 1 and 2 without dependencies -/
def exampleWorldNat : World String (Range Nat) Nat Unit where
  versions := fun p => if p = "root" then [1] else if p = "a" then [1, 2] else []
  deps := fun p _ => if p = "root" then .available [("a", [(Bound.incl 1, Bound.excl 3)])] else .available []

theorem exampleWorldNat_wf : exampleWorldNat.RangesWF := by
  intro p v ds h d hd
  unfold exampleWorldNat at h
  simp only at h
  split at h
  · cases h
    simp only [List.mem_singleton] at hd
    subst hd
    show Range.checkInvariants _ = true
    decide
  · cases h
    cases hd

def exampleRegistryNat : FiniteRegistry exampleWorldNat "root" where
  pkgs := ["root", "a"]
  root_mem := by simp
  deps_mem := by
    intro p v ds _ h d hd
    unfold exampleWorldNat at h
    simp only at h
    split at h
    · cases h
      simp only [List.mem_singleton] at hd
      subst hd
      simp
    · cases h
      cases hd

/-- `C02_range_resolve_returns` applies to it -/
example (debug : Bool) :=
  C02_range_resolve_returns (Pr := Nat) (E := Unit) exampleWorldNat exampleWorldNat_wf "root" 1
    exampleRegistryNat debug

end ExampleNat

/-! Non-vacuity on concrete runs (PubgrubProofs/Examples.lean, evaluated by `decide +kernel`; registered in
obligations.json so that their axioms are audited too): `Examples.example_B_noSolution_sound`, `Examples.example_D_regA_returns_solution`, `Examples.example_D_regB_returns_noSolution`. -/

end Pubgrub.C02

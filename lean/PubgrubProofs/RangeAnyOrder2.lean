/-
PubgrubProofs/RangeAnyOrder2.lean
Second batch of pull-backs to `Range V` over ANY linear order (method: PubgrubProofs/RangeAnyOrder.lean):
the derivation-tree theorems of C03 / C08 / C09 on resolve's trees, the trace theorems of C12 / C14, I-PS.
Each lawful-set theorem is applied at `S' = Range (Dense V)`, `V' = Dense V` to the image run
(`reachable_mapH`, `trace_mapH`) and pulled back with the transport lemmas of
* RangeAnyOrder2Aux1.lean (trees: `DerivationTree.terms_mapH`, `TermsTrue_mapH`, `DerivationTree.mapH_injective`,
  `derivedNodes_mapH`, `External.TrueIn.pull` (uses `Dense.ι_of_back` for the `custom` leaf),
  `Checkable.pull`, `IsTreeOf.pull`, `TwoEdgesTo_mapH`, `collapseNoVersions_mapH`, `Sound.pull`,
  `LeavesTrueExisting.pull`, `NoVersionsOnlyBesideLeaf_mapH`),
* RangeAnyOrder2Aux2.lean (traces: `lastPrio_mapH`, `answersOK_mapH`, `after_take_mapH`; I-PS: `PartialSolution.WF.pull`).
C08 needs no detour through the dense order for the reporter itself: `report_terminates` / `report_steps_sound`
hold for every version set; their hypotheses (`Sound`, `SharedConsistent`) are the pulled-back C03 facts.
All eleven targets proved.
-/
import PubgrubProofs.RangeAnyOrder
import PubgrubProofs.SharedIds
import PubgrubProofs.TreeLink
import PubgrubProofs.Freshness
import PubgrubProofs.ReportSound
import PubgrubProofs.CollapseSound
import PubgrubProofs.RangeAnyOrder2Aux1
import PubgrubProofs.RangeAnyOrder2Aux2

set_option linter.unusedSectionVars false

namespace Pubgrub
open VersionSet

variable {P V M Pr E : Type} [DecidableEq P] [LinearOrder V] [LE Pr] [DecidableLE Pr]

/-- the image of a `NoSolution` tree of a run over `Range V` is a checkable proof about the image
world, its top is the terminal clause, it is the unfolding of the image store -/
theorem range_tree_image [Nonempty V] (W : World P (Range V) V M) (hW : W.RangesWF) (debug : Bool) (fuel : Nat)
    (root : P) (rv : V) (s : SolverState P (Range V) V M Pr) (tree : DerivationTree P (Range V) V M)
    (h : Reachable (E := E) W debug fuel root rv (s, .noSolution tree)) :
    (World.mapH Range.denseHom Dense.back W).SetsValid ∧
    Reachable (E := E) (World.mapH Range.denseHom Dense.back W) debug fuel root (Dense.ι rv)
      (SolverState.mapH Range.denseHom s, .noSolution (DerivationTree.mapH Range.denseHom tree)) := by
  exact ⟨World.setsValid_mapH W hW, range_reachable_image W debug fuel root rv s _ h⟩

theorem range_C03_tree_checkable (W : World P (Range V) V M) (hW : W.RangesWF) (debug : Bool) (fuel : Nat)
    (root : P) (rv : V) (s : SolverState P (Range V) V M Pr) (tree : DerivationTree P (Range V) V M)
    (h : Reachable (E := E) W debug fuel root rv (s, .noSolution tree)) :
    tree.Checkable W root rv := by
  have : Nonempty V := ⟨rv⟩
  obtain ⟨hW', h'⟩ := range_tree_image W hW debug fuel root rv s tree h
  obtain ⟨terminal, inc, hinc, _, hbuild, hinv, _, _⟩ :=
    noSolution_tree_origin _ hW' debug fuel root _ _ _ h'
  have hc := (buildDerivationTree_checkable _ root _ _ hinv terminal inc hinc _ hbuild).1
  exact DerivationTree.Checkable.pull Range.denseHom Dense.back Dense.back_ι Dense.ι_of_back
    W root rv tree hc

theorem range_C03_top_forbids_root (W : World P (Range V) V M) (hW : W.RangesWF) (debug : Bool) (fuel : Nat)
    (root : P) (rv : V) (s : SolverState P (Range V) V M Pr) (tree : DerivationTree P (Range V) V M)
    (h : Reachable (E := E) W debug fuel root rv (s, .noSolution tree))
    (σ : P → Option V) (hσ : σ root = some rv) : TermsTrue σ tree.terms := by
  have : Nonempty V := ⟨rv⟩
  obtain ⟨hW', h'⟩ := range_tree_image W hW debug fuel root rv s tree h
  obtain ⟨terminal, inc, hinc, hterm, hbuild, hinv, _, _⟩ :=
    noSolution_tree_origin _ hW' debug fuel root _ _ _ h'
  have ht := (buildDerivationTree_checkable _ root _ _ hinv terminal inc hinc _ hbuild).2
  have := terminal_forbids_root root _ inc hterm (fun p => (σ p).map Range.denseHom.ι)
    (by simp only [hσ]; rfl)
  rw [← ht, DerivationTree.terms_mapH, TermsTrue_mapH] at this
  exact this

theorem range_C03_shared_same (W : World P (Range V) V M) (hW : W.RangesWF) (debug : Bool) (fuel : Nat)
    (root : P) (rv : V) (s : SolverState P (Range V) V M Pr) (tree : DerivationTree P (Range V) V M)
    (h : Reachable (E := E) W debug fuel root rv (s, .noSolution tree))
    (k : Nat) (t1 t2 : DerivationTree P (Range V) V M)
    (h1 : (some k, t1) ∈ tree.derivedNodes) (h2 : (some k, t2) ∈ tree.derivedNodes) : t1 = t2 := by
  have : Nonempty V := ⟨rv⟩
  obtain ⟨hW', h'⟩ := range_tree_image W hW debug fuel root rv s tree h
  obtain ⟨terminal, _, _, _, hbuild, hinv, _, _⟩ :=
    noSolution_tree_origin _ hW' debug fuel root _ _ _ h'
  exact DerivationTree.mapH_injective Range.denseHom
    (buildDerivationTree_shared_same _ root _ _ hinv terminal _ hbuild k _ _
      (DerivationTree.mem_derivedNodes_mapH Range.denseHom tree _ t1 h1)
      (DerivationTree.mem_derivedNodes_mapH Range.denseHom tree _ t2 h2))

theorem range_C03_shared_iff (W : World P (Range V) V M) (hW : W.RangesWF) (debug : Bool) (fuel : Nat)
    (root : P) (rv : V) (s : SolverState P (Range V) V M Pr) (tree : DerivationTree P (Range V) V M)
    (h : Reachable (E := E) W debug fuel root rv (s, .noSolution tree)) :
    ∃ (terminal : Nat) (sh : Nat → Bool), IsTreeOf s.st.store sh terminal tree ∧
      ∀ k, sh k = true ↔
        (∃ inc a b, s.st.store[k]? = some inc ∧ inc.causes = some (a, b)) ∧
          TwoEdgesTo s.st.store terminal k := by
  have : Nonempty V := ⟨rv⟩
  obtain ⟨hW', h'⟩ := range_tree_image W hW debug fuel root rv s tree h
  obtain ⟨terminal, _, _, _, hbuild, hinv, _, _⟩ :=
    noSolution_tree_origin _ hW' debug fuel root _ _ _ h'
  obtain ⟨sh, h1, h2⟩ := buildDerivationTree_shared_iff _ root _ _ hinv terminal _ hbuild
  refine ⟨terminal, sh, IsTreeOf.pull Range.denseHom s.st.store sh terminal _ h1 tree rfl, ?_⟩
  intro k
  rw [h2 k]
  have hs : (SolverState.mapH Range.denseHom s).st.store = s.st.store.map (Incompat.mapH Range.denseHom) := rfl
  rw [hs, TwoEdgesTo_mapH]
  constructor
  · rintro ⟨⟨inc', a, b, hi, hc⟩, h3⟩
    obtain ⟨inc, hi', hc'⟩ := (store_causes_mapH Range.denseHom s.st.store k a b).1 ⟨inc', hi, hc⟩
    exact ⟨⟨inc, a, b, hi', hc'⟩, h3⟩
  · rintro ⟨⟨inc, a, b, hi, hc⟩, h3⟩
    obtain ⟨inc', hi', hc'⟩ := (store_causes_mapH Range.denseHom s.st.store k a b).2 ⟨inc, hi, hc⟩
    exact ⟨⟨inc', a, b, hi', hc'⟩, h3⟩

theorem range_C08_on_resolve_trees
    (W : World P (Range V) V M) (hW : W.RangesWF) (debug : Bool) (fuel : Nat)
    (root : P) (rv : V) (s : SolverState P (Range V) V M Pr) (tree : DerivationTree P (Range V) V M)
    (h : Reachable (E := E) W debug fuel root rv (s, .noSolution tree)) :
    (∃ r, reportSteps tree = .ok r) ∧
    ∀ lines, reportSteps tree = .ok (.inr lines) →
      ∀ i l, lines[i]? = some l → ∀ c, l.step.conclusion = some c →
        Entails (fun _ _ => True) (stepPremises lines i l.step) c := by
  have hc := range_C03_tree_checkable W hW debug fuel root rv s tree h
  have hsc : tree.SharedConsistent := fun k t1 t2 h1 h2 =>
    range_C03_shared_same W hW debug fuel root rv s tree h k t1 t2 h1 h2
  refine ⟨report_terminates tree hsc, ?_⟩
  intro lines hl i l hli c hcl
  exact report_steps_sound (fun _ _ => True) tree (hc.sound' W root rv tree _) hsc lines hl i l hli c hcl

theorem range_C09_on_resolve_trees
    (W : World P (Range V) V M) (hW : W.RangesWF) (debug : Bool) (fuel : Nat)
    (root : P) (rv : V) (s : SolverState P (Range V) V M Pr) (tree : DerivationTree P (Range V) V M)
    (h : Reachable (E := E) W debug fuel root rv (s, .noSolution tree))
    (t' : DerivationTree P (Range V) V M) (hc : tree.collapseNoVersions = .ok t') :
    t'.Sound W.Exists ∧ t'.LeavesTrueExisting W root rv ∧ t'.NoVersionsOnlyBesideLeaf ∧
      (∀ σ : P → Option V, Within W.Exists σ → σ root = some rv → TermsTrue σ t'.terms) := by
  have : Nonempty V := ⟨rv⟩
  obtain ⟨hW', h'⟩ := range_tree_image W hW debug fuel root rv s tree h
  have hc' : (DerivationTree.mapH Range.denseHom tree).collapseNoVersions =
      .ok (DerivationTree.mapH Range.denseHom t') := by
    rw [DerivationTree.collapseNoVersions_mapH, hc]; rfl
  obtain ⟨g1, g2, g3, g4⟩ := noSolution_collapse_sound _ hW' debug fuel root _ _ _ h' _ hc'
  refine ⟨DerivationTree.Sound.pull Range.denseHom Dense.back W t' g1,
    DerivationTree.LeavesTrueExisting.pull Range.denseHom Dense.back Dense.back_ι W root rv t' g2,
    (DerivationTree.NoVersionsOnlyBesideLeaf_mapH Range.denseHom t').1 g3, ?_⟩
  intro σ hw hσ
  have := g4 (fun p => (σ p).map Range.denseHom.ι)
    (Within_exists_push Range.denseHom Dense.back W σ hw) (by simp only [hσ]; rfl)
  rw [DerivationTree.terms_mapH, TermsTrue_mapH] at this
  exact this

theorem range_C12_choose_set_is_prioritized_set (W : World P (Range V) V M) (hW : W.RangesWF)
    (debug : Bool) (fuel : Nat) (root : P) (rv : V) (as : List (Answer P (Range V) V M Pr E))
    (hok : AnswersOK W debug fuel root rv as) (k : Nat) (p : P) (s : (Range V))
    (hk : (Solver.trace debug fuel root rv as)[k]? = some (.chooseVersion p s)) :
    ∃ pr, lastPrio (Solver.trace debug fuel root rv as) as k p = some (s, pr) := by
  have : Nonempty V := ⟨rv⟩
  have hW' := World.setsValid_mapH W hW
  have hok' := answersOK_mapH Range.denseHom Dense.back Dense.back_ι W debug fuel root rv as hok
  have hk' : (Solver.trace debug fuel root (Range.denseHom.ι rv) (as.map (Answer.mapH Range.denseHom)))[k]? =
      some (.chooseVersion p (Range.denseHom.f s)) := by
    rw [trace_mapH, List.getElem?_map, hk]; rfl
  obtain ⟨pr, hpr⟩ := choose_set_is_prioritized_set _ hW' debug fuel root _ _ hok' k p _ hk'
  rw [trace_mapH] at hpr
  exact ⟨pr, lastPrio_mapH_eq_some Range.denseHom _ as k p s pr hpr⟩

theorem range_C14_pick_sees_all (W : World P (Range V) V M) (hW : W.RangesWF) (debug : Bool) (fuel : Nat)
    (root : P) (rv : V) (s : SolverState P (Range V) V M Pr) (q : List (P × Pr))
    (h : Reachable (E := E) W debug fuel root rv (s, .pick q))
    (p : P) (pa : PackageAssignments (Range V) V) (set : (Range V))
    (hp : s.st.ps.getPA p = some pa) (hpos : pa.inter = .derivations (.pos set)) :
    (SmallMap.get q p).isSome = true := by
  have : Nonempty V := ⟨rv⟩
  have hW' := World.setsValid_mapH W hW
  have h' := range_reachable_image W debug fuel root rv s _ h
  exact pick_sees_all _ hW' debug fuel root _ _ q h' p (PackageAssignments.mapH Range.denseHom pa)
    (Range.denseHom.f set)
    (by
      show (PartialSolution.mapH Range.denseHom s.st.ps).getPA p = _
      rw [PartialSolution.getPA_mapH, hp]; rfl)
    (by rw [PackageAssignments.mapH_inter, hpos]; rfl)

theorem range_C14_choose_is_maximal (W : World P (Range V) V M) (hW : W.RangesWF) (debug : Bool) (fuel : Nat)
    (root : P) (rv : V) (s : SolverState P (Range V) V M Pr) (q : List (P × Pr)) (p : P)
    (h : Reachable (E := E) W debug fuel root rv (s, .pick q))
    (set : (Range V)) (s' : SolverState P (Range V) V M Pr)
    (hstep : Solver.step (E := E) s (.picked (some p)) = (s', .chooseVersion p set)) :
    ∃ pr, SmallMap.get q p = some pr ∧
      ∀ p' pa' set', s.st.ps.getPA p' = some pa' → pa'.inter = .derivations (.pos set') →
        ∃ pr', SmallMap.get q p' = some pr' ∧ pr' ≤ pr := by
  have : Nonempty V := ⟨rv⟩
  have hW' := World.setsValid_mapH W hW
  have h' := range_reachable_image W debug fuel root rv s _ h
  have hstep' : Solver.step (E := E) (SolverState.mapH Range.denseHom s) (.picked (some p)) =
      (SolverState.mapH Range.denseHom s', .chooseVersion p (Range.denseHom.f set)) := by
    have := step_mapH (E := E) Range.denseHom s (.picked (some p))
    rw [hstep] at this
    exact this
  obtain ⟨pr, hpr, hmax⟩ := choose_is_maximal _ hW' debug fuel root _ _ q p h' _ _ hstep'
  refine ⟨pr, hpr, ?_⟩
  intro p' pa' set' hp' hpos'
  exact hmax p' (PackageAssignments.mapH Range.denseHom pa') (Range.denseHom.f set')
    (by
      show (PartialSolution.mapH Range.denseHom s.st.ps).getPA p' = _
      rw [PartialSolution.getPA_mapH, hp']; rfl)
    (by rw [PackageAssignments.mapH_inter, hpos']; rfl)

theorem range_C14_full (W : World P (Range V) V M) (hW : W.RangesWF) (debug : Bool)
    (fuel : Nat) (root : P) (rv : V) (as : List (Answer P (Range V) V M Pr E))
    (hok : AnswersOK W debug fuel root rv as) (k : Nat) (p : P) (s : (Range V))
    (hk : (Solver.trace debug fuel root rv as)[k + 1]? = some (.chooseVersion p s))
    (q : P) (pa : PackageAssignments (Range V) V) (setq : (Range V))
    (hq : (Solver.after (Solver.start debug fuel root rv) (as.take k)).1.st.ps.getPA q = some pa)
    (hpos : pa.inter = .derivations (.pos setq)) :
    ∃ prq prp, lastPrio (Solver.trace debug fuel root rv as) as k q = some (setq, prq) ∧
      (∃ sp, lastPrio (Solver.trace debug fuel root rv as) as k p = some (sp, prp)) ∧ prq ≤ prp := by
  have : Nonempty V := ⟨rv⟩
  have hW' := World.setsValid_mapH W hW
  have hok' := answersOK_mapH Range.denseHom Dense.back Dense.back_ι W debug fuel root rv as hok
  have hk' : (Solver.trace debug fuel root (Range.denseHom.ι rv) (as.map (Answer.mapH Range.denseHom)))[k + 1]? =
      some (.chooseVersion p (Range.denseHom.f s)) := by
    rw [trace_mapH, List.getElem?_map, hk]; rfl
  have hq' : (Solver.after (Solver.start (M := M) (Pr := Pr) (E := E) debug fuel root (Range.denseHom.ι rv))
      ((as.map (Answer.mapH Range.denseHom)).take k)).1.st.ps.getPA q =
        some (PackageAssignments.mapH Range.denseHom pa) := by
    rw [after_take_mapH]
    show (PartialSolution.mapH Range.denseHom _).getPA q = _
    rw [PartialSolution.getPA_mapH, hq]; rfl
  obtain ⟨prq, prp, h1, ⟨sp', h2⟩, h3⟩ :=
    choose_has_maximal_last_priority _ hW' debug fuel root _ _ hok' k p _ hk' q _
      (Range.denseHom.f setq) hq' (by rw [PackageAssignments.mapH_inter, hpos]; rfl)
  rw [trace_mapH] at h1 h2
  exact ⟨prq, prp, lastPrio_mapH_eq_some Range.denseHom _ as k q setq prq h1,
    lastPrio_mapH_eq_some' Range.denseHom _ as k p sp' prp h2, h3⟩

theorem range_C05_ps_wf (W : World P (Range V) V M) (hW : W.RangesWF) (debug : Bool) (fuel : Nat)
    (root : P) (rv : V) (x : SolverState P (Range V) V M Pr × Request P (Range V) V M Pr E)
    (h : Reachable W debug fuel root rv x) (hph : x.2.isFinal = false) : x.1.st.ps.WF := by
  have : Nonempty V := ⟨rv⟩
  have hW' := World.setsValid_mapH W hW
  obtain ⟨s, req⟩ := x
  have h' := range_reachable_image W debug fuel root rv s req h
  have := reachable_psWF _ hW' debug fuel root _ _ h' (by rw [isFinal_mapH]; exact hph)
  exact PartialSolution.WF.pull Range.denseHom s.st.ps this

end Pubgrub

/-
Helpers for `Termination.lean`, part 2: the measure.  `tsize` counts the choices (test versions and
"not selected") a term allows, `termAt` is the term of a package restricted to the assignments of level
at most `i`, `comp` sums the sizes over the packages of the finite world, `rank` reads the vector of the
`comp`s as a numeral.
-/
import PubgrubProofs.TerminationAux1

set_option linter.unusedSectionVars false
set_option linter.unusedVariables false

namespace Pubgrub
open VersionSet

section
variable {P S V M Pr : Type} [DecidableEq P] [VersionSet S V] [DecidableEq S] [LawfulVersionSet S V]

namespace Tm

/-- the choices for a package that are told apart: "not selected" and the test versions -/
def opts (tests : List V) : List (Option V) := none :: tests.map some

/-- the number of choices a term allows -/
def tsize (tests : List V) (t : Term S) : Nat := ((opts tests).filter fun o => t.eval o).length

/-- … of the term of a package; an absent package counts one more than any term -/
def osize (tests : List V) : Option (Term S) → Nat
  | none => tests.length + 2
  | some t => tsize tests t

theorem opts_length (tests : List V) : (opts tests).length = tests.length + 1 := by
  simp [opts]

theorem tsize_le (tests : List V) (t : Term S) : tsize tests t ≤ tests.length + 1 := by
  unfold tsize
  have := filter_length_le (fun o => t.eval o) (opts tests)
  rw [opts_length] at this
  exact this

theorem osize_le (tests : List V) (o : Option (Term S)) : osize tests o ≤ tests.length + 2 := by
  cases o with
  | none => exact Nat.le_refl _
  | some t => have := tsize_le tests t; simp only [osize]; omega

theorem osize_some_lt_none (tests : List V) (t : Term S) : osize tests (some t) < osize tests (none : Option (Term S)) := by
  have := tsize_le tests t; simp only [osize]; omega

theorem tsize_le_of_imp (tests : List V) {t' t : Term S} (h : t'.Imp t) : tsize tests t' ≤ tsize tests t :=
  filter_length_le_of_imp _ _ _ (fun o _ ho => h o ho)

/-- a smaller term that excludes one of the counted choices is strictly smaller -/
theorem tsize_lt_of_opt (tests : List V) {t' t : Term S} (h : t'.Imp t) {o : Option V} (ho : o ∈ opts tests)
    (h1 : t.eval o = true) (h2 : t'.eval o = false) : tsize tests t' < tsize tests t :=
  filter_length_lt _ _ _ (fun o _ ho => h o ho) ⟨o, ho, h1, h2⟩

end Tm

/-! ### generated sets -/

/-- the set inside a term -/
def Term.inner : Term S → S
  | .pos s => s
  | .neg s => s

/-- the set of versions a term allows -/
def Term.asSet : Term S → S
  | .pos s => s
  | .neg s => complement s

theorem Term.eval_some_eq_asSet (t : Term S) (ht : t.Valid) (v : V) :
    t.eval (some v) = VersionSet.contains t.asSet v := by
  cases t with
  | pos s => rfl
  | neg s =>
    simp only [Term.eval, Term.asSet]
    rw [LawfulVersionSet.contains_complement s v ht]

/-- the term is about a package of the finite world and its set is one the solver can build for it -/
def OKT {W : World P S V M} {root : P} {rv : V} (fw : FiniteWorld W root rv) (q : P) (t : Term S) : Prop :=
  q ∈ fw.pkgs ∧ GeneratedSet W root rv fw.pkgs q t.inner

section Gen
variable {W : World P S V M} {root : P} {rv : V} (fw : FiniteWorld W root rv)

theorem OKT.asSet {q : P} {t : Term S} (h : OKT fw q t) : GeneratedSet W root rv fw.pkgs q t.asSet := by
  cases t with
  | pos s => exact h.2
  | neg s => exact GeneratedSet.complement _ h.2

theorem OKT.negate {q : P} {t : Term S} (h : OKT fw q t) : OKT fw q t.negate := by
  cases t <;> exact h

theorem OKT.intersection {q : P} {a b : Term S} (ha : OKT fw q a) (hb : OKT fw q b) :
    OKT fw q (a.intersection b) := by
  refine ⟨ha.1, ?_⟩
  cases a <;> cases b <;> simp only [Term.intersection, Term.inner]
  · exact GeneratedSet.intersection _ _ ha.2 hb.2
  · exact GeneratedSet.intersection _ _ (GeneratedSet.complement _ hb.2) ha.2
  · exact GeneratedSet.intersection _ _ (GeneratedSet.complement _ ha.2) hb.2
  · exact GeneratedSet.union _ _ ha.2 hb.2

theorem OKT.union {q : P} {a b : Term S} (ha : OKT fw q a) (hb : OKT fw q b) :
    OKT fw q (a.union b) := by
  refine ⟨ha.1, ?_⟩
  cases a <;> cases b <;> simp only [Term.union, Term.inner]
  · exact GeneratedSet.union _ _ ha.2 hb.2
  · exact GeneratedSet.intersection _ _ (GeneratedSet.complement _ ha.2) hb.2
  · exact GeneratedSet.intersection _ _ (GeneratedSet.complement _ hb.2) ha.2
  · exact GeneratedSet.intersection _ _ ha.2 hb.2

/-- two generated terms that differ on some version differ on a test version -/
theorem separated_terms {q : P} {a b : Term S} (ha : OKT fw q a) (hb : OKT fw q b) (va : a.Valid) (vb : b.Valid)
    {v : V} (hne : a.eval (some v) ≠ b.eval (some v)) :
    ∃ w ∈ fw.tests q, a.eval (some w) ≠ b.eval (some w) := by
  apply Classical.byContradiction
  intro hno
  apply hne
  rw [Term.eval_some_eq_asSet a va, Term.eval_some_eq_asSet b vb]
  apply fw.separated q _ _ (ha.asSet fw) (hb.asSet fw)
  intro w hw
  rw [← Term.eval_some_eq_asSet a va, ← Term.eval_some_eq_asSet b vb]
  apply Classical.byContradiction
  intro h
  exact hno ⟨w, hw, h⟩

/-- a generated term strictly included in another is strictly smaller -/
theorem tsize_lt {q : P} {t' t : Term S} (h' : OKT fw q t') (h : OKT fw q t) (v' : t'.Valid) (v : t.Valid)
    (himp : t'.Imp t) {o : Option V} (h1 : t.eval o = true) (h2 : t'.eval o = false) :
    Tm.tsize (fw.tests q) t' < Tm.tsize (fw.tests q) t := by
  cases o with
  | none => exact Tm.tsize_lt_of_opt _ himp (by simp [Tm.opts]) h1 h2
  | some x =>
    obtain ⟨w, hw, hne⟩ := separated_terms fw h' h v' v (v := x) (by rw [h1, h2]; simp)
    have hw' : some w ∈ Tm.opts (fw.tests q) := by
      simp only [Tm.opts, List.mem_cons, List.mem_map]
      exact Or.inr ⟨w, hw, rfl⟩
    cases h3 : t'.eval (some w) with
    | true => rw [h3, himp _ h3] at hne; exact absurd rfl hne
    | false =>
      cases h4 : t.eval (some w) with
      | false => rw [h3, h4] at hne; exact absurd rfl hne
      | true => exact Tm.tsize_lt_of_opt _ himp hw' h4 h3

end Gen

/-! ### the measure (the restriction to a level is `PartialSolution.termsAt` of OwnInvariantAux1) -/

section Rank
variable {W : World P S V M} {root : P} {rv : V} (fw : FiniteWorld W root rv)

/-- digit `i` of the measure, for a live level -/
def comp (ps : PartialSolution P S V Pr) (i : Nat) : Nat :=
  (fw.pkgs.map fun p => Tm.osize (fw.tests p) (ps.termsAt i p)).sum

/-- the bound of the digits -/
def Bnd : Nat := (fw.pkgs.map fun p => (fw.tests p).length + 2).sum + 1

/-- the number of digits -/
def Dim : Nat := fw.pkgs.length + 2

def digit (ps : PartialSolution P S V Pr) (i : Nat) : Nat :=
  if i ≤ ps.currentDecisionLevel then comp fw ps i else Bnd fw

/-- the measure -/
def rank (ps : PartialSolution P S V Pr) : Nat := Tm.numeral (Bnd fw + 1) (digit fw ps) (Dim fw)

theorem comp_lt_Bnd (ps : PartialSolution P S V Pr) (i : Nat) : comp fw ps i < Bnd fw := by
  unfold comp Bnd
  have := Tm.sum_map_le (fun p => Tm.osize (fw.tests p) (ps.termsAt i p))
    (fun p => (fw.tests p).length + 2) fw.pkgs (fun p _ => Tm.osize_le _ _)
  omega

theorem digit_le_Bnd (ps : PartialSolution P S V Pr) (i : Nat) : digit fw ps i ≤ Bnd fw := by
  unfold digit
  split
  · exact Nat.le_of_lt (comp_lt_Bnd fw ps i)
  · exact Nat.le_refl _

theorem rank_bound (ps : PartialSolution P S V Pr) : rank fw ps + 1 ≤ (Bnd fw + 1) ^ Dim fw :=
  Tm.numeral_lt_pow (fun i _ => Nat.lt_succ_of_le (digit_le_Bnd fw ps i))

/-- the measure does not increase when no digit does -/
theorem rank_le_of {ps ps' : PartialSolution P S V Pr}
    (h : ∀ i, i < Dim fw → digit fw ps' i ≤ digit fw ps i) : rank fw ps' ≤ rank fw ps :=
  Tm.numeral_le h

/-- the measure decreases when the first digit that changes decreases -/
theorem rank_lt_of {ps ps' : PartialSolution P S V Pr} {k : Nat} (hk : k < Dim fw)
    (hagree : ∀ i, i < k → digit fw ps' i = digit fw ps i) (hlt : digit fw ps' k < digit fw ps k) :
    rank fw ps' < rank fw ps :=
  Tm.numeral_lt hagree hlt hk (fun i _ => Nat.lt_succ_of_le (digit_le_Bnd fw ps' i))

/-- a change of the term of one package of the finite world -/
theorem comp_lt_of {ps ps' : PartialSolution P S V Pr} {i : Nat} {p : P} (hp : p ∈ fw.pkgs)
    (hne : ∀ q, q ≠ p → ps'.termsAt i q = ps.termsAt i q)
    (hlt : Tm.osize (fw.tests p) (ps'.termsAt i p) < Tm.osize (fw.tests p) (ps.termsAt i p)) :
    comp fw ps' i < comp fw ps i := by
  unfold comp
  apply Tm.sum_map_lt
  · intro q _
    by_cases hq : q = p
    · subst hq; exact Nat.le_of_lt hlt
    · rw [hne q hq]
  · exact ⟨p, hp, hlt⟩

theorem comp_congr {ps ps' : PartialSolution P S V Pr} {i : Nat}
    (h : ∀ q, ps'.termsAt i q = ps.termsAt i q) : comp fw ps' i = comp fw ps i := by
  unfold comp
  apply Tm.sum_map_congr
  intro q _
  rw [h q]

end Rank

/-! ### the invariant of the terms (G1, G2 of the plan) -/

/-- every term of the partial solution and of the store is about a package of the finite world and
over a generated set -/
structure KInv {W : World P S V M} {root : P} {rv : V} (fw : FiniteWorld W root rv)
    (st : State P S V M Pr) : Prop where
  ps : ∀ kv ∈ st.ps.assignments, OKT fw kv.1 kv.2.inter.term ∧ ∀ dd ∈ kv.2.dated, OKT fw kv.1 dd.accumulated
  store : ∀ inc ∈ st.store, ∀ kv ∈ inc.terms, OKT fw kv.1 kv.2

end
end Pubgrub

/-
Helpers for `ReachabilityC04.lean`, part 1: the chain invariant of the dated derivations (each
accumulated term is the intersection of the previous one with the negated cause term), its
preservation by the operations of the partial solution and by the loops of `core.rs`.
-/
import PubgrubProofs.SatDefs
import PubgrubProofs.PSInvariant

set_option linter.unusedSectionVars false
set_option linter.unusedVariables false

namespace Pubgrub
open VersionSet

section Chain
variable {P S V M Pr : Type} [DecidableEq P] [VersionSet S V] [DecidableEq S]
  [LawfulVersionSet S V]

/-- one link of the chain: `dd` was made from the previous accumulated term `prev` (if any) and the
term of its cause for the package -/
def DDChainLink (store : List (Incompat P S V M)) (p : P) (prev : Option (Term S))
    (dd : DatedDerivation S) : Prop :=
  ∃ inc t, store[dd.cause]? = some inc ∧ inc.get p = some t ∧
    dd.accumulated = (match prev with
      | none => t.negate
      | some a => a.intersection t.negate)

/-- the dated derivations of a package form a chain -/
def DDChainFrom (store : List (Incompat P S V M)) (p : P) :
    Option (Term S) → List (DatedDerivation S) → Prop
  | _, [] => True
  | prev, dd :: rest => DDChainLink store p prev dd ∧ DDChainFrom store p (some dd.accumulated) rest

/-- the accumulated term the next derivation starts from -/
def ddLastAcc (prev : Option (Term S)) (l : List (DatedDerivation S)) : Option (Term S) :=
  match l.getLast? with
  | some dd => some dd.accumulated
  | none => prev

theorem ddLastAcc_cons (prev : Option (Term S)) (dd : DatedDerivation S) (l : List (DatedDerivation S)) :
    ddLastAcc prev (dd :: l) = ddLastAcc (some dd.accumulated) l := by
  unfold ddLastAcc
  cases l with
  | nil => simp
  | cons b l =>
    rw [List.getLast?_cons_cons]
    cases h : (b :: l).getLast? with
    | none => simp at h
    | some x => rfl

theorem ddChainFrom_append (store : List (Incompat P S V M)) (p : P) :
    ∀ (l l2 : List (DatedDerivation S)) (prev : Option (Term S)),
    DDChainFrom store p prev (l ++ l2) ↔ DDChainFrom store p prev l ∧ DDChainFrom store p (ddLastAcc prev l) l2 := by
  intro l
  induction l with
  | nil => intro l2 prev; simp [DDChainFrom, ddLastAcc]
  | cons dd l ih =>
    intro l2 prev
    simp only [List.cons_append, DDChainFrom, ih, ddLastAcc_cons, and_assoc]

theorem DDChainLink.mono {store store' : List (Incompat P S V M)}
    (hm : ∀ (j : Nat) x, store[j]? = some x → store'[j]? = some x) {p : P} {prev : Option (Term S)}
    {dd : DatedDerivation S} (h : DDChainLink store p prev dd) : DDChainLink store' p prev dd := by
  obtain ⟨inc, t, h1, h2, h3⟩ := h
  exact ⟨inc, t, hm _ _ h1, h2, h3⟩

theorem DDChainFrom.mono {store store' : List (Incompat P S V M)}
    (hm : ∀ (j : Nat) x, store[j]? = some x → store'[j]? = some x) {p : P} :
    ∀ {l : List (DatedDerivation S)} {prev : Option (Term S)},
    DDChainFrom store p prev l → DDChainFrom store' p prev l := by
  intro l
  induction l with
  | nil => intro _ _; trivial
  | cons dd l ih => intro prev h; exact ⟨h.1.mono hm, ih h.2⟩

/-- the chain invariant of one entry of `package_assignments` -/
structure PADDChain (store : List (Incompat P S V M)) (p : P) (pa : PackageAssignments S V) : Prop where
  chain : DDChainFrom store p none pa.dated
  /-- the current term of an undecided package is the last accumulated term -/
  cur : ∀ t0, pa.inter = .derivations t0 → ∃ l, pa.dated.getLast? = some l ∧ l.accumulated = t0
  /-- a package is only decided when its term is positive -/
  dec : ∀ g v t, pa.inter = .decision g v t →
    ∃ l, pa.dated.getLast? = some l ∧ l.accumulated.isPositive = true

theorem PADDChain.mono {store store' : List (Incompat P S V M)}
    (hm : ∀ (j : Nat) x, store[j]? = some x → store'[j]? = some x) {p : P} {pa : PackageAssignments S V}
    (h : PADDChain store p pa) : PADDChain store' p pa :=
  ⟨h.chain.mono hm, h.cur, h.dec⟩

/-- the chain invariant of the assignments -/
def DDChainA (store : List (Incompat P S V M)) (asg : List (P × PackageAssignments S V)) : Prop :=
  ∀ kv ∈ asg, PADDChain store kv.1 kv.2

/-- the chain invariant of a state -/
def State.DDChainInv (st : State P S V M Pr) : Prop := DDChainA st.store st.ps.assignments

theorem DDChainA.mono {store store' : List (Incompat P S V M)}
    (hm : ∀ (j : Nat) x, store[j]? = some x → store'[j]? = some x) {asg : List (P × PackageAssignments S V)}
    (h : DDChainA store asg) : DDChainA store' asg :=
  fun kv hkv => (h kv hkv).mono hm

theorem c04_store_append_mono (store extra : List (Incompat P S V M)) :
    ∀ (j : Nat) x, store[j]? = some x → (store ++ extra)[j]? = some x := by
  intro j x hj
  rw [List.getElem?_append_left (List.getElem?_eq_some_iff.1 hj).1]; exact hj

namespace PartialSolution

/-- `addDerivation` keeps the chains -/
theorem addDerivation_ddchain {ps ps' : PartialSolution P S V Pr} {p : P} {cause : Nat}
    {store : List (Incompat P S V M)} (h : DDChainA store ps.assignments)
    (hr : ps.addDerivation p cause store = .ok ps') : DDChainA store ps'.assignments := by
  obtain ⟨inc, t, hinc, ht, hc⟩ := addDerivation_spec hr
  rcases hc with ⟨idx, pa, t0, hidx, hpa, ht0, rfl⟩ | ⟨hnone, rfl⟩
  · intro kv hkv
    simp only at hkv
    rcases List.mem_or_eq_of_mem_set hkv with hkv | rfl
    · exact h kv hkv
    · have hold := h (p, pa) (SmallMap.mem_of_get hpa)
      obtain ⟨l, hl, hla⟩ := hold.cur t0 ht0
      refine ⟨?_, ?_, ?_⟩
      · simp only
        rw [ddChainFrom_append]
        refine ⟨hold.chain, ?_, trivial⟩
        refine ⟨inc, t, hinc, ht, ?_⟩
        simp only [ddLastAcc, hl, hla]
      · intro t1 ht1
        simp only [AssignInter.derivations.injEq] at ht1
        subst ht1
        exact ⟨_, List.getLast?_concat, rfl⟩
      · intro g v t1 ht1
        simp at ht1
  · intro kv hkv
    simp only [List.mem_append, List.mem_singleton] at hkv
    rcases hkv with hkv | rfl
    · exact h kv hkv
    · refine ⟨?_, ?_, ?_⟩
      · exact ⟨⟨inc, t, hinc, ht, rfl⟩, trivial⟩
      · intro t1 ht1
        simp only [AssignInter.derivations.injEq] at ht1
        subst ht1
        exact ⟨_, List.getLast?_singleton, rfl⟩
      · intro g v t1 ht1
        simp at ht1

/-- `backtrack` keeps the chains -/
theorem backtrack_ddchain {ps ps' : PartialSolution P S V Pr} {dl : Nat}
    {store : List (Incompat P S V M)} (h : DDChainA store ps.assignments)
    (hr : ps.backtrack dl = .ok ps') : DDChainA store ps'.assignments := by
  unfold backtrack at hr
  simp only [bind, Except.bind, pure, Except.pure] at hr
  split at hr
  · cases hr
  rename_i asg hasg
  injection hr with hr; subst hr
  intro kv hkv
  obtain ⟨x, hx, hfx⟩ := filterMapM_ok_mem _ _ _ hasg kv hkv
  obtain ⟨p, pa⟩ := x
  have hpa := h _ hx
  simp only at hfx
  split at hfx
  · cases hfx
  split at hfx
  · injection hfx with hfx; injection hfx with hfx; subst hfx; exact hpa
  split at hfx
  · cases hfx
  rename_i last hlast
  injection hfx with hfx; injection hfx with hfx; subst hfx
  obtain ⟨suf, hsuf⟩ := popWhileAbove_prefix dl pa.dated
  refine ⟨?_, ?_, ?_⟩
  · have := hpa.chain
    rw [hsuf, ddChainFrom_append] at this
    exact this.1
  · intro t1 ht1
    simp only [AssignInter.derivations.injEq] at ht1
    exact ⟨last, unwrapOr_ok hlast, ht1⟩
  · intro g v t1 ht1
    simp at ht1

/-- a decision for an undecided package with a positive term keeps the chains -/
theorem addDecision_ddchain {ps ps' : PartialSolution P S V Pr} {debug : Bool} {p : P} {v : V}
    {store : List (Incompat P S V M)} (hw : ps.WF) (h : DDChainA store ps.assignments)
    (hpos : ∃ pa s, ps.getPA p = some pa ∧ pa.inter = .derivations (.pos s))
    (hr : addDecision debug ps p v = .ok ps') : DDChainA store ps'.assignments := by
  obtain ⟨pa, s, hpa, hinter⟩ := hpos
  obtain ⟨oldIdx, hold, _, _, _, _, _, _, hk⟩ := addDecision_spec hw hr hpa hinter
  intro kv hkv
  obtain ⟨k, hkk⟩ := List.getElem?_of_mem hkv
  rw [hk k] at hkk
  split at hkk
  · injection hkk with hkk; subst hkk
    have hpc := h (p, pa) (SmallMap.mem_of_get hpa)
    obtain ⟨l, hl, hla⟩ := hpc.cur _ hinter
    refine ⟨hpc.chain, ?_, ?_⟩
    · intro t0 ht0; simp [PackageAssignments.decide] at ht0
    · intro g w t1 _
      exact ⟨l, hl, by rw [hla]; rfl⟩
  · split at hkk
    · exact h kv (List.mem_of_getElem? hkk)
    · exact h kv (List.mem_of_getElem? hkk)

end PartialSolution

namespace State

theorem mergeIncompatibility_ddchain {st st' : State P S V M Pr} {id : Nat}
    (hr : mergeIncompatibility st id = .ok st') (h : st.DDChainInv) :
    st'.DDChainInv ∧ ∀ (j : Nat) x, st.store[j]? = some x → st'.store[j]? = some x := by
  obtain ⟨e1, _, _, inc, _, hc⟩ := mergeIncompatibility_spec hr
  have hm : ∀ (j : Nat) x, st.store[j]? = some x → st'.store[j]? = some x := by
    rcases hc with ⟨e3, _⟩ | ⟨_, _, _, _, _, e3, _⟩
    · rw [e3]; exact fun _ _ hj => hj
    · rw [e3]; exact c04_store_append_mono _ _
  refine ⟨?_, hm⟩
  unfold DDChainInv
  rw [e1]
  exact DDChainA.mono hm h

theorem addIncompatibility_ddchain {st st' : State P S V M Pr} {inc : Incompat P S V M}
    (hr : addIncompatibility st inc = .ok st') (h : st.DDChainInv) : st'.DDChainInv := by
  unfold addIncompatibility at hr
  exact (mergeIncompatibility_ddchain hr (DDChainA.mono (c04_store_append_mono _ _) h)).1

theorem foldlM_merge_ddchain :
    ∀ (ids : List Nat) {st st' : State P S V M Pr},
    ids.foldlM (m := R) (fun st id => mergeIncompatibility st id) st = .ok st' →
    st.DDChainInv → st'.DDChainInv := by
  intro ids
  induction ids with
  | nil =>
    intro st st' hr h
    simp only [List.foldlM_nil, pure, Except.pure] at hr
    injection hr with hr; subst hr; exact h
  | cons a rest ih =>
    intro st st' hr h
    simp only [List.foldlM_cons, bind, Except.bind] at hr
    split at hr
    · cases hr
    rename_i st1 h1
    exact ih hr (mergeIncompatibility_ddchain h1 h).1

theorem addIncompatibilityFromDependencies_ddchain {st st' : State P S V M Pr} {p : P} {v : V}
    {deps : List (P × S)} {start stop : Nat}
    (hr : addIncompatibilityFromDependencies st p v deps = .ok (st', start, stop))
    (h : st.DDChainInv) : st'.DDChainInv := by
  unfold addIncompatibilityFromDependencies at hr
  simp only [bind, Except.bind, pure, Except.pure] at hr
  split at hr
  · cases hr
  rename_i st1 h1
  injection hr with hr; injection hr with hr; subst hr
  exact foldlM_merge_ddchain _ h1 (DDChainA.mono (c04_store_append_mono _ _) h)

theorem backtrack_ddchain {st st' : State P S V M Pr} {incompat : Nat} {changed : Bool} {dl : Nat}
    (hr : st.backtrack incompat changed dl = .ok st') (h : st.DDChainInv) : st'.DDChainInv := by
  unfold State.backtrack at hr
  simp only [bind, Except.bind, pure, Except.pure] at hr
  split at hr
  · cases hr
  rename_i ps hps
  have hps' : DDChainA st.store ps.assignments := PartialSolution.backtrack_ddchain h hps
  split at hr
  · exact (mergeIncompatibility_ddchain hr hps').1
  · injection hr with hr; subst hr; exact hps'

theorem conflictResolution_ddchain :
    ∀ (fuel : Nat) (st : State P S V M Pr) (cur : Nat) (changed : Bool)
      {st' : State P S V M Pr} {r : Except Nat (P × Nat)},
    conflictResolution fuel st cur changed = .ok (st', r) → st.DDChainInv → st'.DDChainInv := by
  intro fuel
  induction fuel with
  | zero => intro st cur changed st' r hr; simp [conflictResolution] at hr
  | succ fuel ih =>
    intro st cur changed st' r hr h
    unfold conflictResolution at hr
    simp only [bind, Except.bind, pure, Except.pure] at hr
    split at hr
    · cases hr
    rename_i inc hinc
    split at hr
    · injection hr with hr; injection hr with h1 h2; subst h1; subst h2
      exact h
    · split at hr
      · cases hr
      rename_i ps hss
      split at hr
      · split at hr
        · cases hr
        rename_i st1 hb
        injection hr with hr; injection hr with h1 h2; subst h1; subst h2
        exact backtrack_ddchain hb h
      · split at hr
        · cases hr
        split at hr
        · cases hr
        exact ih _ _ _ hr (DDChainA.mono (c04_store_append_mono _ _) h)

theorem propagateIncompats_ddchain :
    ∀ (ids : List Nat) (st : State P S V M Pr) {st' : State P S V M Pr} {r : Option Nat},
    propagateIncompats st ids = .ok (st', r) → st.DDChainInv → st'.DDChainInv := by
  intro ids
  induction ids with
  | nil =>
    intro st st' r hr h
    simp only [propagateIncompats] at hr
    injection hr with hr; injection hr with h1 h2; subst h1; exact h
  | cons id rest ih =>
    intro st st' r hr h
    unfold propagateIncompats at hr
    split at hr
    · exact ih _ hr h
    split at hr
    · cases hr
    rename_i inc hinc
    split at hr
    · injection hr with hr; injection hr with h1 h2; subst h1; exact h
    · split at hr
      · cases hr
      rename_i ps hps
      exact ih _ hr (PartialSolution.addDerivation_ddchain h hps)
    · exact ih _ hr h
    · exact ih _ hr h

theorem unitPropagationLoop_ddchain :
    ∀ (fuel : Nat) (st : State P S V M Pr) {st' : State P S V M Pr} {r : Option Nat},
    unitPropagationLoop fuel st = .ok (st', r) → st.DDChainInv → st'.DDChainInv := by
  intro fuel
  induction fuel with
  | zero => intro st st' r hr; simp [unitPropagationLoop] at hr
  | succ fuel ih =>
    intro st st' r hr h
    unfold unitPropagationLoop at hr
    split at hr
    · injection hr with hr; injection hr with h1 h2; subst h1; subst h2
      exact h
    simp only at hr
    split at hr
    · cases hr
    split at hr
    · cases hr
    · rename_i st1 hp
      exact ih _ hr (propagateIncompats_ddchain _ _ hp h)
    · rename_i st1 conflictId hp
      have h1 := propagateIncompats_ddchain _ _ hp h
      split at hr
      · cases hr
      · rename_i st2 terminal hc
        injection hr with hr; injection hr with e1 e2; subst e1; subst e2
        exact conflictResolution_ddchain _ _ _ _ hc h1
      · rename_i st2 packageAlmost rootCause hc
        have h2 := conflictResolution_ddchain _ _ _ _ hc h1
        split at hr
        · cases hr
        rename_i ps hps
        exact ih _ hr (PartialSolution.addDerivation_ddchain h2 hps)

theorem unitPropagation_ddchain {fuel : Nat} {st st' : State P S V M Pr} {p : P} {r : Option Nat}
    (hr : unitPropagation fuel st p = .ok (st', r)) (h : st.DDChainInv) : st'.DDChainInv :=
  unitPropagationLoop_ddchain _ _ hr h

end State
end Chain
end Pubgrub

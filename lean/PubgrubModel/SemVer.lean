/-
Model of `/repo/src/version.rs`: `SemanticVersion`, `Display`, `FromStr`, ordering, bumps, tuple
conversions.  Components are `u32`: here `Nat` with the explicit bound `< 2^32`; a bump at
`u32::MAX` is the explicit outcome `none` (the Rust overflows: debug panic / release wrap).
Decimal printing and `u32::from_str` are written out on `List Char` so that the round trip is a
theorem about this file and not about library internals.
-/
namespace Pubgrub

structure SemVer where
  major : Nat
  minor : Nat
  patch : Nat
  deriving DecidableEq, Repr

def u32Max : Nat := 4294967295

namespace SemVer

def Valid (v : SemVer) : Prop := v.major ≤ u32Max ∧ v.minor ≤ u32Max ∧ v.patch ≤ u32Max

/-- derived `Ord`: lexicographic on (major, minor, patch) -/
def cmp (a b : SemVer) : Ordering :=
  if a.major < b.major then .lt else if a.major > b.major then .gt
  else if a.minor < b.minor then .lt else if a.minor > b.minor then .gt
  else if a.patch < b.patch then .lt else if a.patch > b.patch then .gt
  else .eq

def ofTuple (t : Nat × Nat × Nat) : SemVer := ⟨t.1, t.2.1, t.2.2⟩
def toTuple (v : SemVer) : Nat × Nat × Nat := (v.major, v.minor, v.patch)

def bumpPatch (v : SemVer) : Option SemVer :=
  if v.patch < u32Max then some ⟨v.major, v.minor, v.patch + 1⟩ else none
def bumpMinor (v : SemVer) : Option SemVer :=
  if v.minor < u32Max then some ⟨v.major, v.minor + 1, 0⟩ else none
def bumpMajor (v : SemVer) : Option SemVer :=
  if v.major < u32Max then some ⟨v.major + 1, 0, 0⟩ else none

/-! ### decimal printing -/

def digitChar (d : Nat) : Char := Char.ofNat (48 + d)

/-- digits of `n`, most significant first, by fuel -/
def digitsAux : (fuel : Nat) → Nat → List Char → List Char
  | 0, _, acc => acc
  | fuel + 1, n, acc =>
    if n < 10 then digitChar n :: acc else digitsAux fuel (n / 10) (digitChar (n % 10) :: acc)

def showNat (n : Nat) : List Char := digitsAux (n + 1) n []

/-- `impl Display` -/
def display (v : SemVer) : List Char :=
  showNat v.major ++ ['.'] ++ showNat v.minor ++ ['.'] ++ showNat v.patch

/-! ### parsing -/

/-- `core::num::IntErrorKind` as far as `u32::from_str` can produce it -/
inductive IntErr where
  | empty | invalidDigit | posOverflow
  deriving DecidableEq, Repr

def IntErr.message : IntErr → String
  | .empty => "cannot parse integer from empty string"
  | .invalidDigit => "invalid digit found in string"
  | .posOverflow => "number too large to fit in target type"

def digitVal (c : Char) : Option Nat :=
  if '0' ≤ c ∧ c ≤ '9' then some (c.toNat - 48) else none

/-- the digit loop of `u32::from_str_radix(·, 10)`: left to right, an invalid digit is reported when
reached, overflow as soon as the running value leaves `u32` -/
def parseDigits : List Char → Nat → Except IntErr Nat
  | [], acc => .ok acc
  | c :: cs, acc =>
    match digitVal c with
    | none => .error .invalidDigit
    | some d =>
      let acc' := acc * 10 + d
      if acc' > u32Max then .error .posOverflow else parseDigits cs acc'

/-- `u32::from_str` -/
def parseU32 (s : List Char) : Except IntErr Nat :=
  match s with
  | [] => .error .empty
  | ['+'] => .error .invalidDigit
  | ['-'] => .error .invalidDigit
  | '+' :: rest => parseDigits rest 0
  | _ => parseDigits s 0

/-- `str::split('.')` -/
def splitDots : List Char → List Char → List (List Char)
  | [], cur => [cur.reverse]
  | c :: cs, cur => if c = '.' then cur.reverse :: splitDots cs [] else splitDots cs (c :: cur)

inductive ParseError where
  | notThreeParts (full : List Char)
  | parseIntError (full : List Char) (part : List Char) (err : IntErr)
  deriving DecidableEq, Repr

/-- `impl FromStr` -/
def parse (s : List Char) : Except ParseError SemVer :=
  match splitDots s [] with
  | [a, b, c] =>
    match parseU32 a with
    | .error e => .error (.parseIntError s a e)
    | .ok ma =>
      match parseU32 b with
      | .error e => .error (.parseIntError s b e)
      | .ok mi =>
        match parseU32 c with
        | .error e => .error (.parseIntError s c e)
        | .ok pa => .ok ⟨ma, mi, pa⟩
  | _ => .error (.notThreeParts s)

end SemVer
end Pubgrub

/-
Helpers for `RangeAnyOrder2.lean`, part 1: transport of the derivation-tree vocabulary (`Checkable`,
`Sound`, `TermsTrue`, `derivedNodes`, `IsTreeOf`, `TwoEdgesTo`, `collapseNoVersions`, leaf truth) along an
injective version-set homomorphism `h : VSetHom S V S' V'` with partial inverse `back` of `h.ι`.
-/
import PubgrubProofs.RangeAnyOrderAux1
import PubgrubProofs.SharedIds
import PubgrubProofs.TreeLink
import PubgrubProofs.CollapseSound

set_option linter.unusedSectionVars false

namespace Pubgrub
open VersionSet

section TreeTransport
variable {P S V S' V' M : Type} [DecidableEq P] [VersionSet S V] [VersionSet S' V']
  [DecidableEq S] [DecidableEq S']

/-! ### terms -/

theorem External.terms_mapH (h : VSetHom S V S' V') (e : External P S V M) :
    (External.mapH h e).terms = termsMapH h e.terms := by
  cases e with
  | notRoot p v => simp [External.mapH, External.terms, termsMapH, h.map_singleton]
  | noVersions p s => simp [External.mapH, External.terms, termsMapH]
  | fromDependencyOf p s q t =>
    simp only [External.mapH, External.terms]
    have := Incompat.fromDependency_mapH (M := M) h p s (q, t)
    simp only at this
    rw [this]
    rfl
  | custom p s m => simp [External.mapH, External.terms, termsMapH]

theorem DerivationTree.terms_mapH (h : VSetHom S V S' V') (t : DerivationTree P S V M) :
    (DerivationTree.mapH h t).terms = termsMapH h t.terms := by
  cases t with
  | external e => exact External.terms_mapH h e
  | derived terms sid c1 c2 => rfl

theorem TermsTrue_mapH (h : VSetHom S V S' V') (σ : P → Option V) (l : List (P × Term S)) :
    TermsTrue (fun p => (σ p).map h.ι) (termsMapH h l) ↔ TermsTrue σ l := by
  constructor
  · intro H p t ht
    have := H p (Term.mapH h t) ((mem_termsMapH h l p _).2 ⟨t, ht, rfl⟩)
    simp only at this
    rw [Term.eval_mapH] at this
    exact this
  · intro H p t' ht'
    obtain ⟨t, ht, rfl⟩ := (mem_termsMapH h l p t').1 ht'
    simp only
    rw [Term.eval_mapH]
    exact H p t ht

theorem termsMapH_injective (h : VSetHom S V S' V') :
    Function.Injective (termsMapH (P := P) h) := by
  intro a b e
  unfold termsMapH at e
  induction a generalizing b with
  | nil => cases b <;> simp_all
  | cons x a ih =>
    cases b with
    | nil => simp at e
    | cons y b =>
      simp only [List.map_cons, List.cons.injEq, Prod.mk.injEq, Term.mapH_eq_iff] at e
      obtain ⟨⟨e1, e2⟩, e3⟩ := e
      rw [ih e3, Prod.ext e1 e2]

/-! ### injectivity of the tree map -/

theorem External.mapH_injective (h : VSetHom S V S' V') :
    Function.Injective (External.mapH (P := P) (M := M) h) := by
  intro a b e
  cases a <;> cases b <;> simp_all [External.mapH]

theorem DerivationTree.mapH_injective (h : VSetHom S V S' V') :
    Function.Injective (DerivationTree.mapH (P := P) (M := M) h) := by
  intro a
  induction a with
  | external e =>
    intro b hb
    cases b with
    | external e' =>
      simp only [DerivationTree.mapH, DerivationTree.external.injEq] at hb
      rw [External.mapH_injective h hb]
    | derived => simp [DerivationTree.mapH] at hb
  | derived terms sid c1 c2 ih1 ih2 =>
    intro b hb
    cases b with
    | external e' => simp [DerivationTree.mapH] at hb
    | derived terms' sid' c1' c2' =>
      simp only [DerivationTree.mapH, DerivationTree.derived.injEq] at hb
      obtain ⟨e1, e2, e3, e4⟩ := hb
      rw [termsMapH_injective h e1, e2, ih1 e3, ih2 e4]

theorem DerivationTree.derivedNodes_mapH (h : VSetHom S V S' V') (t : DerivationTree P S V M) :
    (DerivationTree.mapH h t).derivedNodes =
      t.derivedNodes.map fun kt => (kt.1, DerivationTree.mapH h kt.2) := by
  induction t with
  | external e => rfl
  | derived terms sid c1 c2 ih1 ih2 =>
    simp only [DerivationTree.mapH, DerivationTree.derivedNodes, ih1, ih2, List.map_cons,
      List.map_append]

theorem DerivationTree.mem_derivedNodes_mapH (h : VSetHom S V S' V') (t : DerivationTree P S V M)
    (k : Option Nat) (t1 : DerivationTree P S V M) (h1 : (k, t1) ∈ t.derivedNodes) :
    (k, DerivationTree.mapH h t1) ∈ (DerivationTree.mapH h t).derivedNodes := by
  rw [DerivationTree.derivedNodes_mapH]
  exact List.mem_map.2 ⟨(k, t1), h1, rfl⟩

/-! ### leaf truth and checkability -/

/-- a leaf whose image is true of the image world is true of the world -/
theorem External.TrueIn.pull (h : VSetHom S V S' V') (back : V' → Option V)
    (hback : ∀ v, back (h.ι v) = some v) (hback2 : ∀ v' v, back v' = some v → h.ι v = v')
    (W : World P S V M) (root : P) (rv : V) (e : External P S V M)
    (he : (External.mapH h e).TrueIn (World.mapH h back W) root (h.ι rv)) : e.TrueIn W root rv := by
  cases e with
  | notRoot p v =>
    obtain ⟨h1, h2⟩ := he
    exact ⟨h1, h.ι_inj _ _ h2⟩
  | noVersions p s =>
    intro v hv
    have := he (h.ι v) (List.mem_map.2 ⟨v, hv, rfl⟩)
    rw [h.map_contains] at this
    exact this
  | fromDependencyOf p s q t =>
    intro w hw
    obtain ⟨ds', hds', hmem⟩ := he (h.ι w) (by rw [h.map_contains]; exact hw)
    rw [World.mapH_deps h back hback] at hds'
    obtain ⟨ds, hds, rfl⟩ := DepsAnswer.mapH_available h _ _ hds'
    obtain ⟨t0, ht0, e0⟩ := (mem_depsMapH h ds q _).1 hmem
    rw [h.f_inj _ _ e0]
    exact ⟨ds, hds, ht0⟩
  | custom p s m =>
    obtain ⟨v', hs, hd⟩ := he
    simp only [World.mapH] at hd
    split at hd
    · rename_i v hv
      have hv' := hback2 v' v hv
      subst hv'
      refine ⟨v, ?_, ?_⟩
      · apply h.f_inj
        rw [hs, h.map_singleton]
      · cases hdw : W.deps p v with
        | unavailable m' =>
          rw [hdw] at hd
          simp only [DepsAnswer.mapH, DepsAnswer.unavailable.injEq] at hd
          rw [hd]
        | available ds =>
          rw [hdw] at hd
          simp [DepsAnswer.mapH] at hd
    · cases hd

/-- a tree whose image is a checkable proof about the image world is a checkable proof -/
theorem DerivationTree.Checkable.pull (h : VSetHom S V S' V') (back : V' → Option V)
    (hback : ∀ v, back (h.ι v) = some v) (hback2 : ∀ v' v, back v' = some v → h.ι v = v')
    (W : World P S V M) (root : P) (rv : V) (t : DerivationTree P S V M)
    (ht : (DerivationTree.mapH h t).Checkable (World.mapH h back W) root (h.ι rv)) :
    t.Checkable W root rv := by
  induction t with
  | external e =>
    cases ht with
    | external _ he => exact .external e (External.TrueIn.pull h back hback hback2 W root rv e he)
  | derived terms sid c1 c2 ih1 ih2 =>
    cases ht with
    | derived _ _ _ _ h1 h2 hent =>
      refine .derived terms sid c1 c2 (ih1 h1) (ih2 h2) ?_
      intro σ hσ
      have := hent (fun p => (σ p).map h.ι) ((TermsTrue_mapH h σ terms).2 hσ)
      rw [DerivationTree.terms_mapH, DerivationTree.terms_mapH, TermsTrue_mapH, TermsTrue_mapH] at this
      exact this

/-- (no lawfulness needed) a checkable tree is sound over every universe -/
theorem DerivationTree.Checkable.sound' (W : World P S V M) (root : P) (rv : V)
    (t : DerivationTree P S V M) (h : t.Checkable W root rv) (U : P → V → Prop) : t.Sound U := by
  induction h with
  | external e _ => exact .external e
  | derived terms sid c1 c2 _ _ hent ih1 ih2 =>
    refine .derived terms sid c1 c2 ih1 ih2 ?_
    intro σ _ hT
    rcases hent σ hT with h | h
    · exact ⟨_, by simp, h⟩
    · exact ⟨_, by simp, h⟩

/-! ### `IsTreeOf`, `TwoEdgesTo` -/

theorem Kind.toExternal_mapH (h : VSetHom S V S' V') (k : Kind P S V M) :
    (Kind.mapH h k).toExternal = k.toExternal.map (External.mapH h) := by
  cases k <;> rfl

theorem Kind.mapH_eq_derivedFrom (h : VSetHom S V S' V') (k : Kind P S V M) (a b : Nat)
    (hk : Kind.mapH h k = .derivedFrom a b) : k = .derivedFrom a b := by
  cases k <;> simp_all [Kind.mapH]

theorem IsTreeOf.pull (h : VSetHom S V S' V') (store : List (Incompat P S V M)) (sh : Nat → Bool)
    (id : Nat) (t' : DerivationTree P S' V' M)
    (ht : IsTreeOf (store.map (Incompat.mapH h)) sh id t') :
    ∀ t : DerivationTree P S V M, t' = DerivationTree.mapH h t → IsTreeOf store sh id t := by
  induction ht with
  | external id inc' e' hs hk =>
    intro t et
    rw [List.getElem?_map, Option.map_eq_some_iff] at hs
    obtain ⟨inc, hinc, rfl⟩ := hs
    cases t with
    | derived => simp [DerivationTree.mapH] at et
    | external e =>
      simp only [DerivationTree.mapH, DerivationTree.external.injEq] at et
      subst et
      rw [Incompat.mapH_kind, Kind.toExternal_mapH, Option.map_eq_some_iff] at hk
      obtain ⟨e0, he0, ee⟩ := hk
      rw [External.mapH_injective h ee] at he0
      exact .external id inc e hinc he0
  | derived id inc' a b c1' c2' hs hk _ _ ih1 ih2 =>
    intro t et
    rw [List.getElem?_map, Option.map_eq_some_iff] at hs
    obtain ⟨inc, hinc, rfl⟩ := hs
    cases t with
    | external e => simp [DerivationTree.mapH] at et
    | derived terms sid c1 c2 =>
      simp only [DerivationTree.mapH, DerivationTree.derived.injEq] at et
      obtain ⟨e1, e2, e3, e4⟩ := et
      have e1' : termsMapH h inc.terms = termsMapH h terms := e1
      rw [← termsMapH_injective h e1', ← e2]
      exact .derived id inc a b c1 c2 hinc (Kind.mapH_eq_derivedFrom h _ a b hk) (ih1 c1 e3) (ih2 c2 e4)

theorem store_causes_mapH (h : VSetHom S V S' V') (store : List (Incompat P S V M)) (i a b : Nat) :
    (∃ inc', (store.map (Incompat.mapH h))[i]? = some inc' ∧ inc'.causes = some (a, b)) ↔
      ∃ inc, store[i]? = some inc ∧ inc.causes = some (a, b) := by
  constructor
  · rintro ⟨inc', hs, hc⟩
    rw [List.getElem?_map, Option.map_eq_some_iff] at hs
    obtain ⟨inc, hinc, rfl⟩ := hs
    rw [Incompat.causes_mapH] at hc
    exact ⟨inc, hinc, hc⟩
  · rintro ⟨inc, hs, hc⟩
    exact ⟨Incompat.mapH h inc, by rw [List.getElem?_map, hs]; rfl, by rw [Incompat.causes_mapH]; exact hc⟩

theorem IdReach_mapH (h : VSetHom S V S' V') (store : List (Incompat P S V M)) (top k : Nat) :
    IdReach (store.map (Incompat.mapH h)) top k ↔ IdReach store top k := by
  constructor
  · intro hr
    induction hr with
    | top => exact .top
    | left i a b inc' _ hs hc ih =>
      obtain ⟨inc, hs', hc'⟩ := (store_causes_mapH h store i a b).1 ⟨inc', hs, hc⟩
      exact .left i a b inc ih hs' hc'
    | right i a b inc' _ hs hc ih =>
      obtain ⟨inc, hs', hc'⟩ := (store_causes_mapH h store i a b).1 ⟨inc', hs, hc⟩
      exact .right i a b inc ih hs' hc'
  · intro hr
    induction hr with
    | top => exact .top
    | left i a b inc _ hs hc ih =>
      obtain ⟨inc', hs', hc'⟩ := (store_causes_mapH h store i a b).2 ⟨inc, hs, hc⟩
      exact .left i a b inc' ih hs' hc'
    | right i a b inc _ hs hc ih =>
      obtain ⟨inc', hs', hc'⟩ := (store_causes_mapH h store i a b).2 ⟨inc, hs, hc⟩
      exact .right i a b inc' ih hs' hc'

theorem IsEdgeTo_mapH (h : VSetHom S V S' V') (store : List (Incompat P S V M)) (top k : Nat)
    (e : Nat × Bool) :
    IsEdgeTo (store.map (Incompat.mapH h)) top k e ↔ IsEdgeTo store top k e := by
  unfold IsEdgeTo
  rw [IdReach_mapH]
  constructor
  · rintro ⟨hr, inc', a, b, hs, hc, hk⟩
    obtain ⟨inc, hs', hc'⟩ := (store_causes_mapH h store e.1 a b).1 ⟨inc', hs, hc⟩
    exact ⟨hr, inc, a, b, hs', hc', hk⟩
  · rintro ⟨hr, inc, a, b, hs, hc, hk⟩
    obtain ⟨inc', hs', hc'⟩ := (store_causes_mapH h store e.1 a b).2 ⟨inc, hs, hc⟩
    exact ⟨hr, inc', a, b, hs', hc', hk⟩

theorem TwoEdgesTo_mapH (h : VSetHom S V S' V') (store : List (Incompat P S V M)) (top k : Nat) :
    TwoEdgesTo (store.map (Incompat.mapH h)) top k ↔ TwoEdgesTo store top k := by
  unfold TwoEdgesTo
  simp only [IsEdgeTo_mapH]

/-! ### `collapse_no_versions` -/

theorem DerivationTree.mergeNoVersions_mapH (h : VSetHom S V S' V') (t : DerivationTree P S V M)
    (p : P) (set : S) :
    (DerivationTree.mapH h t).mergeNoVersions p (h.f set) =
      (t.mergeNoVersions p set).map (Option.map (DerivationTree.mapH h)) := by
  cases t with
  | derived terms sid c1 c2 => rfl
  | external e =>
    cases e with
    | notRoot q v => rfl
    | noVersions q s => rfl
    | custom q s m => rfl
    | fromDependencyOf p1 r1 p2 r2 =>
      simp only [DerivationTree.mapH, External.mapH, DerivationTree.mergeNoVersions]
      split
      · simp [DerivationTree.mapH, External.mapH, h.map_union]
      · simp [DerivationTree.mapH, External.mapH, h.map_union]

theorem DerivationTree.mapH_ne_noVersions (h : VSetHom S V S' V') (c : DerivationTree P S V M)
    (hc : ∀ (p : P) (r : S), c = .external (.noVersions p r) → False) :
    ∀ (p : P) (r : S'), DerivationTree.mapH h c = .external (.noVersions p r) → False := by
  intro p r e
  cases c with
  | derived => simp [DerivationTree.mapH] at e
  | external x =>
    cases x with
    | noVersions q s => exact hc q s rfl
    | notRoot q v => simp [DerivationTree.mapH, External.mapH] at e
    | fromDependencyOf => simp [DerivationTree.mapH, External.mapH] at e
    | custom => simp [DerivationTree.mapH, External.mapH] at e

theorem DerivationTree.collapseNoVersions_mapH (h : VSetHom S V S' V') (t : DerivationTree P S V M) :
    (DerivationTree.mapH h t).collapseNoVersions =
      t.collapseNoVersions.map (DerivationTree.mapH h) := by
  induction t with
  | external e => rfl
  | derived terms sid c1 c2 ih1 ih2 =>
    by_cases h1 : ∃ p r, c1 = .external (.noVersions p r)
    · obtain ⟨p, r, rfl⟩ := h1
      simp only [DerivationTree.mapH, External.mapH, DerivationTree.collapseNoVersions]
      rw [ih2]
      cases hc2 : c2.collapseNoVersions with
      | error e => rfl
      | ok c2' =>
        simp only [exceptMap_ok, DerivationTree.mergeNoVersions_mapH]
        cases hm : c2'.mergeNoVersions p r with
        | error e => rfl
        | ok o => cases o <;> rfl
    · have h1' : ∀ (p : P) (r : S), c1 = .external (.noVersions p r) → False :=
        fun p r e => h1 ⟨p, r, e⟩
      by_cases h2 : ∃ p r, c2 = .external (.noVersions p r)
      · obtain ⟨p, r, rfl⟩ := h2
        simp only [DerivationTree.mapH, External.mapH]
        rw [DerivationTree.collapseNoVersions.eq_3 _ _ _ _ _ h1',
          DerivationTree.collapseNoVersions.eq_3 _ _ _ _ _ (DerivationTree.mapH_ne_noVersions h c1 h1'),
          ih1]
        cases hc1 : c1.collapseNoVersions with
        | error e => rfl
        | ok c1' =>
          simp only [exceptMap_ok, DerivationTree.mergeNoVersions_mapH]
          cases hm : c1'.mergeNoVersions p r with
          | error e => rfl
          | ok o => cases o <;> rfl
      · have h2' : ∀ (p : P) (r : S), c2 = .external (.noVersions p r) → False :=
          fun p r e => h2 ⟨p, r, e⟩
        simp only [DerivationTree.mapH]
        rw [DerivationTree.collapseNoVersions.eq_4 _ _ _ _ h1' h2',
          DerivationTree.collapseNoVersions.eq_4 _ _ _ _ (DerivationTree.mapH_ne_noVersions h c1 h1')
            (DerivationTree.mapH_ne_noVersions h c2 h2'), ih1, ih2]
        cases c1.collapseNoVersions <;> cases c2.collapseNoVersions <;> rfl

/-! ### soundness over the existing versions, leaf truth in the existing-versions reading -/

theorem Within_exists_push (h : VSetHom S V S' V') (back : V' → Option V) (W : World P S V M)
    (σ : P → Option V) (hw : Within W.Exists σ) :
    Within (World.mapH h back W).Exists (fun p => (σ p).map h.ι) := by
  intro p v' hv'
  simp only [Option.map_eq_some_iff] at hv'
  obtain ⟨v, hv, rfl⟩ := hv'
  exact List.mem_map.2 ⟨v, hw p v hv, rfl⟩

theorem DerivationTree.Sound.pull (h : VSetHom S V S' V') (back : V' → Option V)
    (W : World P S V M) (t : DerivationTree P S V M)
    (ht : (DerivationTree.mapH h t).Sound (World.mapH h back W).Exists) : t.Sound W.Exists := by
  induction t with
  | external e => exact .external e
  | derived terms sid c1 c2 ih1 ih2 =>
    cases ht with
    | derived _ _ _ _ h1 h2 hent =>
      refine .derived terms sid c1 c2 (ih1 h1) (ih2 h2) ?_
      intro σ hw hσ
      obtain ⟨pr, hpr, htrue⟩ := hent (fun p => (σ p).map h.ι) (Within_exists_push h back W σ hw)
        ((TermsTrue_mapH h σ terms).2 hσ)
      simp only [List.mem_cons, List.not_mem_nil, or_false] at hpr
      rcases hpr with rfl | rfl
      · rw [DerivationTree.terms_mapH, TermsTrue_mapH] at htrue
        exact ⟨_, by simp, htrue⟩
      · rw [DerivationTree.terms_mapH, TermsTrue_mapH] at htrue
        exact ⟨_, by simp, htrue⟩

theorem External.TrueInExisting.pull (h : VSetHom S V S' V') (back : V' → Option V)
    (hback : ∀ v, back (h.ι v) = some v)
    (W : World P S V M) (root : P) (rv : V) (e : External P S V M)
    (he : (External.mapH h e).TrueInExisting (World.mapH h back W) root (h.ι rv)) :
    e.TrueInExisting W root rv := by
  cases e with
  | notRoot p v =>
    obtain ⟨h1, h2⟩ := he
    exact ⟨h1, h.ι_inj _ _ h2⟩
  | noVersions p s =>
    intro v hv
    have := he (h.ι v) (List.mem_map.2 ⟨v, hv, rfl⟩)
    rw [h.map_contains] at this
    exact this
  | fromDependencyOf p s q t =>
    intro w hwv hw
    obtain ⟨ds', t0', hds', hmem, hall⟩ := he (h.ι w) (List.mem_map.2 ⟨w, hwv, rfl⟩)
      (by rw [h.map_contains]; exact hw)
    rw [World.mapH_deps h back hback] at hds'
    obtain ⟨ds, hds, rfl⟩ := DepsAnswer.mapH_available h _ _ hds'
    obtain ⟨t0, ht0, rfl⟩ := (mem_depsMapH h ds q _).1 hmem
    refine ⟨ds, t0, hds, ht0, ?_⟩
    intro x hx
    have := hall (h.ι x) (List.mem_map.2 ⟨x, hx, rfl⟩)
    rw [h.map_contains, h.map_contains] at this
    exact this
  | custom p s m =>
    intro w hwv hw
    have hd := he (h.ι w) (List.mem_map.2 ⟨w, hwv, rfl⟩) (by rw [h.map_contains]; exact hw)
    rw [World.mapH_deps h back hback] at hd
    cases hdw : W.deps p w with
    | unavailable m' =>
      rw [hdw] at hd
      simp only [DepsAnswer.mapH, DepsAnswer.unavailable.injEq] at hd
      rw [hd]
    | available ds =>
      rw [hdw] at hd
      simp [DepsAnswer.mapH] at hd

theorem DerivationTree.externals_mapH (h : VSetHom S V S' V') (t : DerivationTree P S V M) :
    (DerivationTree.mapH h t).externals = t.externals.map (External.mapH h) := by
  induction t with
  | external e => rfl
  | derived terms sid c1 c2 ih1 ih2 =>
    simp only [DerivationTree.mapH, DerivationTree.externals, ih1, ih2, List.map_append]

theorem DerivationTree.LeavesTrueExisting.pull (h : VSetHom S V S' V') (back : V' → Option V)
    (hback : ∀ v, back (h.ι v) = some v)
    (W : World P S V M) (root : P) (rv : V) (t : DerivationTree P S V M)
    (ht : (DerivationTree.mapH h t).LeavesTrueExisting (World.mapH h back W) root (h.ι rv)) :
    t.LeavesTrueExisting W root rv := by
  intro e he
  apply External.TrueInExisting.pull h back hback W root rv e
  apply ht
  rw [DerivationTree.externals_mapH]
  exact List.mem_map.2 ⟨e, he, rfl⟩

theorem DerivationTree.isNoVersions_mapH (h : VSetHom S V S' V') (t : DerivationTree P S V M) :
    (DerivationTree.mapH h t).isNoVersions = t.isNoVersions := by
  cases t with
  | derived => rfl
  | external e => cases e <;> rfl

theorem DerivationTree.isNoVersionsOrCustom_mapH (h : VSetHom S V S' V') (t : DerivationTree P S V M) :
    (DerivationTree.mapH h t).isNoVersionsOrCustom = t.isNoVersionsOrCustom := by
  cases t with
  | derived => rfl
  | external e => cases e <;> rfl

theorem DerivationTree.NoVersionsOnlyBesideLeaf_mapH (h : VSetHom S V S' V')
    (t : DerivationTree P S V M) :
    (DerivationTree.mapH h t).NoVersionsOnlyBesideLeaf ↔ t.NoVersionsOnlyBesideLeaf := by
  induction t with
  | external e => exact Iff.rfl
  | derived terms sid c1 c2 ih1 ih2 =>
    simp only [DerivationTree.mapH, DerivationTree.NoVersionsOnlyBesideLeaf,
      DerivationTree.isNoVersions_mapH, DerivationTree.isNoVersionsOrCustom_mapH, ih1, ih2]

end TreeTransport
end Pubgrub

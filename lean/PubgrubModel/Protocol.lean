/-
Line protocol shared by the model driver: machine text of ranges / terms (the same text the Rust
harness writes), canonical printing.
-/
import PubgrubModel.Term

namespace Pubgrub.Protocol
open Pubgrub Bound

def bit (b : Bool) : String := if b then "1" else "0"

def ordS : Ordering → String
  | .lt => "lt" | .eq => "eq" | .gt => "gt"

def fmtBound : Bound Nat → String
  | incl v => "i" ++ toString v
  | excl v => "e" ++ toString v
  | unb => "u"

def fmtSegs (r : Range Nat) : String :=
  match r with
  | [] => "-"
  | _ => " ".intercalate (r.map fun (s, e) => fmtBound s ++ ":" ++ fmtBound e)

def parseBound (s : String) : Option (Bound Nat) :=
  match s.toList with
  | ['u'] => some unb
  | 'i' :: rest => (String.ofList rest).toNat?.map incl
  | 'e' :: rest => (String.ofList rest).toNat?.map excl
  | _ => none

def parseSegs (s : String) : Option (Range Nat) :=
  let s := s.trimAscii.toString
  if s == "-" || s == "" then some [] else
  (s.splitOn " ").mapM fun p =>
    match p.splitOn ":" with
    | [a, b] => do
      let a ← parseBound a
      let b ← parseBound b
      pure (a, b)
    | _ => none

def parseVersions (s : String) : Option (List Nat) :=
  let s := s.trimAscii.toString
  if s == "" then some [] else (s.splitOn ",").mapM (·.toNat?)

def parseTerm (s : String) : Option (Term (Range Nat)) :=
  match s.toList with
  | '+' :: rest => (parseSegs (String.ofList rest)).map Term.pos
  | '~' :: rest => (parseSegs (String.ofList rest)).map Term.neg
  | _ => none

def fmtTerm : Term (Range Nat) → String
  | .pos r => "+" ++ fmtSegs r
  | .neg r => "~" ++ fmtSegs r

/-- `Display` of a `Range<u32>` -/
def dispRange (r : Range Nat) : String := Range.display (fun v : Nat => toString v) r

end Pubgrub.Protocol

/-
Helpers for PubgrubProofs/ReportCollapsed.lean: every derived node of the collapsed tree is the
collapse of a derived node of the input carrying the same shared id.
-/
import PubgrubProofs.ReportDefs
import PubgrubProofs.CollapseSound

set_option linter.unusedSectionVars false

namespace Pubgrub
open VersionSet

variable {P S V M : Type} [DecidableEq P] [VersionSet S V] [DecidableEq S]

/-- what `mergeNoVersions` returns is a leaf or the argument: its derived nodes are derived nodes of
the argument -/
theorem merge_some_derivedNodes (c : DerivationTree P S V M) (x : P) (s : S)
    (t : DerivationTree P S V M) (h : c.mergeNoVersions x s = .ok (some t)) :
    ∀ n ∈ t.derivedNodes, n ∈ c.derivedNodes := by
  cases c with
  | external e =>
    cases e <;> simp [DerivationTree.mergeNoVersions] at h
    split at h <;> simp at h <;> subst h <;> simp [DerivationTree.derivedNodes]
  | derived =>
    simp [DerivationTree.mergeNoVersions] at h
    subst h; intro n hn; exact hn

/-- every derived node `(sid, d')` of the collapsed tree is the collapse of a derived node `(sid, d)`
of the input -/
theorem collapse_derivedNodes_image (t : DerivationTree P S V M) :
    ∀ t', t.collapseNoVersions = .ok t' → ∀ sid d', (sid, d') ∈ t'.derivedNodes →
      ∃ d, (sid, d) ∈ t.derivedNodes ∧ d.collapseNoVersions = .ok d' := by
  induction t with
  | external e =>
    intro t' h sid d' hd
    rw [collapse_ext] at h; cases h
    simp [DerivationTree.derivedNodes] at hd
  | derived T sid0 c1 c2 ih1 ih2 =>
    intro t' h0 sid d' hd
    have h := h0
    -- lifting from the causes
    have lift1 : ∀ d, (sid, d) ∈ c1.derivedNodes →
        (sid, d) ∈ (DerivationTree.derived T sid0 c1 c2).derivedNodes := by
      intro d hd; simp only [DerivationTree.derivedNodes, List.mem_cons, List.mem_append]
      exact Or.inr (Or.inl hd)
    have lift2 : ∀ d, (sid, d) ∈ c2.derivedNodes →
        (sid, d) ∈ (DerivationTree.derived T sid0 c1 c2).derivedNodes := by
      intro d hd; simp only [DerivationTree.derivedNodes, List.mem_cons, List.mem_append]
      exact Or.inr (Or.inr hd)
    have self : ∀ a b, (sid, d') = (sid0, DerivationTree.derived T sid0 a b) →
        t' = DerivationTree.derived T sid0 a b →
        ∃ d, (sid, d) ∈ (DerivationTree.derived T sid0 c1 c2).derivedNodes ∧
          d.collapseNoVersions = .ok d' := by
      intro a b he ht
      simp only [Prod.mk.injEq] at he
      obtain ⟨rfl, rfl⟩ := he
      refine ⟨_, ?_, ht ▸ h0⟩
      simp [DerivationTree.derivedNodes]
    by_cases n1 : c1.isNoVersions = true
    · obtain ⟨x, s, rfl⟩ := (cs_isNoVersions_iff c1).1 n1
      rw [collapse_arm1] at h
      cases hc : c2.collapseNoVersions with
      | error err => simp [hc] at h
      | ok c2' =>
        simp only [hc] at h
        cases hm : c2'.mergeNoVersions x s with
        | error err => simp [hm] at h
        | ok o =>
          cases o with
          | some t'' =>
            simp only [hm, Except.ok.injEq] at h
            subst h
            obtain ⟨d, hd1, hd2⟩ := ih2 c2' hc sid d' (merge_some_derivedNodes _ _ _ _ hm _ hd)
            exact ⟨d, lift2 d hd1, hd2⟩
          | none =>
            simp only [hm, Except.ok.injEq] at h
            subst h
            simp only [DerivationTree.derivedNodes, List.mem_cons, List.mem_append,
              List.not_mem_nil, false_or] at hd
            rcases hd with hd | hd
            · exact self _ _ hd rfl
            · obtain ⟨d, hd1, hd2⟩ := ih2 c2' hc sid d' hd
              exact ⟨d, lift2 d hd1, hd2⟩
    · have n1' : c1.isNoVersions = false := by simpa using n1
      by_cases n2 : c2.isNoVersions = true
      · obtain ⟨x, s, rfl⟩ := (cs_isNoVersions_iff c2).1 n2
        rw [collapse_arm2 _ _ _ _ _ n1'] at h
        cases hc : c1.collapseNoVersions with
        | error err => simp [hc] at h
        | ok c1' =>
          simp only [hc] at h
          cases hm : c1'.mergeNoVersions x s with
          | error err => simp [hm] at h
          | ok o =>
            cases o with
            | some t'' =>
              simp only [hm, Except.ok.injEq] at h
              subst h
              obtain ⟨d, hd1, hd2⟩ := ih1 c1' hc sid d' (merge_some_derivedNodes _ _ _ _ hm _ hd)
              exact ⟨d, lift1 d hd1, hd2⟩
            | none =>
              simp only [hm, Except.ok.injEq] at h
              subst h
              simp only [DerivationTree.derivedNodes, List.mem_cons, List.mem_append,
                List.not_mem_nil, or_false] at hd
              rcases hd with hd | hd
              · exact self _ _ hd rfl
              · obtain ⟨d, hd1, hd2⟩ := ih1 c1' hc sid d' hd
                exact ⟨d, lift1 d hd1, hd2⟩
      · have n2' : c2.isNoVersions = false := by simpa using n2
        rw [collapse_arm3 _ _ _ _ n1' n2'] at h
        cases hc1 : c1.collapseNoVersions with
        | error err => simp [hc1] at h
        | ok c1' =>
          cases hc2 : c2.collapseNoVersions with
          | error err => simp [hc1, hc2] at h
          | ok c2' =>
            simp only [hc1, hc2, Except.ok.injEq] at h
            subst h
            simp only [DerivationTree.derivedNodes, List.mem_cons, List.mem_append] at hd
            rcases hd with hd | hd | hd
            · exact self _ _ hd rfl
            · obtain ⟨d, hd1, hd2⟩ := ih1 c1' hc1 sid d' hd
              exact ⟨d, lift1 d hd1, hd2⟩
            · obtain ⟨d, hd1, hd2⟩ := ih2 c2' hc2 sid d' hd
              exact ⟨d, lift2 d hd1, hd2⟩

end Pubgrub

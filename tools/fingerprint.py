#!/usr/bin/env python3
"""
tools/fingerprint.py [--update] [REPO]

Fingerprints of the Rust sources the Lean model transcribes (sha256 of every /repo/src/**/*.rs with comments
and white space removed), compared with the baseline committed in /verif/source_baseline.json — the tree on
which the model was written, every theorem proved and the THOROUGH correspondence last passed.

Without --update: prints the files that differ (one per line) and the properties whose model depends on them.
With --update: rewrites the baseline from REPO's working tree (do this only after the thorough tier passed on
that tree, e.g. after a `fix:` commit).

The check script uses `drift(repo)` : a property whose modelled sources differ from the baseline is checked
on the thorough scopes (a quarter of their random cases) in addition to the quick ones — a changed function
is where model and code may have parted, so the tie is re-established on the larger scope before the theorems
are believed to speak about the new code.  Drift alone is never a violation.
"""
import hashlib, json, os, sys

VERIF = os.path.dirname(os.path.dirname(os.path.abspath(__file__)))
BASE = os.path.join(VERIF, "source_baseline.json")

SOLVER = ["C01", "C02", "C03", "C04", "C05", "C06", "C07", "C12", "C13", "C14", "C17"]
TREES = ["C08", "C09"]
# which properties' models / oracles exercise which source file
DEPENDS = {
    "src/range.rs": ["C10", "C11", "C15", "C16", "C19"] + SOLVER + TREES,
    "src/internal/small_vec.rs": ["C10", "C15", "C16", "C19"] + SOLVER,
    "src/version_set.rs": ["C10", "C11", "C17"] + SOLVER,
    "src/term.rs": ["C11"] + SOLVER + TREES,
    "src/internal/small_map.rs": SOLVER + TREES,
    "src/internal/incompatibility.rs": SOLVER + TREES,
    "src/internal/partial_solution.rs": SOLVER + TREES,
    "src/internal/core.rs": SOLVER + TREES,
    "src/internal/arena.rs": SOLVER + TREES,
    "src/internal/mod.rs": SOLVER,
    "src/solver.rs": SOLVER + TREES + ["C18", "C19"],
    "src/error.rs": SOLVER,
    "src/package.rs": SOLVER,
    "src/type_aliases.rs": SOLVER + ["C18", "C19"],
    "src/report.rs": ["C03", "C07", "C08", "C09"],
    "src/version.rs": ["C19", "C20"],
    "src/lib.rs": [],
    "src/verif.rs": SOLVER + TREES + ["C11", "C16"],
}
ALL = ["C%02d" % i for i in range(1, 21)]


def strip_rust(text):
    """remove // and /* */ comments (nested) and all white space outside string / char literals"""
    out, i, n = [], 0, len(text)
    while i < n:
        c = text[i]
        if text.startswith("//", i):
            while i < n and text[i] != "\n":
                i += 1
            continue
        if text.startswith("/*", i):
            depth, i = 1, i + 2
            while i < n and depth:
                if text.startswith("/*", i):
                    depth += 1; i += 2
                elif text.startswith("*/", i):
                    depth -= 1; i += 2
                else:
                    i += 1
            continue
        if c == '"':
            j = i + 1
            while j < n and text[j] != '"':
                j += 2 if text[j] == "\\" else 1
            out.append(text[i:j + 1]); i = j + 1
            continue
        if c == "r" and i + 1 < n and text[i + 1] in '#"':
            j = i + 1; h = 0
            while j < n and text[j] == "#":
                h += 1; j += 1
            if j < n and text[j] == '"':
                end = text.find('"' + "#" * h, j + 1)
                if end >= 0:
                    out.append(text[i:end + 1 + h]); i = end + 1 + h
                    continue
        if c == "'":
            # char literal ('x', '\n', '\'') or a lifetime ('a)
            if i + 2 < n and text[i + 1] == "\\":
                j = text.find("'", i + 3)
                if 0 <= j <= i + 12:
                    out.append(text[i:j + 1]); i = j + 1
                    continue
            elif i + 2 < n and text[i + 2] == "'":
                out.append(text[i:i + 3]); i += 3
                continue
        if c.isspace():
            # keep one separator between two identifier characters
            if out and i + 1 < n and (out[-1][-1:].isalnum() or out[-1][-1:] == "_"):
                k = i
                while k < n and text[k].isspace():
                    k += 1
                if k < n and (text[k].isalnum() or text[k] == "_"):
                    out.append(" ")
                i = k
                continue
            i += 1
            continue
        out.append(c); i += 1
    return "".join(out)


def literals(text):
    """distinct integer literals (and `1 << k` as 2^k) of a source text, comments and strings removed"""
    import re
    t = strip_rust(text)
    t = re.sub(r'"(?:\\.|[^"\\])*"', '""', t)
    t = t.replace("..=", " ").replace("..", " ")
    vals = set()
    for m in re.finditer(r"(?<![\w.])(\d[\d_]*)(?:usize|isize|u8|u16|u32|u64|u128|i8|i16|i32|i64)?(?![\w.])", t):
        try:
            vals.add(int(m.group(1).replace("_", "")))
        except ValueError:
            pass
    for m in re.finditer(r"(?<![\w.])1(?:usize|u32|u64|u16)?<<(\d+)", t):
        k = int(m.group(1))
        if k < 40:
            vals.add(1 << k)
    for ty, v in (("u8", 255), ("i8", 127), ("u16", 65535), ("i16", 32767)):
        if re.search(r"(?<![\w])" + ty + r"(?![\w])", t):
            vals.add(v)
    return sorted(vals)


def all_literals(repo):
    res = {}
    for root, _, files in os.walk(os.path.join(repo, "src")):
        for f in sorted(files):
            if f.endswith(".rs"):
                p = os.path.join(root, f)
                res[os.path.relpath(p, repo)] = literals(open(p, encoding="utf-8", errors="replace").read())
    return res


def new_thresholds(repo):
    """integer constants (3..200000) that occur in a source file now and did not occur in that file at the
    baseline: sizes at which the changed code may behave differently (a fast path above a length, a narrower
    counter, a cap).  The generators add inputs around them (VERIF_THRESHOLDS)."""
    if not os.path.exists(BASE):
        return []
    base = json.load(open(BASE)).get("literals", {})
    out = set()
    for f, vals in all_literals(repo).items():
        old = set(base.get(f, []))
        for v in vals:
            if v not in old and 3 <= v <= 200000:
                out.add(v)
    return sorted(out)[:10]


def fingerprints(repo):
    res = {}
    src = os.path.join(repo, "src")
    for root, _, files in os.walk(src):
        for f in sorted(files):
            if f.endswith(".rs"):
                p = os.path.join(root, f)
                rel = os.path.relpath(p, repo)
                res[rel] = hashlib.sha256(strip_rust(open(p, encoding="utf-8", errors="replace").read()).encode()).hexdigest()
    for extra in ("Cargo.toml",):
        p = os.path.join(repo, extra)
        if os.path.exists(p):
            res[extra] = hashlib.sha256(open(p, "rb").read()).hexdigest()
    return res


def drift(repo):
    """(changed files, set of properties to escalate)"""
    if not os.path.exists(BASE):
        return [], set()
    base = json.load(open(BASE))["files"]
    now = fingerprints(repo)
    changed = sorted(f for f in set(base) | set(now) if base.get(f) != now.get(f))
    props = set()
    for f in changed:
        props.update(DEPENDS.get(f, ALL))   # a file the table does not know (new module, Cargo.toml): everything
    return changed, props


if __name__ == "__main__":
    args = [a for a in sys.argv[1:] if not a.startswith("--")]
    repo = args[0] if args else os.environ.get("VERIF_REPO", "/repo")
    if "--update" in sys.argv:
        import subprocess
        head = subprocess.run(["git", "-C", repo, "rev-parse", "HEAD"], capture_output=True, text=True).stdout.strip()
        dirty = subprocess.run(["git", "-C", repo, "status", "--short"], capture_output=True, text=True).stdout.strip()
        json.dump({"repo_head": head + ("+dirty" if dirty else ""), "normalisation": "comments and white space removed (tools/fingerprint.py strip_rust)",
                   "files": fingerprints(repo), "literals": all_literals(repo)}, open(BASE, "w"), indent=None)
        print("baseline written for", head)
    else:
        ch, props = drift(repo)
        for f in ch:
            print(f)
        print("escalate:", " ".join(sorted(props)) or "-")
        print("new integer constants:", new_thresholds(repo))

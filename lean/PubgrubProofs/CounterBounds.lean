/-
TARGET FILE: PubgrubProofs/CounterBounds.lean
Property C05, clause "does not overflow" (as far as it can be had): along every well-behaved run over a
finite registry, as long as `resolve` has not returned, the decision level never exceeds the number of
packages of the registry, and the next global index of the partial solution never exceeds `Cmax fw`.
(The Rust code keeps both in `u32`; the model in `Nat`.  The first bound says that `DecisionLevel` cannot
wrap for a registry with fewer than 2^32 packages.)

Everything needed is in Termination / TerminationAux13: `rinvM_start`, `rinvM_step`, `RInvM.live`,
`level_lt_Dim`, `Dim`, `goodRunFrom_of_wellBehavedRun`, `GoodRunFrom.head/tail`, and the invariants
`RInv`, `RInv'`, `RInvT`, `RInvN` that `run_rinvM`'s proof obtains for reachable states (see how the
`cons` case of `run_rinvM` in Termination.lean gets the hypotheses of `rinvM_step`).  A convenient route:
generalise `run_rinvM` to "∀ as x n, Reachable … x → RInvM fw x n → GoodRunFrom W x as →
(Solver.after x as).1.phase ≠ .finished → KInv fw (after x as).1.st ∧ (after x as).1.st.ps.WF ∧
nextGlobalIndex + rank ≤ Cmax fw" by the same induction, then apply `level_lt_Dim`.
Note `RInvM … n` has a budget index `n`; `rinvM_step` goes from `n+1` to `n`; look at how `run_rinvM`
handles `n = 0` (Budget) — you may need `∃ n` or a weakening lemma `RInvM fw x n → RInvM fw x (n+1)` /
start from a large budget.  If the budget gets in the way, state and prove a budget-free variant of the
live part of the invariant (copy the relevant part of `rinvM_step`'s proof), but do NOT modify existing files.
-/
import PubgrubProofs.Termination

set_option linter.unusedSectionVars false
set_option linter.unusedVariables false

namespace Pubgrub
open VersionSet

variable {P S V M Pr E : Type} [DecidableEq P] [VersionSet S V] [DecidableEq S] [DecidableEq V]
  [LE Pr] [DecidableLE Pr] [LawfulVersionSet S V] [CanonicalEmpty S V]

/-! ### helpers -/

section
variable {W : World P S V M} {root : P} {rv : V} (fw : FiniteWorld W root rv)

/-- the budget of remaining provider calls may be enlarged -/
theorem Budget.mono {x : SolverState P S V M Pr × Request P S V M Pr E} {n m : Nat}
    (h : Budget fw x n) (hnm : n ≤ m) : Budget fw x m := by
  unfold Budget at h ⊢
  split
  · trivial
  · rename_i hph
    rw [hph] at h
    simp only at h
    rcases h with ⟨h1, h2⟩ | h
    · exact Or.inl ⟨h1, by omega⟩
    · exact Or.inr (by omega)
  all_goals
    rename_i hph
    rw [hph] at h
    simp only at h
    omega

theorem RInvM.mono {x : SolverState P S V M Pr × Request P S V M Pr E} {n m : Nat}
    (h : RInvM fw x n) (hnm : n ≤ m) : RInvM fw x m :=
  ⟨h.live, h.fetching, h.fuel, h.nofuel, h.budget.mono fw hnm⟩

/-- once `resolve` has returned, the solver state does not change any more -/
theorem after_finished (x : SolverState P S V M Pr × Request P S V M Pr E) (hx : x.1.phase = .finished)
    (as : List (Answer P S V M Pr E)) : (Solver.after x as).1.phase = .finished := by
  induction as generalizing x with
  | nil => rw [Solver.after_nil]; exact hx
  | cons a as ih =>
    rw [Solver.after_cons]
    apply ih
    rw [Solver.step_finished x.1 a hx]; exact hx

/-- the live part of the run-level invariant holds after every good run that has not returned -/
theorem run_live (hW : W.SetsValid) (debug : Bool) (fuel : Nat) :
    ∀ (as : List (Answer P S V M Pr E)) (x : SolverState P S V M Pr × Request P S V M Pr E) (n : Nat),
    Reachable W debug fuel root rv x → RInvM fw x n → GoodRunFrom W x as →
    (Solver.after x as).1.phase ≠ .finished →
    KInv fw (Solver.after x as).1.st ∧ (Solver.after x as).1.st.ps.WF ∧
    (Solver.after x as).1.st.ps.nextGlobalIndex + rank fw (Solver.after x as).1.st.ps ≤ Cmax fw := by
  intro as
  induction as with
  | nil =>
    intro x n hreach h _ hlive
    rw [Solver.after_nil] at hlive ⊢
    obtain ⟨hk, _, hidx⟩ := h.live hlive
    exact ⟨hk, ((reachable_rinv' W hW debug fuel root rv _ hreach).live hlive).1.wf.wf, hidx⟩
  | cons a as ih =>
    intro x n hreach h hgood hlive
    obtain ⟨s, req⟩ := x
    cases hfin : req.isFinal with
    | true =>
      exfalso
      have hco := reachable_coherent W debug fuel root rv _ hreach
      have hph : s.phase = .finished := Solver.coherent_final hco hfin
      exact hlive (after_finished (s, req) hph (a :: as))
    | false =>
      obtain ⟨hok, _⟩ := hgood.head hfin
      have hreach' : Reachable W debug fuel root rv (Solver.step s a) := Reachable.step hreach hok
      rw [Solver.after_cons] at hlive ⊢
      have hstep := rinvM_step fw CanonicalEmpty.canonEmpty hW s req a n
        (reachable_rinv W hW debug fuel root rv _ hreach)
        (reachable_rinv' W hW debug fuel root rv _ hreach)
        (reachable_rinvT W hW debug fuel root rv _ hreach)
        (reachable_rinvN W hW debug fuel root rv _ hreach) (h.mono fw (Nat.le_succ n)) hok
      exact ih (Solver.step s a) n hreach' hstep hgood.tail hlive

end

/-- TARGET 1 -/
theorem counters_bounded (W : World P S V M) (hW : W.SetsValid) (root : P) (rv : V)
    (fw : FiniteWorld W root rv) (debug : Bool) :
    ∃ fuel0 : Nat, ∀ fuel, fuel0 ≤ fuel → ∀ as : List (Answer P S V M Pr E),
      WellBehavedRun W debug fuel root rv as →
      (Solver.after (Solver.start debug fuel root rv) as).1.phase ≠ .finished →
      (Solver.after (Solver.start debug fuel root rv) as).1.st.ps.currentDecisionLevel ≤ fw.pkgs.length ∧
      (Solver.after (Solver.start debug fuel root rv) as).1.st.ps.nextGlobalIndex ≤ Cmax fw := by
  refine ⟨3 * Cmax fw + 3, ?_⟩
  intro fuel hfuel as hrun hlive
  obtain ⟨hk, hw, hidx⟩ := run_live fw hW debug fuel as _ _ Reachable.start
    (rinvM_start fw debug fuel hfuel) (goodRunFrom_of_wellBehavedRun hrun) hlive
  have hlvl := level_lt_Dim fw hw (fun kv hkv => (hk.ps kv hkv).1.1)
  have hd : Dim fw = fw.pkgs.length + 2 := rfl
  constructor
  · omega
  · omega

end Pubgrub

/-
TARGET FILE: PubgrubProofs/RangeHom.lean
`Range V` over ANY linear order embeds, by mapping the bounds along a strictly monotone `ι : V → V'`,
into `Range V'`, and the embedding is a version-set homomorphism (PubgrubProofs/HomDefs.lean): all nine
methods of the model's `Range` (PubgrubModel/Range.lean, instance in PubgrubModel/VersionSet.lean) only
compare bounds, and strictly monotone maps preserve and reflect `<`, `≤`, `=`.  No well-formedness is
needed: the commutation holds for arbitrary segment lists.  Then: a dense linear order without end
points containing `V`:  `Dense V := V ×ₗ ℚ`  (or any other concrete construction you prefer — keep the
names `Dense`, `Dense.ι`, `Dense.back`), `ι v = (v, 0)`.
Hints: the recursive sweeps (`unionGo`, `intersection`, `isDisjoint`, `subsetGo`, …, some by
`termination_by`) are best handled by `fun_induction` on the UNMAPPED call and rewriting the mapped
call with the equation lemma (`rw [Range.intersection]`/`unfold`), using simp lemmas
`decide (ι a < ι b) = decide (a < b)` etc.  First prove comparison lemmas for mapped `Bound`s for every
helper of Range.lean (`validSegment`, `leftEndIsSmaller`, `belowEnd`, `aboveStart`, `interStart`, …).
For `Dense V`: Mathlib has `Prod.Lex` orders in Mathlib/Data/Prod/Lex.lean (it already has the DenselyOrdered / NoMinOrder / NoMaxOrder instances for `α ×ₗ β` from the right factor) (`toLex`, `Prod.Lex.lt_iff`,
instances `LinearOrder (α ×ₗ β)`); check whether `DenselyOrdered`/`NoMaxOrder`/`NoMinOrder` instances for
`α ×ₗ β` from the right factor exist, else prove them from `Prod.Lex.lt_iff` (between `(a,q)` and `(b,r)`
with `a < b` take `(a, q+1)`).  Import single Mathlib modules only.
Replace every `sorry`; keep the target statements.
-/
import PubgrubProofs.HomDefs
import PubgrubProofs.VSetInstances
import Mathlib.Data.Prod.Lex
import Mathlib.Algebra.Order.Field.Basic
import Mathlib.Algebra.Order.Field.Rat

set_option linter.unusedSectionVars false

namespace Pubgrub
open VersionSet

namespace Range
variable {V V' : Type} [LinearOrder V] [LinearOrder V']

def mapBound (ι : V → V') : Bound V → Bound V'
  | .unb => .unb
  | .incl v => .incl (ι v)
  | .excl v => .excl (ι v)

/-- the image of a segment list -/
def mapR (ι : V → V') (r : Range V) : Range V' :=
  r.map fun seg => (mapBound ι seg.1, mapBound ι seg.2)

/-! ### helpers: every bound comparison and every sweep commutes with `mapR` -/

open Pubgrub.Bound

section
variable (ι : V → V')

@[simp] theorem mapBound_unb : mapBound ι (unb : Bound V) = unb := rfl
@[simp] theorem mapBound_incl (v : V) : mapBound ι (incl v) = incl (ι v) := rfl
@[simp] theorem mapBound_excl (v : V) : mapBound ι (excl v) = excl (ι v) := rfl
@[simp] theorem mapR_nil : mapR ι ([] : Range V) = [] := rfl
@[simp] theorem mapR_cons (s : Seg V) (t : Range V) :
    mapR ι (s :: t) = (mapBound ι s.1, mapBound ι s.2) :: mapR ι t := rfl
@[simp] theorem mapR_append (a b : Range V) : mapR ι (a ++ b) = mapR ι a ++ mapR ι b := by
  simp [mapR]

end

section Cmp
variable {ι : V → V'} (hι : StrictMono ι)
include hι

theorem dlt (a b : V) : decide (ι a < ι b) = decide (a < b) := by simp [hι.lt_iff_lt]
theorem dle (a b : V) : decide (ι a ≤ ι b) = decide (a ≤ b) := by simp [hι.le_iff_le]
theorem deq (a b : V) : (ι a = ι b) = (a = b) := by simp [hι.injective.eq_iff]

theorem mapBound_inj (a b : Bound V) (h : mapBound ι a = mapBound ι b) : a = b := by
  cases a <;> cases b <;> simp_all [hι.injective.eq_iff]

theorem mapR_inj (a b : Range V) (h : mapR ι a = mapR ι b) : a = b := by
  induction a generalizing b with
  | nil => cases b <;> simp_all
  | cons s t ih =>
    cases b with
    | nil => simp at h
    | cons s' t' =>
      simp only [mapR_cons, List.cons.injEq, Prod.mk.injEq] at h
      obtain ⟨⟨h1, h2⟩, h3⟩ := h
      have := mapBound_inj hι _ _ h1
      have := mapBound_inj hι _ _ h2
      have := ih _ h3
      cases s; cases s'; simp_all

theorem validSegment_map (a b : Bound V) :
    validSegment (mapBound ι a) (mapBound ι b) = validSegment a b := by
  cases a <;> cases b <;> simp [validSegment, hι.lt_iff_lt, hι.le_iff_le]

theorem endBeforeStartWithGap_map (a b : Bound V) :
    endBeforeStartWithGap (mapBound ι a) (mapBound ι b) = endBeforeStartWithGap a b := by
  cases a <;> cases b <;> simp [endBeforeStartWithGap, hι.lt_iff_lt, hι.le_iff_le]

theorem leftStartIsSmaller_map (a b : Bound V) :
    leftStartIsSmaller (mapBound ι a) (mapBound ι b) = leftStartIsSmaller a b := by
  cases a <;> cases b <;> simp [leftStartIsSmaller, hι.lt_iff_lt, hι.le_iff_le]

theorem leftEndIsSmaller_map (a b : Bound V) :
    leftEndIsSmaller (mapBound ι a) (mapBound ι b) = leftEndIsSmaller a b := by
  cases a <;> cases b <;> simp [leftEndIsSmaller, hι.lt_iff_lt, hι.le_iff_le]

theorem withinBounds_map (v : V) (s e : Bound V) :
    withinBounds (ι v) (mapBound ι s, mapBound ι e) = withinBounds v (s, e) := by
  cases s <;> cases e <;> simp [withinBounds, hι.lt_iff_lt, hι.le_iff_le]

theorem flipB_map (a : Bound V) : flipB (mapBound ι a) = mapBound ι (flipB a) := by
  cases a <;> rfl

theorem negateSegments_map (s : Bound V) (t : Range V) :
    negateSegments (mapBound ι s) (mapR ι t) = mapR ι (negateSegments s t) := by
  induction t generalizing s with
  | nil => cases s <;> simp [negateSegments]
  | cons x t ih =>
    obtain ⟨v1, v2⟩ := x
    simp only [mapR_cons, negateSegments, flipB_map hι, ih]

theorem complement_map (r : Range V) : complement (mapR ι r) = mapR ι (complement r) := by
  have hn := negateSegments_map hι
  match r with
  | [] => rfl
  | (unb, unb) :: _ => rfl
  | (incl v, unb) :: _ => rfl
  | (excl v, unb) :: _ => rfl
  | (unb, incl v) :: t => simpa [complement] using hn (excl v) t
  | (unb, excl v) :: t => simpa [complement] using hn (incl v) t
  | (incl a, incl b) :: t => simpa [complement] using hn unb ((incl a, incl b) :: t)
  | (incl a, excl b) :: t => simpa [complement] using hn unb ((incl a, excl b) :: t)
  | (excl a, incl b) :: t => simpa [complement] using hn unb ((excl a, incl b) :: t)
  | (excl a, excl b) :: t => simpa [complement] using hn unb ((excl a, excl b) :: t)

theorem contains_map (r : Range V) (v : V) : contains (mapR ι r) (ι v) = contains r v := by
  induction r with
  | nil => rfl
  | cons s t ih =>
    obtain ⟨s, e⟩ := s
    simp only [contains, mapR_cons, List.any_cons, withinBounds_map hι] at ih ⊢
    rw [ih]

theorem unionEnd_map (a b : Bound V) :
    unionEnd (mapBound ι a) (mapBound ι b) = mapBound ι (unionEnd a b) := by
  cases a <;> cases b <;>
    simp only [unionEnd, mapBound_incl, mapBound_excl, mapBound_unb, hι.injective.eq_iff,
      gt_iff_lt, hι.lt_iff_lt] <;> split_ifs <;> rfl

theorem interStart_map (a b : Bound V) :
    interStart (mapBound ι a) (mapBound ι b) = mapBound ι (interStart a b) := by
  cases a <;> cases b <;>
    simp only [interStart, mapBound_incl, mapBound_excl, mapBound_unb, hι.le_iff_le] <;>
    split_ifs <;> rfl


theorem unionAccum_map (acc : Option (Seg V)) (s : Seg V) :
    unionAccum (acc.map fun seg => (mapBound ι seg.1, mapBound ι seg.2))
        (mapBound ι s.1, mapBound ι s.2)
      = (mapR ι (unionAccum acc s).1,
          (mapBound ι (unionAccum acc s).2.1, mapBound ι (unionAccum acc s).2.2)) := by
  cases acc with
  | none => rfl
  | some a =>
    simp only [unionAccum, Option.map_some, endBeforeStartWithGap_map hι, unionEnd_map hι]
    split_ifs <;> rfl

theorem unionGo_map (acc : Option (Seg V)) (a b : Range V) :
    unionGo (acc.map fun seg => (mapBound ι seg.1, mapBound ι seg.2)) (mapR ι a) (mapR ι b)
      = mapR ι (unionGo acc a b) := by
  fun_induction unionGo acc a b with
  | case1 acc l ls r rs h ih =>
    rw [mapR_cons, mapR_cons, unionGo, if_pos (by simpa [leftStartIsSmaller_map hι] using h),
      unionAccum_map hι]
    simpa using ih
  | case2 acc l ls r rs h ih =>
    rw [mapR_cons, mapR_cons, unionGo, if_neg (by simpa [leftStartIsSmaller_map hι] using h),
      unionAccum_map hι]
    simpa using ih
  | case3 acc l ls ih =>
    rw [mapR_cons, mapR_nil, unionGo, unionAccum_map hι]
    simpa using ih
  | case4 acc r rs ih =>
    rw [mapR_cons, mapR_nil, unionGo, unionAccum_map hι]
    simpa using ih
  | case5 a => simp [unionGo]
  | case6 => simp [unionGo]

theorem union_map (a b : Range V) : union (mapR ι a) (mapR ι b) = mapR ι (union a b) :=
  unionGo_map hι none a b

theorem intersection_map (a b : Range V) :
    intersection (mapR ι a) (mapR ι b) = mapR ι (intersection a b) := by
  fun_induction intersection a b with
  | case1 ls le l rs re r h1 h2 ih =>
    simp only [mapR_cons] at ih ⊢
    rw [intersection, if_pos (by simpa [leftEndIsSmaller_map hι] using h1),
      if_pos (by simpa [validSegment_map hι] using h2), ih, interStart_map hι]
  | case2 ls le l rs re r h1 h2 ih =>
    simp only [mapR_cons] at ih ⊢
    rw [intersection, if_pos (by simpa [leftEndIsSmaller_map hι] using h1),
      if_neg (by simpa [validSegment_map hι] using h2), ih]
  | case3 ls le l rs re r h1 h2 ih =>
    simp only [mapR_cons] at ih ⊢
    rw [intersection, if_neg (by simpa [leftEndIsSmaller_map hι] using h1),
      if_pos (by simpa [validSegment_map hι] using h2), ih, interStart_map hι]
  | case4 ls le l rs re r h1 h2 ih =>
    simp only [mapR_cons] at ih ⊢
    rw [intersection, if_neg (by simpa [leftEndIsSmaller_map hι] using h1),
      if_neg (by simpa [validSegment_map hι] using h2), ih]
  | case5 b => simp [intersection]
  | case6 a => simp [intersection]


theorem isDisjoint_map (a b : Range V) :
    isDisjoint (mapR ι a) (mapR ι b) = isDisjoint a b := by
  fun_induction isDisjoint a b with
  | case1 ls le l rs re r h1 ih =>
    simp only [mapR_cons] at ih ⊢
    rw [isDisjoint, if_pos (by simpa [validSegment_map hι] using h1), ih]
  | case2 ls le l rs re r h1 h2 ih =>
    simp only [mapR_cons] at ih ⊢
    rw [isDisjoint, if_neg (by simpa [validSegment_map hι] using h1),
      if_pos (by simpa [validSegment_map hι] using h2), ih]
  | case3 ls le l rs re r h1 h2 =>
    simp only [mapR_cons]
    rw [isDisjoint, if_neg (by simpa [validSegment_map hι] using h1),
      if_neg (by simpa [validSegment_map hι] using h2)]
  | case4 b => simp [isDisjoint]
  | case5 a => simp [isDisjoint]

theorem subsetGo_map (ss : Range V) (c : Seg V) (cs : Range V) :
    subsetGo (mapR ι ss) (mapBound ι c.1, mapBound ι c.2) (mapR ι cs) = subsetGo ss c cs := by
  fun_induction subsetGo ss c cs with
  | case1 c cs => simp [subsetGo]
  | case2 s ss c h1 =>
    simp only [mapR_cons, mapR_nil]
    rw [subsetGo, if_pos (by simpa [validSegment_map hι] using h1)]
  | case3 s ss c h1 c' cs' ih =>
    simp only [mapR_cons] at ih ⊢
    rw [subsetGo, if_pos (by simpa [validSegment_map hι] using h1)]
    exact ih
  | case4 s ss c cs h1 h2 =>
    cases cs <;> simp only [mapR_cons, mapR_nil] <;>
    rw [subsetGo, if_neg (by simpa [validSegment_map hι] using h1),
      if_pos (by simpa [leftStartIsSmaller_map hι] using h2)]
  | case5 s ss c cs h1 h2 h3 =>
    cases cs <;> simp only [mapR_cons, mapR_nil] <;>
    rw [subsetGo, if_neg (by simpa [validSegment_map hι] using h1),
      if_neg (by simpa [leftStartIsSmaller_map hι] using h2),
      if_pos (by simpa [leftEndIsSmaller_map hι] using h3)]
  | case6 s ss c cs h1 h2 h3 ih =>
    cases cs <;> simp only [mapR_cons, mapR_nil] at ih ⊢ <;>
    rw [subsetGo, if_neg (by simpa [validSegment_map hι] using h1),
      if_neg (by simpa [leftStartIsSmaller_map hι] using h2),
      if_neg (by simpa [leftEndIsSmaller_map hι] using h3), ih]

theorem subsetOf_map (a b : Range V) : subsetOf (mapR ι a) (mapR ι b) = subsetOf a b := by
  cases b with
  | nil => cases a <;> rfl
  | cons c cs => exact subsetGo_map hι a c cs

theorem checkInvariants_map (r : Range V) :
    checkInvariants (mapR ι r) = checkInvariants r := by
  fun_induction checkInvariants r with
  | case1 => rfl
  | case2 s e => simp [checkInvariants, validSegment_map hι]
  | case3 s e s' e' t ih =>
    simp only [mapR_cons] at ih ⊢
    simp only [checkInvariants, validSegment_map hι, endBeforeStartWithGap_map hι, ih]

end Cmp

/-- the embedding is a homomorphism of version sets -/
def hom (ι : V → V') (hι : StrictMono ι) : VSetHom (Range V) V (Range V') V' where
  f := mapR ι
  ι := ι
  f_inj := mapR_inj hι
  ι_inj := fun _ _ h => hι.injective h
  map_empty := rfl
  map_full := rfl
  map_singleton := fun _ => rfl
  map_complement := fun a => (complement_map hι a).symm
  map_intersection := fun a b => (intersection_map hι a b).symm
  map_union := fun a b => (union_map hι a b).symm
  map_isDisjoint := isDisjoint_map hι
  map_subsetOf := subsetOf_map hι
  map_contains := contains_map hι

/-- canonical lists go to canonical lists, and back -/
theorem wf_mapR (ι : V → V') (hι : StrictMono ι) (r : Range V) : WF (mapR ι r) ↔ WF r := by
  simp only [WF, checkInvariants_map hι]

theorem mapR_eq_empty (ι : V → V') (r : Range V) : mapR ι r = Range.empty ↔ r = Range.empty := by
  cases r <;> simp [Range.empty]

end Range

/-- a dense linear order without end points containing `V` -/
def Dense (V : Type) : Type := V ×ₗ ℚ

namespace Dense
variable {V : Type} [LinearOrder V]

instance : LinearOrder (Dense V) := inferInstanceAs (LinearOrder (V ×ₗ ℚ))
instance : DenselyOrdered (Dense V) := inferInstanceAs (DenselyOrdered (V ×ₗ ℚ))
instance : NoMinOrder (Dense V) := inferInstanceAs (NoMinOrder (V ×ₗ ℚ))
instance : NoMaxOrder (Dense V) := inferInstanceAs (NoMaxOrder (V ×ₗ ℚ))
instance [Nonempty V] : Nonempty (Dense V) := ⟨toLex (Classical.arbitrary V, (0 : ℚ))⟩

def ι : V → Dense V := fun v => toLex (v, (0 : ℚ))
def back : Dense V → Option V := fun d =>
  if (ofLex (show V ×ₗ ℚ from d)).2 = 0 then some (ofLex (show V ×ₗ ℚ from d)).1 else none

theorem ι_strictMono : StrictMono (ι : V → Dense V) := by
  intro a b h
  exact (Prod.Lex.toLex_lt_toLex (α := V) (β := ℚ)).2 (Or.inl h)
theorem back_ι (v : V) : back (ι v) = some v := by
  simp [back, ι]
theorem ι_of_back (d : Dense V) (v : V) (h : back d = some v) : ι v = d := by
  unfold back at h
  split_ifs at h with h0
  cases h
  show toLex (_, (0 : ℚ)) = (show V ×ₗ ℚ from d)
  rw [← h0]
  rfl

end Dense

/-- the homomorphism `Range V → Range (Dense V)` -/
def Range.denseHom {V : Type} [LinearOrder V] : VSetHom (Range V) V (Range (Dense V)) (Dense V) :=
  Range.hom Dense.ι Dense.ι_strictMono

end Pubgrub

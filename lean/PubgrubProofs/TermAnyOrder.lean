/-
TARGET FILE: PubgrubProofs/TermAnyOrder.lean
Property C11 for `Range V` over ANY linear order.  The term laws (PubgrubProofs/TermLaws.lean, wrapped in
PubgrubProps/C11.lean) are proved for lawful version sets; `Range V` is lawful only over dense orders
without end points.  Over a discrete order "evaluating the terms on every concrete choice" has to range
over the points of the dense completion (as property C10 says for `==`): transport along
`Range.denseHom : VSetHom (Range V) V (Range (Dense V)) (Dense V)` (PubgrubProofs/RangeHom.lean).
Available: `Term.mapH` (HomDefs.lean), the commutation of every `Term` operation with `mapH`
(HomSolverAux1.lean: grep `Term.` there — `Term.negate_mapH`, `Term.intersection_mapH`, `Term.union_mapH`,
`Term.subsetOf_mapH`, `Term.isDisjoint_mapH`, `Term.relationWith_mapH` or similarly named; injectivity
`Term.mapH` …), `Range.wf_mapR`, `Range.lawful` / `Range.lawful_valid_iff` for `Dense V`
(VSetInstances.lean; `Nonempty (Dense V)` needs `[Nonempty V]`).
(All targets proved, by transport along `Range.denseHom`; helper `Term.valid_mapH_iff`.)
-/
import PubgrubProofs.RangeHom
import PubgrubProofs.HomSolver
import PubgrubProofs.TermLaws
import PubgrubProofs.VSetInstances

set_option linter.unusedSectionVars false

namespace Pubgrub
open VersionSet

variable {V : Type} [LinearOrder V] [Nonempty V]

/-- the meaning of a term over `Range V` on a choice of the dense completion -/
def Term.evalD (t : Term (Range V)) (c : Option (Dense V)) : Bool :=
  (Term.mapH Range.denseHom t).eval c

/-- canonical sets -/
def Term.WFR : Term (Range V) → Prop
  | .pos s => Range.WF s
  | .neg s => Range.WF s

/-- validity of the image of a term is canonicity of the term -/
theorem Term.valid_mapH_iff (t : Term (Range V)) :
    (Term.mapH Range.denseHom t).Valid ↔ t.WFR := by
  cases t with
  | pos s => exact Range.wf_mapR Dense.ι Dense.ι_strictMono s
  | neg s => exact Range.wf_mapR Dense.ι Dense.ι_strictMono s


/-- on the versions of `V` themselves `evalD` is the plain evaluation -/
theorem Term.evalD_some (t : Term (Range V)) (v : V) :
    t.evalD (some (Dense.ι v)) = t.eval (some v) ∧ t.evalD none = t.eval none := by
  cases t with
  | pos s => exact ⟨Range.denseHom.map_contains s v, rfl⟩
  | neg s =>
    refine ⟨?_, rfl⟩
    show (!VersionSet.contains (Range.denseHom.f s) (Range.denseHom.ι v)) = !VersionSet.contains s v
    rw [Range.denseHom.map_contains]

theorem term_operations_any_order (t1 t2 : Term (Range V)) (h1 : t1.WFR) (h2 : t2.WFR)
    (c : Option (Dense V)) :
    (Term.negate t1).evalD c = !t1.evalD c ∧
    (Term.intersection t1 t2).evalD c = (t1.evalD c && t2.evalD c) ∧
    (Term.union t1 t2).evalD c = (t1.evalD c || t2.evalD c) := by
  have v1 := (Term.valid_mapH_iff t1).2 h1
  have v2 := (Term.valid_mapH_iff t2).2 h2
  refine ⟨?_, ?_, ?_⟩
  · unfold Term.evalD
    rw [← Term.negate_mapH]
    exact Term.eval_negate _ c
  · unfold Term.evalD
    rw [← Term.intersection_mapH]
    exact Term.eval_intersection _ _ v1 v2 c
  · unfold Term.evalD
    rw [← Term.union_mapH]
    exact Term.eval_union _ _ v1 v2 c

theorem term_closed_any_order (t1 t2 : Term (Range V)) (h1 : t1.WFR) (h2 : t2.WFR) :
    (Term.negate t1).WFR ∧ (Term.intersection t1 t2).WFR ∧ (Term.union t1 t2).WFR := by
  have v1 := (Term.valid_mapH_iff t1).2 h1
  have v2 := (Term.valid_mapH_iff t2).2 h2
  refine ⟨?_, ?_, ?_⟩
  · rw [← Term.valid_mapH_iff, ← Term.negate_mapH]
    exact Term.valid_negate _ v1
  · rw [← Term.valid_mapH_iff, ← Term.intersection_mapH]
    exact Term.valid_intersection _ _ v1 v2
  · rw [← Term.valid_mapH_iff, ← Term.union_mapH]
    exact Term.valid_union _ _ v1 v2

theorem term_tests_any_order (t1 t2 : Term (Range V)) (h1 : t1.WFR) (h2 : t2.WFR) :
    (Term.subsetOf t1 t2 = true ↔ ∀ c : Option (Dense V), t1.evalD c = true → t2.evalD c = true) ∧
    (Term.isDisjoint t1 t2 = true ↔ ∀ c : Option (Dense V), ¬ (t1.evalD c = true ∧ t2.evalD c = true)) := by
  have v1 := (Term.valid_mapH_iff t1).2 h1
  have v2 := (Term.valid_mapH_iff t2).2 h2
  refine ⟨?_, ?_⟩
  · rw [← Term.subsetOf_mapH Range.denseHom]
    exact Term.subsetOf_iff _ _ v1 v2
  · rw [← Term.isDisjoint_mapH Range.denseHom]
    exact Term.isDisjoint_iff _ _ v1 v2

theorem term_relation_any_order (t o : Term (Range V)) (h1 : t.WFR) (h2 : o.WFR) :
    (Term.relationWith t o = .satisfied ↔ ∀ c : Option (Dense V), o.evalD c = true → t.evalD c = true) ∧
    (Term.relationWith t o = .contradicted ↔
      (¬ ∀ c : Option (Dense V), o.evalD c = true → t.evalD c = true) ∧
      ∀ c : Option (Dense V), ¬ (t.evalD c = true ∧ o.evalD c = true)) ∧
    (Term.relationWith t o = .inconclusive ↔
      (¬ ∀ c : Option (Dense V), o.evalD c = true → t.evalD c = true) ∧
      ¬ ∀ c : Option (Dense V), ¬ (t.evalD c = true ∧ o.evalD c = true)) := by
  have v1 := (Term.valid_mapH_iff t).2 h1
  have v2 := (Term.valid_mapH_iff o).2 h2
  rw [← Term.relationWith_mapH Range.denseHom]
  exact ⟨Term.relationWith_satisfied_iff _ _ v1 v2, Term.relationWith_contradicted_iff _ _ v1 v2,
    Term.relationWith_inconclusive_iff _ _ v1 v2⟩

end Pubgrub

//! The unit of work of the harness: one request line for the model, the implementation's answer
//! line, what the direct oracle on the implementation said, and bookkeeping for the evidence.
use std::collections::{BTreeMap, BTreeSet};
use std::io::Write;

pub struct Case {
    /// request line (also the replay artefact)
    pub req: String,
    /// canonical answer of the real implementation
    pub imp: String,
    /// non-trivial by the property's rule
    pub nontrivial: bool,
    /// Some(description) if the direct oracle found the property violated by the implementation
    pub oracle_fail: Option<String>,
    /// distribution tags
    pub tags: Vec<&'static str>,
}

#[derive(Default)]
pub struct Sink {
    pub reqs: Vec<String>,
    pub imps: Vec<String>,
    pub evaluations: u64,
    pub oracle_evaluations: u64,
    pub nontrivial: BTreeSet<u64>,
    pub distinct: BTreeSet<u64>,
    pub tags: BTreeMap<String, u64>,
    pub oracle_failures: Vec<(usize, String)>,
    pub samples: Vec<String>,
    pub notes: Vec<String>,
}

fn fnv(s: &str) -> u64 {
    let mut h: u64 = 0xcbf29ce484222325;
    for b in s.bytes() {
        h ^= b as u64;
        h = h.wrapping_mul(0x100000001b3);
    }
    h
}

impl Sink {
    pub fn push(&mut self, c: Case) {
        let idx = self.reqs.len();
        let h = fnv(&c.req);
        self.distinct.insert(h);
        if c.nontrivial {
            self.nontrivial.insert(h);
        }
        for t in c.tags {
            *self.tags.entry(t.to_string()).or_insert(0) += 1;
        }
        if let Some(f) = c.oracle_fail {
            self.oracle_failures.push((idx, f));
        }
        self.evaluations += 1;
        self.oracle_evaluations += 1;
        if self.samples.len() < 3 && c.nontrivial && (idx % 97 == 0 || self.samples.is_empty()) {
            self.samples.push(format!("{}  =>  {}", c.req, c.imp));
        }
        self.reqs.push(c.req);
        self.imps.push(c.imp);
    }
    pub fn tag(&mut self, t: &str, n: u64) {
        *self.tags.entry(t.to_string()).or_insert(0) += n;
    }

    pub fn write(&self, dir: &str, name: &str) -> std::io::Result<()> {
        let mut f = std::io::BufWriter::new(std::fs::File::create(format!("{}/{}.req", dir, name))?);
        for r in &self.reqs {
            writeln!(f, "{}", r)?;
        }
        f.flush()?;
        let mut f = std::io::BufWriter::new(std::fs::File::create(format!("{}/{}.impl", dir, name))?);
        for r in &self.imps {
            writeln!(f, "{}", r)?;
        }
        f.flush()?;
        let mut st = serde_json::Map::new();
        st.insert("evaluations".into(), self.evaluations.into());
        st.insert("oracle_evaluations".into(), self.oracle_evaluations.into());
        st.insert("distinct".into(), (self.distinct.len() as u64).into());
        st.insert("distinct_nontrivial".into(), (self.nontrivial.len() as u64).into());
        let tags: serde_json::Map<String, serde_json::Value> =
            self.tags.iter().map(|(k, v)| (k.clone(), (*v).into())).collect();
        st.insert("distribution".into(), tags.into());
        st.insert(
            "samples".into(),
            self.samples.iter().map(|s| serde_json::Value::from(s.clone())).collect::<Vec<_>>().into(),
        );
        st.insert(
            "notes".into(),
            self.notes.iter().map(|s| serde_json::Value::from(s.clone())).collect::<Vec<_>>().into(),
        );
        let fails: Vec<serde_json::Value> = self
            .oracle_failures
            .iter()
            .take(50)
            .map(|(i, d)| {
                let mut m = serde_json::Map::new();
                m.insert("line".into(), (*i as u64).into());
                m.insert("req".into(), self.reqs[*i].clone().into());
                m.insert("imp".into(), self.imps[*i].clone().into());
                m.insert("what".into(), d.clone().into());
                m.into()
            })
            .collect();
        st.insert("oracle_failure_count".into(), (self.oracle_failures.len() as u64).into());
        st.insert("oracle_failures".into(), fails.into());
        std::fs::write(
            format!("{}/{}.stats.json", dir, name),
            serde_json::to_string_pretty(&serde_json::Value::Object(st)).unwrap(),
        )
    }
}

#!/bin/bash
# tools/coverage.sh [quick|thorough]  — which lines of /repo/src do the correspondence inputs execute?
# Builds the harness with -C instrument-coverage (nightly toolchain, offline) in a scratch target dir
# under /tmp (removed at the end), runs every generator of the given tier, and writes
#   /verif/notes/coverage_<tier>.txt   (llvm-cov report per file + every line of /repo/src never executed)
# Auxiliary measurement: not a check, registered nowhere in MANIFEST.json.
set -e
TIER=${1:-quick}
V=$(cd "$(dirname "$0")/.." && pwd)
T=/tmp/pgcov_$$
B=$(dirname "$(rustup +nightly which rustc)")/../lib/rustlib/x86_64-unknown-linux-gnu/bin
mkdir -p $T/raw
cd $V/harness
LLVM_PROFILE_FILE=$T/raw/build_%p.profraw CARGO_NET_OFFLINE=true CARGO_TARGET_DIR=$T/target RUSTFLAGS="-C instrument-coverage --cfg pubgrub_verif" \
  cargo +nightly build --release --offline >/dev/null 2>&1
for p in C01 C02 C03 C04 C05 C06 C07 C08 C09 C10 C11 C12 C13 C14 C15 C16 C17 C18 C19 C20; do
  mkdir -p $T/out_$p
  LLVM_PROFILE_FILE=$T/raw/$p.profraw $T/target/release/pgharness gen $p $TIER 1 $T/out_$p >/dev/null 2>&1 &
done
wait
rm -f $T/raw/build_*.profraw; $B/llvm-profdata merge -sparse $T/raw/*.profraw -o $T/all.profdata
OUT=$V/notes/coverage_$TIER.txt
{
  echo "# coverage of /repo/src by the correspondence inputs, tier=$TIER, seed=1, release build, repo $(git -C /repo rev-parse --short HEAD)"
  $B/llvm-cov report $T/target/release/pgharness -instr-profile=$T/all.profdata --sources /repo/src 2>/dev/null
  echo
  echo "# lines never executed"
  $B/llvm-cov show $T/target/release/pgharness -instr-profile=$T/all.profdata --sources /repo/src 2>/dev/null \
    | awk '/^\/repo/{f=$0} /^ +[0-9]+\| +0\|/{print f" "$0}' | cut -c1-160
} > $OUT
rm -rf $T
echo "wrote $OUT"

/-
Property C07 — resolve is deterministic: same answers in, same result and call trace out.

What a theorem can say: the model of `resolve` is a function of (root, version, answers), and it is
*causal*: the first k+1 requests depend only on the first k answers (`C07_causal`); hence two providers
— arbitrary functions of the history of requests they have seen — that answer alike on the histories
that actually occur see the identical call sequence and get the identical result
(`C07_same_answers_same_run`).  That the REAL `resolve` is this function is exactly the exact-mirror correspondence:
on every recorded run the model, given only the provider's answers (and which maximal package the
queue popped), predicts every request, every snapshot and the result.

What a theorem cannot say (runtime facts, covered by the correspondence only): `FxHashMap` iteration
order (the text of a clause with two same-sign terms or ≥ 3 terms in the default report follows it:
seedless, hence reproducible, but not modelled), the randomly seeded `std::HashSet` inside
`build_derivation_tree` (sorted by id before use: the model's `sortIds`).  The check runs every case
twice in-process (String and u32 package names) and the whole request file in two fresh processes,
and compares results, derivation trees, report texts and full callback traces byte for byte.
-/
import PubgrubProofs.Protocol

namespace Pubgrub.C07
open Pubgrub Pubgrub.Solver

variable {P S V M Pr E : Type} [DecidableEq P] [VersionSet S V] [DecidableEq S] [DecidableEq V]
  [LE Pr] [DecidableLE Pr]

/-- the answers a provider gives in the first `n` rounds: the provider may depend on the whole history
of requests it has seen (stateful, random with a seed, …) -/
def answersOf (prov : List (Request P S V M Pr E) → Answer P S V M Pr E)
    (debug : Bool) (fuel : Nat) (root : P) (rv : V) : Nat → List (Answer P S V M Pr E)
  | 0 => []
  | n + 1 =>
    answersOf prov debug fuel root rv n ++
      [prov (trace debug fuel root rv (answersOf prov debug fuel root rv n))]

/-- determinism: two providers that answer alike on the request histories that actually occur see the
same calls and get the same result — the run is a function of the provider's answers to the requests it
is sent, nothing else (no clock, no address, no global state) -/
theorem C07_same_answers_same_run (prov1 prov2 : List (Request P S V M Pr E) → Answer P S V M Pr E)
    (debug : Bool) (fuel : Nat) (root : P) (rv : V) (n : Nat)
    (h : ∀ k, k < n →
      prov1 (trace debug fuel root rv (answersOf prov1 debug fuel root rv k)) =
      prov2 (trace debug fuel root rv (answersOf prov1 debug fuel root rv k))) :
    answersOf prov1 debug fuel root rv n = answersOf prov2 debug fuel root rv n ∧
    trace debug fuel root rv (answersOf prov1 debug fuel root rv n) =
      trace debug fuel root rv (answersOf prov2 debug fuel root rv n) ∧
    (after (start debug fuel root rv) (answersOf prov1 debug fuel root rv n)).2 =
      (after (start debug fuel root rv) (answersOf prov2 debug fuel root rv n)).2 := by
  have key : ∀ m, m ≤ n → answersOf prov1 debug fuel root rv m = answersOf prov2 debug fuel root rv m := by
    intro m
    induction m with
    | zero => intro _; rfl
    | succ m ih =>
      intro hm
      have ihm := ih (Nat.le_of_succ_le hm)
      simp only [answersOf]
      rw [← ihm, h m hm]
  have e := key n (Nat.le_refl n)
  rw [e]
  exact ⟨rfl, rfl, rfl⟩

/-- causality: two answer sequences that agree on their first k answers produce the same first k+1
requests -/
theorem C07_causal (debug : Bool) (fuel : Nat) (root : P) (rv : V)
    (common as bs : List (Answer P S V M Pr E)) :
    (trace debug fuel root rv (common ++ as)).take (common.length + 1) =
    (trace debug fuel root rv (common ++ bs)).take (common.length + 1) := by
  rw [trace_prefix, trace_prefix]

end Pubgrub.C07

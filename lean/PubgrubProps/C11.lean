/-
Property C11 — Term reasoning matches the meaning of positive and negative terms.

"A positive term 'p in S' is true when a version in S is selected; a negative term 'not p in S' is
true when no version is selected or the selected one is outside S.  For all pairs of terms, the
library's negation, intersection, union, subset test, disjointness test and satisfied / contradicted
/ inconclusive relation coincide with evaluating the terms on every concrete choice."

Theorems are about the model `PubgrubModel/Term.lean` over *any* lawful version set (`Range` over a
dense linear order without end points and the bit set are such, see `C10`/`C17`; over a discrete order
"every concrete choice" has to range over the points of the dense completion, as in C10: the harness
evaluates on the doubled grid), for all terms whose sets are valid (canonical), for every
choice `c : Option V` (`none` = not selected).  `Term.eval` (in `PubgrubProofs/Defs.lean`) is the
meaning quoted above.
-/
import PubgrubProofs.TermLaws
import PubgrubProofs.TermAnyOrder

set_option linter.unusedSectionVars false
namespace Pubgrub.C11
open Pubgrub

variable {S V : Type} [VersionSet S V] [DecidableEq S] [LawfulVersionSet S V]

/-- the meaning of terms, as stated by the property -/
theorem C11_meaning (s : S) (v : V) :
    (Term.pos s).eval (some v) = VersionSet.contains s v ∧ (Term.pos s).eval (none : Option V) = false ∧
    (Term.neg s).eval (some v) = !VersionSet.contains s v ∧ (Term.neg s).eval (none : Option V) = true :=
  ⟨rfl, rfl, rfl, rfl⟩

/-- negation, intersection, union and `contains` coincide with evaluation on every choice -/
theorem C11_operations (t1 t2 : Term S) (h1 : t1.Valid) (h2 : t2.Valid) (c : Option V) (v : V) :
    (Term.negate t1).eval c = !t1.eval c ∧
    (Term.intersection t1 t2).eval c = (t1.eval c && t2.eval c) ∧
    (Term.union t1 t2).eval c = (t1.eval c || t2.eval c) ∧
    t1.contains v = t1.eval (some v) :=
  ⟨Term.eval_negate t1 c, Term.eval_intersection t1 t2 h1 h2 c, Term.eval_union t1 t2 h1 h2 c,
   Term.contains_eq_eval t1 v⟩

/-- the operations stay inside the valid (canonical) sets -/
theorem C11_closed (t1 t2 : Term S) (h1 : t1.Valid) (h2 : t2.Valid) :
    (Term.negate t1).Valid ∧ (Term.intersection t1 t2).Valid ∧ (Term.union t1 t2).Valid :=
  ⟨Term.valid_negate t1 h1, Term.valid_intersection t1 t2 h1 h2, Term.valid_union t1 t2 h1 h2⟩

/-- the subset and disjointness tests coincide with evaluation on every choice -/
theorem C11_tests (t1 t2 : Term S) (h1 : t1.Valid) (h2 : t2.Valid) :
    (Term.subsetOf t1 t2 = true ↔ ∀ c : Option V, t1.eval c = true → t2.eval c = true) ∧
    (Term.isDisjoint t1 t2 = true ↔ ∀ c : Option V, ¬ (t1.eval c = true ∧ t2.eval c = true)) :=
  ⟨Term.subsetOf_iff t1 t2 h1 h2, Term.isDisjoint_iff t1 t2 h1 h2⟩

/-- the relation is `Satisfied` iff the other term implies this one, else `Contradicted` iff they
exclude each other, else `Inconclusive` -/
theorem C11_relation (t o : Term S) (h1 : t.Valid) (h2 : o.Valid) :
    (Term.relationWith t o = .satisfied ↔ ∀ c : Option V, o.eval c = true → t.eval c = true) ∧
    (Term.relationWith t o = .contradicted ↔
      (¬ ∀ c : Option V, o.eval c = true → t.eval c = true) ∧
      ∀ c : Option V, ¬ (t.eval c = true ∧ o.eval c = true)) ∧
    (Term.relationWith t o = .inconclusive ↔
      (¬ ∀ c : Option V, o.eval c = true → t.eval c = true) ∧
      ¬ ∀ c : Option V, ¬ (t.eval c = true ∧ o.eval c = true)) :=
  ⟨Term.relationWith_satisfied_iff t o h1 h2, Term.relationWith_contradicted_iff t o h1 h2,
   Term.relationWith_inconclusive_iff t o h1 h2⟩

/-- Finding F2 (fixed by a `fix:` commit in /repo): with the `Negative/Negative` row of the pinned
tree the two always-true terms were reported disjoint.  The model of the old row is kept as
`Term.Legacy.isDisjoint`; the statement `C11_tests` is false for it. -/
theorem C11_F2_witness :
    Term.Legacy.isDisjoint (Term.any : Term S) (Term.any : Term S) = true ∧
      (Term.any : Term S).eval (none : Option V) = true :=
  Term.legacy_isDisjoint_any_any_wrong

/-! Non-vacuity: the extremes are valid terms. -/
example : (Term.any : Term S).Valid ∧ (Term.empty : Term S).Valid := ⟨Term.valid_any, Term.valid_empty⟩

/-! ### `Range V` over ANY linear order: evaluation over the points of the dense completion

`Term.evalD t c` evaluates a term over `Range V` on a choice `c : Option (Dense V)` (`Dense V = V ×ₗ ℚ`; on
the versions of `V` themselves it is the plain evaluation, `C11_range_evalD_some`).  Over a discrete order
this is the right notion of "every concrete choice" — `1 < v < 2` has no member in `ℕ` but is not the
empty set for `subset_of` / `is_disjoint`. -/
section AnyOrder
variable {V : Type} [LinearOrder V] [Nonempty V]

theorem C11_range_evalD_some (t : Term (Range V)) (v : V) :
    t.evalD (some (Dense.ι v)) = t.eval (some v) ∧ t.evalD none = t.eval none :=
  Term.evalD_some t v

theorem C11_range_operations (t1 t2 : Term (Range V)) (h1 : t1.WFR) (h2 : t2.WFR)
    (c : Option (Dense V)) :
    (Term.negate t1).evalD c = !t1.evalD c ∧
    (Term.intersection t1 t2).evalD c = (t1.evalD c && t2.evalD c) ∧
    (Term.union t1 t2).evalD c = (t1.evalD c || t2.evalD c) :=
  term_operations_any_order t1 t2 h1 h2 c

theorem C11_range_closed (t1 t2 : Term (Range V)) (h1 : t1.WFR) (h2 : t2.WFR) :
    (Term.negate t1).WFR ∧ (Term.intersection t1 t2).WFR ∧ (Term.union t1 t2).WFR :=
  term_closed_any_order t1 t2 h1 h2

theorem C11_range_tests (t1 t2 : Term (Range V)) (h1 : t1.WFR) (h2 : t2.WFR) :
    (Term.subsetOf t1 t2 = true ↔ ∀ c : Option (Dense V), t1.evalD c = true → t2.evalD c = true) ∧
    (Term.isDisjoint t1 t2 = true ↔ ∀ c : Option (Dense V), ¬ (t1.evalD c = true ∧ t2.evalD c = true)) :=
  term_tests_any_order t1 t2 h1 h2

theorem C11_range_relation (t o : Term (Range V)) (h1 : t.WFR) (h2 : o.WFR) :
    (Term.relationWith t o = .satisfied ↔ ∀ c : Option (Dense V), o.evalD c = true → t.evalD c = true) ∧
    (Term.relationWith t o = .contradicted ↔
      (¬ ∀ c : Option (Dense V), o.evalD c = true → t.evalD c = true) ∧
      ∀ c : Option (Dense V), ¬ (t.evalD c = true ∧ o.evalD c = true)) ∧
    (Term.relationWith t o = .inconclusive ↔
      (¬ ∀ c : Option (Dense V), o.evalD c = true → t.evalD c = true) ∧
      ¬ ∀ c : Option (Dense V), ¬ (t.evalD c = true ∧ o.evalD c = true)) :=
  term_relation_any_order t o h1 h2

end AnyOrder

end Pubgrub.C11

/-
Helpers for `CollapseNoPanic.lean`, part 4: the run-level invariant (`StoreCK` of the store, `RW` of
the partial solution) is kept by every step of the coroutine; a tree built from a store with `StoreCK`
has no `NoVersions` leaf beside a `NotRoot` leaf.
-/
import PubgrubProofs.CollapseNoPanicAux3

set_option linter.unusedSectionVars false
set_option linter.unusedVariables false

namespace Pubgrub
open VersionSet

section
variable {P S V M : Type} [DecidableEq P] [VersionSet S V] [DecidableEq S] [LawfulVersionSet S V]

/-! ### from the store to the tree -/

theorem IsTreeOf.kind_noVersions {store : List (Incompat P S V M)} {sh : Nat → Bool} {id : Nat}
    {t : DerivationTree P S V M} (h : IsTreeOf store sh id t) {inc : Incompat P S V M}
    (hs : store[id]? = some inc) (hn : t.isNoVersions = true) : inc.kind.isNoVersionsK = true := by
  cases h with
  | external _ inc' e hs' hke =>
    rw [hs] at hs'; injection hs' with hs'; subst hs'
    cases hk : inc.kind with
    | noVersions p s => rfl
    | notRoot p v =>
      rw [hk] at hke; simp only [Kind.toExternal, Option.some.injEq] at hke
      subst hke; simp [DerivationTree.isNoVersions] at hn
    | fromDependencyOf p s q t' =>
      rw [hk] at hke; simp only [Kind.toExternal, Option.some.injEq] at hke
      subst hke; simp [DerivationTree.isNoVersions] at hn
    | custom p s m =>
      rw [hk] at hke; simp only [Kind.toExternal, Option.some.injEq] at hke
      subst hke; simp [DerivationTree.isNoVersions] at hn
    | derivedFrom a b => rw [hk] at hke; simp [Kind.toExternal] at hke
  | derived _ inc' a b c1 c2 hs' hkd ha hb => simp [DerivationTree.isNoVersions] at hn

theorem IsTreeOf.kind_notRoot {store : List (Incompat P S V M)} {sh : Nat → Bool} {id : Nat}
    {t : DerivationTree P S V M} (h : IsTreeOf store sh id t) {inc : Incompat P S V M}
    (hs : store[id]? = some inc) {p : P} {v : V} (hn : t = .external (.notRoot p v)) :
    inc.kind.isNotRootK = true := by
  subst hn
  cases h with
  | external _ inc' e hs' hke =>
    rw [hs] at hs'; injection hs' with hs'; subst hs'
    cases hk : inc.kind with
    | notRoot p v => rfl
    | noVersions p s => rw [hk] at hke; simp [Kind.toExternal] at hke
    | fromDependencyOf p s q t' => rw [hk] at hke; simp [Kind.toExternal] at hke
    | custom p s m => rw [hk] at hke; simp [Kind.toExternal] at hke
    | derivedFrom a b => rw [hk] at hke; simp [Kind.toExternal] at hke

/-- the tree of an entry of a store with (D) has no `NoVersions` leaf beside a `NotRoot` leaf -/
theorem IsTreeOf.no_noVersionsBesideNotRoot {root : P} {rv : V} {store : List (Incompat P S V M)}
    (hck : StoreCK root rv store) {sh : Nat → Bool} {id : Nat} {t : DerivationTree P S V M}
    (h : IsTreeOf store sh id t) : ¬ t.NoVersionsBesideNotRoot := by
  induction h with
  | external id inc e hs hke => simp [DerivationTree.NoVersionsBesideNotRoot]
  | derived id inc a b c1 c2 hs hkd ha hb ih1 ih2 =>
    have hj := hck id inc hs
    unfold Incompat.CK at hj
    rw [hkd] at hj
    simp only at hj
    obtain ⟨ia, ib, hia, hib, hn⟩ := hj
    simp only [DerivationTree.NoVersionsBesideNotRoot, not_or]
    refine ⟨?_, ?_, ih1, ih2⟩
    · rintro ⟨h1, p, v, h2⟩
      exact hn (Or.inl ⟨ha.kind_noVersions hia h1, hb.kind_notRoot hib h2⟩)
    · rintro ⟨h1, p, v, h2⟩
      exact hn (Or.inr ⟨ha.kind_notRoot hia h2, hb.kind_noVersions hib h1⟩)

end

/-! ### the run-level invariant -/

variable {P S V M Pr E : Type} [DecidableEq P] [VersionSet S V] [DecidableEq S] [DecidableEq V]
  [LE Pr] [DecidableLE Pr] [LawfulVersionSet S V]

/-- (J)/(D) of the store and `RW` of the partial solution in every unfinished state; (J)/(D) of the
store a `noSolution` tree was built from -/
structure RInvK (root : P) (rv : V) (x : SolverState P S V M Pr × Request P S V M Pr E) : Prop where
  live : x.1.phase ≠ .finished → StoreCK root rv x.1.st.store ∧ x.1.st.ps.RW root rv
  noSol : ∀ tree, x.2 = .noSolution tree → StoreCK root rv x.1.st.store

theorem rinvK_finish (root : P) (rv : V) (s : SolverState P S V M Pr) (r : Request P S V M Pr E)
    (hr : ∀ tree, r ≠ .noSolution tree) : RInvK root rv (Solver.finish s r) :=
  ⟨fun h => absurd rfl h, fun tree h => absurd h (hr tree)⟩

theorem rinvK_loopAgain (root : P) (rv : V) (s : SolverState P S V M Pr) (st : State P S V M Pr)
    (h1 : StoreCK root rv st.store) (h2 : st.ps.RW root rv) :
    RInvK (E := E) root rv (Solver.loopAgain s st) :=
  ⟨fun _ => ⟨h1, h2⟩, fun tree h => by simp [Solver.loopAgain] at h⟩

theorem rinvK_start (debug : Bool) (fuel : Nat) (root : P) (rv : V) :
    RInvK root rv (Solver.start (Pr := Pr) (E := E) (M := M) (S := S) debug fuel root rv) :=
  ⟨fun _ => ⟨storeCK_init root rv, PartialSolution.rw_empty root rv⟩,
    fun tree h => by simp [Solver.start] at h⟩

theorem rinvK_step (ce : CanonEmpty S V) (W : World P S V M) (hW : W.SetsValid) (root : P) (rv : V)
    (s : SolverState P S V M Pr) (req : Request P S V M Pr E) (a : Answer P S V M Pr E)
    (h0 : RInv W root rv (s, req)) (h1 : RInv' (s, req)) (hT : RInvT root rv (s, req))
    (hN : RInvN (s, req)) (h : RInvK root rv (s, req)) (ha : AnswerOK W req a) :
    RInvK root rv (Solver.step s a) := by
  have hs : SInv W root rv s.st := h0.sinv
  unfold Solver.step
  split
  · -- finished
    rename_i hph
    exact ⟨fun hn => absurd hph hn, fun tree h' => by simp at h'⟩
  · exact rinvK_finish root rv _ _ (by intro tree h'; cases h')
  · -- cancel, ok
    rename_i hph
    have hlive : s.phase ≠ .finished := by rw [hph]; intro e; cases e
    obtain ⟨hp, _⟩ := h1.live hlive
    have ht := hT.live hlive
    have hne : s.st.ps.NE := hN hlive
    obtain ⟨hck, hrw⟩ := h.live hlive
    have hup := State.unitPropagation_ck ce W root rv s.fuel s.st s.next hs hp ht hne hrw hck
    split
    · exact rinvK_finish root rv _ _ (by intro tree h'; cases h')
    · rename_i st terminal hu
      have hck1 := (hup.of_ok hu).1
      split
      · exact rinvK_finish root rv _ _ (by intro tree h'; cases h')
      · exact ⟨fun hn => absurd rfl hn, fun tree' h' => hck1⟩
    · rename_i st hu
      obtain ⟨hck1, hrw1⟩ := hup.of_ok hu
      have hrw1 := hrw1 rfl
      split
      · exact rinvK_finish root rv _ _ (by intro tree h'; cases h')
      · exact ⟨fun _ => ⟨hck1, hrw1⟩, fun tree h' => by simp at h'⟩
      · exact ⟨fun _ => ⟨hck1, hrw1⟩, fun tree h' => by simp at h'⟩
  · -- prioritizing
    rename_i cur rest acc pr hph
    have hlive : s.phase ≠ .finished := by rw [hph]; intro e; cases e
    have hk := h.live hlive
    simp only
    split
    · exact ⟨fun _ => hk, fun tree h' => by simp at h'⟩
    · exact ⟨fun _ => hk, fun tree h' => by simp at h'⟩
  · -- picking
    rename_i acc o hph
    have hlive : s.phase ≠ .finished := by rw [hph]; intro e; cases e
    obtain ⟨hck, hrw⟩ := h.live hlive
    simp only
    split
    · split
      · exact rinvK_finish root rv _ _ (by intro tree h'; cases h')
      · split <;> exact rinvK_finish root rv _ _ (by intro tree h'; cases h')
    · split
      · exact rinvK_finish root rv _ _ (by intro tree h'; cases h')
      · split
        · exact rinvK_finish root rv _ _ (by intro tree h'; cases h')
        · split
          · exact rinvK_finish root rv _ _ (by intro tree h'; cases h')
          · exact ⟨fun _ => ⟨hck, hrw.congr rfl⟩, fun tree h' => by simp at h'⟩
  · -- choosing, error
    exact rinvK_finish root rv _ _ (by intro tree h'; cases h')
  · -- choosing, none
    rename_i p t hph
    have hlive : s.phase ≠ .finished := by rw [hph]; intro e; cases e
    obtain ⟨hp, _⟩ := h1.live hlive
    have ht := hT.live hlive
    have hne : s.st.ps.NE := hN hlive
    obtain ⟨hck, hrw⟩ := h.live hlive
    obtain ⟨_, hterm, _⟩ := h1.choosing p t hph
    split
    · exact rinvK_finish root rv _ _ (by intro tree h'; cases h')
    · rename_i inc hinc
      have hick : inc.CK root rv s.st.store := by
        unfold Incompat.noVersions at hinc
        split at hinc
        · rename_i r
          injection hinc with hinc; subst hinc
          unfold Incompat.CK
          simp only
          intro hroot
          subst hroot
          simp only [PartialSolution.termIntersectionForPackage, Option.map_eq_some_iff] at hterm
          obtain ⟨pa, hpa, htm⟩ := hterm
          obtain ⟨s', hs', hc⟩ := root_term hp ht hne hrw hpa
          rw [htm] at hs'
          injection hs' with hs'; subst hs'; exact hc
        · cases hinc
      split
      · exact rinvK_finish root rv _ _ (by intro tree h'; cases h')
      · rename_i st hadd
        exact rinvK_loopAgain root rv s st (State.addIncompatibility_ck hadd hck hick)
          (hrw.congr (by rw [(State.addIncompatibility_pinv hadd hp).2]))
  · -- choosing, some v
    rename_i p t v hph
    have hlive : s.phase ≠ .finished := by rw [hph]; intro e; cases e
    obtain ⟨hck, hrw⟩ := h.live hlive
    split
    · exact rinvK_finish root rv _ _ (by intro tree h'; cases h')
    · simp only
      split
      · exact ⟨fun _ => ⟨hck, hrw⟩, fun tree h' => by simp at h'⟩
      · split
        · exact rinvK_finish root rv _ _ (by intro tree h'; cases h')
        · rename_i ps hps
          exact rinvK_loopAgain root rv _ _ hck (PartialSolution.addDecision_rw hrw hps)
  · -- fetching, error
    exact rinvK_finish root rv _ _ (by intro tree h'; cases h')
  · -- fetching, unavailable
    rename_i p v m hph
    have hlive : s.phase ≠ .finished := by rw [hph]; intro e; cases e
    obtain ⟨hp, _⟩ := h1.live hlive
    obtain ⟨hck, hrw⟩ := h.live hlive
    split
    · exact rinvK_finish root rv _ _ (by intro tree h'; cases h')
    · rename_i st hadd
      exact rinvK_loopAgain root rv s st
        (State.addIncompatibility_ck hadd hck (Incompat.ck_customVersion p v m))
        (hrw.congr (by rw [(State.addIncompatibility_pinv hadd hp).2]))
  · -- fetching, available
    rename_i p v deps hph
    have hlive : s.phase ≠ .finished := by rw [hph]; intro e; cases e
    obtain ⟨hp, _⟩ := h1.live hlive
    obtain ⟨hck, hrw⟩ := h.live hlive
    split
    · exact rinvK_finish root rv _ _ (by intro tree h'; cases h')
    · rename_i st start stop hadd
      obtain ⟨_, eps⟩ := State.addIncompatibilityFromDependencies_pinv hadd hp
      have hck1 := State.addIncompatibilityFromDependencies_ck hadd hck
      simp only
      split
      · exact rinvK_finish root rv _ _ (by intro tree h'; cases h')
      · rename_i ps hps
        exact rinvK_loopAgain root rv _ _ hck1
          (PartialSolution.addVersion_rw (hrw.congr (by rw [eps])) hps)
  · -- anything else
    exact rinvK_finish root rv _ _ (by intro tree h'; cases h')

end Pubgrub

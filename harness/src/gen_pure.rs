//! Request generators for the pure properties.
use crate::cases::Sink;
use crate::eval::eval_line;
use crate::util::*;

fn all_ranges(k: u32) -> Vec<String> {
    (0u64..(1u64 << (2 * k + 1))).map(|m| fmt_segs(&segs_of_mask(m, k))).collect()
}

fn random_range(rng: &mut Rng, k: u32) -> String {
    // random point set on the doubled grid, with runs so that several segments and touching
    // bounds appear
    let bits = 2 * k + 1;
    let mut mask = 0u64;
    let mut on = rng.chance(1, 2);
    for g in 0..bits {
        if rng.chance(1, 3) {
            on = !on;
        }
        if on {
            mask |= 1 << g;
        }
    }
    fmt_segs(&segs_of_mask(mask, k))
}

fn sorted_seqs(vals: &[u32], max_len: usize) -> Vec<Vec<u32>> {
    let mut out: Vec<Vec<u32>> = vec![vec![]];
    let mut frontier: Vec<Vec<u32>> = vec![vec![]];
    for _ in 0..max_len {
        let mut next = vec![];
        for s in &frontier {
            let lo = s.last().copied().unwrap_or(0);
            for &v in vals {
                if v >= lo {
                    let mut t = s.clone();
                    t.push(v);
                    next.push(t);
                }
            }
        }
        out.extend(next.iter().cloned());
        frontier = next;
    }
    out
}

pub fn gen_c10(sink: &mut Sink, thorough: bool, seed: u64) {
    let mut rng = Rng::new(seed);
    for (kind, v1, v2) in [
        ("empty", 0, 0), ("full", 0, 0), ("singleton", 3, 0), ("higher_than", 3, 0),
        ("strictly_higher_than", 3, 0), ("lower_than", 3, 0), ("strictly_lower_than", 3, 0),
        ("between", 1, 3), ("between", 1, 5), ("between", 3, 5), ("singleton", 1, 0), ("higher_than", 1, 0),
    ] {
        sink.push(eval_line(&format!("rcon|{}|{}|{}", kind, v1, v2)));
    }
    let r3 = all_ranges(3);
    for a in &r3 {
        sink.push(eval_line(&format!("run|{}", a)));
    }
    for a in &r3 {
        for b in &r3 {
            sink.push(eval_line(&format!("rbin|{}|{}", a, b)));
        }
    }
    sink.notes.push("exhaustive: all 128 canonical ranges over 3 bound values, all 16384 ordered pairs".into());
    // random larger ranges (seeded)
    let n_random = if thorough { 200_000 } else { 4_000 };
    for _ in 0..n_random {
        let k = 4 + rng.below(9) as u32;
        let a = random_range(&mut rng, k);
        let b = random_range(&mut rng, k);
        sink.push(eval_line(&format!("rbin|{}|{}", a, b)));
        if rng.chance(1, 4) {
            sink.push(eval_line(&format!("run|{}", a)));
        }
    }
    if thorough {
        let r4 = all_ranges(4);
        for a in &r4 {
            sink.push(eval_line(&format!("run|{}", a)));
            for b in &r4 {
                sink.push(eval_line(&format!("rbin|{}|{}", a, b)));
            }
        }
        sink.notes.push("exhaustive: all 512 canonical ranges over 4 bound values, all 262144 ordered pairs".into());
    }
}

pub fn gen_c15(sink: &mut Sink, thorough: bool, seed: u64) {
    let mut rng = Rng::new(seed);
    let r3 = all_ranges(3);
    let grid: Vec<u32> = (0..=6).collect();
    let seqs = sorted_seqs(&grid, if thorough { 5 } else { 3 });
    for a in &r3 {
        sink.push(eval_line(&format!("run|{}", a)));
        for s in &seqs {
            sink.push(eval_line(&format!("rvs|{}|{}", a, fmt_versions(s))));
        }
    }
    sink.notes.push(format!(
        "exhaustive: 128 canonical ranges over 3 bound values x all {} sorted version sequences (with repeats) over the doubled grid 0..=6",
        seqs.len()
    ));
    let bs = ["u", "i1", "e1", "i3", "e3", "i5", "e5"];
    for s in bs {
        for e in bs {
            sink.push(eval_line(&format!("rfrb|{}|{}", s, e)));
        }
    }
    let n_random = if thorough { 100_000 } else { 3_000 };
    for _ in 0..n_random {
        let k = 4 + rng.below(7) as u32;
        let a = random_range(&mut rng, k);
        let mut vs: Vec<u32> = (0..rng.below(9)).map(|_| rng.below(2 * k as u64 + 2) as u32).collect();
        vs.sort();
        sink.push(eval_line(&format!("rvs|{}|{}", a, fmt_versions(&vs))));
        if rng.chance(1, 3) {
            sink.push(eval_line(&format!("run|{}", a)));
        }
    }
}

pub fn gen_c16(sink: &mut Sink, thorough: bool, seed: u64) {
    let mut rng = Rng::new(seed);
    let r3 = all_ranges(3);
    for a in &r3 {
        for b in &r3 {
            sink.push(eval_line(&format!("rbin|{}|{}", a, b)));
        }
    }
    let r2 = all_ranges(2);
    for a in &r2 {
        for b in &r2 {
            for c in &r2 {
                sink.push(eval_line(&format!("rcmp3|{}|{}|{}", a, b, c)));
            }
        }
    }
    sink.notes.push("exhaustive: all pairs over 3 bound values (cmp, partial_cmp, ==, hash), all 32768 triples over 2 bound values (transitivity)".into());
    if thorough {
        for a in &r3 {
            for b in &r3 {
                for c in &r3 {
                    sink.push(eval_line(&format!("rcmp3|{}|{}|{}", a, b, c)));
                }
            }
        }
        sink.notes.push("exhaustive: all 2097152 triples over 3 bound values".into());
    } else {
        for _ in 0..20_000 {
            let a = &r3[rng.below(128) as usize];
            let b = &r3[rng.below(128) as usize];
            let c = &r3[rng.below(128) as usize];
            sink.push(eval_line(&format!("rcmp3|{}|{}|{}", a, b, c)));
        }
    }
    let n_random = if thorough { 100_000 } else { 3_000 };
    for _ in 0..n_random {
        let k = 4 + rng.below(7) as u32;
        let (a, b, c) = (random_range(&mut rng, k), random_range(&mut rng, k), random_range(&mut rng, k));
        sink.push(eval_line(&format!("rcmp3|{}|{}|{}", a, b, c)));
    }
}

pub fn gen_c11(sink: &mut Sink, thorough: bool, seed: u64) {
    let mut rng = Rng::new(seed);
    let k = 3;
    let rs = all_ranges(k);
    let mut terms = vec![];
    for r in &rs {
        terms.push(format!("+{}", r));
        terms.push(format!("~{}", r));
    }
    for a in &terms {
        for b in &terms {
            sink.push(eval_line(&format!("term2|{}|{}", a, b)));
        }
    }
    sink.notes.push("exhaustive: all 256 terms over the 128 canonical ranges with 3 bound values (incl. any = ~-, empty = +-, +u:u, ~u:u), all 65536 ordered pairs".into());
    let n_random = if thorough { 300_000 } else { 3_000 };
    for _ in 0..n_random {
        let k = 4 + rng.below(7) as u32;
        let a = random_range(&mut rng, k);
        let b = random_range(&mut rng, k);
        let sa = if rng.chance(1, 2) { '+' } else { '~' };
        let sb = if rng.chance(1, 2) { '+' } else { '~' };
        sink.push(eval_line(&format!("term2|{}{}|{}{}", sa, a, sb, b)));
    }
}

/-
Helpers for `ReachabilityC04.lean`, part 3: consequences of the chain invariant (positivity appears
at a derivation whose cause has a negative term and never disappears; accumulated terms shrink), and
the case analysis of `termBefore`.
-/
import PubgrubProofs.ReachabilityC04Aux2

set_option linter.unusedSectionVars false
set_option linter.unusedVariables false

namespace Pubgrub
open VersionSet

section
variable {P S V M Pr : Type} [DecidableEq P] [VersionSet S V] [DecidableEq S]
  [LawfulVersionSet S V]

theorem Term.c04_isPositive_intersection_left (a b : Term S) (ha : a.isPositive = true) :
    (a.intersection b).isPositive = true := by
  cases a <;> cases b <;> simp_all [Term.intersection, Term.isPositive]

theorem Term.c04_isPositive_intersection_neg (a b : Term S) (ha : a.isPositive = false)
    (hb : b.isPositive = false) : (a.intersection b).isPositive = false := by
  cases a <;> cases b <;> simp_all [Term.intersection, Term.isPositive]

theorem c04_exists_first {α : Type} (q : α → Bool) :
    ∀ (l : List α), (∃ x ∈ l, q x = true) →
      ∃ pre x suf, l = pre ++ x :: suf ∧ q x = true ∧ ∀ e ∈ pre, q e = false := by
  intro l
  induction l with
  | nil => intro ⟨x, hx, _⟩; simp at hx
  | cons a l ih =>
    intro ⟨x, hx, hq⟩
    cases ha : q a with
    | true => exact ⟨[], a, l, rfl, ha, by simp⟩
    | false =>
      rcases List.mem_cons.1 hx with rfl | hx
      · rw [ha] at hq; cases hq
      · obtain ⟨pre, y, suf, e, hy, hpre⟩ := ih ⟨x, hx, hq⟩
        refine ⟨a :: pre, y, suf, by rw [e]; rfl, hy, ?_⟩
        intro e' he'
        rcases List.mem_cons.1 he' with rfl | he'
        · exact ha
        · exact hpre e' he'

/-- the first derivation with a positive accumulated term has a cause whose term for the package is
negative -/
theorem ddchain_firstPos (store : List (Incompat P S V M)) (p : P) :
    ∀ (pre : List (DatedDerivation S)) (prev : Option (Term S)) (dd : DatedDerivation S)
      (suf : List (DatedDerivation S)),
    DDChainFrom store p prev (pre ++ dd :: suf) → (∀ a, prev = some a → a.isPositive = false) →
    (∀ e ∈ pre, e.accumulated.isPositive = false) → dd.accumulated.isPositive = true →
    ∃ inc u, store[dd.cause]? = some inc ∧ inc.get p = some (.neg u) := by
  intro pre
  induction pre with
  | nil =>
    intro prev dd suf h hprev _ hdd
    obtain ⟨⟨inc, t, h1, h2, h3⟩, _⟩ := h
    cases t with
    | neg u => exact ⟨inc, u, h1, h2⟩
    | pos s =>
      exfalso
      cases prev with
      | none => simp only at h3; rw [h3] at hdd; simp [Term.negate, Term.isPositive] at hdd
      | some a =>
        simp only at h3
        rw [h3, Term.c04_isPositive_intersection_neg a _ (hprev a rfl) (by simp [Term.negate, Term.isPositive])] at hdd
        cases hdd
  | cons e pre ih =>
    intro prev dd suf h hprev hpre hdd
    refine ih (some e.accumulated) dd suf h.2 ?_ (fun e' he' => hpre e' (List.mem_cons_of_mem _ he')) hdd
    intro a ha
    injection ha with ha; subst ha
    exact hpre e List.mem_cons_self

theorem ddchain_pos_all (store : List (Incompat P S V M)) (p : P) :
    ∀ (l : List (DatedDerivation S)) (a : Term S), DDChainFrom store p (some a) l →
      a.isPositive = true → ∀ e ∈ l, e.accumulated.isPositive = true := by
  intro l
  induction l with
  | nil => intro a _ _ e he; simp at he
  | cons dd l ih =>
    intro a h ha e he
    obtain ⟨⟨inc, t, h1, h2, h3⟩, hrest⟩ := h
    simp only at h3
    have hdd : dd.accumulated.isPositive = true := by
      rw [h3]; exact Term.c04_isPositive_intersection_left _ _ ha
    rcases List.mem_cons.1 he with rfl | he
    · exact hdd
    · exact ih _ hrest hdd e he

/-- once positive, always positive -/
theorem ddchain_pos_pairwise (store : List (Incompat P S V M)) (p : P) :
    ∀ (l : List (DatedDerivation S)) (prev : Option (Term S)), DDChainFrom store p prev l →
      l.Pairwise (fun a b => a.accumulated.isPositive = true → b.accumulated.isPositive = true) := by
  intro l
  induction l with
  | nil => intro _ _; exact List.Pairwise.nil
  | cons dd l ih =>
    intro prev h
    exact List.pairwise_cons.2 ⟨fun b hb ha => ddchain_pos_all store p l _ h.2 ha b hb, ih _ h.2⟩

theorem ddchain_shrink_all (store : List (Incompat P S V M)) (p : P)
    (hv : ∀ (id : Nat) inc t, store[id]? = some inc → inc.get p = some t → t.Valid) :
    ∀ (l : List (DatedDerivation S)) (a : Term S), DDChainFrom store p (some a) l → a.Valid →
      (∀ e ∈ l, e.accumulated.Valid) →
      ∀ e ∈ l, ∀ v : V, e.accumulated.contains v = true → a.contains v = true := by
  intro l
  induction l with
  | nil => intro a _ _ _ e he; simp at he
  | cons dd l ih =>
    intro a h ha hval e he v hev
    obtain ⟨⟨inc, t, h1, h2, h3⟩, hrest⟩ := h
    simp only at h3
    have hdd : dd.accumulated.contains v = true → a.contains v = true := by
      intro hc
      rw [h3, Term.contains_eq_eval, Term.eval_intersection _ _ ha (Term.valid_negate _ (hv _ _ _ h1 h2)),
        Bool.and_eq_true] at hc
      rw [Term.contains_eq_eval]; exact hc.1
    rcases List.mem_cons.1 he with rfl | he
    · exact hdd hev
    · exact hdd (ih _ hrest (hval dd List.mem_cons_self)
        (fun e' he' => hval e' (List.mem_cons_of_mem _ he')) e he v hev)

/-- accumulated terms shrink -/
theorem ddchain_shrink_pairwise (store : List (Incompat P S V M)) (p : P)
    (hv : ∀ (id : Nat) inc t, store[id]? = some inc → inc.get p = some t → t.Valid) :
    ∀ (l : List (DatedDerivation S)) (prev : Option (Term S)), DDChainFrom store p prev l →
      (∀ e ∈ l, e.accumulated.Valid) →
      l.Pairwise (fun a b => ∀ v : V, b.accumulated.contains v = true → a.accumulated.contains v = true) := by
  intro l
  induction l with
  | nil => intro _ _ _; exact List.Pairwise.nil
  | cons dd l ih =>
    intro prev h hval
    refine List.pairwise_cons.2 ⟨?_, ih _ h.2 (fun e' he' => hval e' (List.mem_cons_of_mem _ he'))⟩
    intro b hb v hbv
    exact ddchain_shrink_all store p hv l _ h.2 (hval dd List.mem_cons_self)
      (fun e' he' => hval e' (List.mem_cons_of_mem _ he')) b hb v hbv

/-- where `termBefore` takes its value from -/
theorem c04_termBefore_cases {pa : PackageAssignments S V} {g : Nat} {t : Term S}
    (h : pa.termBefore g = some t) :
    (∃ gd v, pa.inter = .decision gd v t ∧ gd < g) ∨
    (∃ dd ∈ pa.dated, dd.globalIndex < g ∧ dd.accumulated = t) := by
  have hd : ((pa.dated.filter fun dd => dd.globalIndex < g).getLast?).map (·.accumulated) = some t →
      ∃ dd ∈ pa.dated, dd.globalIndex < g ∧ dd.accumulated = t := by
    intro hm
    rw [Option.map_eq_some_iff] at hm
    obtain ⟨dd, hdd, hacc⟩ := hm
    have := List.mem_of_getLast? hdd
    rw [List.mem_filter] at this
    exact ⟨dd, this.1, by simpa using this.2, hacc⟩
  unfold PackageAssignments.termBefore at h
  simp only at h
  split at h
  · rename_i gd v t' hint
    split at h
    · rename_i hlt
      injection h with h; subst h
      exact Or.inl ⟨gd, v, hint, hlt⟩
    · exact Or.inr (hd h)
  · exact Or.inr (hd h)

/-- the elements before / after a position of an index-sorted list -/
theorem c04_indices_split {l pre suf : List (DatedDerivation S)} {x : DatedDerivation S}
    (h : (l.map (·.globalIndex)).Pairwise (· < ·)) (e : l = pre ++ x :: suf) :
    (∀ a ∈ pre, a.globalIndex < x.globalIndex) ∧ (∀ a ∈ suf, x.globalIndex < a.globalIndex) := by
  subst e
  rw [List.pairwise_map, List.pairwise_append, List.pairwise_cons] at h
  exact ⟨fun a ha => h.2.2 a ha x List.mem_cons_self, fun a ha => h.2.1.1 a ha⟩

end
end Pubgrub

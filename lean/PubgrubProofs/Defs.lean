/-
Shared vocabulary of the proofs: the meaning of segments, ranges, version sets and terms.
Only definitions and the laws a version set must satisfy live here; no theorem about the model.
-/
import PubgrubModel
import Mathlib.Order.Defs.LinearOrder
import Mathlib.Order.Basic
import Mathlib.Order.Max
import Mathlib.Tactic.Order

namespace Pubgrub
open Bound

section RangeSemantics
variable {V : Type} [LinearOrder V]

/-- `v` is not below the start bound -/
def Bound.aboveStart (v : V) : Bound V → Prop
  | incl a => a ≤ v
  | excl a => a < v
  | unb => True

/-- `v` is not above the end bound -/
def Bound.belowEnd (v : V) : Bound V → Prop
  | incl a => v ≤ a
  | excl a => v < a
  | unb => True

/-- the points of a segment -/
def Seg.Mem (v : V) (s : Seg V) : Prop := Bound.aboveStart v s.1 ∧ Bound.belowEnd v s.2

/-- the points of a range: the union of its segments -/
def Range.Mem (v : V) (r : Range V) : Prop := ∃ s ∈ r, Seg.Mem v s

/-- the canonical form of `range.rs` (`check_invariants`): every segment valid, consecutive
segments separated by a gap.  Stated with the model's own executable check. -/
def Range.WF (r : Range V) : Prop := Range.checkInvariants r = true

end RangeSemantics

section VersionSetLaws
open VersionSet

/-- What it means for a `VersionSet` implementation to "behave as set operations":
a validity predicate closed under the constructors and operations, on which membership obeys
the set laws.  (`Range` is lawful on canonical segment lists only, hence the predicate.) -/
class LawfulVersionSet (S V : Type) [VersionSet S V] where
  Valid : S → Prop
  valid_empty : Valid (empty : S)
  valid_singleton : ∀ v : V, Valid (singleton v : S)
  valid_complement : ∀ s : S, Valid s → Valid (complement s)
  valid_intersection : ∀ a b : S, Valid a → Valid b → Valid (intersection a b)
  valid_full : Valid (full : S)
  valid_union : ∀ a b : S, Valid a → Valid b → Valid (union a b)
  contains_empty : ∀ v : V, contains (empty : S) v = false
  contains_singleton : ∀ v w : V, contains (singleton v : S) w = true ↔ w = v
  contains_complement : ∀ (s : S) (v : V), Valid s → contains (complement s) v = !contains s v
  contains_intersection : ∀ (a b : S) (v : V), Valid a → Valid b →
    contains (intersection a b) v = (contains a v && contains b v)
  contains_full : ∀ v : V, contains (full : S) v = true
  contains_union : ∀ (a b : S) (v : V), Valid a → Valid b →
    contains (union a b) v = (contains a v || contains b v)
  isDisjoint_iff : ∀ a b : S, Valid a → Valid b →
    (isDisjoint a b = true ↔ ∀ v : V, ¬ (contains a v = true ∧ contains b v = true))
  subsetOf_iff : ∀ a b : S, Valid a → Valid b →
    (subsetOf a b = true ↔ ∀ v : V, contains a v = true → contains b v = true)

/-- the laws of the five *required* methods only, with canonical equality: what property C17
assumes of a custom implementation -/
class LawfulRequired (S V : Type) [VersionSet S V] where
  Valid : S → Prop
  valid_empty : Valid (empty : S)
  valid_singleton : ∀ v : V, Valid (singleton v : S)
  valid_complement : ∀ s : S, Valid s → Valid (complement s)
  valid_intersection : ∀ a b : S, Valid a → Valid b → Valid (intersection a b)
  contains_empty : ∀ v : V, contains (empty : S) v = false
  contains_singleton : ∀ v w : V, contains (singleton v : S) w = true ↔ w = v
  contains_complement : ∀ (s : S) (v : V), Valid s → contains (complement s) v = !contains s v
  contains_intersection : ∀ (a b : S) (v : V), Valid a → Valid b →
    contains (intersection a b) v = (contains a v && contains b v)
  /-- canonical equality: valid sets with the same members are equal -/
  ext : ∀ a b : S, Valid a → Valid b → (∀ v : V, contains a v = contains b v) → a = b

end VersionSetLaws

section TermSemantics
variable {S V : Type} [VersionSet S V]

/-- The meaning of a term under a choice for its package: `some v` = version `v` is selected,
`none` = the package is not selected.  A positive term needs a selected version inside the set; a
negative term holds when nothing is selected or the selected version is outside the set. -/
def Term.eval : Term S → Option V → Bool
  | .pos s, some v => VersionSet.contains s v
  | .pos _, none => false
  | .neg s, some v => !VersionSet.contains s v
  | .neg _, none => true

/-- validity of the set inside a term -/
def Term.Valid [LawfulVersionSet S V] : Term S → Prop
  | .pos s => LawfulVersionSet.Valid V s
  | .neg s => LawfulVersionSet.Valid V s

end TermSemantics
end Pubgrub

/-
Helpers for `Termination.lean`, part 12: `unit_propagation` as called by the solver, and the trigger left
for it by the paths of `choose_version` / `get_dependencies` that do not decide (the proofs of
`trigAt_single` / `trigAt_declined` are those of `State.pending_single` / `State.pending_declined` of
PSInvariantAux8/9, which establish this very disjunct of `Pending`).
-/
import PubgrubProofs.TerminationAux11

set_option linter.unusedSectionVars false
set_option linter.unusedVariables false

namespace Pubgrub
open VersionSet

section PS
variable {P S V M Pr : Type} [DecidableEq P] [VersionSet S V] [DecidableEq S]
  [LawfulVersionSet S V]

/-- the next propagation for `p` will find a trigger -/
def TrigAt (st : State P S V M Pr) (p : P) : Prop :=
  ∃ ids id, SmallMap.get st.incompatibilities p = some ids ∧ id ∈ ids ∧ Trigger st p id

namespace State

/-- the new single-term incompatibility is a trigger -/
theorem trigAt_single (W : World P S V M) (root : P) (rv : V) {st st' : State P S V M Pr}
    {inc : Incompat P S V M} {p : P} {tp cur : Term S}
    (hterms : inc.terms = [(p, tp)]) (hdep : inc.asDependency = none)
    (hr : addIncompatibility st inc = .ok st') (h : PInv st) (hpos : st.ps.InflightPos p)
    (hcur : st.ps.termIntersectionForPackage p = some cur) (hrel : tp.relationWith cur ≠ .contradicted) :
    TrigAt st' p := by
  obtain ⟨e1, e2, e3, ids, hids, hmem⟩ := addIncompatibility_single hterms hdep hr
  refine ⟨ids, _, hids, hmem, ?_, inc, ?_, ?_, tp, cur, ?_, e1 ▸ hcur, hrel⟩
  · rw [e2]
    cases hg : SmallMap.get st.contradicted st.store.length with
    | none => rfl
    | some lvl => exact absurd (h.cache _ (SmallMap.mem_of_get hg)) (Nat.lt_irrefl _)
  · rw [e3, List.getElem?_append_right (Nat.le_refl _)]; simp
  · intro q t hm hq
    rw [hterms, List.mem_singleton] at hm
    injection hm with hm; exact absurd hm hq
  · unfold Incompat.get
    rw [hterms]; simp [SmallMap.get]


theorem trigAt_declined (W : World P S V M) (hW : W.SetsValid) (root : P) (rv : V)
    {st st1 : State P S V M Pr} {p : P} {v : V} {deps : List (P × S)} {start stop : Nat}
    (hs : SInv W root rv st) (h : PInv st)
    (hadd : st.addIncompatibilityFromDependencies p v deps = .ok (st1, start, stop))
    (hd : W.deps p v = .available deps)
    (hpos : st.ps.InflightPos p) {cur : Term S} (hcur : st.ps.termIntersectionForPackage p = some cur)
    (hv : cur.contains v = true)
    (hdecl : ∃ i ∈ (st1.store.drop start).take (stop - start),
      i.relation (fun q => if q = p then some (Term.exact v) else st1.ps.termIntersectionForPackage q) =
        .satisfied) :
    TrigAt st1 p := by
  obtain ⟨hp1, eps⟩ := addIncompatibilityFromDependencies_pinv hadd h
  have hs1 := addIncompatibilityFromDependencies_inv W hW root rv hadd hs hd
  unfold addIncompatibilityFromDependencies at hadd
  simp only [bind, Except.bind, pure, Except.pure] at hadd
  split at hadd
  · cases hadd
  rename_i st1' h1
  injection hadd with hadd
  injection hadd with e1 e2
  subst e1
  injection e2 with e2 e3
  subst e2; subst e3
  generalize hnews : deps.map (fun dep => Incompat.fromDependency (M := M) p (VersionSet.singleton v) dep) = news
    at h1 hdecl
  have hnewsj : ∀ (j : Nat) x, news[j]? = some x → ∃ dep, x = Incompat.fromDependency p (VersionSet.singleton v) dep := by
    intro j x hj
    have := List.mem_of_getElem? hj
    rw [← hnews, List.mem_map] at this
    obtain ⟨dep, _, e⟩ := this
    exact ⟨dep, e.symm⟩
  have hsA : SInv W root rv ({ st with store := st.store ++ news } : State P S V M Pr) := by
    refine ⟨?_, hs.root, hs.rv, hs.ps⟩
    apply storeInv_append W root rv _ _ hs.store
    intro k i hi
    have hmem := List.mem_of_getElem? hi
    rw [← hnews, List.mem_map] at hmem
    obtain ⟨d, hdm, rfl⟩ := hmem
    exact Incompat.fromDependency_good W hW root rv _ _ p v deps hd d hdm
  have hpre := foldlM_merge_prefix _ _ _ h1
  simp only [List.length_append, Nat.add_sub_cancel_left] at h1 hdecl
  obtain ⟨i, hi, hrel⟩ := hdecl
  obtain ⟨j, hj⟩ := List.getElem?_of_mem hi
  rw [List.getElem?_take] at hj
  split at hj
  · rename_i hjlt
    rw [List.getElem?_drop] at hj
    have hbj : (st.store ++ news)[st.store.length + j]? = some (news[j]) := by
      rw [List.getElem?_append_right (Nat.le_add_right _ _), Nat.add_sub_cancel_left]
      exact List.getElem?_eq_getElem hjlt
    have := hpre _ _ hbj
    rw [hj] at this; injection this with this
    obtain ⟨dep, hdep⟩ := hnewsj j _ (List.getElem?_eq_getElem hjlt)
    have gi := hsA.store _ _ hbj
    rw [← this] at hdep gi hbj
    -- the satisfied incompatibility will trigger
    have hsem : SemOK st.ps p v i := by
      have hall := Incompat.relationGo_satisfied_terms _ i.terms hrel
      have hkey : p ∈ i.terms.map Prod.fst := by rw [hdep]; exact fromDependency_key p _ dep
      rw [List.mem_map] at hkey
      obtain ⟨⟨p', tp⟩, hmem, rfl⟩ := hkey
      refine ⟨?_, tp, SmallMap.get_of_mem gi.nodup hmem, gi.sets _ _ hmem, ?_⟩
      · intro q t hm hq
        obtain ⟨o, ho, hsat⟩ := hall q t hm
        simp only [if_neg hq] at ho
        exact ⟨o, eps ▸ ho, hsat⟩
      · obtain ⟨o, ho, hsat⟩ := hall _ tp hmem
        simp only [if_true, Option.some.injEq] at ho
        subst ho
        rw [Term.contains_eq_eval]
        exact Term.relationWith_satisfied_sound tp _ (gi.sets _ _ hmem) (Term.valid_exact v) hsat (some v)
          ((Term.eval_exact v _).2 rfl)
    obtain ⟨c, hc1, ⟨ids, hids, hcm⟩, incc, hc3, hsemc⟩ := cand_fold W root rv st p v (st.store ++ news)
      _ _ _ h1 hsA (by simp) (fun _ _ hh => hh) (by
        intro id hid
        rw [List.mem_range'_1] at hid
        refine ⟨hid.1, ?_⟩
        have hlt : id - st.store.length < news.length := by omega
        obtain ⟨dep', hdep'⟩ := hnewsj _ _ (List.getElem?_eq_getElem hlt)
        refine ⟨news[id - st.store.length], ?_, ?_, ?_⟩
        · rw [List.getElem?_append_right hid.1]; exact List.getElem?_eq_getElem hlt
        · rw [hdep']; exact ⟨_, _, _, rfl⟩
        · rw [hdep']; exact fromDependency_key p _ dep')
      (Or.inr ⟨st.store.length + j, by rw [List.mem_range'_1]; omega, i, hbj, hsem⟩)
    obtain ⟨tp, htp, htpv, htpc⟩ := hsemc.2
    refine ⟨ids, c, hids, hcm, ?_, incc, hc3, ?_, tp, cur, htp, eps ▸ hcur, ?_⟩
    · have hcc := foldlM_merge_contradicted _ _ _ h1
      simp only at hcc
      rw [hcc]
      cases hg : SmallMap.get st.contradicted c with
      | none => rfl
      | some lvl =>
        have := h.cache _ (SmallMap.mem_of_get hg)
        simp only at this
        omega
    · intro q t hm hq
      rw [eps]; exact hsemc.1 q t hm hq
    · exact Term.relationWith_ne_contradicted_of_common tp cur v htpv
        (PartialSolution.termIntersection_valid hs.ps hcur) htpc hv
  · cases hj


end State
end PS

section
variable {P S V M Pr : Type} [DecidableEq P] [VersionSet S V] [DecidableEq S] [DecidableEq V]
  [LawfulVersionSet S V]
variable {W : World P S V M} {root : P} {rv : V} (fw : FiniteWorld W root rv)

namespace State

/-- `unit_propagation` for the package `p`: enough fuel, the invariants, the measure does not increase,
and it decreases when a trigger is waiting for `p` -/
theorem unitPropagation_term (ce : CanonEmpty S V) (C : Nat) {fuel : Nat} {st : State P S V M Pr} (p : P)
    (hm : MInv fw st) (hC : st.ps.nextGlobalIndex + rank fw st.ps ≤ C)
    (hf : 2 * rank fw st.ps + C + 3 ≤ fuel) :
    Fueled (unitPropagation fuel st p) (fun x => x.2 = none → MInv fw x.1 ∧
      rank fw x.1.ps ≤ rank fw st.ps ∧ x.1.ps.nextGlobalIndex + rank fw x.1.ps ≤ C ∧
      (TrigAt st p → rank fw x.1.ps < rank fw st.ps)) := by
  unfold unitPropagation
  have hm0 : MInv fw ({ st with buffer := [p] } : State P S V M Pr) :=
    hm.congr fw rfl rfl rfl rfl hm.p.cache
  refine (unitPropagationLoop_term fw ce C fuel _ hm0 hC (by
    show 2 * rank fw st.ps + [p].length + C + 2 ≤ fuel
    simp only [List.length_cons, List.length_nil]; omega)).mono ?_
  intro x _ hx hn
  obtain ⟨h1, h2, h3⟩ := hx hn
  refine ⟨h1, h2.rk, Nat.le_trans h2.idx hC, ?_⟩
  intro ⟨ids, id, k1, k2, k3⟩
  exact h3 ⟨p, ids, id, rfl, k1, k2, k3⟩

end State
end
end Pubgrub

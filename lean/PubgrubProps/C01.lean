/-
Property C01 — A returned solution satisfies every dependency of every selected version.

`C01_solution_valid`: for every world `W` (any registry: cyclic and self-dependencies, dependencies on
the empty set or on unknown packages, unavailable versions, any sets), every root, every lawful
version-set implementation, every well-behaved provider run (`ReachableWB`: answers consistent with `W`,
no callback error, `choose_version` inside the set it was given; ANY `prioritize`, ANY tie-breaking of the
queue, any fuel): if the run ends in `Ok(sel)` then `sel` is a solution in the sense of the property
(`IsSolution`: root at the requested version; every selected version offered by the provider with
available dependencies; every dependency (q, set) of every selected version — a dependency on the
package itself included — has q selected at a version contained in set), and every selected
(package, version) was returned by `choose_version` in this run.
-/
import PubgrubProofs.OwnInvariant
import PubgrubProofs.RangeAnyOrder
import PubgrubProofs.Examples

namespace Pubgrub.C01
open Pubgrub

variable {P S V M Pr E : Type} [DecidableEq P] [VersionSet S V] [DecidableEq S] [DecidableEq V]
  [LE Pr] [DecidableLE Pr] [LawfulVersionSet S V]

theorem C01_solution_valid (W : World P S V M) (hW : W.SetsValid) (debug : Bool) (fuel : Nat)
    (root : P) (rv : V) (s : SolverState P S V M Pr) (sel : List (P × V))
    (h : ReachableWB (E := E) W debug fuel root rv (s, .solution sel)) :
    IsSolution W root rv (fun p => SmallMap.get sel p) ∧
      (∀ p v, SmallMap.get sel p = some v → (p, v) ∈ s.added) :=
  solution_valid W hW debug fuel root rv s sel h

/-- unfolded: the dependency clause, self-dependencies included -/
theorem C01_dependencies_satisfied (W : World P S V M) (hW : W.SetsValid) (debug : Bool) (fuel : Nat)
    (root : P) (rv : V) (s : SolverState P S V M Pr) (sel : List (P × V))
    (h : ReachableWB (E := E) W debug fuel root rv (s, .solution sel))
    (p : P) (v : V) (hp : SmallMap.get sel p = some v) :
    v ∈ W.versions p ∧ ∃ ds, W.deps p v = .available ds ∧
      ∀ q set, (q, set) ∈ ds → ∃ w, SmallMap.get sel q = some w ∧ VersionSet.contains set w = true := by
  have hs := (solution_valid W hW debug fuel root rv s sel h).1
  exact ⟨hs.offered p v hp, hs.deps p v hp⟩

/-! ### `Range V` over ANY linear order (the discrete `u32`, `SemanticVersion` included), where `Range` is
not a `LawfulVersionSet`: pulled back along the embedding into `Range (V ×ₗ ℚ)` (RangeHom, HomSolver,
RangeAnyOrder) -/
section AnyOrder
variable {P V M Pr E : Type} [DecidableEq P] [LinearOrder V] [LE Pr] [DecidableLE Pr]

theorem C01_range_solution_valid (W : World P (Range V) V M) (hW : W.RangesWF) (debug : Bool) (fuel : Nat)
    (root : P) (rv : V) (s : SolverState P (Range V) V M Pr) (sel : List (P × V))
    (h : ReachableWB (E := E) W debug fuel root rv (s, .solution sel)) :
    IsSolution W root rv (fun p => SmallMap.get sel p) ∧
      (∀ p v, SmallMap.get sel p = some v → (p, v) ∈ s.added) :=
  range_solution_valid W hW debug fuel root rv s sel h

end AnyOrder

/-! Non-vacuity on concrete runs (PubgrubProofs/Examples.lean, evaluated by `decide +kernel`; registered in
obligations.json so that their axioms are audited too): `Examples.example_A_run`, `Examples.example_A_backtracks`, `Examples.example_A_solution_valid`. -/

end Pubgrub.C01

/-
Helpers for `RangeAnyOrder.lean`: transport of the solver-level vocabulary (`IsSolution`,
`ReachableFrom`, term evaluation, association lists) along an injective version-set homomorphism,
and the validity of the sets handed to the provider (for lawful version sets).
-/
import PubgrubProofs.HomSolver
import PubgrubProofs.PSInvariant
import PubgrubProofs.NonEmpty

set_option linter.unusedSectionVars false

namespace Pubgrub
open VersionSet

section Transport
variable {P S V S' V' M Pr E : Type} [VersionSet S V] [VersionSet S' V']

theorem Term.eval_mapH (h : VSetHom S V S' V') (t : Term S) (o : Option V) :
    (Term.mapH h t).eval (o.map h.ι) = t.eval o := by
  cases t <;> cases o <;> simp [Term.mapH, Term.eval, h.map_contains]

theorem DepsAnswer.mapH_available (h : VSetHom S V S' V') (d : DepsAnswer P S M) (ds' : List (P × S'))
    (hd : DepsAnswer.mapH h d = .available ds') : ∃ ds, d = .available ds ∧ ds' = depsMapH h ds := by
  cases d with
  | unavailable m => simp [DepsAnswer.mapH] at hd
  | available ds =>
    simp only [DepsAnswer.mapH, DepsAnswer.available.injEq] at hd
    exact ⟨ds, rfl, hd.symm⟩

theorem World.mapH_deps (h : VSetHom S V S' V') (back : V' → Option V)
    (hback : ∀ v, back (h.ι v) = some v) (W : World P S V M) (p : P) (v : V) :
    (World.mapH h back W).deps p (h.ι v) = DepsAnswer.mapH h (W.deps p v) := by
  simp [World.mapH, hback]

theorem mem_depsMapH (h : VSetHom S V S' V') (ds : List (P × S)) (q : P) (s' : S') :
    (q, s') ∈ depsMapH h ds ↔ ∃ s, (q, s) ∈ ds ∧ s' = h.f s := by
  simp only [depsMapH, List.mem_map, Prod.mk.injEq, Prod.exists]
  constructor
  · rintro ⟨a, b, hab, rfl, rfl⟩; exact ⟨b, hab, rfl⟩
  · rintro ⟨s, hs, rfl⟩; exact ⟨q, s, hs, rfl, rfl⟩

theorem mem_termsMapH (h : VSetHom S V S' V') (l : List (P × Term S)) (q : P) (t' : Term S') :
    (q, t') ∈ termsMapH h l ↔ ∃ t, (q, t) ∈ l ∧ t' = Term.mapH h t := by
  simp only [termsMapH, List.mem_map, Prod.mk.injEq, Prod.exists]
  constructor
  · rintro ⟨a, b, hab, rfl, rfl⟩; exact ⟨b, hab, rfl⟩
  · rintro ⟨s, hs, rfl⟩; exact ⟨q, s, hs, rfl, rfl⟩

theorem option_map_eq_some_inj (h : VSetHom S V S' V') (o : Option V) (v : V)
    (ho : o.map h.ι = some (h.ι v)) : o = some v := by
  cases o with
  | none => simp at ho
  | some w =>
    simp only [Option.map_some, Option.some.injEq] at ho
    rw [h.ι_inj _ _ ho]

/-- a solution of the world is carried to a solution of the image world -/
theorem IsSolution.push (h : VSetHom S V S' V') (back : V' → Option V)
    (hback : ∀ v, back (h.ι v) = some v) (W : World P S V M) (root : P) (rv : V) (σ : P → Option V)
    (hs : IsSolution W root rv σ) :
    IsSolution (World.mapH h back W) root (h.ι rv) (fun p => (σ p).map h.ι) := by
  refine ⟨?_, ?_, ?_⟩
  · simp [hs.root]
  · intro p v' hv'
    simp only [Option.map_eq_some_iff] at hv'
    obtain ⟨v, hv, rfl⟩ := hv'
    exact List.mem_map.2 ⟨v, hs.offered p v hv, rfl⟩
  · intro p v' hv'
    simp only [Option.map_eq_some_iff] at hv'
    obtain ⟨v, hv, rfl⟩ := hv'
    obtain ⟨ds, hds, hall⟩ := hs.deps p v hv
    refine ⟨depsMapH h ds, ?_, ?_⟩
    · rw [World.mapH_deps h back hback, hds]; rfl
    · intro q s' hq
      obtain ⟨s, hs', rfl⟩ := (mem_depsMapH h ds q s').1 hq
      obtain ⟨w, hw, hc⟩ := hall q s hs'
      exact ⟨h.ι w, by simp [hw], by rw [h.map_contains]; exact hc⟩

/-- a solution of the image world of the form `ι ∘ σ` comes from a solution of the world -/
theorem IsSolution.pull (h : VSetHom S V S' V') (back : V' → Option V)
    (hback : ∀ v, back (h.ι v) = some v) (W : World P S V M) (root : P) (rv : V) (σ : P → Option V)
    (hs : IsSolution (World.mapH h back W) root (h.ι rv) (fun p => (σ p).map h.ι)) :
    IsSolution W root rv σ := by
  refine ⟨?_, ?_, ?_⟩
  · exact option_map_eq_some_inj h _ _ hs.root
  · intro p v hv
    have := hs.offered p (h.ι v) (by simp [hv])
    obtain ⟨w, hw, he⟩ := List.mem_map.1 this
    rw [← h.ι_inj _ _ he]; exact hw
  · intro p v hv
    obtain ⟨ds', hds', hall⟩ := hs.deps p (h.ι v) (by simp [hv])
    rw [World.mapH_deps h back hback] at hds'
    obtain ⟨ds, hds, rfl⟩ := DepsAnswer.mapH_available h _ _ hds'
    refine ⟨ds, hds, ?_⟩
    intro q s hq
    obtain ⟨w', hw', hc⟩ := hall q (h.f s) ((mem_depsMapH h ds q _).2 ⟨s, hq, rfl⟩)
    simp only [Option.map_eq_some_iff] at hw'
    obtain ⟨w, hw, rfl⟩ := hw'
    exact ⟨w, hw, by rw [h.map_contains] at hc; exact hc⟩

/-- reachability in the dependency graph of a selection is reflected -/
theorem ReachableFrom.pull (h : VSetHom S V S' V') (back : V' → Option V)
    (hback : ∀ v, back (h.ι v) = some v) (W : World P S V M) (root : P) (σ : P → Option V) (p : P)
    (hr : ReachableFrom (World.mapH h back W) root (fun q => (σ q).map h.ι) p) :
    ReachableFrom W root σ p := by
  induction hr with
  | root => exact .root
  | dep p q v' ds' s' _ hv' hds' hq ih =>
    simp only [Option.map_eq_some_iff] at hv'
    obtain ⟨v, hv, rfl⟩ := hv'
    rw [World.mapH_deps h back hback] at hds'
    obtain ⟨ds, hds, rfl⟩ := DepsAnswer.mapH_available h _ _ hds'
    obtain ⟨s, hs, rfl⟩ := (mem_depsMapH h ds q s').1 hq
    exact .dep p q v ds s ih hv hds hs


theorem mem_mapVals_inj {K T T' : Type} (g : T → T') (hg : ∀ a b, g a = g b → a = b)
    (l : List (K × T)) (k : K) (v : T) (hm : (k, g v) ∈ l.map fun kv => (kv.1, g kv.2)) :
    (k, v) ∈ l := by
  obtain ⟨⟨a, b⟩, hab, he⟩ := List.mem_map.1 hm
  simp only [Prod.mk.injEq] at he
  obtain ⟨rfl, he⟩ := he
  rw [← hg _ _ he]; exact hab

/-- the image of a request determines its constructor -/
theorem Request.mapH_solution (h : VSetHom S V S' V') (r : Request P S V M Pr E) (sel' : List (P × V'))
    (hr : Request.mapH h r = .solution sel') : ∃ sel, r = .solution sel := by
  cases r <;> simp [Request.mapH] at hr
  exact ⟨_, rfl⟩

theorem Request.mapH_noSolution (h : VSetHom S V S' V') (r : Request P S V M Pr E)
    (t' : DerivationTree P S' V' M) (hr : Request.mapH h r = .noSolution t') :
    ∃ t, r = .noSolution t := by
  cases r <;> simp [Request.mapH] at hr
  exact ⟨_, rfl⟩

theorem Request.mapH_fault (h : VSetHom S V S' V') (r : Request P S V M Pr E) (f : Fault)
    (hr : Request.mapH h r = .fault f) : r = .fault f := by
  cases r <;> simp [Request.mapH] at hr
  rw [hr]

theorem Request.mapH_protocolError (h : VSetHom S V S' V') (r : Request P S V M Pr E) (m : String)
    (hr : Request.mapH h r = .protocolError m) : r = .protocolError m := by
  cases r <;> simp [Request.mapH] at hr
  rw [hr]

end Transport

section RequestsValid
variable {P S V M Pr E : Type} [DecidableEq P] [VersionSet S V] [DecidableEq S] [DecidableEq V]
  [LE Pr] [DecidableLE Pr] [LawfulVersionSet S V]

theorem prioritizing_of_prioritize {s : SolverState P S V M Pr} {p : P} {set : S}
    (hc : Solver.Coherent (E := E) (s, .prioritize p set)) :
    ∃ rest acc, s.phase = .prioritizing (p, set) rest acc := by
  unfold Solver.Coherent at hc
  split at hc
  · cases hc
  · rename_i cur rest acc hph
    simp only at hc
    injection hc with e1 e2
    subst e1; subst e2
    exact ⟨rest, acc, hph⟩
  · obtain ⟨_, hc⟩ := hc; cases hc
  · obtain ⟨_, hc, _⟩ := hc; cases hc
  · cases hc
  · simp [Request.isFinal] at hc

theorem PartialSolution.toPrioritize_valid {ps : PartialSolution P S V Pr} (hv : ps.TermsValid)
    {L : List (P × S)} (hL : ps.toPrioritize = .ok L) (cur : P × S) (hcur : cur ∈ L) :
    LawfulVersionSet.Valid V cur.2 := by
  unfold PartialSolution.toPrioritize at hL
  split_ifs at hL
  simp only [Except.ok.injEq] at hL
  subst hL
  simp only [List.mem_filterMap] at hcur
  obtain ⟨⟨p, pa⟩, hmem, hf⟩ := hcur
  have hmem' : (p, pa) ∈ ps.assignments := List.mem_of_mem_drop hmem
  have hpv := (hv (p, pa) hmem').inter
  simp only at hf
  split_ifs at hf
  unfold PartialSolution.potentialPackageFilter at hf
  split at hf
  · cases hf
  · rename_i t hint
    split at hf
    · rename_i s
      simp only [Option.some.injEq] at hf
      subst hf
      simp only at hpv ⊢
      rw [hint] at hpv
      exact hpv
    · cases hf

/-- for lawful version sets: the sets handed to `choose_version` and `prioritize` are valid -/
theorem request_set_valid (W : World P S V M) (hW : W.SetsValid) (debug : Bool) (fuel : Nat)
    (root : P) (rv : V) (s : SolverState P S V M Pr) (p : P) (set : S)
    (h : Reachable (E := E) W debug fuel root rv (s, .chooseVersion p set) ∨
         Reachable (E := E) W debug fuel root rv (s, .prioritize p set)) :
    LawfulVersionSet.Valid V set := by
  rcases h with h | h
  · have hph := choosing_of_chooseVersion (reachable_coherent W debug fuel root rv _ h)
    exact ((reachable_rinv W hW debug fuel root rv _ h).choosing p (.pos set) hph).1
  · obtain ⟨rest, acc, hph⟩ := prioritizing_of_prioritize (reachable_coherent W debug fuel root rv _ h)
    obtain ⟨done, hL, _⟩ := (reachable_rinv' W hW debug fuel root rv _ h).prioritizing _ _ _ hph
    exact PartialSolution.toPrioritize_valid (reachable_rinv W hW debug fuel root rv _ h).sinv.ps hL
      (p, set) (by simp)

end RequestsValid
end Pubgrub

/-
Property C08 — The default text report is a sound, well-formed linear proof.

Theorems about the model of `DefaultStringReporter` (PubgrubModel/Report.lean: the reporter as a
producer of *steps* = the calls a `ReportFormatter` receives, `report` and `report_with_formatter`
share it, so "the same holds through report_with_formatter" is by construction; the text templates of
`DefaultStringReportFormatter` are `formatStep`, compared with the real text by the correspondence).
For every tree whose derived nodes follow from their causes over a universe `U` of versions
(`Sound U`: all versions before `collapse_no_versions`, existing versions after it) and whose shared
ids are consistent (`SharedConsistent`, which C03 proves of resolve's trees).
-/
import PubgrubProofs.ReportSound
import PubgrubProofs.TreeLink
import PubgrubProofs.RangeAnyOrder2
import PubgrubProofs.ReportCollapsed

namespace Pubgrub.C08
open Pubgrub

variable {P S V M : Type} [DecidableEq P] [VersionSet S V] [DecidableEq S]

/-- each step's conclusion is entailed by the premises it cites: the facts named in the line, the
preceding line for an 'And because' step, the conclusions of the lines cited by number -/
theorem C08_steps_sound (U : P → V → Prop) (t : DerivationTree P S V M) (hs : t.Sound U)
    (hc : t.SharedConsistent) (lines : List (Line P S V M)) (h : reportSteps t = .ok (.inr lines))
    (i : Nat) (l : Line P S V M) (hl : lines[i]? = some l) (c : List (P × Term S))
    (hcl : l.step.conclusion = some c) : Entails U (stepPremises lines i l.step) c :=
  report_steps_sound U t hs hc lines h i l hl c hcl

/-- numbers are assigned consecutively from 1, a line carries at most one number -/
theorem C08_numbering (t : DerivationTree P S V M) (hc : t.SharedConsistent)
    (lines : List (Line P S V M)) (h : reportSteps t = .ok (.inr lines)) :
    allRefs lines = List.range' 1 (allRefs lines).length ∧ ∀ l ∈ lines, l.refs.length ≤ 1 :=
  report_numbering t hc lines h

/-- every numeric reference points to exactly one earlier line carrying that number, whose conclusion
is the clause it is cited for -/
theorem C08_refs_resolve (t : DerivationTree P S V M) (hc : t.SharedConsistent)
    (lines : List (Line P S V M)) (h : reportSteps t = .ok (.inr lines))
    (i : Nat) (l : Line P S V M) (hl : lines[i]? = some l) (k : Nat) (terms : List (P × Term S))
    (hk : (k, terms) ∈ l.step.citedRefs) :
    conclusionOfRef (lines.take i) k = some terms ∧
      ((lines.take i).filter fun l' => l'.refs.contains k).length = 1 :=
  report_refs_resolve t hc lines h i l hl k terms hk

/-- every external fact of the tree is cited at least once -/
theorem C08_externals_cited (t : DerivationTree P S V M) (hc : t.SharedConsistent)
    (lines : List (Line P S V M)) (h : reportSteps t = .ok (.inr lines))
    (e : External P S V M) (he : e ∈ t.externals) : ∃ l ∈ lines, e ∈ l.step.namedExternals :=
  report_externals_cited t hc lines h e he

/-- the last step concludes the tree's top node -/
theorem C08_last_concludes_top (t : DerivationTree P S V M) (hc : t.SharedConsistent)
    (lines : List (Line P S V M)) (h : reportSteps t = .ok (.inr lines)) :
    ∃ l, lines.getLast? = some l ∧ l.step.conclusion = some t.terms :=
  report_last_concludes_top t hc lines h

/-- the reporter terminates (the model's fuel is always enough), and an external top is reported by
`format_external` alone -/
theorem C08_terminates (t : DerivationTree P S V M) (hc : t.SharedConsistent) :
    ∃ r, reportSteps t = .ok r := report_terminates t hc

theorem C08_external_top (e : External P S V M) : reportSteps (.external e) = .ok (.inl e) :=
  report_external_top e

/-- C08 for every tree carried by a `NoSolution` result of `resolve`: the report is produced and every
step is entailed by the premises it cites (the hypotheses `Sound` / `SharedConsistent` hold of
resolve's trees by the store invariant) -/
theorem C08_on_resolve_trees {Pr E : Type} [DecidableEq V] [LE Pr] [DecidableLE Pr]
    [LawfulVersionSet S V]
    (W : World P S V M) (hW : W.SetsValid) (debug : Bool) (fuel : Nat)
    (root : P) (rv : V) (s : SolverState P S V M Pr) (tree : DerivationTree P S V M)
    (h : Reachable (E := E) W debug fuel root rv (s, .noSolution tree)) :
    (∃ r, reportSteps tree = .ok r) ∧
    ∀ lines, reportSteps tree = .ok (.inr lines) →
      ∀ i l, lines[i]? = some l → ∀ c, l.step.conclusion = some c →
        Entails (fun _ _ => True) (stepPremises lines i l.step) c :=
  noSolution_report_sound W hW debug fuel root rv s tree h

/-! ### `Range V` over ANY linear order (second batch of pull-backs, RangeAnyOrder2) -/
section AnyOrder2
variable {P V M Pr E : Type} [DecidableEq P] [LinearOrder V] [LE Pr] [DecidableLE Pr]

theorem C08_range_on_resolve_trees
    (W : World P (Range V) V M) (hW : W.RangesWF) (debug : Bool) (fuel : Nat)
    (root : P) (rv : V) (s : SolverState P (Range V) V M Pr) (tree : DerivationTree P (Range V) V M)
    (h : Reachable (E := E) W debug fuel root rv (s, .noSolution tree)) :
    (∃ r, reportSteps tree = .ok r) ∧
    ∀ lines, reportSteps tree = .ok (.inr lines) →
      ∀ i l, lines[i]? = some l → ∀ c, l.step.conclusion = some c →
        Entails (fun _ _ => True) (stepPremises lines i l.step) c :=
  by apply range_C08_on_resolve_trees (P := P) (V := V) (M := M) (Pr := Pr) (E := E) <;> assumption

end AnyOrder2

/-! ### resolve's trees, before and after `collapse_no_versions`: every clause of C08 at once

`ReportWellFormed U t` (PubgrubProofs/ReportCollapsed.lean) bundles: the report is produced; every step is
entailed (over the universe `U` of versions) by the premises it cites; numbers are consecutive from 1 and
at most one per line; every reference resolves to exactly one earlier line with the cited conclusion;
every external fact is cited; the last step concludes the top node.  `collapse_no_versions` preserves
"equal ids ⇒ equal subtrees" (`C08_collapse_sharedConsistent`). -/
section OnResolveTrees
variable {Pr E : Type} [DecidableEq V] [LE Pr] [DecidableLE Pr] [LawfulVersionSet S V]

theorem C08_collapse_sharedConsistent (t t' : DerivationTree P S V M) (h : t.SharedConsistent)
    (hc : t.collapseNoVersions = .ok t') : t'.SharedConsistent :=
  collapse_sharedConsistent t t' h hc

theorem C08_report_wellFormed_of (U : P → V → Prop) (t : DerivationTree P S V M) (hs : t.Sound U)
    (hc : t.SharedConsistent) : ReportWellFormed U t :=
  reportWellFormed_of U t hs hc

theorem C08_on_resolve_trees_full (W : World P S V M) (hW : W.SetsValid) (debug : Bool) (fuel : Nat)
    (root : P) (rv : V) (s : SolverState P S V M Pr) (tree : DerivationTree P S V M)
    (h : Reachable (E := E) W debug fuel root rv (s, .noSolution tree)) :
    ReportWellFormed (fun _ _ => True) tree :=
  by apply noSolution_report_wellFormed (Pr := Pr) (E := E) <;> assumption

theorem C08_on_collapsed_resolve_trees (W : World P S V M) (hW : W.SetsValid) (debug : Bool)
    (fuel : Nat) (root : P) (rv : V) (s : SolverState P S V M Pr) (tree : DerivationTree P S V M)
    (h : Reachable (E := E) W debug fuel root rv (s, .noSolution tree))
    (t' : DerivationTree P S V M) (hc : tree.collapseNoVersions = .ok t') :
    ReportWellFormed W.Exists t' :=
  by apply noSolution_collapsed_report_wellFormed (Pr := Pr) (E := E) <;> assumption

end OnResolveTrees

section OnResolveTreesAnyOrder
variable {P V M Pr E : Type} [DecidableEq P] [LinearOrder V] [LE Pr] [DecidableLE Pr]

theorem C08_range_on_resolve_trees_full (W : World P (Range V) V M) (hW : W.RangesWF) (debug : Bool) (fuel : Nat)
    (root : P) (rv : V) (s : SolverState P (Range V) V M Pr) (tree : DerivationTree P (Range V) V M)
    (h : Reachable (E := E) W debug fuel root rv (s, .noSolution tree)) :
    ReportWellFormed (fun _ _ => True) tree :=
  by apply range_report_wellFormed (Pr := Pr) (E := E) <;> assumption

theorem C08_range_on_collapsed_resolve_trees (W : World P (Range V) V M) (hW : W.RangesWF) (debug : Bool)
    (fuel : Nat) (root : P) (rv : V) (s : SolverState P (Range V) V M Pr)
    (tree : DerivationTree P (Range V) V M)
    (h : Reachable (E := E) W debug fuel root rv (s, .noSolution tree))
    (t' : DerivationTree P (Range V) V M) (hc : tree.collapseNoVersions = .ok t') :
    ReportWellFormed W.Exists t' :=
  by apply range_collapsed_report_wellFormed (Pr := Pr) (E := E) <;> assumption

end OnResolveTreesAnyOrder

end Pubgrub.C08

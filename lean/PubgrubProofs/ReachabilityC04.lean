/-
TARGET FILE: PubgrubProofs/ReachabilityC04.lean
Property C04: every package in a returned solution is the root or is reachable from the root through
dependencies of the selected versions.
Provided (statements with `sorry` in your workspace, proved by other agents; use, do not re-prove):
PubgrubProofs/PSInvariant.lean (`reachable_psWF`, `solution_exit`, …), PubgrubProofs/OwnInvariant.lean
(`solution_valid`: the returned selection is a solution), PubgrubProofs/SatisfierTheory.lean
(`solution_causeInv`: `LevelMono` and `CauseInv` at exit).  Proved: PubgrubProofs/StoreInvariant.lean
(`reachable_storeInv`: every stored incompatibility is valid of all solutions).
Helpers: PubgrubProofs/ReachabilityC04Aux1 … Aux4 (the chain invariant of the dated derivations, its
consequences, the facts at the exit state).
-/
import PubgrubProofs.SatDefs
import PubgrubProofs.PSInvariant
import PubgrubProofs.OwnInvariant
import PubgrubProofs.SatisfierTheory
import PubgrubProofs.ReachabilityC04Aux4

set_option linter.unusedSectionVars false
set_option linter.unusedVariables false

namespace Pubgrub
open VersionSet

section
variable {P S V M Pr : Type} [DecidableEq P] [VersionSet S V] [DecidableEq S]
  [LawfulVersionSet S V]
variable {W : World P S V M} {root : P} {rv : V} {st : State P S V M Pr} {σ : P → Option V}

/-- the minimal-counterexample argument, as a strong induction on the global index of the first
positive derivation: a selected package is reachable from the root -/
theorem C04ExitFacts.reach_of_firstPos (h : C04ExitFacts W root rv st σ) :
    ∀ (g : Nat) (q : P), C04FirstPosAt st q g → (∃ v, σ q = some v) → ReachableFrom W root σ q := by
  intro g
  induction g using Nat.strong_induction_on with
  | _ g ih =>
    intro q ⟨pa, pre, dd, suf, hpa, hdated, hpre, hddpos, hg⟩ ⟨v, hv⟩
    subst hg
    apply Classical.byContradiction
    intro hnr
    have hch := (h.pachain hpa).chain
    rw [hdated] at hch
    obtain ⟨inc, u, hinc, hget⟩ :=
      ddchain_firstPos st.store q pre none dd suf hch (by intro a ha; cases ha) hpre hddpos
    have good := h.store _ _ hinc
    apply good.valid _ (pruneSel_solution h.sol)
    have hddmem : dd ∈ pa.dated := by rw [hdated]; simp
    obtain ⟨inc', hinc', _, hall⟩ := h.cause q pa (SmallMap.mem_of_get hpa) dd hddmem
    rw [hinc] at hinc'; injection hinc' with hinc'; subst hinc'
    intro r tr hmem
    by_cases hrq : r = q
    · subst hrq
      have h1 : SmallMap.get inc.terms r = some tr := SmallMap.get_of_mem good.nodup hmem
      have h2 : SmallMap.get inc.terms r = some (.neg u) := hget
      rw [h1] at h2; injection h2 with h2; subst h2
      rw [pruneSel_of_not_reach hnr]; rfl
    · obtain ⟨par, t, hpar, htb, hsub⟩ := hall r tr hmem hrq
      cases hσ' : pruneSel W root σ r with
      | none =>
        cases tr with
        | neg X => rfl
        | pos X =>
          exfalso
          have htpos : t.isPositive = true := by
            cases t with
            | pos _ => rfl
            | neg _ => simp [Term.subsetOf] at hsub
          obtain ⟨dd2, hdd2, hdd2pos, hlt⟩ := h.pos_before hpar htb htpos
          obtain ⟨g', hg', hfp⟩ := h.firstPos_of_pos hpar hdd2 hdd2pos
          obtain ⟨gd, w, t', hint⟩ := h.decided_of_pos hpar hdd2 hdd2pos
          have hσr : σ r = some w := (h.sel r w).2 ⟨par, gd, t', hpar, hint⟩
          have hreach := ih g' (by omega) r hfp ⟨w, hσr⟩
          rw [pruneSel_of_reach hreach, hσr] at hσ'; cases hσ'
      | some w =>
        obtain ⟨hreach, hσr⟩ := pruneSel_some hσ'
        obtain ⟨par', gd, t', hpar', hint⟩ := (h.sel r w).1 hσr
        rw [hpar] at hpar'; injection hpar' with hpar'; subst hpar'
        have hc := h.termBefore_contains hpar hint htb
        have htv := h.termBefore_valid hpar htb
        have htrv : tr.Valid := good.sets r tr hmem
        rw [Term.contains_eq_eval] at hc
        exact (Term.subsetOf_iff t tr htv htrv).1 hsub (some w) hc

end

variable {P S V M Pr E : Type} [DecidableEq P] [VersionSet S V] [DecidableEq S] [DecidableEq V]
  [LE Pr] [DecidableLE Pr] [LawfulVersionSet S V]

/-- the facts at the exit state -/
theorem c04_exitFacts (W : World P S V M) (hW : W.SetsValid) (debug : Bool) (fuel : Nat)
    (root : P) (rv : V) (s : SolverState P S V M Pr) (sel : List (P × V))
    (hr : Reachable (E := E) W debug fuel root rv (s, .solution sel))
    (hsol : IsSolution W root rv (fun q => SmallMap.get sel q)) (hcause : s.st.CauseInv) :
    C04ExitFacts W root rv s.st (fun q => SmallMap.get sel q) := by
  obtain ⟨hwf, hnopos, hsel⟩ := solution_exit W hW debug fuel root rv s sel hr
  have hsinv := (reachable_rinv W hW debug fuel root rv _ hr).sinv
  have hchain := reachable_ddchain W hW debug fuel root rv _ hr
  refine ⟨hwf, hnopos, ?_, hsinv.store, hsinv.ps, hcause, hchain, hsol⟩
  intro p v
  constructor
  · intro hg; exact (hsel p v).1 (SmallMap.mem_of_get hg)
  · intro hd
    have hmem := (hsel p v).2 hd
    cases hg : SmallMap.get sel p with
    | none => exact absurd hmem ((SmallMap.get_eq_none_iff sel p).1 hg v)
    | some v' =>
      obtain ⟨pa, g, t, hpa, hint⟩ := hd
      obtain ⟨pa', g', t', hpa', hint'⟩ := (hsel p v').1 (SmallMap.mem_of_get hg)
      rw [hpa] at hpa'; injection hpa' with hpa'; subst hpa'
      rw [hint] at hint'; injection hint' with _ e2 _
      rw [e2]

/-- C04 from its two provided ingredients: the returned selection is a solution (`solution_valid`)
and `CauseInv` holds in the exit state (`solution_causeInv`) -/
theorem solution_reachable_of (W : World P S V M) (hW : W.SetsValid) (debug : Bool) (fuel : Nat)
    (root : P) (rv : V) (s : SolverState P S V M Pr) (sel : List (P × V))
    (hr : Reachable (E := E) W debug fuel root rv (s, .solution sel))
    (hsol : IsSolution W root rv (fun q => SmallMap.get sel q)) (hcause : s.st.CauseInv)
    (p : P) (v : V) (hp : SmallMap.get sel p = some v) :
    ReachableFrom W root (fun q => SmallMap.get sel q) p := by
  have hf := c04_exitFacts W hW debug fuel root rv s sel hr hsol hcause
  obtain ⟨pa, g, t, hpa, hint⟩ := (hf.sel p v).1 hp
  obtain ⟨g', hfp⟩ := hf.firstPos_of_decided hpa hint
  exact hf.reach_of_firstPos g' p hfp ⟨v, hp⟩

/-- C04 -/
theorem solution_reachable (W : World P S V M) (hW : W.SetsValid) (debug : Bool) (fuel : Nat)
    (root : P) (rv : V) (s : SolverState P S V M Pr) (sel : List (P × V))
    (h : ReachableWB (E := E) W debug fuel root rv (s, .solution sel))
    (p : P) (v : V) (hp : SmallMap.get sel p = some v) :
    ReachableFrom W root (fun q => SmallMap.get sel q) p := by
  have hr := c04_reachable_of_wb W debug fuel root rv _ h
  exact solution_reachable_of W hW debug fuel root rv s sel hr
    (solution_valid W hW debug fuel root rv s sel h).1
    (solution_causeInv W hW debug fuel root rv s sel hr).2 p v hp

end Pubgrub

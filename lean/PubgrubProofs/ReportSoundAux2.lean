/-
Helpers for `ReportSound.lean` (2): the invariant of the reporter state and its preservation by
`push`, `addLineRef` and the insertion into `sharedWithRef`.
-/
import PubgrubProofs.ReportSoundAux1

namespace Pubgrub
open VersionSet

set_option linter.unusedSectionVars false

section
variable {P S V M : Type} [DecidableEq P] [VersionSet S V] [DecidableEq S]
variable (G : DerivationTree P S V M → Prop) (U : P → V → Prop) (HS : Prop)

/-- a step is justified by the lines `pre` before it: (if `HS`) its conclusion follows from its
premises, and the numbers it cites resolve -/
def StepOK (pre : List (Line P S V M)) (st : Step P S V M) : Prop :=
  (HS → ∀ c, st.conclusion = some c → Entails U (premOf pre st) c) ∧
  ∀ k tt, (k, tt) ∈ st.citedRefs → RefOK pre k tt

def AllOK (lines : List (Line P S V M)) : Prop :=
  ∀ i l, lines[i]? = some l → StepOK U HS (lines.take i) l.step

theorem AllOK_snoc (a : List (Line P S V M)) (l : Line P S V M) :
    AllOK U HS (a ++ [l]) ↔ AllOK U HS a ∧ StepOK U HS a l.step := by
  constructor
  · intro h
    constructor
    · intro i l0 hi
      have hlt : i < a.length := (List.getElem?_eq_some_iff.mp hi).1
      have := h i l0 (by rw [List.getElem?_append_left hlt]; exact hi)
      rwa [List.take_append_of_le_length (by omega)] at this
    · have := h a.length l (by simp)
      simpa using this
  · rintro ⟨h1, h2⟩ i l0 hi
    by_cases hlt : i < a.length
    · rw [List.getElem?_append_left hlt] at hi
      rw [List.take_append_of_le_length (by omega)]
      exact h1 i l0 hi
    · have hlen : i < (a ++ [l]).length := (List.getElem?_eq_some_iff.mp hi).1
      have hi' : i = a.length := by simp at hlen; omega
      subst hi'
      simp at hi
      subst hi
      simpa using h2

theorem AllOK_nil : AllOK U HS ([] : List (Line P S V M)) := by
  intro i l h; simp at h

/-- the invariant of the reporter state -/
structure RepInv (r : Reporter P S V M) : Prop where
  shared : ∀ id k, SmallMap.get r.sharedWithRef id = some k → ∀ tt a b, G (.derived tt (some id) a b) →
    RefOK r.lines k tt ∧ ∀ e ∈ (DerivationTree.derived tt (some id) a b).externals, e ∈ namedAll r.lines
  refs : allRefs r.lines = List.range' 1 r.refCount
  one : ∀ l ∈ r.lines, l.refs.length ≤ 1
  ok : AllOK U HS r.lines

/-- what later states keep of earlier ones -/
structure Le (r r' : Reporter P S V M) : Prop where
  shared : ∀ id k, SmallMap.get r.sharedWithRef id = some k → SmallMap.get r'.sharedWithRef id = some k
  named : ∀ e ∈ namedAll r.lines, e ∈ namedAll r'.lines
  ref : ∀ k tt, RefOK r.lines k tt → RefOK r'.lines k tt

theorem Le.refl (r : Reporter P S V M) : Le r r := ⟨fun _ _ h => h, fun _ h => h, fun _ _ h => h⟩

theorem Le.trans {r1 r2 r3 : Reporter P S V M} (h12 : Le r1 r2) (h23 : Le r2 r3) : Le r1 r3 :=
  ⟨fun id k h => h23.shared id k (h12.shared id k h), fun e h => h23.named e (h12.named e h),
   fun k tt h => h23.ref k tt (h12.ref k tt h)⟩

theorem RepInv.new : RepInv G U HS (Reporter.new : Reporter P S V M) := by
  refine ⟨?_, ?_, ?_, AllOK_nil U HS⟩
  · intro id k h; simp [Reporter.new, SmallMap.get] at h
  · simp [Reporter.new, allRefs]
  · intro l h; simp [Reporter.new] at h

variable {G U HS}

theorem RepInv.ref_le {r : Reporter P S V M} (h : RepInv G U HS r) {l : Line P S V M} (hl : l ∈ r.lines)
    {k : Nat} (hk : k ∈ l.refs) : k ≤ r.refCount := by
  have : k ∈ allRefs r.lines := mem_allRefs.mpr ⟨l, hl, hk⟩
  rw [h.refs] at this
  simp at this
  omega

theorem Reporter.push_lines (r : Reporter P S V M) (st : Step P S V M) :
    (r.push st).lines = r.lines ++ [{ step := st, refs := [] }] := rfl

theorem RepInv.push {r : Reporter P S V M} (h : RepInv G U HS r) {st : Step P S V M}
    (hst : StepOK U HS r.lines st) : RepInv G U HS (r.push st) := by
  refine ⟨?_, ?_, ?_, ?_⟩
  · intro id k hg tt a b hG
    obtain ⟨h1, h2⟩ := h.shared id k hg tt a b hG
    refine ⟨h1.push st, fun e he => ?_⟩
    rw [Reporter.push_lines, namedAll_append]
    exact List.mem_append_left _ (h2 e he)
  · rw [Reporter.push_lines, allRefs_append, allRefs_single]
    simpa [Reporter.push] using h.refs
  · intro l hl
    rw [Reporter.push_lines, List.mem_append] at hl
    rcases hl with hl | hl
    · exact h.one l hl
    · simp at hl; subst hl; simp
  · rw [Reporter.push_lines, AllOK_snoc]
    exact ⟨h.ok, hst⟩

theorem Le.push (r : Reporter P S V M) (st : Step P S V M) : Le r (r.push st) := by
  refine ⟨fun _ _ h => h, ?_, fun k tt h => h.push st⟩
  intro e he
  rw [Reporter.push_lines, namedAll_append]
  exact List.mem_append_left _ he

theorem Reporter.push_getLast (r : Reporter P S V M) (st : Step P S V M) :
    (r.push st).lines.getLast? = some { step := st, refs := [] } := by
  rw [Reporter.push_lines]; simp

theorem named_push_self (r : Reporter P S V M) (st : Step P S V M) (e : External P S V M)
    (he : e ∈ st.namedExternals) : e ∈ namedAll (r.push st).lines := by
  rw [Reporter.push_lines, namedAll_append, namedAll_single]
  exact List.mem_append_right _ he

theorem lines_eq_of_getLast {lines : List (Line P S V M)} {l : Line P S V M}
    (h : lines.getLast? = some l) : lines = lines.dropLast ++ [l] := by
  obtain ⟨ys, rfl⟩ := List.getLast?_eq_some_iff.mp h
  simp

theorem Reporter.addLineRef_lines {r : Reporter P S V M} {l : Line P S V M}
    (h : r.lines.getLast? = some l) :
    r.addLineRef.lines = r.lines.dropLast ++ [{ l with refs := l.refs ++ [r.refCount + 1] }] := by
  simp [Reporter.addLineRef, h]

theorem Reporter.addLineRef_refCount (r : Reporter P S V M) :
    r.addLineRef.refCount = r.refCount + 1 := rfl

theorem Reporter.addLineRef_shared (r : Reporter P S V M) :
    r.addLineRef.sharedWithRef = r.sharedWithRef := rfl

theorem Le.addLineRef {r : Reporter P S V M} (h : RepInv G U HS r) {l : Line P S V M}
    (hl : r.lines.getLast? = some l) : Le r r.addLineRef := by
  have hlines := lines_eq_of_getLast hl
  refine ⟨fun _ _ h => h, ?_, ?_⟩
  · intro e he
    rw [Reporter.addLineRef_lines hl]
    rw [hlines] at he
    simpa [namedAll_append, namedAll_single] using he
  · intro k tt hk
    rw [Reporter.addLineRef_lines hl]
    obtain ⟨l', hl', hk'⟩ := hk.exists_line
    have := h.ref_le hl' hk'
    rw [hlines] at hk
    exact hk.addRef (by omega)

theorem RepInv.addLineRef {r : Reporter P S V M} (h : RepInv G U HS r) {l : Line P S V M}
    (hl : r.lines.getLast? = some l) (hrefs : l.refs = []) : RepInv G U HS r.addLineRef := by
  have hlines := lines_eq_of_getLast hl
  have hle := Le.addLineRef h hl
  refine ⟨?_, ?_, ?_, ?_⟩
  · intro id k hg tt a b hG
    obtain ⟨h1, h2⟩ := h.shared id k hg tt a b hG
    exact ⟨hle.ref k tt h1, fun e he => hle.named e (h2 e he)⟩
  · rw [Reporter.addLineRef_lines hl, allRefs_append, allRefs_single, Reporter.addLineRef_refCount]
    have := h.refs
    rw [hlines, allRefs_append, allRefs_single] at this
    dsimp only
    rw [← List.append_assoc, this, List.range'_1_concat, Nat.add_comm]
  · intro l' hl'
    rw [Reporter.addLineRef_lines hl, List.mem_append] at hl'
    rcases hl' with hl' | hl'
    · exact h.one l' (by rw [hlines]; exact List.mem_append_left _ hl')
    · simp at hl'; subst hl'; simp [hrefs]
  · rw [Reporter.addLineRef_lines hl, AllOK_snoc]
    have := h.ok
    rw [hlines, AllOK_snoc] at this
    exact this

/-- the fresh number resolves to the line that just got it -/
theorem RefOK.addLineRef {r : Reporter P S V M} (h : RepInv G U HS r) {l : Line P S V M}
    (hl : r.lines.getLast? = some l) {tt : List (P × Term S)} (hc : l.step.conclusion = some tt) :
    RefOK r.addLineRef.lines (r.refCount + 1) tt := by
  have hlines := lines_eq_of_getLast hl
  rw [Reporter.addLineRef_lines hl]
  refine RefOK.fresh ?_ hc
  intro l' hl' hk
  have := h.ref_le (l := l') (by rw [hlines]; exact List.mem_append_left _ hl') hk
  omega

theorem Reporter.addLineRef_getLast {r : Reporter P S V M} {l : Line P S V M}
    (hl : r.lines.getLast? = some l) :
    r.addLineRef.lines.getLast? = some { l with refs := l.refs ++ [r.refCount + 1] } := by
  rw [Reporter.addLineRef_lines hl]; simp

/-- recording a number for a shared id -/
theorem RepInv.insert {r : Reporter P S V M} (h : RepInv G U HS r) (id k : Nat)
    (hnew : ∀ tt a b, G (.derived tt (some id) a b) →
      RefOK r.lines k tt ∧ ∀ e ∈ (DerivationTree.derived tt (some id) a b).externals, e ∈ namedAll r.lines) :
    RepInv G U HS { r with sharedWithRef := SmallMap.insert r.sharedWithRef id k } := by
  refine ⟨?_, h.refs, h.one, h.ok⟩
  intro id' k' hg tt a b hG
  dsimp only at hg
  by_cases hid : id' = id
  · subst hid
    rw [SmallMap.get_insert_self] at hg
    cases hg
    exact hnew tt a b hG
  · rw [SmallMap.get_insert_ne _ _ _ _ hid] at hg
    exact h.shared id' k' hg tt a b hG

theorem Le.insert (r : Reporter P S V M) (id k : Nat) (hnone : SmallMap.get r.sharedWithRef id = none) :
    Le r { r with sharedWithRef := SmallMap.insert r.sharedWithRef id k } := by
  refine ⟨?_, fun _ h => h, fun _ _ h => h⟩
  intro id' k' hg
  dsimp only
  by_cases hid : id' = id
  · subst hid; rw [hnone] at hg; cases hg
  · rw [SmallMap.get_insert_ne _ _ _ _ hid]; exact hg

end
end Pubgrub

/-
Non-vacuity of the hypothesis `CanonicalEmpty` (used by C05 `no_panic` with debug assertions, by C12's
"the set has a member" and by the termination theorem): the two concrete version sets of the model have it —
`Range V` over a non-empty dense linear order without end points, and the bit set over `Fin n`.
(Over a discrete order `Range` does NOT have it: `1 < v < 2` over `Nat` is canonical, member-free and
not `empty`; see `Range.isDisjoint_iff_needs_dense`.)
-/
import PubgrubProofs.VSetInstances
import PubgrubProofs.NonEmpty

namespace Pubgrub
open VersionSet

namespace Range
variable {V : Type} [LinearOrder V] [DenselyOrdered V] [NoMinOrder V] [NoMaxOrder V] [Nonempty V]

instance canonicalEmpty : CanonicalEmpty (Range V) V where
  eq_empty_of_no_member := by
    intro s hs h
    by_contra hne
    obtain ⟨v, hv⟩ := exists_mem_of_ne_nil s hs hne
    have hc := (contains_iff_mem s v).2 hv
    have := h v
    change Range.contains s v = false at this
    rw [hc] at this
    cases this

end Range

namespace BitSet
variable {n : Nat}
attribute [local instance] instVersionSetBitSetFin lawful

theorem canonicalEmpty (n : Nat) : CanonicalEmpty (BitSet n) (Fin n) where
  eq_empty_of_no_member := by
    intro s hs h
    apply (lawfulRequired n).ext s _ hs (lawfulRequired n).valid_empty
    intro v
    rw [h v]
    exact ((lawfulRequired n).contains_empty v).symm

end BitSet

section OfRequired
variable {S V : Type} [DecidableEq S]

set_option warn.classDefReducibility false in
/-- any implementation of the five required methods that is lawful with canonical equality
(`LawfulRequired`) has canonical emptiness -/
theorem canonicalEmpty_ofRequired (empty : S) (singleton : V → S) (complement : S → S)
    (intersection : S → S → S) (contains : S → V → Bool)
    (R : @LawfulRequired S V (VersionSet.ofRequired empty singleton complement intersection contains)) :
    @CanonicalEmpty S V (VersionSet.ofRequired empty singleton complement intersection contains)
      (lawful_ofRequired empty singleton complement intersection contains R) := by
  letI := VersionSet.ofRequired empty singleton complement intersection contains
  letI := lawful_ofRequired empty singleton complement intersection contains R
  refine ⟨?_⟩
  intro s hs h
  apply R.ext s _ hs R.valid_empty
  intro v
  rw [h v]
  exact (R.contains_empty v).symm

end OfRequired
end Pubgrub

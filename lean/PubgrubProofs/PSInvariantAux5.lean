/-
Helpers for `PSInvariant.lean`, part 5: the functions of `Core` preserve I-PS; after a conflict
resolution or a propagation from a settled state I-Q holds without exception.
-/
import PubgrubProofs.PSInvariantAux4

set_option linter.unusedSectionVars false
set_option linter.unusedVariables false

namespace Pubgrub
open VersionSet

theorem SmallMap.mem_insert_sub {K T : Type} [DecidableEq K] {m : SmallMap K T} {k : K} {v : T} {x : K × T}
    (h : x ∈ SmallMap.insert m k v) : x = (k, v) ∨ x ∈ m := by
  induction m with
  | nil => simp [SmallMap.insert] at h; exact Or.inl h
  | cons y m ih =>
    obtain ⟨a, b⟩ := y
    by_cases hk : k = a
    · subst hk
      simp only [SmallMap.insert, if_true, List.mem_cons] at h
      rcases h with h | h
      · exact Or.inl h
      · exact Or.inr (List.mem_cons_of_mem _ h)
    · simp only [SmallMap.insert, if_neg hk, List.mem_cons] at h
      rcases h with h | h
      · exact Or.inr (h ▸ List.mem_cons_self)
      · rcases ih h with h | h
        · exact Or.inl h
        · exact Or.inr (List.mem_cons_of_mem _ h)

section PS
variable {P S V M Pr : Type} [DecidableEq P] [VersionSet S V] [DecidableEq S]
  [LawfulVersionSet S V]

namespace PartialSolution

theorem highest_le {ps : PartialSolution P S V Pr} (h : ps.WF) {p : P} {pa : PackageAssignments S V}
    (hpa : ps.getPA p = some pa) : pa.highest ≤ ps.currentDecisionLevel := by
  obtain ⟨i, _, hi⟩ := getElem_of_getPA hpa
  have he := h.entries i p pa hi
  by_cases hlt : i < ps.currentDecisionLevel
  · obtain ⟨g, v, _, h2, _⟩ := he.decided hlt; omega
  · obtain ⟨t, l, f, _, h2, _⟩ := he.undecided (Nat.le_of_not_lt hlt); exact h2

theorem satisfier_level {pa : PackageAssignments S V} (hx : pa.WFX) {term : Term S}
    {r : Option Nat × Nat × Nat} (hr : satisfier pa term = .ok r) : r.2.2 ≤ pa.highest := by
  unfold satisfier at hr
  split at hr
  · rename_i dd hdd
    injection hr with hr; subst hr
    exact hx.le_highest dd (List.mem_of_find?_eq_some hdd)
  · split at hr
    · injection hr with hr; subst hr; exact Nat.le_refl _
    · cases hr

theorem findSatisfier_level {ps : PartialSolution P S V Pr} (h : ps.WF') :
    ∀ (terms : List (P × Term S)) (acc m : SmallMap P (Option Nat × Nat × Nat)),
    (∀ kv ∈ acc, kv.2.2.2 ≤ ps.currentDecisionLevel) →
    terms.foldlM (m := R) (fun acc (pt : P × Term S) => do
      let pa ← unwrapOr (ps.getPA pt.1) "find_satisfier: Must exist"
      let s ← satisfier pa pt.2.negate
      pure (SmallMap.insert acc pt.1 s)) acc = .ok m →
    ∀ kv ∈ m, kv.2.2.2 ≤ ps.currentDecisionLevel := by
  intro terms
  induction terms with
  | nil =>
    intro acc m hacc hr
    simp only [List.foldlM_nil, pure, Except.pure] at hr
    injection hr with hr; subst hr; exact hacc
  | cons pt rest ih =>
    intro acc m hacc hr
    simp only [List.foldlM_cons, bind, Except.bind, pure, Except.pure] at hr
    split at hr
    · cases hr
    rename_i acc1 h1
    split at h1
    · cases h1
    rename_i pa hpa
    split at h1
    · cases h1
    rename_i s hs
    injection h1 with h1; subst h1
    refine ih _ m ?_ hr
    intro kv hkv
    rcases SmallMap.mem_insert_sub hkv with rfl | hkv
    · have hpa' := unwrapOr_ok hpa
      exact Nat.le_trans (satisfier_level (h.wfx _ (SmallMap.mem_of_get hpa')) hs) (highest_le h.wf hpa')
    · exact hacc kv hkv

theorem maxByIndex_mem : ∀ (m : List (P × (Option Nat × Nat × Nat))) (y : P × (Option Nat × Nat × Nat)),
    maxByIndex m = some y → y ∈ m := by
  intro m
  induction m with
  | nil => intro y h; simp [maxByIndex] at h
  | cons x rest ih =>
    intro y h
    unfold maxByIndex at h
    split at h
    · injection h with h; subst h; exact List.mem_cons_self
    · rename_i z hz
      split at h
      · injection h with h; subst h; exact List.mem_cons_self
      · injection h with h; subst h; exact List.mem_cons_of_mem _ (ih z hz)

/-- the level `satisfier_search` asks to backtrack to is below the current one -/
theorem satisfierSearch_level {ps : PartialSolution P S V Pr} (h : ps.WF') {inc : Incompat P S V M}
    {store : List (Incompat P S V M)} {pkg : P} {prev : Nat}
    (hr : ps.satisfierSearch inc store = .ok (pkg, .differentDecisionLevels prev)) :
    prev ≤ ps.currentDecisionLevel := by
  unfold satisfierSearch at hr
  simp only [bind, Except.bind, pure, Except.pure] at hr
  split at hr
  · cases hr
  rename_i m hm
  split at hr
  · cases hr
  rename_i y hy
  obtain ⟨sp, sc, sg, sdl⟩ := y
  simp only at hr
  split at hr
  · cases hr
  rename_i prev' hprev
  have hmem := maxByIndex_mem _ _ (unwrapOr_ok hy)
  have hlev := findSatisfier_level h inc.terms [] m (by intro kv hkv; cases hkv) hm _ hmem
  simp only at hlev
  split at hr
  · split at hr
    · cases hr
    · injection hr with hr; injection hr with _ hr; cases hr
  · rename_i hlt
    injection hr with hr; injection hr with _ hr; injection hr with hr; subst hr
    omega

end PartialSolution

/-- the part of the state-level invariant that concerns the partial solution: strengthened I-PS, and
the `contradicted` cache only mentions stored incompatibilities -/
structure PInv (st : State P S V M Pr) : Prop where
  wf : st.ps.WF'
  cache : ∀ kv ∈ st.contradicted, kv.1 < st.store.length

namespace State

/-- what `mergeIncompatibility` does (the `merged_dependencies` table is not described) -/
theorem mergeIncompatibility_spec {st st' : State P S V M Pr} {id : Nat}
    (hr : mergeIncompatibility st id = .ok st') :
    st'.ps = st.ps ∧ st'.contradicted = st.contradicted ∧ st'.buffer = st.buffer ∧
    ∃ inc, st.store[id]? = some inc ∧
      ((st'.store = st.store ∧
        st'.incompatibilities =
          inc.terms.foldl (fun idx kv => updIndex idx kv.1 (fun ids => ids ++ [id])) st.incompatibilities) ∨
       (∃ past pastInc merged, st.store[past]? = some pastInc ∧
          inc.mergeDependents pastInc = .ok (some merged) ∧ st'.store = st.store ++ [merged] ∧
          st'.incompatibilities =
            merged.terms.foldl (fun idx kv => updIndex idx kv.1 (fun ids => ids ++ [st.store.length]))
              (merged.terms.foldl (fun idx kv => updIndex idx kv.1 (fun ids => ids.filter (· ≠ past)))
                st.incompatibilities))) := by
  unfold mergeIncompatibility at hr
  simp only [bind, Except.bind, pure, Except.pure, throw, throwThe, MonadExceptOf.throw] at hr
  split at hr
  · cases hr
  rename_i inc hinc
  split at hr
  · split at hr
    · cases hr
    rename_i inc2 hinc2
    injection hinc2 with hinc2; subst hinc2
    split at hr
    · cases hr
    injection hr with hr; subst hr
    exact ⟨rfl, rfl, rfl, inc, storeGet_ok hinc, Or.inl ⟨rfl, rfl⟩⟩
  · split at hr
    · cases hr
    rename_i o ho
    split at hr
    · rename_i past merged
      split at hr
      · cases hr
      rename_i inc2 hinc2
      have hinc2' := storeGet_ok hinc2
      rw [List.getElem?_append_right (Nat.le_refl _)] at hinc2'
      simp only [Nat.sub_self, List.getElem?_cons_zero] at hinc2'
      injection hinc2' with hinc2'; subst hinc2'
      split at hr
      · cases hr
      injection hr with hr; subst hr
      obtain ⟨pastInc, hpast, hm⟩ := findMerge_ok ho
      exact ⟨rfl, rfl, rfl, inc, storeGet_ok hinc, Or.inr ⟨past, pastInc, merged, hpast, hm, rfl, rfl⟩⟩
    · split at hr
      · cases hr
      rename_i inc2 hinc2
      injection hinc2 with hinc2; subst hinc2
      split at hr
      · cases hr
      injection hr with hr; subst hr
      exact ⟨rfl, rfl, rfl, inc, storeGet_ok hinc, Or.inl ⟨rfl, rfl⟩⟩

theorem mergeIncompatibility_pinv {st st' : State P S V M Pr} {id : Nat}
    (hr : mergeIncompatibility st id = .ok st') (h : PInv st) : PInv st' ∧ st'.ps = st.ps := by
  obtain ⟨e1, e2, _, inc, _, hc⟩ := mergeIncompatibility_spec hr
  refine ⟨⟨e1 ▸ h.wf, ?_⟩, e1⟩
  rw [e2]
  intro kv hkv
  rcases hc with ⟨e3, _⟩ | ⟨_, _, _, _, _, e3, _⟩
  · rw [e3]; exact h.cache kv hkv
  · rw [e3, List.length_append]; exact Nat.lt_of_lt_of_le (h.cache kv hkv) (Nat.le_add_right _ _)

end State
end PS
end Pubgrub

/-
Helpers for `Termination.lean`, part 6: the satisfier of a term and the global index before which the
term is satisfied (towards F1: conflict resolution moves the satisfier strictly earlier).
-/
import PubgrubProofs.TerminationAux5

set_option linter.unusedSectionVars false
set_option linter.unusedVariables false

namespace Pubgrub
open VersionSet

section
variable {P S V M Pr : Type} [DecidableEq P] [VersionSet S V] [DecidableEq S] [LawfulVersionSet S V]

/-- the term `t` is satisfied by the assignments of the package with global index below `g` -/
def PackageAssignments.SatBefore (pa : PackageAssignments S V) (t : Term S) (g : Nat) : Prop :=
  ∃ t0, pa.termBefore g = some t0 ∧ t0.Imp t

/-- every term of the incompatibility is satisfied by the assignments with global index below `g` -/
def PartialSolution.SatBefore (ps : PartialSolution P S V Pr) (inc : Incompat P S V M) (g : Nat) : Prop :=
  ∀ q t, (q, t) ∈ inc.terms → ∃ pa, ps.getPA q = some pa ∧ pa.SatBefore t g

/-- what `satisfier` returns, with the minimality of the derivation found -/
theorem PartialSolution.satisfier_spec {pa : PackageAssignments S V} {start : Term S}
    {s : Option Nat × Nat × Nat} (h : PartialSolution.satisfier pa start = .ok s)
    (hidx : (pa.dated.map (·.globalIndex)).Pairwise (· < ·)) :
    (∃ dd ∈ pa.dated, dd.accumulated.isDisjoint start = true ∧
        s = (some dd.cause, dd.globalIndex, dd.decisionLevel) ∧
        ∀ dd' ∈ pa.dated, dd'.accumulated.isDisjoint start = true → dd.globalIndex ≤ dd'.globalIndex) ∨
    ((∀ dd ∈ pa.dated, dd.accumulated.isDisjoint start = false) ∧
        ∃ g v t, pa.inter = .decision g v t ∧ s = (none, g, pa.highest)) := by
  unfold PartialSolution.satisfier at h
  split at h
  · rename_i dd0 hdd0
    injection h with h; subst h
    left
    obtain ⟨hp, as, bs, hsplit, hbefore⟩ := List.find?_eq_some_iff_append.1 hdd0
    refine ⟨dd0, List.mem_of_find?_eq_some hdd0, hp, rfl, ?_⟩
    intro dd' hdd' hdis
    rw [hsplit] at hdd' hidx
    rw [List.pairwise_map, List.pairwise_append] at hidx
    obtain ⟨_, hl2, _⟩ := hidx
    rw [List.pairwise_cons] at hl2
    rcases List.mem_append.1 hdd' with h1 | h1
    · have := hbefore dd' h1
      rw [hdis] at this; cases this
    · rcases List.mem_cons.1 h1 with e | e
      · subst e; exact Nat.le_refl _
      · exact Nat.le_of_lt (hl2.1 dd' e)
  · rename_i hnone
    have hall : ∀ dd ∈ pa.dated, dd.accumulated.isDisjoint start = false := by
      intro dd hdd
      have := List.find?_eq_none.1 hnone dd hdd
      simpa using this
    split at h
    · rename_i g v t hinter
      injection h with h; subst h
      exact Or.inr ⟨hall, g, v, t, hinter, rfl⟩
    · cases h

/-- the satisfier is an assignment of the package -/
theorem PartialSolution.satisfier_event {pa : PackageAssignments S V} {start : Term S}
    {s : Option Nat × Nat × Nat} (h : PartialSolution.satisfier pa start = .ok s) :
    ∃ b, (s.2.1, s.2.2, b) ∈ pa.events := by
  unfold PartialSolution.satisfier at h
  split at h
  · rename_i dd0 hdd0
    injection h with h; subst h
    exact ⟨false, PackageAssignments.mem_events_dated (List.mem_of_find?_eq_some hdd0)⟩
  · split at h
    · rename_i g v t hinter
      injection h with h; subst h
      exact ⟨true, PackageAssignments.mem_events_decision hinter⟩
    · cases h

/-- S1: a term satisfied before `g` has its satisfier before `g` -/
theorem PackageAssignments.SatBefore.satisfier_lt {pa : PackageAssignments S V} {dl n i : Nat}
    (hw : pa.WFAt dl n i) (hv : pa.TermsValid) {t : Term S} (htv : t.Valid) {g : Nat}
    (hsat : pa.SatBefore t g) {s : Option Nat × Nat × Nat}
    (hs : PartialSolution.satisfier pa t.negate = .ok s) : s.2.1 < g := by
  obtain ⟨t0, ht0, himp⟩ := hsat
  have hspec := PartialSolution.satisfier_spec hs hw.indices
  -- the case where the term before `g` comes from a derivation
  have hfrom : ((pa.dated.filter fun dd => Decidable.decide (dd.globalIndex < g)).getLast?).map
      (·.accumulated) = some t0 → s.2.1 < g := by
    intro hh
    rw [Option.map_eq_some_iff] at hh
    obtain ⟨dd0, hdd0, rfl⟩ := hh
    have hm := List.mem_filter.1 (List.mem_of_getLast? hdd0)
    have hlt : dd0.globalIndex < g := by simpa using hm.2
    have hdis : dd0.accumulated.isDisjoint t.negate = true :=
      Term.disjoint_negate_of_imp (hv.dated dd0 hm.1) htv himp
    rcases hspec with ⟨dd, _, _, rfl, hmin⟩ | ⟨hall, _⟩
    · exact Nat.lt_of_le_of_lt (hmin dd0 hm.1 hdis) hlt
    · rw [hall dd0 hm.1] at hdis; cases hdis
  unfold PackageAssignments.termBefore at ht0
  split at ht0
  · rename_i gd v t' hinter
    split at ht0
    · rename_i hlt
      rcases hw.inter_cases with ⟨g', v', h1, _, _, h4, _⟩ | ⟨t'', l, f', h1, _⟩
      · rw [hinter] at h1; injection h1 with e1 _ _; subst e1
        rcases hspec with ⟨dd, hdd, _, rfl, _⟩ | ⟨_, g2, v2, t2, hint2, rfl⟩
        · exact Nat.lt_trans (h4 dd hdd) hlt
        · rw [hinter] at hint2; injection hint2 with e1 _ _; subst e1; exact hlt
      · rw [hinter] at h1; cases h1
    · exact hfrom ht0
  · exact hfrom ht0

/-- S3: a term whose satisfier is before `g` is satisfied before `g` -/
theorem PackageAssignments.satBefore_of_satisfier {pa : PackageAssignments S V} {dl n i : Nat}
    (hw : pa.WFAt dl n i) (hv : pa.TermsValid) (hsh : pa.Shrink) {t : Term S} (htv : t.Valid)
    (himp : pa.inter.term.Imp t) {s : Option Nat × Nat × Nat}
    (hs : PartialSolution.satisfier pa t.negate = .ok s) {g : Nat} (hg : s.2.1 < g) : pa.SatBefore t g := by
  have hspec := PartialSolution.satisfier_spec hs hw.indices
  -- a derivation before `g` that satisfies the term
  have hfrom : ∀ dd ∈ pa.dated, dd.globalIndex < g → dd.accumulated.Imp t →
      ∃ t0, ((pa.dated.filter fun dd => Decidable.decide (dd.globalIndex < g)).getLast?).map
        (·.accumulated) = some t0 ∧ t0.Imp t := by
    intro dd hdd hlt hdimp
    have hmf : dd ∈ pa.dated.filter fun dd => Decidable.decide (dd.globalIndex < g) :=
      List.mem_filter.2 ⟨hdd, by simpa using hlt⟩
    obtain ⟨l, hl⟩ := getLast?_of_mem hmf
    refine ⟨l.accumulated, by rw [hl]; rfl, ?_⟩
    have hs' : (pa.dated.filter fun dd => Decidable.decide (dd.globalIndex < g)).Pairwise
        (fun a b => b.accumulated.Imp a.accumulated) := List.Pairwise.sublist List.filter_sublist hsh
    rcases pairwise_getLast hs' hl dd hmf with e | e
    · subst e; exact hdimp
    · exact Term.Imp.trans e hdimp
  unfold PackageAssignments.SatBefore PackageAssignments.termBefore
  rcases hspec with ⟨dd, hdd, hdis, rfl, _⟩ | ⟨_, g2, v2, t2, hint2, rfl⟩
  · have hdimp : dd.accumulated.Imp t := Term.imp_of_disjoint_negate (hv.dated dd hdd) htv hdis
    split
    · rename_i gd v t' hinter
      split
      · refine ⟨t', rfl, ?_⟩
        rw [hinter] at himp; exact himp
      · exact hfrom dd hdd hg hdimp
    · exact hfrom dd hdd hg hdimp
  · rw [hint2]
    simp only
    rw [if_pos hg]
    refine ⟨t2, rfl, ?_⟩
    rw [hint2] at himp; exact himp

/-- a term satisfied by the current term is satisfied before the next global index -/
theorem PackageAssignments.satBefore_next {pa : PackageAssignments S V} {dl n i : Nat}
    (hw : pa.WFAt dl n i) {t : Term S} (himp : pa.inter.term.Imp t) : pa.SatBefore t n :=
  ⟨pa.inter.term, PackageAssignments.termBefore_current hw (Nat.le_refl _), himp⟩

theorem PartialSolution.satBefore_of_satisfies {ps : PartialSolution P S V Pr} (h : ps.WF')
    {inc : Incompat P S V M} (hsat : ps.Satisfies inc) : ps.SatBefore inc ps.nextGlobalIndex := by
  intro q t hqt
  obtain ⟨pa, hpa, himp⟩ := hsat q t hqt
  obtain ⟨i, _, hwf, _⟩ := h.entry_of_getPA hpa
  exact ⟨pa, hpa, PackageAssignments.satBefore_next hwf himp⟩

end
end Pubgrub

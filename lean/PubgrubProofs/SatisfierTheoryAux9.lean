/-
Helpers for `SatisfierTheory.lean`, part 9: conflict resolution and unit propagation keep the invariant
and do not reach a listed panic site.
-/
import PubgrubProofs.SatisfierTheoryAux8

set_option linter.unusedSectionVars false
set_option linter.unusedVariables false

namespace Pubgrub
open VersionSet

section
variable {P S V M Pr : Type} [DecidableEq P] [VersionSet S V] [DecidableEq S] [LawfulVersionSet S V]

/-- `add_derivation` succeeds when the cause contains the package and the package is not decided -/
theorem PartialSolution.addDerivation_ok {ps : PartialSolution P S V Pr} {p : P} {id : Nat}
    {store : List (Incompat P S V M)} {inc : Incompat P S V M} (hinc : store[id]? = some inc)
    (hget : (inc.get p).isSome = true) (hund : ∀ pa, ps.getPA p = some pa → ∃ t, pa.inter = .derivations t) :
    ∃ ps', ps.addDerivation p id store = .ok ps' := by
  cases hg : inc.get p with
  | none => rw [hg] at hget; cases hget
  | some t =>
    unfold PartialSolution.addDerivation
    simp only [storeGet_some hinc, hg, unwrapOr, bind, Except.bind, pure, Except.pure]
    cases hpa : ps.getPA p with
    | none =>
      rw [PartialSolution.indexOf_none_of_getPA hpa]
      exact ⟨_, rfl⟩
    | some pa =>
      obtain ⟨i, hi, _⟩ := PartialSolution.getElem_of_getPA hpa
      obtain ⟨t0, ht0⟩ := hund pa hpa
      rw [hi]
      simp only [ht0]
      exact ⟨_, rfl⟩

/-- from `relation = satisfied` to the semantic statement -/
theorem PartialSolution.satisfies_of_relation (W : World P S V M) (root : P) (rv : V)
    {st : State P S V M Pr} (hs : SInv W root rv st) {id : Nat} {inc : Incompat P S V M}
    (hinc : st.store[id]? = some inc) (hrel : st.ps.relation inc = .satisfied) : st.ps.Satisfies inc := by
  intro q t hqt
  obtain ⟨o, ho, hsat⟩ := Incompat.relationGo_satisfied_terms _ inc.terms hrel q t hqt
  simp only [PartialSolution.termIntersectionForPackage, Option.map_eq_some_iff] at ho
  obtain ⟨pa, hpa, rfl⟩ := ho
  exact ⟨pa, hpa, Term.imp_of_relationWith ((hs.store id inc hinc).sets q t hqt)
    (hs.ps _ (SmallMap.mem_of_get hpa)).inter hsat⟩

/-- at decision level 0 a satisfied incompatibility is terminal -/
theorem terminal_of_level0 (W : World P S V M) (root : P) (rv : V) {st : State P S V M Pr}
    (hs : SInv W root rv st) (ht : TInv root rv st) {cur : Nat} {inc : Incompat P S V M}
    (hinc : st.store[cur]? = some inc) (hsat : st.ps.Satisfies inc) (h0 : st.ps.currentDecisionLevel = 0) :
    inc.isTerminal root rv = true := by
  obtain ⟨_, g2, g3⟩ := ht.rootinv.lvl0 h0
  have hkeys := g2 inc (List.mem_of_getElem? hinc)
  have hn := (hs.store cur inc hinc).nodup
  cases hT : inc.terms with
  | nil => unfold Incompat.isTerminal; rw [hT]
  | cons x xs =>
    obtain ⟨q, t⟩ := x
    have hqm : (q, t) ∈ inc.terms := by rw [hT]; exact List.mem_cons_self
    have hq : q = root := hkeys (q, t) hqm
    subst hq
    have h1 := SmallMap.eq_singleton_of_keys hn hkeys hqm
    obtain ⟨pa, hpa, himp⟩ := hsat q t hqm
    obtain ⟨_, hint⟩ := g3 _ (SmallMap.mem_of_get hpa)
    simp only at hint
    rw [hint] at himp
    simp only [AssignInter.term] at himp
    unfold Incompat.isTerminal
    rw [h1]
    simp only [decide_true, Bool.true_and]
    exact (Term.exact_imp_iff t rv).1 himp

namespace State

/-- conflict resolution on a satisfied incompatibility -/
theorem conflictResolution_safe (W : World P S V M) (root : P) (rv : V) :
    ∀ (fuel : Nat) (st : State P S V M Pr) (cur : Nat) (changed : Bool),
    SInv W root rv st → PInv st → TInv root rv st →
    (∃ inc, st.store[cur]? = some inc ∧ st.ps.Satisfies inc) →
    Safe (conflictResolution fuel st cur changed)
      (fun x => ∀ pkg rc, x.2 = .ok (pkg, rc) → TInv root rv x.1 ∧ AfterConflict x.1 pkg rc) := by
  intro fuel
  induction fuel with
  | zero => intro st cur changed _ _ _ _; unfold conflictResolution; exact Safe.fuel
  | succ fuel ih =>
    intro st cur changed hs hp ht ⟨inc, hinc, hsat⟩
    have hw := hp.wf
    have gi := hs.store cur inc hinc
    unfold conflictResolution
    refine Safe.bind_ok (storeGet_some hinc) ?_
    have hterm : inc.isTerminal st.rootPackage st.rootVersion = inc.isTerminal root rv := by
      rw [hs.root, hs.rv]
    rw [hterm]
    split
    · exact Safe.ok (fun pkg rc h => by cases h)
    rename_i hnt
    have hnt' : inc.isTerminal root rv = false := by
      cases h : inc.isTerminal root rv with
      | true => exact absurd h hnt
      | false => rfl
    have hlvl : st.ps.currentDecisionLevel ≠ 0 := by
      intro h0
      rw [terminal_of_level0 W root rv hs ht hinc hsat h0] at hnt'; cases hnt'
    refine Safe.bind (PartialSolution.satisfierSearch_safe (TInv.searchCtx hs hp ht) gi.nodup gi.sets hsat hnt') ?_
    intro ⟨pkg, search⟩ hss hpost
    dsimp only
    cases search with
    | differentDecisionLevels prev =>
      dsimp only
      refine Safe.bind (backtrack_safe hp cur changed prev) ?_
      intro st1 hst1 ⟨hbt, hstore⟩
      refine Safe.ok ?_
      intro pkg' rc' h
      injection h with h; injection h with h1 h2; subst h1; subst h2
      have hpost' := hpost
      obtain ⟨_, h1, ⟨pa, hpa, hlt⟩, _⟩ := hpost'
      simp only at h1 hpa hlt
      have hdl : prev ≤ st.ps.currentDecisionLevel := by
        have := PartialSolution.highest_le hw.wf hpa; omega
      have hp1 := (backtrack_pinv hp hdl hst1).1
      exact ⟨tinv_backtrack W root rv hs hp ht hbt h1 hp1.wf rfl hstore,
        afterConflict_backtrack hp ht.shrink hbt hinc hpost rfl hstore⟩
    | sameDecisionLevels c =>
      dsimp only
      obtain ⟨hgetp, pa, dd, hpa, hdd, hc⟩ := hpost
      simp only at hgetp hpa hc
      obtain ⟨causeInc, hcause, hcget, _⟩ := ht.cause pkg pa (SmallMap.mem_of_get hpa) dd hdd
      rw [hc] at hcause
      refine Safe.bind_ok (storeGet_some hcause) ?_
      obtain ⟨prior, hprior⟩ := Incompat.priorCause_ok cur c hgetp hcget
      refine Safe.bind_ok hprior ?_
      have gp := Incompat.priorCause_good W root rv st.store cur c inc causeInc hinc hcause gi
        (hs.store _ _ hcause) pkg prior hprior st.store.length (List.getElem?_eq_some_iff.1 hinc).1
        (List.getElem?_eq_some_iff.1 hcause).1
      have hs2 : SInv W root rv ({ st with store := st.store ++ [prior] } : State P S V M Pr) :=
        ⟨storeInv_push W root rv st.store prior hs.store gp, hs.root, hs.rv, hs.ps⟩
      have hp2 : PInv ({ st with store := st.store ++ [prior] } : State P S V M Pr) := hp.storeAppend [prior]
      have hne : st.ps.assignments ≠ [] := by
        intro e
        have := SmallMap.mem_of_get hpa
        rw [e] at this; cases this
      have ht2 : TInv root rv ({ st with store := st.store ++ [prior] } : State P S V M Pr) :=
        ht.storeExt rfl (fun i inc' hi => by
          show (st.store ++ [prior])[i]? = some inc'
          rw [List.getElem?_append_left (List.getElem?_eq_some_iff.1 hi).1]; exact hi) hne
          (fun h0 => absurd h0 hlvl)
      refine ih _ _ _ hs2 hp2 ht2 ⟨prior, ?_, ?_⟩
      · show (st.store ++ [prior])[st.store.length]? = some prior
        rw [List.getElem?_append_right (Nat.le_refl _)]; simp
      · exact satisfies_priorCause W root rv hs hp ht hinc hcause hsat hpa hdd hc hprior


/-- the derivation made for an almost satisfied incompatibility -/
theorem almost_derivation (W : World P S V M) (root : P) (rv : V) {st : State P S V M Pr}
    (hs : SInv W root rv st) (hp : PInv st) (ht : TInv root rv st) {id : Nat} {inc : Incompat P S V M}
    (hinc : st.store[id]? = some inc) {p : P} (hrel : st.ps.relation inc = .almostSatisfied p) :
    (∃ ps', st.ps.addDerivation p id st.store = .ok ps') ∧
    ∀ ps', st.ps.addDerivation p id st.store = .ok ps' →
      ∀ st' : State P S V M Pr, st'.ps = ps' → st'.store = st.store → TInv root rv st' := by
  have hw := hp.wf
  have gi := hs.store id inc hinc
  obtain ⟨hoth, t, hpt, hself⟩ := Incompat.relationGo_almost _ p inc.terms hrel
  have hget : inc.get p = some t := SmallMap.get_of_mem gi.nodup hpt
  have htv : t.Valid := gi.sets p t hpt
  -- the package is not decided
  have hund : ∀ pa, st.ps.getPA p = some pa → ∃ t0, pa.inter = .derivations t0 := by
    intro pa hpa
    obtain ⟨i, _, hwf, _⟩ := hw.entry_of_getPA hpa
    rcases hwf.inter_cases with ⟨g, v, h1, _⟩ | ⟨t0, l, f, h1, _⟩
    · exfalso
      have hterm : st.ps.termIntersectionForPackage p = some (Term.exact v) := by
        simp only [PartialSolution.termIntersectionForPackage, hpa, Option.map_some, h1, AssignInter.term]
      rcases hself with hn | ⟨o, ho, hinc'⟩
      · rw [hterm] at hn; cases hn
      · rw [hterm] at ho; injection ho with ho; subst ho
        exact Term.sat_relationWith_exact_ne_inconclusive t v htv hinc'
    · exact ⟨t0, h1⟩
  have hsome : (inc.get p).isSome = true := by rw [hget]; rfl
  refine ⟨PartialSolution.addDerivation_ok hinc hsome hund, ?_⟩
  intro ps' hps st' e1 e2
  obtain ⟨inc', t0, t', pa', hinc', ht0, hnone, hstep⟩ :=
    PartialSolution.addDerivation_step W root rv hs.store hw.wf hps
  rw [hinc] at hinc'; injection hinc' with hinc'; subst hinc'
  rw [hget] at ht0; injection ht0 with ht0; subst ht0
  refine tinv_deriv W root rv hs hp ht hstep hinc hget hnone ?_ ?_ e1 e2
  · intro r tr hr hrp
    obtain ⟨o, ho, hsat⟩ := hoth r tr hr hrp
    simp only [PartialSolution.termIntersectionForPackage, Option.map_eq_some_iff] at ho
    obtain ⟨par, hpar, rfl⟩ := ho
    exact ⟨par, hpar, Term.imp_of_relationWith (gi.sets r tr hr) (hs.ps _ (SmallMap.mem_of_get hpar)).inter hsat⟩
  · intro h0
    obtain ⟨_, g2, g3⟩ := ht.rootinv.lvl0 h0
    have hproot : p = root := g2 inc (List.mem_of_getElem? hinc) (p, t) hpt
    refine ⟨hproot, ?_⟩
    cases hasg : st.ps.assignments with
    | nil => rfl
    | cons x xs =>
      exfalso
      have hxm : x ∈ st.ps.assignments := by rw [hasg]; exact List.mem_cons_self
      obtain ⟨hx1, hx2⟩ := g3 x hxm
      obtain ⟨q, qa⟩ := x
      simp only at hx1 hx2
      subst hx1
      have hpa : st.ps.getPA p = some qa := by rw [hproot]; exact PartialSolution.getPA_of_mem hw.wf hxm
      have hterm : st.ps.termIntersectionForPackage p = some (Term.exact rv) := by
        simp only [PartialSolution.termIntersectionForPackage, hpa, Option.map_some, hx2, AssignInter.term]
      rcases hself with hn | ⟨o, ho, hinc'⟩
      · rw [hterm] at hn; cases hn
      · rw [hterm] at ho; injection ho with ho; subst ho
        exact Term.sat_relationWith_exact_ne_inconclusive t rv htv hinc'

theorem propagateIncompats_safe (W : World P S V M) (root : P) (rv : V) :
    ∀ (ids : List Nat) (st : State P S V M Pr), SInv W root rv st → PInv st → TInv root rv st →
    Safe (propagateIncompats st ids) (fun x => TInv root rv x.1 ∧
      ∀ id, x.2 = some id → ∃ inc, x.1.store[id]? = some inc ∧ x.1.ps.relation inc = .satisfied) := by
  intro ids
  induction ids with
  | nil =>
    intro st hs hp ht
    unfold propagateIncompats
    exact Safe.ok ⟨ht, fun id h => by cases h⟩
  | cons id rest ih =>
    intro st hs hp ht
    unfold propagateIncompats
    split
    · exact ih st hs hp ht
    split
    · rename_i e he
      exact Safe.error_of_eq he (Safe.storeGet (fun _ _ => trivial))
    rename_i inc hinc
    have hinc' := storeGet_ok hinc
    have hid := storeGet_lt hinc
    split
    · rename_i hrel
      exact Safe.ok ⟨ht, fun id' h => by injection h with h; subst h; exact ⟨inc, hinc', hrel⟩⟩
    · rename_i p hrel
      obtain ⟨⟨ps', hps⟩, hnext⟩ := almost_derivation W root rv hs hp ht hinc' hrel
      rw [hps]
      dsimp only
      refine ih _ ⟨hs.store, hs.root, hs.rv, PartialSolution.addDerivation_termsValid W root rv hs.store hs.ps hps⟩
        (hp.derive hid hps _ _) (hnext ps' hps _ rfl rfl)
    · exact ih _ ⟨hs.store, hs.root, hs.rv, hs.ps⟩ (hp.cacheInsert hid _) (ht.congr rfl rfl)
    · exact ih st hs hp ht

theorem unitPropagationLoop_safe (W : World P S V M) (root : P) (rv : V) :
    ∀ (fuel : Nat) (st : State P S V M Pr), SInv W root rv st → PInv st → TInv root rv st →
    Safe (unitPropagationLoop fuel st) (fun x => x.2 = none → TInv root rv x.1) := by
  intro fuel
  induction fuel with
  | zero => intro st _ _ _; unfold unitPropagationLoop; exact Safe.fuel
  | succ fuel ih =>
    intro st hs hp ht
    unfold unitPropagationLoop
    split
    · exact Safe.ok (fun _ => ht)
    dsimp only
    split
    · exact Safe.panic (by not_listed)
    rename_i ids hids
    have hs0 : SInv W root rv ({ st with buffer := st.buffer.dropLast } : State P S V M Pr) :=
      ⟨hs.store, hs.root, hs.rv, hs.ps⟩
    have hp0 : PInv ({ st with buffer := st.buffer.dropLast } : State P S V M Pr) := ⟨hp.wf, hp.cache⟩
    have ht0 : TInv root rv ({ st with buffer := st.buffer.dropLast } : State P S V M Pr) := ht.congr rfl rfl
    have hprop := propagateIncompats_safe W root rv ids.reverse _ hs0 hp0 ht0
    split
    · rename_i e he
      exact Safe.error_of_eq he hprop.weaken
    · rename_i st1 he
      have hs1 := propagateIncompats_inv W root rv _ _ he hs0
      have hp1 := (propagateIncompats_pinv (o := none) _ _ he hp0).1
      have ht1 := (hprop.of_ok he).1
      exact ih st1 hs1 hp1 ht1
    · rename_i st1 cid he
      have hs1 := propagateIncompats_inv W root rv _ _ he hs0
      have hp1 := (propagateIncompats_pinv (o := none) _ _ he hp0).1
      obtain ⟨ht1, hsat⟩ := hprop.of_ok he
      obtain ⟨inc, hinc, hrel⟩ := hsat cid rfl
      have hcr := conflictResolution_safe W root rv fuel st1 cid false hs1 hp1 ht1
        ⟨inc, hinc, PartialSolution.satisfies_of_relation W root rv hs1 hinc hrel⟩
      split
      · rename_i e he2
        exact Safe.error_of_eq he2 hcr.weaken
      · exact Safe.ok (fun h => by cases h)
      · rename_i st2 pkg rc he2
        obtain ⟨hs2, _⟩ := conflictResolution_inv W root rv _ _ _ _ he2 hs1
        obtain ⟨hp2, _⟩ := conflictResolution_pinv _ _ _ _ he2 hp1
        obtain ⟨ht2, hac⟩ := hcr.of_ok he2 pkg rc rfl
        obtain ⟨inc2, hinc2, hget2, hoth2⟩ := hac.stored
        obtain ⟨ps', hps⟩ := PartialSolution.addDerivation_ok hinc2 hget2 hac.undecided
        rw [hps]
        dsimp only
        obtain ⟨inc', t0, t', pa', hinc', ht0, hnone, hstep⟩ :=
          PartialSolution.addDerivation_step W root rv hs2.store hp2.wf.wf hps
        rw [hinc2] at hinc'; injection hinc' with hinc'; subst hinc'
        refine ih _ ⟨hs2.store, hs2.root, hs2.rv,
            PartialSolution.addDerivation_termsValid W root rv hs2.store hs2.ps hps⟩
          (hp2.derive (List.getElem?_eq_some_iff.1 hinc2).1 hps _ _) ?_
        refine tinv_deriv W root rv hs2 hp2 ht2 hstep hinc2 ht0 hnone hoth2 ?_ rfl rfl
        intro h0
        have := hac.level
        simp only at this h0
        omega

theorem unitPropagation_safe (W : World P S V M) (root : P) (rv : V) (fuel : Nat) (st : State P S V M Pr)
    (p : P) (hs : SInv W root rv st) (hp : PInv st) (ht : TInv root rv st) :
    Safe (unitPropagation fuel st p) (fun x => x.2 = none → TInv root rv x.1) := by
  unfold unitPropagation
  exact unitPropagationLoop_safe W root rv fuel _ ⟨hs.store, hs.root, hs.rv, hs.ps⟩ ⟨hp.wf, hp.cache⟩
    (ht.congr rfl rfl)

end State
end
end Pubgrub
